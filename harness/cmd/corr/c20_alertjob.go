package main

import (
	"encoding/json"
	"fmt"
	"math/rand"
	"strings"
	"sync"
	"time"

	"github.com/siglens/siglens/pkg/alerts/alertsHandler"
	"github.com/siglens/siglens/pkg/alerts/alertutils"
	"github.com/valyala/fasthttp"
)

// suite "alertjob": aj <window> <interval> <cooldown> <op> ...          (Lean: Model/AlertJob.lean, Oracle/C20.lean)
//   op ::= e1|e0|f1|f0   one run of the alert's cron job: handleAlertCondition(<the object THE JOB holds>, matched)
//        | t<k>          k minutes pass
//        | R             restart: empty scheduler, database re-opened, InitAlertingService re-creates the job
//        | U<w>/<i>      POST update alert (ProcessUpdateAlertRequest) with EvalWindow w, EvalInterval i
//        | S<k> | Q      ProcessSilenceAlertRequest (k minutes) / ProcessUnsilenceAlertRequest
// The alert is created through ProcessCreateAlertRequest (own org id per case), so the first job object is the
// one the product creates.  Every evaluation is made with the *AlertDetails captured by the cron job
// (alertsHandler.VerifJobAlert), i.e. with whatever stale copy the product keeps; the cron scheduler itself never
// fires (jobs wait ≥ 60 s for their first run; a case lasts milliseconds and removes its jobs).
// Time and transport as in suite "alert".

func init() {
	register(&Suite{Name: "alertjob", Gen: genAlertJob, Exec: execAlertJob,
		Rule: "alert evaluation across job lifetimes: segments (drive to Firing / Pending / Normal, N = 1..4) × job re-creation by restart or by an edit (same / other N) × probe (not-matched then matched, …) with silence windows, cool-downs, failing contact point; real create/update/silence handlers, real InitAlertingService, evaluations with the object held by the cron job; non-trivial = a job re-creation followed by an evaluation"})
}

// ---------------------------------------------------------------- generator

func genAlertJob(r *rand.Rand, n int, tier string) []string {
	var out []string
	for i := 0; i < n; i++ {
		if r.Intn(40) == 0 { // malformed share
			bad := []string{
				"aj 2 1", "aj 1 2 0 e1", "aj 2 0 0 e1", "aj x 1 0 e1", "aj 2 1 0 e2", "aj 2 1 0 r", "aj 2 1 0 U2", "aj 2 1 0 U2/0 e1",
				"aj 2 1 0 U/1", "aj 2 1 0 S", "aj 2 1 0 Sx", "aj 2 1 0 e1 Q1", "aj 2 1 -1 e1", "aj 2 1 0 U2/1/1", "aj 3 1 0 e1 R R t",
			}
			out = append(out, bad[r.Intn(len(bad))])
			continue
		}
		if r.Intn(4) == 0 { // the set of alerts and their jobs (second line kind)
			out = append(out, genAlertSetLine(r))
			continue
		}
		interval := []int{1, 1, 2, 3}[r.Intn(4)]
		nn := []int{1, 2, 2, 3, 3, 4}[r.Intn(6)]
		window := nn*interval + r.Intn(interval)
		w0, i0 := window, interval // the definition the alert is created with (edits below change window / interval)
		cool := []int{0, 0, 0, 1, 2, 5}[r.Intn(6)]
		pFail := []int{0, 0, 15, 40}[r.Intn(4)]
		sil := 0
		var ops []string
		ev := func(m bool) {
			c := "e"
			if r.Intn(100) < pFail {
				c = "f"
			}
			if m {
				ops = append(ops, c+"1")
			} else {
				ops = append(ops, c+"0")
			}
		}
		tick := func() {
			var k int
			switch r.Intn(6) {
			case 0:
				k = cool
			case 1:
				k = cool - 1
			case 2:
				k = sil
			case 3:
				k = sil - 1
			case 4:
				k = r.Intn(3)
			default:
				k = r.Intn(12)
			}
			if k < 0 {
				k = 0
			}
			ops = append(ops, fmt.Sprintf("t%d", k))
		}
		sprinkle := func() {
			switch x := r.Intn(100); {
			case x < 30:
				tick()
			case x < 42:
				sil = []int{1, 2, 3, 5, 8}[r.Intn(5)]
				ops = append(ops, fmt.Sprintf("S%d", sil))
			case x < 48:
				sil = 0
				ops = append(ops, "Q")
			case x < 50:
				ops = append(ops, "S0") // refused
			case x < 52:
				ops = append(ops, fmt.Sprintf("U%d/%d", interval, interval+1+r.Intn(2))) // refused: window < interval
			}
		}
		if r.Intn(6) == 0 { // re-creation while still Inactive (before the first evaluation)
			if r.Intn(2) == 0 {
				ops = append(ops, "R")
			} else {
				ops = append(ops, fmt.Sprintf("U%d/%d", window, interval))
			}
		}
		nseg := 1 + r.Intn(5)
		for sg := 0; sg < nseg; sg++ {
			// (a) drive the alert to a chosen state
			switch r.Intn(5) {
			case 0, 1: // Firing: N matched evaluations in a row
				for k := 0; k < nn; k++ {
					ev(true)
					if r.Intn(8) == 0 {
						tick()
					}
				}
			case 2: // Pending (Firing when N = 1)
				ev(false)
				ev(true)
			case 3: // Normal
				ev(false)
			default: // a stretch of arbitrary outcomes
				for k := 1 + r.Intn(nn+2); k > 0; k-- {
					ev(r.Intn(100) < 70)
				}
			}
			sprinkle()
			// (b) re-create the job
			switch x := r.Intn(100); {
			case x < 55:
				ops = append(ops, "R")
			case x < 70: // edit that keeps the definition
				ops = append(ops, fmt.Sprintf("U%d/%d", window, interval))
			case x < 90: // edit to another N (1..4), possibly another interval
				interval = []int{1, 1, 2, 3}[r.Intn(4)]
				nn = 1 + r.Intn(4)
				window = nn*interval + r.Intn(interval)
				ops = append(ops, fmt.Sprintf("U%d/%d", window, interval))
			}
			if r.Intn(4) == 0 {
				sprinkle()
			}
			// (c) probe
			switch r.Intn(6) {
			case 0, 1: // not matched, then matched: must be Pending for N ≥ 2
				ev(false)
				ev(true)
			case 2:
				ev(true)
			case 3:
				ev(false)
				for k := 0; k < nn; k++ {
					ev(true)
				}
			case 4:
				ev(true)
				ev(false)
				ev(true)
			default:
				for k := 1 + r.Intn(nn+1); k > 0; k-- {
					ev(r.Intn(100) < 75)
				}
			}
			if r.Intn(3) == 0 {
				sprinkle()
			}
		}
		kind := "aj"
		if r.Intn(4) == 0 {
			kind = "ajm" // the same life of a Metrics alert
		}
		out = append(out, fmt.Sprintf("%s %d %d %d %s", kind, w0, i0, cool, strings.Join(ops, " ")))
	}
	return out
}

// ---------------------------------------------------------------- exec

var ajOnce sync.Once

type ajOp struct {
	kind    byte // 'e' 't' 'R' 'U' 'S' 'Q'
	matched bool
	sendOk  bool
	k       uint64
	w, i    uint64
}

func parseAjOp(s string) (ajOp, bool) {
	switch s {
	case "e1":
		return ajOp{kind: 'e', matched: true, sendOk: true}, true
	case "e0":
		return ajOp{kind: 'e', matched: false, sendOk: true}, true
	case "f1":
		return ajOp{kind: 'e', matched: true, sendOk: false}, true
	case "f0":
		return ajOp{kind: 'e', matched: false, sendOk: false}, true
	case "R":
		return ajOp{kind: 'R'}, true
	case "Q":
		return ajOp{kind: 'Q'}, true
	}
	if s == "" {
		return ajOp{}, false
	}
	switch s[0] {
	case 't', 'S':
		if k, ok := alertParseDec(s[1:]); ok {
			return ajOp{kind: s[0], k: k}, true
		}
	case 'U':
		p := strings.Split(s[1:], "/")
		if len(p) == 2 {
			w, ok1 := alertParseDec(p[0])
			i, ok2 := alertParseDec(p[1])
			if ok1 && ok2 && i != 0 {
				return ajOp{kind: 'U', w: w, i: i}, true
			}
		}
	}
	return ajOp{}, false
}

// ajMetricsQuery: the metrics query of a Metrics alert (what the UI posts as metricsQueryParams); `n` varies the
// metric name so that an update carries a query that differs from the stored one
func ajMetricsQuery(n int) string {
	return fmt.Sprintf(`{"start":"now-5m","end":"now","queries":[{"name":"a","query":"avg by (host) (verif_metric_%d)","qlType":"promql"}],"formulas":[{"formula":"a"}]}`, n)
}

var ajMetricsSeq int

func ajAlertBody(name string, window, interval uint64, id string) []byte {
	return ajTypedBody(name, uint64(alertutils.AlertTypeLogs), window, interval, id)
}

func ajTypedBody(name string, ty, window, interval uint64, id string) []byte {
	m := map[string]interface{}{
		"alert_name":    name,
		"alert_type":    ty,
		"contact_id":    alertContactID,
		"queryParams":   map[string]string{"data_source": "Logs", "queryLanguage": "Splunk QL", "queryText": "* | stats count", "startTime": "now-5m", "endTime": "now", "index": "*", "queryMode": "Builder"},
		"condition":     alertutils.IsAbove,
		"value":         0,
		"eval_for":      window,
		"eval_interval": interval,
		"message":       "verif {{alert_rule_name}}",
	}
	if id != "" {
		m["alert_id"] = id
	}
	if ty == uint64(alertutils.AlertTypeMetrics) {
		ajMetricsSeq++
		m["metricsQueryParams"] = ajMetricsQuery(ajMetricsSeq)
	}
	b, _ := json.Marshal(m)
	return b
}

// ajCheckJob: the cron job of an alert runs the evaluator of the alert's type, every EvalInterval minutes
func ajCheckJob(id string, ty alertutils.AlertType, interval uint64, fail func(sig, msg string), where string) {
	secs, fn, err := alertsHandler.VerifJobSchedule(id)
	if err != nil {
		return // the number of jobs is judged elsewhere
	}
	want := "evaluateLogAlert"
	if ty == alertutils.AlertTypeMetrics {
		want = "evaluateMetricsAlert"
	}
	if !strings.HasSuffix(fn, "."+want) {
		fail("alert-job/wrong-evaluator", fmt.Sprintf("%s: the job of an alert of type %d runs %s, expected %s", where, ty, fn, want))
	}
	if interval > (1<<63)/60 || secs != int64(interval*60) {
		fail("alert-job/job-interval-differs-from-definition", fmt.Sprintf("%s: eval_interval is %d minutes, the cron job runs every %d seconds", where, interval, secs))
	}
}

func ajPost(h func(*fasthttp.RequestCtx), body []byte) int {
	ctx := &fasthttp.RequestCtx{}
	ctx.Request.SetBody(body)
	h(ctx)
	return ctx.Response.StatusCode()
}

// the cron jobs of a case wait ≥ 60 s for their first run; a case that took anywhere near that long cannot be trusted
func execAlertJob(line string) Result {
	t0 := time.Now()
	res := execAlertJobLine(line)
	if time.Since(t0) > 45*time.Second {
		return Result{Out: "harness-error:case-took-too-long"}
	}
	return res
}

func execAlertJobLine(line string) Result {
	f := strings.Fields(line)
	if len(f) >= 1 && f[0] == "ajs" {
		return execAlertSet(f[1:])
	}
	if len(f) < 4 || (f[0] != "aj" && f[0] != "ajm") {
		return Result{Out: "bad-op"}
	}
	ty := uint64(alertutils.AlertTypeLogs)
	if f[0] == "ajm" {
		ty = uint64(alertutils.AlertTypeMetrics)
	}
	var nums [3]uint64
	for i := 0; i < 3; i++ {
		v, ok := alertParseDec(f[1+i])
		if !ok {
			return Result{Out: "bad-op"}
		}
		nums[i] = v
	}
	window, interval, cooldown := nums[0], nums[1], nums[2]
	var ops []ajOp
	for _, t := range f[4:] {
		op, ok := parseAjOp(t)
		if !ok {
			return Result{Out: "bad-op"}
		}
		ops = append(ops, op)
	}
	if interval == 0 || window < interval {
		return Result{Out: "bad-op"} // the creation request is refused (window < interval) / no job can exist (interval 0)
	}
	if err := bootAlertWorld(); err != nil {
		return Result{Out: "harness-error:" + err.Error()}
	}
	ajOnce.Do(alertsHandler.VerifJobPrepare)
	alertSeq++
	org := int64(100000 + alertSeq)
	name := fmt.Sprintf("verif-aj-%d", alertSeq)

	if st := ajPost(func(c *fasthttp.RequestCtx) { alertsHandler.ProcessCreateAlertRequest(c, org) }, ajTypedBody(name, ty, window, interval, "")); st != 200 {
		return Result{Out: fmt.Sprintf("harness-error:create-alert:%d", st)}
	}
	alertsHandler.VerifJobQuiesce()
	all, err := alertsHandler.VerifGetAllAlerts(org)
	if err != nil || len(all) != 1 {
		return Result{Out: fmt.Sprintf("harness-error:created-alert-not-listed:%v", err)}
	}
	id := all[0].AlertId
	defer func() {
		ajPost(alertsHandler.ProcessDeleteAlertRequest, []byte(fmt.Sprintf(`{"alert_id":%q}`, id)))
		alertsHandler.VerifJobQuiesce()
	}()
	if err := alertsHandler.VerifSetCooldown(id, cooldown); err != nil {
		return Result{Out: "harness-error:set-cooldown"}
	}

	var res Result
	var toks []string
	tags := map[string]bool{}
	if ty == uint64(alertutils.AlertTypeMetrics) {
		tags["metrics-alert"] = true
	}
	curInterval := interval
	// --- the property statement, tracked independently of the model, in simulated minutes
	n := window / interval // N of the DEFINITION (changes with accepted edits)
	var silence uint64     // silence minutes of the definition (changes with accepted silence requests)
	var outcomes []bool
	sinceU := -1 // evaluations since the last accepted edit (-1: none so far)
	var now uint64
	haveSent := false
	var lastSentAt uint64
	lastSentFiring := false
	// distribution bookkeeping: the latest job re-creation and what followed it
	recreated, evalAfterRecreate := false, false
	recreatedAt := "" // DB state letter at the latest re-creation
	sawUnmatchedSince := false
	fail := func(sig, msg string) {
		res.Fails = append(res.Fails, PropFail{Sig: sig, Msg: msg})
	}
	dbState := func() string {
		a, err := alertsHandler.VerifGetAlert(id)
		if err != nil {
			return "?"
		}
		return alertStLetter(a.State)
	}
	finish := func(extra string) Result {
		if extra != "" {
			toks = append(toks, extra)
		}
		res.Out = strings.Join(toks, " ")
		res.Nontrivial = evalAfterRecreate
		for t := range tags {
			res.Tags = append(res.Tags, t)
		}
		return res
	}
	jobDef := func(prefix string) (string, bool) {
		j, err := alertsHandler.VerifJobAlert(id)
		if err != nil {
			fail("alert-job/not-exactly-one-job", fmt.Sprintf("after %s: %v", prefix, err))
			return fmt.Sprintf("jobs=%d", alertsHandler.VerifJobCount(id)), false
		}
		if uint64(j.AlertType) != ty {
			fail("alert-job/wrong-evaluator", fmt.Sprintf("after %s: the job holds an alert of type %d, the alert was created with type %d", prefix, j.AlertType, ty))
		}
		ajCheckJob(id, alertutils.AlertType(ty), curInterval, fail, "after "+prefix)
		return fmt.Sprintf("%s%d/%d", prefix, j.EvalWindow, j.EvalInterval), true
	}
	ajCheckJob(id, alertutils.AlertType(ty), curInterval, fail, "after create")

	for idx, op := range ops {
		switch op.kind {
		case 't':
			now += op.k
			if err := alertsHandler.VerifShiftLastSent(id, op.k); err != nil {
				return Result{Out: "harness-error:shift-time"}
			}
			continue
		case 'R':
			at := dbState()
			if err := alertsHandler.VerifJobRestart(org); err != nil {
				return Result{Out: "harness-error:restart:" + err.Error()}
			}
			tok, ok := jobDef("R")
			if !ok {
				return finish(tok)
			}
			toks = append(toks, tok)
			recreated, recreatedAt, sawUnmatchedSince = true, at, false
			tags["restart@"+at] = true
			continue
		case 'U':
			at := dbState()
			body := ajTypedBody(name, ty, op.w, op.i, id)
			st := ajPost(alertsHandler.ProcessUpdateAlertRequest, body)
			alertsHandler.VerifJobQuiesce()
			if st == 200 {
				curInterval = op.i
				if ty == uint64(alertutils.AlertTypeMetrics) {
					// keyed store: an accepted update is what a read returns — the metrics query included
					var sent struct {
						Q string `json:"metricsQueryParams"`
					}
					_ = json.Unmarshal(body, &sent)
					if a, err := alertsHandler.VerifGetAlert(id); err == nil && a.MetricsQueryParamsString != sent.Q {
						fail("alert-update/metrics-query-not-stored", fmt.Sprintf("op %d: the update of the Metrics alert was accepted, but a read returns the metrics query it had before (sent %s, stored %s)", idx+1, sent.Q, a.MetricsQueryParamsString))
					}
				}
			}
			if st != 200 {
				toks = append(toks, "U!")
				tags["edit-refused"] = true
				if _, ok := jobDef("U"); !ok { // a refused edit must leave the job in place
					return finish("jobs=0")
				}
				continue
			}
			tok, ok := jobDef("U")
			if !ok {
				return finish(tok)
			}
			toks = append(toks, tok)
			if op.w/op.i != n {
				tags["edit-changes-N"] = true
			}
			n = op.w / op.i
			sinceU = 0
			recreated, recreatedAt, sawUnmatchedSince = true, at, false
			tags["edit@"+at] = true
			continue
		case 'S':
			st := ajPost(alertsHandler.ProcessSilenceAlertRequest, []byte(fmt.Sprintf(`{"alert_id":%q,"silence_minutes":%d}`, id, op.k)))
			if st != 200 {
				toks = append(toks, "S!")
			} else {
				toks = append(toks, "S")
				silence = op.k
				tags["silence-request"] = true
			}
			continue
		case 'Q':
			st := ajPost(alertsHandler.ProcessUnsilenceAlertRequest, []byte(fmt.Sprintf(`{"alert_id":%q}`, id)))
			if st != 200 {
				toks = append(toks, "Q!")
			} else {
				toks = append(toks, "Q")
				silence = 0
			}
			continue
		}
		// ---- one run of the cron job, with the object the job holds
		job, err := alertsHandler.VerifJobAlert(id)
		if err != nil {
			fail("alert-job/not-exactly-one-job", fmt.Sprintf("before evaluation (op %d): %v", idx+1, err))
			return finish(fmt.Sprintf("jobs=%d", alertsHandler.VerifJobCount(id)))
		}
		alertHook.mu.Lock()
		alertHook.fail = !op.sendOk
		alertHook.mu.Unlock()
		d0, _ := alertHook.snapshot()
		herr := alertsHandler.VerifHandleAlertCondition(job, op.matched, "")
		d1, _ := alertHook.snapshot()
		if herr != nil {
			return Result{Out: fmt.Sprintf("harness-error:handleAlertCondition:%v", herr)}
		}
		got, err := alertsHandler.VerifGetAlert(id)
		if err != nil {
			return Result{Out: "harness-error:get-alert"}
		}
		notif, err := alertsHandler.VerifGetNotification(id)
		if err != nil {
			return Result{Out: "harness-error:get-notification"}
		}
		state := got.State
		delivered := d1 - d0
		nt := "0"
		if delivered == 1 {
			nt = "1"
		} else if delivered > 1 {
			nt = "X"
		}
		toks = append(toks, fmt.Sprintf("%s:%s:%s", alertStLetter(state), nt, alertStLetter(notif.LastAlertState)))
		tags[fmt.Sprintf("N=%d", n)] = true
		if !op.sendOk {
			tags["contact-point-down"] = true
		}
		if recreated {
			evalAfterRecreate = true
			if !op.matched {
				sawUnmatchedSince = true
			} else if sawUnmatchedSince && n >= 2 {
				tags["class:recreate@"+recreatedAt+",then-unmatched,matched,N>=2"] = true
			}
		}

		// ---- property: the state is the window function of the last N outcomes — a restart grants NO latitude
		outcomes = append(outcomes, op.matched)
		if sinceU >= 0 {
			sinceU++
		}
		where := fmt.Sprintf("evaluation #%d (op %d) N=%d", len(outcomes), idx+1, n)
		if !op.matched {
			if state != alertutils.Normal {
				fail("alert-state/not-normal-after-unmatched", where+": condition not matched but state is "+alertStLetter(state))
			}
		} else {
			if state != alertutils.Pending && state != alertutils.Firing {
				fail("alert-state/matched-but-not-pending-or-firing", where+": condition matched but state is "+alertStLetter(state))
			} else if n >= 1 {
				k := len(outcomes)
				full := k >= int(n)
				if full {
					for _, o := range outcomes[k-int(n):] {
						full = full && o
					}
				}
				uInWindow := sinceU >= 0 && sinceU < int(n) // an edit lies within the last N evaluations: either answer is granted
				if !uInWindow {
					if full && state != alertutils.Firing {
						fail("alert-state/not-firing-after-full-window", where+": the condition held in all of the last N evaluations but state is "+alertStLetter(state))
					}
					if !full && state == alertutils.Firing {
						fail("alert-state/firing-without-full-window", where+": Firing although the condition did not hold in all of the last N evaluations")
					}
				}
			}
		}

		// ---- property: notifications
		cooldownOver := !haveSent || now-lastSentAt >= cooldown
		silenceOver := !haveSent || now-lastSentAt >= silence
		if silence > 0 && haveSent && !silenceOver {
			tags["evaluation-inside-silence-window"] = true
		}
		if delivered > 1 {
			fail("alert-notify/duplicate", where+fmt.Sprintf(": %d webhook requests for one evaluation", delivered))
		}
		if delivered >= 1 {
			status := alertHook.delivered[d1-1]
			switch {
			case state == alertutils.Firing && status != "firing", state == alertutils.Normal && status != "normal":
				fail("alert-notify/status-mismatch", where+": state "+alertStLetter(state)+" but webhook status "+status)
			case state != alertutils.Firing && state != alertutils.Normal:
				fail("alert-notify/sent-while-pending", where+": notification sent in state "+alertStLetter(state))
			}
			if haveSent && now-lastSentAt < cooldown {
				fail("alert-notify/within-cooldown", where+fmt.Sprintf(": notification %d min after the previous one, cool-down %d min", now-lastSentAt, cooldown))
			}
			if state == alertutils.Normal && !(haveSent && lastSentFiring) {
				fail("alert-notify/normal-without-preceding-firing", where+": Normal notification although the last notification sent was not Firing")
			}
			haveSent, lastSentAt, lastSentFiring = true, now, state == alertutils.Firing
		} else if op.sendOk && cooldownOver && silenceOver {
			if state == alertutils.Firing {
				fail("alert-notify/firing-not-notified", where+": Firing, webhook reachable, cool-down and silence over, yet no notification")
			}
			if state == alertutils.Normal && haveSent && lastSentFiring {
				fail("alert-notify/return-to-normal-not-notified", where+": back to Normal after a Firing notification, webhook reachable, cool-down and silence over, yet no notification")
			}
		}
	}
	hist, err := alertsHandler.VerifHistoryStates(id, 100000)
	if err != nil {
		return Result{Out: "harness-error:history"}
	}
	return finish(fmt.Sprintf("h=%d", len(hist)))
}

// ---------------------------------------------------------------- second line kind: the SET of alerts and their jobs
// ajs <op> ...   (Lean: Model/AlertSet.lean)   alerts are numbered by create attempt 1, 2, …
//   c<w>/<i> create (Logs) | m<w>/<i> create (Metrics) | k<type> create with alert_type <type>, window 1, interval 1 | u<k>:<w>/<i> update | d<k> delete
//   z<k> / y<k>  the row of alert k is rewritten behind the API to interval 0 / alert_type 0 (a row an older version left)
//   R restart
// → per op  <ok|ref|->|<stored rows k:w/i:type>|<job tags ascending, one per job>

func genAlertSetLine(r *rand.Rand) string {
	if r.Intn(30) == 0 {
		bad := []string{"ajs", "ajs k2", "ajs c1", "ajs c1/1 u1", "ajs c1/1 u1:2", "ajs c1/1 dx", "ajs c1/1 r", "ajs c/1", "ajs z", "ajs c1/1 u1:1/1/1"}
		return bad[r.Intn(len(bad))]
	}
	var ops []string
	created := 0
	def := func() string { // a definition: mostly acceptable, else one of the refused shapes
		switch x := r.Intn(100); {
		case x < 6:
			// the longest interval that fits the scheduler's time.Duration (accepted), and two that do not: int(i*60) is
			// negative / wraps around 2^64 to 44 s.  (Intervals whose seconds overflow only the Duration are NOT generated:
			// before patch c20-17 such a job fires at once, inside the harness process.)
			i := []string{"153722867", "153722867280912931", "307445734561825861"}[r.Intn(3)]
			return i + "/" + i
		case x < 60:
			i := 1 + r.Intn(3)
			return fmt.Sprintf("%d/%d", i*(1+r.Intn(3))+r.Intn(i), i)
		case x < 75:
			return "0/0"
		case x < 85:
			return fmt.Sprintf("%d/0", 1+r.Intn(5))
		default:
			i := 2 + r.Intn(3)
			return fmt.Sprintf("%d/%d", r.Intn(i), i)
		}
	}
	create := func() {
		created++
		if r.Intn(6) == 0 {
			ops = append(ops, fmt.Sprintf("k%d", []int{0, 0, 3, 4, 7, 255, 1}[r.Intn(7)]))
		} else if r.Intn(4) == 0 {
			ops = append(ops, "m"+def())
		} else {
			ops = append(ops, "c"+def())
		}
	}
	pick := func() int { // mostly an alert that exists
		if created == 0 || r.Intn(10) == 0 {
			return created + 1 + r.Intn(2)
		}
		return 1 + r.Intn(created)
	}
	if r.Intn(3) == 0 { // by construction: an alert, a refused create, another alert, a restart
		ops = append(ops, "c1/1")
		ops = append(ops, []string{"c0/0", "c3/0", "k0", "k7"}[r.Intn(4)])
		ops = append(ops, "c2/1", "R")
		created = 3
	}
	for n := 2 + r.Intn(9); n > 0; n-- {
		switch x := r.Intn(100); {
		case x < 40:
			create()
		case x < 58:
			ops = append(ops, "R")
		case x < 72:
			ops = append(ops, fmt.Sprintf("u%d:%s", pick(), def()))
		case x < 82:
			ops = append(ops, fmt.Sprintf("d%d", pick()))
		case x < 91:
			ops = append(ops, fmt.Sprintf("z%d", pick()), "R")
		default:
			ops = append(ops, fmt.Sprintf("y%d", pick()), "R")
		}
	}
	if r.Intn(2) == 0 {
		ops = append(ops, "R")
	}
	return "ajs " + strings.Join(ops, " ")
}

type ajsOp struct {
	kind byte // c k u d z y R
	k    uint64
	w, i uint64
	ty   uint64
}

func parseAjsPair(s string) (uint64, uint64, bool) {
	p := strings.Split(s, "/")
	if len(p) != 2 {
		return 0, 0, false
	}
	a, ok1 := alertParseDec(p[0])
	b, ok2 := alertParseDec(p[1])
	return a, b, ok1 && ok2
}

func parseAjsOp(s string) (ajsOp, bool) {
	if s == "R" {
		return ajsOp{kind: 'R'}, true
	}
	if len(s) < 2 {
		return ajsOp{}, false
	}
	rest := s[1:]
	switch s[0] {
	case 'c':
		w, i, ok := parseAjsPair(rest)
		return ajsOp{kind: 'c', w: w, i: i, ty: 1}, ok
	case 'm':
		w, i, ok := parseAjsPair(rest)
		return ajsOp{kind: 'c', w: w, i: i, ty: 2}, ok
	case 'k':
		t, ok := alertParseDec(rest)
		return ajsOp{kind: 'k', w: 1, i: 1, ty: t}, ok && t != 2
	case 'd', 'z', 'y':
		k, ok := alertParseDec(rest)
		return ajsOp{kind: s[0], k: k}, ok
	case 'u':
		p := strings.Split(rest, ":")
		if len(p) != 2 {
			return ajsOp{}, false
		}
		k, ok := alertParseDec(p[0])
		w, i, ok2 := parseAjsPair(p[1])
		return ajsOp{kind: 'u', k: k, w: w, i: i, ty: 1}, ok && ok2
	}
	return ajsOp{}, false
}

func ajsBody(name string, ty, window, interval uint64, id string) []byte {
	if ty == uint64(alertutils.AlertTypeMetrics) {
		return ajTypedBody(name, ty, window, interval, id)
	}
	m := map[string]interface{}{}
	_ = json.Unmarshal(ajAlertBody(name, window, interval, id), &m)
	m["alert_type"] = ty
	m["eval_for"], m["eval_interval"] = window, interval // (the detour through float64 would round the large intervals)
	b, _ := json.Marshal(m)
	return b
}

func execAlertSet(toks []string) Result {
	if len(toks) == 0 {
		return Result{Out: "bad-op"}
	}
	var ops []ajsOp
	for _, t := range toks {
		op, ok := parseAjsOp(t)
		if !ok {
			return Result{Out: "bad-op"}
		}
		ops = append(ops, op)
	}
	if err := bootAlertWorld(); err != nil {
		return Result{Out: "harness-error:" + err.Error()}
	}
	ajOnce.Do(alertsHandler.VerifJobPrepare)
	alertSeq++
	org := int64(100000 + alertSeq)
	nameOf := func(k uint64) string { return fmt.Sprintf("verif-ajs-%d-%d", alertSeq, k) }
	var res Result
	tags := map[string]bool{"kind=alert-set": true}
	fail := func(sig, msg string) { res.Fails = append(res.Fails, PropFail{Sig: sig, Msg: msg}) }
	idOf := map[uint64]string{} // every alert id ever seen, by attempt number
	type rowT struct {
		k, w, i, ty uint64
		jobs        int
	}
	// what the database and the scheduler say now
	snapshot := func() (string, []rowT, map[uint64]int, error) {
		all, err := alertsHandler.VerifGetAllAlerts(org)
		if err != nil {
			return "", nil, nil, err
		}
		stored := map[uint64]bool{}
		var rows []rowT
		for _, a := range all {
			var sq int
			var k uint64
			if _, err := fmt.Sscanf(a.AlertName, "verif-ajs-%d-%d", &sq, &k); err != nil {
				return "", nil, nil, fmt.Errorf("unexpected alert %q", a.AlertName)
			}
			idOf[k] = a.AlertId
			stored[k] = true
			rows = append(rows, rowT{k: k, w: a.EvalWindow, i: a.EvalInterval, ty: uint64(a.AlertType), jobs: alertsHandler.VerifJobCount(a.AlertId)})
		}
		for x := 1; x < len(rows); x++ { // sort by attempt number
			for y := x; y > 0 && rows[y-1].k > rows[y].k; y-- {
				rows[y-1], rows[y] = rows[y], rows[y-1]
			}
		}
		jobs := map[uint64]int{}
		var ks []uint64
		for k, id := range idOf {
			if n := alertsHandler.VerifJobCount(id); n > 0 {
				jobs[k] = n
				ks = append(ks, k)
			}
		}
		for x := 1; x < len(ks); x++ {
			for y := x; y > 0 && ks[y-1] > ks[y]; y-- {
				ks[y-1], ks[y] = ks[y], ks[y-1]
			}
		}
		var rs, js []string
		for _, r := range rows {
			rs = append(rs, fmt.Sprintf("%d:%d/%d:%d", r.k, r.w, r.i, r.ty))
		}
		for _, k := range ks {
			for n := 0; n < jobs[k]; n++ {
				js = append(js, fmt.Sprint(k))
			}
		}
		return strings.Join(rs, ",") + "|" + strings.Join(js, ","), rows, jobs, nil
	}
	defer func() {
		for _, id := range idOf {
			ajPost(alertsHandler.ProcessDeleteAlertRequest, []byte(fmt.Sprintf(`{"alert_id":%q}`, id)))
			alertsHandler.VerifJobRemove(id)
		}
		alertsHandler.VerifJobQuiesce()
	}()
	idFor := func(k uint64) string {
		if id, ok := idOf[k]; ok {
			return id
		}
		return fmt.Sprintf("verif-missing-%d", k)
	}
	var out []string
	var attempt uint64
	before, _, _, err := snapshot()
	if err != nil {
		return Result{Out: "harness-error:" + err.Error()}
	}
	restarts, refusedSeen := 0, false
	for idx, op := range ops {
		ans := "-"
		status := 200
		switch op.kind {
		case 'c', 'k':
			attempt++
			status = ajPost(func(c *fasthttp.RequestCtx) { alertsHandler.ProcessCreateAlertRequest(c, org) }, ajsBody(nameOf(attempt), op.ty, op.w, op.i, ""))
			if op.i == 0 {
				tags["create-with-interval-0"] = true
			}
			if op.ty == 2 {
				tags["create-metrics-alert"] = true
			} else if op.ty != 1 {
				tags["create-with-other-alert-type"] = true
			}
			if op.i > 153722867 {
				tags["interval-beyond-the-scheduler's-range"] = true
			}
		case 'u':
			status = ajPost(alertsHandler.ProcessUpdateAlertRequest, ajsBody(nameOf(op.k), 1, op.w, op.i, idFor(op.k)))
		case 'd':
			status = ajPost(alertsHandler.ProcessDeleteAlertRequest, []byte(fmt.Sprintf(`{"alert_id":%q}`, idFor(op.k))))
		case 'z', 'y':
			if id, ok := idOf[op.k]; ok {
				cols := map[string]interface{}{"eval_window": 0, "eval_interval": 0}
				if op.kind == 'y' {
					cols = map[string]interface{}{"alert_type": 0}
				}
				if err := alertsHandler.VerifLegacyRow(id, cols); err != nil {
					return Result{Out: "harness-error:legacy-row:" + err.Error()}
				}
				tags["row-rewritten-behind-the-api"] = true
			}
		case 'R':
			if err := alertsHandler.VerifJobRestart(org); err != nil {
				return Result{Out: "harness-error:restart:" + err.Error()}
			}
			restarts++
		}
		alertsHandler.VerifJobQuiesce()
		if op.kind == 'c' || op.kind == 'k' || op.kind == 'u' || op.kind == 'd' {
			if status == 200 {
				ans = "ok"
			} else {
				ans = "ref"
				refusedSeen = true
			}
		}
		after, rows, jobs, err := snapshot()
		if err != nil {
			return Result{Out: "harness-error:" + err.Error()}
		}
		out = append(out, ans+"|"+after)
		where := fmt.Sprintf("op %d (%s)", idx+1, toksAt(toks, idx))
		// ---- property: a refused request changes nothing (in particular a refused create stores nothing)
		if ans == "ref" && after != before {
			fail("alert-job/refused-request-changes-state", fmt.Sprintf("%s was answered with status %d, yet stored alerts | jobs went from %s to %s", where, status, before, after))
		}
		// ---- property: exactly one job per stored alert that can be scheduled, none for anything else; a restart re-arms every alert
		stored := map[uint64]bool{}
		unsched := false
		for _, r := range rows {
			stored[r.k] = true
			can := r.i != 0 && (r.ty == 1 || r.ty == 2)
			if !can {
				unsched = true
			}
			switch {
			case r.jobs > 1:
				fail("alert-job/not-exactly-one-job", fmt.Sprintf("%s: alert %d has %d cron jobs", where, r.k, r.jobs))
			case can && r.jobs == 0 && op.kind == 'R':
				fail("alert-job/alert-without-job-after-restart", fmt.Sprintf("%s: stored alert %d (window %d, interval %d) has no cron job after the restart; stored | jobs = %s", where, r.k, r.w, r.i, after))
			case can && r.jobs == 0 && ans == "ok" && (op.kind == 'c' || op.kind == 'k' || (op.kind == 'u' && op.k == r.k)) && (op.kind == 'u' || r.k == attempt):
				fail("alert-job/not-exactly-one-job", fmt.Sprintf("%s: the request was accepted but alert %d has no cron job", where, r.k))
			}
			// the job just (re-)created from this row runs the row's evaluator at the row's interval (a row rewritten
			// behind the API keeps its old job until the next restart: not judged)
			if r.jobs == 1 && ans != "ref" && (op.kind == 'R' || ((op.kind == 'c' || op.kind == 'k') && r.k == attempt) || (op.kind == 'u' && op.k == r.k)) {
				ajCheckJob(idOf[r.k], alertutils.AlertType(r.ty), r.i, fail, where)
			}
		}
		if op.kind == 'R' && unsched {
			tags["restart-with-unschedulable-row"] = true
		}
		for k, n := range jobs {
			if !stored[k] {
				fail("alert-job/job-of-deleted-alert", fmt.Sprintf("%s: %d cron job(s) for alert %d, which is not stored", where, n, k))
			}
		}
		before = after
	}
	if refusedSeen {
		tags["refused-request"] = true
	}
	res.Out = strings.Join(out, " ")
	res.Nontrivial = restarts > 0 && attempt >= 2
	for t := range tags {
		res.Tags = append(res.Tags, t)
	}
	return res
}

func toksAt(toks []string, i int) string {
	if i < len(toks) {
		return toks[i]
	}
	return "?"
}
