package main

// Property C11 — get-or-create of the segstore table (suite "conc", op lines `c11c`).
//
//	c11c <S> <label> …      label ::= c<t> | f<i> | e<i> | n<i>   (t < 16: ingest call t on index c11c<t mod S>; i < S)
//
// DETERMINISTIC REPLAY of schedules of the Lean machine lean/SigModel/Model/ConcCreate.lean on the real writer.
// c<t>: next step of ingest call t — every call is one goroutine running the REAL eswriter.ProcessIndexRequestPle
// (→ writer.AddEntryToInMemBuf → getOrCreateSegStore → getSegStore / createSegStore → AddEntry) with one event; it
// is stopped before each step by the pause points of the instrumented copy of segwriter.go
// (cmd/overlaygen/c11c.go: get, lock, recheck, build, insert, unlock, append) and, between the read and the write
// of the suffix file, by the product hook hooks.GlobalHooks.GetNextSuffixHook.  f<i>: flush + forced rotation of
// the registered store of index i; e<i>: one pass of the real removeStaleSegments over the (aged) registered store
// of index i; n<i>: the same pass with the stores' idle time left as it is — every store of a replay is seconds old, far
// from the 900 s horizon, so the pass must remove nothing (the model has no step for it; a removal is logged as
// `n<i>:removed-a-store-in-use`).  The driver tracks who holds allSegStoresLock from the pause points it has SEEN (resumed from "lock"
// … resumed from "unlock" / left createSegStore with a deferred Unlock) and, exactly like the model, skips a label
// whose step needs that lock while a stopped call holds it — so the unchanged code can never be driven into a wait.
// An AddEntry on a store that removeStaleSegments has removed appends nothing (errSegStoreRemoved): the call shows up
// at the "get" point again and its later steps are scheduled like those of a fresh call.
// A deferred Unlock is shown as a step of its own when the call is next scheduled (the real lock is already free
// then; the driver merely does not use that freedom).  After the schedule the calls are completed (lock holder
// first, then by id).  Answer line = lean/Oracle/C11Create.lean for the same line:
//
//	steps=… | calls=<t>:<store>,… | stores=<store>:<reg|orphan>:<records>,… | handed=<stream>.<suffix>,… | acked=<n> searchable=<n>
//
// Property checks on the real code, independent of the model: after FlushWipBufferToFile(0,0) and again after
// ForceRotateSegmentsForTest a match-all query over the indexes returns the event of every acknowledged call
// exactly once; no (stream, suffix) is handed out twice; no ingest call fails.

import (
	"encoding/json"
	"fmt"
	"math/rand"
	"os"
	"runtime"
	"strconv"
	"strings"
	"sync"
	"sync/atomic"
	"time"

	"github.com/siglens/siglens/pkg/config"
	eswriter "github.com/siglens/siglens/pkg/es/writer"
	"github.com/siglens/siglens/pkg/hooks"
	"github.com/siglens/siglens/pkg/segment/writer"
)

const c11cMaxThreads = 16

type c11cLabel struct {
	kind byte // 'c' 'f' 'e' 'n'
	id   int
}

func c11cParse(line string) (int, []c11cLabel, bool) {
	f := strings.Fields(line)
	if len(f) < 2 || f[0] != "c11c" {
		return 0, nil, false
	}
	S, okS := c11Num(f[1])
	if !okS || S < 1 || S > 4 {
		return 0, nil, false
	}
	var ls []c11cLabel
	for _, t := range f[2:] {
		if len(t) < 2 || (t[0] != 'c' && t[0] != 'f' && t[0] != 'e' && t[0] != 'n') {
			return 0, nil, false
		}
		n, okN := c11Num(t[1:])
		if !okN {
			return 0, nil, false
		}
		if t[0] == 'c' && n >= c11cMaxThreads {
			return 0, nil, false
		}
		if t[0] != 'c' && n >= S {
			return 0, nil, false
		}
		ls = append(ls, c11cLabel{kind: t[0], id: n})
	}
	return S, ls, true
}

// ---------------------------------------------------------------- Go mirror of the machine (Cfg.real), used ONLY
// by the generator (to emit enabled steps / the wanted interleaving classes) and for the distribution tags; the
// verdict is the comparison with the Lean Oracle and the property checks.

var c11cProg = []string{"lock", "recheck", "sufRead", "sufWrite", "insert", "unlock"}

type c11cMThread struct {
	stream  int
	pc      string // idle | create | append | retry | done
	todo    []string
	suf     int
	mine    int
	ret     int
	viaGet  bool // got its store from getSegStore
}

type c11cMStore struct {
	stream, suffix int
	events         int
	removed        bool
}

type c11cModel struct {
	S       int
	table   []int // -1 = none
	lock    int   // -1 = free
	stores  []c11cMStore
	sufFile []int
	th      [c11cMaxThreads]c11cMThread
	// counters for the tags
	maxPastNilCheck int // largest number of calls of one stream that were past a failed getSegStore before the stream's insert
	blockedProbes   int
	retries         int // AddEntry on a store that removeStaleSegments had removed
	evictions       int
	creations       int
	rechecksHit     int
	getsHit         int
}

func c11cNewModel(S int) *c11cModel {
	m := &c11cModel{S: S, lock: -1}
	for i := 0; i < S; i++ {
		m.table = append(m.table, -1)
		m.sufFile = append(m.sufFile, 0)
	}
	for t := range m.th {
		m.th[t] = c11cMThread{pc: "idle", mine: -1, ret: -1}
	}
	return m
}

// next step of call t ("" = done), and whether it is enabled
func (m *c11cModel) next(t int) (string, bool) {
	th := &m.th[t]
	switch th.pc {
	case "idle", "retry":
		return "get", m.lock < 0
	case "create":
		if th.todo[0] == "lock" {
			return "lock", m.lock < 0
		}
		return th.todo[0], true
	case "append":
		return "append", true
	}
	return "", false
}

func (m *c11cModel) after(th *c11cMThread, rest []string) {
	if len(rest) == 0 {
		th.pc = "append"
		th.todo = nil
	} else {
		th.pc = "create"
		th.todo = rest
	}
}

// executes label c<t>; returns the step executed ("" = nothing)
func (m *c11cModel) call(t int) string {
	st, en := m.next(t)
	if st == "" {
		return ""
	}
	if !en {
		m.blockedProbes++
		return ""
	}
	th := &m.th[t]
	switch st {
	case "get":
		th.stream = t % m.S
		if r := m.table[th.stream]; r >= 0 {
			th.ret, th.pc, th.viaGet = r, "append", true
			m.getsHit++
		} else {
			m.after(th, c11cProg)
			n := 0
			for u := range m.th {
				if m.th[u].pc == "create" && m.th[u].stream == th.stream {
					n++
				}
			}
			if n > m.maxPastNilCheck {
				m.maxPastNilCheck = n
			}
		}
	case "lock":
		m.lock = t
		m.after(th, th.todo[1:])
	case "recheck":
		if r := m.table[th.stream]; r >= 0 {
			th.ret = r
			m.rechecksHit++
			if m.lock == t {
				m.after(th, []string{"unlock"})
			} else {
				m.after(th, nil)
			}
		} else {
			m.after(th, th.todo[1:])
		}
	case "sufRead":
		th.suf = m.sufFile[th.stream]
		m.after(th, th.todo[1:])
	case "sufWrite":
		m.sufFile[th.stream] = th.suf + 1
		m.stores = append(m.stores, c11cMStore{stream: th.stream, suffix: th.suf})
		th.mine = len(m.stores) - 1
		m.creations++
		m.after(th, th.todo[1:])
	case "insert":
		if th.mine >= 0 {
			m.table[th.stream] = th.mine
			th.ret = th.mine
		}
		m.after(th, th.todo[1:])
	case "unlock":
		if m.lock == t {
			m.lock = -1
		}
		m.after(th, th.todo[1:])
	case "append":
		if th.ret >= 0 && m.stores[th.ret].removed {
			// errSegStoreRemoved: nothing appended, the call starts over with getSegStore
			th.pc = "retry"
			m.retries++
			return st
		}
		if th.ret >= 0 {
			m.stores[th.ret].events++
		}
		th.pc = "done"
	}
	return st
}

func (m *c11cModel) flush(i int) bool {
	if m.lock >= 0 || m.table[i] < 0 || m.stores[m.table[i]].events == 0 {
		return false
	}
	m.stores[m.table[i]].events = 0
	m.stores[m.table[i]].suffix = m.sufFile[i]
	m.sufFile[i]++
	return true
}

func (m *c11cModel) evict(i int) bool {
	if m.lock >= 0 || m.table[i] < 0 || m.stores[m.table[i]].events != 0 {
		return false
	}
	m.stores[m.table[i]].removed = true
	m.table[i] = -1
	m.evictions++
	return true
}

func (m *c11cModel) apply(l c11cLabel) {
	switch l.kind {
	case 'c':
		m.call(l.id)
	case 'f':
		m.flush(l.id)
	case 'e':
		m.evict(l.id)
	}
}

func (m *c11cModel) drain() {
	for fuel := 0; fuel < 400; fuel++ {
		t := m.lock
		if t < 0 {
			for u := range m.th {
				if m.th[u].pc != "idle" && m.th[u].pc != "done" {
					t = u
					break
				}
			}
		}
		if t < 0 {
			return
		}
		m.call(t)
	}
}

// distribution tags of a schedule
func c11cTags(S int, labels []c11cLabel) []string {
	m := c11cNewModel(S)
	for _, l := range labels {
		m.apply(l)
	}
	probes := m.blockedProbes
	m.drain()
	perStream := make([]int, S)
	for t := range m.th {
		if m.th[t].pc != "idle" {
			perStream[m.th[t].stream]++
		}
	}
	k := 0
	for _, n := range perStream {
		if n > k {
			k = n
		}
	}
	tags := []string{"create", fmt.Sprintf("create:calls-on-one-stream=%d", k)}
	if m.maxPastNilCheck >= 2 {
		tags = append(tags, fmt.Sprintf("create:past-nil-check-together=%d", m.maxPastNilCheck))
	}
	if m.rechecksHit > 0 {
		tags = append(tags, "create:recheck-hit")
	}
	if m.getsHit > 0 {
		tags = append(tags, "create:get-hit")
	}
	if probes > 0 {
		tags = append(tags, "create:blocked-step-probe")
	}
	if m.evictions > 0 {
		tags = append(tags, "create:after-eviction")
	}
	if m.retries > 0 {
		tags = append(tags, "create:evicted-before-append")
	}
	if S > 1 {
		tags = append(tags, "create:several-streams")
	}
	for _, l := range labels {
		if l.kind == 'n' {
			tags = append(tags, "create:sweep-over-fresh-stores")
			break
		}
	}
	return tags
}

// ---------------------------------------------------------------- the replay worker (one schedule per process)

type c11cEvent struct {
	point  string
	store  uintptr
	segkey string
	suffix uint64
	done   bool
	err    error
}

type c11cThread struct {
	id       int
	stream   int
	started  bool
	done     bool
	events   chan c11cEvent
	resume   chan struct{}
	at       string // pause point the goroutine is stopped at
	atStore  uintptr
	pendingU bool // it has left createSegStore with a deferred Unlock that the schedule has not shown yet
	err      error
	acked    bool
	ret      uintptr // the store it appended to (as the "append" pause showed it)
}

type c11cStoreSeen struct {
	id      uintptr
	name    string
	stream  int
	evicted bool // removeStaleSegments took it out of the table
}

type c11cWorld struct {
	S       int
	index   []string
	th      [c11cMaxThreads]*c11cThread
	byGoid  sync.Map // goroutine id → *c11cThread
	lock    int      // call that holds allSegStoresLock as far as the pause points have shown; -1 = free
	steps   []string
	stores  []*c11cStoreSeen
	byID    map[uintptr]*c11cStoreSeen
	names   map[string]int
	handed  []string
	handMu  sync.Mutex
	fails   []PropFail
	stalled bool
}

func c11cGoid() int64 {
	var buf [64]byte
	n := runtime.Stack(buf[:], false)
	f := strings.Fields(string(buf[:n]))
	if len(f) < 2 {
		return -1
	}
	id, _ := strconv.ParseInt(f[1], 10, 64)
	return id
}

func (w *c11cWorld) fail(sig, msg string) { w.fails = append(w.fails, PropFail{Sig: sig, Msg: msg}) }

func (w *c11cWorld) streamOfKey(key string) int {
	for i, ix := range w.index {
		if strings.Contains(key, "/"+ix+"/") {
			return i
		}
	}
	return -1
}

func (w *c11cWorld) see(id uintptr, stream int, suffix uint64) *c11cStoreSeen {
	if id == 0 {
		return nil
	}
	if s, ok := w.byID[id]; ok {
		return s
	}
	name := fmt.Sprintf("%d.%d", stream, suffix)
	w.names[name]++
	if w.names[name] > 1 {
		name = fmt.Sprintf("%s#%d", name, w.names[name]) // a second store created with the same suffix
	}
	s := &c11cStoreSeen{id: id, name: name, stream: stream}
	w.byID[id] = s
	w.stores = append(w.stores, s)
	return s
}

func (w *c11cWorld) pauseHook(point string, streamid string, store uintptr, segkey string, suffix uint64) {
	v, ok := w.byGoid.Load(c11cGoid())
	if !ok {
		return
	}
	th := v.(*c11cThread)
	th.events <- c11cEvent{point: point, store: store, segkey: segkey, suffix: suffix}
	<-th.resume
}

func (w *c11cWorld) suffixHook(suffix uint64, getSegKey func(uint64) string) (uint64, error) {
	key := ""
	if getSegKey != nil {
		key = getSegKey(suffix)
	}
	if i := w.streamOfKey(key); i >= 0 {
		w.handMu.Lock()
		w.handed = append(w.handed, fmt.Sprintf("%d.%d", i, suffix))
		w.handMu.Unlock()
	}
	if v, ok := w.byGoid.Load(c11cGoid()); ok {
		th := v.(*c11cThread)
		th.events <- c11cEvent{point: "sufWrite"}
		<-th.resume
	}
	return suffix, nil
}

func (w *c11cWorld) ingest(th *c11cThread) {
	w.byGoid.Store(c11cGoid(), th)
	now := uint64(time.Now().UnixMilli())
	tsKey := config.GetTimeStampKey()
	var stack [64]byte
	ix := w.index[th.stream]
	raw := []byte(fmt.Sprintf(`{"_vid":%d,"s":%d,"m":"call%d"}`, th.id, th.stream, th.id))
	ple, err := writer.GetNewPLE(raw, now, ix, &tsKey, stack[:])
	if err == nil {
		ples := []*writer.ParsedLogEvent{ple}
		err = eswriter.ProcessIndexRequestPle(now, ix, false, map[string]string{}, 0, 0, map[string]string{}, map[uint64]string{}, stack[:], ples)
		writer.ReleasePLEs(ples)
	}
	th.events <- c11cEvent{done: true, err: err}
}

// pause point → step name of the model
var c11cPointStep = map[string]string{
	"get": "get", "lock": "lock", "recheck": "recheck", "build": "sufRead", "sufWrite": "sufWrite",
	"insert": "insert", "unlock": "unlock", "append": "append",
}

// waits until call th stops at its next pause point or finishes
func (w *c11cWorld) wait(th *c11cThread) {
	select {
	case ev := <-th.events:
		if ev.done {
			th.done = true
			th.at = ""
			th.err = ev.err
			if w.lock == th.id {
				w.lock = -1 // it returned: a deferred Unlock has run
			}
			return
		}
		th.at = ev.point
		th.atStore = ev.store
		if ev.store != 0 {
			w.see(ev.store, th.stream, ev.suffix)
		}
		if ev.point == "append" && w.lock == th.id {
			th.pendingU = true
		}
	case <-time.After(c11cWait()):
		w.stalled = true
	}
}

// how long a resumed call (or a final search) may take before the replay calls it a stall: 60 s, generous because
// the machine may be busy; the parent shortens it (env C11C_WAIT_S) once stalls have been confirmed by re-runs alone
func c11cWait() time.Duration {
	if n, err := strconv.Atoi(os.Getenv("C11C_WAIT_S")); err == nil && n > 0 {
		return time.Duration(n) * time.Second
	}
	return 60 * time.Second
}

// label c<t>
func (w *c11cWorld) callStep(t int) {
	th := w.th[t]
	if w.stalled || th.done {
		return
	}
	if !th.started {
		if w.lock >= 0 {
			return // getSegStore's RLock would wait
		}
		th.started = true
		go w.ingest(th)
		w.wait(th)
		if w.stalled || th.done {
			if th.done {
				w.steps = append(w.steps, fmt.Sprintf("%d:finished-before-get", t))
			}
			return
		}
		if th.at != "get" {
			w.steps = append(w.steps, fmt.Sprintf("%d:first-point-%s", t, th.at))
		}
	} else if th.pendingU {
		th.pendingU = false
		w.lock = -1
		w.steps = append(w.steps, fmt.Sprintf("%d:unlock", t))
		return
	} else if (th.at == "lock" || th.at == "get") && w.lock >= 0 {
		return // Lock() / getSegStore's RLock (of a call that starts over after errSegStoreRemoved) would wait
	}
	prev := th.at
	name, known := c11cPointStep[prev]
	if !known {
		name = "?" + prev
	}
	w.steps = append(w.steps, fmt.Sprintf("%d:%s", t, name))
	if prev == "append" {
		th.ret = th.atStore
	}
	if prev == "unlock" && w.lock == t {
		w.lock = -1 // the Unlock is the first thing the resumed call does
	}
	th.resume <- struct{}{}
	w.wait(th)
	if w.stalled {
		return
	}
	switch prev {
	case "lock":
		w.lock = t
		if th.done {
			w.lock = -1
		}
	case "append":
		if th.done && th.err == nil {
			th.acked = true
		}
	}
}

func (w *c11cWorld) flushStep(i int) {
	if w.stalled || w.lock >= 0 {
		return
	}
	n := 0
	for _, s := range writer.VerifC11CStores(w.index[i]) {
		n += s.RecordCount
	}
	if n == 0 {
		return
	}
	if err := writer.VerifC11FlushIndex(w.index[i]); err != nil {
		w.fail("create/flush-error", err.Error())
	}
	if err := writer.VerifC11RotateIndex(w.index[i]); err != nil {
		w.fail("create/rotation-error", err.Error())
	}
	w.steps = append(w.steps, fmt.Sprintf("f%d", i))
}

func (w *c11cWorld) evictStep(i int) {
	if w.stalled || w.lock >= 0 {
		return
	}
	removed := writer.VerifC11CEvict(w.index[i])
	for _, id := range removed {
		if s := w.byID[id]; s != nil {
			s.evicted = true
		}
	}
	if len(removed) > 0 {
		w.steps = append(w.steps, fmt.Sprintf("e%d", i))
	}
}

// label n<i>: a pass of removeStaleSegments over stores that are NOT stale
func (w *c11cWorld) sweepStep(i int) {
	if w.stalled || w.lock >= 0 {
		return
	}
	removed := writer.VerifC11CSweepNoAge(w.index[i])
	for _, id := range removed {
		if s := w.byID[id]; s != nil {
			s.evicted = true
		}
	}
	if len(removed) > 0 {
		w.steps = append(w.steps, fmt.Sprintf("n%d:removed-a-store-in-use", i))
	}
}

func (w *c11cWorld) drain() {
	for fuel := 0; fuel < 400 && !w.stalled; fuel++ {
		t := w.lock
		if t < 0 {
			for u := 0; u < c11cMaxThreads; u++ {
				if w.th[u].started && !w.th[u].done {
					t = u
					break
				}
			}
		}
		if t < 0 {
			return
		}
		w.callStep(t)
	}
}

func c11cReplay(line string) {
	S, labels, ok := c11cParse(line)
	if !ok {
		fmt.Println("bad-op")
		return
	}
	if !writer.VerifC11CInstrumented {
		fmt.Println("not-instrumented: " + strings.Join(writer.VerifC11CProblems, "; "))
		return
	}
	dir := bootEngine()
	defer os.RemoveAll(dir)
	w := &c11cWorld{S: S, lock: -1, byID: map[uintptr]*c11cStoreSeen{}, names: map[string]int{}}
	for i := 0; i < S; i++ {
		w.index = append(w.index, fmt.Sprintf("c11c%d", i))
	}
	for t := range w.th {
		w.th[t] = &c11cThread{id: t, stream: t % S, events: make(chan c11cEvent, 4), resume: make(chan struct{})}
	}
	writer.VerifC11CPause = w.pauseHook
	hooks.GlobalHooks.GetNextSuffixHook = w.suffixHook
	watchdog := time.AfterFunc(170*time.Second, func() {
		fmt.Println("worker-stall watchdog;" + strings.Join(w.steps, ","))
		os.Exit(0)
	})
	defer watchdog.Stop()

	for _, l := range labels {
		switch l.kind {
		case 'c':
			w.callStep(l.id)
		case 'f':
			w.flushStep(l.id)
		case 'e':
			w.evictStep(l.id)
		case 'n':
			w.sweepStep(l.id)
		}
	}
	w.drain()
	if w.stalled {
		fmt.Println("worker-stall " + strings.Join(w.steps, ","))
		os.Exit(0)
	}
	// the canonical answer
	var calls []string
	acked := 0
	for t := 0; t < c11cMaxThreads; t++ {
		th := w.th[t]
		if !th.started {
			continue
		}
		if th.err != nil {
			w.fail("create/ingest-error", fmt.Sprintf("ingest call %d on index %s failed: %v", t, w.index[th.stream], th.err))
		}
		if th.acked {
			acked++
			name := "?"
			if s := w.byID[th.ret]; s != nil {
				name = s.name
			}
			calls = append(calls, fmt.Sprintf("%d:%s", t, name))
		} else {
			calls = append(calls, fmt.Sprintf("%d:-", t))
		}
	}
	var stores []string
	for _, s := range w.stores {
		reg := "orphan"
		if writer.VerifC11CIsRegistered(s.id) {
			reg = "reg"
		}
		n, _ := writer.VerifC11CRecordCount(s.id)
		stores = append(stores, fmt.Sprintf("%s:%s:%d", s.name, reg, n))
	}
	w.handMu.Lock()
	handed := append([]string{}, w.handed...)
	w.handMu.Unlock()
	seenH := map[string]bool{}
	for _, h := range handed {
		if seenH[h] {
			w.fail("create/duplicate-suffix", fmt.Sprintf("segment suffix %s (stream.suffix) was handed out twice; hand-outs in order: %s", h, strings.Join(handed, ",")))
			break
		}
		seenH[h] = true
	}
	// all activity has stopped: flush every buffer, search; rotate every segment, search again
	hooks.GlobalHooks.GetNextSuffixHook = nil
	writer.VerifC11CPause = nil
	qw := &c11World{S: S, index: w.index, segNames: map[string]string{}, vidBlock: map[int]string{}, queries: map[int]*c11Query{}}
	search := func(qid uint64) (map[int]int, string) {
		q := &c11Query{id: -1, qid: qid, events: make(chan c11Event, 4)}
		done := make(chan struct{})
		go func() { qw.runQuery(q); close(done) }()
		select {
		case <-done:
		case <-time.After(c11cWait()):
			fmt.Println("worker-stall final-search;" + strings.Join(w.steps, ","))
			os.Exit(0)
		}
		seen := map[int]int{}
		for _, v := range q.vids {
			seen[v]++
		}
		return seen, q.err
	}
	z := time.Duration(0)
	writer.FlushWipBufferToFile(&z, &z)
	searchable := -1
	for phase, qid := range []uint64{910001, 910002} {
		what := "after flushing every buffer"
		if phase == 1 {
			writer.ForceRotateSegmentsForTest()
			what = "after flushing every buffer and rotating every segment"
		}
		seen, qerr := search(qid)
		if qerr != "" {
			w.fail("create/query-error", what+": "+qerr)
			continue
		}
		searchable = 0
		var lost, twice []string
		evictedLoss := true
		for t := 0; t < c11cMaxThreads; t++ {
			th := w.th[t]
			if !th.acked {
				continue
			}
			switch c := seen[t]; {
			case c == 0:
				name := "?"
				if s := w.byID[th.ret]; s != nil {
					name = s.name
				}
				lost = append(lost, fmt.Sprintf("call %d (appended to store %s)", t, name))
				if s := w.byID[th.ret]; s == nil || !s.evicted {
					evictedLoss = false
				}
			case c > 1:
				twice = append(twice, fmt.Sprintf("call %d ×%d", t, c))
				searchable++
			default:
				searchable++
			}
		}
		if len(lost) > 0 {
			sig := "create/lost-ack"
			if evictedLoss {
				// every lost event went to a store that removeStaleSegments had taken out of the table between the
				// call's getSegStore/createSegStore and its AddEntry
				sig = "create/lost-ack/evicted-before-append"
			}
			w.fail(sig, fmt.Sprintf("%d ingest calls were acknowledged, %s a search finds %d of their events; lost: %s; steps: %s",
				acked, what, searchable, strings.Join(lost, ", "), strings.Join(w.steps, ",")))
		}
		if len(twice) > 0 {
			w.fail("create/event-twice", what+": "+strings.Join(twice, ", "))
		}
	}
	fmt.Printf("steps=%s | calls=%s | stores=%s | handed=%s | acked=%d searchable=%d\n",
		strings.Join(w.steps, ","), strings.Join(calls, ","), strings.Join(stores, ","), strings.Join(handed, ","), acked, searchable)
	// one finding per class
	seenSig := map[string]bool{}
	for _, f := range w.fails {
		if seenSig[f.Sig] {
			continue
		}
		seenSig[f.Sig] = true
		b, _ := json.Marshal(f)
		fmt.Println("FAIL " + string(b))
	}
}

// ---------------------------------------------------------------- generator

func c11cFmt(S int, ls []c11cLabel) string {
	var b strings.Builder
	fmt.Fprintf(&b, "c11c %d", S)
	for _, l := range ls {
		fmt.Fprintf(&b, " %c%d", l.kind, l.id)
	}
	return b.String()
}

type c11cGen struct {
	r  *rand.Rand
	m  *c11cModel
	ls []c11cLabel
}

func (g *c11cGen) emit(l c11cLabel) {
	g.m.apply(l)
	g.ls = append(g.ls, l)
}

// call t runs n steps (stops early when it is done or not enabled)
func (g *c11cGen) steps(t, n int) {
	for k := 0; k < n; k++ {
		st, en := g.m.next(t)
		if st == "" || !en {
			return
		}
		g.emit(c11cLabel{'c', t})
	}
}

// call t runs to completion (as far as it is enabled)
func (g *c11cGen) finish(t int) { g.steps(t, 12) }

// random interleaving of the given calls for at most n labels; probe: share (in 1/16) of labels emitted although
// the model says their step is NOT enabled (on the real code they must be skipped as well)
func (g *c11cGen) shuffle(ts []int, n int, probe int) {
	for k := 0; k < n; k++ {
		var live []int
		for _, t := range ts {
			if st, _ := g.m.next(t); st != "" {
				live = append(live, t)
			}
		}
		if len(live) == 0 {
			return
		}
		t := live[g.r.Intn(len(live))]
		if _, en := g.m.next(t); !en && g.r.Intn(16) >= probe {
			// prefer an enabled one: the lock holder always is
			if g.m.lock >= 0 {
				t = g.m.lock
			}
		}
		g.emit(c11cLabel{'c', t})
	}
}

// the calls of stream i among the first k thread ids of that stream
func c11cCalls(S, i, k int) []int {
	var ts []int
	for t := i; t < c11cMaxThreads && len(ts) < k; t += S {
		ts = append(ts, t)
	}
	return ts
}

func c11cGenLine(r *rand.Rand, tier string) string {
	S := 1 + r.Intn(3)
	if r.Intn(3) == 0 {
		S = 1
	}
	g := &c11cGen{r: r, m: c11cNewModel(S)}
	k := 2 + r.Intn(3) // creators on the racing stream: 2..4
	i := r.Intn(S)
	ts := c11cCalls(S, i, k)
	long := 40
	if tier == "thorough" {
		long = 80
	}
	switch class := r.Intn(12); {
	case class < 4:
		// all past the nil check before anyone inserts, then any interleaving
		for _, t := range ts {
			g.emit(c11cLabel{'c', t})
		}
		g.shuffle(ts, 6+r.Intn(long), 3)
	case class < 6:
		// one call stopped somewhere inside createSegStore while the others arrive
		g.steps(ts[0], 1+r.Intn(7))
		g.shuffle(ts, 6+r.Intn(long), 5)
	case class < 7:
		// the first call is through createSegStore but has not appended yet; the others get its store
		g.steps(ts[0], 7)
		g.shuffle(ts, 4+r.Intn(long), 2)
	case class < 9:
		// a stream whose store was rotated and removed as stale: the next first ingests race again
		g.finish(ts[0])
		g.emit(c11cLabel{'f', i})
		rest := ts[1:]
		if r.Intn(2) == 0 {
			// … removed while a call already holds it (got it from getSegStore, has not appended yet)
			g.emit(c11cLabel{'c', rest[0]})
		}
		g.emit(c11cLabel{'e', i})
		if r.Intn(2) == 0 {
			for _, t := range rest {
				g.emit(c11cLabel{'c', t})
			}
		}
		g.shuffle(rest, 6+r.Intn(long), 3)
		if r.Intn(3) == 0 {
			g.emit(c11cLabel{'f', i})
		}
	case class < 10:
		// several streams at once
		var all []int
		for j := 0; j < S; j++ {
			all = append(all, c11cCalls(S, j, 2+r.Intn(2))...)
		}
		if len(all) > 8 {
			all = all[:8]
		}
		g.shuffle(all, 10+r.Intn(long), 3)
		if r.Intn(2) == 0 {
			g.emit(c11cLabel{'f', r.Intn(S)})
			g.shuffle(all, r.Intn(long), 3)
		}
	default:
		// anything: calls, flushes and evictions woven in
		n := 4 + r.Intn(long)
		for len(g.ls) < n {
			switch x := r.Intn(10); {
			case x < 8:
				g.emit(c11cLabel{'c', ts[r.Intn(len(ts))]})
			case x < 9:
				g.emit(c11cLabel{'f', i})
			default:
				g.emit(c11cLabel{'e', i})
			}
		}
	}
	if len(g.ls) == 0 {
		g.emit(c11cLabel{'c', ts[0]})
	}
	if r.Intn(3) == 0 {
		// a removeStaleSegments pass over stores that are not stale, anywhere (no effect in the model)
		k := r.Intn(len(g.ls) + 1)
		ls := append([]c11cLabel{}, g.ls[:k]...)
		ls = append(ls, c11cLabel{'n', i})
		g.ls = append(ls, g.ls[k:]...)
	}
	return c11cFmt(S, g.ls)
}

// schedules that matter, always run
var c11cFixed = []string{
	// two first ingests on a new stream: both pass the nil check, then one after the other
	"c11c 1 c0 c1 c0 c0 c0 c0 c0 c0 c0 c1 c1 c1 c1",
	// … strictly alternating (the second one waits for the lock, re-checks, gets the first one's store)
	"c11c 1 c0 c1 c0 c1 c0 c1 c0 c1 c0 c1 c0 c1 c0 c1 c0 c1 c0 c1",
	// the second arrives while the first is between the two halves of GetNextSuffix
	"c11c 1 c0 c0 c0 c0 c1 c1 c0 c1 c0 c0 c1 c0 c1 c1 c1",
	// four at once
	"c11c 1 c0 c1 c2 c3 c3 c2 c1 c0 c0 c0 c0 c0 c0 c1 c2 c3 c3 c2 c1",
	// two streams, two creators each
	"c11c 2 c0 c1 c2 c3 c0 c1 c0 c1 c0 c1 c0 c1 c0 c1 c2 c3 c2 c3",
	// store rotated and removed as stale, then two first ingests again (suffix file already at 2)
	"c11c 1 c0 c0 c0 c0 c0 c0 c0 c0 f0 e0 c1 c2 c1 c2 c1 c2 c1 c2 c1 c2",
	// removeStaleSegments between a call's getSegStore and its AddEntry (the call must notice and start over)
	"c11c 1 c0 c0 c0 c0 c0 c0 c0 c0 f0 c1 e0 c1 c2",
	// … and between createSegStore and AddEntry of the call that created the store
	"c11c 1 c0 c0 c0 c0 c0 c0 c0 e0 c0 c1",
	// … the same moments, but the store is seconds old: a pass of removeStaleSegments must leave it alone
	"c11c 1 c0 c0 c0 c0 c0 c0 c0 n0 c0 c1",
	"c11c 1 c0 c0 c0 c0 c0 c0 c0 c0 f0 c1 n0 c1 c2",
}

// ---------------------------------------------------------------- exec side (parent process)

// stalls are re-run alone before they are reported: no other replay worker of this process runs meanwhile.  Once two
// stalls have been confirmed that way the verdict of the run no longer depends on further ones: later stalls are
// reported without a re-run and the workers wait 15 s instead of 60 s.
var c11cAlone sync.RWMutex
var c11cConfirmedStalls atomic.Int32

func c11cExec(line string) Result {
	S, labels, ok := c11cParse(line)
	if !ok {
		return Result{Out: "bad-op", Tags: []string{"malformed"}}
	}
	run := func() (string, []PropFail) {
		env := []string{"GOMEMLIMIT=2GiB", "GOMAXPROCS=4"}
		if c11cConfirmedStalls.Load() >= 2 {
			env = append(env, "C11C_WAIT_S=15")
		}
		out, stderr, err, timedOut := c11SpawnWorker([]string{"c11worker", "x"}, line+"\n", env, 200*time.Second)
		if timedOut {
			return "worker-timeout", []PropFail{{Sig: "conc-replay/worker-timeout", Msg: "replay worker did not finish within 200 s"}}
		}
		var fails []PropFail
		first := ""
		for _, l := range strings.Split(strings.TrimSpace(out), "\n") {
			if strings.HasPrefix(l, "FAIL ") {
				var pf PropFail
				if json.Unmarshal([]byte(l[5:]), &pf) == nil {
					fails = append(fails, pf)
				}
			} else if first == "" && (strings.HasPrefix(l, "steps=") || strings.HasPrefix(l, "worker-stall") || strings.HasPrefix(l, "not-instrumented") || l == "bad-op") {
				first = l
			}
		}
		if first == "" {
			first = "worker-crash"
			msg := ""
			if err != nil {
				msg = err.Error()
			}
			fails = append(fails, PropFail{Sig: "conc/crash@" + c11CrashFrame(stderr), Msg: "replay worker died: " + msg + " " + trunc(stderr, 600)})
		}
		if strings.HasPrefix(first, "worker-stall") {
			fails = append(fails, PropFail{Sig: "create/stall", Msg: "a scheduled step of an ingest call (or the search after all activity stopped) did not complete in time although the pause points showed allSegStoresLock free (deadlock, endless loop, or a lock taken where no pause point sees it); where;steps so far: " + strings.TrimPrefix(first, "worker-stall ")})
			first = "worker-stall"
		}
		return first, fails
	}
	c11cAlone.RLock()
	first, fails := run()
	c11cAlone.RUnlock()
	retried := false
	if (first == "worker-stall" || first == "worker-timeout") && c11cConfirmedStalls.Load() < 2 {
		// the machine may just be busy: once more, alone
		c11cAlone.Lock()
		first, fails = run()
		c11cAlone.Unlock()
		retried = true
		if first == "worker-stall" || first == "worker-timeout" {
			c11cConfirmedStalls.Add(1)
		}
	}
	res := Result{Out: first, Fails: fails, Nontrivial: len(labels) >= 3, Tags: c11cTags(S, labels)}
	if retried {
		res.Tags = append(res.Tags, "create:re-run-alone")
	}
	if len(fails) > 0 {
		res.Tags = append(res.Tags, "propfail")
	}
	return res
}
