package main

// suite "subword" (C02 kernel): the free-text word / phrase matcher utils.IsSubWordPresent, which decides free-text terms
// and phrases (ApplySearchToMatchFilterRawCsg, raw records and dictionary words), case-sensitive (SPL CASE(…)) or not.
//
//	subw <ci> <hay> <needle>      hay / needle: hex bytes, `e` = empty
//
// Model: Bloom.subWord (Lean).  Property on the real code, independent of the model: the needle is present iff it occurs in
// the haystack between token boundaries — it starts at the beginning or after a space and ends at the end or before a
// space (for one word: it is one of the space-delimited tokens) — under exact or ASCII-case-folded byte comparison.

import (
	"bytes"
	"encoding/hex"
	"fmt"
	"math/rand"
	"strings"

	"github.com/siglens/siglens/pkg/utils"
)

func init() {
	register(&Suite{Name: "subword", Gen: genSubword, Exec: execSubword,
		Rule: "haystacks built from the needle, the needle glued to other letters in front / behind, the needle in another case and other words, joined by one or two spaces, the needle first occurring inside a longer token and later as a whole word (start / middle / end, repeated); one-word and multi-word needles; exact case and case-insensitive; empty needle, needle longer than the haystack, malformed lines; non-trivial = the needle occurs in the haystack as a byte string"})
}

func swBytes(s string) ([]byte, bool) {
	if s == "e" {
		return []byte{}, true
	}
	b, err := hex.DecodeString(s)
	return b, err == nil && len(b) > 0
}

func swShow(b []byte) string {
	if len(b) == 0 {
		return "e"
	}
	return hex.EncodeToString(b)
}

func swFold(b []byte) []byte {
	o := make([]byte, len(b))
	for i, c := range b {
		if c >= 'A' && c <= 'Z' {
			c += 32
		}
		o[i] = c
	}
	return o
}

// reference: " "+needle+" " occurs in " "+hay+" "
func swRef(hay, needle []byte, ci bool) bool {
	if ci {
		hay, needle = swFold(hay), swFold(needle)
	}
	h := append(append([]byte{' '}, hay...), ' ')
	n := append(append([]byte{' '}, needle...), ' ')
	return bytes.Contains(h, n)
}

func execSubword(line string) Result {
	f := strings.Fields(line)
	if len(f) != 4 || f[0] != "subw" || (f[1] != "0" && f[1] != "1") {
		return Result{Out: "bad-op"}
	}
	hay, ok1 := swBytes(f[2])
	needle, ok2 := swBytes(f[3])
	if !ok1 || !ok2 {
		return Result{Out: "bad-op"}
	}
	ci := f[1] == "1"
	got := utils.IsSubWordPresent(hay, needle, ci)
	res := Result{Out: "0", Tags: []string{"ci=" + f[1]}}
	if got {
		res.Out = "1"
	}
	cmpHay, cmpNeedle := hay, needle
	if ci {
		cmpHay, cmpNeedle = swFold(hay), swFold(needle)
	}
	occurrences := 0
	if len(needle) > 0 {
		occurrences = bytes.Count(cmpHay, cmpNeedle)
	}
	res.Nontrivial = occurrences > 0
	if occurrences > 1 {
		res.Tags = append(res.Tags, "several-occurrences")
	}
	if len(needle) == 0 {
		res.Tags = append(res.Tags, "empty-needle")
		return res // the callers never pass an empty needle (documented assumption of the function)
	}
	if bytes.Contains(needle, []byte(" ")) {
		res.Tags = append(res.Tags, "multi-word-needle")
	}
	want := swRef(hay, needle, ci)
	if occurrences > 0 && want && !swRef(cmpHay[:bytes.Index(cmpHay, cmpNeedle)+len(cmpNeedle)], cmpNeedle, false) {
		res.Tags = append(res.Tags, "first-occurrence-inside-a-longer-token")
	}
	if got != want {
		res.Fails = append(res.Fails, PropFail{Sig: "subword/not-the-token-rule", Msg: fmt.Sprintf("IsSubWordPresent(%q, %q, caseInsensitive=%v) = %v, but the needle %s between token boundaries", hay, needle, ci, got, map[bool]string{true: "occurs", false: "does not occur"}[want])})
	}
	return res
}

func genSubword(r *rand.Rand, n int, tier string) []string {
	words := []string{"timeout", "err", "a", "foo", "Ab", "x1"}
	other := []string{"retry", "b", "zz", "reached", "now", "-"}
	recase := func(s string) string {
		b := []byte(s)
		for i := range b {
			if r.Intn(2) == 0 {
				if b[i] >= 'a' && b[i] <= 'z' {
					b[i] -= 32
				} else if b[i] >= 'A' && b[i] <= 'Z' {
					b[i] += 32
				}
			}
		}
		return string(b)
	}
	var out []string
	for len(out) < n {
		if r.Intn(40) == 0 {
			out = append(out, []string{"subw 2 61 61", "subw 1 6 61", "subw 1 61", "subw 0 e e", "subw 0 61 e", "subw 1 e 61", "subx 1 61 61"}[r.Intn(7)])
			continue
		}
		w := words[r.Intn(len(words))]
		needle := w
		if r.Intn(4) == 0 {
			needle = w + " " + words[r.Intn(len(words))] // phrase
		}
		nt := 1 + r.Intn(5)
		var toks []string
		for i := 0; i < nt; i++ {
			switch r.Intn(8) {
			case 0:
				toks = append(toks, needle)
			case 1:
				toks = append(toks, "x"+needle)
			case 2:
				toks = append(toks, needle+"x")
			case 3:
				toks = append(toks, "retry-"+needle)
			case 4:
				toks = append(toks, recase(needle))
			case 5:
				toks = append(toks, needle+needle)
			case 6:
				toks = append(toks, w)
			default:
				toks = append(toks, other[r.Intn(len(other))])
			}
		}
		var sb strings.Builder
		for i, t := range toks {
			if i > 0 {
				sb.WriteString([]string{" ", " ", " ", "  ", "\t"}[r.Intn(5)])
			}
			sb.WriteString(t)
		}
		hay := sb.String()
		switch r.Intn(12) {
		case 0:
			hay = " " + hay
		case 1:
			hay = hay + " "
		}
		nd := needle
		if r.Intn(5) == 0 {
			nd = recase(needle)
		}
		out = append(out, fmt.Sprintf("subw %d %s %s", r.Intn(2), swShow([]byte(hay)), swShow([]byte(nd))))
	}
	return out
}
