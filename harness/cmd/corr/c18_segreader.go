package main

// C18 — reader state above the checksummed chunk reader.   Kernel suite "segreader".
//
//	segreader <enc> B <block> <block> … M <mutation> O <op> <op> …
//
//	enc      : dict | raw | ts
//	block    : <payload hex>:<record hex>,<record hex>,…     one checksum chunk = one block of the column file; the payload is
//	           what the segment writer stores for these records (dict: dictionary encoding, raw: zstd of the TLVs, ts: top-diff
//	           encoding; the records of a ts block are decimal timestamps);  `-` = the column has no data in this block
//	mutation : none | cut:<n> | set:<pos>:<byte>            applied to the file of reader A (reader B reads an intact copy)
//	op       : l<b>  ValidateAndReadBlock(b) through MultiColSegmentReader          p<b>  IsBlkDictEncoded(b)
//	           r<b>.<i>  ValidateAndReadBlock(b), then ReadRawRecordFromColumnFile(b, i)
//	           t<b>.<i>  GetTimeStampForRecord(b, i)   (enc ts)
//	           L, P, R, T : the same on reader B.  Both readers take their buffers from the same pools.
//
// Out: one result per op (ok | err | <served hex> | none), to be equal to the Lean model's (SigModel.SegReader) answer.
// PropFail (independent of the model): bytes served for (b, i) must be record i of block b as written; reader B (intact
// file) must never fail or serve anything else.

import (
	"encoding/binary"
	"encoding/hex"
	"fmt"
	"math/rand"
	"os"
	"path/filepath"
	"strconv"
	"strings"

	"github.com/klauspost/compress/zstd"
	"github.com/siglens/siglens/pkg/segment/reader/segread"
	"github.com/siglens/siglens/pkg/segment/reader/segread/segreader"
	"github.com/siglens/siglens/pkg/segment/structs"
	sutils "github.com/siglens/siglens/pkg/segment/utils"
	"github.com/siglens/siglens/pkg/utils"
)

func init() {
	register(&Suite{Name: "segreader", Gen: genSegReader, Exec: execSegReader,
		Rule: "hand-built column files (2-4 blocks of 2-4 records; dictionary, zstd and timestamp encoding; blocks of equal layout, records distinct across blocks; optionally a block without data) written through the real ChecksumFile; one byte of one chunk changed (header fields, data) or the file truncated; random sequences of block loads, dictionary probes and record reads on the real SegmentFileReader / TimeRangeReader (through MultiColSegmentReader), interleaved with a second reader on an intact copy that shares the buffer pools; non-trivial = a damaged block is touched after another block had loaded"})
}

var srEnc *zstd.Encoder

func srTLV(s string) []byte {
	b := []byte{sutils.VALTYPE_ENC_SMALL_STRING[0], byte(len(s)), byte(len(s) >> 8)}
	return append(b, s...)
}

// dictionary block: words in order of first use
func srDictPayload(recs [][]byte) []byte {
	var words [][]byte
	idx := map[string]int{}
	recsOf := map[int][]int{}
	for i, r := range recs {
		k, ok := idx[string(r)]
		if !ok {
			k = len(words)
			idx[string(r)] = k
			words = append(words, r)
		}
		recsOf[k] = append(recsOf[k], i)
	}
	p := []byte{sutils.ZSTD_DICTIONARY_BLOCK[0], byte(len(words)), byte(len(words) >> 8)}
	for k, w := range words {
		p = append(p, w...)
		p = append(p, byte(len(recsOf[k])), byte(len(recsOf[k])>>8))
		for _, rn := range recsOf[k] {
			p = append(p, byte(rn), byte(rn>>8))
		}
	}
	return p
}

func srRawPayload(recs [][]byte) []byte {
	if srEnc == nil {
		srEnc, _ = zstd.NewWriter(nil)
	}
	var all []byte
	for _, r := range recs {
		all = append(all, r...)
	}
	return append([]byte{sutils.ZSTD_COMLUNAR_BLOCK[0]}, srEnc.EncodeAll(all, nil)...)
}

func srTsPayload(ts []uint64) []byte {
	low := ts[0]
	for _, t := range ts {
		if t < low {
			low = t
		}
	}
	p := []byte{sutils.TIMESTAMP_TOPDIFF_VARENC[0], byte(structs.TS_Type16)}
	p = binary.LittleEndian.AppendUint64(p, low)
	for _, t := range ts {
		p = binary.LittleEndian.AppendUint16(p, uint16(t-low))
	}
	return p
}

func genSegReader(r *rand.Rand, n int, tier string) []string {
	var out []string
	for c := 0; c < n; c++ {
		enc := []string{"dict", "dict", "raw", "ts"}[r.Intn(4)]
		nb := 2 + r.Intn(3)
		nr := 2 + r.Intn(3)
		absent := -1
		if enc != "ts" && r.Intn(6) == 0 {
			absent = r.Intn(nb)
		}
		var blocks []string
		var sizes []int
		repeatWord := enc == "dict" && r.Intn(2) == 0 // the same pattern in every block: all payloads have one length
		for b := 0; b < nb; b++ {
			if b == absent {
				blocks = append(blocks, "-")
				sizes = append(sizes, 0)
				continue
			}
			var payload []byte
			var recs []string
			if enc == "ts" {
				var ts []uint64
				for i := 0; i < nr; i++ {
					ts = append(ts, sfBase+uint64(b)*100000+uint64(i)*1000+uint64(r.Intn(900)))
					recs = append(recs, strconv.FormatUint(ts[i], 10))
				}
				payload = srTsPayload(ts)
			} else {
				var rs [][]byte
				for i := 0; i < nr; i++ {
					// same lengths in every block (equal layout), distinct content across blocks and records
					v := fmt.Sprintf("b%dr%d", b, i)
					if repeatWord && i == nr-1 {
						v = fmt.Sprintf("b%dr%d", b, 0) // a repeated dictionary word
					}
					rs = append(rs, srTLV(v))
					recs = append(recs, hex.EncodeToString(rs[i]))
				}
				if enc == "dict" {
					payload = srDictPayload(rs)
				} else {
					payload = srRawPayload(rs)
				}
			}
			blocks = append(blocks, hex.EncodeToString(payload)+":"+strings.Join(recs, ","))
			sizes = append(sizes, 12+len(payload))
		}
		total := 0
		var starts []int
		for _, s := range sizes {
			starts = append(starts, total)
			total += s
		}
		// damage: a block that is not the first chunk of the file in most cases (offset-0 magic = legacy fallback, suite csf)
		mut := "none"
		dmg := r.Intn(nb)
		if r.Intn(4) != 0 && nb > 1 {
			dmg = 1 + r.Intn(nb-1)
		}
		if sizes[dmg] > 0 {
			switch r.Intn(8) {
			case 0:
			case 1: // truncation inside the data of the chunk
				mut = fmt.Sprintf("cut:%d", starts[dmg]+12+1+r.Intn(sizes[dmg]-13))
			case 2: // truncation inside the header / at the chunk start
				mut = fmt.Sprintf("cut:%d", starts[dmg]+r.Intn(13))
			case 3: // header byte (magic of chunk 0 excluded)
				p := starts[dmg] + r.Intn(12)
				if p < 4 {
					p = 4 + r.Intn(8)
				}
				mut = fmt.Sprintf("set:%d:%d", p, r.Intn(256))
			default: // data byte
				mut = fmt.Sprintf("set:%d:%d", starts[dmg]+12+r.Intn(sizes[dmg]-12), r.Intn(256))
			}
		}
		var ops []string
		no := 3 + r.Intn(8)
		last := r.Intn(nb)
		// a return to the block touched before a failed attempt is generated on purpose: the reader must load it again
		// (before the repair of readBlock it served the overwritten buffers; for zstd blocks what it served then
		// depended on the pool's history)
		for i := 0; i < no; i++ {
			b := r.Intn(nb)
			switch r.Intn(6) {
			case 0:
				b = dmg
			case 1:
				b = last // come back to the block touched before
			}
			rd := "A"
			if r.Intn(4) == 0 {
				rd = "B"
			}
			var op string
			if enc == "ts" {
				op = fmt.Sprintf("t%d.%d", b, r.Intn(nr+1))
			} else {
				switch r.Intn(5) {
				case 0:
					op = fmt.Sprintf("l%d", b)
				case 1:
					op = fmt.Sprintf("p%d", b)
				default:
					op = fmt.Sprintf("r%d.%d", b, r.Intn(nr+1))
				}
			}
			if rd == "B" {
				op = strings.ToUpper(op[:1]) + op[1:]
			}
			ops = append(ops, op)
			last = b
		}
		if len(ops) == 0 {
			ops = append(ops, "L0")
		}
		out = append(out, fmt.Sprintf("segreader %s B %s M %s O %s", enc, strings.Join(blocks, " "), mut, strings.Join(ops, " ")))
	}
	if n >= 6 {
		out[len(out)-1] = "segreader dict B zz:01 M none O r0.0"
		out[len(out)-2] = "segreader dict B 0100:0203 M cut:x O r0.0"
	}
	return out
}

type srBlock struct {
	payload []byte
	recs    [][]byte // dict/raw: record bytes; ts: 8-byte big-endian timestamps (for comparison only)
	ts      []uint64
	absent  bool
}

type srReader struct {
	fd   *os.File
	sfr  *segreader.SegmentFileReader
	trr  *segread.TimeRangeReader
	mcsr *segread.MultiColSegmentReader
}

func srOpen(path, enc string, blocks []srBlock) *srReader {
	fd, err := os.Open(path)
	if err != nil {
		panic(err)
	}
	allBmi := &structs.AllBlksMetaInfo{CnameDict: map[string]int{"c": 0, "timestamp": 0}, AllBmh: map[uint16]*structs.BlockMetadataHolder{}}
	var sums []*structs.BlockSummary
	blkRec := map[uint16]uint16{}
	all := map[uint16]struct{}{}
	off := int64(0)
	for i, b := range blocks {
		n := uint16(len(b.recs))
		if enc == "ts" {
			n = uint16(len(b.ts))
		}
		l := uint32(len(b.payload))
		if b.absent {
			l = 0
		}
		allBmi.AllBmh[uint16(i)] = &structs.BlockMetadataHolder{BlkNum: uint16(i), ColBlockOffAndLen: []structs.ColOffAndLen{{Offset: off, Length: l}}}
		if !b.absent {
			off += 12 + int64(len(b.payload))
		}
		sums = append(sums, &structs.BlockSummary{RecCount: n})
		blkRec[uint16(i)] = n
		all[uint16(i)] = struct{}{}
	}
	r := &srReader{fd: fd}
	if enc == "ts" {
		r.trr, err = segread.InitNewTimeReaderWithFD(fd, "timestamp", all, blkRec, 0, allBmi)
		if err != nil {
			panic(err)
		}
		r.mcsr = segread.VerifC18NewMultiColReader(nil, nil, r.trr)
	} else {
		r.sfr, err = segreader.InitNewSegFileReader(fd, "c", all, 0, sums, sutils.INCONSISTENT_CVAL_SIZE, allBmi)
		if err != nil {
			panic(err)
		}
		r.mcsr = segread.VerifC18NewMultiColReader([]string{"c"}, []*segreader.SegmentFileReader{r.sfr}, nil)
	}
	return r
}

func execSegReader(line string) Result {
	f := strings.Fields(line)
	if len(f) < 8 || f[0] != "segreader" || f[2] != "B" {
		return Result{Out: "bad-op"}
	}
	enc := f[1]
	if enc != "dict" && enc != "raw" && enc != "ts" {
		return Result{Out: "bad-op"}
	}
	mi, oi := -1, -1
	for i, t := range f {
		if t == "M" && mi < 0 {
			mi = i
		}
		if t == "O" && oi < 0 {
			oi = i
		}
	}
	if mi < 4 || oi != mi+2 || oi >= len(f)-1 {
		return Result{Out: "bad-op"}
	}
	var blocks []srBlock
	for _, t := range f[3:mi] {
		if t == "-" {
			blocks = append(blocks, srBlock{absent: true})
			continue
		}
		p := strings.SplitN(t, ":", 2)
		if len(p) != 2 || p[0] == "" || p[1] == "" {
			return Result{Out: "bad-op"}
		}
		pl, err := hex.DecodeString(p[0])
		if err != nil || len(pl) == 0 {
			return Result{Out: "bad-op"}
		}
		b := srBlock{payload: pl}
		for _, rh := range strings.Split(p[1], ",") {
			if enc == "ts" {
				if !digitsOnly(rh) || len(rh) > 18 {
					return Result{Out: "bad-op"}
				}
				v, _ := strconv.ParseUint(rh, 10, 64)
				b.ts = append(b.ts, v)
			} else {
				rb, err := hex.DecodeString(rh)
				if err != nil || len(rb) == 0 {
					return Result{Out: "bad-op"}
				}
				b.recs = append(b.recs, rb)
			}
		}
		blocks = append(blocks, b)
	}
	if len(blocks) > 16 {
		return Result{Out: "bad-op"}
	}
	// mutation
	mp := strings.Split(f[mi+1], ":")
	switch {
	case len(mp) == 1 && mp[0] == "none":
	case len(mp) == 2 && mp[0] == "cut" && digitsOnly(mp[1]) && len(mp[1]) < 8:
	case len(mp) == 3 && mp[0] == "set" && digitsOnly(mp[1]) && len(mp[1]) < 8 && digitsOnly(mp[2]) && len(mp[2]) < 4:
		if v, _ := strconv.Atoi(mp[2]); v > 255 {
			return Result{Out: "bad-op"}
		}
	default:
		return Result{Out: "bad-op"}
	}
	type sop struct {
		rd   int // 0 = A, 1 = B
		kind byte
		b, i int
	}
	var ops []sop
	for _, t := range f[oi+1:] {
		if len(t) < 2 {
			return Result{Out: "bad-op"}
		}
		o := sop{kind: t[0]}
		if t[0] >= 'A' && t[0] <= 'Z' {
			o.rd = 1
			o.kind = t[0] + 32
		}
		rest := t[1:]
		switch o.kind {
		case 'l', 'p':
			if !digitsOnly(rest) || len(rest) > 3 || enc == "ts" {
				return Result{Out: "bad-op"}
			}
			o.b, _ = strconv.Atoi(rest)
		case 'r', 't':
			bi := strings.Split(rest, ".")
			if len(bi) != 2 || !digitsOnly(bi[0]) || !digitsOnly(bi[1]) || len(bi[0]) > 3 || len(bi[1]) > 3 || (o.kind == 't') != (enc == "ts") {
				return Result{Out: "bad-op"}
			}
			o.b, _ = strconv.Atoi(bi[0])
			o.i, _ = strconv.Atoi(bi[1])
		default:
			return Result{Out: "bad-op"}
		}
		ops = append(ops, o)
	}

	dir, _ := os.MkdirTemp("", "verifsr")
	defer os.RemoveAll(dir)
	pa, pb := filepath.Join(dir, "a.csg"), filepath.Join(dir, "b.csg")
	fd, err := os.OpenFile(pa, os.O_CREATE|os.O_RDWR, 0o644)
	if err != nil {
		panic(err)
	}
	csf := &utils.ChecksumFile{Fd: fd}
	for _, b := range blocks {
		if !b.absent {
			if err := csf.AppendChunk(b.payload); err != nil {
				panic(err)
			}
		}
	}
	fd.Close()
	data, _ := os.ReadFile(pa)
	os.WriteFile(pb, data, 0o644)
	changed := false
	switch mp[0] {
	case "cut":
		if k, _ := strconv.Atoi(mp[1]); k < len(data) {
			data, changed = data[:k], true
		}
	case "set":
		p, _ := strconv.Atoi(mp[1])
		v, _ := strconv.Atoi(mp[2])
		if p < len(data) && data[p] != byte(v) {
			data[p], changed = byte(v), true
		}
	}
	os.WriteFile(pa, data, 0o644)

	// which blocks of the damaged file are unreadable: one FRESH reader per block
	unreadable := make([]bool, len(blocks))
	for bi := range blocks {
		fr := srOpen(pa, enc, blocks)
		if enc == "ts" {
			_, err := fr.mcsr.GetTimeStampForRecord(uint16(bi), 0, 0)
			unreadable[bi] = err != nil
		} else {
			unreadable[bi] = fr.mcsr.ValidateAndReadBlock(map[int]struct{}{0: {}}, uint16(bi)) != nil
		}
		fr.mcsr.VerifC18ReturnBuffers()
		fr.fd.Close()
	}
	rds := []*srReader{srOpen(pa, enc, blocks), srOpen(pb, enc, blocks)}
	defer func() {
		for _, r := range rds {
			r.mcsr.VerifC18ReturnBuffers()
			r.fd.Close()
		}
	}()
	res := Result{Tags: []string{"enc:" + enc, "mut:" + mp[0]}}
	var outs []string
	okLoaded := [2]bool{}
	cols := map[int]struct{}{0: {}}
	for _, o := range ops {
		r := rds[o.rd]
		name := []string{"A", "B"}[o.rd]
		var out string
		var served []byte
		var servedTs uint64
		gotData := false
		switch o.kind {
		case 'l':
			if err := r.mcsr.ValidateAndReadBlock(cols, uint16(o.b)); err != nil {
				out = "err"
			} else {
				out = "ok"
			}
		case 'p':
			if _, err := r.mcsr.IsBlkDictEncoded("c", uint16(o.b)); err != nil {
				out = "err"
			} else {
				out = "ok"
			}
		case 'r':
			if err := r.mcsr.ValidateAndReadBlock(cols, uint16(o.b)); err != nil {
				out = "err"
			} else {
				raw, err := r.mcsr.ReadRawRecordFromColumnFile(0, uint16(o.b), uint16(o.i), 0, false)
				if err != nil || len(raw) == 0 {
					out = "none"
				} else {
					served = append([]byte{}, raw...)
					gotData = true
					out = hex.EncodeToString(served)
				}
			}
		case 't':
			ts, err := r.mcsr.GetTimeStampForRecord(uint16(o.b), uint16(o.i), 0)
			if err != nil {
				out = "none"
			} else {
				servedTs, gotData = ts, true
				out = strconv.FormatUint(ts, 10)
			}
		}
		outs = append(outs, out)
		if out == "err" || out == "none" {
			if o.rd == 0 && okLoaded[0] && changed {
				res.Nontrivial = true
			}
			if o.rd == 1 && o.b < len(blocks) && !blocks[o.b].absent &&
				(o.kind == 'l' || o.kind == 'p' || (enc == "ts" && o.i < len(blocks[o.b].ts)) || (enc != "ts" && o.i < len(blocks[o.b].recs))) {
				res.Fails = append(res.Fails, PropFail{Sig: "segreader/healthy-reader-affected", Msg: fmt.Sprintf("op %c%d.%d on the reader of the INTACT file failed (%s)", o.kind, o.b, o.i, out)})
			}
		} else {
			okLoaded[o.rd] = true
		}
		if gotData {
			// the property: what is served for (b, i) is record i of block b as written
			same := false
			which := "altered-record"
			for k, bl := range blocks {
				var eq bool
				if enc == "ts" {
					eq = o.i < len(bl.ts) && bl.ts[o.i] == servedTs
				} else {
					eq = o.i < len(bl.recs) && string(bl.recs[o.i]) == string(served)
				}
				if eq && k == o.b {
					same = true
				} else if eq {
					which = "other-block"
				}
			}
			if !same {
				// witness classes: the block asked for is itself unreadable (nothing may be served for it) / it is readable
				// but the reader serves from buffers that a failed attempt on ANOTHER block has overwritten
				sig := "segreader/stale-buffer-served-after-failed-load/" + enc
				if o.b < len(unreadable) && unreadable[o.b] {
					sig = "segreader/unreadable-block-served/" + enc
				}
				if o.rd == 1 {
					sig = "segreader/healthy-reader-affected"
				}
				res.Fails = append(res.Fails, PropFail{Sig: sig, Msg: fmt.Sprintf("reader %s: %s served for block %d record %d, which is not that record as written (%s)", name, out, o.b, o.i, which)})
			}
		}
	}
	res.Out = strings.Join(outs, " ")
	return res
}
