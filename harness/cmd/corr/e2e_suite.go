package main

// End-to-end differential suites (C01–C06): one op line = config + ingest history + queries.
//   e2e <cfg…> H <history…> Q <query…>
//   cfg    : card=<n>  pqs=<0|1> (persistent-query results; default on, as in the engine's default configuration)
//   history: ev/<vid>/<ts>/<k~tv,…|->  send  fl  ro          tv ::= i<int> | d<dec> | s<hex> | b0 | b1 | z
//            st/<n>           (between batches) the following batches go to ingest stream n of the index (default 0): every stream
//                             has its own segstore, i.e. its own open segment, flushed and rotated together with the others
//            rq/<filterRPN>   the query is run at this point of the history over the whole time range, the answer is
//                             discarded: it registers the query as persistent, so that segments created afterwards get
//                             their persistent-query results computed while they are ingested
//   query  : q/<from>/<size>/<start>/<end>/<filterRPN>[/<stage>]
//            w                wait until the background write of persistent-query results has finished (no answer)
//            filterRPN ::= item{,item}; item ::= all | c:<field>:<op>:<lit> | and | or | not ; lit ::= i… | d… | s<hex> | w<hex>
//                    | t:<hex> free-text term | tc:<hex> case-sensitive term CASE(w) | p:<hex> phrase "…" | pc:<hex> case-sensitive phrase CASE("…")
//            stage ::= recs | stats:<agg+agg>:<by+by|-> | tc:<spanMs>:<agg+agg>:<by|->     agg ::= count | sum.f | min.f | max.f | avg.f | dc.f | cnt.f (= count(f))
//                    | pstats:… | ptc:…   the same command behind `| eval verif_pp=1`: the engine then runs it in the stats /
//                                         timechart PROCESSOR of the pipeline instead of the search stage (same meaning, C06)
//                    | where:<field>:<op>:<lit>   `| where <field><op><lit>` (answer: ids)
//                    | regex:<field>:<eq|ne>:<hexglob>  `| regex <field>="<re>"` / `!=`: the glob as a regular expression (a*c = ^a.*c$, *b* = b), exact case
//                    | win:<field>:<lit+lit…>     `| where in(<field>, …)`
//                    | tm:<startSec>:<endSec>     `| earliest=<MM/DD/YYYY:HH:MM:SS> latest=…` behind the filter; the request itself asks for a wide range
//                    | sql                        the filter (one comparison) is sent as `SELECT * FROM <index> WHERE …` through the SQL front end
//                    | head:<n> | tail:<n> | dedup:<field> | top:<field>:<limit|-> | rare:<field>:<limit|->
//            tv     ::= … | r<n>.<hexunit>  a string of n bytes: the unit repeated (long values)
//            a field name whose dotted components are all numbers below an object key (a.0, a.1, o.2.x) is sent as a JSON ARRAY
//            by the events that are sent nested (even vid): the engine flattens arrays to these names
// Exec runs the history and the queries in a fresh worker process (one dataset per process) through
// the public entry points and prints one canonical segment per query; the Lean Oracle prints the
// SPECIFICATION's answer for the same line; lib/runner.py compares them (mode e2e).

import (
	"bytes"
	"encoding/hex"
	"encoding/json"
	"fmt"
	"math/big"
	"math/rand"
	"os"
	"os/exec"
	"regexp"
	"sort"
	"strconv"
	"strings"
	"time"
)

func init() {
	for _, p := range []string{"c01", "c02", "c03", "c04", "c05"} {
		p := p
		gen := func(r *rand.Rand, n int, tier string) []string { return genE2E(r, n, tier, p) }
		if p == "c02" {
			// a tenth of the cases (generated after the others): words delimited by a tab / line feed / carriage return
			gen = func(r *rand.Rand, n int, tier string) []string {
				out := genE2E(r, n-n/10, tier, p)
				for c := 0; c < n/10; c++ {
					out = append(out, genE2EWordSep(r, p))
				}
				return out
			}
		}
		rule := "datasets of 1..40 events over typed columns (int, dyadic decimal, mixed, text, numeric text, sparse, bool, late) × random batch/flush/rotate histories × queries of profile " + p + "; each case runs in its own engine process; non-trivial = ≥3 events and ≥1 query"
		if p == "c05" {
			rule += "; head / tail / dedup / top / rare behind the search over several blocks and segments (ties, events lacking the field, a filter in front)"
		}
		if p == "c01" {
			rule += "; arrays (scalars of mixed kinds, objects and arrays inside) sent as JSON arrays, values of 255 … 60000 bytes, events with 300–800 columns"
		}
		if p == "c02" || p == "c03" {
			rule += "; a tenth of the cases: words delimited by a tab / line feed / carriage return instead of a blank (fatal\\ttimeout, a\\ntimeout, x\\r\\ntimeout) next to blank-delimited occurrences, every event in a block of its own (c03: and all in one block as second layout), searched by term / CASE() / NOT / AND / OR / phrase / wildcard / column comparison — only the blank separates words, for the record matcher and the block bloom alike (tag free-text/word-delimited-by-tab-or-line-break); literal and column of different kinds by construction: quoted numbers against numbers, numeric text and text, text against numbers and booleans, wildcards against numbers, numeric text at the edges of the number grammar (+5, 1E2, 5., .5, 1e, -, e5, 0x10, nan, 1_000), a column mixing numbers, numeric text and text per block, free-text terms that are numbers, also under NOT alone and inside AND / OR; case-sensitive words and phrases (CASE(…)) and phrases over values in which the word first occurs inside a longer token and later as a whole word; multi-word values with capitals, never stored in lower case, searched by full value and phrase in another case"
			if p == "c02" {
				rule += "; every single numeric comparison once in the search clause and once as a where stage; wildcards in front / in the middle / at both ends of a value; single comparisons also through the SQL front end; `| regex` with anchored, prefix, suffix and infix patterns; `| where in(f, …)`; the time range given as earliest= / latest= in the query text"
			}
		}
		if p == "c01" || p == "c03" || p == "c04" {
			gen = func(r *rand.Rand, n int, tier string) []string { return genE2EV2(r, n, tier, p) }
			rule += "; event times uniform / clustered with outlier blocks (block time ranges not monotonic) / on a grid; query windows whole, cutting, or snapped onto event timestamps (±1)"
			if p == "c03" || p == "c04" {
				rule += "; a sixth of the cases: 2–3 segments disjoint in time sharing most values (integers also beyond 2^53, decimals, numeric text, text, a column mixing numbers and numeric text) and `stats` without by over windows that ENCLOSE one rotated segment (answered from its .sst file) and CUT THROUGH a neighbour (recomputed from records) in one query, next to all-.sst and records-only windows: count, sum, min, max, avg, dc, count(field) over every column kind (tag sst-and-raw-in-one-query)"
			}
			switch p {
			case "c01":
				rule += "; a column whose blocks hold numbers only, numeric-looking strings only (007, +5, 1e3, 5., .5, 1E2 …), both, or text"
			case "c03":
				rule += "; persistent-query results on/off per layout, the same filter run again over other windows (narrow around the cluster, then wide) with waits for the background persistent-query write, queries inside the history"
			case "c04":
				rule += "; stats and first-stage timechart (span, count/sum/min/max/avg/dc, by-field) with events exactly on the query bounds and on cell edges; distinct counts and group keys over integers beyond 2^53 that differ in their low bits; count(field), avg, sum, min, max over sparse measure fields and over a column holding numbers, numeric text and text per block; the same stats / timechart behind another command (stats and timechart PROCESSORS of the pipeline: same groups, same series names); events still in the write buffer when the queries run (search, stats and stats by must agree on them); windows that hold no block at all (stats without by still has its one row, in the search stage and in the stats processor)"
			}
		}
		register(&Suite{Name: "e2e_" + p, Parallel: 6, Gen: gen, Exec: execE2E, Rule: rule})
	}
	register(&Suite{Name: "e2e_cseg", Parallel: 6, Gen: genE2ESeg, Exec: execE2E,
		Rule: "segment selection by time, end to end: one index whose segments have very different time widths, overlap, are nested and are not ordered by time (1–3 ingest streams with their own segstores, back-filled events), rotated and open segments mixed; by construction: a wide rotated segment + a narrow rotated one ending later + an older narrow one inside the wide one, queried over windows that end between the two narrow ones; a rotated segment ending after the window + flushed events of an open segment (second stream or late events) inside the window; query windows ending before / on the bounds of / inside / after the single segments; match-all and simple comparisons, as record search, stats (segment-statistics and raw path) and stats processor; a third of the cases also as a second layout (one stream, time order, one segment); non-trivial = ≥3 events and ≥1 query"})
	register(&Suite{Name: "e2e_pqsboot", Parallel: 2, Gen: genPqsBoot, Exec: execE2E,
		Rule: "first boot on a fresh data directory, the back-fill queue of the persistent-query results read by nothing but the engine's own listener (cfg pqdrain=0): (a) 100 distinct persistent queries over one rotated segment — the 100 back-fill requests must reach the .sfm file; (b) 100 persistent queries that match nothing, registered before 11 segments are ingested and rotated — more empty-result requests than the queue holds, no sender may stay blocked and the next query must answer; non-trivial = always"})
}

// the two first-boot probes of the persistent-query back-fill queue (token pqcheck, see execE2ELayout)
func genPqsBoot(r *rand.Rand, n int, tier string) []string {
	var out []string
	for c := 0; c < n; c++ {
		toks := []string{"e2e", "pqdrain=0", "H"}
		if c%2 == 0 {
			nev := 10 + r.Intn(20)
			for v := 1; v <= nev; v++ {
				toks = append(toks, fmt.Sprintf("ev/%d/%d/i~i%d,s~s%s", v, e2eBase+uint64(r.Intn(5000)), r.Intn(7), hexs(vocab[r.Intn(len(vocab))])))
			}
			toks = append(toks, "send", "ro", "Q")
			for k := 3; k <= 110; k++ {
				toks = append(toks, fmt.Sprintf("q/0/1000/%d/%d/c:i:lt:i%d", e2eBase-1000, e2eBase+6000, k))
			}
			toks = append(toks, "w", "pqcheck")
		} else {
			base := 1000 + r.Intn(1000)
			for k := 0; k < 100; k++ {
				toks = append(toks, fmt.Sprintf("rq/c:i:gt:i%d", base+k))
			}
			v := 1
			for sg := 0; sg < 11; sg++ {
				for k := 0; k < 3; k++ {
					toks = append(toks, fmt.Sprintf("ev/%d/%d/i~i%d,s~s%s", v, e2eBase+uint64(r.Intn(5000)), r.Intn(7), hexs("x")))
					v++
				}
				toks = append(toks, "send", "ro")
			}
			toks = append(toks, "Q", "w", "pqcheck", fmt.Sprintf("q/0/1000/%d/%d/c:i:lt:i3", e2eBase-1000, e2eBase+6000))
		}
		out = append(out, strings.Join(toks, " "))
	}
	return out
}

// the grammar of the engine's utils.FastParseFloat
var e2eNumStrRe = regexp.MustCompile(`^[+-]?([0-9]+(\.[0-9]*)?|\.[0-9]+)([eE][+-]?[0-9]+)?$`)

// strings on both sides of the border of the grammar (all numeric ones exactly representable)
var e2eNumEdge = []string{"+5", "1E2", "5.", ".5", "007", "-0", "+.5e1", "1e1", "2.50", "1E+2", "1e", "1e+", "-", "e5", "0x10", "12a", "nan", "1_000", "5 ", "٥"}

var e2eWordy = []string{"xtimeout timeout", "retry-timeout reached timeout", "timeout", "a timeout b", "timeoutx timeout timeout", "Timeout timeout",
	"TIMEOUT  timeout", "timeout-x", "xtimeout", "the Timeout", "timeout timeout", "no match here", "timeoutxtimeout timeout", "reached timeout now",
	"xtimeout ytimeout", "retry timeoutx", "Reached Timeout",
	// the word delimited by a TAB, a line feed or a carriage return instead of a blank: only the blank separates words — for the
	// record-level matcher (utils.IsSubWordPresent) and for the block bloom (split at blanks) alike — so these values hold no
	// word `timeout` / `reached` / `retry`, whichever block they share with the blank-delimited occurrences above
	"fatal\ttimeout", "timeout\tfatal", "a\ntimeout", "x\r\ntimeout", "pre\ttimeout\tpost", "reached\ntimeout", "retry\treached\tnow",
	"timeout\nsecond line", "Timeout\r\n"}

// spellings of one message each; never all lower case
var e2eMsgs = [][]string{
	{"Connection refused by peer", "connection Refused by peer", "CONNECTION REFUSED by PEER", "connection refused by Peer"},
	{"Disk quota exceeded on Volume", "Disk Quota exceeded on volume", "DISK quota exceeded on volume"},
	{"read Timeout occurred", "Read timeout Occurred"},
	{"User Login failed", "user login Failed", "USER login failed"},
	{"Peer refused", "peer Refused"},
}

type kv struct{ k, tv string }
type e2eEvent struct {
	vid    int
	ts     uint64
	fields []kv
}

var vocab = []string{"abc", "ABC", "abc def", "xyz", "foo bar", "x", "Hello", "zzz"}

func dyadic(r *rand.Rand) string {
	n := r.Intn(160) - 40
	d := []int{2, 4, 8}[r.Intn(3)]
	if n%d == 0 {
		n++
	}
	return strconv.FormatFloat(float64(n)/float64(d), 'g', -1, 64)
}

func hexs(s string) string { return hex.EncodeToString([]byte(s)) }
func unhexs(h string) string {
	b, _ := hex.DecodeString(h)
	return string(b)
}

func genEvent(r *rand.Rand, vid int, ts uint64, profile string, late bool) e2eEvent {
	e := e2eEvent{vid: vid, ts: ts}
	add := func(k, tv string) { e.fields = append(e.fields, kv{k, tv}) }
	dense := profile == "c02" || profile == "c03" || profile == "c04"
	if dense || r.Intn(10) != 0 {
		v := int64(r.Intn(26) - 5)
		if profile == "c01" && r.Intn(8) == 0 {
			v = []int64{9007199254740993, -9007199254740993, 9223372036854775807, -9223372036854775808, 4294967296, 65536, 255, 256, -129}[r.Intn(9)]
		}
		add("i", fmt.Sprintf("i%d", v))
	}
	if dense || r.Intn(10) != 0 {
		add("f", "d"+dyadic(r))
	}
	if r.Intn(3) != 0 {
		if r.Intn(2) == 0 {
			add("m", fmt.Sprintf("i%d", r.Intn(12)))
		} else {
			add("m", "d"+dyadic(r))
		}
	}
	if dense || r.Intn(6) != 0 {
		add("s", "s"+hexs(vocab[r.Intn(len(vocab))]))
	}
	if r.Intn(3) == 0 {
		switch r.Intn(5) {
		case 0, 1:
			add("ns", "s"+hexs(strconv.Itoa(r.Intn(9))))
		case 2, 3:
			add("ns", "s"+hexs(dyadic(r)))
		default: // the edges of the number grammar: numbers for the engine (+5, 1E2, 5., .5, 007, -0, +.5e1) and text (1e, -, e5, 0x10, 12a, nan, 1_000)
			add("ns", "s"+hexs(e2eNumEdge[r.Intn(len(e2eNumEdge))]))
		}
	}
	if r.Intn(4) == 0 {
		add("x", fmt.Sprintf("i%d", r.Intn(5)))
	}
	if profile == "c02" || profile == "c03" {
		if r.Intn(3) == 0 {
			// free text in which a word first occurs INSIDE a longer token and later (or never) as a whole word, at the
			// start / middle / end, repeated, in another case
			add("w", "s"+hexs(e2eWordy[r.Intn(len(e2eWordy))]))
		}
		if r.Intn(3) == 0 {
			// multi-word values with capitals; the all-lower-case spelling is never stored, and most spellings have an
			// all-lower-case second-to-last word (searched by full value / phrase in another case: the block bloom must
			// hold the lower-cased full value and every word in both cases)
			m := e2eMsgs[r.Intn(len(e2eMsgs))]
			add("msg", "s"+hexs(m[r.Intn(len(m))]))
		}
	}
	if (profile == "c02" || profile == "c03") && r.Intn(3) == 0 {
		// a column mixing numbers, numeric text and text: what a value is stored as depends on what else its block holds
		switch r.Intn(4) {
		case 0, 1:
			add("mt", fmt.Sprintf("i%d", r.Intn(9)))
		case 2:
			add("mt", "s"+hexs([]string{"5", "5.0", "07", "3", "+2", "1e0", "8"}[r.Intn(7)]))
		default:
			add("mt", "s"+hexs([]string{"abc", "n/a", "5x"}[r.Intn(3)]))
		}
	}
	if r.Intn(4) == 0 {
		add("b", fmt.Sprintf("b%d", r.Intn(2)))
	}
	if r.Intn(5) == 0 {
		add("g", "s"+hexs([]string{"red", "green", "blue"}[r.Intn(3)]))
	}
	if late {
		add("late", "s"+hexs(fmt.Sprintf("v%d", r.Intn(4))))
	}
	if r.Intn(12) == 0 {
		add("nul", "z")
	}
	if profile == "c01" {
		if r.Intn(4) == 0 {
			add("o.a", fmt.Sprintf("i%d", r.Intn(100)))
			add("o.b.c", "s"+hexs("deep"))
		}
		if r.Intn(6) == 0 {
			add("u", "s"+hexs([]string{"héllo wörld", "tab\there", `quote"back\slash`, "日本語", "emoji😀", "line\nbreak", ""}[r.Intn(7)]))
		}
		if r.Intn(7) == 0 { // numbers and text sharing a column
			if r.Intn(2) == 0 {
				add("t", fmt.Sprintf("i%d", r.Intn(50)))
			} else {
				add("t", "s"+hexs([]string{"text", "12", "3.5", "n/a"}[r.Intn(4)]))
			}
		}
		if r.Intn(5) == 0 { // high-cardinality column
			add("hc", "s"+hexs(fmt.Sprintf("id-%d-%d", vid, r.Intn(1000000))))
		}
		if r.Intn(5) == 0 {
			// arrays (sent as JSON arrays by the events that are sent nested): scalars of mixed kinds, objects inside, nested arrays
			n := 1 + r.Intn(3)
			for k := 0; k < n; k++ {
				switch r.Intn(4) {
				case 0:
					add(fmt.Sprintf("arr.%d", k), fmt.Sprintf("i%d", r.Intn(50)))
				case 1:
					add(fmt.Sprintf("arr.%d", k), "s"+hexs(vocab[r.Intn(len(vocab))]))
				case 2:
					add(fmt.Sprintf("arr.%d", k), "d"+dyadic(r))
				default:
					add(fmt.Sprintf("arr.%d", k), fmt.Sprintf("b%d", r.Intn(2)))
				}
			}
			if r.Intn(2) == 0 {
				add("oa.0.x", fmt.Sprintf("i%d", r.Intn(9)))
				add("oa.0.y", "s"+hexs("p"))
				add("oa.1.x", fmt.Sprintf("i%d", r.Intn(9)))
				if r.Intn(2) == 0 {
					add("oa.2.0", fmt.Sprintf("i%d", r.Intn(9)))
					add("oa.2.1", "s"+hexs("q"))
				}
			}
		}
		if r.Intn(12) == 0 {
			// long values, up to the record size limit (63000 bytes for the whole event), around the length encodings
			n := []int{255, 256, 257, 1000, 4095, 4096, 32767, 32768, 50000, 60000}[r.Intn(10)]
			add("lv", fmt.Sprintf("r%d.%s", n, hexs([]string{"ab", "x", "long value ", "0123456789"}[r.Intn(4)])))
		}
		if r.Intn(40) == 0 {
			// an event with several hundred columns
			for k, n := 0, 300+r.Intn(500); k < n; k++ {
				add(fmt.Sprintf("c%03d", k), fmt.Sprintf("i%d", k%7))
			}
		}
	}
	return e
}

func (e e2eEvent) token() string {
	if len(e.fields) == 0 {
		return fmt.Sprintf("ev/%d/%d/-", e.vid, e.ts)
	}
	var p []string
	for _, f := range e.fields {
		p = append(p, f.k+"~"+f.tv)
	}
	return fmt.Sprintf("ev/%d/%d/%s", e.vid, e.ts, strings.Join(p, ","))
}

const e2eBase = uint64(1700000000000)

func genCmp(r *rand.Rand, profile string) string {
	return genCmpK(r, profile, r.Intn(9))
}

// comparisons over the dense columns i, f, s only
func genCmpDense(r *rand.Rand, profile string) string {
	return genCmpK(r, profile, []int{0, 1, 2, 4, 5, 7}[r.Intn(6)])
}

func genCmpK(r *rand.Rand, profile string, k int) string {
	ops := []string{"eq", "ne", "lt", "le", "gt", "ge"}
	if r.Intn(7) == 0 { // free-text term (single token, optionally with a trailing wildcard)
		w := []string{"abc", "ABC", "def", "xyz", "foo", "bar", "x", "hello", "zzz", "red", "nosuchword"}[r.Intn(11)]
		if r.Intn(5) == 0 && len(w) > 1 {
			w = w[:2] + "*"
		}
		return "t:" + hexs(w)
	}
	if (profile == "c02" || profile == "c03") && r.Intn(5) == 0 {
		return genCmpLit(r)
	}
	if (profile == "c02" || profile == "c03") && r.Intn(5) == 0 {
		return genCmpText(r)
	}
	switch k {
	case 0, 1:
		return fmt.Sprintf("c:i:%s:i%d", ops[r.Intn(6)], r.Intn(26)-5)
	case 2:
		return fmt.Sprintf("c:f:%s:d%s", ops[r.Intn(6)], dyadic(r))
	case 3:
		if r.Intn(2) == 0 {
			return fmt.Sprintf("c:m:%s:d%s", ops[r.Intn(6)], dyadic(r))
		}
		return fmt.Sprintf("c:m:%s:i%d", ops[r.Intn(6)], r.Intn(12))
	case 4, 5:
		w := vocab[r.Intn(len(vocab))]
		kind := "s"
		if (profile == "c02" || profile == "c03") && r.Intn(4) == 0 {
			// wildcards in front, in the middle and at both ends of a value (dictionary or plain column, as the cfg card= decides)
			w = []string{"a*c", "*b*", "*bc", "a*", "*o*b*", "f*r", "*ef", "a*d*f", "abc*def", "*c d*", "h*o", "H*O", "*", "z*z", "x*", "*x", "ab*ef", "*oo ba*"}[r.Intn(18)]
			kind = []string{"s", "w"}[r.Intn(2)]
			if strings.Contains(w, " ") {
				kind = "s"
			}
			return fmt.Sprintf("c:s:%s:%s%s", ops[r.Intn(2)], kind, hexs(w))
		}
		if !strings.Contains(w, " ") && r.Intn(2) == 0 {
			kind = "w"
			if r.Intn(3) == 0 {
				w = w[:1] + "*"
			}
		}
		return fmt.Sprintf("c:s:%s:%s%s", ops[r.Intn(2)], kind, hexs(w))
	case 6:
		return fmt.Sprintf("c:x:%s:i%d", ops[r.Intn(6)], r.Intn(5))
	case 7:
		return fmt.Sprintf("c:f:%s:i%d", ops[r.Intn(6)], r.Intn(12)-2)
	default: // classes with known engine deviations (kept rare)
		switch r.Intn(3) {
		case 0:
			return fmt.Sprintf("c:i:%s:d%s", ops[r.Intn(6)], dyadic(r))
		case 1:
			return fmt.Sprintf("c:ns:%s:i%d", ops[r.Intn(6)], r.Intn(9))
		default:
			return fmt.Sprintf("c:g:%s:w%s", ops[r.Intn(2)], hexs([]string{"red", "green", "blue", "RED"}[r.Intn(4)]))
		}
	}
}

// comparisons whose literal and column are of different kinds (only = and != exist for string literals):
// a QUOTED number against numbers / numeric text / text, text against numbers and booleans, wildcards against numbers,
// numbers against the edge strings of column ns, and free-text terms that are numbers
func genCmpLit(r *rand.Rand) string {
	eqne := []string{"eq", "ne"}[r.Intn(2)]
	ops := []string{"eq", "ne", "lt", "le", "gt", "ge"}
	switch r.Intn(12) {
	case 9: // the mixed column against a quoted number
		return fmt.Sprintf("c:mt:%s:s%s", eqne, hexs([]string{"5", "5.0", "3", "7", "07", "8"}[r.Intn(6)]))
	case 10: // … against a number
		return fmt.Sprintf("c:mt:%s:i%d", ops[r.Intn(6)], r.Intn(9))
	case 11: // … against text
		return fmt.Sprintf("c:mt:%s:s%s", eqne, hexs([]string{"abc", "n/a", "5x", "zzz"}[r.Intn(4)]))
	case 0: // "7" against the integer column
		return fmt.Sprintf("c:i:%s:s%s", eqne, hexs(strconv.Itoa(r.Intn(26)-5)))
	case 1: // "2.5" / "3" / "3.0" / "+3" against the int-and-decimal column
		return fmt.Sprintf("c:m:%s:s%s", eqne, hexs([]string{dyadic(r), strconv.Itoa(r.Intn(12)), strconv.Itoa(r.Intn(12)) + ".0", "+" + strconv.Itoa(r.Intn(12))}[r.Intn(4)]))
	case 2: // quoted number against numeric text (also written differently: 5 / 5.0 / 05)
		return fmt.Sprintf("c:ns:%s:s%s", eqne, hexs([]string{strconv.Itoa(r.Intn(9)), strconv.Itoa(r.Intn(9)) + ".0", "0" + strconv.Itoa(r.Intn(9)), dyadic(r), "100", "7"}[r.Intn(6)]))
	case 3: // number literal against the edge strings
		return fmt.Sprintf("c:ns:%s:%s", ops[r.Intn(6)], []string{"i5", "i100", "d0.5", "i7", "i0", "i10", "d2.5"}[r.Intn(7)])
	case 4: // text against numbers
		col := []string{"i", "m", "f", "x"}[r.Intn(4)]
		if r.Intn(3) == 0 { // unquoted word
			return fmt.Sprintf("c:%s:%s:w%s", col, eqne, hexs([]string{"abc", "xyz"}[r.Intn(2)]))
		}
		return fmt.Sprintf("c:%s:%s:s%s", col, eqne, hexs([]string{"abc", "xyz", "n/a", "1e", "12a"}[r.Intn(5)]))
	case 5: // text against booleans
		return fmt.Sprintf("c:b:%s:%s%s", eqne, []string{"s", "w"}[r.Intn(2)], hexs([]string{"true", "false", "abc", "TRUE"}[r.Intn(4)]))
	case 6: // wildcard against numbers
		return fmt.Sprintf("c:%s:%s:w%s", []string{"i", "m", "x"}[r.Intn(3)], eqne, hexs([]string{"1*", "*5", "*", "2*"}[r.Intn(4)]))
	case 7: // quoted number against text
		return fmt.Sprintf("c:s:%s:s%s", eqne, hexs(strconv.Itoa(r.Intn(9))))
	default: // free-text term that is a number
		return "t:" + hexs([]string{"3", "7", "12", "2.5", "-1", "0", "5"}[r.Intn(7)])
	}
}

// free text with and without CASE(…), one word and phrases, and full-value / phrase searches of the multi-word
// messages in a spelling that differs from every stored one
func genCmpText(r *rand.Rand) string {
	recase := func(s string) string {
		switch r.Intn(3) {
		case 0:
			return strings.ToLower(s)
		case 1:
			return strings.ToUpper(s)
		default: // every word capitalised
			ws := strings.Split(strings.ToLower(s), " ")
			for i, w := range ws {
				if w != "" {
					ws[i] = strings.ToUpper(w[:1]) + w[1:]
				}
			}
			return strings.Join(ws, " ")
		}
	}
	switch r.Intn(8) {
	case 0, 1: // case-sensitive word
		return "tc:" + hexs([]string{"timeout", "timeout", "Timeout", "TIMEOUT", "xtimeout", "reached", "timeoutx", "retry"}[r.Intn(8)])
	case 2: // the same words, case-insensitive
		return "t:" + hexs([]string{"timeout", "Timeout", "xtimeout", "reached", "retry"}[r.Intn(5)])
	case 3: // case-sensitive phrase
		return "pc:" + hexs([]string{"reached timeout", "timeout timeout", "timeout b", "a timeout", "Timeout timeout", "retry timeoutx", "timeout now", "refused by", "by peer"}[r.Intn(9)])
	case 4: // phrase, any case
		return "p:" + hexs(recase([]string{"reached timeout", "timeout timeout", "timeout b", "the timeout", "refused by", "by peer", "quota exceeded on", "login failed"}[r.Intn(8)]))
	case 5, 6: // the full message as a field value, in another spelling
		m := e2eMsgs[r.Intn(len(e2eMsgs))]
		return fmt.Sprintf("c:msg:%s:s%s", []string{"eq", "eq", "eq", "ne"}[r.Intn(4)], hexs(recase(m[0])))
	default: // the full message as a free-text phrase, in another spelling
		m := e2eMsgs[r.Intn(len(e2eMsgs))]
		return "p:" + hexs(recase(m[0]))
	}
}

// a free-text term that is a NUMBER under a NOT, alone and inside AND / OR (the complement of "some field equals n")
func genNegatedNumber(r *rand.Rand, profile string) string {
	n := "t:" + hexs([]string{"3", "7", "12", "2.5", "-1", "0", "5", "7.0", "2.50", "4", "1"}[r.Intn(11)])
	w := "t:" + hexs([]string{"abc", "xyz", "foo", "hello", "red"}[r.Intn(5)])
	switch r.Intn(7) {
	case 0, 1:
		return n + ",not"
	case 2:
		return w + "," + n + ",or,not"
	case 3:
		return genCmpDense(r, profile) + "," + n + ",not,and"
	case 4:
		return w + "," + n + ",not,or"
	case 5:
		return n + ",not," + genCmpDense(r, profile) + ",or"
	default:
		return n + ",not,not"
	}
}

func genFilter(r *rand.Rand, depth int, profile string) string {
	if (profile == "c02" || profile == "c03") && depth > 0 && r.Intn(10) == 0 {
		return genNegatedNumber(r, profile)
	}
	if depth == 0 || r.Intn(4) == 0 {
		return genCmp(r, profile) // a single comparison over any column
	}
	return genBool(r, depth, profile, r.Intn(8) != 0)
}

// boolean combinations; dense=true keeps them over columns every event has (unambiguous semantics)
func genBool(r *rand.Rand, depth int, profile string, dense bool) string {
	leaf := func() string {
		if dense {
			return genCmpDense(r, profile)
		}
		return genCmp(r, profile)
	}
	sub := func() string {
		if depth <= 1 || r.Intn(2) == 0 {
			return leaf()
		}
		return genBool(r, depth-1, profile, dense)
	}
	switch r.Intn(5) {
	case 0, 1:
		return sub() + "," + sub() + ",and"
	case 2, 3:
		return sub() + "," + sub() + ",or"
	default:
		return sub() + ",not"
	}
}

func genE2E(r *rand.Rand, n int, tier, profile string) []string {
	var out []string
	for c := 0; c < n; c++ {
		nev := 1 + r.Intn(40)
		if r.Intn(5) == 0 {
			nev = 1 + r.Intn(6)
		}
		var toks []string
		card := []int{0, 0, 3, 5, 1000}[r.Intn(5)]
		toks = append(toks, "e2e")
		if card > 0 {
			toks = append(toks, fmt.Sprintf("card=%d", card))
		}
		toks = append(toks, "H")
		lateFrom := nev + 1
		if r.Intn(2) == 0 {
			lateFrom = r.Intn(nev + 1)
		}
		span := uint64(1 + r.Intn(20000))
		maxTs := e2eBase
		inBatch := 0
		for v := 1; v <= nev; v++ {
			var ts uint64
			switch r.Intn(4) {
			case 0: // ties
				ts = e2eBase + uint64(r.Intn(4))*1000
			default:
				ts = e2eBase + uint64(r.Int63n(int64(span)))
			}
			if ts > maxTs {
				maxTs = ts
			}
			toks = append(toks, genEvent(r, v, ts, profile, v >= lateFrom).token())
			inBatch++
			if r.Intn(4) == 0 || v == nev {
				toks = append(toks, "send")
				inBatch = 0
				if r.Intn(3) == 0 {
					toks = append(toks, "fl")
				}
				if r.Intn(9) == 0 {
					toks = append(toks, "ro")
				}
			}
		}
		if r.Intn(4) == 0 {
			toks = append(toks, "ro")
		} else {
			toks = append(toks, "fl")
		}
		if profile == "c03" {
			// the SAME events under a second, different layout (batching, flush/rotate placement, dictionary limit)
			toks = append(toks, "H2")
			if c2 := []int{0, 2, 4, 1000}[r.Intn(4)]; c2 > 0 {
				toks = append(toks, fmt.Sprintf("card=%d", c2))
			}
			var evs []string
			for _, t := range toks {
				if strings.HasPrefix(t, "ev/") {
					evs = append(evs, t)
				}
			}
			if r.Intn(3) == 0 {
				r.Shuffle(len(evs), func(i, j int) { evs[i], evs[j] = evs[j], evs[i] })
			}
			for i, t := range evs {
				toks = append(toks, t)
				if r.Intn(3) == 0 || i == len(evs)-1 {
					toks = append(toks, "send")
					if r.Intn(2) == 0 {
						toks = append(toks, "fl")
					}
					if r.Intn(6) == 0 {
						toks = append(toks, "ro")
					}
				}
			}
			if r.Intn(3) == 0 {
				toks = append(toks, "ro")
			} else {
				toks = append(toks, "fl")
			}
		}
		toks = append(toks, "Q")
		nq := 3 + r.Intn(6)
		start, end := e2eBase-1000, maxTs+1000
		for q := 0; q < nq; q++ {
			s, e := start, end
			if r.Intn(5) == 0 { // query range cutting through the data
				s = e2eBase + uint64(r.Int63n(int64(span)))
				e = s + uint64(r.Int63n(int64(span)))
			}
			switch profile {
			case "c01":
				toks = append(toks, fmt.Sprintf("q/0/1000/%d/%d/all/recs", s, e))
				if q >= 1 {
					q = nq
				}
			case "c02", "c03":
				fl := genFilter(r, 2, profile)
				if r.Intn(15) == 0 {
					fl = "all"
				}
				toks = append(toks, fmt.Sprintf("q/0/1000/%d/%d/%s", s, e, fl))
				if profile == "c02" {
					if _, ok := e2eFilterToSQL(fl); ok && r.Intn(3) == 0 {
						// the same comparison through the SQL front end
						toks = append(toks, fmt.Sprintf("q/0/1000/%d/%d/%s/sql", s, e, fl))
					}
					switch r.Intn(14) {
					case 0: // `| regex`: anchored, prefix, suffix and infix patterns over text columns, exact case
						col := []string{"s", "s", "w", "msg", "g"}[r.Intn(5)]
						g := []string{"a*c", "abc", "*b*", "ab*", "*z", "A*", "foo*", "*o ba*", "x", "Hello", "hel*", "*timeout", "timeout*", "*Timeout*", "*refused*", "re*", "*e*e*", "ABC", "abc def"}[r.Intn(19)]
						toks = append(toks, fmt.Sprintf("q/0/1000/%d/%d/all/regex:%s:%s:%s", s, e, col, []string{"eq", "eq", "ne"}[r.Intn(3)], hexs(g)))
					case 1: // `| where in(f, …)`
						col := []string{"i", "i", "m", "ns", "f", "x"}[r.Intn(6)]
						var ls []string
						for k, n := 0, 1+r.Intn(3); k < n; k++ {
							if r.Intn(3) == 0 {
								ls = append(ls, "d"+dyadic(r))
							} else {
								ls = append(ls, fmt.Sprintf("i%d", r.Intn(14)-2))
							}
						}
						toks = append(toks, fmt.Sprintf("q/0/1000/%d/%d/all/win:%s:%s", s, e, col, strings.Join(ls, "+")))
					case 2: // the time range in the query text (whole seconds), the request asks for a wide range
						a := int64(e2eBase/1000) + int64(r.Intn(8)) - 1
						b := a + int64(r.Intn(int(span/1000)+3))
						toks = append(toks, fmt.Sprintf("q/0/1000/%d/%d/%s/tm:%d:%d", s, e, fl, a, b))
					}
					// the same comparison once in the search clause (above) and once as a where stage (C02: they agree on numeric fields)
					if p := strings.Split(fl, ":"); len(p) == 4 && p[0] == "c" && !strings.Contains(fl, ",") && (p[3][0] == 'i' || p[3][0] == 'd' || (p[3][0] == 's' && e2eNumStrRe.MatchString(unhexs(p[3][1:])))) && r.Intn(2) == 0 {
						if p[3][0] != 's' || p[2] == "eq" || p[2] == "ne" {
							toks = append(toks, fmt.Sprintf("q/0/1000/%d/%d/all/where:%s:%s:%s", s, e, p[1], p[2], p[3]))
						}
					}
				}
			case "c04":
				aggsAll := []string{"count", "sum.i", "min.i", "max.i", "avg.i", "sum.f", "min.f", "max.f", "avg.f", "sum.i", "max.f", "min.i", "count", "avg.f", "count", "sum.m", "max.m", "min.x", "avg.x"}
				na := 1 + r.Intn(3)
				var aggs []string
				seen := map[string]bool{}
				for len(aggs) < na {
					a := aggsAll[r.Intn(len(aggsAll))]
					if !seen[a] {
						seen[a] = true
						aggs = append(aggs, a)
					}
				}
				by := "-"
				switch r.Intn(8) {
				case 0, 1:
				case 2, 3, 4:
					by = "s"
				case 5:
					by = "g"
				case 6:
					by = "x"
				default:
					by = "g+b"
				}
				f := "all"
				if r.Intn(3) == 0 {
					f = fmt.Sprintf("c:i:%s:i%d", []string{"lt", "ge", "gt", "le"}[r.Intn(4)], r.Intn(20))
				}
				toks = append(toks, fmt.Sprintf("q/0/1000/%d/%d/%s/stats:%s:%s", s, e, f, strings.Join(aggs, "+"), by))
			case "c05":
				size := 1 + r.Intn(12)
				if k := r.Intn(5); k < 2 {
					// head / tail / dedup / top / rare behind the search, over whatever blocks and segments the history made
					f := "all"
					if r.Intn(3) == 0 {
						f = fmt.Sprintf("c:i:%s:i%d", []string{"lt", "ge", "gt", "le"}[r.Intn(4)], r.Intn(20))
					}
					var st string
					switch r.Intn(6) {
					case 0, 1:
						st = fmt.Sprintf("head:%d", size)
					case 2:
						st = fmt.Sprintf("tail:%d", size)
					case 3:
						st = "dedup:" + []string{"s", "s", "x", "g", "b", "i"}[r.Intn(6)]
					default:
						lim := "-"
						if r.Intn(6) == 0 {
							lim = strconv.Itoa(1 + r.Intn(4))
						}
						st = fmt.Sprintf("%s:%s:%s", []string{"top", "top", "rare"}[r.Intn(3)], []string{"s", "s", "x", "g", "i", "b"}[r.Intn(6)], lim)
					}
					toks = append(toks, fmt.Sprintf("q/0/1000/%d/%d/%s/%s", start, end, f, st))
					continue
				}
				if r.Intn(2) == 0 {
					toks = append(toks, fmt.Sprintf("q/0/1000/%d/%d/all/pages:%d", start, end, size))
				} else {
					from := 0
					if r.Intn(2) == 0 {
						from = r.Intn(nev + 2)
					}
					toks = append(toks, fmt.Sprintf("q/%d/%d/%d/%d/all", from, size, start, end))
				}
			}
		}
		out = append(out, strings.Join(toks, " "))
	}
	return out
}

// ---------------------------------------------------------------- generator, second generation (profiles c01, c03, c04)

// numeric-looking strings of many shapes (all exactly representable, all accepted by utils.FastParseFloat)
var e2eNumLooking = []string{"007", "+5", "1e3", "12", "0.50", "1E2", ".5", "5.", "00", "2.5e1", "-7.25", "-0.5", "+0", "3.5", "100", "12", "1e0", "-3", "010", "08", "-012"}

type e2eGen struct {
	r       *rand.Rand
	profile string
	tmode   int // 0 uniform, 1 cluster + outlier blocks, 2 grid
	span    uint64
	step    uint64 // grid
	clLo    uint64 // cluster
	clW     uint64
	outlier bool // current block carries outliers
	tMode   int  // c01: what column t holds in the current block
	mxMode  int  // c04: what column mx holds in the current block
	useBig  bool // c04: column big (integers beyond 2^53 differing in low bits)
	bigBase []int64
	clTs    []uint64 // timestamps drawn inside the cluster
	allTs   []uint64
}

func (g *e2eGen) newBlock() {
	r := g.r
	g.outlier = r.Intn(3) == 0
	g.tMode = []int{0, 0, 0, 1, 1, 2, 2, 3, 4, 5}[r.Intn(10)]
	if g.profile == "c04" {
		g.mxMode = r.Intn(4)
	}
}

func (g *e2eGen) ts() uint64 {
	r := g.r
	var ts uint64
	switch g.tmode {
	case 1:
		if g.outlier && r.Intn(2) == 0 {
			if r.Intn(3) == 0 && g.clLo > e2eBase+10 {
				ts = g.clLo - 1 - uint64(r.Int63n(int64(g.clLo-e2eBase)))
			} else {
				ts = g.clLo + g.clW + 1 + uint64(r.Intn(15000))
			}
		} else {
			ts = g.clLo + uint64(r.Int63n(int64(g.clW+1)))
			g.clTs = append(g.clTs, ts)
		}
	case 2:
		ts = e2eBase + uint64(r.Intn(16))*g.step
	default:
		if r.Intn(4) == 0 { // ties
			ts = e2eBase + uint64(r.Intn(4))*1000
		} else {
			ts = e2eBase + uint64(r.Int63n(int64(g.span)))
		}
	}
	g.allTs = append(g.allTs, ts)
	return ts
}

func (g *e2eGen) event(vid int, late bool) e2eEvent {
	r := g.r
	e := genEvent(r, vid, g.ts(), g.profile, late)
	add := func(k, tv string) { e.fields = append(e.fields, kv{k, tv}) }
	if g.profile == "c01" && g.tMode != 0 && r.Intn(4) != 0 {
		// drop what genEvent put into t: the block decides
		fs := e.fields[:0]
		for _, f := range e.fields {
			if f.k != "t" {
				fs = append(fs, f)
			}
		}
		e.fields = fs
		num := func() string {
			if r.Intn(3) == 0 {
				return "d" + dyadic(r)
			}
			return fmt.Sprintf("i%d", r.Intn(50))
		}
		nstr := func() string { return "s" + hexs(e2eNumLooking[r.Intn(len(e2eNumLooking))]) }
		switch g.tMode {
		case 1:
			add("t", num())
		case 2:
			add("t", nstr())
		case 3:
			if r.Intn(2) == 0 {
				add("t", num())
			} else {
				add("t", nstr())
			}
		case 4:
			if r.Intn(2) == 0 {
				add("t", num())
			} else {
				add("t", "s"+hexs([]string{"text", "n/a", "12a", "1e", "0x10"}[r.Intn(5)]))
			}
		default:
			add("t", "s"+hexs([]string{"text", "n/a", "12", "007"}[r.Intn(4)]))
		}
	}
	if g.useBig && r.Intn(5) != 0 {
		add("big", fmt.Sprintf("i%d", g.bigBase[r.Intn(len(g.bigBase))]+int64(r.Intn(6))))
	}
	if g.profile == "c04" && r.Intn(3) != 0 {
		// measure column of mixed type: numbers, numeric text (a number for every aggregate) and text, per block mode
		// (numbers only / numeric text only / numbers + numeric text / everything)
		num := func() string { return fmt.Sprintf("i%d", r.Intn(40)-8) }
		nstr := func() string { return "s" + hexs(e2eNumLooking[r.Intn(len(e2eNumLooking))]) }
		switch g.mxMode {
		case 0:
			add("mx", num())
		case 1:
			add("mx", nstr())
		case 2:
			add("mx", []string{num(), nstr()}[r.Intn(2)])
		default:
			add("mx", []string{num(), nstr(), "s" + hexs([]string{"abc", "n/a", "1e", "-"}[r.Intn(4)])}[r.Intn(3)])
		}
	}
	return e
}

// a query window: whole / cutting through the data / snapped onto event timestamps (±1)
func (g *e2eGen) window(maxTs uint64) (uint64, uint64) {
	r := g.r
	start, end := e2eBase-1000, maxTs+1000
	switch k := r.Intn(10); {
	case k < 4:
	case k < 5:
		start = e2eBase + uint64(r.Int63n(int64(g.span)))
		end = start + uint64(r.Int63n(int64(g.span)))
	default:
		a, b := g.allTs[r.Intn(len(g.allTs))], g.allTs[r.Intn(len(g.allTs))]
		if a > b {
			a, b = b, a
		}
		switch r.Intn(8) {
		case 0:
			a++
		case 1:
			a--
		case 2:
			a = e2eBase - 1000
		}
		switch r.Intn(8) {
		case 0:
			b++
		case 1:
			if b > a {
				b--
			}
		case 2:
			b = maxTs + 1000
		}
		if a > b {
			a, b = b, a
		}
		start, end = a, b
	}
	return start, end
}

// a filter that differs from f in ONE operator (or by a negation): persistent-query results are keyed by a hash of the
// query, a sibling must not be answered from f's results
func e2eSiblingFilter(r *rand.Rand, f string) string {
	items := strings.Split(f, ",")
	var idx []int
	for i, it := range items {
		if strings.HasPrefix(it, "c:") && len(strings.Split(it, ":")) == 4 {
			idx = append(idx, i)
		}
	}
	if len(idx) == 0 || r.Intn(4) == 0 {
		return f + ",not"
	}
	i := idx[r.Intn(len(idx))]
	p := strings.Split(items[i], ":")
	ops := []string{"eq", "ne", "lt", "le", "gt", "ge"}
	if p[3][0] == 's' || p[3][0] == 'w' {
		ops = ops[:2]
	}
	for {
		if op := ops[r.Intn(len(ops))]; op != p[2] {
			p[2] = op
			break
		}
	}
	items[i] = strings.Join(p, ":")
	return strings.Join(items, ",")
}

func genE2EV2(r *rand.Rand, n int, tier, profile string) []string {
	var out []string
	// a sixth of the cases of c03 / c04 (generated after the others, from the same PRNG): statistics answered from the
	// pre-aggregated .sst file of one segment and recomputed from the records of another one IN ONE QUERY (genE2ESstRaw)
	nSstRaw, nWordSep := 0, 0
	if profile == "c03" || profile == "c04" {
		nSstRaw = n / 6
	}
	if profile == "c03" {
		nWordSep = n / 10 // words delimited by a tab / line feed / carriage return, one block per event vs one block for all
	}
	for c := 0; c < n-nSstRaw-nWordSep; c++ {
		g := &e2eGen{r: r, profile: profile}
		nev := 1 + r.Intn(40)
		if r.Intn(5) == 0 {
			nev = 1 + r.Intn(6)
		}
		toks := []string{"e2e"}
		if card := []int{0, 0, 3, 5, 1000}[r.Intn(5)]; card > 0 {
			if card < e2eMinCardWithBoolMix && profile == "c01" {
				card = e2eMinCardWithBoolMix // profile c01 has columns (arr.<k>) that hold booleans, numbers and strings
			}
			toks = append(toks, fmt.Sprintf("card=%d", card))
		}
		if profile == "c03" && r.Intn(5) == 0 {
			toks = append(toks, "pqs=0")
		}
		toks = append(toks, "H")
		g.tmode = map[string][]int{"c01": {0, 0, 1, 2}, "c03": {0, 1, 1, 2}, "c04": {0, 1, 2, 2}}[profile][r.Intn(4)]
		g.span = uint64(1 + r.Intn(20000))
		g.step = []uint64{1, 250, 500, 1000}[r.Intn(4)]
		g.clLo = e2eBase + uint64(r.Intn(3000))
		g.clW = uint64(1 + r.Intn(1500))
		if profile == "c04" && r.Intn(3) == 0 {
			g.useBig = true
			bases := []int64{9007199254740990, -9007199254740996, 1152921504606846976, 4611686018427387904, -4611686018427387904, 9223372036854775800, 1700000000000000000}
			g.bigBase = []int64{bases[r.Intn(len(bases))]}
			if r.Intn(3) == 0 {
				g.bigBase = append(g.bigBase, bases[r.Intn(len(bases))])
			}
		}
		// layout knobs: the cluster mode wants several blocks in one (finally rotated) segment
		sendDen, flNum, roDen, finalRo := 4, 1, 9, 1
		if g.tmode == 1 || profile == "c01" && r.Intn(2) == 0 {
			sendDen, flNum, roDen, finalRo = 5, 2, 14, 3
		}
		// filters that are run more than once (also inside the history)
		var hot []string
		if profile == "c03" {
			for len(hot) < 2 {
				f := genCmpDense(r, profile)
				switch r.Intn(5) {
				case 0:
					f = genBool(r, 1, profile, true)
				case 1:
					f = genCmp(r, profile) // any column, sparse ones included
				case 2:
					f = genNegatedNumber(r, profile) // evaluated as an exclusion, also at ingest time
				}
				hot = append(hot, f)
			}
		}
		lateFrom := nev + 1
		if r.Intn(2) == 0 {
			lateFrom = r.Intn(nev + 1)
		}
		g.newBlock()
		maxTs := e2eBase
		for v := 1; v <= nev; v++ {
			e := g.event(v, v >= lateFrom)
			if e.ts > maxTs {
				maxTs = e.ts
			}
			toks = append(toks, e.token())
			if r.Intn(sendDen) == 0 || v == nev {
				toks = append(toks, "send")
				if profile == "c03" && r.Intn(12) == 0 {
					toks = append(toks, "rq/"+hot[r.Intn(len(hot))])
				}
				if r.Intn(3) < flNum {
					toks = append(toks, "fl")
					g.newBlock()
				}
				if r.Intn(roDen) == 0 {
					toks = append(toks, "ro")
					g.newBlock()
				}
			}
		}
		if r.Intn(4) < finalRo {
			toks = append(toks, "ro")
		} else {
			toks = append(toks, "fl")
		}
		unflushed := false
		if profile == "c04" && r.Intn(6) == 0 {
			// events still in the write buffer when the queries run: whether they are visible is the engine's choice, but the
			// search, the stats and the stats by must make the same choice
			for k := 1 + r.Intn(3); k > 0; k-- {
				nev++
				e := g.event(nev, nev >= lateFrom)
				if e.ts > maxTs {
					maxTs = e.ts
				}
				toks = append(toks, e.token())
			}
			toks = append(toks, "send")
			unflushed = true
		}
		if profile == "c03" {
			// the SAME events under a second, different layout (batching, flush/rotate placement, dictionary limit, persistent-query results)
			toks = append(toks, "H2")
			if c2 := []int{0, 2, 4, 1000}[r.Intn(4)]; c2 > 0 {
				toks = append(toks, fmt.Sprintf("card=%d", c2))
			}
			if r.Intn(3) == 0 {
				toks = append(toks, "pqs=0")
			}
			var evs []string
			for _, t := range toks {
				if strings.HasPrefix(t, "ev/") {
					evs = append(evs, t)
				}
			}
			if r.Intn(3) == 0 {
				r.Shuffle(len(evs), func(i, j int) { evs[i], evs[j] = evs[j], evs[i] })
			}
			for i, t := range evs {
				toks = append(toks, t)
				if r.Intn(3) == 0 || i == len(evs)-1 {
					toks = append(toks, "send")
					if r.Intn(2) == 0 {
						toks = append(toks, "fl")
					}
					if r.Intn(6) == 0 {
						toks = append(toks, "ro")
					}
				}
			}
			if r.Intn(3) == 0 {
				toks = append(toks, "ro")
			} else {
				toks = append(toks, "fl")
			}
		}
		toks = append(toks, "Q")
		whole := func() (uint64, uint64) { return e2eBase - 1000, maxTs + 1000 }
		switch profile {
		case "c01":
			nq := 1 + r.Intn(2)
			for q := 0; q < nq; q++ {
				s, e := whole()
				if q > 0 || r.Intn(5) == 0 {
					s, e = g.window(maxTs)
				}
				toks = append(toks, fmt.Sprintf("q/0/1000/%d/%d/all/recs", s, e))
			}
		case "c03":
			qtok := func(fl string, s, e uint64) string { return fmt.Sprintf("q/0/1000/%d/%d/%s", s, e, fl) }
			var used []string
			if g.tmode == 1 && len(g.clTs) > 0 {
				// the same filter over a narrow window around the cluster, then (after the background persistent-query
				// write) over wider ones
				lo, hi := g.clTs[0], g.clTs[0]
				for _, t := range g.clTs {
					if t < lo {
						lo = t
					}
					if t > hi {
						hi = t
					}
				}
				lo -= []uint64{0, 0, 1, 100}[r.Intn(4)]
				hi += []uint64{0, 0, 1, 100}[r.Intn(4)]
				f := hot[0]
				ws, we := whole()
				toks = append(toks, qtok(f, lo, hi), "w", qtok(f, ws, we))
				if r.Intn(2) == 0 {
					toks = append(toks, "w", qtok(f, ws, we))
				}
				used = append(used, f)
			}
			nq := 2 + r.Intn(6)
			for q := 0; q < nq; q++ {
				var fl string
				switch k := r.Intn(12); {
				case k == 0:
					fl = "all"
				case k < 4 && len(used) > 0:
					fl = used[r.Intn(len(used))]
					if r.Intn(3) == 0 {
						fl = e2eSiblingFilter(r, fl)
					}
				case k < 6:
					fl = hot[r.Intn(len(hot))]
				default:
					fl = genFilter(r, 2, profile)
				}
				s, e := whole()
				if r.Intn(3) == 0 {
					s, e = g.window(maxTs)
				}
				toks = append(toks, qtok(fl, s, e))
				if fl != "all" {
					used = append(used, fl)
				}
				if r.Intn(2) == 0 {
					toks = append(toks, "w")
				}
			}
		case "c04":
			if unflushed {
				ws, we := whole()
				toks = append(toks, fmt.Sprintf("q/0/1000/%d/%d/all", ws, we), fmt.Sprintf("q/0/1000/%d/%d/all/stats:count:-", ws, we),
					fmt.Sprintf("q/0/1000/%d/%d/all/stats:count:s", ws, we), fmt.Sprintf("q/0/1000/%d/%d/all/pstats:count:s", ws, we))
			}
			nq := 3 + r.Intn(6)
			for q := 0; q < nq; q++ {
				s, e := g.window(maxTs)
				if r.Intn(10) == 0 {
					// a window that holds no block at all: stats without by still has its one row (count 0), in the search
					// stage and in the stats processor alike
					s, e = e2eBase-200000, e2eBase-100000-uint64(r.Intn(1000))
				}
				f := "all"
				if r.Intn(3) == 0 {
					f = fmt.Sprintf("c:i:%s:i%d", []string{"lt", "ge", "gt", "le"}[r.Intn(4)], r.Intn(20))
				}
				pick := func(all []string, na int) []string {
					var aggs []string
					seen := map[string]bool{}
					for len(aggs) < na {
						a := all[r.Intn(len(all))]
						if !seen[a] {
							seen[a] = true
							aggs = append(aggs, a)
						}
					}
					return aggs
				}
				if r.Intn(9) < 4 {
					// first-stage timechart; cell edges fall on event timestamps when the window starts on one and
					// the span is a multiple of the grid step
					span := []uint64{7, 50, 250, 1000, 3000, 60000}[r.Intn(6)]
					if g.tmode == 2 && r.Intn(4) != 0 {
						span = g.step * []uint64{1, 2, 3, 5}[r.Intn(4)]
					}
					if r.Intn(4) == 0 && e > s && e-s > span {
						e = s + (e-s)/span*span // the end bound on the grid
					}
					// (sparse measure fields x, m: count(x) and avg(x) are over the events that HAVE the field; mx: mixed type)
					all := []string{"count", "count", "sum.i", "avg.f", "min.i", "max.f", "max.i", "sum.f", "dc.i", "dc.s", "avg.i",
						"avg.x", "avg.m", "cnt.x", "cnt.m", "cnt.g", "sum.x", "avg.mx", "sum.mx", "cnt.mx", "min.mx", "max.mx"}
					if g.useBig {
						all = append(all, "dc.big", "dc.big")
					}
					by := "-"
					if r.Intn(5) < 2 {
						by = []string{"g", "s", "x", "b"}[r.Intn(4)]
						if nev <= 8 && r.Intn(3) == 0 {
							by = "f" // decimal series names (at most 10 series are listed by default, hence few events only)
						}
					}
					stage := "tc"
					if r.Intn(3) == 0 {
						stage = "ptc" // the timechart PROCESSOR (a command precedes it): same answer, same series names
					}
					toks = append(toks, fmt.Sprintf("q/0/1000/%d/%d/%s/%s:%d:%s:%s", s, e, f, stage, span, strings.Join(pick(all, 1+r.Intn(2)), "+"), by))
					continue
				}
				all := []string{"count", "sum.i", "min.i", "max.i", "avg.i", "sum.f", "min.f", "max.f", "avg.f", "sum.i", "max.f", "min.i", "count", "avg.f", "count", "sum.m", "max.m", "min.x", "avg.x", "dc.i", "dc.s", "dc.x", "dc.f",
					"cnt.x", "cnt.m", "cnt.g", "cnt.x", "sum.mx", "avg.mx", "min.mx", "max.mx", "cnt.mx", "sum.ns", "avg.ns", "cnt.ns"}
				if g.useBig {
					all = append(all, "dc.big", "dc.big", "dc.big", "min.big", "max.big")
				}
				by := "-"
				switch r.Intn(8) {
				case 0, 1:
				case 2, 3, 4:
					by = "s"
				case 5:
					by = "g"
				case 6:
					by = "x"
				default:
					by = "g+b"
				}
				if g.useBig && r.Intn(5) == 0 {
					by = "big"
				}
				stage := "stats"
				if r.Intn(4) == 0 {
					stage = "pstats"
				}
				toks = append(toks, fmt.Sprintf("q/0/1000/%d/%d/%s/%s:%s:%s", s, e, f, stage, strings.Join(pick(all, 1+r.Intn(3)), "+"), by))
			}
		}
		out = append(out, strings.Join(toks, " "))
	}
	for c := 0; c < nSstRaw; c++ {
		out = append(out, genE2ESstRaw(r, profile))
	}
	for c := 0; c < nWordSep; c++ {
		out = append(out, genE2EWordSep(r, profile))
	}
	return out
}

// genE2EWordSep: free-text values in which a word is delimited by a TAB, a LINE FEED or a CARRIAGE RETURN instead of a blank
// ("fatal\ttimeout", "a\ntimeout", "x\r\ntimeout"), next to values that hold the same word between blanks.  Only the blank
// separates words: the record-level matcher (utils.IsSubWordPresent) and the block bloom (sub-words split at blanks) must agree
// on that, else the answer of `timeout` depends on whether such an event shares its block with a blank-delimited
// occurrence.  By construction: every event in a block of its own (c03: the same events in ONE block as second layout;
// c02: one block for all in half of the cases), searched by the word as a term (any case / CASE()), under NOT, in AND / OR,
// by phrase, by wildcard and by a comparison on the column.  Tag free-text/word-delimited-by-tab-or-line-break.
func genE2EWordSep(r *rand.Rand, profile string) string {
	word := []string{"timeout", "reached", "error"}[r.Intn(3)]
	seps := []string{"\t", "\n", "\r\n", "\r"}
	ctl := func() string {
		sp := seps[r.Intn(len(seps))]
		switch r.Intn(5) {
		case 0:
			return "fatal" + sp + word
		case 1:
			return word + sp + "fatal"
		case 2:
			return "pre" + sp + word + seps[r.Intn(len(seps))] + "post"
		case 3:
			return "disk fatal" + sp + word + " on sda" // a blank on the far side only
		default:
			return strings.ToUpper(word[:1]) + word[1:] + sp + "x " + "y" + sp + word
		}
	}
	blank := func() string {
		return []string{word, "a " + word + " b", "x" + word + " " + word, strings.ToUpper(word) + " again", "no match here", word + "x", "the " + word}[r.Intn(7)]
	}
	n := 3 + r.Intn(5)
	var evs []string
	for v := 1; v <= n; v++ {
		w := blank()
		if v == 1 || r.Intn(2) == 0 {
			w = ctl()
		}
		fs := []kv{{"i", fmt.Sprintf("i%d", r.Intn(9))}, {"s", "s" + hexs(vocab[r.Intn(len(vocab))])}, {"w", "s" + hexs(w)}}
		evs = append(evs, e2eEvent{vid: v, ts: e2eBase + uint64(r.Intn(5000)), fields: fs}.token())
	}
	toks := []string{"e2e"}
	if card := []int{0, 5, 1000}[r.Intn(3)]; card > 0 {
		toks = append(toks, fmt.Sprintf("card=%d", card))
	}
	toks = append(toks, "H")
	oneBlock := profile == "c02" && r.Intn(2) == 0
	for i, t := range evs {
		toks = append(toks, t)
		if !oneBlock || i == len(evs)-1 {
			toks = append(toks, "send", "fl")
		}
	}
	if r.Intn(2) == 0 {
		toks = append(toks, "ro")
	}
	if profile == "c03" {
		toks = append(toks, "H2")
		toks = append(toks, evs...)
		toks = append(toks, "send", []string{"fl", "ro"}[r.Intn(2)])
	}
	toks = append(toks, "Q")
	up := strings.ToUpper(word[:1]) + word[1:]
	fl := []string{"t:" + hexs(word), "tc:" + hexs(word), "t:" + hexs(up), "t:" + hexs(word) + ",not", "t:" + hexs(word) + ",t:" + hexs("fatal") + ",and",
		"t:" + hexs(word) + ",c:i:lt:i4,or", "p:" + hexs("fatal "+word), "p:" + hexs("a "+word), "t:" + hexs(word[:3]+"*"), "t:" + hexs("fatal"), "t:" + hexs("post"),
		"c:w:eq:s" + hexs(word), "c:w:eq:w" + hexs("*"+word), "c:w:ne:s" + hexs(word)}
	toks = append(toks, fmt.Sprintf("q/0/1000/%d/%d/%s", e2eBase-1000, e2eBase+6000, fl[0]))
	for _, k := range r.Perm(len(fl) - 1)[:5] {
		toks = append(toks, fmt.Sprintf("q/0/1000/%d/%d/%s", e2eBase-1000, e2eBase+6000, fl[k+1]))
	}
	return strings.Join(toks, " ")
}

// genE2ESstRaw: `* | stats <aggregates>` (no by clause) is answered per segment: a rotated segment whose time range the
// query window ENCLOSES contributes its ingest-time statistics (the .sst file: writer.addSegStatsNums / addSegStatsStrIngestion),
// a segment the window CUTS THROUGH is recomputed from its records (stats.AddSegStatsNums / AddSegStatsStr); the per-segment
// statistics (count, sum, min, max, the distinct-value sketch) are merged.  Built by construction: 2–3 segments that are
// disjoint in time (several blocks each, ingested in any order, the last one rotated or still open), every column drawing
// from a small pool so that the segments share most values — integers (also beyond 2^53), decimals, numeric text (plain and
// at the edges of the number grammar), text, and for c04 a column mixing numbers and numeric text — and windows that
// enclose one rotated segment and end (or start) INSIDE a neighbour, next to the whole window (every segment from .sst)
// and a window inside one segment (records only).  Every aggregation over every column kind; c03: the same events as one
// segment in time order as second layout.  Tag sst-and-raw-in-one-query (computed from the op line, e2eSegSelectTags).
func genE2ESstRaw(r *rand.Rand, profile string) string {
	toks := []string{"e2e"}
	if card := []int{0, 0, 5, 1000}[r.Intn(4)]; card > 0 {
		toks = append(toks, fmt.Sprintf("card=%d", card))
	}
	toks = append(toks, "H")
	// value pools
	var ints, decs, nstr, txt, mix []string
	for k, n := 0, 2+r.Intn(6); k < n; k++ {
		v := int64(r.Intn(30) - 6)
		if r.Intn(12) == 0 {
			big := int64(4611686018427387904) // 2^62: a few of them leave int64, the sum is continued as a float64 (rounding granted by C04)
			if profile == "c03" {
				big = 1 << 40 // c03 compares the two layouts' rows literally: sums must stay exact in every order of addition
			}
			v = []int64{9007199254740993, -9007199254740993, big, 255, 256, 65536}[r.Intn(6)]
		}
		ints = append(ints, fmt.Sprintf("i%d", v))
		decs = append(decs, "d"+dyadic(r))
		if r.Intn(3) == 0 {
			nstr = append(nstr, "s"+hexs(e2eNumLooking[r.Intn(len(e2eNumLooking))]))
		} else {
			nstr = append(nstr, "s"+hexs(strconv.Itoa(r.Intn(20)-3)))
		}
		txt = append(txt, "s"+hexs(vocab[r.Intn(len(vocab))]))
		if r.Intn(2) == 0 {
			mix = append(mix, fmt.Sprintf("i%d", r.Intn(12)-2))
		} else {
			mix = append(mix, "s"+hexs(strconv.Itoa(r.Intn(12)-2)))
		}
	}
	type sg struct {
		lo, hi  uint64
		ts      []uint64
		rotated bool
	}
	nseg := 2 + r.Intn(2)
	segs := make([]sg, nseg)
	t := e2eBase + uint64(r.Intn(2000))
	for k := range segs {
		w := []uint64{3, 40, 500, 4000}[r.Intn(4)] + uint64(r.Intn(50))
		segs[k] = sg{lo: t, hi: t + w, rotated: true}
		t += w + []uint64{1, 2, 100, 3000}[r.Intn(4)]
	}
	order := r.Perm(nseg)
	if r.Intn(2) == 0 {
		sort.Ints(order)
	}
	vid := 0
	var evToks []string
	for oi, k := range order {
		s := &segs[k]
		ne := 4 + r.Intn(8)
		for j := 0; j < ne; j++ {
			ts := s.lo
			switch {
			case j == 1:
				ts = s.hi
			case j > 1:
				ts = s.lo + uint64(r.Int63n(int64(s.hi-s.lo+1)))
			}
			s.ts = append(s.ts, ts)
			vid++
			pick := func(pool []string) string {
				if j < len(pool) && r.Intn(4) != 0 {
					return pool[j] // the first events of every segment walk through the pool: shared values by construction
				}
				return pool[r.Intn(len(pool))]
			}
			fs := []kv{{"i", pick(ints)}, {"f", pick(decs)}, {"s", pick(txt)}}
			if r.Intn(5) != 0 {
				fs = append(fs, kv{"ns", pick(nstr)})
			}
			if profile == "c04" && r.Intn(4) != 0 {
				fs = append(fs, kv{"mx", pick(mix)})
			}
			if r.Intn(3) == 0 {
				fs = append(fs, kv{"x", fmt.Sprintf("i%d", r.Intn(4))})
			}
			tk := e2eEvent{vid: vid, ts: ts, fields: fs}.token()
			toks = append(toks, tk)
			evToks = append(evToks, tk)
			if j == ne-1 || r.Intn(4) == 0 {
				toks = append(toks, "send")
				if j < ne-1 && r.Intn(2) == 0 {
					toks = append(toks, "fl") // a block boundary inside the segment
				}
			}
		}
		if oi == nseg-1 && r.Intn(3) == 0 {
			toks = append(toks, "fl")
			s.rotated = false
		} else {
			toks = append(toks, "ro")
		}
	}
	if profile == "c03" {
		// the SAME events as ONE segment, in time order
		toks = append(toks, "H2")
		if c2 := []int{0, 4, 1000}[r.Intn(3)]; c2 > 0 {
			toks = append(toks, fmt.Sprintf("card=%d", c2))
		}
		evs := append([]string{}, evToks...)
		sort.SliceStable(evs, func(a, b int) bool {
			x, _ := strconv.ParseUint(strings.SplitN(evs[a], "/", 4)[2], 10, 64)
			y, _ := strconv.ParseUint(strings.SplitN(evs[b], "/", 4)[2], 10, 64)
			return x < y
		})
		for i, tk := range evs {
			toks = append(toks, tk)
			if r.Intn(5) == 0 || i == len(evs)-1 {
				toks = append(toks, "send")
			}
		}
		toks = append(toks, []string{"fl", "ro"}[r.Intn(2)])
	}
	toks = append(toks, "Q")
	// windows
	inner := func(s sg, after bool) (uint64, bool) { // a bound strictly inside s that leaves events of s on both sides
		var c []uint64
		for _, ts := range s.ts {
			if after && ts > s.lo { // window starts here: the event at s.lo stays outside
				c = append(c, ts)
			}
			if !after && ts < s.hi { // window ends here: the event at s.hi stays outside
				c = append(c, ts)
			}
		}
		if len(c) == 0 {
			return 0, false
		}
		return c[r.Intn(len(c))], true
	}
	var wins [][2]uint64
	var rot []int
	for k, s := range segs {
		if s.rotated {
			rot = append(rot, k)
		}
	}
	for tries := 0; tries < 6 && len(wins) < 2; tries++ {
		e := rot[r.Intn(len(rot))]
		if e+1 < nseg && (e == 0 || r.Intn(2) == 0) {
			if b, ok := inner(segs[e+1], false); ok {
				a := []uint64{segs[e].lo, segs[e].lo - 1, e2eBase - 1000}[r.Intn(3)]
				wins = append(wins, [2]uint64{a, b})
			}
		} else if e > 0 {
			if a, ok := inner(segs[e-1], true); ok {
				b := []uint64{segs[e].hi, segs[e].hi + 1, t + 1000}[r.Intn(3)]
				wins = append(wins, [2]uint64{a, b})
			}
		}
	}
	mixedN := len(wins)
	wins = append(wins, [2]uint64{e2eBase - 1000, t + 1000}) // every rotated segment from its .sst
	if a, ok := inner(segs[r.Intn(nseg)], true); ok {
		wins = append(wins, [2]uint64{a, a + uint64(r.Intn(30))}) // records only
	}
	// (dc over a column holding numeric text — ns, mx — always as an aggregate list of its own: the comparison of the two
	// layouts of c03 sees whole rows only.  ns: class e2e/stats/dc-over-numeric-text, repaired by patch c04-16; mx, numbers
	// next to numeric text: recorded class e2e/stats/dc-over-numbers-and-numeric-text)
	sets := []string{"count+dc.i+dc.f", "dc.s+cnt.ns", "sum.i+min.i+max.i+avg.i", "sum.f+min.f+max.f+avg.f", "sum.ns+min.ns+max.ns+avg.ns+cnt.ns",
		"dc.i+dc.x+cnt.x", "dc.f+dc.s+count", "dc.i", "dc.ns"}
	if profile == "c04" {
		sets = append(sets, "sum.mx+min.mx+max.mx+avg.mx+cnt.mx", "dc.mx")
	}
	for wi, w := range wins {
		nq := 2
		if wi < mixedN {
			nq = 4
			toks = append(toks, fmt.Sprintf("q/0/1000/%d/%d/all/stats:%s:-", w[0], w[1], sets[0]))
		}
		for _, k := range r.Perm(len(sets))[:nq] {
			toks = append(toks, fmt.Sprintf("q/0/1000/%d/%d/all/stats:%s:-", w[0], w[1], sets[k]))
		}
		if wi < mixedN && r.Intn(2) == 0 {
			toks = append(toks, fmt.Sprintf("q/0/1000/%d/%d/all/tc:%d:count+dc.i:-", w[0], w[1], []uint64{50, 1000, 60000}[r.Intn(3)]))
		}
		if wi < mixedN && r.Intn(3) == 0 {
			toks = append(toks, fmt.Sprintf("q/0/1000/%d/%d/all/stats:dc.i+count:s", w[0], w[1])) // (group-by: never from .sst)
		}
	}
	return strings.Join(toks, " ")
}

// ---------------------------------------------------------------- generator: segment selection by time (profile cseg)

// e2eSegPiece: the events one ingest stream receives in one round of the history (a round ends with `fl` or `ro`); the events
// of a stream between two rotations form one segment.
type e2eSegPiece struct {
	lo, hi uint64
	stream int
}

// genE2ESeg: histories in which the segments of ONE index have very different time widths, overlap, are nested and are not
// ordered by time — several ingest streams (each with its own segstore) and/or back-filled (out-of-order) events — with rotated
// and open segments mixed, and query windows that end before / at the bounds of / inside / after the single segments.  Which
// segments a query has to read is decided by time at SEGMENT level (metadata.FilterSegmentsByTime over the rotated ones,
// writer.FilterUnrotatedSegmentsInQuery over the open ones); the answers are judged by the same specification as every other
// log suite.  Shapes built by construction (tags seg-select/…):
//
//	gap     a wide rotated segment, a narrow rotated one that ends later than the query window, an older narrow rotated one
//	        inside the wide one: in the order of the segments' ends the ones overlapping a window are NOT next to each other
//	behind  a rotated segment that ends after the window, and flushed events of an open segment (other stream, or late events)
//	        that lie inside the window
//	mix     3–7 pieces of random widths (wide / narrow / one instant) on random streams, flushed or rotated at random
func genE2ESeg(r *rand.Rand, n int, tier string) []string {
	var out []string
	for c := 0; c < n; c++ {
		toks := []string{"e2e"}
		if card := []int{0, 0, 3, 1000}[r.Intn(4)]; card > 0 {
			toks = append(toks, fmt.Sprintf("card=%d", card))
		}
		toks = append(toks, "H")
		vid := 0
		curStream := 0
		var pieces []e2eSegPiece
		var evToks []string
		emit := func(p e2eSegPiece) {
			if p.stream != curStream {
				toks = append(toks, fmt.Sprintf("st/%d", p.stream))
				curStream = p.stream
			}
			k := 1 + r.Intn(4)
			if p.hi > p.lo && k < 2 {
				k = 2
			}
			for j := 0; j < k; j++ {
				ts := p.lo
				switch {
				case j == 1:
					ts = p.hi
				case j > 1:
					ts = p.lo + uint64(r.Int63n(int64(p.hi-p.lo+1)))
				}
				vid++
				fs := []kv{{"i", fmt.Sprintf("i%d", r.Intn(21))}, {"s", "s" + hexs(vocab[r.Intn(len(vocab))])}}
				if r.Intn(3) == 0 {
					fs = append(fs, kv{"x", fmt.Sprintf("i%d", r.Intn(5))})
				}
				if r.Intn(4) == 0 {
					fs = append(fs, kv{"g", "s" + hexs([]string{"red", "green", "blue"}[r.Intn(3)])})
				}
				t := e2eEvent{vid: vid, ts: ts, fields: fs}.token()
				toks = append(toks, t)
				evToks = append(evToks, t)
				if j == k-1 || r.Intn(3) == 0 {
					toks = append(toks, "send")
				}
			}
			pieces = append(pieces, p)
		}
		narrow := func(lo uint64) e2eSegPiece {
			return e2eSegPiece{lo: lo, hi: lo + []uint64{0, 1, 7, 100, 300}[r.Intn(5)]}
		}
		var aimed [][2]uint64 // windows aimed at the shape
		shape := r.Intn(5)
		switch shape {
		case 0, 1: // gap
			a := e2eBase + uint64(r.Intn(3000))
			l := uint64(8000 + r.Intn(10000))
			w := e2eSegPiece{lo: a, hi: a + l}
			o := narrow(a + 200 + uint64(r.Intn(int(l/2)-1000)))
			nw := narrow(a + l/2 + 500 + uint64(r.Intn(int(l/2)-1000)))
			ps := []e2eSegPiece{w, nw, o}
			r.Shuffle(3, func(i, j int) { ps[i], ps[j] = ps[j], ps[i] })
			mode := r.Intn(3) // 0: three streams rotated together; 1: one stream, three rotations (back-fill); 2: two streams, two rotations
			for i := range ps {
				switch mode {
				case 0:
					ps[i].stream = i
				case 2:
					ps[i].stream = i % 2
				}
				emit(ps[i])
				if mode == 1 || (mode == 2 && i == 1) {
					toks = append(toks, "ro")
				}
			}
			toks = append(toks, "ro")
			// a window over the older narrow segment that ends between it and the later narrow one
			gapEnd := o.hi + 1 + uint64(r.Int63n(int64(nw.lo-o.hi-1)))
			aimed = append(aimed, [2]uint64{o.lo - uint64(r.Intn(150)), gapEnd}, [2]uint64{e2eBase - 1000, gapEnd})
			if r.Intn(2) == 0 { // and something still open on top
				p := narrow(a + uint64(r.Intn(int(l))))
				p.stream = r.Intn(3)
				emit(p)
				toks = append(toks, "fl")
			}
		case 2, 3: // behind
			if r.Intn(2) == 0 { // older rotated data first
				p := narrow(e2eBase + uint64(r.Intn(2000)))
				p.stream = r.Intn(2)
				emit(p)
				toks = append(toks, "ro")
			}
			t1 := e2eBase + 6000 + uint64(r.Intn(8000))
			a := e2eSegPiece{lo: t1 - []uint64{0, 9, 500, 4000}[r.Intn(4)], hi: t1, stream: r.Intn(2)}
			emit(a)
			toks = append(toks, "ro")
			b := narrow(e2eBase + 2500 + uint64(r.Intn(1500)))
			b.stream = r.Intn(2) // the same stream: late events; the other one: a second shard
			emit(b)
			toks = append(toks, "fl")
			if r.Intn(3) == 0 { // a second flush into the same open segment
				b2 := narrow(b.hi + 1 + uint64(r.Intn(400)))
				b2.stream = b.stream
				emit(b2)
				toks = append(toks, "fl")
			}
			aimed = append(aimed, [2]uint64{b.lo - uint64(r.Intn(100)), b.hi + uint64(r.Intn(1000))}, [2]uint64{b.lo, t1}, [2]uint64{e2eBase - 1000, t1 - 1 + uint64(r.Intn(3))})
		default: // mix
			np := 3 + r.Intn(5)
			for i := 0; i < np; i++ {
				var p e2eSegPiece
				switch r.Intn(4) {
				case 0:
					p = e2eSegPiece{lo: e2eBase + uint64(r.Intn(4000))}
					p.hi = p.lo + uint64(6000+r.Intn(12000))
				default:
					p = narrow(e2eBase + uint64(r.Intn(20000)))
				}
				p.stream = r.Intn(3)
				emit(p)
				switch r.Intn(5) {
				case 0, 1:
					toks = append(toks, "ro")
				case 2:
					toks = append(toks, "fl")
				}
			}
			toks = append(toks, []string{"fl", "fl", "ro"}[r.Intn(3)])
		}
		if r.Intn(3) == 0 {
			// the SAME events in one stream, in time order, in one segment
			toks = append(toks, "H2")
			evs := append([]string{}, evToks...)
			sort.SliceStable(evs, func(i, j int) bool {
				a, b := strings.SplitN(evs[i], "/", 4), strings.SplitN(evs[j], "/", 4)
				x, _ := strconv.ParseUint(a[2], 10, 64)
				y, _ := strconv.ParseUint(b[2], 10, 64)
				return x < y
			})
			for i, t := range evs {
				toks = append(toks, t)
				if r.Intn(4) == 0 || i == len(evs)-1 {
					toks = append(toks, "send")
					if r.Intn(3) == 0 {
						toks = append(toks, "fl")
					}
				}
			}
			toks = append(toks, []string{"fl", "ro"}[r.Intn(2)])
		}
		toks = append(toks, "Q")
		// windows: the aimed ones, then bounds placed before / on / inside / after the single pieces
		bound := func() uint64 {
			p := pieces[r.Intn(len(pieces))]
			switch r.Intn(7) {
			case 0:
				return p.lo - 1 - uint64(r.Intn(50))
			case 1:
				return p.lo
			case 2:
				return p.lo + uint64(r.Int63n(int64(p.hi-p.lo+1)))
			case 3:
				return p.hi
			case 4:
				return p.hi + 1 + uint64(r.Intn(50))
			case 5:
				return p.hi + 1
			default:
				return p.lo - 1
			}
		}
		var wins [][2]uint64
		for _, w := range aimed {
			if r.Intn(4) != 0 {
				wins = append(wins, w)
			}
		}
		for k, nq := 0, 3+r.Intn(4); k < nq; k++ {
			a, b := bound(), bound()
			if r.Intn(4) == 0 {
				a = e2eBase - 1000
			}
			if r.Intn(8) == 0 {
				b = e2eBase + 40000
			}
			if a > b {
				a, b = b, a
			}
			wins = append(wins, [2]uint64{a, b})
		}
		r.Shuffle(len(wins), func(i, j int) { wins[i], wins[j] = wins[j], wins[i] })
		for _, w := range wins {
			fl := "all"
			switch r.Intn(6) {
			case 0:
				fl = fmt.Sprintf("c:i:%s:i%d", []string{"lt", "ge", "gt", "le", "eq", "ne"}[r.Intn(6)], r.Intn(21))
			case 1:
				fl = fmt.Sprintf("c:s:%s:s%s", []string{"eq", "ne"}[r.Intn(2)], hexs(vocab[r.Intn(len(vocab))]))
			}
			st := ""
			switch r.Intn(8) {
			case 0, 1:
				st = "/stats:count:-"
			case 2:
				st = "/stats:count+sum.i:s"
			case 3:
				st = "/pstats:count+max.i:-"
			}
			toks = append(toks, fmt.Sprintf("q/0/1000/%d/%d/%s%s", w[0], w[1], fl, st))
		}
		out = append(out, strings.Join(toks, " "))
	}
	return out
}

// e2eSegSelectTags: distribution tags of the segment-selection shapes of a history (first layout) and its query windows.
// Segments: per ingest stream, the flushed events between two rotations; rotated when a `ro` followed, else open.
func e2eSegSelectTags(f []string, tags map[string]bool) {
	type seg struct {
		lo, hi  uint64
		rotated bool
	}
	var segs []seg
	open := map[int]*seg{} // flushed events of the open segment of a stream
	pend := map[int]*seg{} // sent, not flushed
	cur := 0
	var batch []uint64
	streams := map[int]bool{}
	add := func(m map[int]*seg, st int, lo, hi uint64) {
		if m[st] == nil {
			m[st] = &seg{lo: lo, hi: hi}
			return
		}
		if lo < m[st].lo {
			m[st].lo = lo
		}
		if hi > m[st].hi {
			m[st].hi = hi
		}
	}
	flush := func() {
		for st, p := range pend {
			add(open, st, p.lo, p.hi)
		}
		pend = map[int]*seg{}
	}
	i := 0
	for ; i < len(f) && f[i] != "Q" && f[i] != "H2"; i++ {
		t := f[i]
		switch {
		case strings.HasPrefix(t, "st/"):
			cur, _ = strconv.Atoi(t[3:])
		case strings.HasPrefix(t, "ev/"):
			p := strings.SplitN(t, "/", 4)
			ts, _ := strconv.ParseUint(p[2], 10, 64)
			batch = append(batch, ts)
		case t == "send":
			for _, ts := range batch {
				add(pend, cur, ts, ts)
				streams[cur] = true
			}
			batch = nil
		case t == "fl":
			flush()
		case t == "ro":
			flush()
			for _, s := range open {
				segs = append(segs, seg{s.lo, s.hi, true})
			}
			open = map[int]*seg{}
		}
	}
	nrot := len(segs)
	for _, s := range open {
		segs = append(segs, seg{s.lo, s.hi, false})
	}
	if len(segs) < 2 {
		return
	}
	if len(streams) > 1 {
		tags["seg-select/several-streams-in-one-index"] = true
	}
	if nrot > 0 && nrot < len(segs) {
		tags["seg-select/rotated-and-open-segments"] = true
	}
	if nrot >= 3 {
		tags["seg-select/3+-rotated-segments"] = true
	}
	wide, thin := false, false
	for a, x := range segs {
		if x.hi-x.lo >= 5000 {
			wide = true
		}
		if x.hi-x.lo <= 300 {
			thin = true
		}
		for b, y := range segs {
			if a != b && x.lo <= y.lo && y.hi <= x.hi && (x.lo < y.lo || y.hi < x.hi) {
				tags["seg-select/segment-nested-in-another"] = true
			}
		}
	}
	if wide && thin {
		tags["seg-select/wide-and-narrow-segments"] = true
	}
	for ; i < len(f) && f[i] != "Q"; i++ {
	}
	for _, t := range f[min(i+1, len(f)):] {
		p := strings.Split(t, "/")
		if len(p) < 6 || p[0] != "q" {
			continue
		}
		qs, _ := strconv.ParseUint(p[3], 10, 64)
		qe, _ := strconv.ParseUint(p[4], 10, 64)
		ov := func(s seg) bool { return s.lo <= qe && qs <= s.hi }
		// in the order of the segments' ends (descending, the order of the rotated table): overlapping, not overlapping, overlapping
		for _, a := range segs[:nrot] {
			for _, b := range segs[:nrot] {
				for _, c := range segs[:nrot] {
					if a.hi > b.hi && b.hi > c.hi && ov(a) && !ov(b) && ov(c) {
						tags["seg-select/window-overlaps-rotated-segments-not-adjacent-by-end"] = true
					}
				}
			}
		}
		if len(p) == 7 && p[5] == "all" && strings.HasPrefix(p[6], "stats:") && strings.HasSuffix(p[6], ":-") {
			// statistics without by over a match-all search: a rotated segment the window encloses is answered from its .sst
			// file, a segment the window cuts through from its records
			enclosed, cut := false, false
			for _, a := range segs[:nrot] {
				if qs <= a.lo && a.hi <= qe {
					enclosed = true
				}
			}
			for _, a := range segs {
				if ov(a) && !(qs <= a.lo && a.hi <= qe) {
					cut = true
				}
			}
			if enclosed && cut {
				tags["sst-and-raw-in-one-query"] = true
				for _, a := range strings.Split(strings.Split(p[6], ":")[1], "+") {
					fn, col, _ := strings.Cut(a, ".")
					kind := map[string]string{"i": "integers", "big": "integers", "x": "integers", "f": "decimals", "m": "decimals", "ns": "numeric-text", "mx": "numbers-and-numeric-text", "s": "text"}[col]
					if fn == "count" {
						kind = "events"
					}
					if kind != "" {
						tags["sst-and-raw-in-one-query/"+fn+"-of-"+kind] = true
					}
				}
			}
		}
		newer := false
		for _, a := range segs[:nrot] {
			if a.hi >= qe {
				newer = true
			}
		}
		for _, o := range segs[nrot:] {
			if ov(o) {
				tags["seg-select/window-overlaps-open-segment"] = true
				if newer {
					tags["seg-select/window-overlaps-open-segment-and-ends-at-or-before-rotated-data"] = true
				}
			}
		}
		for _, s := range segs {
			switch {
			case qe < s.lo:
				tags["seg-select/window-ends-before-a-segment"] = true
			case qe == s.lo || qe == s.hi:
				tags["seg-select/window-ends-on-a-segment-bound"] = true
			case qe < s.hi:
				tags["seg-select/window-ends-inside-a-segment"] = true
			}
			if qs == s.hi || qs == s.lo {
				tags["seg-select/window-starts-on-a-segment-bound"] = true
			}
		}
	}
}

// ---------------------------------------------------------------- exec

func tvToJSON(tv string) (string, bool) {
	if tv == "" {
		return "", false
	}
	switch tv[0] {
	case 'i', 'd':
		return tv[1:], true
	case 's':
		b, err := hex.DecodeString(tv[1:])
		if err != nil {
			return "", false
		}
		j, _ := json.Marshal(string(b))
		return string(j), true
	case 'b':
		if tv == "b1" {
			return "true", true
		}
		return "false", true
	case 'z':
		return "null", true
	case 'r':
		p := strings.SplitN(tv[1:], ".", 2)
		if len(p) != 2 {
			return "", false
		}
		n, err := strconv.Atoi(p[0])
		u, err2 := hex.DecodeString(p[1])
		if err != nil || err2 != nil || len(u) == 0 || n < 0 || n > 200000 {
			return "", false
		}
		j, _ := json.Marshal(strings.Repeat(string(u), n/len(u)+1)[:n])
		return string(j), true
	}
	return "", false
}

// nest dotted keys into objects (so that the engine's flattening is exercised)
func eventJSON(vid int, ts uint64, fields []kv, nest bool) (string, bool) {
	var sb strings.Builder
	fmt.Fprintf(&sb, `{"_vid":%d,"timestamp":%d`, vid, ts)
	type node struct {
		leaf     string
		children map[string]*node
		order    []string
	}
	root := &node{children: map[string]*node{}}
	for _, f := range fields {
		j, ok := tvToJSON(f.tv)
		if !ok {
			return "", false
		}
		parts := []string{f.k}
		if nest {
			parts = strings.Split(f.k, ".")
		}
		cur := root
		for i, p := range parts {
			ch, ok := cur.children[p]
			if !ok {
				ch = &node{children: map[string]*node{}}
				cur.children[p] = ch
				cur.order = append(cur.order, p)
			}
			if i == len(parts)-1 {
				ch.leaf = j
			}
			cur = ch
		}
	}
	var render func(n *node) string
	render = func(n *node) string {
		if len(n.children) == 0 {
			return n.leaf
		}
		// children 0, 1, …, k-1 in this order: a JSON array
		isArr := true
		for i, k := range n.order {
			if k != strconv.Itoa(i) {
				isArr = false
			}
		}
		if isArr {
			var ps []string
			for _, k := range n.order {
				ps = append(ps, render(n.children[k]))
			}
			return "[" + strings.Join(ps, ",") + "]"
		}
		var ps []string
		for _, k := range n.order {
			kj, _ := json.Marshal(k)
			ps = append(ps, string(kj)+":"+render(n.children[k]))
		}
		return "{" + strings.Join(ps, ",") + "}"
	}
	for _, k := range root.order {
		kj, _ := json.Marshal(k)
		sb.WriteString("," + string(kj) + ":" + render(root.children[k]))
	}
	sb.WriteString("}")
	return sb.String(), true
}

func litToSPL(l string) (string, bool) {
	if l == "" {
		return "", false
	}
	switch l[0] {
	case 'i', 'd':
		return l[1:], true
	case 's':
		b, err := hex.DecodeString(l[1:])
		if err != nil {
			return "", false
		}
		return `"` + string(b) + `"`, true
	case 'w':
		b, err := hex.DecodeString(l[1:])
		if err != nil {
			return "", false
		}
		return string(b), true
	}
	return "", false
}

func filterToSPL(rpn string) (string, bool) {
	var st []string
	opm := map[string]string{"eq": "=", "ne": "!=", "lt": "<", "le": "<=", "gt": ">", "ge": ">="}
	for _, it := range strings.Split(rpn, ",") {
		p := strings.Split(it, ":")
		switch {
		case it == "all":
			st = append(st, "*")
		case p[0] == "t" && len(p) == 2:
			b, err := hex.DecodeString(p[1])
			if err != nil {
				return "", false
			}
			st = append(st, string(b))
		case (p[0] == "tc" || p[0] == "p" || p[0] == "pc") && len(p) == 2:
			b, err := hex.DecodeString(p[1])
			if err != nil || len(b) == 0 || strings.ContainsAny(string(b), "\"\\") || (p[0] == "tc" && strings.Contains(string(b), " ")) {
				return "", false
			}
			switch p[0] {
			case "tc":
				st = append(st, "CASE("+string(b)+")")
			case "p":
				st = append(st, `"`+string(b)+`"`)
			default:
				st = append(st, `CASE("`+string(b)+`")`)
			}
		case p[0] == "c" && len(p) == 4:
			lit, ok := litToSPL(p[3])
			op, ok2 := opm[p[2]]
			if !ok || !ok2 {
				return "", false
			}
			st = append(st, p[1]+op+lit)
		case it == "and" || it == "or":
			if len(st) < 2 {
				return "", false
			}
			a, b := st[len(st)-2], st[len(st)-1]
			st = st[:len(st)-2]
			st = append(st, "("+a+" "+strings.ToUpper(it)+" "+b+")")
		case it == "not":
			if len(st) < 1 {
				return "", false
			}
			st[len(st)-1] = "NOT (" + st[len(st)-1] + ")"
		default:
			return "", false
		}
	}
	if len(st) != 1 {
		return "", false
	}
	return st[0], true
}

type e2eQuery struct {
	from, size int
	start, end uint64
	spl        string
	kind       string // ids | recs | stats
	aggs       []string
	bys        []string
	pageSize   int
	span       uint64 // tc: cell width in ms
	proc       bool   // pstats / ptc
	where      bool
	sql        bool // the filter goes through the SQL front end
	tmRange    bool // the time range is given in the query text (`| earliest=… latest=…`)
	tags       []string
}

// a glob (`*` wildcards, literal text otherwise) as a regular expression: anchored where the glob does not start / end with `*`
func e2eGlobToRegex(g string) string {
	parts := strings.Split(g, "*")
	for i, p := range parts {
		parts[i] = regexp.QuoteMeta(p)
	}
	re := strings.Join(parts, ".*")
	if !strings.HasPrefix(g, "*") {
		re = "^" + re
	} else {
		re = strings.TrimPrefix(re, ".*")
	}
	if !strings.HasSuffix(g, "*") {
		re += "$"
	} else {
		re = strings.TrimSuffix(re, ".*")
	}
	return re
}

// one comparison as an SQL condition (numbers, and text without wildcard for = / !=)
func e2eFilterToSQL(rpn string) (string, bool) {
	p := strings.Split(rpn, ":")
	if len(p) != 4 || p[0] != "c" || strings.Contains(rpn, ",") || p[3] == "" {
		return "", false
	}
	op, ok := map[string]string{"eq": "=", "ne": "!=", "lt": "<", "le": "<=", "gt": ">", "ge": ">="}[p[2]]
	if !ok {
		return "", false
	}
	switch p[3][0] {
	case 'i', 'd':
		return p[1] + " " + op + " " + p[3][1:], true
	case 's':
		b, err := hex.DecodeString(p[3][1:])
		if err != nil || len(b) == 0 || strings.ContainsAny(string(b), "'\"*\\ ") || (p[2] != "eq" && p[2] != "ne") {
			return "", false
		}
		return p[1] + " " + op + " '" + string(b) + "'", true
	}
	return "", false
}

func parseE2EQuery(tok string) (q e2eQuery, ok bool) {
	p := strings.Split(tok, "/")
	if len(p) < 6 || p[0] != "q" {
		return
	}
	var err error
	if q.from, err = strconv.Atoi(p[1]); err != nil {
		return
	}
	if q.size, err = strconv.Atoi(p[2]); err != nil {
		return
	}
	if q.start, err = strconv.ParseUint(p[3], 10, 64); err != nil {
		return
	}
	if q.end, err = strconv.ParseUint(p[4], 10, 64); err != nil {
		return
	}
	f, fok := filterToSPL(p[5])
	if !fok {
		return
	}
	q.spl = f
	q.kind = "ids"
	for _, st := range p[6:] {
		sp := strings.Split(st, ":")
		switch {
		case st == "recs":
			q.kind = "recs"
		case sp[0] == "pages" && len(sp) == 2:
			q.kind = "pages"
			if q.pageSize, err = strconv.Atoi(sp[1]); err != nil || q.pageSize < 1 {
				return
			}
		case sp[0] == "regex" && len(sp) == 4:
			g, e1 := hex.DecodeString(sp[3])
			if e1 != nil || len(g) == 0 || sp[1] == "" || (sp[2] != "eq" && sp[2] != "ne") || strings.ContainsAny(string(g), "\"\\") {
				return q, false
			}
			q.spl += " | regex " + sp[1] + map[string]string{"eq": "=", "ne": "!="}[sp[2]] + `"` + e2eGlobToRegex(string(g)) + `"`
			q.tags = append(q.tags, "regex-stage")
		case sp[0] == "win" && len(sp) == 3:
			var ls []string
			for _, l := range strings.Split(sp[2], "+") {
				lit, ok1 := litToSPL(l)
				if !ok1 {
					return q, false
				}
				ls = append(ls, lit)
			}
			if sp[1] == "" {
				return q, false
			}
			q.spl += " | where in(" + sp[1] + ", " + strings.Join(ls, ", ") + ")"
			q.where = true
			q.tags = append(q.tags, "where-in-list")
		case sp[0] == "tm" && len(sp) == 3:
			a, e1 := strconv.ParseInt(sp[1], 10, 64)
			b, e2 := strconv.ParseInt(sp[2], 10, 64)
			if e1 != nil || e2 != nil || a < 0 || b < 0 {
				return q, false
			}
			const layout = "01/02/2006:15:04:05"
			q.spl += " | earliest=" + time.Unix(a, 0).Format(layout) + " latest=" + time.Unix(b, 0).Format(layout)
			q.tmRange = true
			q.tags = append(q.tags, "earliest/latest-in-query-text")
		case st == "sql":
			cond, ok1 := e2eFilterToSQL(p[5])
			if !ok1 || len(p) != 7 {
				return q, false
			}
			q.spl = "SELECT * FROM vidx WHERE " + cond
			q.sql = true
			q.tags = append(q.tags, "sql-front-end")
		case (sp[0] == "head" || sp[0] == "tail") && len(sp) == 2:
			n, e1 := strconv.Atoi(sp[1])
			if e1 != nil || n < 1 {
				return q, false
			}
			q.spl += fmt.Sprintf(" | %s %d", sp[0], n)
			if sp[0] == "tail" {
				q.kind = "tail"
			}
			q.tags = append(q.tags, sp[0]+"-command")
		case sp[0] == "dedup" && len(sp) == 2 && sp[1] != "":
			q.spl += " | dedup " + sp[1]
			q.kind = "dedup"
			q.tags = append(q.tags, "dedup-command")
		case (sp[0] == "top" || sp[0] == "rare") && len(sp) == 3 && sp[1] != "":
			lim := ""
			if sp[2] != "-" {
				n, e1 := strconv.Atoi(sp[2])
				if e1 != nil || n < 1 {
					return q, false
				}
				lim = fmt.Sprintf(" limit=%d", n)
				q.tags = append(q.tags, "top/rare-with-limit")
			}
			q.spl += " | " + sp[0] + lim + " " + sp[1]
			q.kind = "top"
			q.bys = []string{sp[1]}
			q.tags = append(q.tags, sp[0]+"-command")
		case sp[0] == "where" && len(sp) == 4:
			lit, ok1 := litToSPL(sp[3])
			op, ok2 := map[string]string{"eq": "=", "ne": "!=", "lt": "<", "le": "<=", "gt": ">", "ge": ">="}[sp[2]]
			if !ok1 || !ok2 || sp[1] == "" {
				return q, false
			}
			q.spl += " | where " + sp[1] + op + lit
			q.where = true
		case ((sp[0] == "stats" || sp[0] == "pstats") && len(sp) == 3) || ((sp[0] == "tc" || sp[0] == "ptc") && len(sp) == 4):
			if sp[0][0] == 'p' {
				// any command in front makes the pipeline hand the records to the stats / timechart processor
				sp[0] = sp[0][1:]
				q.spl += " | eval verif_pp=1"
				q.proc = true
			}
			q.kind = "stats"
			if sp[0] == "tc" {
				q.kind = "tc"
				if q.span, err = strconv.ParseUint(sp[1], 10, 64); err != nil || q.span == 0 || sp[3] == "" || strings.Contains(sp[3], "+") {
					return q, false
				}
				sp = sp[1:]
			}
			var as []string
			for _, a := range strings.Split(sp[1], "+") {
				ap := strings.SplitN(a, ".", 2)
				if ap[0] == "count" && len(ap) == 1 {
					as = append(as, "count")
				} else if len(ap) == 2 && ap[0] == "cnt" && ap[1] != "" {
					as = append(as, "count("+ap[1]+")")
				} else if len(ap) == 2 && (ap[0] == "sum" || ap[0] == "min" || ap[0] == "max" || ap[0] == "avg" || ap[0] == "dc") {
					as = append(as, ap[0]+"("+ap[1]+")")
				} else {
					return
				}
			}
			q.aggs = as
			if q.kind == "tc" {
				q.spl += fmt.Sprintf(" | timechart span=%dms %s", q.span, strings.Join(as, ", "))
			} else {
				q.spl += " | stats " + strings.Join(as, ", ")
			}
			if sp[2] != "-" {
				q.bys = strings.Split(sp[2], "+")
				q.spl += " by " + strings.Join(q.bys, ", ")
			}
		default:
			return
		}
	}
	return q, true
}

func canonNum(n json.Number) string {
	s := n.String()
	if !strings.ContainsAny(s, ".eE") {
		return "i" + s
	}
	f, err := strconv.ParseFloat(s, 64)
	if err != nil {
		return "?" + s
	}
	if f == float64(int64(f)) && f < 1e15 && f > -1e15 {
		return "i" + strconv.FormatInt(int64(f), 10)
	}
	return "d" + strconv.FormatFloat(f, 'g', -1, 64)
}

func canonVal(v interface{}) string {
	switch x := v.(type) {
	case json.Number:
		return canonNum(x)
	case string:
		return "s" + hexs(x)
	case bool:
		if x {
			return "b1"
		}
		return "b0"
	case nil:
		return "z"
	default:
		b, _ := json.Marshal(x)
		return "j" + hexs(string(b))
	}
}

func ratOf(v interface{}) string {
	switch x := v.(type) {
	case json.Number:
		s := x.String()
		if !strings.ContainsAny(s, ".eE") {
			return s
		}
		f, err := strconv.ParseFloat(s, 64)
		if err != nil {
			return "?" + s
		}
		r := new(big.Rat).SetFloat64(f)
		if r == nil {
			return "?" + s
		}
		if r.IsInt() {
			return r.Num().String()
		}
		return r.Num().String() + "/" + r.Denom().String()
	case string:
		if x == "" {
			return "none"
		}
		return "str:" + hexs(x)
	case nil:
		return "none"
	default:
		b, _ := json.Marshal(x)
		return "?" + string(b)
	}
}

func execE2E(line string) Result {
	f := strings.Fields(line)
	if len(f) < 3 || f[0] != "e2e" {
		return Result{Out: "bad-op"}
	}
	if e2eCardTooSmall(f[1:], f[1:]) { // (a card= token of either layout; the events are the same in both)
		return Result{Out: "bad-op"}
	}
	// optional second layout: e2e <cfg> H <hist> H2 <cfg2…> <hist2> Q <queries>
	h2 := -1
	qpos := -1
	for i, t := range f {
		if t == "H2" && h2 < 0 {
			h2 = i
		}
		if t == "Q" && qpos < 0 {
			qpos = i
		}
	}
	if h2 < 0 || qpos < 0 || h2 > qpos {
		return execE2ELayout(f)
	}
	first := append(append([]string{}, f[:h2]...), f[qpos:]...)
	r1 := execE2ELayout(first)
	// second layout: its own cfg tokens precede its history
	second := []string{"e2e"}
	j := h2 + 1
	for ; j < qpos && strings.Contains(f[j], "=") && !strings.HasPrefix(f[j], "ev/"); j++ {
		second = append(second, f[j])
	}
	second = append(second, "H")
	second = append(second, f[j:qpos]...)
	second = append(second, f[qpos:]...)
	r2 := execE2ELayout(second)
	r1.Fails = append(r1.Fails, r2.Fails...)
	// compare the two layouts query by query (ids as sets per query; stats rows as given)
	a, b := strings.Split(r1.Out, " | "), strings.Split(r2.Out, " | ")
	var diff []string
	if len(a) == len(b) {
		for qi := range a {
			if canonSeg(a[qi]) != canonSeg(b[qi]) {
				diff = append(diff, strconv.Itoa(qi))
			}
		}
	} else {
		diff = append(diff, "all")
	}
	r1.Out += " | kind=layoutdiff q=" + strings.Join(diff, ",")
	r1.Tags = append(r1.Tags, "two-layouts")
	return r1
}

// canonical form of one answer segment for layout-vs-layout comparison: ids sorted (ties may be ordered differently)
func canonSeg(seg string) string {
	if strings.HasPrefix(seg, "kind=ids ids=") {
		ids := strings.Split(strings.TrimPrefix(seg, "kind=ids ids="), ",")
		sort.Strings(ids)
		return "kind=ids ids=" + strings.Join(ids, ",")
	}
	return seg
}

// e2eMinCardWithBoolMix: a dictionary limit (cfg card=) below 4 is not combined with a column that holds a boolean (or a null) in
// one event and a number or a string in another.  With a limit of 1–3 a block whose column holds nothing but true / false / null
// is written in the columnar encoding (deCount ≥ limit) and writeNonDeBloom then sizes the column's bloom for ZERO words:
// bloom.NewWithEstimates(0, p) has k = uint(+Inf) = 2^63 hash functions.  The object stays in wipBlock.columnBlooms, and when
// a later block of the segment mixes numbers and text in that column, convertColumnToStrings inserts into it and never
// returns (the flush hangs).  With the production limit (wipCardLimit = 501, set by nothing but tests) the state is
// unreachable: on the ingest path every value goes through checkAddDictEnc, so a block is columnar only with ≥ 501 distinct
// values; without a string these are numbers, and a column with a bloom AND numbers is consolidated first (all numbers:
// the bloom is dropped; otherwise everything becomes text, > 0 words).  A harness restriction (the same as in suite tlvseg,
// c01_tlvseg.go), applied by the generators and refused by Exec and by the Oracle (Oracle/E2E.lean `cardTooSmall`) alike.
const e2eMinCardWithBoolMix = 4

// e2eCardTooSmall: a card= token with 0 < card < 4 and a column holding a boolean or a null in one event and a number or a
// string in another one (null: a block of nothing but nulls is columnar under card=1, and with a bloom left over from an
// earlier block of strings the same happens)
func e2eCardTooSmall(cfg []string, hist []string) bool {
	small := false
	for _, c := range cfg {
		if strings.HasPrefix(c, "card=") {
			if n, err := strconv.Atoi(c[5:]); err == nil && n > 0 && n < e2eMinCardWithBoolMix {
				small = true
			}
		}
	}
	if !small {
		return false
	}
	hasBool, hasOther := map[string]bool{}, map[string]bool{}
	for _, t := range hist {
		if !strings.HasPrefix(t, "ev/") {
			continue
		}
		p := strings.SplitN(t, "/", 4)
		if len(p) != 4 || p[3] == "-" {
			continue
		}
		for _, x := range strings.Split(p[3], ",") {
			y := strings.SplitN(x, "~", 2)
			if len(y) != 2 || y[1] == "" {
				continue
			}
			switch y[1][0] {
			case 'b', 'z':
				hasBool[y[0]] = true
			case 'i', 'd', 's', 'r':
				hasOther[y[0]] = true
			}
		}
	}
	for c := range hasBool {
		if hasOther[c] {
			return true
		}
	}
	return false
}

func execE2ELayout(f []string) Result {
	if len(f) < 3 || f[0] != "e2e" {
		return Result{Out: "bad-op"}
	}
	var in bytes.Buffer
	tagSet := map[string]bool{}
	i := 1
	for ; i < len(f) && f[i] != "H"; i++ {
		if strings.HasPrefix(f[i], "card=") {
			fmt.Fprintf(&in, "cfg card %s\n", f[i][5:])
		} else if f[i] == "pqdrain=0" {
			in.WriteString("cfg pqdrain 0\n")
			tagSet["own-listener-only"] = true
		} else if f[i] == "pqs=0" || f[i] == "pqs=1" {
			fmt.Fprintf(&in, "cfg pqs %s\n", f[i][4:])
			if f[i] == "pqs=0" {
				tagSet["pqs=off"] = true
			}
		} else {
			return Result{Out: "bad-op"}
		}
	}
	if i >= len(f) {
		return Result{Out: "bad-op"}
	}
	i++
	var batch []string
	var evTs []uint64
	nev := 0
	unflushed := 0 // events sent since the last flush
	for ; i < len(f) && f[i] != "Q"; i++ {
		t := f[i]
		switch {
		case t == "send":
			if len(batch) > 0 {
				fmt.Fprintf(&in, "batch %s\n", strings.Join(batch, " "))
			}
			unflushed += len(batch)
			batch = nil
		case t == "fl":
			in.WriteString("flush\n")
			unflushed = 0
		case t == "ro":
			in.WriteString("rotate\n")
			unflushed = 0
		case strings.HasPrefix(t, "st/"):
			n, err := strconv.Atoi(t[3:])
			if err != nil || n < 0 || n > 9 || len(batch) > 0 {
				return Result{Out: "bad-op"}
			}
			fmt.Fprintf(&in, "stream %d\n", n)
		case strings.HasPrefix(t, "rq/"):
			spl, ok := filterToSPL(t[3:])
			if !ok {
				return Result{Out: "bad-op"}
			}
			fmt.Fprintf(&in, "qd 0 1000 %d %d %s\n", e2eBase-100000, e2eBase+1000000, hexs(spl))
			in.WriteString("pqwait\n")
			tagSet["query-inside-history"] = true
		case strings.HasPrefix(t, "ev/"):
			p := strings.SplitN(t, "/", 4)
			if len(p) != 4 {
				return Result{Out: "bad-op"}
			}
			vid, e1 := strconv.Atoi(p[1])
			ts, e2 := strconv.ParseUint(p[2], 10, 64)
			if e1 != nil || e2 != nil {
				return Result{Out: "bad-op"}
			}
			var fields []kv
			if p[3] != "-" {
				for _, x := range strings.Split(p[3], ",") {
					y := strings.SplitN(x, "~", 2)
					if len(y) != 2 {
						return Result{Out: "bad-op"}
					}
					fields = append(fields, kv{y[0], y[1]})
					if strings.HasPrefix(y[1], "s") && y[0] == "ns" {
						for _, ed := range e2eNumEdge {
							if y[1][1:] == hexs(ed) {
								tagSet["numeric-text-at-the-edge-of-the-number-grammar"] = true
							}
						}
					}
				}
			}
			js, ok := eventJSON(vid, ts, fields, vid%2 == 0)
			if !ok {
				return Result{Out: "bad-op"}
			}
			batch = append(batch, hexs(js))
			nev++
			evTs = append(evTs, ts)
		default:
			return Result{Out: "bad-op"}
		}
	}
	if i >= len(f) {
		return Result{Out: "bad-op"}
	}
	if unflushed > 0 {
		tagSet["unflushed-events-at-query-time"] = true
	}
	var qs []e2eQuery
	nAnswers := 0
	seenFilter := map[string]string{} // filter → window of its first run
	var ctlWords map[string]bool      // lower-cased words of the history's string values that a tab / LF / CR delimits on at least one side
	for _, t := range f[i+1:] {
		if t == "w" {
			in.WriteString("pqwait\n")
			tagSet["wait-for-pq-write"] = true
			continue
		}
		if t == "pqcheck" {
			in.WriteString("pqstate\n")
			continue
		}
		q, ok := parseE2EQuery(t)
		if !ok {
			return Result{Out: "bad-op"}
		}
		qs = append(qs, q)
		e2eQueryTags(t, q, evTs, seenFilter, tagSet)
		if ctlWords == nil {
			ctlWords = e2eCtlWords(f)
		}
		if qp := strings.Split(t, "/"); len(qp) >= 6 {
			for _, it := range strings.Split(qp[5], ",") {
				if ip := strings.Split(it, ":"); len(ip) == 2 && (ip[0] == "t" || ip[0] == "tc") && ctlWords[strings.ToLower(unhexs(ip[1]))] {
					tagSet["free-text/word-delimited-by-tab-or-line-break"] = true
				}
			}
		}
		if q.kind == "pages" {
			// page through the whole result: from = 0, k, 2k, … (one page more than needed to see the end)
			np := nev/q.pageSize + 2
			for pg := 0; pg < np; pg++ {
				fmt.Fprintf(&in, "q %d %d %d %d %s\n", pg*q.pageSize, q.pageSize, q.start, q.end, hexs(q.spl))
			}
			nAnswers += np
		} else {
			lang := ""
			if q.sql {
				lang = " sql"
			}
			start, end := q.start, q.end
			if q.tmRange {
				start, end = e2eBase-100000000, e2eBase+100000000 // the range comes from the query text
			}
			fmt.Fprintf(&in, "q %d %d %d %d %s%s\n", q.from, q.size, start, end, hexs(q.spl), lang)
			nAnswers++
		}
		for _, t := range q.tags {
			tagSet[t] = true
		}
	}
	// run the worker
	// A worker that does not finish in 120 s is run once more with 600 s before it is reported: on a loaded
	// machine (several checks in parallel) a wide dataset can need more than the first limit, and a limit that
	// depends on the load must not raise an alarm.  A query that really hangs still ends as e2e-worker/timeout.
	inBytes := append([]byte(nil), in.Bytes()...)
	var stdout, stderr bytes.Buffer
	var werr error
	for attempt, limit := range []time.Duration{120 * time.Second, 600 * time.Second} {
		stdout.Reset()
		stderr.Reset()
		cmd := exec.Command(os.Args[0], "e2eworker")
		cmd.Stdin = bytes.NewReader(inBytes)
		cmd.Stdout = &stdout
		cmd.Stderr = &stderr
		cmd.Env = append(os.Environ(), "GOMEMLIMIT=2GiB", "GOMAXPROCS=4")
		done := make(chan error, 1)
		if err := cmd.Start(); err != nil {
			return Result{Out: "worker-start-failed"}
		}
		go func() { done <- cmd.Wait() }()
		timedOut := false
		select {
		case werr = <-done:
		case <-time.After(limit):
			cmd.Process.Kill()
			<-done
			timedOut = true
		}
		if !timedOut {
			if attempt > 0 {
				tagSet["worker-needed-second-run"] = true
			}
			break
		}
		if attempt == 1 {
			return Result{Out: "worker-timeout", Fails: []PropFail{{Sig: "e2e-worker/timeout", Msg: "engine worker did not finish within 120 s, nor within 600 s when run again"}}, Nontrivial: true}
		}
	}
	lines := strings.Split(strings.TrimSpace(stdout.String()), "\n")
	var resLines []string
	var pqFails []PropFail
	for _, l := range lines {
		// token pqcheck: the state of the persistent-query back-fill queue (e2eworker pqstate)
		var npq, nsfm, stuck int
		if n, _ := fmt.Sscanf(l, "#pqstate pqmr=%d sfm=%d stuck=%d", &npq, &nsfm, &stuck); n == 3 {
			if stuck > 0 {
				pqFails = append(pqFails, PropFail{Sig: "pqs/backfill-request-sender-blocked", Msg: fmt.Sprintf("%d goroutines are blocked while queueing a persistent-query back-fill / empty-result request: nothing reads the queue (capacity 1000)", stuck)})
			}
			if nsfm < npq/100*100 {
				pqFails = append(pqFails, PropFail{Sig: "pqs/backfill-requests-never-persisted", Msg: fmt.Sprintf("%d persistent-query result files were written, %d of the back-fill requests reached the .sfm files (the listener persists them in batches of 100 or every 10 s): after a restart the results are unknown", npq, nsfm)})
			}
		}
		if strings.HasPrefix(l, "{") && !strings.HasPrefix(l, `{"ingesterr"`) {
			resLines = append(resLines, l)
		}
	}
	if werr != nil || len(resLines) != nAnswers {
		// classify by the panic site: first frame inside the repository's pkg/ tree
		site, pmsg := "unknown", ""
		el := strings.Split(stderr.String(), "\n")
		for li, l := range el {
			if pmsg == "" && (strings.HasPrefix(l, "panic:") || strings.HasPrefix(l, "fatal error:")) {
				pmsg = trunc(l, 200)
			}
			if pmsg != "" && strings.Contains(l, "/pkg/") && strings.HasPrefix(l, "\t") && li > 0 {
				fn := strings.TrimSpace(el[li-1])
				if k := strings.LastIndex(fn, "("); k > 0 {
					fn = fn[:k]
				}
				if k := strings.LastIndex(fn, "/"); k >= 0 {
					fn = fn[k+1:]
				}
				site = fn
				break
			}
		}
		return Result{Out: fmt.Sprintf("worker-died err=%v answers=%d/%d", werr, len(resLines), nAnswers),
			Fails: []PropFail{{Sig: "e2e-worker/crash/" + site, Msg: fmt.Sprintf("engine worker exited abnormally (%v) after %d of %d answers: %s at %s", werr, len(resLines), nAnswers, pmsg, site)}}, Nontrivial: true}
	}
	var segs []string
	ri := 0
	for _, q := range qs {
		if q.kind == "pages" {
			np := nev/q.pageSize + 2
			var pages []string
			for pg := 0; pg < np; pg++ {
				dec := json.NewDecoder(strings.NewReader(resLines[ri]))
				ri++
				dec.UseNumber()
				var resp map[string]interface{}
				if err := dec.Decode(&resp); err != nil {
					pages = append(pages, "undecodable")
					continue
				}
				if e, ok := resp["err"].(string); ok && e != "" {
					pages = append(pages, "error")
					continue
				}
				recs, _ := resp["recs"].([]interface{})
				var parts []string
				for _, r := range recs {
					m, _ := r.(map[string]interface{})
					vid, ts := "?", "?"
					if v, ok := m["_vid"].(json.Number); ok {
						vid = v.String()
					}
					if v, ok := m["timestamp"].(json.Number); ok {
						ts = v.String()
					}
					parts = append(parts, vid+"@"+ts)
				}
				pages = append(pages, strings.Join(parts, ","))
			}
			segs = append(segs, "kind=pages pages="+strings.Join(pages, ";"))
			continue
		}
		dec := json.NewDecoder(strings.NewReader(resLines[ri]))
		ri++
		dec.UseNumber()
		var resp map[string]interface{}
		if err := dec.Decode(&resp); err != nil {
			segs = append(segs, "kind=undecodable")
			continue
		}
		if e, ok := resp["err"].(string); ok && e != "" {
			segs = append(segs, "kind=error err="+hexs(trunc(e, 200)))
			continue
		}
		recs, _ := resp["recs"].([]interface{})
		switch q.kind {
		case "top":
			// rows in the order of the answer: <hexkey>=<count>;<percent>
			meas, _ := resp["measure"].([]interface{})
			var rows []string
			for _, mr := range meas {
				m, _ := mr.(map[string]interface{})
				gv, _ := m["GroupByValues"].([]interface{})
				key := "?"
				if len(gv) == 1 {
					key = fmt.Sprint(gv[0])
				}
				mv, _ := m["MeasureVal"].(map[string]interface{})
				rows = append(rows, hexs(key)+"="+ratOf(mv["count"])+";"+ratOf(mv["percent"]))
			}
			segs = append(segs, "kind=top rows="+strings.Join(rows, ","))
		case "ids", "recs", "tail", "dedup":
			var parts []string
			for _, r := range recs {
				m, _ := r.(map[string]interface{})
				vid := "?"
				ts := "?"
				if v, ok := m["_vid"].(json.Number); ok {
					vid = v.String()
				}
				if v, ok := m["timestamp"].(json.Number); ok {
					ts = v.String()
				}
				if q.kind != "recs" {
					parts = append(parts, vid+"@"+ts)
					continue
				}
				var keys []string
				for k := range m {
					if k != "_vid" && k != "timestamp" && k != "_index" {
						keys = append(keys, k)
					}
				}
				sort.Strings(keys)
				var fs []string
				for _, k := range keys {
					cv := canonVal(m[k])
					if cv == "z" {
						continue
					}
					fs = append(fs, k+"="+cv)
				}
				parts = append(parts, vid+"@"+ts+"{"+strings.Join(fs, ",")+"}")
			}
			sep := ","
			key := "ids"
			if q.kind == "recs" {
				sep = ";"
				key = "recs"
			}
			segs = append(segs, fmt.Sprintf("kind=%s %s=%s", q.kind, key, strings.Join(parts, sep)))
		case "tc":
			segs = append(segs, e2eCanonTimechart(q, resp))
		case "stats":
			meas, _ := resp["measure"].([]interface{})
			var rows []string
			// the response lists group values in the order of its groupByCols; put them into query order
			gcols, _ := resp["groupByCols"].([]interface{})
			perm := []int{}
			for _, b := range q.bys {
				for gi, gc := range gcols {
					if fmt.Sprint(gc) == b {
						perm = append(perm, gi)
					}
				}
			}
			for _, mr := range meas {
				m, _ := mr.(map[string]interface{})
				gv, _ := m["GroupByValues"].([]interface{})
				var ks []string
				for _, g := range gv {
					ks = append(ks, fmt.Sprint(g))
				}
				mv, _ := m["MeasureVal"].(map[string]interface{})
				var vals []string
				for _, a := range q.aggs {
					v, ok := mv[e2eAggName(a)]
					if !ok {
						vals = append(vals, "missing")
					} else {
						vals = append(vals, ratOf(v))
					}
				}
				if len(q.bys) == 0 || (len(ks) == 1 && ks[0] == "*") {
					ks = nil
				} else if len(perm) == len(ks) && len(perm) == len(q.bys) {
					re := make([]string, len(ks))
					for qi2, gi := range perm {
						re[qi2] = ks[gi]
					}
					ks = re
				}
				rows = append(rows, hexs(strings.Join(ks, "\x1f"))+"="+strings.Join(vals, ";"))
			}
			sort.Strings(rows)
			segs = append(segs, "kind=stats rows="+strings.Join(rows, ","))
		}
	}
	if unflushed > 0 {
		pqFails = append(pqFails, e2eUnflushedConsistency(qs, segs)...)
	}
	tags := []string{fmt.Sprintf("events<=%d", (nev/10+1)*10), fmt.Sprintf("queries=%d", len(qs))}
	for _, t := range e2eHistoryTags(f) {
		tagSet[t] = true
	}
	e2eSegSelectTags(f, tagSet)
	for t := range tagSet {
		tags = append(tags, t)
	}
	sort.Strings(tags[2:])
	return Result{Out: strings.Join(segs, " | "), Fails: pqFails, Nontrivial: nev >= 3 && len(qs) >= 1, Tags: tags}
}

// Events that are still in the write buffer when the queries run: the statements speak about flushed buffers only, the
// engine may show such events or not — but a match-all search, `* | stats count` and `* | stats count by <dense field>` over
// the same range must agree on how many events there are (C04: aggregates are over exactly the matched events; C03: the
// open buffer is one more physical organisation).  Checked on the answers of one engine process, independent of the model.
func e2eUnflushedConsistency(qs []e2eQuery, segs []string) []PropFail {
	type cnts struct{ ids, stats, by, pby int }
	per := map[string]*cnts{}
	get := func(q e2eQuery) *cnts {
		k := fmt.Sprintf("%d/%d", q.start, q.end)
		if per[k] == nil {
			per[k] = &cnts{-1, -1, -1, -1}
		}
		return per[k]
	}
	sumRows := func(seg string) int {
		n := 0
		for _, r := range strings.Split(strings.TrimPrefix(seg, "kind=stats rows="), ",") {
			if k := strings.LastIndex(r, "="); k >= 0 {
				v, err := strconv.Atoi(r[k+1:])
				if err != nil {
					return -2
				}
				n += v
			}
		}
		return n
	}
	for qi, q := range qs {
		if qi >= len(segs) || q.from != 0 {
			continue
		}
		c := get(q)
		switch q.spl {
		case "*":
			if strings.HasPrefix(segs[qi], "kind=ids ids=") {
				c.ids = 0
				if rest := strings.TrimPrefix(segs[qi], "kind=ids ids="); rest != "" {
					c.ids = len(strings.Split(rest, ","))
				}
			}
		case "* | stats count":
			if strings.HasPrefix(segs[qi], "kind=stats rows=") {
				c.stats = sumRows(segs[qi])
			}
		case "* | stats count by s":
			if strings.HasPrefix(segs[qi], "kind=stats rows=") {
				c.by = sumRows(segs[qi])
			}
		case "* | eval verif_pp=1 | stats count by s":
			if strings.HasPrefix(segs[qi], "kind=stats rows=") {
				c.pby = sumRows(segs[qi])
			}
		}
	}
	var fails []PropFail
	for w, c := range per {
		var seen []int
		for _, v := range []int{c.ids, c.stats, c.by, c.pby} {
			if v >= 0 {
				seen = append(seen, v)
			}
		}
		for _, v := range seen {
			if v != seen[0] {
				fails = append(fails, PropFail{Sig: "e2e/unflushed/search-and-stats-disagree", Msg: fmt.Sprintf("with events in the write buffer, over the range %s: match-all returns %d events, `stats count` %d, `stats count by s` %d in all groups, the stats processor %d (-1 = not asked)", w, c.ids, c.stats, c.by, c.pby)})
				break
			}
		}
	}
	return fails
}

// display name of an aggregation in the engine's response
func e2eAggName(a string) string {
	if a == "count" {
		return "count(*)"
	}
	if strings.HasPrefix(a, "dc(") {
		return "cardinality(" + a[3:]
	}
	return a
}

// kind=tchart rows=<cell start>:<series>=<v;v>,…   series: - (no by-field) | ~ (the engine's NULL series "<nil>") | hex(key).
// With a by-field the engine lists, in every cell it reports, every series of the whole answer (0 where the series has no
// event in the cell): all of them are printed, the comparison knows which ones must be empty.
func e2eCanonTimechart(q e2eQuery, resp map[string]interface{}) string {
	meas, _ := resp["measure"].([]interface{})
	var rows []string
	for _, mr := range meas {
		m, _ := mr.(map[string]interface{})
		gv, _ := m["GroupByValues"].([]interface{})
		cell := "?"
		if len(gv) == 1 {
			cell = fmt.Sprint(gv[0])
		}
		mv, _ := m["MeasureVal"].(map[string]interface{})
		if len(q.bys) == 0 {
			var vals []string
			for _, a := range q.aggs {
				if v, ok := mv[e2eAggName(a)]; ok {
					vals = append(vals, ratOf(v))
				} else {
					vals = append(vals, "missing")
				}
			}
			rows = append(rows, cell+":-="+strings.Join(vals, ";"))
			continue
		}
		// series names: "<agg>: <key>"; a key-less "<agg>" next to them is a second, unnamed series (printed as _)
		series := map[string]bool{}
		for k := range mv {
			for _, a := range q.aggs {
				if pre := e2eAggName(a) + ": "; strings.HasPrefix(k, pre) {
					series[": "+k[len(pre):]] = true
				} else if k == e2eAggName(a) {
					series[""] = true
				}
			}
		}
		for sk := range series {
			var vals []string
			for _, a := range q.aggs {
				if v, ok := mv[e2eAggName(a)+sk]; ok {
					vals = append(vals, ratOf(v))
				} else {
					vals = append(vals, "missing")
				}
			}
			name := "_"
			if sk == ": <nil>" {
				name = "~"
			} else if sk != "" {
				name = hexs(sk[2:])
			}
			rows = append(rows, cell+":"+name+"="+strings.Join(vals, ";"))
		}
	}
	sort.Strings(rows)
	return "kind=tchart rows=" + strings.Join(rows, ",")
}

// input-distribution tags of one query
func e2eQueryTags(tok string, q e2eQuery, evTs []uint64, seenFilter map[string]string, tags map[string]bool) {
	p := strings.Split(tok, "/")
	win := p[3] + "/" + p[4]
	if p[5] != "all" {
		if w0, ok := seenFilter[p[5]]; ok && w0 != win {
			tags["same-filter-again-other-window"] = true
		} else if !ok {
			seenFilter[p[5]] = win
		}
	}
	for _, ts := range evTs {
		if ts == q.end {
			tags["event-on-end-bound"] = true
		}
		if ts == q.start {
			tags["event-on-start-bound"] = true
		}
		if q.kind == "tc" && ts > q.start && ts < q.end && (ts-q.start)%q.span == 0 {
			tags["tc-event-on-cell-edge"] = true
		}
	}
	if q.proc {
		tags["stats/timechart-processor-path"] = true
	}
	if len(evTs) > 0 && (q.kind == "stats" || q.kind == "tc") {
		lo, hi := evTs[0], evTs[0]
		for _, ts := range evTs {
			if ts < lo {
				lo = ts
			}
			if ts > hi {
				hi = ts
			}
		}
		if q.end < lo || q.start > hi {
			tags["stats-over-window-holding-no-block"] = true
			if q.proc {
				tags["stats-processor-over-window-holding-no-block"] = true
			}
		}
	}
	if q.where {
		tags["where-stage"] = true
	}
	var numTerm []bool // RPN stack: the subexpression holds a free-text term that is a number
	for _, it := range strings.Split(p[5], ",") {
		ip := strings.Split(it, ":")
		switch {
		case it == "and" || it == "or":
			if n := len(numTerm); n >= 2 {
				numTerm = append(numTerm[:n-2], numTerm[n-2] || numTerm[n-1])
			}
		case it == "not":
			if n := len(numTerm); n >= 1 && numTerm[n-1] {
				tags["filter:numeric-free-text-term-under-NOT"] = true
			}
		default:
			numTerm = append(numTerm, len(ip) == 2 && ip[0] == "t" && e2eNumStrRe.MatchString(unhexs(ip[1])))
		}
		if len(ip) == 4 && ip[0] == "c" && len(ip[3]) > 0 {
			col, lit := ip[1], ip[3]
			quotedNum := lit[0] == 's' && e2eNumStrRe.MatchString(unhexs(lit[1:]))
			switch {
			case quotedNum:
				tags["filter:quoted-number-literal"] = true
			case (lit[0] == 's' || lit[0] == 'w') && (col == "i" || col == "m" || col == "f" || col == "x" || col == "b"):
				tags["filter:text-literal-vs-number-or-bool"] = true
			case col == "mt":
				tags["filter:column-mixing-numbers-and-text"] = true
			case col == "ns" && (lit[0] == 'i' || lit[0] == 'd'):
				tags["filter:number-vs-numeric-text"] = true
			}
		}
		if len(ip) == 2 && ip[0] == "t" && e2eNumStrRe.MatchString(unhexs(ip[1])) {
			tags["filter:numeric-free-text-term"] = true
		}
		if len(ip) == 2 && (ip[0] == "tc" || ip[0] == "pc") {
			tags["filter:case-sensitive-term-or-phrase"] = true
		}

		if len(ip) == 2 && (ip[0] == "p" || ip[0] == "pc") {
			tags["filter:phrase"] = true
		}
		if len(ip) == 4 && ip[1] == "msg" {
			tags["filter:multi-word-value-in-another-case"] = true
		}
	}
	for _, a := range q.aggs {
		if strings.HasPrefix(a, "count(") {
			tags["count-of-field"] = true
		}
		if strings.HasSuffix(a, "(mx)") || strings.HasSuffix(a, "(ns)") {
			tags["measure-over-mixed-or-numeric-text-column"] = true
		}
	}
	if q.kind == "tc" {
		tags["timechart"] = true
		if len(q.bys) > 0 {
			tags["timechart-by"] = true
		}
		if q.end > q.start && (q.end-q.start)%q.span == 0 {
			tags["tc-end-bound-on-grid"] = true
		}
	}
	for _, a := range q.aggs {
		if strings.HasPrefix(a, "dc(") {
			tags["distinct-count"] = true
			if a == "dc(big)" {
				tags["distinct-count-of-ints-beyond-2^53"] = true
			}
		}
	}
	for _, b := range q.bys {
		if b == "big" {
			tags["group-by-ints-beyond-2^53"] = true
		}
	}
}

// e2eCtlWords: the pieces (split at blank, tab, LF, CR) of the history's string values that touch a tab / LF / CR
func e2eCtlWords(f []string) map[string]bool {
	out := map[string]bool{}
	for _, t := range f {
		if !strings.HasPrefix(t, "ev/") {
			continue
		}
		p := strings.SplitN(t, "/", 4)
		if len(p) != 4 || p[3] == "-" {
			continue
		}
		for _, x := range strings.Split(p[3], ",") {
			y := strings.SplitN(x, "~", 2)
			if len(y) != 2 || len(y[1]) < 2 || y[1][0] != 's' {
				continue
			}
			v := unhexs(y[1][1:])
			if !strings.ContainsAny(v, "\t\n\r") {
				continue
			}
			for _, blankTok := range strings.Split(v, " ") {
				if strings.ContainsAny(blankTok, "\t\n\r") {
					for _, w := range strings.FieldsFunc(blankTok, func(c rune) bool { return c == '\t' || c == '\n' || c == '\r' }) {
						out[strings.ToLower(w)] = true
					}
				}
			}
		}
	}
	return out
}

// input-distribution tags of the history (first layout): block/segment shapes the generator aims at
func e2eHistoryTags(f []string) []string {
	type blk struct {
		lo, hi  uint64
		numCols map[string]bool // columns holding a JSON number
		strOnly map[string]bool // columns holding only numeric-looking strings
		strBad  map[string]bool
	}
	var out []string
	var segBlocks []blk
	var pending, batch []string
	seenNum := map[string]bool{}
	endSeg := func() {
		if n := len(segBlocks); n >= 3 {
			lo, hi := segBlocks[0].lo, segBlocks[n-1].hi
			for _, b := range segBlocks[1 : n-1] {
				if b.lo < lo || b.hi > hi {
					out = append(out, "middle-block-outside-first-last-span")
				}
			}
		}
		if len(segBlocks) >= 3 {
			out = append(out, "segment-of-3+-blocks")
		}
		segBlocks = nil
	}
	flush := func() {
		if len(pending) == 0 {
			return
		}
		b := blk{lo: ^uint64(0), numCols: map[string]bool{}, strOnly: map[string]bool{}, strBad: map[string]bool{}}
		for _, t := range pending {
			p := strings.SplitN(t, "/", 4)
			ts, _ := strconv.ParseUint(p[2], 10, 64)
			if ts < b.lo {
				b.lo = ts
			}
			if ts > b.hi {
				b.hi = ts
			}
			if p[3] == "-" {
				continue
			}
			for _, x := range strings.Split(p[3], ",") {
				y := strings.SplitN(x, "~", 2)
				if len(y) != 2 || y[1] == "" {
					continue
				}
				switch y[1][0] {
				case 'i', 'd':
					b.numCols[y[0]] = true
				case 's':
					raw, _ := hex.DecodeString(y[1][1:])
					if e2eNumStrRe.Match(raw) {
						b.strOnly[y[0]] = true
					} else {
						b.strBad[y[0]] = true
					}
				}
			}
		}
		for c := range b.strOnly {
			if !b.strBad[c] && !b.numCols[c] && seenNum[c] {
				out = append(out, "numeric-strings-only-block-after-number-block")
			}
			if !b.strBad[c] && b.numCols[c] {
				out = append(out, "numeric-strings-and-numbers-in-one-block")
			}
		}
		for c := range b.numCols {
			seenNum[c] = true
		}
		segBlocks = append(segBlocks, b)
		pending = nil
	}
	for _, t := range f {
		switch {
		case t == "H2" || t == "Q":
			endSeg()
			return out
		case t == "send":
			pending = append(pending, batch...)
			batch = nil
		case t == "fl":
			flush()
		case t == "ro":
			flush()
			endSeg()
		case strings.HasPrefix(t, "ev/"):
			batch = append(batch, t)
		}
	}
	return out
}
