package main

// End-to-end differential suites (C01–C06): one op line = config + ingest history + queries.
//   e2e <cfg…> H <history…> Q <query…>
//   cfg    : card=<n>
//   history: ev/<vid>/<ts>/<k~tv,…|->  send  fl  ro          tv ::= i<int> | d<dec> | s<hex> | b0 | b1 | z
//   query  : q/<from>/<size>/<start>/<end>/<filterRPN>[/<stage>]
//            filterRPN ::= item{,item}; item ::= all | c:<field>:<op>:<lit> | and | or | not ; lit ::= i… | d… | s<hex> | w<hex>
//            stage ::= recs | stats:<agg+agg>:<by+by|->
// Exec runs the history and the queries in a fresh worker process (one dataset per process) through
// the public entry points and prints one canonical segment per query; the Lean Oracle prints the
// SPECIFICATION's answer for the same line; lib/runner.py compares them (mode e2e).

import (
	"bytes"
	"encoding/hex"
	"encoding/json"
	"fmt"
	"math/big"
	"math/rand"
	"os"
	"os/exec"
	"sort"
	"strconv"
	"strings"
	"time"
)

func init() {
	for _, p := range []string{"c01", "c02", "c03", "c04", "c05"} {
		p := p
		register(&Suite{Name: "e2e_" + p, Parallel: 6,
			Gen:  func(r *rand.Rand, n int, tier string) []string { return genE2E(r, n, tier, p) },
			Exec: execE2E,
			Rule: "datasets of 1..40 events over typed columns (int, dyadic decimal, mixed, text, numeric text, sparse, bool, late) × random batch/flush/rotate histories × queries of profile " + p + "; each case runs in its own engine process; non-trivial = ≥3 events and ≥1 query"})
	}
}

type kv struct{ k, tv string }
type e2eEvent struct {
	vid    int
	ts     uint64
	fields []kv
}

var vocab = []string{"abc", "ABC", "abc def", "xyz", "foo bar", "x", "Hello", "zzz"}

func dyadic(r *rand.Rand) string {
	n := r.Intn(160) - 40
	d := []int{2, 4, 8}[r.Intn(3)]
	if n%d == 0 {
		n++
	}
	return strconv.FormatFloat(float64(n)/float64(d), 'g', -1, 64)
}

func hexs(s string) string { return hex.EncodeToString([]byte(s)) }

func genEvent(r *rand.Rand, vid int, ts uint64, profile string, late bool) e2eEvent {
	e := e2eEvent{vid: vid, ts: ts}
	add := func(k, tv string) { e.fields = append(e.fields, kv{k, tv}) }
	dense := profile == "c02" || profile == "c03" || profile == "c04"
	if dense || r.Intn(10) != 0 {
		v := int64(r.Intn(26) - 5)
		if profile == "c01" && r.Intn(8) == 0 {
			v = []int64{9007199254740993, -9007199254740993, 9223372036854775807, -9223372036854775808, 4294967296, 65536, 255, 256, -129}[r.Intn(9)]
		}
		add("i", fmt.Sprintf("i%d", v))
	}
	if dense || r.Intn(10) != 0 {
		add("f", "d"+dyadic(r))
	}
	if r.Intn(3) != 0 {
		if r.Intn(2) == 0 {
			add("m", fmt.Sprintf("i%d", r.Intn(12)))
		} else {
			add("m", "d"+dyadic(r))
		}
	}
	if dense || r.Intn(6) != 0 {
		add("s", "s"+hexs(vocab[r.Intn(len(vocab))]))
	}
	if r.Intn(3) == 0 {
		if r.Intn(2) == 0 {
			add("ns", "s"+hexs(strconv.Itoa(r.Intn(9))))
		} else {
			add("ns", "s"+hexs(dyadic(r)))
		}
	}
	if r.Intn(4) == 0 {
		add("x", fmt.Sprintf("i%d", r.Intn(5)))
	}
	if r.Intn(4) == 0 {
		add("b", fmt.Sprintf("b%d", r.Intn(2)))
	}
	if r.Intn(5) == 0 {
		add("g", "s"+hexs([]string{"red", "green", "blue"}[r.Intn(3)]))
	}
	if late {
		add("late", "s"+hexs(fmt.Sprintf("v%d", r.Intn(4))))
	}
	if r.Intn(12) == 0 {
		add("nul", "z")
	}
	if profile == "c01" {
		if r.Intn(4) == 0 {
			add("o.a", fmt.Sprintf("i%d", r.Intn(100)))
			add("o.b.c", "s"+hexs("deep"))
		}
		if r.Intn(6) == 0 {
			add("u", "s"+hexs([]string{"héllo wörld", "tab\there", `quote"back\slash`, "日本語", "emoji😀", "line\nbreak", ""}[r.Intn(7)]))
		}
		if r.Intn(7) == 0 { // numbers and text sharing a column
			if r.Intn(2) == 0 {
				add("t", fmt.Sprintf("i%d", r.Intn(50)))
			} else {
				add("t", "s"+hexs([]string{"text", "12", "3.5", "n/a"}[r.Intn(4)]))
			}
		}
		if r.Intn(5) == 0 { // high-cardinality column
			add("hc", "s"+hexs(fmt.Sprintf("id-%d-%d", vid, r.Intn(1000000))))
		}
	}
	return e
}

func (e e2eEvent) token() string {
	if len(e.fields) == 0 {
		return fmt.Sprintf("ev/%d/%d/-", e.vid, e.ts)
	}
	var p []string
	for _, f := range e.fields {
		p = append(p, f.k+"~"+f.tv)
	}
	return fmt.Sprintf("ev/%d/%d/%s", e.vid, e.ts, strings.Join(p, ","))
}

const e2eBase = uint64(1700000000000)

func genCmp(r *rand.Rand, profile string) string {
	return genCmpK(r, profile, r.Intn(9))
}

// comparisons over the dense columns i, f, s only
func genCmpDense(r *rand.Rand, profile string) string {
	return genCmpK(r, profile, []int{0, 1, 2, 4, 5, 7}[r.Intn(6)])
}

func genCmpK(r *rand.Rand, profile string, k int) string {
	ops := []string{"eq", "ne", "lt", "le", "gt", "ge"}
	if r.Intn(7) == 0 { // free-text term (single token, optionally with a trailing wildcard)
		w := []string{"abc", "ABC", "def", "xyz", "foo", "bar", "x", "hello", "zzz", "red", "nosuchword"}[r.Intn(11)]
		if r.Intn(5) == 0 && len(w) > 1 {
			w = w[:2] + "*"
		}
		return "t:" + hexs(w)
	}
	switch k {
	case 0, 1:
		return fmt.Sprintf("c:i:%s:i%d", ops[r.Intn(6)], r.Intn(26)-5)
	case 2:
		return fmt.Sprintf("c:f:%s:d%s", ops[r.Intn(6)], dyadic(r))
	case 3:
		if r.Intn(2) == 0 {
			return fmt.Sprintf("c:m:%s:d%s", ops[r.Intn(6)], dyadic(r))
		}
		return fmt.Sprintf("c:m:%s:i%d", ops[r.Intn(6)], r.Intn(12))
	case 4, 5:
		w := vocab[r.Intn(len(vocab))]
		kind := "s"
		if !strings.Contains(w, " ") && r.Intn(2) == 0 {
			kind = "w"
			if r.Intn(3) == 0 {
				w = w[:1] + "*"
			}
		}
		return fmt.Sprintf("c:s:%s:%s%s", ops[r.Intn(2)], kind, hexs(w))
	case 6:
		return fmt.Sprintf("c:x:%s:i%d", ops[r.Intn(6)], r.Intn(5))
	case 7:
		return fmt.Sprintf("c:f:%s:i%d", ops[r.Intn(6)], r.Intn(12)-2)
	default: // classes with known engine deviations (kept rare)
		switch r.Intn(3) {
		case 0:
			return fmt.Sprintf("c:i:%s:d%s", ops[r.Intn(6)], dyadic(r))
		case 1:
			return fmt.Sprintf("c:ns:%s:i%d", ops[r.Intn(6)], r.Intn(9))
		default:
			return fmt.Sprintf("c:g:%s:w%s", ops[r.Intn(2)], hexs([]string{"red", "green", "blue", "RED"}[r.Intn(4)]))
		}
	}
}

func genFilter(r *rand.Rand, depth int, profile string) string {
	if depth == 0 || r.Intn(4) == 0 {
		return genCmp(r, profile) // a single comparison over any column
	}
	return genBool(r, depth, profile, r.Intn(8) != 0)
}

// boolean combinations; dense=true keeps them over columns every event has (unambiguous semantics)
func genBool(r *rand.Rand, depth int, profile string, dense bool) string {
	leaf := func() string {
		if dense {
			return genCmpDense(r, profile)
		}
		return genCmp(r, profile)
	}
	sub := func() string {
		if depth <= 1 || r.Intn(2) == 0 {
			return leaf()
		}
		return genBool(r, depth-1, profile, dense)
	}
	switch r.Intn(5) {
	case 0, 1:
		return sub() + "," + sub() + ",and"
	case 2, 3:
		return sub() + "," + sub() + ",or"
	default:
		return sub() + ",not"
	}
}

func genE2E(r *rand.Rand, n int, tier, profile string) []string {
	var out []string
	for c := 0; c < n; c++ {
		nev := 1 + r.Intn(40)
		if r.Intn(5) == 0 {
			nev = 1 + r.Intn(6)
		}
		var toks []string
		card := []int{0, 0, 3, 5, 1000}[r.Intn(5)]
		toks = append(toks, "e2e")
		if card > 0 {
			toks = append(toks, fmt.Sprintf("card=%d", card))
		}
		toks = append(toks, "H")
		lateFrom := nev + 1
		if r.Intn(2) == 0 {
			lateFrom = r.Intn(nev + 1)
		}
		span := uint64(1 + r.Intn(20000))
		maxTs := e2eBase
		inBatch := 0
		for v := 1; v <= nev; v++ {
			var ts uint64
			switch r.Intn(4) {
			case 0: // ties
				ts = e2eBase + uint64(r.Intn(4))*1000
			default:
				ts = e2eBase + uint64(r.Int63n(int64(span)))
			}
			if ts > maxTs {
				maxTs = ts
			}
			toks = append(toks, genEvent(r, v, ts, profile, v >= lateFrom).token())
			inBatch++
			if r.Intn(4) == 0 || v == nev {
				toks = append(toks, "send")
				inBatch = 0
				if r.Intn(3) == 0 {
					toks = append(toks, "fl")
				}
				if r.Intn(9) == 0 {
					toks = append(toks, "ro")
				}
			}
		}
		if r.Intn(4) == 0 {
			toks = append(toks, "ro")
		} else {
			toks = append(toks, "fl")
		}
		if profile == "c03" {
			// the SAME events under a second, different layout (batching, flush/rotate placement, dictionary limit)
			toks = append(toks, "H2")
			if c2 := []int{0, 2, 4, 1000}[r.Intn(4)]; c2 > 0 {
				toks = append(toks, fmt.Sprintf("card=%d", c2))
			}
			var evs []string
			for _, t := range toks {
				if strings.HasPrefix(t, "ev/") {
					evs = append(evs, t)
				}
			}
			if r.Intn(3) == 0 {
				r.Shuffle(len(evs), func(i, j int) { evs[i], evs[j] = evs[j], evs[i] })
			}
			for i, t := range evs {
				toks = append(toks, t)
				if r.Intn(3) == 0 || i == len(evs)-1 {
					toks = append(toks, "send")
					if r.Intn(2) == 0 {
						toks = append(toks, "fl")
					}
					if r.Intn(6) == 0 {
						toks = append(toks, "ro")
					}
				}
			}
			if r.Intn(3) == 0 {
				toks = append(toks, "ro")
			} else {
				toks = append(toks, "fl")
			}
		}
		toks = append(toks, "Q")
		nq := 3 + r.Intn(6)
		start, end := e2eBase-1000, maxTs+1000
		for q := 0; q < nq; q++ {
			s, e := start, end
			if r.Intn(5) == 0 { // query range cutting through the data
				s = e2eBase + uint64(r.Int63n(int64(span)))
				e = s + uint64(r.Int63n(int64(span)))
			}
			switch profile {
			case "c01":
				toks = append(toks, fmt.Sprintf("q/0/1000/%d/%d/all/recs", s, e))
				if q >= 1 {
					q = nq
				}
			case "c02", "c03":
				fl := genFilter(r, 2, profile)
				if r.Intn(15) == 0 {
					fl = "all"
				}
				toks = append(toks, fmt.Sprintf("q/0/1000/%d/%d/%s", s, e, fl))
			case "c04":
				aggsAll := []string{"count", "sum.i", "min.i", "max.i", "avg.i", "sum.f", "min.f", "max.f", "avg.f", "sum.i", "max.f", "min.i", "count", "avg.f", "count", "sum.m", "max.m", "min.x", "avg.x"}
				na := 1 + r.Intn(3)
				var aggs []string
				seen := map[string]bool{}
				for len(aggs) < na {
					a := aggsAll[r.Intn(len(aggsAll))]
					if !seen[a] {
						seen[a] = true
						aggs = append(aggs, a)
					}
				}
				by := "-"
				switch r.Intn(8) {
				case 0, 1:
				case 2, 3, 4:
					by = "s"
				case 5:
					by = "g"
				case 6:
					by = "x"
				default:
					by = "g+b"
				}
				f := "all"
				if r.Intn(3) == 0 {
					f = fmt.Sprintf("c:i:%s:i%d", []string{"lt", "ge", "gt", "le"}[r.Intn(4)], r.Intn(20))
				}
				toks = append(toks, fmt.Sprintf("q/0/1000/%d/%d/%s/stats:%s:%s", s, e, f, strings.Join(aggs, "+"), by))
			case "c05":
				size := 1 + r.Intn(12)
				if r.Intn(2) == 0 {
					toks = append(toks, fmt.Sprintf("q/0/1000/%d/%d/all/pages:%d", start, end, size))
				} else {
					from := 0
					if r.Intn(2) == 0 {
						from = r.Intn(nev + 2)
					}
					toks = append(toks, fmt.Sprintf("q/%d/%d/%d/%d/all", from, size, start, end))
				}
			}
		}
		out = append(out, strings.Join(toks, " "))
	}
	return out
}

// ---------------------------------------------------------------- exec

func tvToJSON(tv string) (string, bool) {
	if tv == "" {
		return "", false
	}
	switch tv[0] {
	case 'i', 'd':
		return tv[1:], true
	case 's':
		b, err := hex.DecodeString(tv[1:])
		if err != nil {
			return "", false
		}
		j, _ := json.Marshal(string(b))
		return string(j), true
	case 'b':
		if tv == "b1" {
			return "true", true
		}
		return "false", true
	case 'z':
		return "null", true
	}
	return "", false
}

// nest dotted keys into objects (so that the engine's flattening is exercised)
func eventJSON(vid int, ts uint64, fields []kv, nest bool) (string, bool) {
	var sb strings.Builder
	fmt.Fprintf(&sb, `{"_vid":%d,"timestamp":%d`, vid, ts)
	type node struct {
		leaf     string
		children map[string]*node
		order    []string
	}
	root := &node{children: map[string]*node{}}
	for _, f := range fields {
		j, ok := tvToJSON(f.tv)
		if !ok {
			return "", false
		}
		parts := []string{f.k}
		if nest {
			parts = strings.Split(f.k, ".")
		}
		cur := root
		for i, p := range parts {
			ch, ok := cur.children[p]
			if !ok {
				ch = &node{children: map[string]*node{}}
				cur.children[p] = ch
				cur.order = append(cur.order, p)
			}
			if i == len(parts)-1 {
				ch.leaf = j
			}
			cur = ch
		}
	}
	var render func(n *node) string
	render = func(n *node) string {
		if len(n.children) == 0 {
			return n.leaf
		}
		var ps []string
		for _, k := range n.order {
			kj, _ := json.Marshal(k)
			ps = append(ps, string(kj)+":"+render(n.children[k]))
		}
		return "{" + strings.Join(ps, ",") + "}"
	}
	for _, k := range root.order {
		kj, _ := json.Marshal(k)
		sb.WriteString("," + string(kj) + ":" + render(root.children[k]))
	}
	sb.WriteString("}")
	return sb.String(), true
}

func litToSPL(l string) (string, bool) {
	if l == "" {
		return "", false
	}
	switch l[0] {
	case 'i', 'd':
		return l[1:], true
	case 's':
		b, err := hex.DecodeString(l[1:])
		if err != nil {
			return "", false
		}
		return `"` + string(b) + `"`, true
	case 'w':
		b, err := hex.DecodeString(l[1:])
		if err != nil {
			return "", false
		}
		return string(b), true
	}
	return "", false
}

func filterToSPL(rpn string) (string, bool) {
	var st []string
	opm := map[string]string{"eq": "=", "ne": "!=", "lt": "<", "le": "<=", "gt": ">", "ge": ">="}
	for _, it := range strings.Split(rpn, ",") {
		p := strings.Split(it, ":")
		switch {
		case it == "all":
			st = append(st, "*")
		case p[0] == "t" && len(p) == 2:
			b, err := hex.DecodeString(p[1])
			if err != nil {
				return "", false
			}
			st = append(st, string(b))
		case p[0] == "c" && len(p) == 4:
			lit, ok := litToSPL(p[3])
			op, ok2 := opm[p[2]]
			if !ok || !ok2 {
				return "", false
			}
			st = append(st, p[1]+op+lit)
		case it == "and" || it == "or":
			if len(st) < 2 {
				return "", false
			}
			a, b := st[len(st)-2], st[len(st)-1]
			st = st[:len(st)-2]
			st = append(st, "("+a+" "+strings.ToUpper(it)+" "+b+")")
		case it == "not":
			if len(st) < 1 {
				return "", false
			}
			st[len(st)-1] = "NOT (" + st[len(st)-1] + ")"
		default:
			return "", false
		}
	}
	if len(st) != 1 {
		return "", false
	}
	return st[0], true
}

type e2eQuery struct {
	from, size int
	start, end uint64
	spl        string
	kind       string // ids | recs | stats
	aggs       []string
	bys        []string
	pageSize   int
}

func parseE2EQuery(tok string) (q e2eQuery, ok bool) {
	p := strings.Split(tok, "/")
	if len(p) < 6 || p[0] != "q" {
		return
	}
	var err error
	if q.from, err = strconv.Atoi(p[1]); err != nil {
		return
	}
	if q.size, err = strconv.Atoi(p[2]); err != nil {
		return
	}
	if q.start, err = strconv.ParseUint(p[3], 10, 64); err != nil {
		return
	}
	if q.end, err = strconv.ParseUint(p[4], 10, 64); err != nil {
		return
	}
	f, fok := filterToSPL(p[5])
	if !fok {
		return
	}
	q.spl = f
	q.kind = "ids"
	for _, st := range p[6:] {
		sp := strings.Split(st, ":")
		switch {
		case st == "recs":
			q.kind = "recs"
		case sp[0] == "pages" && len(sp) == 2:
			q.kind = "pages"
			if q.pageSize, err = strconv.Atoi(sp[1]); err != nil || q.pageSize < 1 {
				return
			}
		case sp[0] == "stats" && len(sp) == 3:
			q.kind = "stats"
			var as []string
			for _, a := range strings.Split(sp[1], "+") {
				ap := strings.SplitN(a, ".", 2)
				if ap[0] == "count" {
					as = append(as, "count")
				} else if len(ap) == 2 {
					as = append(as, ap[0]+"("+ap[1]+")")
				} else {
					return
				}
			}
			q.aggs = as
			q.spl += " | stats " + strings.Join(as, ", ")
			if sp[2] != "-" {
				q.bys = strings.Split(sp[2], "+")
				q.spl += " by " + strings.Join(q.bys, ", ")
			}
		default:
			return
		}
	}
	return q, true
}

func canonNum(n json.Number) string {
	s := n.String()
	if !strings.ContainsAny(s, ".eE") {
		return "i" + s
	}
	f, err := strconv.ParseFloat(s, 64)
	if err != nil {
		return "?" + s
	}
	if f == float64(int64(f)) && f < 1e15 && f > -1e15 {
		return "i" + strconv.FormatInt(int64(f), 10)
	}
	return "d" + strconv.FormatFloat(f, 'g', -1, 64)
}

func canonVal(v interface{}) string {
	switch x := v.(type) {
	case json.Number:
		return canonNum(x)
	case string:
		return "s" + hexs(x)
	case bool:
		if x {
			return "b1"
		}
		return "b0"
	case nil:
		return "z"
	default:
		b, _ := json.Marshal(x)
		return "j" + hexs(string(b))
	}
}

func ratOf(v interface{}) string {
	switch x := v.(type) {
	case json.Number:
		s := x.String()
		if !strings.ContainsAny(s, ".eE") {
			return s
		}
		f, err := strconv.ParseFloat(s, 64)
		if err != nil {
			return "?" + s
		}
		r := new(big.Rat).SetFloat64(f)
		if r == nil {
			return "?" + s
		}
		if r.IsInt() {
			return r.Num().String()
		}
		return r.Num().String() + "/" + r.Denom().String()
	case string:
		if x == "" {
			return "none"
		}
		return "str:" + hexs(x)
	case nil:
		return "none"
	default:
		b, _ := json.Marshal(x)
		return "?" + string(b)
	}
}

func execE2E(line string) Result {
	f := strings.Fields(line)
	if len(f) < 3 || f[0] != "e2e" {
		return Result{Out: "bad-op"}
	}
	// optional second layout: e2e <cfg> H <hist> H2 <cfg2…> <hist2> Q <queries>
	h2 := -1
	qpos := -1
	for i, t := range f {
		if t == "H2" && h2 < 0 {
			h2 = i
		}
		if t == "Q" && qpos < 0 {
			qpos = i
		}
	}
	if h2 < 0 || qpos < 0 || h2 > qpos {
		return execE2ELayout(f)
	}
	first := append(append([]string{}, f[:h2]...), f[qpos:]...)
	r1 := execE2ELayout(first)
	// second layout: its own cfg tokens precede its history
	second := []string{"e2e"}
	j := h2 + 1
	for ; j < qpos && strings.Contains(f[j], "=") && !strings.HasPrefix(f[j], "ev/"); j++ {
		second = append(second, f[j])
	}
	second = append(second, "H")
	second = append(second, f[j:qpos]...)
	second = append(second, f[qpos:]...)
	r2 := execE2ELayout(second)
	r1.Fails = append(r1.Fails, r2.Fails...)
	// compare the two layouts query by query (ids as sets per query; stats rows as given)
	a, b := strings.Split(r1.Out, " | "), strings.Split(r2.Out, " | ")
	var diff []string
	if len(a) == len(b) {
		for qi := range a {
			if canonSeg(a[qi]) != canonSeg(b[qi]) {
				diff = append(diff, strconv.Itoa(qi))
			}
		}
	} else {
		diff = append(diff, "all")
	}
	r1.Out += " | kind=layoutdiff q=" + strings.Join(diff, ",")
	r1.Tags = append(r1.Tags, "two-layouts")
	return r1
}

// canonical form of one answer segment for layout-vs-layout comparison: ids sorted (ties may be ordered differently)
func canonSeg(seg string) string {
	if strings.HasPrefix(seg, "kind=ids ids=") {
		ids := strings.Split(strings.TrimPrefix(seg, "kind=ids ids="), ",")
		sort.Strings(ids)
		return "kind=ids ids=" + strings.Join(ids, ",")
	}
	return seg
}

func execE2ELayout(f []string) Result {
	if len(f) < 3 || f[0] != "e2e" {
		return Result{Out: "bad-op"}
	}
	var in bytes.Buffer
	i := 1
	for ; i < len(f) && f[i] != "H"; i++ {
		if strings.HasPrefix(f[i], "card=") {
			fmt.Fprintf(&in, "cfg card %s\n", f[i][5:])
		} else {
			return Result{Out: "bad-op"}
		}
	}
	if i >= len(f) {
		return Result{Out: "bad-op"}
	}
	i++
	var batch []string
	nev := 0
	for ; i < len(f) && f[i] != "Q"; i++ {
		t := f[i]
		switch {
		case t == "send":
			if len(batch) > 0 {
				fmt.Fprintf(&in, "batch %s\n", strings.Join(batch, " "))
			}
			batch = nil
		case t == "fl":
			in.WriteString("flush\n")
		case t == "ro":
			in.WriteString("rotate\n")
		case strings.HasPrefix(t, "ev/"):
			p := strings.SplitN(t, "/", 4)
			if len(p) != 4 {
				return Result{Out: "bad-op"}
			}
			vid, e1 := strconv.Atoi(p[1])
			ts, e2 := strconv.ParseUint(p[2], 10, 64)
			if e1 != nil || e2 != nil {
				return Result{Out: "bad-op"}
			}
			var fields []kv
			if p[3] != "-" {
				for _, x := range strings.Split(p[3], ",") {
					y := strings.SplitN(x, "~", 2)
					if len(y) != 2 {
						return Result{Out: "bad-op"}
					}
					fields = append(fields, kv{y[0], y[1]})
				}
			}
			js, ok := eventJSON(vid, ts, fields, vid%2 == 0)
			if !ok {
				return Result{Out: "bad-op"}
			}
			batch = append(batch, hexs(js))
			nev++
		default:
			return Result{Out: "bad-op"}
		}
	}
	if i >= len(f) {
		return Result{Out: "bad-op"}
	}
	var qs []e2eQuery
	nAnswers := 0
	for _, t := range f[i+1:] {
		q, ok := parseE2EQuery(t)
		if !ok {
			return Result{Out: "bad-op"}
		}
		qs = append(qs, q)
		if q.kind == "pages" {
			// page through the whole result: from = 0, k, 2k, … (one page more than needed to see the end)
			np := nev/q.pageSize + 2
			for pg := 0; pg < np; pg++ {
				fmt.Fprintf(&in, "q %d %d %d %d %s\n", pg*q.pageSize, q.pageSize, q.start, q.end, hexs(q.spl))
			}
			nAnswers += np
		} else {
			fmt.Fprintf(&in, "q %d %d %d %d %s\n", q.from, q.size, q.start, q.end, hexs(q.spl))
			nAnswers++
		}
	}
	// run the worker
	cmd := exec.Command(os.Args[0], "e2eworker")
	cmd.Stdin = &in
	var stdout bytes.Buffer
	cmd.Stdout = &stdout
	var stderr bytes.Buffer
	cmd.Stderr = &stderr
	cmd.Env = append(os.Environ(), "GOMEMLIMIT=2GiB", "GOMAXPROCS=4")
	done := make(chan error, 1)
	if err := cmd.Start(); err != nil {
		return Result{Out: "worker-start-failed"}
	}
	go func() { done <- cmd.Wait() }()
	var werr error
	select {
	case werr = <-done:
	case <-time.After(120 * time.Second):
		cmd.Process.Kill()
		<-done
		return Result{Out: "worker-timeout", Fails: []PropFail{{Sig: "e2e-worker/timeout", Msg: "engine worker did not finish within 120 s"}}, Nontrivial: true}
	}
	lines := strings.Split(strings.TrimSpace(stdout.String()), "\n")
	var resLines []string
	for _, l := range lines {
		if strings.HasPrefix(l, "{") && !strings.HasPrefix(l, `{"ingesterr"`) {
			resLines = append(resLines, l)
		}
	}
	if werr != nil || len(resLines) != nAnswers {
		// classify by the panic site: first frame inside the repository's pkg/ tree
		site, pmsg := "unknown", ""
		el := strings.Split(stderr.String(), "\n")
		for li, l := range el {
			if pmsg == "" && (strings.HasPrefix(l, "panic:") || strings.HasPrefix(l, "fatal error:")) {
				pmsg = trunc(l, 200)
			}
			if pmsg != "" && strings.Contains(l, "/pkg/") && strings.HasPrefix(l, "\t") && li > 0 {
				fn := strings.TrimSpace(el[li-1])
				if k := strings.LastIndex(fn, "("); k > 0 {
					fn = fn[:k]
				}
				if k := strings.LastIndex(fn, "/"); k >= 0 {
					fn = fn[k+1:]
				}
				site = fn
				break
			}
		}
		return Result{Out: fmt.Sprintf("worker-died err=%v answers=%d/%d", werr, len(resLines), nAnswers),
			Fails: []PropFail{{Sig: "e2e-worker/crash/" + site, Msg: fmt.Sprintf("engine worker exited abnormally (%v) after %d of %d answers: %s at %s", werr, len(resLines), nAnswers, pmsg, site)}}, Nontrivial: true}
	}
	var segs []string
	ri := 0
	for _, q := range qs {
		if q.kind == "pages" {
			np := nev/q.pageSize + 2
			var pages []string
			for pg := 0; pg < np; pg++ {
				dec := json.NewDecoder(strings.NewReader(resLines[ri]))
				ri++
				dec.UseNumber()
				var resp map[string]interface{}
				if err := dec.Decode(&resp); err != nil {
					pages = append(pages, "undecodable")
					continue
				}
				if e, ok := resp["err"].(string); ok && e != "" {
					pages = append(pages, "error")
					continue
				}
				recs, _ := resp["recs"].([]interface{})
				var parts []string
				for _, r := range recs {
					m, _ := r.(map[string]interface{})
					vid, ts := "?", "?"
					if v, ok := m["_vid"].(json.Number); ok {
						vid = v.String()
					}
					if v, ok := m["timestamp"].(json.Number); ok {
						ts = v.String()
					}
					parts = append(parts, vid+"@"+ts)
				}
				pages = append(pages, strings.Join(parts, ","))
			}
			segs = append(segs, "kind=pages pages="+strings.Join(pages, ";"))
			continue
		}
		dec := json.NewDecoder(strings.NewReader(resLines[ri]))
		ri++
		dec.UseNumber()
		var resp map[string]interface{}
		if err := dec.Decode(&resp); err != nil {
			segs = append(segs, "kind=undecodable")
			continue
		}
		if e, ok := resp["err"].(string); ok && e != "" {
			segs = append(segs, "kind=error err="+hexs(trunc(e, 200)))
			continue
		}
		recs, _ := resp["recs"].([]interface{})
		switch q.kind {
		case "ids", "recs":
			var parts []string
			for _, r := range recs {
				m, _ := r.(map[string]interface{})
				vid := "?"
				ts := "?"
				if v, ok := m["_vid"].(json.Number); ok {
					vid = v.String()
				}
				if v, ok := m["timestamp"].(json.Number); ok {
					ts = v.String()
				}
				if q.kind == "ids" {
					parts = append(parts, vid+"@"+ts)
					continue
				}
				var keys []string
				for k := range m {
					if k != "_vid" && k != "timestamp" && k != "_index" {
						keys = append(keys, k)
					}
				}
				sort.Strings(keys)
				var fs []string
				for _, k := range keys {
					cv := canonVal(m[k])
					if cv == "z" {
						continue
					}
					fs = append(fs, k+"="+cv)
				}
				parts = append(parts, vid+"@"+ts+"{"+strings.Join(fs, ",")+"}")
			}
			sep := ","
			key := "ids"
			if q.kind == "recs" {
				sep = ";"
				key = "recs"
			}
			segs = append(segs, fmt.Sprintf("kind=%s %s=%s", q.kind, key, strings.Join(parts, sep)))
		case "stats":
			meas, _ := resp["measure"].([]interface{})
			var rows []string
			// the response lists group values in the order of its groupByCols; put them into query order
			gcols, _ := resp["groupByCols"].([]interface{})
			perm := []int{}
			for _, b := range q.bys {
				for gi, gc := range gcols {
					if fmt.Sprint(gc) == b {
						perm = append(perm, gi)
					}
				}
			}
			for _, mr := range meas {
				m, _ := mr.(map[string]interface{})
				gv, _ := m["GroupByValues"].([]interface{})
				var ks []string
				for _, g := range gv {
					ks = append(ks, fmt.Sprint(g))
				}
				mv, _ := m["MeasureVal"].(map[string]interface{})
				var vals []string
				for _, a := range q.aggs {
					name := a
					if a == "count" {
						name = "count(*)"
					}
					v, ok := mv[name]
					if !ok {
						vals = append(vals, "missing")
					} else {
						vals = append(vals, ratOf(v))
					}
				}
				if len(q.bys) == 0 || (len(ks) == 1 && ks[0] == "*") {
					ks = nil
				} else if len(perm) == len(ks) && len(perm) == len(q.bys) {
					re := make([]string, len(ks))
					for qi2, gi := range perm {
						re[qi2] = ks[gi]
					}
					ks = re
				}
				rows = append(rows, hexs(strings.Join(ks, "\x1f"))+"="+strings.Join(vals, ";"))
			}
			sort.Strings(rows)
			segs = append(segs, "kind=stats rows="+strings.Join(rows, ","))
		}
	}
	return Result{Out: strings.Join(segs, " | "), Nontrivial: nev >= 3 && len(qs) >= 1, Tags: []string{fmt.Sprintf("events<=%d", (nev/10+1)*10), fmt.Sprintf("queries=%d", len(qs))}}
}
