package main

// suite "binalign" (property C04): the bucket arithmetic of the new-pipeline `bin span=<n><unit> [aligntime=T] timestamp`
// (pkg/segment/query/processor/bincommand.go: performBinWithSpanTime → getTimeBucketWithAlign).
// Model: lean/SigModel/Model/BinAlign.lean (floor semantics on the grid T + k·span), handler lean/Oracle/C04B.lean;
// the kernel itself is regenerated into lean/SigModel/Gen/BinAlign.lean and proved equal to the model (Props/C04.lean bin_align_*).
//
// Op lines:
//
//	binb <unit> <num> <align|-> <ts>                       kernel level (overlay hooks VerifC04BBinTime / VerifC04BKernel)
//	      → b=<bucket of performBinWithSpanTime> k=<bucket of getTimeBucketWithAlign>
//	binq <abs:T|rel:text> <unit> <num> <sizes> <deltas>    query level: `* | bin span=<num><unit> aligntime=<T|text> timestamp` through the real
//	      parser, AggsToDataProcessors, the bin DataProcessor fed with the events T+delta (T = the align time the parser resolved) in
//	      batches of the given sizes → r=<bucket−T of every row, in order>
//
// unit ∈ ms cs ds s m h; all times epoch milliseconds.  Direct property checks (C04: every event is counted in exactly the bucket whose
// span contains its timestamp): bucket ≤ ts < bucket+span; bucket on the grid of T (or the clamped 0); per bucket value the number of rows
// equals the number of events whose timestamp lies in its span.

import (
	"fmt"
	"io"
	"math/rand"
	"sort"
	"strconv"
	"strings"
	"sync"
	"time"

	"github.com/siglens/siglens/pkg/ast/pipesearch"
	"github.com/siglens/siglens/pkg/config"
	"github.com/siglens/siglens/pkg/segment/query"
	"github.com/siglens/siglens/pkg/segment/query/iqr"
	"github.com/siglens/siglens/pkg/segment/query/processor"
	"github.com/siglens/siglens/pkg/segment/structs"
	sutils "github.com/siglens/siglens/pkg/segment/utils"
)

func init() {
	register(&Suite{Name: "binalign", Gen: c04bGen, Exec: c04bExec,
		Rule: "bin on the timestamp field with span 1..90 units of ms/cs/ds/s/m/h and an align time (absolute epoch, small epoch near 0, relative -24h / @d / @h / -90m / -7d@d, or none): timestamps k spans below / exactly at / above the align time, on cell edges (offset 0, 1, span-1) and inside cells; kernel level (every num) and query level (real parser, DataProcessor, batches of 1..4 events on both sides of T); non-trivial = align time given and span > 1 ms"})
}

type c04bUnit struct {
	name  string
	ms    int64
	scale time.Duration
	tu    sutils.TimeUnit
	nums  []int64 // spans the parser accepts
}

var c04bUnits = []c04bUnit{
	{"ms", 1, time.Millisecond, sutils.TMMillisecond, []int64{1, 2, 5, 10, 20, 50, 100, 250, 500}},
	{"cs", 10, 10 * time.Millisecond, sutils.TMCentisecond, []int64{1, 2, 5, 10, 20, 50}},
	{"ds", 100, 100 * time.Millisecond, sutils.TMDecisecond, []int64{1, 2, 5}},
	{"s", 1000, time.Second, sutils.TMSecond, []int64{1, 2, 3, 5, 7, 10, 15, 30, 45, 90}},
	{"m", 60000, time.Minute, sutils.TMMinute, []int64{1, 2, 3, 5, 7, 10, 15, 30, 45, 90}},
	{"h", 3600000, time.Hour, sutils.TMHour, []int64{1, 2, 3, 4, 6, 7, 12, 24, 36}},
}

func c04bUnitOf(name string) (c04bUnit, bool) {
	for _, u := range c04bUnits {
		if u.name == name {
			return u, true
		}
	}
	return c04bUnit{}, false
}

const c04bQid = uint64(9040402)

var c04bOnce sync.Once

const c04bBase = int64(1720311600000) // 2024-07-07 00:20:00 UTC

var c04bRel = []string{"-24h", "@d", "@h", "-90m", "-7d@d", "-3h@h", "-45s"}

// timestamps around T: k spans away (k<0: before the align time), at a cell edge or inside the cell
func c04bDelta(r *rand.Rand, span int64, kmax int) int64 {
	k := int64(r.Intn(2*kmax+1) - kmax)
	if r.Intn(12) == 0 {
		return 0 // exactly at the align time
	}
	var off int64
	switch r.Intn(5) {
	case 0:
		off = 0
	case 1:
		off = 1
	case 2:
		off = span - 1
	default:
		off = r.Int63n(span)
	}
	if off >= span {
		off = span - 1
	}
	return k*span + off
}

func c04bGen(r *rand.Rand, n int, tier string) []string {
	var out []string
	for len(out) < n {
		u := c04bUnits[r.Intn(len(c04bUnits))]
		switch x := r.Intn(100); {
		case x < 2: // malformed
			out = append(out, []string{"binb s 5 100", "binb w 5 100 7", "binq abs:5 s 0 1 1", "binb s x - 5", "binq rel s 5 1 0", "binb s 5 -3 9"}[r.Intn(6)])
		case x < 55: // kernel level: every positive num
			num := int64(1 + r.Intn(90))
			if r.Intn(3) == 0 {
				num = u.nums[r.Intn(len(u.nums))]
			}
			span := num * u.ms
			switch y := r.Intn(20); {
			case y < 3: // no align time
				// events of the present only: without an align time the code truncates from Go's zero time (year 1), so the
				// cell of an event within one span of 1970-01-01 may start before the epoch (negative, not clamped) — not judged
				ts := c04bBase + r.Int63n(86400000*3)
				if r.Intn(4) == 0 {
					ts = (c04bBase/span)*span + []int64{0, 1, span - 1}[r.Intn(3)]
				}
				out = append(out, fmt.Sprintf("binb %s %d - %d", u.name, num, ts))
			default:
				T := c04bBase + r.Int63n(86400000)
				if y < 6 { // an align time near 0: cells whose left edge would be negative
					T = r.Int63n(3*span + 1)
				} else if y < 9 { // on a multiple of the span
					T = (c04bBase / span) * span
				}
				ts := T + c04bDelta(r, span, 5)
				if ts < 0 {
					ts = r.Int63n(span + 1)
				}
				out = append(out, fmt.Sprintf("binb %s %d %d %d", u.name, num, T, ts))
			}
		default: // query level
			num := u.nums[r.Intn(len(u.nums))]
			span := num * u.ms
			spec := ""
			minDelta := int64(-1) << 60
			switch y := r.Intn(10); {
			case y < 4:
				spec = fmt.Sprintf("abs:%d", c04bBase+r.Int63n(86400000))
			case y < 5:
				T := r.Int63n(3*span + 1)
				spec = fmt.Sprintf("abs:%d", T)
				minDelta = -T
			default:
				spec = "rel:" + c04bRel[r.Intn(len(c04bRel))]
			}
			cnt := 4 + r.Intn(9)
			var ds []string
			for i := 0; i < cnt; i++ {
				d := c04bDelta(r, span, 4)
				if i == 0 && span > 1 { // by construction: an event before T that is not a whole number of spans away …
					d = -int64(1+r.Intn(3))*span + 1 + r.Int63n(span-1)
				}
				if i == 1 { // … and one after it
					d = int64(r.Intn(3))*span + r.Int63n(span)
				}
				if d < minDelta {
					d = minDelta + r.Int63n(span)
				}
				ds = append(ds, strconv.FormatInt(d, 10))
			}
			r.Shuffle(len(ds), func(i, j int) { ds[i], ds[j] = ds[j], ds[i] })
			var sizes []string
			for left := cnt; left > 0; {
				s := 1 + r.Intn(4)
				if s > left {
					s = left
				}
				sizes = append(sizes, strconv.Itoa(s))
				left -= s
			}
			out = append(out, fmt.Sprintf("binq %s %s %d %s %s", spec, u.name, num, strings.Join(sizes, ","), strings.Join(ds, ",")))
		}
	}
	return out
}

func c04bPos(ts, T int64, aligned bool) string {
	switch {
	case !aligned:
		return "no-align"
	case ts < T:
		return "before-align"
	case ts == T:
		return "at-align"
	}
	return "after-align"
}

// the property statement on one (timestamp, bucket) pair
func c04bJudge(site string, span, T int64, aligned bool, ts, b int64) []PropFail {
	var fails []PropFail
	pos := c04bPos(ts, T, aligned)
	if !(b <= ts && ts < b+span) {
		fails = append(fails, PropFail{Sig: "binalign/" + site + "/" + pos + "/timestamp-outside-its-bucket",
			Msg: fmt.Sprintf("span=%dms aligntime=%d: timestamp %d (aligntime%+d) was put into bucket %d = [%d, %d), which does not contain it", span, T, ts, ts-T, b, b, b+span)})
	} else if aligned && b != 0 && ((b-T)%span+span)%span != 0 {
		fails = append(fails, PropFail{Sig: "binalign/" + site + "/" + pos + "/bucket-off-grid",
			Msg: fmt.Sprintf("span=%dms aligntime=%d: bucket %d of timestamp %d is not on the grid aligntime + k*span", span, T, b, ts)})
	}
	return fails
}

type c04bStream struct {
	batches [][]uint64
	next    int
}

func (s *c04bStream) Fetch() (*iqr.IQR, error) {
	if s.next >= len(s.batches) {
		return nil, io.EOF
	}
	b := s.batches[s.next]
	s.next++
	col := make([]sutils.CValueEnclosure, len(b))
	for i, ts := range b {
		col[i] = sutils.CValueEnclosure{Dtype: sutils.SS_DT_UNSIGNED_NUM, CVal: ts}
	}
	q := iqr.NewIQR(0)
	if err := q.AppendKnownValues(map[string][]sutils.CValueEnclosure{config.GetTimeStampKey(): col}); err != nil {
		return nil, err
	}
	return q, nil
}
func (s *c04bStream) Rewind()        { s.next = 0 }
func (s *c04bStream) Cleanup()       {}
func (s *c04bStream) String() string { return "<c04b replay>" }

func c04bInts(s string) ([]int64, bool) {
	var res []int64
	for _, p := range strings.Split(s, ",") {
		v, err := strconv.ParseInt(p, 10, 64)
		if err != nil {
			return nil, false
		}
		res = append(res, v)
	}
	return res, true
}

func c04bExec(line string) Result {
	f := strings.Fields(line)
	bad := Result{Out: "bad-op"}
	if len(f) == 0 {
		return bad
	}
	switch f[0] {
	case "binb":
		if len(f) != 5 {
			return bad
		}
		u, ok := c04bUnitOf(f[1])
		num, err1 := strconv.ParseInt(f[2], 10, 64)
		ts, err2 := strconv.ParseInt(f[4], 10, 64)
		if !ok || err1 != nil || err2 != nil || num <= 0 || ts < 0 {
			return bad
		}
		var align *uint64
		T := int64(0)
		if f[3] != "-" {
			a, err := strconv.ParseUint(f[3], 10, 62)
			if err != nil {
				return bad
			}
			align = &a
			T = int64(a)
		}
		span := num * u.ms
		res := Result{Nontrivial: align != nil && span > 1}
		b, err := processor.VerifC04BBinTime(float64(ts), u.tu, float64(num), align)
		if err != nil {
			res.Out = "err"
			return res
		}
		k := processor.VerifC04BKernel(ts, u.scale, float64(num), align)
		res.Out = fmt.Sprintf("b=%d k=%d", b, k)
		res.Fails = c04bJudge("kernel", span, T, align != nil, ts, int64(b))
		pos := c04bPos(ts, T, align != nil)
		res.Tags = []string{"level=kernel", "pos=" + pos, "unit=" + u.name}
		if align != nil {
			if (ts-T)%span == 0 {
				res.Tags = append(res.Tags, "edge=on-grid")
			} else {
				res.Tags = append(res.Tags, "edge=inside-cell")
			}
			if T < span {
				res.Tags = append(res.Tags, "align=near-zero")
			}
		}
		return res
	case "binq":
		if len(f) != 6 {
			return bad
		}
		u, ok := c04bUnitOf(f[2])
		num, err1 := strconv.ParseInt(f[3], 10, 64)
		sizes, ok2 := c04bInts(f[4])
		deltas, ok3 := c04bInts(f[5])
		if !ok || err1 != nil || num <= 0 || !ok2 || !ok3 {
			return bad
		}
		total := int64(0)
		for _, s := range sizes {
			if s <= 0 {
				return bad
			}
			total += s
		}
		if total != int64(len(deltas)) {
			return bad
		}
		kind, arg, found := strings.Cut(f[1], ":")
		if !found || (kind != "abs" && kind != "rel") || arg == "" {
			return bad
		}
		if kind == "abs" {
			if _, err := strconv.ParseUint(arg, 10, 62); err != nil {
				return bad
			}
		}
		span := num * u.ms
		c04bOnce.Do(func() { config.SetTimeStampKey("timestamp") })
		spl := fmt.Sprintf("* | bin span=%d%s aligntime=%s timestamp", num, u.name, arg)
		_, aggs, _, err := pipesearch.ParseQuery(spl, c04bQid, "Splunk QL")
		var opts *structs.BinCmdOptions
		for a := aggs; err == nil && a != nil; a = a.Next {
			if a.BinExpr != nil {
				opts = a.BinExpr
			}
		}
		res := Result{Nontrivial: span > 1}
		res.Tags = []string{"level=query", "unit=" + u.name, "align=" + kind}
		if opts == nil || opts.AlignTime == nil {
			res.Out = "err=parse"
			return res
		}
		T := int64(*opts.AlignTime)
		if kind == "abs" {
			if want, _ := strconv.ParseInt(arg, 10, 64); want != T {
				res.Out = fmt.Sprintf("err=aligntime-parsed-as-%d", T)
				return res
			}
		}
		var tss []int64
		for _, d := range deltas {
			if T+d < 0 {
				return bad
			}
			tss = append(tss, T+d)
		}
		src := &c04bStream{}
		i := 0
		for _, s := range sizes {
			var b []uint64
			for j := int64(0); j < s; j++ {
				b = append(b, uint64(tss[i]))
				i++
			}
			src.batches = append(src.batches, b)
		}
		chain := processor.AggsToDataProcessors(aggs, &query.QueryInformation{})
		var dp *processor.DataProcessor
		for _, c := range chain {
			if processor.VerifC04BName(c) == "bin" {
				dp = c
			}
		}
		if dp == nil {
			res.Out = "err=no-bin-processor"
			return res
		}
		dp.SetStreams([]*processor.CachedStream{processor.NewCachedStream(src)})
		var got []int64
		for rounds := 0; rounds < 1000; rounds++ {
			out, err := dp.Fetch()
			if err != nil && err != io.EOF {
				res.Out = "err=fetch"
				return res
			}
			if out != nil && out.NumberOfRecords() > 0 {
				col, rerr := out.ReadColumn(config.GetTimeStampKey())
				if rerr != nil {
					res.Out = "err=read"
					return res
				}
				for _, v := range col {
					b, cerr := v.GetUIntValue()
					if cerr != nil {
						res.Out = "err=value"
						return res
					}
					got = append(got, int64(b))
				}
			}
			if err == io.EOF {
				break
			}
		}
		var parts []string
		for _, b := range got {
			parts = append(parts, strconv.FormatInt(b-T, 10))
		}
		res.Out = "r=" + strings.Join(parts, ",")
		// the property statement: row i is event i (bin keeps the rows in place), each inside its bucket; and per bucket
		// the number of rows = the number of events with their timestamp in the bucket's span
		before, after := 0, 0
		for _, ts := range tss {
			if ts < T && (T-ts)%span != 0 {
				before++
			}
			if ts >= T {
				after++
			}
		}
		if before > 0 && after > 0 {
			res.Tags = append(res.Tags, "events=both-sides-of-T")
		} else {
			res.Tags = append(res.Tags, "events=one-side")
		}
		res.Tags = append(res.Tags, fmt.Sprintf("batches=%d", len(sizes)))
		if len(got) == len(tss) {
			seen := map[string]bool{}
			for i, ts := range tss {
				for _, pf := range c04bJudge("query", span, T, true, ts, got[i]) {
					pf.Msg = "`" + spl + "` " + pf.Msg
					if !seen[pf.Sig] {
						seen[pf.Sig] = true
						res.Fails = append(res.Fails, pf)
					}
				}
			}
			cnt := map[int64]int{}
			for _, b := range got {
				cnt[b]++
			}
			var bs []int64
			for b := range cnt {
				bs = append(bs, b)
			}
			sort.Slice(bs, func(i, j int) bool { return bs[i] < bs[j] })
			for _, b := range bs {
				in := 0
				hi := b + span
				if b == 0 && T%span != 0 { // the clamped cell: its right edge is the first grid point above 0
					hi = T % span
				}
				for _, ts := range tss {
					if b <= ts && ts < hi {
						in++
					}
				}
				if in != cnt[b] && !seen["binalign/query/count-by-bucket-differs"] {
					seen["binalign/query/count-by-bucket-differs"] = true
					res.Fails = append(res.Fails, PropFail{Sig: "binalign/query/count-by-bucket-differs",
						Msg: fmt.Sprintf("`%s | stats count by timestamp`: bucket aligntime%+d holds %d events, %d events have their timestamp in its span", spl, b-T, cnt[b], in)})
				}
			}
		} else {
			res.Fails = append(res.Fails, PropFail{Sig: "binalign/query/rows-lost-or-added", Msg: fmt.Sprintf("`%s`: %d events in, %d rows out", spl, len(tss), len(got))})
		}
		return res
	}
	return bad
}
