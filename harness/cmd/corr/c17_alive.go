// C17 — "… the server answers with results or an error in bounded time and THE PROCESS KEEPS RUNNING" (suite "alive").
//
// The property statement itself, on the running server, with no model in between: a real siglens server
// (cmd/startup.Main in a child process, see c17_alive_worker.go — the recipe of the C19 suite "confine") holds a small
// data set (an index, metrics, a trace, a dashboard, a folder, a saved query, an alert, a contact point, a lookup
// file).  Every op line is ONE request to one of the routes of pkg/server/query/server.go or
// pkg/server/ingest/server.go (table c17aRoutes in c17_alive_routes.go): a valid request of that route, mutated
// structurally (see c17aGenLine), or a query text of one of the query languages — the generator of suite "parsers"
// for Splunk QL / SQL / PromQL, fragments for Pipe QL, Log QL, the Elasticsearch query DSL and the OpenTSDB metric
// expression — carried by the route that takes it.  The PARENT sends the bytes over TCP and then asserts
//
//	(1) an answer arrived within c17aAnswerDeadline (any status: 4xx / 5xx are fine) — else, when the request repeated alone
//	    against a fresh server is not answered within c17aConfirmDeadline either, `alive/<route>/no-answer`;
//	(2) the server process has not exited                                              — else `alive/<route>/process-died/<site>`;
//	(3) a trivial search on the bootstrap index is answered with status 200 in time    — else `…/no-answer` / `…/process-died`.
//
// <site> is the first function of the server's own code in the goroutine trace the dying process wrote to stderr (or
// `fatal-log` for a log.Fatal).  After a death or a hang the server is replaced by a fresh one (new sandbox) and the
// run goes on.  A death noticed only at the START of a line (the process died after answering the previous request and
// its probe) is reported on that line as `alive/<previous route>/process-died-late/<site>` with the previous requests
// as witness.
//
//	rq <i|q> <route id> <hex of the request bytes>          one HTTP/1.1 request, sent as it is
//	sq <i|q> <route id> <hex> <i|q>:<hex> | w:<ms> …         the same, after the requests that PREPARE it (stored data that a later read meets;
//	                                                         w = a pause in which the server's background loops run), then the flush calls
//	ws <route id> <hex of the JSON text frame>               websocket routes: upgrade, one text frame, read until closed
//	om <hex text> / ot <hex text>                            the OpenTSDB `m=` / time parsers against their Lean model (Model/OtsdbQuery.lean)
//	gl <terminal state> <route id> <hex>                     a query steered into a terminal state; afterwards no goroutine / table entry of it remains (c17_alive_gor.go)
//
// Tokens in a request (same length as what replaces them, so Content-Length stays right): ids of the bootstrap's
// objects, 36 bytes each (c17aTokens).  Output line: `ok` (rq / ws: the Lean side checks the op-line grammar only).
package main

import (
	"bufio"
	"bytes"
	crand "crypto/rand"
	"encoding/binary"
	"encoding/hex"
	"encoding/json"
	"fmt"
	"io"
	"math/rand"
	"net"
	"os"
	"os/exec"
	"path/filepath"
	"regexp"
	"strconv"
	"strings"
	"sync"
	"sync/atomic"
	"syscall"
	"time"

	otsdbquery "github.com/siglens/siglens/pkg/integrations/otsdb/query"
	sutils "github.com/siglens/siglens/pkg/segment/utils"
)

var c17aWorkers = 4

const c17aAnswerDeadline = 15 * time.Second
const c17aProbeDeadline = 10 * time.Second
const c17aConfirmDeadline = 45 * time.Second // a request that was not answered, repeated alone against a fresh server

func init() {
	if os.Getenv("C17A_ONE") != "" { // one server, lines in order: a run that can be repeated exactly
		c17aWorkers = 1
	}
	register(&Suite{Name: "alive", Gen: c17aGen, Exec: c17aExec, Parallel: c17aWorkers,
		Rule: "one request per line to a real server process (cmd/startup.Main, both HTTP servers): every route of the ingest and query routers, valid requests mutated structurally + query texts of every language through the routes that carry them; after every request: answered in time, process alive, trivial search answered; non-trivial = the request differs from the route's valid template"})
}

// ---------------------------------------------------------------- sandbox + server process

type c17aSB struct {
	root, inst   string
	iport, qport string
	cmd          *exec.Cmd
	stdin        io.WriteCloser
	lines        chan string
	exited       chan struct{} // closed when the process is gone
	stderr       *c17aTail
	ids          map[string]string // token → id of a bootstrap object
	dead         bool
	recent       []string // the last requests sent to this server (route + size), newest last
	lastRoute    string
	esVersion    string
	nreq         int
	bin          string   // the worker's binary ("" = this one; the suite alivepar also runs a -race build)
	extra        []string // further arguments of the worker (c17_alive_worker.go)
	env          []string
}

// the last bytes a process wrote to stderr
type c17aTail struct {
	mu  sync.Mutex
	buf []byte
}

func (t *c17aTail) Write(p []byte) (int, error) {
	t.mu.Lock()
	t.buf = append(t.buf, p...)
	if len(t.buf) > 1<<18 {
		t.buf = append([]byte(nil), t.buf[len(t.buf)-(1<<17):]...)
	}
	t.mu.Unlock()
	return len(p), nil
}

func (t *c17aTail) String() string {
	t.mu.Lock()
	defer t.mu.Unlock()
	return string(t.buf)
}

var c17aAll []*c17aSB
var c17aAllMu sync.Mutex

func c17aFreePort() string {
	l, err := net.Listen("tcp", "127.0.0.1:0")
	if err != nil {
		return "0"
	}
	defer l.Close()
	return fmt.Sprint(l.Addr().(*net.TCPAddr).Port)
}

func c17aNewSB() (*c17aSB, error) { return c17aNewSBWith("", nil, nil, true) }

// c17aNewSBWith: a server of its own; boot = with the data set of suite alive (else empty: suites alivefx / alivepar
// create what a line needs)
func c17aNewSBWith(bin string, extra, env []string, boot bool) (*c17aSB, error) {
	root, err := os.MkdirTemp("/tmp", "c17a-")
	if err != nil {
		return nil, err
	}
	s := &c17aSB{root: root, inst: filepath.Join(root, "inst"), ids: map[string]string{}, esVersion: "7.9.3", bin: bin, extra: extra, env: env}
	c17aAllMu.Lock()
	if boot && len(c17aAll)%4 == 3 { // one server in four registers the 6.x ingest routes (…/{docType}/{_id})
		s.esVersion = "6.8.20"
	}
	c17aAllMu.Unlock()
	must(os.MkdirAll(filepath.Join(s.inst, "static", "js"), 0o755))
	must(os.WriteFile(filepath.Join(s.inst, "static", "index.html"), []byte("<html><body>c17 ui</body></html>\n"), 0o644))
	must(os.WriteFile(filepath.Join(s.inst, "static", "c17.html"), []byte("<html><body>c17 page</body></html>\n"), 0o644))
	must(os.WriteFile(filepath.Join(s.inst, "static", "js", "c17.js"), []byte("// c17\n"), 0o644))
	c17aAllMu.Lock()
	c17aAll = append(c17aAll, s)
	c17aAllMu.Unlock()
	for try := 0; ; try++ {
		s.iport, s.qport = c17aFreePort(), c17aFreePort()
		if err = s.start(); err == nil {
			break
		}
		if try == 2 {
			return nil, err
		}
	}
	if !boot {
		return s, nil
	}
	if err := s.bootstrap(); err != nil {
		s.kill()
		return nil, err
	}
	return s, nil
}

func (s *c17aSB) start() error {
	self, err := os.Executable()
	if err != nil {
		return err
	}
	if s.bin != "" {
		self = s.bin
	}
	cmd := exec.Command(self, append([]string{"c17aworker", s.root, s.iport, s.qport, s.esVersion}, s.extra...)...)
	cmd.Dir = s.inst
	cmd.Env = append(append(os.Environ(), "GOMAXPROCS=4"), s.env...)
	in, err := cmd.StdinPipe()
	if err != nil {
		return err
	}
	outp, err := cmd.StdoutPipe()
	if err != nil {
		return err
	}
	s.stderr = &c17aTail{}
	cmd.Stderr = s.stderr
	if err := cmd.Start(); err != nil {
		return err
	}
	s.cmd, s.stdin = cmd, in
	lines := make(chan string, 16)
	exited := make(chan struct{})
	s.lines, s.exited = lines, exited
	go func() {
		sc := bufio.NewScanner(outp)
		sc.Buffer(make([]byte, 1<<16), 1<<22)
		for sc.Scan() {
			if t := sc.Text(); strings.HasPrefix(t, "@@") {
				lines <- t[2:]
			} else if strings.HasPrefix(t, "FATAL") {
				s.stderr.Write([]byte(t + "\n"))
			}
		}
		close(lines)
		cmd.Wait()
		close(exited)
	}()
	select {
	case l, ok := <-s.lines:
		if !ok || !strings.HasPrefix(l, "READY ") {
			s.kill()
			return fmt.Errorf("worker did not start: %q %s", l, trunc(s.stderr.String(), 300))
		}
	case <-time.After(90 * time.Second):
		s.kill()
		return fmt.Errorf("worker start timed out")
	}
	return nil
}

// dump (debugging): the goroutines of a server that does not answer
func (s *c17aSB) dump() {
	if os.Getenv("C17A_DEBUG") == "" || s.cmd == nil || s.cmd.Process == nil || s.hasExited() {
		return
	}
	s.cmd.Process.Signal(syscall.SIGQUIT)
	select {
	case <-s.exited:
	case <-time.After(5 * time.Second):
	}
	time.Sleep(50 * time.Millisecond)
	fmt.Fprintf(os.Stderr, "C17A goroutines of the server that does not answer:\n%s\n", s.stderr.String())
}

func (s *c17aSB) kill() {
	s.dead = true
	if s.cmd != nil && s.cmd.Process != nil {
		s.cmd.Process.Kill()
	}
}

func (s *c17aSB) hasExited() bool {
	select {
	case <-s.exited:
		return true
	default:
		return false
	}
}

func (s *c17aSB) flush() error {
	if _, err := io.WriteString(s.stdin, "flush\n"); err != nil {
		return err
	}
	select {
	case l, ok := <-s.lines:
		if !ok || l != "ok" {
			return fmt.Errorf("flush: worker answered %q", l)
		}
		return nil
	case <-time.After(30 * time.Second):
		return fmt.Errorf("flush: timeout")
	}
}

// One slot per server.  A generated line carries a ticket (`@<j>` behind its classes): line j goes to slot j mod n and
// the lines of a slot run in ticket order, so that the sequence of requests every server sees is the same in every run
// of the same op file (a death that needs state left by earlier lines can be replayed).  Lines without a ticket (the
// corpus) take the slots round robin.
type c17aSlot struct {
	mu      sync.Mutex
	cond    *sync.Cond
	sb      *c17aSB
	next    int // the ticket (divided by the number of slots) whose turn it is
	started bool
}

var c17aSlots []*c17aSlot
var c17aSlotsOnce sync.Once
var c17aRR int64

var c17aExitHookOnce sync.Once

// every server this process started is killed and its sandbox removed when the run ends
func c17aInstallExitHook() {
	c17aExitHookOnce.Do(func() {
		exitHooks = append(exitHooks, func() {
			c17aAllMu.Lock()
			defer c17aAllMu.Unlock()
			for _, s := range c17aAll {
				s.kill()
				if os.Getenv("C17A_KEEP") == "" {
					os.RemoveAll(s.root)
				}
			}
		})
	})
}

func c17aAcquire(ticket int) *c17aSlot {
	c17aSlotsOnce.Do(func() {
		for i := 0; i < c17aWorkers; i++ {
			sl := &c17aSlot{}
			sl.cond = sync.NewCond(&sl.mu)
			c17aSlots = append(c17aSlots, sl)
		}
		c17aInstallExitHook()
	})
	n := len(c17aSlots)
	if ticket < 0 {
		sl := c17aSlots[int(atomic.AddInt64(&c17aRR, 1))%n]
		sl.mu.Lock()
		return sl
	}
	sl := c17aSlots[ticket%n]
	t := ticket / n
	sl.mu.Lock()
	if !sl.started { // the first ticket that reaches a slot is the smallest one of the file for it (lines start in file order)
		sl.started, sl.next = true, t
	}
	// (a missing ticket — a line that was cut out of the file — must not stop the run: the wait is bounded)
	deadline := time.Now().Add(45 * time.Second)
	for sl.next < t && time.Now().Before(deadline) {
		timer := time.AfterFunc(time.Second, func() {
			sl.mu.Lock()
			sl.cond.Broadcast()
			sl.mu.Unlock()
		})
		sl.cond.Wait()
		timer.Stop()
	}
	return sl
}

func (sl *c17aSlot) release(ticket int) {
	if ticket >= 0 {
		if t := ticket/len(c17aSlots) + 1; t > sl.next {
			sl.next = t
		}
		sl.cond.Broadcast()
	}
	sl.mu.Unlock()
}

// server: the live server of the slot (a new sandbox when there is none or the last one is dead)
func (sl *c17aSlot) server() (*c17aSB, error) {
	if sl.sb != nil && !sl.sb.dead {
		return sl.sb, nil
	}
	if sl.sb != nil && os.Getenv("C17A_KEEP") == "" {
		os.RemoveAll(sl.sb.root)
	}
	sl.sb = nil
	var err error
	for try := 0; try < 3; try++ {
		var s *c17aSB
		if s, err = c17aNewSB(); err == nil {
			sl.sb = s
			return s, nil
		}
	}
	return nil, err
}

// ---------------------------------------------------------------- one exchange

type c17aAns struct {
	status int
	body   []byte
	err    string // "" = a complete status line arrived
}

// c17aHTTP writes the bytes as they are and reads the answer until the peer closes (every generated request says
// Connection: close) or the deadline passes.  The write side is closed after the request: a request whose
// Content-Length promises more than it carries is an ended stream for the server, not a slow client.
func c17aHTTP(port string, raw []byte, deadline time.Duration) c17aAns {
	conn, err := net.DialTimeout("tcp", "127.0.0.1:"+port, 3*time.Second)
	if err != nil {
		return c17aAns{err: "dial: " + err.Error()}
	}
	defer conn.Close()
	conn.SetDeadline(time.Now().Add(deadline))
	if _, err := conn.Write(raw); err != nil {
		return c17aAns{err: "write: " + err.Error()}
	}
	if tc, ok := conn.(*net.TCPConn); ok {
		tc.CloseWrite()
	}
	data, err := io.ReadAll(io.LimitReader(conn, 4<<20))
	return c17aParseAns(data, err)
}

func c17aParseAns(data []byte, err error) c17aAns {
	var a c17aAns
	if i := bytes.IndexByte(data, '\n'); i > 0 {
		f := strings.Fields(string(data[:i]))
		if len(f) >= 2 && strings.HasPrefix(f[0], "HTTP/") {
			a.status, _ = strconv.Atoi(f[1])
		}
	}
	if a.status == 0 {
		if err != nil {
			a.err = "read: " + err.Error()
		} else if len(data) == 0 {
			a.err = "closed without an answer"
		} else {
			a.err = "no status line"
		}
		return a
	}
	if i := bytes.Index(data, []byte("\r\n\r\n")); i >= 0 {
		a.body = data[i+4:]
	}
	return a
}

// c17aWS: websocket upgrade, one masked text frame, then frames are read until a close frame, the end of the stream
// or the deadline (a long-running query is not a finding here; the probe afterwards decides).
func c17aWS(port, path string, msg []byte, deadline time.Duration) c17aAns {
	conn, err := net.DialTimeout("tcp", "127.0.0.1:"+port, 3*time.Second)
	if err != nil {
		return c17aAns{err: "dial: " + err.Error()}
	}
	defer conn.Close()
	conn.SetDeadline(time.Now().Add(deadline))
	req := "GET " + path + " HTTP/1.1\r\nHost: localhost\r\nUpgrade: websocket\r\nConnection: Upgrade\r\nSec-WebSocket-Key: dGhlIHNhbXBsZSBub25jZQ==\r\nSec-WebSocket-Version: 13\r\n\r\n"
	if _, err := conn.Write([]byte(req)); err != nil {
		return c17aAns{err: "write: " + err.Error()}
	}
	br := bufio.NewReader(conn)
	var head []byte
	for {
		l, err := br.ReadBytes('\n')
		head = append(head, l...)
		if err != nil {
			return c17aParseAns(head, err)
		}
		if len(bytes.TrimSpace(l)) == 0 {
			break
		}
	}
	a := c17aParseAns(append(head, "\r\n"...), nil)
	if a.status != 101 {
		return a
	}
	// client frame: FIN + text, masked
	var f bytes.Buffer
	f.WriteByte(0x81)
	switch n := len(msg); {
	case n < 126:
		f.WriteByte(0x80 | byte(n))
	case n < 65536:
		f.WriteByte(0x80 | 126)
		binary.Write(&f, binary.BigEndian, uint16(n))
	default:
		f.WriteByte(0x80 | 127)
		binary.Write(&f, binary.BigEndian, uint64(n))
	}
	var mask [4]byte
	crand.Read(mask[:])
	f.Write(mask[:])
	for i, b := range msg {
		f.WriteByte(b ^ mask[i%4])
	}
	if _, err := conn.Write(f.Bytes()); err != nil {
		a.err = "write frame: " + err.Error()
		return a
	}
	// server frames (unmasked)
	for nf := 0; nf < 4096; nf++ {
		var h [2]byte
		if _, err := io.ReadFull(br, h[:]); err != nil {
			return a // stream ended or deadline: the probe decides
		}
		n := uint64(h[1] & 0x7f)
		if n == 126 {
			var x [2]byte
			if _, err := io.ReadFull(br, x[:]); err != nil {
				return a
			}
			n = uint64(binary.BigEndian.Uint16(x[:]))
		} else if n == 127 {
			var x [8]byte
			if _, err := io.ReadFull(br, x[:]); err != nil {
				return a
			}
			n = binary.BigEndian.Uint64(x[:])
		}
		if n > 64<<20 {
			return a
		}
		if _, err := io.CopyN(io.Discard, br, int64(n)); err != nil {
			return a
		}
		if h[0]&0x0f == 8 { // close
			return a
		}
	}
	return a
}

// ---------------------------------------------------------------- what killed the process

var c17aFrameRe = regexp.MustCompile(`^(github\.com/siglens/siglens/[^\s(]+(?:\([^)]*\))?[^\s(]*)\(`)

// c17aSite: the first function of siglens itself in the trace of the goroutine that ended the process
func c17aSite(stderr string) (site, head string) {
	i := strings.LastIndex(stderr, "\npanic: ")
	if strings.HasPrefix(stderr, "panic: ") && i < 0 {
		i = 0
	}
	if j := strings.LastIndex(stderr, "fatal error: "); j >= 0 && i < 0 {
		i = j
	}
	if i < 0 {
		return "", ""
	}
	tr := stderr[i:]
	tr = strings.TrimPrefix(tr, "\n")
	head = tr
	if k := strings.Index(head, "\n"); k >= 0 {
		head = head[:k]
	}
	// only the first goroutine block (the one that panicked)
	if k := strings.Index(tr, "\n\ngoroutine "); k >= 0 {
		if k2 := strings.Index(tr[k+2:], "\n\n"); k2 >= 0 {
			tr = tr[:k+2+k2]
		}
	}
	for _, l := range strings.Split(tr, "\n") {
		if m := c17aFrameRe.FindStringSubmatch(strings.TrimSpace(l)); m != nil {
			fn := strings.TrimPrefix(m[1], "github.com/siglens/siglens/")
			if k := strings.LastIndex(fn, "/"); k >= 0 {
				fn = fn[k+1:]
			}
			return fn, head
		}
	}
	return "", head
}

func (s *c17aSB) fatalLogLine() string {
	b, err := os.ReadFile(filepath.Join(s.inst, "logs", "siglens.log"))
	if err != nil {
		return ""
	}
	last := ""
	for _, l := range strings.Split(string(b), "\n") {
		if strings.Contains(l, "level=fatal") || strings.Contains(l, "[FATAL]") || strings.Contains(l, " FATA") {
			last = l
		}
	}
	return last
}

// died describes the death of the server for a PropFail: (sig suffix, message)
func (s *c17aSB) died() (string, string) {
	select {
	case <-s.exited:
	case <-time.After(3 * time.Second):
	}
	time.Sleep(20 * time.Millisecond) // the stderr copier
	site, head := c17aSite(s.stderr.String())
	if os.Getenv("C17A_DEBUG") != "" {
		fmt.Fprintf(os.Stderr, "C17A the server is gone; its last words:\n%s\n", trunc(s.stderr.String()[strings.LastIndex(s.stderr.String(), "\npanic: ")+1:], 6000))
	}
	state := ""
	if s.cmd != nil && s.cmd.ProcessState != nil {
		state = s.cmd.ProcessState.String()
	}
	if site == "" && head == "" {
		if fl := s.fatalLogLine(); fl != "" {
			return "/fatal-log", "the server process ended itself (" + state + "): " + trunc(fl, 300)
		}
		return "", "the server process is gone (" + state + "); stderr: " + trunc(s.stderr.String(), 300)
	}
	if site == "" {
		site = "runtime"
	}
	return "/" + site, "the server process died (" + state + "): " + trunc(head, 200) + " in " + site
}

// ---------------------------------------------------------------- tokens

// ids of objects the bootstrap created, all of the length of a UUID
var c17aTokens = []string{"@DASHID@", "@FOLDER@", "@ALERTID", "@CONTACT"}

func c17aTok(t string) string { return t + strings.Repeat("@", 36-len(t)) }

// a start time "one minute ago" in nanoseconds (19 digits like what replaces it); the end time is 5 ms later
const c17aNowNanoToken = 1234567890123456789

func (s *c17aSB) subst(b []byte) []byte {
	if bytes.Contains(b, []byte("12345678901")) {
		ns := time.Now().Add(-time.Minute).UnixNano()
		b = bytes.ReplaceAll(b, []byte(strconv.FormatInt(c17aNowNanoToken, 10)), []byte(strconv.FormatInt(ns, 10)))
		b = bytes.ReplaceAll(b, []byte(strconv.FormatInt(c17aNowNanoToken+5000000, 10)), []byte(strconv.FormatInt(ns+5000000, 10)))
	}
	if !bytes.Contains(b, []byte("@@@@@@@@")) {
		return b
	}
	for _, t := range c17aTokens {
		id := s.ids[t]
		if len(id) != 36 {
			id = "00000000-0000-0000-0000-000000000000"
		}
		b = bytes.ReplaceAll(b, []byte(c17aTok(t)), []byte(id))
	}
	return b
}

// ---------------------------------------------------------------- exec

var c17aScrollIDRe = regexp.MustCompile(`"_scroll_id":"([0-9a-f-]{36})"`)
var c17aRouteIDRe = regexp.MustCompile(`^[A-Z]+/[!-~]*$`)

func c17aProbeReq() []byte {
	body := `{"searchText":"*","indexName":"c17boot","startEpoch":"now-1h","endEpoch":"now","queryLanguage":"Splunk QL","size":1}`
	return []byte("POST /api/search HTTP/1.1\r\nHost: localhost\r\nConnection: close\r\nContent-Type: application/json\r\nContent-Length: " +
		strconv.Itoa(len(body)) + "\r\n\r\n" + body)
}

func c17aExec(line string) Result {
	f := strings.Fields(line)
	var classTags []string
	ticket := -1
	if n := len(f); n > 0 && strings.HasPrefix(f[n-1], "#") { // the mutation classes of the line (distribution tags only) and its ticket
		if k := strings.LastIndex(f[n-1], "@"); k > 0 {
			if t, err := strconv.Atoi(f[n-1][k+1:]); err == nil && t >= 0 {
				ticket = t
			}
			f[n-1] = f[n-1][:k]
		}
		for _, c := range strings.Split(f[n-1][1:], "+") {
			classTags = append(classTags, "mut:"+c)
		}
		f = f[:n-1]
	}
	if len(f) == 0 {
		return Result{Out: "bad-op"}
	}
	switch f[0] {
	case "om", "ot":
		return c17aExecModel(f)
	case "gl": // the goroutines of a query after its terminal state (c17_alive_gor.go)
		return c17gExec(f, ticket, classTags)
	case "rq":
		if len(f) != 4 || (f[1] != "i" && f[1] != "q") || !c17aRouteIDRe.MatchString(f[2]) {
			return Result{Out: "bad-op"}
		}
	case "sq": // like rq, followed by the requests that PREPARE it (sent first, to the same server): <i|q>:<hex> …
		if len(f) < 5 || (f[1] != "i" && f[1] != "q") || !c17aRouteIDRe.MatchString(f[2]) {
			return Result{Out: "bad-op"}
		}
	case "ws":
		if len(f) != 3 || !c17aRouteIDRe.MatchString(f[1]) {
			return Result{Out: "bad-op"}
		}
	default:
		return Result{Out: "bad-op"}
	}
	type prepT struct {
		srv string
		raw []byte
	}
	var preps []prepT
	if f[0] == "sq" {
		for _, t := range f[4:] {
			srv, hx, ok := strings.Cut(t, ":")
			if ms, err := strconv.Atoi(hx); ok && srv == "w" && err == nil && ms >= 0 && ms <= 20000 { // w:<ms> = let the background loops run
				preps = append(preps, prepT{"w", []byte(hx)})
				continue
			}
			b, err := hex.DecodeString(hx)
			if !ok || (srv != "i" && srv != "q") || err != nil || hx == "" {
				return Result{Out: "bad-op"}
			}
			preps = append(preps, prepT{srv, b})
		}
		f = f[:4]
	}
	payload, err := hex.DecodeString(f[len(f)-1])
	if err != nil || f[len(f)-1] == "" {
		return Result{Out: "bad-op"}
	}
	route := f[len(f)-2]
	sl := c17aAcquire(ticket)
	defer sl.release(ticket)
	s, err := sl.server()
	if err != nil {
		return Result{Out: "boot-failed", Fails: []PropFail{{Sig: "alive/boot-failed", Msg: err.Error()}}, Tags: []string{"boot-failed"}}
	}
	res := Result{Out: "ok", Nontrivial: len(classTags) != 1 || classTags[0] != "mut:valid"}
	tags := append([]string{"route:" + route}, classTags...)
	fail := func(sig, msg string) {
		res.Fails = append(res.Fails, PropFail{Sig: sig, Msg: msg})
	}
	replace := func() bool {
		s.kill()
		if s, err = sl.server(); err != nil {
			res.Out = "boot-failed"
			fail("alive/boot-failed", err.Error())
			return false
		}
		return true
	}
	// the process died after the previous line's probe had been answered
	if s.hasExited() {
		suffix, msg := s.died()
		fail("alive/"+s.lastRoute+"/process-died-late"+suffix, msg+"; AFTER it had answered its last requests (newest last): "+strings.Join(s.recent, " | "))
		tags = append(tags, "died-late")
		if !replace() {
			res.Tags = tags
			return res
		}
	}
	witness := trunc(strconv.Quote(string(payload)), 1500)
	for i, pr := range preps {
		if pr.srv == "w" {
			ms, _ := strconv.Atoi(string(pr.raw))
			time.Sleep(time.Duration(ms) * time.Millisecond)
			continue
		}
		pp := s.qport
		if pr.srv == "i" {
			pp = s.iport
		}
		witness = fmt.Sprintf("%s AFTER (%s) %s", witness, pr.srv, trunc(strconv.Quote(string(pr.raw)), 700))
		c := c17aHTTP(pp, s.subst(pr.raw), c17aAnswerDeadline)
		if s.hasExited() || (c.err != "" && c17aGone(s, pp)) {
			suffix, msg := s.died()
			fail("alive/"+route+"/process-died"+suffix, fmt.Sprintf("%s (while answering preparing request %d); request: %s", msg, i+1, witness))
			tags = append(tags, "died")
			replace()
			res.Tags = tags
			return res
		}
	}
	if len(preps) > 0 {
		// what the flush timers do sooner or later: the prepared data is in its final place (the internal indexes of
		// the trace routes are searched in flushed segments only)
		if err := s.flush(); err != nil && !s.hasExited() {
			tags = append(tags, "flush-failed")
		}
	}
	var a c17aAns
	port := s.qport
	if f[0] != "ws" && f[1] == "i" {
		port = s.iport
	}
	raw := s.subst(payload)
	t0 := time.Now()
	if f[0] == "ws" {
		a = c17aWS(port, route[strings.Index(route, "/"):], raw, c17aAnswerDeadline)
	} else {
		a = c17aHTTP(port, raw, c17aAnswerDeadline)
	}
	dt := time.Since(t0)
	s.nreq++
	s.lastRoute = route
	s.recent = append(s.recent, fmt.Sprintf("%s(%dB)", route, len(raw)))
	if len(s.recent) > 6 {
		s.recent = s.recent[1:]
	}
	if os.Getenv("C17A_DEBUG") != "" {
		fmt.Fprintf(os.Stderr, "C17A %s -> %d %q err=%q %v\n", route, a.status, trunc(string(a.body), 120), a.err, dt.Round(time.Millisecond))
	}
	if a.err == "" {
		tags = append(tags, fmt.Sprintf("status:%dxx", a.status/100))
	} else {
		tags = append(tags, "no-status")
	}
	// (2) the process
	time.Sleep(time.Millisecond)
	if s.hasExited() || (a.err != "" && c17aGone(s, port)) {
		suffix, msg := s.died()
		fail("alive/"+route+"/process-died"+suffix, msg+"; request: "+witness)
		tags = append(tags, "died")
		replace()
		res.Tags = tags
		return res
	}
	// (1) the answer
	if a.err != "" && dt >= c17aAnswerDeadline-time.Second {
		s.dump()
		tags = append(tags, "no-answer")
		if !replace() {
			res.Tags = tags
			return res
		}
		// A missing answer on a busy machine or behind the requests of earlier lines is not yet a request that is never
		// answered: the request is repeated ALONE against the fresh server with three times the deadline; only when that
		// one is not answered either the line is a finding (a line with preparing requests is reported at once).
		if len(preps) == 0 {
			raw2 := s.subst(payload)
			var b c17aAns
			if f[0] == "ws" {
				b = c17aWS(s.qport, route[strings.Index(route, "/"):], raw2, c17aConfirmDeadline)
			} else if f[1] == "i" {
				b = c17aHTTP(s.iport, raw2, c17aConfirmDeadline)
			} else {
				b = c17aHTTP(s.qport, raw2, c17aConfirmDeadline)
			}
			if s.hasExited() {
				suffix, msg := s.died()
				fail("alive/"+route+"/process-died"+suffix, msg+" (the request repeated alone after it had not been answered); request: "+witness)
				tags = append(tags, "died")
				replace()
				res.Tags = tags
				return res
			}
			if b.err == "" {
				tags = append(tags, "no-answer-not-reproduced-alone")
				replace() // whatever the repeated request started does not meet the next line
				res.Tags = tags
				return res
			}
			witness += fmt.Sprintf(" (repeated alone against a fresh server: no answer within %v either)", c17aConfirmDeadline)
		}
		fail("alive/"+route+"/no-answer", fmt.Sprintf("no answer within %v (%s); request: %s", c17aAnswerDeadline, a.err, witness))
		replace()
		res.Tags = tags
		return res
	}
	// a client that scrolls: an answer that carries a scroll id is continued (two more pages)
	if m := c17aScrollIDRe.FindSubmatch(a.body); m != nil && f[0] != "ws" {
		tags = append(tags, "scroll-continued")
		for page := 0; page < 2; page++ {
			body := `{"scroll":"1m","scroll_id":"` + string(m[1]) + `"}`
			c := c17aHTTP(s.qport, c17aReqBytes("POST", "/elastic/_search?scroll=1m", [][2]string{{"Content-Type", "application/json"}}, []byte(body)), c17aAnswerDeadline)
			if s.hasExited() || (c.err != "" && c17aGone(s, s.qport)) {
				suffix, msg := s.died()
				fail("alive/"+route+"/process-died"+suffix, fmt.Sprintf("%s (while answering page %d of the scroll the request opened: POST /elastic/_search?scroll=1m %s); request: %s", msg, page+2, body, witness))
				tags = append(tags, "died")
				replace()
				res.Tags = tags
				return res
			}
			if c.status != 200 {
				break
			}
		}
	}
	// (3) a trivial query
	p := c17aHTTP(s.qport, c17aProbeReq(), c17aProbeDeadline)
	if s.hasExited() {
		suffix, msg := s.died()
		fail("alive/"+route+"/process-died"+suffix, msg+" (while answering the trivial search that followed); request: "+witness)
		tags = append(tags, "died")
		replace()
	} else if p.err != "" && c17aGone(s, s.qport) {
		suffix, msg := s.died()
		fail("alive/"+route+"/process-died"+suffix, msg+" (while answering the trivial search that followed); request: "+witness)
		tags = append(tags, "died")
		replace()
	} else if p.status != 200 {
		fail("alive/"+route+"/no-answer", fmt.Sprintf("the trivial search after the request was not answered: status %d %s %s; request: %s", p.status, p.err, trunc(string(p.body), 120), witness))
		tags = append(tags, "probe-failed")
		replace()
	}
	res.Tags = tags
	return res
}

// c17aGone: nothing listens on the port any more (and the process is about to be reaped)
func c17aGone(s *c17aSB, port string) bool {
	for i := 0; i < 20; i++ {
		if s.hasExited() {
			return true
		}
		conn, err := net.DialTimeout("tcp", "127.0.0.1:"+port, time.Second)
		if err == nil {
			conn.Close()
			return false
		}
		time.Sleep(25 * time.Millisecond)
	}
	return s.hasExited()
}

// ---------------------------------------------------------------- bootstrap

func c17aReqBytes(method, path string, hdr [][2]string, body []byte) []byte {
	var b bytes.Buffer
	b.WriteString(method + " " + path + " HTTP/1.1\r\nHost: localhost\r\nConnection: close\r\n")
	for _, kv := range hdr {
		b.WriteString(kv[0] + ": " + kv[1] + "\r\n")
	}
	if body != nil || method == "POST" || method == "PUT" {
		fmt.Fprintf(&b, "Content-Length: %d\r\n", len(body))
	}
	b.WriteString("\r\n")
	b.Write(body)
	return b.Bytes()
}

var c17aUUIDRe = regexp.MustCompile(`[0-9a-f]{8}-[0-9a-f]{4}-[0-9a-f]{4}-[0-9a-f]{4}-[0-9a-f]{12}`)

func (s *c17aSB) bootstrap() error {
	do := func(srv, method, path, ctype string, body []byte) (c17aAns, error) {
		port := s.qport
		if srv == "i" {
			port = s.iport
		}
		var hdr [][2]string
		if ctype != "" {
			hdr = append(hdr, [2]string{"Content-Type", ctype})
		}
		a := c17aHTTP(port, c17aReqBytes(method, path, hdr, body), 30*time.Second)
		if a.err != "" || a.status/100 != 2 {
			return a, fmt.Errorf("bootstrap %s %s: status %d %s %s", method, path, a.status, a.err, trunc(string(a.body), 200))
		}
		return a, nil
	}
	now := time.Now()
	for _, st := range c17aBootSteps(now) {
		a, err := do(st.srv, st.method, st.path, st.ctype, s.subst(st.body))
		if err != nil {
			return err
		}
		if st.idTok != "" {
			if m := c17aUUIDRe.Find(a.body); m != nil {
				s.ids[st.idTok] = string(m)
			} else if a, err := do("q", "GET", st.idFrom, "", nil); err == nil {
				// ids that creation does not return
				if m := c17aUUIDRe.Find(a.body); m != nil {
					s.ids[st.idTok] = string(m)
				}
			}
			if s.ids[st.idTok] == "" {
				return fmt.Errorf("bootstrap: no id for %s after %s", st.idTok, st.path)
			}
		}
	}
	if err := s.flush(); err != nil {
		return err
	}
	// the trivial search must work before anything is blamed on a request
	for i := 0; ; i++ {
		p := c17aHTTP(s.qport, c17aProbeReq(), c17aProbeDeadline)
		if p.status == 200 && bytes.Contains(p.body, []byte(`"c17boot"`)) {
			return nil
		}
		if i == 40 {
			return fmt.Errorf("bootstrap: the trivial search does not find the bootstrap events: status %d %s %s", p.status, p.err, trunc(string(p.body), 200))
		}
		time.Sleep(50 * time.Millisecond)
	}
}

func c17aJSON(v interface{}) []byte {
	b, _ := json.Marshal(v)
	return b
}

// ---------------------------------------------------------------- the small request grammars against their Lean model

func c17aGenModelLine(r *rand.Rand) string {
	if r.Intn(4) == 0 {
		return "ot " + hex.EncodeToString([]byte(c17aTimeText(r)))
	}
	return "om " + hex.EncodeToString([]byte(c17aText(r, "otsdb")))
}

var c17aTimeFrags = []string{"1h-ago", "30m-ago", "5s-ago", "2d-ago", "1w-ago", "1n-ago", "1y-ago", "-ago", "h-ago", "1-ago", "1x-ago", "-1h-ago", "+1h-ago", "1_0h-ago", "9223372036854775807s-ago", "9223372036854775808s-ago",
	"99999999999h-ago", "1h-ago ", " 1h-ago", "1h-AGO", "1hh-ago", "1\xc3\xa9-ago", "\xe9-ago", "1700000000", "1700000000000", "2023/11/14-22:13:20", "2023/11/14", "now", "", "ago", "1h-ago-ago"}

func c17aTimeText(r *rand.Rand) string {
	t := c17aTimeFrags[r.Intn(len(c17aTimeFrags))]
	if r.Intn(4) == 0 {
		t = mutate(r, t)
	}
	return t
}

func c17aAggName(a sutils.AggregateFunctions) string {
	switch a {
	case sutils.Count:
		return "count"
	case sutils.Avg:
		return "avg"
	case sutils.Min:
		return "min"
	case sutils.Max:
		return "max"
	case sutils.Sum:
		return "sum"
	case sutils.Cardinality:
		return "cardinality"
	case sutils.Quantile:
		return "quantile"
	case sutils.Invalid:
		return "invalid"
	}
	return fmt.Sprintf("agg%d", int(a))
}

func c17aHexOrDash(s string) string {
	if s == "" {
		return "-"
	}
	return hex.EncodeToString([]byte(s))
}

// c17aExecModel runs the real parsers of the OpenTSDB query route on the text and prints what the Lean model
// (SigModel/Model/OtsdbQuery.lean) prints for it.  A panic is caught by the driver (Out = "panic"): the model never panics.
//
//	om: T:<err | metric;key=value/and|or,…> A:<err | aggregator/interval/unit/downsample aggregator/cflag>
//	ot: rel-ok | rel-err | abs        (a time ending in "-ago": accepted or not; anything else: only that the parser returns)
func c17aExecModel(f []string) (res Result) {
	if len(f) == 1 {
		f = append(f, "")
	}
	if len(f) != 2 {
		return Result{Out: "bad-op"}
	}
	tb, err := hex.DecodeString(f[1])
	if err != nil {
		return Result{Out: "bad-op"}
	}
	text := string(tb)
	res = Result{Nontrivial: len(text) >= 4, Tags: []string{"model:" + f[0]}}
	// the property itself: the parser returns (a panic here is what ends the server when the text arrives in a request)
	defer func() {
		if rec := recover(); rec != nil {
			what := map[string]string{"om": "otsdb-metric-expression", "ot": "otsdb-time"}[f[0]]
			res = Result{Out: "panic", Nontrivial: true, Tags: []string{"model:" + f[0], "panic"},
				Fails: []PropFail{{Sig: "alive/parser/" + what + "/panic", Msg: fmt.Sprintf("the parser panicked (%v) for %q", rec, trunc(text, 200))}}}
		}
	}()
	if f[0] == "ot" {
		_, err := otsdbquery.VerifParseTime(text)
		switch {
		case !strings.HasSuffix(text, "-ago"):
			res.Out = "abs"
		case err != nil:
			res.Out = "rel-err"
		default:
			res.Out = "rel-ok"
		}
		res.Tags = append(res.Tags, "ot:"+res.Out)
		return res
	}
	var sb strings.Builder
	metric, _, tags, err := otsdbquery.VerifParseMetricTag(text)
	if err != nil {
		sb.WriteString("T:err")
		res.Tags = append(res.Tags, "om:tags-rejected")
	} else {
		sb.WriteString("T:" + c17aHexOrDash(metric) + ";")
		for i, t := range tags {
			if i > 0 {
				sb.WriteString(",")
			}
			op := "and"
			if t.LogicalOperator == sutils.Or {
				op = "or"
			}
			sb.WriteString(c17aHexOrDash(t.TagKey) + "=" + c17aHexOrDash(fmt.Sprint(t.RawTagValue)) + "/" + op)
		}
		res.Tags = append(res.Tags, "om:tags-accepted")
	}
	agg, ds, err := otsdbquery.VerifParseAggregatorDownsampler(text)
	if err != nil {
		sb.WriteString(" A:err")
		res.Tags = append(res.Tags, "om:agg-rejected")
	} else {
		unit := hex.EncodeToString([]byte(ds.Unit))
		for i := 0; i < len(ds.Unit); i++ {
			if ds.Unit[i] >= 0x80 {
				unit = "~" // a unit with non-ASCII runes: accepted like any other, its spelling is not modelled
			}
		}
		cf := 0
		if ds.CFlag {
			cf = 1
		}
		fmt.Fprintf(&sb, " A:%s/%d/%s/%s/%d", c17aAggName(agg), ds.Interval, unit, c17aAggName(ds.Aggregator.AggregatorFunction), cf)
		res.Tags = append(res.Tags, "om:agg-accepted")
	}
	res.Out = sb.String()
	return res
}
