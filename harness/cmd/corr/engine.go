package main

import (
	"context"
	"os"
	"sync"

	"github.com/siglens/siglens/pkg/config"
	"github.com/siglens/siglens/pkg/segment/memory/limit"
	"github.com/siglens/siglens/pkg/segment/query"
	"github.com/siglens/siglens/pkg/segment/writer"
	serverutils "github.com/siglens/siglens/pkg/server/utils"
	vtable "github.com/siglens/siglens/pkg/virtualtable"
)

var engineOnce sync.Once
var engineDir string
var engineKeep bool // data dir chosen by the parent (VERIF_DATA_DIR): never removed by this process

// bootEngine initialises the in-process siglens engine once per process, with the production
// query pipeline (the testing config leaves it off), in a fresh data dir.
func bootEngine() string {
	engineOnce.Do(func() {
		var dir string
		var err error
		if d := os.Getenv("VERIF_DATA_DIR"); d != "" {
			// crash/restart suites (C07): the PARENT chooses the data dir so that a second process can be
			// started on it; it is kept on exit, and the components are initialised in the order of
			// cmd/startup (InitVTable, then the ingest server's InitWriterNode, then the query server's
			// InitQueryNode, which is what reads segmeta.json and adopts segment dirs that only have a .sfm)
			if err = os.MkdirAll(d, 0o755); err != nil {
				panic(err)
			}
			engineDir = d
			engineKeep = true
			config.InitializeTestingConfig(d + "/")
			config.SetNewQueryPipelineEnabled(true)
			limit.InitMemoryLimiter()
			if err := vtable.InitVTable(serverutils.GetMyIds); err != nil {
				panic(err)
			}
			writer.InitWriterNode()
			if err := query.InitQueryNode(serverutils.GetMyIds, serverutils.ExtractKibanaRequests); err != nil {
				panic(err)
			}
			go query.PullQueriesToRun(context.Background())
			return
		}
		dir, err = os.MkdirTemp("", "verifeng")
		if err != nil {
			panic(err)
		}
		engineDir = dir
		config.InitializeTestingConfig(dir + "/")
		config.SetNewQueryPipelineEnabled(true)
		limit.InitMemoryLimiter()
		// the order of cmd/startup: InitVTable, the writer node, then the query node.  (The other order let
		// the query node's metadata-sync goroutine read vtable's base file name while InitVTable was still
		// writing it: a torn read and a crash at worker start about once in 450 workers.)
		if err := vtable.InitVTable(serverutils.GetMyIds); err != nil {
			panic(err)
		}
		writer.InitWriterNode()
		if err := query.InitQueryNode(serverutils.GetMyIds, serverutils.ExtractKibanaRequests); err != nil {
			panic(err)
		}
		go query.PullQueriesToRun(context.Background())
	})
	return engineDir
}

func cleanupEngine() {
	if engineDir != "" && !engineKeep {
		os.RemoveAll(engineDir)
	}
}
