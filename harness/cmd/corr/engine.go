package main

import (
	"context"
	"os"
	"sync"

	"github.com/siglens/siglens/pkg/config"
	"github.com/siglens/siglens/pkg/segment/memory/limit"
	"github.com/siglens/siglens/pkg/segment/query"
	"github.com/siglens/siglens/pkg/segment/writer"
	serverutils "github.com/siglens/siglens/pkg/server/utils"
	vtable "github.com/siglens/siglens/pkg/virtualtable"
)

var engineOnce sync.Once
var engineDir string

// bootEngine initialises the in-process siglens engine once per process, with the production
// query pipeline (the testing config leaves it off), in a fresh data dir.
func bootEngine() string {
	engineOnce.Do(func() {
		dir, err := os.MkdirTemp("", "verifeng")
		if err != nil {
			panic(err)
		}
		engineDir = dir
		config.InitializeTestingConfig(dir + "/")
		config.SetNewQueryPipelineEnabled(true)
		limit.InitMemoryLimiter()
		if err := query.InitQueryNode(serverutils.GetMyIds, serverutils.ExtractKibanaRequests); err != nil {
			panic(err)
		}
		writer.InitWriterNode()
		if err := vtable.InitVTable(serverutils.GetMyIds); err != nil {
			panic(err)
		}
		go query.PullQueriesToRun(context.Background())
	})
	return engineDir
}

func cleanupEngine() {
	if engineDir != "" {
		os.RemoveAll(engineDir)
	}
}
