package main

// Property C11 — concurrent ingest / flush / rotation / search.
//
// Suite "conc" (DETERMINISTIC REPLAY of schedules of the Lean interleaving machine, Model/Conc.lean):
//
//	c11 <S> <label> <label> ...      label ::= f<i> | r<i> | q<j>r | q<j>s
//
// S = number of streams (indexes c11s0 … c11s<S-1>).  f<i>: ingest two events into index i and flush its
// store (skipped while a rotation of i holds the store lock).  r<i>: start a rotation of i's store and
// execute its first protocol step, or execute the next step of the rotation in progress — the rotating
// goroutine runs the REAL checkAndRotateColFiles / CleanupUnrotatedSegment and is stopped before each step by
// the pause points of the instrumented copy of segstore.go (cmd/overlaygen/c11.go).  q<j>r / q<j>s: next step
// of query j (r: `*` returning records, s: `* | stats count`) — the querying goroutine runs the REAL
// ParseAndExecutePipeRequest and is stopped after each of its two segment-list snapshots by the product hook
// hooks.GlobalHooks.FilterQsrsHook (first label: start + first snapshot, second: second snapshot, third:
// read).  After the schedule the pending rotations and queries are completed in a fixed order and a final
// records query and a final count query are run.  Every schedule runs in its own engine process
// (`corr c11worker`).
//
// The answer line (byte-for-byte what lean/Oracle/C11.lean prints for the same line):
//
//	steps=<i>:<step>,… | q<j>:<kind> <first snapshot>=[segs] <second snapshot>=[segs] res=[blocks]|cnt=<n> | … | unrot=[seg:blocks,…] rot=[…] | final=[blocks] cnt=<n>
//
// Property checks on the real results, independent of the model: a records query returns no event twice and
// every event whose flush completed before the query's first step; a count is at least the number of those
// events and at most the number of events flushed when the query finished; the final queries return every
// event exactly once.
//
// The suite also carries the op lines `c11c …` — schedules of the get-or-create machine of the segstore table
// (Model/ConcCreate.lean: k concurrent first ingests on a new stream, flushes, removeStaleSegments) replayed on the
// real getOrCreateSegStore / createSegStore / AddEntry: see c11_create.go.
//
// Suite "concstress" (EXPLORATION, not a proof and not a replay): `corr c11stress` runs concurrent ingest on
// several indexes + periodic flush + forced rotation + repeated match-all queries under GOMAXPROCS 1/4/16 and
// checks the same three clauses; in the thorough tier also with a `-race` build of the harness.

import (
	"bufio"
	"bytes"
	"encoding/json"
	"fmt"
	"math/rand"
	"os"
	"os/exec"
	"sort"
	"strconv"
	"strings"
	"sync"
	"time"

	"github.com/siglens/siglens/pkg/ast/pipesearch"
	"github.com/siglens/siglens/pkg/config"
	eswriter "github.com/siglens/siglens/pkg/es/writer"
	"github.com/siglens/siglens/pkg/hooks"
	segmetadata "github.com/siglens/siglens/pkg/segment/metadata"
	"github.com/siglens/siglens/pkg/segment/query"
	"github.com/siglens/siglens/pkg/segment/reader/segread"
	"github.com/siglens/siglens/pkg/segment/writer"
)

const c11EventsPerFlush = 2

// pause point (instrumented segstore.go) → protocol step of the model ("" = not a step: pass through)
var c11PointStep = map[string]string{
	"checkAndRotateColFiles:addSegmeta":                     "segmetaFile",
	"checkAndRotateColFiles:AddSegMetaToMetadata":           "addMeta",
	"checkAndRotateColFiles:CleanupUnrotatedSegment":        "",
	"CleanupUnrotatedSegment:removeSegKeyFromUnrotatedInfo": "removeUnrot",
	"CleanupUnrotatedSegment:resetSegStore":                 "reset",
}

type c11Label struct {
	kind  byte // 'f' 'r' 'q'
	id    int
	stats bool
}

// strict decimal (the Oracle's num?): digits only, no sign, no leading zero, at most 6 digits
func c11Num(s string) (int, bool) {
	if len(s) == 0 || len(s) > 6 || (len(s) > 1 && s[0] == '0') {
		return 0, false
	}
	n := 0
	for i := 0; i < len(s); i++ {
		if s[i] < '0' || s[i] > '9' {
			return 0, false
		}
		n = 10*n + int(s[i]-'0')
	}
	return n, true
}

func c11Parse(line string) (int, []c11Label, bool) {
	f := strings.Fields(line)
	if len(f) < 2 || f[0] != "c11" {
		return 0, nil, false
	}
	S, okS := c11Num(f[1])
	if !okS || S < 1 || S > 8 {
		return 0, nil, false
	}
	var ls []c11Label
	for _, t := range f[2:] {
		if len(t) < 2 {
			return 0, nil, false
		}
		l := c11Label{kind: t[0]}
		num := t[1:]
		if t[0] == 'q' {
			if len(t) < 3 {
				return 0, nil, false
			}
			switch t[len(t)-1] {
			case 'r':
			case 's':
				l.stats = true
			default:
				return 0, nil, false
			}
			num = t[1 : len(t)-1]
		} else if t[0] != 'f' && t[0] != 'r' {
			return 0, nil, false
		}
		n, okN := c11Num(num)
		if !okN {
			return 0, nil, false
		}
		if t[0] != 'q' && n >= S {
			return 0, nil, false
		}
		if t[0] == 'q' && n >= 16 {
			return 0, nil, false
		}
		l.id = n
		ls = append(ls, l)
	}
	return S, ls, true
}

// ---------------------------------------------------------------- the replay worker (one schedule per process)

type c11Event struct {
	point string
	done  bool
	err   error
}

type c11Rot struct {
	events chan c11Event
	resume chan struct{}
	active bool
	atStep string // protocol step the goroutine is stopped in front of
}

type c11Query struct {
	id           int
	stats        bool
	qid          uint64
	started      bool
	phase        int // snapshots taken
	done         bool
	events       chan c11Event
	resume       chan struct{}
	snaps        [][]string // seg keys per hook call, in call order
	snapRot      []bool
	extra        int
	pre          map[int]bool // vids whose flush had completed at the first step
	preN         int
	vids         []int
	count        int64
	err          string
	flushedAtEnd int
}

type c11World struct {
	S           int
	index       []string
	segNames    map[string]string // real segkey → "i.k"
	segOrder    [][]string        // per stream: distinct segkeys in order of appearance
	vidBlock    map[int]string    // vid → "i.k#b"
	nextVid     int
	flushedVids []int
	rots        []*c11Rot
	rotByKey    sync.Map // segkey → *c11Rot (for the pause hook)
	queries     map[int]*c11Query
	byQid       sync.Map
	steps       []string
	fails       []PropFail
	nextQid     uint64
	mu          sync.Mutex
}

func (w *c11World) segName(stream int, key string) string {
	if n, ok := w.segNames[key]; ok {
		return n
	}
	n := fmt.Sprintf("%d.%d", stream, len(w.segOrder[stream]))
	w.segOrder[stream] = append(w.segOrder[stream], key)
	w.segNames[key] = n
	return n
}

func (w *c11World) nameOf(key string) string {
	if n, ok := w.segNames[key]; ok {
		return n
	}
	return "?" + key
}

func (w *c11World) fail(sig, msg string) { w.fails = append(w.fails, PropFail{Sig: sig, Msg: msg}) }

func (w *c11World) ingestAndFlush(i int) {
	now := uint64(time.Now().UnixMilli())
	tsKey := config.GetTimeStampKey()
	var stack [64]byte
	var ples []*writer.ParsedLogEvent
	var vids []int
	for k := 0; k < c11EventsPerFlush; k++ {
		vid := w.nextVid
		w.nextVid++
		vids = append(vids, vid)
		raw := []byte(fmt.Sprintf(`{"_vid":%d,"s":%d,"m":"e%d"}`, vid, i, vid))
		ple, err := writer.GetNewPLE(raw, now, w.index[i], &tsKey, stack[:])
		if err != nil {
			panic(err)
		}
		ples = append(ples, ple)
	}
	err := eswriter.ProcessIndexRequestPle(now, w.index[i], false, map[string]string{}, 0, 0, map[string]string{}, map[uint64]string{}, stack[:], ples)
	if err != nil {
		panic(err)
	}
	writer.ReleasePLEs(ples)
	if err := writer.VerifC11FlushIndex(w.index[i]); err != nil {
		panic(err)
	}
	key, nb, ok := writer.VerifC11StoreInfo(w.index[i])
	if !ok {
		panic("no store after flush")
	}
	blk := fmt.Sprintf("%s#%d", w.segName(i, key), nb-1)
	for _, v := range vids {
		w.vidBlock[v] = blk
		w.flushedVids = append(w.flushedVids, v)
	}
}

// advance the rotation of stream i by one protocol step; returns the step executed ("" = nothing to do)
func (w *c11World) rotAdvance(i int) string {
	r := w.rots[i]
	waitStop := func() (string, bool) { // → protocol step in front of which the goroutine stopped, or finished
		for {
			ev := <-r.events
			if ev.done {
				return "", true
			}
			st, known := c11PointStep[ev.point]
			if !known {
				st = "?" + ev.point
			}
			if st == "" {
				r.resume <- struct{}{}
				continue
			}
			return st, false
		}
	}
	if !r.active {
		key, nb, ok := writer.VerifC11StoreInfo(w.index[i])
		if !ok || nb == 0 {
			// the model: a store without blocks does not rotate. Run the real call all the same: it must not reach a step.
			if ok {
				w.rotByKey.Store(key, r)
				go func() { err := writer.VerifC11RotateIndex(w.index[i]); r.events <- c11Event{done: true, err: err} }()
				if st, fin := waitStop(); !fin {
					w.fail("conc-replay/rotation-of-empty-store", "a store without flushed blocks started a rotation (stopped before "+st+")")
					for !fin {
						r.resume <- struct{}{}
						_, fin = waitStop()
					}
				}
			}
			return ""
		}
		w.rotByKey.Store(key, r)
		r.active = true
		go func() { err := writer.VerifC11RotateIndex(w.index[i]); r.events <- c11Event{done: true, err: err} }()
		st, fin := waitStop()
		if fin {
			r.active = false
			return "none"
		}
		r.atStep = st
	}
	executed := r.atStep
	r.resume <- struct{}{}
	st, fin := waitStop()
	if fin {
		r.active = false
		r.atStep = ""
	} else {
		r.atStep = st
	}
	return executed
}

func (w *c11World) runQuery(q *c11Query) {
	now := uint64(time.Now().UnixMilli())
	text := "*"
	if q.stats {
		text = "* | stats count"
	}
	body := map[string]interface{}{
		"searchText": text, "startEpoch": float64(now - 3600_000), "endEpoch": float64(now + 3600_000),
		"indexName": strings.Join(w.index, ","), "queryLanguage": "Splunk QL", "size": float64(10000), "from": float64(0),
	}
	resp, _, _, err := pipesearch.ParseAndExecutePipeRequest(body, q.qid, 0, time.Now(), "", nil)
	if err != nil {
		q.err = err.Error()
	} else if resp == nil {
		q.err = "nil response"
	} else {
		if len(resp.Errors) > 0 {
			q.err = strings.Join(resp.Errors, ";")
		}
		for _, h := range resp.Hits.Hits {
			switch v := h["_vid"].(type) {
			case float64:
				q.vids = append(q.vids, int(v))
			case int64:
				q.vids = append(q.vids, int(v))
			case uint64:
				q.vids = append(q.vids, int(v))
			case json.Number:
				n, _ := v.Int64()
				q.vids = append(q.vids, int(n))
			default:
				q.err += fmt.Sprintf("hit without _vid (%T)", v)
			}
		}
		q.count = -1
		if q.stats {
			for _, m := range resp.MeasureResults {
				for _, v := range m.MeasureVal {
					switch x := v.(type) {
					case float64:
						q.count = int64(x)
					case int64:
						q.count = x
					case uint64:
						q.count = int64(x)
					case json.Number:
						q.count, _ = x.Int64()
					case string:
						n, e := strconv.ParseInt(strings.ReplaceAll(x, ",", ""), 10, 64)
						if e == nil {
							q.count = n
						}
					}
				}
			}
			if q.count < 0 && len(resp.MeasureResults) == 0 {
				q.count = 0 // no segment at all: the engine answers without a row
			}
		}
	}
	q.events <- c11Event{done: true}
}

// product hook: called right after each of the two segment-list snapshots of a query
func (w *c11World) qsrHook(qsrs interface{}, qi interface{}, isRotated bool) (interface{}, error) {
	info, ok := qi.(*query.QueryInformation)
	if !ok {
		return qsrs, nil
	}
	v, ok := w.byQid.Load(info.GetQid())
	if !ok {
		return qsrs, nil
	}
	q := v.(*c11Query)
	var keys []string
	if l, ok := qsrs.([]*query.QuerySegmentRequest); ok {
		for _, r := range l {
			keys = append(keys, r.GetSegKey())
		}
	}
	w.mu.Lock()
	n := len(q.snaps)
	q.snaps = append(q.snaps, keys)
	q.snapRot = append(q.snapRot, isRotated)
	w.mu.Unlock()
	if n >= 2 {
		q.extra++
		return qsrs, nil
	}
	q.events <- c11Event{point: "snap"}
	<-q.resume
	return qsrs, nil
}

func (w *c11World) qAdvance(j int, stats bool) {
	q := w.queries[j]
	if q == nil {
		q = &c11Query{id: j, stats: stats, events: make(chan c11Event, 4), resume: make(chan struct{})}
		w.queries[j] = q
	}
	if q.done {
		return
	}
	if !q.started {
		q.started = true
		w.nextQid++
		q.qid = w.nextQid
		q.pre = map[int]bool{}
		for _, v := range w.flushedVids {
			q.pre[v] = true
		}
		q.preN = len(w.flushedVids)
		w.byQid.Store(q.qid, q)
		go w.runQuery(q)
	} else {
		q.resume <- struct{}{}
	}
	select {
	case ev := <-q.events:
		if ev.done {
			q.done = true
			q.flushedAtEnd = len(w.flushedVids)
			if q.phase < 2 {
				w.fail("conc-replay/query-without-two-snapshots", fmt.Sprintf("query finished after %d segment-list snapshots", q.phase))
			}
		} else {
			q.phase++
		}
	case <-time.After(60 * time.Second):
		fmt.Println("worker-stall query")
		os.Exit(0)
	}
}

func c11Blocks(w *c11World, vids []int) string {
	// events of one flush share a block; print each block once per multiplicity of its events
	cnt := map[int]int{}
	for _, v := range vids {
		cnt[v]++
	}
	perBlock := map[string][]int{} // block → multiplicities of its events
	for v, c := range cnt {
		b, ok := w.vidBlock[v]
		if !ok {
			b = fmt.Sprintf("?vid%d", v)
		}
		perBlock[b] = append(perBlock[b], c)
	}
	var out []string
	for b, ms := range perBlock {
		m := ms[0]
		uniform := len(ms) == c11EventsPerFlush || strings.HasPrefix(b, "?")
		for _, x := range ms {
			if x != m {
				uniform = false
			}
		}
		if !uniform {
			out = append(out, b+"!partial")
			continue
		}
		for k := 0; k < m; k++ {
			out = append(out, b)
		}
	}
	sort.Slice(out, func(i, j int) bool { return c11BlockLess(out[i], out[j]) })
	return "[" + strings.Join(out, ",") + "]"
}

func c11BlockLess(a, b string) bool {
	pa, pb := c11BlockKey(a), c11BlockKey(b)
	for i := 0; i < 3; i++ {
		if pa[i] != pb[i] {
			return pa[i] < pb[i]
		}
	}
	return a < b
}

func c11BlockKey(s string) [3]int {
	var k [3]int
	s = strings.TrimSuffix(s, "!partial")
	var rest string
	if i := strings.IndexByte(s, '#'); i >= 0 {
		rest = s[i+1:]
		s = s[:i]
		k[2], _ = strconv.Atoi(rest)
	} else if i := strings.IndexByte(s, ':'); i >= 0 {
		s = s[:i]
	}
	p := strings.SplitN(s, ".", 2)
	if len(p) == 2 {
		a, e1 := strconv.Atoi(p[0])
		b, e2 := strconv.Atoi(p[1])
		if e1 == nil && e2 == nil {
			k[0], k[1] = a, b
			return k
		}
	}
	k[0] = 1 << 30
	return k
}

func (w *c11World) segList(keys []string) string {
	var out []string
	for _, k := range keys {
		out = append(out, w.nameOf(k))
	}
	sort.Slice(out, func(i, j int) bool { return c11BlockLess(out[i], out[j]) })
	return "[" + strings.Join(out, ",") + "]"
}

func (w *c11World) checkQuery(q *c11Query, name string) {
	if q.err != "" {
		w.fail("conc-replay/query-error", name+": "+q.err)
		return
	}
	if !q.stats {
		seen := map[int]int{}
		for _, v := range q.vids {
			seen[v]++
		}
		for v, c := range seen {
			if c > 1 {
				w.fail("conc-replay/event-returned-twice", fmt.Sprintf("%s returned event %d (block %s) %d times", name, v, w.vidBlock[v], c))
				break
			}
		}
		for v := range q.pre {
			if seen[v] == 0 {
				w.fail("conc-replay/flushed-event-missing", fmt.Sprintf("%s lacks event %d (block %s) whose flush completed before the query's first step", name, v, w.vidBlock[v]))
				break
			}
		}
	} else {
		if q.count < int64(q.preN) {
			w.fail("conc-replay/count-below-flushed", fmt.Sprintf("%s counted %d events, %d had been flushed before its first step", name, q.count, q.preN))
		}
		if q.count > int64(q.flushedAtEnd) {
			// witness class: is some segment key in both of the query's segment lists (as the product hook saw them)?
			sig := "conc/count-exceeds-ingested"
			both := ""
			if len(q.snaps) >= 2 {
				in0 := map[string]bool{}
				for _, k := range q.snaps[0] {
					in0[k] = true
				}
				for _, k := range q.snaps[1] {
					if in0[k] {
						sig = "conc/counted-twice/segment-in-both-snapshots"
						both = w.nameOf(k)
					}
				}
			}
			w.fail(sig, fmt.Sprintf("%s (`* | stats count`) counted %d events, only %d had been ingested when it finished; segment in both the unrotated and the rotated request list: %q", name, q.count, q.flushedAtEnd, both))
		}
	}
}

func c11WorkerMain() {
	in := bufio.NewReader(os.Stdin)
	line, _ := in.ReadString('\n')
	if strings.HasPrefix(strings.TrimSpace(line), "c11c ") { // get-or-create of the segstore table (c11_create.go)
		c11cReplay(strings.TrimSpace(line))
		return
	}
	if strings.HasPrefix(strings.TrimSpace(line), "c11f ") { // concurrent flushes of different segstores (c11_flush.go)
		c11fReplay(strings.TrimSpace(line))
		return
	}
	if win, ok := c11ParseWindow(strings.TrimSpace(line)); ok {
		c11WindowReplay(win)
		return
	}
	S, labels, ok := c11Parse(strings.TrimSpace(line))
	if !ok {
		fmt.Println("bad-op")
		return
	}
	if !writer.VerifC11Instrumented {
		fmt.Println("not-instrumented: " + strings.Join(writer.VerifC11Problems, "; "))
		return
	}
	dir := bootEngine()
	defer os.RemoveAll(dir)
	w := &c11World{S: S, segNames: map[string]string{}, vidBlock: map[int]string{}, queries: map[int]*c11Query{}, nextQid: 1000}
	for i := 0; i < S; i++ {
		w.index = append(w.index, fmt.Sprintf("c11s%d", i))
		w.segOrder = append(w.segOrder, nil)
		w.rots = append(w.rots, &c11Rot{events: make(chan c11Event, 4), resume: make(chan struct{})})
	}
	writer.VerifC11Pause = func(point string, segkey string) {
		v, ok := w.rotByKey.Load(segkey)
		if !ok {
			return
		}
		r := v.(*c11Rot)
		r.events <- c11Event{point: point}
		<-r.resume
	}
	hooks.GlobalHooks.FilterQsrsHook = w.qsrHook

	watchdog := time.AfterFunc(100*time.Second, func() {
		fmt.Println("worker-stall")
		os.Exit(0)
	})
	defer watchdog.Stop()

	for _, l := range labels {
		switch l.kind {
		case 'f':
			if w.rots[l.id].active {
				continue // the store lock is held by the rotation in progress: the flusher waits
			}
			w.ingestAndFlush(l.id)
		case 'r':
			if st := w.rotAdvance(l.id); st != "" {
				w.steps = append(w.steps, fmt.Sprintf("%d:%s", l.id, st))
			}
		case 'q':
			w.qAdvance(l.id, l.stats)
		}
	}
	// state at the end of the schedule
	uk, ub := writer.VerifC11Unrotated()
	rk, rb := segmetadata.VerifC11Rotated()
	fmtMap := func(keys []string, nb []int) string {
		var out []string
		for i, k := range keys {
			out = append(out, fmt.Sprintf("%s:%d", w.nameOf(k), nb[i]))
		}
		sort.Slice(out, func(i, j int) bool { return c11BlockLess(out[i], out[j]) })
		return "[" + strings.Join(out, ",") + "]"
	}
	stateStr := "unrot=" + fmtMap(uk, ub) + " rot=" + fmtMap(rk, rb)
	// drain: rotations by stream, then queries by id
	for i := 0; i < S; i++ {
		for w.rots[i].active {
			if st := w.rotAdvance(i); st != "" {
				w.steps = append(w.steps, fmt.Sprintf("%d:%s", i, st))
			}
		}
	}
	var qids []int
	for j := range w.queries {
		qids = append(qids, j)
	}
	sort.Ints(qids)
	for _, j := range qids {
		for !w.queries[j].done {
			w.qAdvance(j, w.queries[j].stats)
		}
	}
	var parts []string
	parts = append(parts, "steps="+strings.Join(w.steps, ","))
	for _, j := range qids {
		q := w.queries[j]
		kind := "r"
		if q.stats {
			kind = "s"
		}
		s := fmt.Sprintf("q%d:%s", j, kind)
		for k := 0; k < 2 && k < len(q.snaps); k++ {
			n := "U"
			if q.snapRot[k] {
				n = "R"
			}
			s += " " + n + "=" + w.segList(q.snaps[k])
		}
		if q.extra > 0 {
			s += fmt.Sprintf(" extra-snapshots=%d", q.extra)
		}
		if q.err != "" {
			s += " err"
		} else if q.stats {
			s += fmt.Sprintf(" cnt=%d", q.count)
		} else {
			s += " res=" + c11Blocks(w, q.vids)
		}
		parts = append(parts, s)
		w.checkQuery(q, fmt.Sprintf("query %d", j))
	}
	parts = append(parts, stateStr)
	// final queries at quiescence (hook passes them through: not registered in byQid)
	fr := &c11Query{id: -1, qid: 900001, events: make(chan c11Event, 4), pre: map[int]bool{}}
	for _, v := range w.flushedVids {
		fr.pre[v] = true
	}
	fr.preN = len(w.flushedVids)
	w.runQuery(fr)
	fr.flushedAtEnd = len(w.flushedVids)
	fs := &c11Query{id: -2, qid: 900002, stats: true, events: make(chan c11Event, 4), preN: len(w.flushedVids), flushedAtEnd: len(w.flushedVids)}
	w.runQuery(fs)
	w.checkQuery(fr, "final records query")
	w.checkQuery(fs, "final count query")
	if fr.err == "" && len(fr.vids) != len(w.flushedVids) {
		w.fail("conc-replay/quiescent-contents-differ", fmt.Sprintf("after all activity stopped a match-all query returns %d events, %d were ingested", len(fr.vids), len(w.flushedVids)))
	}
	if fs.err == "" && fs.count != int64(len(w.flushedVids)) {
		w.fail("conc-replay/quiescent-count-differs", fmt.Sprintf("after all activity stopped the count is %d, %d events were ingested", fs.count, len(w.flushedVids)))
	}
	fin := "final="
	if fr.err != "" {
		fin += "err"
	} else {
		fin += c11Blocks(w, fr.vids)
	}
	if fs.err != "" {
		fin += " cnt=err"
	} else {
		fin += fmt.Sprintf(" cnt=%d", fs.count)
	}
	parts = append(parts, fin)
	fmt.Println(strings.Join(parts, " | "))
	for _, f := range w.fails {
		b, _ := json.Marshal(f)
		fmt.Println("FAIL " + string(b))
	}
}

// ---------------------------------------------------------------- check-then-look-up windows of the read path
//
//	c11w ssr | c11w reader
//
// NOT a schedule of the model (the model treats the read of a request as one step — declared in `partial`):
// a deterministic replay of "a rotation completes between the read path's `IsSegKeyUnrotated` check and the
// look-up that follows it under a second lock".  Two indexes get one flushed block each; a match-all records
// query runs until the instrumented copy stops it after the check for index 0's segment (ssr:
// query.GetSSRsFromQSR before ExtractUnrotatedSSRFromSearchNode; reader: segread.initNewMultiColumnReader
// before GetBlockSearchInfoForKey); the whole rotation of index 0 runs; the query resumes.  The property
// demands: no crash, every event (all were flushed before the query began) returned exactly once.
// Answer: ok | lost (no event of the rotated segment returned) | crash (the worker process died) — the Oracle
// prints the outcome of the ReadOne machine of Model/Conc.lean for the same window; "window-not-reached" if the
// query never came to the pause point.

func c11ParseWindow(line string) (string, bool) {
	f := strings.Fields(line)
	if len(f) == 2 && f[0] == "c11w" && (f[1] == "ssr" || f[1] == "reader") {
		return f[1], true
	}
	return "", false
}

func c11WindowReplay(win string) {
	instrumented, problem := query.VerifC11Instrumented, query.VerifC11Problem
	if win == "reader" {
		instrumented, problem = segread.VerifC11Instrumented, segread.VerifC11Problem
	}
	if !instrumented {
		fmt.Println("not-instrumented: " + problem)
		return
	}
	dir := bootEngine()
	defer os.RemoveAll(dir)
	w := &c11World{S: 2, segNames: map[string]string{}, vidBlock: map[int]string{}, queries: map[int]*c11Query{}, nextQid: 2000}
	for i := 0; i < 2; i++ {
		w.index = append(w.index, fmt.Sprintf("c11s%d", i))
		w.segOrder = append(w.segOrder, nil)
	}
	w.ingestAndFlush(0)
	w.ingestAndFlush(1)
	key0, _, _ := writer.VerifC11StoreInfo(w.index[0])
	q := &c11Query{id: 0, qid: 2001, events: make(chan c11Event, 4), pre: map[int]bool{}}
	for _, v := range w.flushedVids {
		q.pre[v] = true
	}
	q.preN = len(w.flushedVids)
	reached := make(chan string, 1)
	resume := make(chan struct{})
	var once sync.Once
	hook := func(point string, segkey string, qid uint64) {
		if qid != q.qid || segkey != key0 {
			return
		}
		fire := false
		once.Do(func() { fire = true })
		if fire {
			reached <- point
			<-resume
		}
	}
	if win == "ssr" {
		query.VerifC11Pause = hook
	} else {
		segread.VerifC11Pause = hook
	}
	go w.runQuery(q)
	select {
	case <-reached:
	case <-q.events:
		fmt.Println("window-not-reached")
		return
	case <-time.After(60 * time.Second):
		fmt.Println("worker-stall")
		return
	}
	if err := writer.VerifC11RotateIndex(w.index[0]); err != nil {
		fmt.Println("rotation-error " + err.Error())
		return
	}
	if uk, _ := writer.VerifC11Unrotated(); len(uk) != 1 {
		fmt.Println("rotation-did-not-complete")
		return
	}
	resume <- struct{}{}
	select {
	case <-q.events:
	case <-time.After(60 * time.Second):
		fmt.Println("worker-stall")
		return
	}
	q.flushedAtEnd = len(w.flushedVids)
	if q.err != "" {
		w.fail("conc/read-window/query-error", "rotation between the unrotated check and the look-up ("+win+"): "+q.err)
	} else {
		seen := map[int]int{}
		for _, v := range q.vids {
			seen[v]++
		}
		for _, v := range w.flushedVids {
			if seen[v] == 0 {
				w.fail("conc/read-window/flushed-event-missing", fmt.Sprintf("rotation between the unrotated check and the look-up (%s): the query returned %d of %d events; event %d (block %s), flushed before the query began, is missing", win, len(q.vids), len(w.flushedVids), v, w.vidBlock[v]))
				break
			}
		}
		for v, c := range seen {
			if c > 1 {
				w.fail("conc/read-window/event-returned-twice", fmt.Sprintf("event %d returned %d times", v, c))
				break
			}
		}
	}
	// canonical answer: what happened to the events of the rotated segment
	seen0 := 0
	for _, v := range q.vids {
		if strings.HasPrefix(w.vidBlock[v], "0.") {
			seen0++
		}
	}
	if q.err == "" && seen0 == 0 {
		fmt.Println("lost")
	} else {
		fmt.Println("ok")
	}
	for _, f := range w.fails {
		b, _ := json.Marshal(f)
		fmt.Println("FAIL " + string(b))
	}
}

// ---------------------------------------------------------------- suite "conc"

func c11SpawnWorker(args []string, stdin string, env []string, timeout time.Duration) (string, string, error, bool) {
	cmd := exec.Command(os.Args[0], args...)
	cmd.Stdin = strings.NewReader(stdin)
	var stdout, stderr bytes.Buffer
	cmd.Stdout = &stdout
	cmd.Stderr = &stderr
	cmd.Env = append(os.Environ(), env...)
	if err := cmd.Start(); err != nil {
		return "", "", err, false
	}
	done := make(chan error, 1)
	go func() { done <- cmd.Wait() }()
	select {
	case err := <-done:
		return stdout.String(), stderr.String(), err, false
	case <-time.After(timeout):
		cmd.Process.Kill()
		<-done
		return stdout.String(), stderr.String(), nil, true
	}
}

func c11CrashFrame(stderr string) string {
	for _, l := range strings.Split(stderr, "\n") {
		l = strings.TrimSpace(l)
		if strings.HasPrefix(l, "github.com/siglens/siglens/pkg/") {
			if i := strings.LastIndexByte(l, '('); i > 0 {
				l = l[:i]
			}
			return strings.TrimPrefix(l, "github.com/siglens/siglens/")
		}
	}
	return "unknown"
}

func execConc(line string) Result {
	if strings.HasPrefix(strings.TrimSpace(line), "c11c") {
		return c11cExec(line)
	}
	if strings.HasPrefix(strings.TrimSpace(line), "c11f") {
		return c11fExec(line)
	}
	_, labels, ok := c11Parse(line)
	win, isWin := c11ParseWindow(strings.TrimSpace(line))
	if !ok && !isWin {
		return Result{Out: "bad-op", Tags: []string{"malformed"}}
	}
	out, stderr, err, timedOut := c11SpawnWorker([]string{"c11worker", "x"}, line+"\n", []string{"GOMEMLIMIT=2GiB", "GOMAXPROCS=4"}, 150*time.Second)
	if timedOut {
		return Result{Out: "worker-timeout", Fails: []PropFail{{Sig: "conc-replay/worker-timeout", Msg: "replay worker did not finish within 150 s"}}, Nontrivial: true}
	}
	res := Result{Nontrivial: len(labels) >= 3 || isWin}
	if isWin {
		res.Tags = append(res.Tags, "read-window-"+win)
	}
	var first string
	for _, l := range strings.Split(strings.TrimSpace(out), "\n") {
		if strings.HasPrefix(l, "FAIL ") {
			var pf PropFail
			if json.Unmarshal([]byte(l[5:]), &pf) == nil {
				res.Fails = append(res.Fails, pf)
			}
		} else if first == "" && (strings.HasPrefix(l, "steps=") || strings.HasPrefix(l, "worker-stall") || strings.HasPrefix(l, "not-instrumented") || l == "bad-op" ||
			l == "ok" || l == "lost" || l == "window-not-reached" || strings.HasPrefix(l, "rotation-")) {
			first = l
		}
	}
	if first == "" {
		first = "worker-crash"
		if isWin {
			first = "crash" // the Oracle's word for it
		}
		msg := ""
		if err != nil {
			msg = err.Error()
		}
		res.Fails = append(res.Fails, PropFail{Sig: "conc/crash@" + c11CrashFrame(stderr), Msg: "replay worker died: " + msg + " " + trunc(stderr, 600)})
	}
	if strings.HasPrefix(first, "worker-stall") {
		res.Fails = append(res.Fails, PropFail{Sig: "conc-replay/stall", Msg: "a scheduled step did not complete (protocol step blocked on a lock held by a paused thread?)"})
	}
	res.Out = first
	nf, nr, nq := 0, 0, 0
	for _, l := range labels {
		switch l.kind {
		case 'f':
			nf++
		case 'r':
			nr++
		case 'q':
			nq++
		}
	}
	if nr > 0 && nq > 0 {
		res.Tags = append(res.Tags, "rotation-and-query-interleaved")
	}
	if strings.Contains(first, "cnt=") && strings.Contains(line, "s ") {
		res.Tags = append(res.Tags, "has-count-query")
	}
	if len(res.Fails) > 0 {
		res.Tags = append(res.Tags, "propfail")
	}
	return res
}

// schedules that matter, always first
var c11Fixed = []string{
	// read-path windows (outside the model, see c11WindowReplay)
	"c11w ssr",
	"c11w reader",
	"c11 1 f0 q0r q0r q0r",
	"c11 1 f0 r0 r0 r0 r0 q0r q0r q0r",
	// the former at-most-once counterexample (Props/C11.lean, at_most_once_counterexample_old): first snapshot, the
	// rotation publishes the segment, second snapshot — the segment is in both snapshots, requested once
	"c11 1 f0 q0s r0 r0 q0s q0s",
	"c11 1 f0 q0r r0 r0 q0r q0r",
	// … and with the whole rotation between the two snapshots
	"c11 1 f0 q0s r0 r0 r0 r0 q0s q0s",
	"c11 1 f0 q0r r0 r0 r0 r0 q0r q0r",
	// both snapshots inside the hand-over window (published, not yet removed from the open list)
	"c11 1 f0 r0 r0 q0s q0s q0s r0 r0",
	"c11 1 f0 r0 r0 q0r q0r q0r r0 r0",
	// rotation completes between the snapshots and the read
	"c11 1 f0 q0r q0r r0 r0 r0 r0 q0r",
	"c11 1 f0 q0s q0s r0 r0 r0 r0 q0s",
	// snapshot between publish and remove, read after the removal
	"c11 2 f0 f1 r0 r0 q0r q0r r0 r0 f0 q0r",
	"c11 2 f0 f1 f0 r0 q0s r1 r1 r0 q0s r1 q0s f1 r0 r1 r0",
	"c11 1 r0 q0r f0 q0r q0r",
	"c11 2 f0 f0 r0 r0 r0 r0 f0 f1 q0r r1 r1 q1s q0r q1s q0r q1s",
}

func genConc(r *rand.Rand, n int, tier string) []string {
	var out []string
	out = append(out, c11Fixed...)
	out = append(out, c11cFixed...)
	out = append(out, c11fFixed...)
	for len(out) < n {
		if r.Intn(100) < 12 { // concurrent flushes of different segstores (c11_flush.go)
			if r.Intn(20) == 0 {
				out = append(out, []string{"c11f 1 0", "c11f 9 0", "c11f 2 2", "c11f 2 0 / / / / 1", "c11f", "c11f 2 01", "c11f 3 x"}[r.Intn(7)])
			} else {
				out = append(out, c11fGenLine(r, tier))
			}
			continue
		}
		if r.Intn(100) < 40 { // get-or-create of the segstore table (c11_create.go)
			if r.Intn(25) == 0 {
				out = append(out, []string{"c11c 0 c0", "c11c 5 c0", "c11c 1 c16", "c11c 1 f1", "c11c 2 e2", "c11c 1 x0", "c11c 1 c", "c11c", "c11c 1 c01"}[r.Intn(9)])
			} else {
				out = append(out, c11cGenLine(r, tier))
			}
			continue
		}
		if r.Intn(25) == 0 {
			out = append(out, []string{"c11 0 f0", "c11 2 f2", "c11 1 x0", "c11 1 q0", "c11 1 q0x", "c11 01 f0", "c11", "c11 1 f-1", "c11 9 f0"}[r.Intn(9)])
			continue
		}
		S := 1 + r.Intn(3)
		nq := 1 + r.Intn(3)
		L := 4 + r.Intn(14)
		if tier == "thorough" {
			L = 4 + r.Intn(30)
		}
		kinds := make([]bool, nq)
		for i := range kinds {
			kinds[i] = r.Intn(2) == 0
		}
		var ls []string
		// bias: rotations come in bursts, queries are woven through them
		for len(ls) < L {
			switch x := r.Intn(10); {
			case x < 3:
				ls = append(ls, fmt.Sprintf("f%d", r.Intn(S)))
			case x < 7:
				ls = append(ls, fmt.Sprintf("r%d", r.Intn(S)))
			default:
				j := r.Intn(nq)
				k := "r"
				if kinds[j] {
					k = "s"
				}
				ls = append(ls, fmt.Sprintf("q%d%s", j, k))
			}
		}
		// make sure something was flushed early
		ls[0] = fmt.Sprintf("f%d", r.Intn(S))
		out = append(out, fmt.Sprintf("c11 %d %s", S, strings.Join(ls, " ")))
	}
	return out[:n]
}

func init() {
	register(&Suite{Name: "conc", Parallel: 6, Gen: genConc, Exec: execConc,
		Rule: "schedules of the Lean interleaving machine (flush / rotation step / query step over 1–3 streams and 1–3 queries, fixed hand-over schedules first) replayed step by step on the real writer, metadata and query code in a fresh engine process each: rotation stopped before each protocol step (instrumented copy of segstore.go), queries stopped after each segment-list snapshot (product hook FilterQsrsHook); compared: order of executed steps, both snapshots, blocks read / count, open and rotated lists, final contents; about 12% of the lines (c11f) are schedules of CONCURRENT FLUSHES OF 2–8 DIFFERENT SEGSTORES (own indexes; stores 5–7 second streams of indexes 0–2), 1–3 blocks each: every flush (the real AppendWipToSegfile under the store's own lock, one goroutine per store) stopped before the block summary is encoded and before it is written to the .bsu file (instrumented copy of segstore.go), 2–4 stores taken between the two points at once and released in a random order, then everything rotated; compared: the block summaries read back from every segment's .bsu file; PropFail: a summary outside the time window of its own store, unreadable .bsu, a flushed event not searchable after rotation; about 40% of the lines (c11c) are schedules of the get-or-create machine of the segstore table: 2–4 ingest calls doing the first ingest on one new stream (all past the nil check before anyone inserts / one stopped inside createSegStore / after the store was rotated and removed as stale / several streams), each call stopped before getSegStore, Lock, re-check, NewSegStore, the suffix-file write (product hook GetNextSuffixHook), insert, AddEntry (instrumented copy of segwriter.go), steps that would wait for allSegStoresLock skipped on both sides (blocked-step probes included on purpose); compared: executed steps, store every call appended to, stores built (registered / orphan, records), suffix hand-outs, acknowledged vs searchable after flush-all + rotate-all; non-trivial = ≥3 labels"})
}

func init() { registerWorker("c11worker", c11WorkerMain) }
