// C19 — user-supplied names cannot reach files outside the data directory: END-TO-END CONFINEMENT (suite "confine").
//
// What is checked is the property statement itself, on the running server, with no model in between:
//
//	a real siglens server (cmd/startup.Main in a child process, see c19_confine_worker.go) runs with its data and log
//	directories inside a sandbox tree that is populated with victim files and directories at every level above the
//	data directory (and in the install directory: server.yaml, static/).  Every op line is a SCENARIO = a sequence of
//	requests that carry hostile (and, mostly, ordinary) client-chosen names: index names (bulk `_index`, single-doc and
//	mapping routes, Splunk `index`, OTLP `siglensIndexName`, delete-index incl. comma lists and `cluster:` prefixes),
//	alias names, lookup file names (upload form value, get/delete route, `| inputlookup`), dashboard and folder ids and
//	names, saved-query names, metric names / TAG KEYS / tag values through OTSDB, Prometheus remote write (several
//	samples per series) and OTLP, the same three in metrics QUERIES (OpenTSDB query and query expressions, PromQL, label
//	values, metrics explorer), scroll ids, sort columns, static paths, ids of alerts / contacts / dashboard panels, the
//	remaining ES bulk actions and routes (see c19eKinds).  After EVERY request (followed by the flush
//	calls of the server's shutdown path, so that deferred writes such as tags-tree files happen now) the parent
//	compares a snapshot (type, size, mtime, content hash) of everything in the sandbox OUTSIDE data/ and logs/ with the
//	snapshot before: any created, modified or deleted entry is a PropFail; so is a response that contains the secret
//	token stored in a victim file (= the server read a file outside its directories for the client).
//
// Levels: `…R` = raw bytes over TCP to the real server (name placed in the URL as it is), `…E` = same, the name
// percent-encoded once by the client, `…H` = the exported handler function called directly with the route parameter
// set to the name (what a unit test of the handler does).  Handlers whose ONLY gate is the router (the model's
// `routeParamOK`: lookup get/delete, dashboard/folder by id) are driven at level H with router-deliverable values
// only (non-empty, no '/'); every other handler gets every string.
//
// Safety of the harness itself: a name carries at most 7 dot-dot units (in any spelling) and every directory a name
// can be joined to lies at least 7 levels below the sandbox root; absolute names point into the sandbox
// (placeholder @ROOT@).  So even a server that confines nothing stays inside /tmp/c19e-XXXX.
//
// Reads: every directory of THIS sandbox outside data/ and logs/ is watched for read(2)/pread(2)/getdents(2): with fanotify
// (FAN_ACCESS, needs CAP_SYS_ADMIN) every event carries the pid of the reader, and only reads by the server process of this
// sandbox count — the parent's own snapshots, other workers and any other process on the machine (a `find /tmp`, a cleanup)
// are ignored; without fanotify an inotify instance (IN_ACCESS, no pid) is used.  A read of a victim entry (c19victim*) seen
// while a step runs is only a SUSPICION (the server has background goroutines; an event may belong to an earlier step): the
// scenario up to that step is run again in a fresh sandbox, one step at a time, each followed by a quiet period, and a
// PropFail `…/read-outside` is reported for the step(s) at which the read happens again (tag read:unconfirmed otherwise).
// A response that contains a victim's secret is reported at once.  os.Stat and an open without a read are not visible this
// way (suite path, `preal tagsTreeRead`, covers the one reader found so far).
//
// Restart: every server is restarted once before its first scenario (flush calls of the shutdown path, kill, new process on
// the same directories and ports), so that the metrics of the bootstrap are ROTATED segments whose tags trees are read from
// one file per tag key; the step `restart` does the same inside a scenario (names stored before, used after).
//
// Output line: `ok <number of steps>` (the Lean side only checks the op-line grammar) — the verdict is the PropFail.
package main

import (
	"bufio"
	"bytes"
	"compress/gzip"
	"crypto/sha1"
	"encoding/hex"
	"encoding/json"
	"fmt"
	"io/fs"
	"math/rand"
	"mime/multipart"
	"net"
	"net/textproto"
	"net/url"
	"os"
	"os/exec"
	"path/filepath"
	"sort"
	"strings"
	"sync"
	"syscall"
	"time"
	"unsafe"

	"github.com/gogo/protobuf/proto"
	"github.com/golang/snappy"
	"github.com/prometheus/prometheus/prompb"
	collogpb "go.opentelemetry.io/proto/otlp/collector/logs/v1"
	collmetricspb "go.opentelemetry.io/proto/otlp/collector/metrics/v1"
	coltracepb "go.opentelemetry.io/proto/otlp/collector/trace/v1"
	commonpb "go.opentelemetry.io/proto/otlp/common/v1"
	logpb "go.opentelemetry.io/proto/otlp/logs/v1"
	metricspb "go.opentelemetry.io/proto/otlp/metrics/v1"
	resourcepb "go.opentelemetry.io/proto/otlp/resource/v1"
	tracepb "go.opentelemetry.io/proto/otlp/trace/v1"
	gproto "google.golang.org/protobuf/proto"
)

func init() {
	register(&Suite{Name: "confine", Gen: c19eGen, Exec: c19eExec, Parallel: c19eWorkers,
		Rule: "end to end on a real server process (cmd/startup.Main) inside a sandbox tree with victim files at every level: scenarios of requests with hostile and ordinary names through every name-carrying route (raw TCP, client-encoded, handler level); every server has been restarted once (its first metrics are rotated segments) and scenarios restart it again; after every request + flush the snapshot of everything outside data/ and logs/ must be unchanged, no response may contain a victim's secret and the server process must not have read a victim file or directory (fanotify FAN_ACCESS with the reader's pid, fallback inotify IN_ACCESS; a read seen while a step runs counts only if it happens again when the scenario up to that step is repeated in a fresh sandbox, one step at a time); distinct = sha1(op line); non-trivial = the scenario holds a hostile name"})
}

const c19eWorkers = 4
const c19eMaxUps = 7
const c19eSecret = "C19SECRET"

var c19eLevels = []string{"L1", "L2", "L3", "L4", "L5", "L6", "inst"}

// ---------------------------------------------------------------- step kinds

type c19eKind struct {
	names int    // number of client names the step carries (1 or 2)
	gated bool   // level H of a router-gated handler: only router-deliverable values
	what  string // name class, for the evidence
}

var c19eKinds = map[string]c19eKind{
	// index names, ingest side
	"bulk": {1, false, "index"}, "bulkH": {1, false, "index"},
	"docR": {1, false, "index"}, "docE": {1, false, "index"}, "docH": {1, false, "index"},
	"pidxR": {1, false, "index"}, "pidxE": {1, false, "index"}, "pidxH": {1, false, "index"},
	"splunk": {1, false, "index"}, "otlplog": {1, false, "index"},
	// index names, query side
	"delR": {1, false, "index"}, "delE": {1, false, "index"}, "delH": {1, false, "index"}, "delapiE": {1, false, "index"},
	"srchidx": {1, false, "index"}, "sortcol": {2, false, "index"},
	// column names: the JSON KEY of an ingested event (+ queries that make the background writers care about the column:
	// group-by usage for the aggregation tree, a repeated filter for persistent query results), rotation, sort by it
	"evkey": {1, false, "column"}, "sortq": {1, false, "column"},
	// aliases
	"aliasAdd": {2, false, "alias"}, "aliasRm": {2, false, "alias"},
	"palE": {2, false, "alias"}, "palH": {2, false, "alias"}, "galE": {1, false, "alias"}, "galH": {1, false, "alias"},
	"headE": {1, false, "alias"}, "headH": {1, false, "alias"},
	// lookups
	"upload": {1, false, "lookup"}, "uploadO": {1, false, "lookup"}, "uploadF": {1, false, "lookup"}, // uploadF: the name is the multipart FILE name
	"lkgetR": {1, false, "lookup"}, "lkgetE": {1, false, "lookup"}, "lkgetH": {1, true, "lookup"},
	"lkdelR": {1, false, "lookup"}, "lkdelE": {1, false, "lookup"}, "lkdelH": {1, true, "lookup"},
	"ilookup": {1, false, "lookup"},
	// dashboards, folders, saved queries
	"dashNew": {1, false, "dashboard"}, "dashUpd": {2, false, "dashboard"},
	"dashGetE": {1, false, "dashboard"}, "dashGetH": {1, true, "dashboard"}, "dashDelE": {1, false, "dashboard"}, "dashDelH": {1, true, "dashboard"},
	"dashFavE": {1, false, "dashboard"}, "foldNew": {2, false, "dashboard"}, "foldGetE": {1, false, "dashboard"}, "foldDelE": {1, false, "dashboard"},
	"usqSave": {1, false, "savedquery"}, "usqGetE": {1, false, "savedquery"}, "usqDelE": {1, false, "savedquery"}, "usqGetH": {1, false, "savedquery"},
	// metrics: name / tag key / tag value through three protocols; every series carries several samples
	"otsdbM": {1, false, "metric"}, "otsdbK": {1, false, "tagkey"}, "otsdbV": {1, false, "tagvalue"},
	"promM": {1, false, "metric"}, "promK": {1, false, "tagkey"}, "promV": {1, false, "tagvalue"}, "promKH": {1, false, "tagkey"},
	"otlpM": {1, false, "metric"}, "otlpK": {1, false, "tagkey"}, "otlpV": {1, false, "tagvalue"},
	// misc
	"scroll": {1, false, "scrollid"}, "staticR": {1, false, "static"}, "staticE": {1, false, "static"}, "pqsE": {1, false, "pqid"},
	// the server is restarted (flush calls of the shutdown path, process end, new process on the same directories)
	"restart": {0, false, "restart"},
	// metrics QUERIES: tag key / metric name / label name of a query (the tags tree of a rotated segment is one FILE PER TAG KEY,
	// opened by name for every tag filter): OpenTSDB GET query (exact, wildcard and value-list filter), OpenTSDB query
	// expressions (JSON tagk), PromQL instant + range query, label values route, series match[], metrics explorer
	"oqK": {1, false, "qtagkey"}, "oqM": {1, false, "qmetric"}, "oxK": {1, false, "qtagkey"}, "oxKH": {1, false, "qtagkey"},
	"pqK": {1, false, "qtagkey"}, "pqM": {1, false, "qmetric"}, "plvE": {1, false, "qtagkey"}, "plvH": {1, true, "qtagkey"}, "psK": {1, false, "qtagkey"},
	"mxTags": {1, false, "qmetric"}, "mxQ": {1, false, "qtagkey"},
	// index names: the remaining protocols and routes
	"bulkCreate": {1, false, "index"}, "bulkUpdate": {1, false, "index"}, "bulkDelete": {1, false, "index"}, "bulkQ": {1, false, "index"},
	"docCreateE": {1, false, "index"}, "docUpdateE": {1, false, "index"}, "docPostE": {1, false, "index"}, "mapE": {1, false, "index"}, "mapH": {1, false, "index"},
	"headIE": {1, false, "index"}, "esSrchE": {1, false, "index"}, "esSrchH": {1, false, "index"}, "esDocGetE": {1, false, "index"},
	"listCols": {1, false, "index"}, "pqsAggs": {2, false, "index"}, "dbpanE": {1, false, "panelid"}, "jaegerE": {1, false, "service"},
	"lokiL": {1, false, "column"}, "otlpTrace": {1, false, "service"},
	// dashboards / folders: the remaining routes, ids inside bodies
	"foldUpdE": {2, false, "dashboard"}, "foldCntE": {1, false, "dashboard"}, "dashNewP": {1, false, "dashboard"}, "dashMove": {1, false, "dashboard"},
	// alerts, contacts, minion searches (kept in a database file with a fixed name; names must stay rows)
	"alertGetE": {1, false, "alert"}, "alertHistE": {1, false, "alert"}, "minionGetE": {1, false, "alert"}, "contactNew": {1, false, "alert"},
}

var c19eKindNames = func() []string {
	var l []string
	for k := range c19eKinds {
		l = append(l, k)
	}
	sort.Strings(l)
	return l
}()

// ---------------------------------------------------------------- generator

var c19eUpUnits = []string{"../", "../", "../", "../", "..%2F", "..%2f", "%2e%2e/", "%2e%2e%2f", "%2E%2E%2F", "%252e%252e%252f", "..%252f",
	"..\\", "..%5c", ".%2e/", "%2e./", "..//", ".././", "....//", "..;/", "．．/", "‥/", "..%c0%af", "..\x00/"}
var c19eLeaves = []string{"c19victim", "c19victim", "c19victim.csv", "c19victim.json", "c19victim.txt", "c19victim.tt", "c19victim/important.txt", "c19victim/important.csv",
	"c19new", "c19new.csv", "c19victim.csv.gz", "server.yaml", "static/index.html", "c19victim/"}
var c19eValidNames = []string{"c19ok", "c19idx", "c19-idx_2", "c19.metrics.cpu", "évts", "日本", "a b", "...", "..a", "a..", ".hidden", "%2e%2e", "%2f", "x.csv", "c19lk.csv",
	"c19lk.csv.gz", "host", "host.name", "k8s.pod.name", "~tmp", "a:b", "A1", "c19boot"}
var c19eValidPrefixes = []string{"c19boot/", "c19ok/", "c19boot,", "c19boot,c19ok,", "cluster:", "c19cl:", "*,", "c19*,", "lookups/", "c19lk.csv/", "./", "c19boot/./", "H/", "final/"}

func c19eHexS(s string) string { return c19Hex(s) }

// a hostile name: at most c19eMaxUps dot-dot units in any spelling
func c19eHostile(r *rand.Rand) (string, string) {
	switch k := r.Intn(118); {
	case k >= 100: // the whole escape in ONE spelling that a decoder turns into "../" (percent-escapes, once or twice)
		ups := 1 + r.Intn(c19eMaxUps)
		unit := c19Pick(r, []string{"..%2F", "..%2f", "%2e%2e%2f", "%2E%2E%2F", "%2e%2e/", ".%2e%2f", "..%252F", "%252e%252e%252f", "..%5c", "..+%2F"})
		leaf := c19Pick(r, c19eLeaves)
		if r.Intn(2) == 0 {
			leaf = strings.ReplaceAll(leaf, "/", "%2F")
		}
		pre := ""
		if r.Intn(5) == 0 {
			pre = strings.ReplaceAll(c19Pick(r, c19eValidPrefixes), "/", "%2F")
		}
		return pre + strings.Repeat(unit, ups) + leaf, "encoded"
	case k < 50: // k ups in one spelling, optional valid prefix, a leaf that exists (or not) outside
		ups := 1 + r.Intn(c19eMaxUps)
		unit := c19Pick(r, c19eUpUnits)
		if r.Intn(3) > 0 {
			unit = "../"
		}
		var sb strings.Builder
		cls := "ups"
		if r.Intn(4) == 0 {
			sb.WriteString(c19Pick(r, c19eValidPrefixes))
			cls = "prefix+ups"
		}
		for i := 0; i < ups; i++ {
			if r.Intn(8) == 0 {
				sb.WriteString(c19Pick(r, c19eUpUnits)) // mixed spellings
			} else {
				sb.WriteString(unit)
			}
		}
		sb.WriteString(c19Pick(r, c19eLeaves))
		if unit != "../" {
			cls += "-encoded"
		}
		return sb.String(), cls
	case k < 62: // absolute, pointing into the sandbox
		lv := r.Intn(len(c19eLevels))
		p := "@ROOT@"
		for i := 0; i < lv; i++ {
			p += "/" + c19eLevels[i]
		}
		p += "/" + c19Pick(r, c19eLeaves)
		switch r.Intn(6) {
		case 0:
			p = "/" + p
		case 1:
			p = "file://" + p
		case 2:
			p = strings.ReplaceAll(p, "/", "%2F")
		case 3:
			p = "c19boot," + p
		}
		return p, "absolute"
	case k < 70: // climbs and comes back / ends in dots
		ups := 1 + r.Intn(c19eMaxUps)
		return strings.Repeat("../", ups) + c19Pick(r, []string{"", "..", ".", "c19victim/..", "c19victim/../c19victim.csv", "c19victim/./important.txt"}), "ups-dots"
	case k < 78: // NUL, control bytes, truncation tricks
		ups := 1 + r.Intn(c19eMaxUps)
		return strings.Repeat("../", ups) + c19Pick(r, []string{"c19victim.txt\x00.csv", "c19victim\x00", "c19victim.csv\x00x", "c19victim.txt%00.csv", "c19victim.txt\n", "c19victim.txt ", " c19victim.txt", "c19victim.txt#.csv", "c19victim.txt?.csv"}), "nul"
	case k < 86: // very long
		switch r.Intn(3) {
		case 0:
			return strings.Repeat("a", 256+r.Intn(4000)), "long"
		case 1:
			return strings.Repeat("a/", 100+r.Intn(400)) + strings.Repeat("../", r.Intn(c19eMaxUps+1)) + "c19victim", "long"
		default:
			return strings.Repeat("../", 1+r.Intn(c19eMaxUps)) + strings.Repeat("b", 255+r.Intn(50)) + "/../c19victim.csv", "long"
		}
	case k < 92: // separators only / degenerate
		return c19Pick(r, []string{".", "..", "/", "//", "./", "../", "..\\", "\\", "c19boot/", "c19boot/..", "c19boot/../..", "", " ", "%2e", "%2e%2e", "%2f", "..%2f", "*", "c19*", "_all", ".kibana", ".kibana/../../c19victim", "traces", "cluster:", ","}), "degenerate"
	default: // unicode look-alikes and mixed separators
		ups := 1 + r.Intn(c19eMaxUps)
		u := c19Pick(r, []string{"．．/", "‥/", "..∕", "..／", "..\\/", "..%u2215", "..%ef%bc%8f", "‮../"})
		return strings.Repeat(u, ups) + c19Pick(r, c19eLeaves), "unicode"
	}
}

func c19eValid(r *rand.Rand) string {
	return c19Pick(r, c19eValidNames)
}

// ups in any spelling the generator knows (used only to tag lines; safety comes from the construction above)
func c19eIsHostile(n string) bool {
	for _, v := range c19eValidNames {
		if n == v {
			return false
		}
	}
	return strings.Contains(n, "..") || strings.Contains(n, "/") || strings.Contains(n, "\\") || strings.Contains(n, "%") || strings.Contains(n, "@ROOT@") ||
		strings.Contains(n, "．") || strings.Contains(n, "‥") || strings.ContainsRune(n, 0) || len(n) > 200
}

func c19eStep(kind string, names ...string) string {
	s := kind
	for _, n := range names {
		s += ":" + c19eHexS(n)
	}
	return s
}

var c19eIndexKinds = []string{"bulk", "bulkH", "docR", "docE", "docH", "pidxR", "pidxE", "pidxH", "splunk", "otlplog", "delR", "delE", "delH", "delH", "delH", "delapiE", "srchidx"}
var c19eLookupKinds = []string{"upload", "uploadO", "upload", "uploadO", "uploadF", "lkgetR", "lkgetE", "lkgetH", "lkdelR", "lkdelE", "lkdelH", "ilookup", "ilookup"}
var c19eMetricKinds = []string{"otsdbM", "otsdbK", "otsdbK", "otsdbV", "promM", "promK", "promK", "promK", "promKH", "promV", "otlpM", "otlpK", "otlpK", "otlpV"}
var c19eDashKinds = []string{"dashNew", "dashUpd", "dashGetE", "dashGetH", "dashDelE", "dashDelH", "dashFavE", "foldNew", "foldGetE", "foldDelE", "usqSave", "usqGetE", "usqDelE", "usqGetH"}
var c19eAliasKinds = []string{"aliasAdd", "aliasAdd", "aliasRm", "palE", "palH", "galE", "galH", "headE", "headH"}
var c19eMiscKinds = []string{"scroll", "staticR", "staticE", "pqsE", "sortcol", "dbpanE", "jaegerE", "lokiL", "otlpTrace", "alertGetE", "alertHistE", "minionGetE", "contactNew", "pqsAggs"}
var c19eMQueryKinds = []string{"oqK", "oqK", "oqK", "oqM", "oxK", "oxK", "oxKH", "pqK", "pqM", "plvE", "plvH", "psK", "mxTags", "mxQ"}
var c19eIndex2Kinds = []string{"bulkCreate", "bulkUpdate", "bulkDelete", "bulkQ", "docCreateE", "docUpdateE", "docPostE", "mapE", "mapH", "headIE", "esSrchE", "esSrchH", "esDocGetE", "listCols", "pqsAggs"}
var c19eDash2Kinds = []string{"foldUpdE", "foldCntE", "dashNewP", "dashMove"}
var c19eColumnKinds = []string{"evkey", "evkey", "evkey", "sortcol", "sortcol", "sortq"}

func c19eGenStep(r *rand.Rand, kind string, hostileShare int) string {
	k := c19eKinds[kind]
	if k.names == 0 {
		return kind
	}
	pick := func() string {
		if r.Intn(100) < hostileShare {
			for {
				n, _ := c19eHostile(r)
				if k.gated && (n == "" || strings.Contains(n, "/")) {
					continue // level H of a router-gated handler: the router never delivers these
				}
				return n
			}
		}
		return c19eValid(r)
	}
	if k.names == 2 {
		a, b := pick(), pick()
		if r.Intn(2) == 0 { // usually only one of the two is hostile
			if r.Intn(2) == 0 {
				a = c19eValid(r)
			} else {
				b = c19eValid(r)
			}
		}
		return c19eStep(kind, a, b)
	}
	return c19eStep(kind, pick())
}

func c19eGen(r *rand.Rand, n int, tier string) []string {
	var out []string
	add := func(steps ...string) { out = append(out, "cf "+strings.Join(steps, " ")) }
	// fixed scenarios: one per family, the shapes the property text names
	add(c19eStep("bulk", "c19idx"), c19eStep("delH", "../../../c19victim"), c19eStep("delH", "c19idx,../../../c19victim"), c19eStep("delH", "cluster:../../../c19victim"), c19eStep("delH", "c19idx"))
	add(c19eStep("uploadO", "..%2F..%2Fc19victim"), c19eStep("upload", "%2e%2e%2f%2e%2e%2fc19new"), c19eStep("uploadO", "../../c19victim.csv"), c19eStep("upload", "c19lk.csv"), c19eStep("lkgetE", "../../c19victim.csv"))
	add(c19eStep("promK", "../../../../../../c19victim.txt"), c19eStep("promK", "host"), c19eStep("otsdbK", "../../../../../../c19new"), c19eStep("otlpK", "../../../../../../c19new"))
	add(c19eStep("aliasAdd", "../../../../../c19victim", "c19al"), c19eStep("aliasAdd", "c19boot", "../../../../../c19victim"), c19eStep("aliasRm", "../../../../../c19victim", "c19al"))
	add(c19eStep("bulk", "c19sc"), c19eStep("sortcol", "c19sc", "../../../../../../../c19new"), c19eStep("sortcol", "c19sc", "m"))
	add(c19eStep("evkey", "../../../../../../../c19new"), c19eStep("evkey", "@ROOT@/L1/c19victim.txt"), c19eStep("evkey", "m"), c19eStep("sortq", "../../../../../../../c19victim"), c19eStep("sortq", "m"))
	add(c19eStep("ilookup", "../../c19victim.csv"), c19eStep("ilookup", "@ROOT@/L1/c19victim.csv"), c19eStep("staticR", "../c19victim.txt"), c19eStep("staticE", "../server.yaml"), c19eStep("scroll", "../../../c19victim"))
	// metrics queries on a restarted server (the bootstrap series are rotated): tag key = file name of the tags tree reader
	add(c19eStep("oqK", "c19k"), c19eStep("oqK", "../../../../../../c19victim.tt"), c19eStep("oqK", "../../../../../../c19victim.txt"), c19eStep("oxK", "../../../../../../../c19victim.tt"), c19eStep("oxKH", "@ROOT@/L1/c19victim.tt"))
	add(c19eStep("plvE", "c19k"), c19eStep("plvE", ".."), c19eStep("plvH", ".."), c19eStep("pqK", "c19k"), c19eStep("psK", "job"), c19eStep("mxTags", "c19m"), c19eStep("mxTags", "../../../../../../c19victim.tt"), c19eStep("oqM", "../../../../../../c19victim.tt"))
	// histories: a name is stored, the server restarts, the name is read back and used
	add(c19eStep("promK", "c19k2"), c19eStep("usqSave", "../../../c19victim"), c19eStep("aliasAdd", "c19boot", "../../../../../c19victim"), c19eStep("restart"), c19eStep("oqK", "../../../../../../c19victim.tt"), c19eStep("usqGetE", "../../../c19victim"), c19eStep("galE", "../../../../../c19victim"), c19eStep("srchidx", "*"))
	add(c19eStep("bulkCreate", "../../../c19victim"), c19eStep("bulkUpdate", "../../../c19victim"), c19eStep("bulkDelete", "../../../c19victim"), c19eStep("bulkQ", "../../../c19victim"), c19eStep("esSrchE", "..%2F..%2F..%2Fc19victim"), c19eStep("esSrchH", "..%2F..%2F..%2Fc19victim"), c19eStep("listCols", "../../../c19victim"))
	add(c19eStep("dashMove", "../../../c19victim"), c19eStep("dashNewP", "../../../c19victim"), c19eStep("foldUpdE", "root-folder", "../../../c19victim"), c19eStep("pqsAggs", "c19boot", "../../../../../../../c19new"), c19eStep("lokiL", "../../../../../../../c19new"), c19eStep("otlpTrace", "../../../../../../../c19new"))
	out = append(out, "cf", "cf nosuchkind:61", "cf bulk", "cf bulk:zz", "cf bulk:61:62:63", "cf lkgetH:"+c19eHexS("a/b"), "cf restart:61", "cf plvH:"+c19eHexS("a/b"))
	for len(out) < n {
		var steps []string
		fam := r.Intn(100)
		switch {
		case fam < 12: // metrics QUERIES against rotated segments: the tag key of a filter is the name of the file the reader opens
			if r.Intn(4) == 0 { // fresh series with a second key, rotated by a restart
				steps = append(steps, c19eStep(c19Pick(r, []string{"promK", "otsdbK", "otlpK"}), c19Pick(r, []string{"c19k2", "host", "k8s.pod.name"})), c19eStep("restart"))
			}
			for i := 2 + r.Intn(4); i > 0; i-- {
				k := c19Pick(r, c19eMQueryKinds)
				if r.Intn(2) == 0 && !c19eKinds[k].gated { // the depth of the tags tree directory below the install directory, and one more
					steps = append(steps, c19eStep(k, strings.Repeat("../", 6+r.Intn(2))+c19Pick(r, []string{"c19victim.tt", "c19victim.tt", "c19victim.txt", "c19victim.csv", "c19victim", "c19victim/important.txt", "c19new"})))
				} else {
					steps = append(steps, c19eGenStep(r, k, 70))
				}
			}
		case fam < 18: // histories: names are stored, the server restarts, the names are read back from its files and used
			for i := 1 + r.Intn(3); i > 0; i-- {
				steps = append(steps, c19eGenStep(r, c19Pick(r, []string{"usqSave", "aliasAdd", "palE", "upload", "bulk", "splunk", "sortcol", "dashNew", "foldNew", "promK", "otsdbM", "pqsAggs", "contactNew", "evkey"}), 75))
			}
			steps = append(steps, c19eStep("restart"))
			for i := 2 + r.Intn(3); i > 0; i-- {
				steps = append(steps, c19eGenStep(r, c19Pick(r, []string{"usqGetE", "usqDelE", "galE", "headE", "lkgetE", "ilookup", "srchidx", "delH", "sortq", "dashGetE", "foldGetE", "oqK", "oqM", "mxTags", "listCols", "esSrchE", "bulk", "aliasRm"}), 70))
			}
		case fam < 36: // index life cycle: create valid, operate with hostile (valid prefix + separators), delete
			steps = append(steps, c19eStep(c19Pick(r, []string{"bulk", "bulkH", "docE", "splunk"}), c19eValid(r)))
			for i := 2 + r.Intn(4); i > 0; i-- {
				steps = append(steps, c19eGenStep(r, c19Pick(r, append(append([]string{}, c19eIndexKinds...), c19eIndex2Kinds...)), 75))
			}
			if r.Intn(2) == 0 {
				steps = append(steps, c19eGenStep(r, "delH", 85))
			}
		case fam < 50: // lookups: upload valid, then hostile get/delete/upload/inputlookup
			steps = append(steps, c19eStep("upload", c19Pick(r, []string{"c19lk.csv", "c19lk", "c19lk.csv.gz", "x.csv"})))
			for i := 2 + r.Intn(4); i > 0; i-- {
				steps = append(steps, c19eGenStep(r, c19Pick(r, c19eLookupKinds), 75))
			}
		case fam < 62: // metrics: multi-sample series with hostile names / tag keys / values
			for i := 2 + r.Intn(4); i > 0; i-- {
				steps = append(steps, c19eGenStep(r, c19Pick(r, c19eMetricKinds), 70))
			}
		case fam < 72: // column names: hostile JSON keys in events, sort columns, rotation with every background writer
			idx := c19Pick(r, []string{"c19col", "c19ok", "c19idx"})
			steps = append(steps, c19eStep("bulk", idx))
			for i := 2 + r.Intn(3); i > 0; i-- {
				k := c19Pick(r, c19eColumnKinds)
				if k == "sortcol" { // index valid, column mostly hostile — and with all seven levels in half of the cases
					col, _ := c19eHostile(r)
					if r.Intn(2) == 0 {
						col = strings.Repeat("../", c19eMaxUps) + c19Pick(r, c19eLeaves)
					}
					if r.Intn(5) == 0 {
						col = c19eValid(r)
					}
					steps = append(steps, c19eStep("sortcol", idx, col))
				} else {
					steps = append(steps, c19eGenStep(r, k, 80))
				}
			}
		case fam < 79:
			steps = append(steps, c19eStep("dashNew", c19eValid(r)))
			for i := 2 + r.Intn(4); i > 0; i-- {
				steps = append(steps, c19eGenStep(r, c19Pick(r, append(append([]string{}, c19eDashKinds...), c19eDash2Kinds...)), 75))
			}
		case fam < 88:
			steps = append(steps, c19eStep("bulk", "c19boot"))
			for i := 2 + r.Intn(4); i > 0; i-- {
				steps = append(steps, c19eGenStep(r, c19Pick(r, c19eAliasKinds), 75))
			}
		default:
			for i := 2 + r.Intn(5); i > 0; i-- {
				steps = append(steps, c19eGenStep(r, c19Pick(r, append(append([]string{}, c19eMiscKinds...), c19eKindNames...)), 70))
			}
		}
		add(steps...)
	}
	return out[:n]
}

// ---------------------------------------------------------------- sandbox + worker

type c19eSandbox struct {
	root, inst   string
	iport, qport string
	cmd          *exec.Cmd
	stdin        *bufio.Writer
	lines        chan string
	dataPath     string
	victims      map[string][]byte // regular victim files: path → content
	base         map[string]string // snapshot of the outside after populate + boot
	watch        *c19eWatch        // inotify watches on every directory outside data/ and logs/
	dead         bool
}

var c19ePool chan *c19eSandbox
var c19ePoolOnce sync.Once
var c19eAll []*c19eSandbox
var c19eAllMu sync.Mutex

func c19eFreePort() string {
	l, err := net.Listen("tcp", "127.0.0.1:0")
	if err != nil {
		return "0"
	}
	defer l.Close()
	return fmt.Sprint(l.Addr().(*net.TCPAddr).Port)
}

func (s *c19eSandbox) populate() {
	dir := s.root
	dirs := []string{dir}
	for _, l := range c19eLevels {
		dir = filepath.Join(dir, l)
		dirs = append(dirs, dir)
	}
	s.inst = dir
	s.victims = map[string][]byte{}
	for i, d := range dirs {
		must(os.MkdirAll(filepath.Join(d, "c19victim"), 0o755))
		tok := fmt.Sprintf("%s-%d", c19eSecret, i)
		var gz bytes.Buffer
		zw := gzip.NewWriter(&gz)
		zw.Write([]byte("c19col\n" + tok + "-gz\n"))
		zw.Close()
		if len(c19eDonorTT) > 0 {
			// a tags tree file as another siglens instance (or a backup of this one) leaves it: holds the tag values of its series
			s.victims[filepath.Join(d, "c19victim.tt")] = c19eDonorTT
		}
		for name, content := range map[string][]byte{
			"c19victim.txt":           []byte("do not touch " + tok + "-txt\n"),
			"c19victim.csv":           []byte("c19col\n" + tok + "-csv\n"),
			"c19victim.json":          []byte(`{"c19":"` + tok + `-json"}` + "\n"),
			"c19victim.csv.gz":        gz.Bytes(),
			"c19victim/important.txt": []byte("important " + tok + "-dirtxt\n"),
			"c19victim/important.csv": []byte("c19col\n" + tok + "-dircsv\n"),
		} {
			s.victims[filepath.Join(d, name)] = content
		}
	}
	// the install directory: static assets (served by the UI route) and, written by the worker, server.yaml
	must(os.MkdirAll(filepath.Join(s.inst, "static", "js"), 0o755))
	s.victims[filepath.Join(s.inst, "static", "index.html")] = []byte("<html><body>c19 ui</body></html>\n")
	s.victims[filepath.Join(s.inst, "static", "js", "c19.js")] = []byte("// c19\n")
	s.restore()
}

// restore puts every victim back (after a violation) and removes what does not belong outside
func (s *c19eSandbox) restore() {
	for p, c := range s.victims {
		if b, err := os.ReadFile(p); err != nil || !bytes.Equal(b, c) {
			os.RemoveAll(p)
			os.MkdirAll(filepath.Dir(p), 0o755)
			os.WriteFile(p, c, 0o644)
		}
	}
	if s.base != nil {
		for p := range s.snapshot() {
			if _, ok := s.base[p]; !ok {
				os.RemoveAll(p)
			}
		}
	}
}

func (s *c19eSandbox) allowed(p string) bool {
	for _, a := range []string{filepath.Join(s.inst, "data"), filepath.Join(s.inst, "logs")} {
		if p == a || strings.HasPrefix(p, a+"/") {
			return true
		}
	}
	return false
}

// snapshot of everything in the sandbox outside data/ and logs/
func (s *c19eSandbox) snapshot() map[string]string {
	m := map[string]string{}
	filepath.WalkDir(s.root, func(p string, d fs.DirEntry, err error) error {
		if err != nil {
			return nil
		}
		if s.allowed(p) {
			if d.IsDir() {
				return filepath.SkipDir
			}
			return nil
		}
		if d.IsDir() {
			m[p] = "dir"
			return nil
		}
		st, err := os.Lstat(p)
		if err != nil {
			return nil
		}
		sig := fmt.Sprintf("%v:%d:%d", st.Mode().Type(), st.Size(), st.ModTime().UnixNano())
		if st.Mode().IsRegular() && st.Size() < 1<<16 {
			if b, err := os.ReadFile(p); err == nil {
				h := sha1.Sum(b)
				sig += ":" + hex.EncodeToString(h[:6])
			}
		}
		m[p] = sig
		return nil
	})
	return m
}

func c19eNewSandbox(donor bool) (*c19eSandbox, error) {
	root, err := os.MkdirTemp("/tmp", "c19e-")
	if err != nil {
		return nil, err
	}
	if real, err := filepath.EvalSymlinks(root); err != nil || real != root {
		return nil, fmt.Errorf("sandbox root must not involve symlinks: %s", root)
	}
	s := &c19eSandbox{root: root}
	s.populate()
	s.iport, s.qport = c19eFreePort(), c19eFreePort()
	c19eAllMu.Lock()
	c19eAll = append(c19eAll, s)
	c19eAllMu.Unlock()
	if err := s.start(); err != nil {
		return nil, err
	}
	// a live node has flushed events before: <data>/<host>/final exists
	for _, rq := range c19eBuild(s, "bulk", []string{"c19boot"}) {
		if _, err := s.call(rq, 30*time.Second); err != nil {
			s.kill()
			return nil, fmt.Errorf("bootstrap ingest failed: %v", err)
		}
	}
	// … and has been restarted since: the metrics ingested in its first life are ROTATED now (their tags trees are
	// read from files named after the tag keys), index, alias and saved-query names come back from the files they went to
	if !donor {
		for _, rq := range c19eBuild(s, "otsdbK", []string{"c19k"}) {
			if _, err := s.call(rq, 30*time.Second); err != nil {
				s.kill()
				return nil, fmt.Errorf("bootstrap metrics ingest failed: %v", err)
			}
		}
		if err := s.restart(); err != nil {
			return nil, err
		}
	}
	s.base = s.snapshot()
	s.watch = c19eNewWatch(s)
	return s, nil
}

// start launches the server process of this sandbox (first start and every restart: same root, same ports)
func (s *c19eSandbox) start() error {
	self, err := os.Executable()
	if err != nil {
		return err
	}
	cmd := exec.Command(self, "c19eworker", s.root, s.iport, s.qport)
	cmd.Dir = s.inst
	cmd.Env = append(os.Environ(), "GOMAXPROCS=4")
	in, err := cmd.StdinPipe()
	if err != nil {
		return err
	}
	outp, err := cmd.StdoutPipe()
	if err != nil {
		return err
	}
	cmd.Stderr = nil
	if os.Getenv("C19E_DEBUG") != "" {
		cmd.Stderr = os.Stderr
	}
	if err := cmd.Start(); err != nil {
		return err
	}
	s.cmd = cmd
	s.stdin = bufio.NewWriterSize(in, 1<<20)
	lines := make(chan string, 16)
	s.lines = lines
	go func() {
		sc := bufio.NewScanner(outp)
		sc.Buffer(make([]byte, 1<<20), 1<<26)
		for sc.Scan() {
			if t := sc.Text(); strings.HasPrefix(t, "@@") {
				lines <- t[2:]
			}
		}
		close(lines)
		cmd.Wait()
	}()
	select {
	case l, ok := <-s.lines:
		if !ok || !strings.HasPrefix(l, "READY ") {
			s.kill()
			return fmt.Errorf("worker did not start: %q", l)
		}
		s.dataPath = strings.Fields(l)[1]
	case <-time.After(90 * time.Second):
		s.kill()
		return fmt.Errorf("worker start timed out")
	}
	return nil
}

// restart = what an operator's restart of the server is: the flush calls of ShutdownSiglensServer, the process ends, a new
// process starts on the same directories and ports.  Everything the first process kept only in memory is gone, everything
// it wrote under client-chosen names is read back.
func (s *c19eSandbox) restart() error {
	if _, err := s.call(c19eReq{Level: "flush"}, 30*time.Second); err != nil {
		s.kill()
		return fmt.Errorf("flush before restart failed: %v", err)
	}
	old, oldLines := s.cmd, s.lines
	old.Process.Kill()
	for range oldLines { // closed by the reader goroutine when the process is gone
	}
	for try := 0; ; try++ {
		err := s.start()
		if err == nil {
			s.dead = false
			// the query node reads the metadata of the rotated metrics segments a moment after the ports are open
			probe := c19eRaw("q", "GET", "/otsdb/api/query?start="+c19eQStart+"&end="+c19eQEnd+"&m="+url.QueryEscape("avg:c19m{c19k=c19v}"), nil, nil, false)
			for i := 0; i < 100; i++ {
				rs, err := s.call(probe, 10*time.Second)
				if err != nil {
					s.kill()
					return fmt.Errorf("restarted worker lost: %v", err)
				}
				if bytes.Contains(rs.Body, []byte(`"c19m"`)) {
					break
				}
				time.Sleep(50 * time.Millisecond)
			}
			return nil
		}
		if try == 2 {
			s.dead = true
			return err
		}
		time.Sleep(200 * time.Millisecond)
	}
}

func (s *c19eSandbox) kill() {
	s.dead = true
	s.watch.close()
	s.watch = nil
	if s.cmd != nil && s.cmd.Process != nil {
		s.cmd.Process.Kill()
	}
}

func (s *c19eSandbox) call(rq c19eReq, timeout time.Duration) (c19eResp, error) {
	var rs c19eResp
	b, _ := json.Marshal(rq)
	s.stdin.Write(b)
	s.stdin.WriteByte('\n')
	if err := s.stdin.Flush(); err != nil {
		return rs, err
	}
	select {
	case l, ok := <-s.lines:
		if !ok {
			return rs, fmt.Errorf("worker died")
		}
		if err := json.Unmarshal([]byte(l), &rs); err != nil {
			return rs, err
		}
		return rs, nil
	case <-time.After(timeout):
		return rs, fmt.Errorf("timeout")
	}
}

// ---------------------------------------------------------------- reads: inotify on everything outside data/ and logs/

// c19eWatch reports which VICTIM files or directories (entries named c19victim*, and everything below a c19victim
// directory) of THIS sandbox were read since the last drain.  fanotify: the event names the reading process, reads(pid) keeps
// the events of that process only.  inotify (fallback): any process; the parent itself reads the victims inside
// snapshot()/restore(), so the caller must drain before a step, and a sandbox taken from the pool must be drained first.
type c19eWatch struct {
	fan  bool
	fd   int
	root string
	dirs map[int32]string // inotify: watch descriptor → directory
}

const (
	c19eFanCloexec      = 0x1
	c19eFanNonblock     = 0x2
	c19eFanMarkAdd      = 0x1
	c19eFanAccess       = 0x1
	c19eFanEventOnChild = 0x08000000
	c19eFanOndir        = 0x40000000
)

var c19eNoFanotify = os.Getenv("C19E_NO_FANOTIFY") != ""

func c19eNewWatch(s *c19eSandbox) *c19eWatch {
	var dirs []string
	filepath.WalkDir(s.root, func(p string, d fs.DirEntry, err error) error {
		if err != nil || !d.IsDir() {
			return nil
		}
		if s.allowed(p) {
			return filepath.SkipDir
		}
		dirs = append(dirs, p)
		return nil
	})
	if !c19eNoFanotify {
		if fd, _, e := syscall.Syscall(syscall.SYS_FANOTIFY_INIT, c19eFanCloexec|c19eFanNonblock, uintptr(os.O_RDONLY|syscall.O_LARGEFILE|syscall.O_CLOEXEC), 0); e == 0 {
			w := &c19eWatch{fan: true, fd: int(fd), root: s.root}
			ok := true
			atFdcwd := -100
			for _, d := range dirs {
				pth, err := syscall.BytePtrFromString(d)
				if err != nil {
					ok = false
					break
				}
				if _, _, e := syscall.Syscall6(syscall.SYS_FANOTIFY_MARK, fd, c19eFanMarkAdd, c19eFanAccess|c19eFanEventOnChild|c19eFanOndir, uintptr(atFdcwd), uintptr(unsafe.Pointer(pth)), 0); e != 0 {
					ok = false
					break
				}
			}
			if ok {
				w.reads(0)
				return w
			}
			syscall.Close(int(fd))
		}
	}
	fd, err := syscall.InotifyInit1(syscall.IN_NONBLOCK | syscall.IN_CLOEXEC)
	if err != nil {
		return nil
	}
	w := &c19eWatch{fd: fd, root: s.root, dirs: map[int32]string{}}
	for _, d := range dirs {
		if wd, err := syscall.InotifyAddWatch(fd, d, syscall.IN_ACCESS); err == nil {
			w.dirs[int32(wd)] = d
		}
	}
	w.reads(0) // the walk itself read the directories
	return w
}

func (w *c19eWatch) close() {
	if w != nil {
		w.reads(0) // closes the descriptors of pending fanotify events
		syscall.Close(w.fd)
	}
}

func (w *c19eWatch) isVictim(p string) bool {
	if p != w.root && !strings.HasPrefix(p, w.root+"/") {
		return false
	}
	return strings.HasPrefix(filepath.Base(p), "c19victim") || strings.Contains(p+"/", "/c19victim/")
}

// reads returns the victim entries read since the last call (sorted, unique) — with fanotify: read by process `pid`
// (0 = nobody: drain only); drain = call it and drop the result
func (w *c19eWatch) reads(pid int) []string {
	if w == nil {
		return nil
	}
	seen := map[string]bool{}
	buf := make([]byte, 1<<16)
	for {
		n, err := syscall.Read(w.fd, buf)
		if err == syscall.EINTR {
			continue
		}
		if n <= 0 || err != nil {
			break
		}
		if w.fan {
			// struct fanotify_event_metadata { u32 event_len; u8 vers; u8 reserved; u16 metadata_len; u64 mask; s32 fd; s32 pid }
			for off := 0; off+24 <= n; {
				evLen := int(*(*uint32)(unsafe.Pointer(&buf[off])))
				mask := *(*uint64)(unsafe.Pointer(&buf[off+8]))
				efd := int(*(*int32)(unsafe.Pointer(&buf[off+16])))
				epid := int(*(*int32)(unsafe.Pointer(&buf[off+20])))
				if evLen < 24 {
					break
				}
				off += evLen
				if efd < 0 {
					continue // queue overflow marker
				}
				if pid != 0 && epid == pid && mask&c19eFanAccess != 0 {
					if p, err := os.Readlink(fmt.Sprintf("/proc/self/fd/%d", efd)); err == nil && w.isVictim(p) {
						seen[p] = true
					}
				}
				syscall.Close(efd)
			}
			continue
		}
		for off := 0; off+syscall.SizeofInotifyEvent <= n; {
			ev := (*syscall.InotifyEvent)(unsafe.Pointer(&buf[off]))
			name := strings.TrimRight(string(buf[off+syscall.SizeofInotifyEvent:off+syscall.SizeofInotifyEvent+int(ev.Len)]), "\x00")
			off += syscall.SizeofInotifyEvent + int(ev.Len)
			dir, ok := w.dirs[ev.Wd]
			if !ok || ev.Mask&syscall.IN_ACCESS == 0 || name == "" || pid == 0 {
				continue
			}
			if p := filepath.Join(dir, name); w.isVictim(p) {
				seen[p] = true
			}
		}
	}
	var l []string
	for p := range seen {
		l = append(l, p)
	}
	sort.Strings(l)
	return l
}

// pid of the server process of this sandbox (changes with every restart)
func (s *c19eSandbox) pid() int {
	if s.cmd != nil && s.cmd.Process != nil {
		return s.cmd.Process.Pid
	}
	return -1
}

// c19eConfirmReads decides a suspected read: the scenario prefix is run again in a FRESH sandbox (not from the pool), one
// step at a time; after each step the watch is polled until nothing has been read for 250 ms (at most 3 s), so that a read
// by a background goroutine of the server is booked on the step that causes it.  Result: step index → victim entries read.
func c19eConfirmReads(steps []c19eParsed) map[int][]string {
	res := map[int][]string{}
	var s *c19eSandbox
	var err error
	for try := 0; try < 2 && s == nil; try++ {
		if s, err = c19eNewSandbox(false); err != nil {
			s = nil
		}
	}
	if s == nil {
		return res
	}
	defer func() {
		s.kill()
		os.RemoveAll(s.root)
	}()
	for i, st := range steps {
		s.watch.reads(0)
		if st.kind == "restart" {
			if s.restart() != nil {
				return res
			}
		}
		for _, rq := range c19eBuild(s, st.kind, append([]string{}, st.names...)) {
			if _, err := s.call(rq, 25*time.Second); err != nil {
				return res // the server was lost: nothing can be confirmed beyond this point
			}
		}
		seen := map[string]bool{}
		quiet := 0
		for t := 0; t < 60 && quiet < 5; t++ {
			r := s.watch.reads(s.pid())
			if len(r) == 0 {
				quiet++
			} else {
				quiet = 0
				for _, p := range r {
					seen[s.show(p)] = true
				}
			}
			time.Sleep(50 * time.Millisecond)
		}
		if len(seen) > 0 {
			for p := range seen {
				res[i] = append(res[i], p)
			}
			sort.Strings(res[i])
		}
		s.snapshot() // what the first run did between two steps (its reads are the parent's: dropped by the next drain)
	}
	return res
}

// ---------------------------------------------------------------- donor: a tags tree file written by a real server

var c19eDonorTT []byte

const c19eDonorKey = "c19tt"

// c19eMakeDonor runs a throw-away server once, ingests one series {c19tt="C19SECRET-tt"} and keeps the tags tree file the
// server wrote for the key: a victim file of the format the metrics reader understands
func c19eMakeDonor() {
	s, err := c19eNewSandbox(true)
	if err != nil {
		return
	}
	defer func() {
		s.kill()
		os.RemoveAll(s.root)
	}()
	body := c19eJSON([]interface{}{map[string]interface{}{"metric": "c19donor", "tags": map[string]string{c19eDonorKey: c19eSecret + "-tt", "job": "c19"}, "timestamp": c19eTs, "value": 1}})
	if _, err := s.call(c19eRaw("i", "POST", "/otsdb/api/put", c19eJSONHdr, body, true), 30*time.Second); err != nil {
		return
	}
	filepath.WalkDir(filepath.Join(s.inst, "data"), func(p string, d fs.DirEntry, err error) error {
		if err == nil && !d.IsDir() && d.Name() == c19eDonorKey {
			if b, err := os.ReadFile(p); err == nil && bytes.Contains(b, []byte(c19eSecret)) {
				c19eDonorTT = b
			}
		}
		return nil
	})
	if os.Getenv("C19E_DEBUG") != "" {
		fmt.Fprintf(os.Stderr, "C19E donor tags tree file: %d bytes\n", len(c19eDonorTT))
	}
}

func c19eGetSandbox() (*c19eSandbox, error) {
	c19ePoolOnce.Do(func() {
		c19eMakeDonor()
		c19ePool = make(chan *c19eSandbox, c19eWorkers)
		for i := 0; i < c19eWorkers; i++ {
			c19ePool <- nil // created on first use
		}
		exitHooks = append(exitHooks, func() {
			c19eAllMu.Lock()
			defer c19eAllMu.Unlock()
			for _, s := range c19eAll {
				s.kill()
				if os.Getenv("C19E_KEEP") == "" {
					os.RemoveAll(s.root)
				}
			}
		})
	})
	s := <-c19ePool
	if s != nil && !s.dead {
		s.watch.reads(0) // the last thing its previous user did was a snapshot: those reads are the parent's
	}
	if s == nil || s.dead {
		var err error
		for try := 0; try < 3; try++ {
			if s, err = c19eNewSandbox(false); err == nil {
				return s, nil
			}
		}
		c19ePool <- nil
		return nil, err
	}
	return s, nil
}

func c19ePutSandbox(s *c19eSandbox) {
	if s != nil && s.dead {
		os.RemoveAll(s.root)
		s = nil
	}
	c19ePool <- s
}

// ---------------------------------------------------------------- requests

func c19eRaw(server, method, path string, hdr map[string]string, body []byte, flush bool) c19eReq {
	var b bytes.Buffer
	b.WriteString(method + " " + path + " HTTP/1.1\r\nHost: localhost\r\nConnection: close\r\n")
	for k, v := range hdr {
		b.WriteString(k + ": " + v + "\r\n")
	}
	if body != nil || method == "POST" || method == "PUT" {
		fmt.Fprintf(&b, "Content-Length: %d\r\n", len(body))
	}
	b.WriteString("\r\n")
	b.Write(body)
	return c19eReq{Level: "R", Server: server, Raw: b.Bytes(), Flush: flush}
}

func c19eJSON(v interface{}) []byte {
	b, _ := json.Marshal(v)
	return b
}

var c19eJSONHdr = map[string]string{"Content-Type": "application/json"}

const c19eTs = 1700000000

var c19eQStart, c19eQEnd = fmt.Sprint(c19eTs - 600), fmt.Sprint(c19eTs + 600)

// replaced by the worker with the first UUID of its previous answer (same length as a UUID, so that Content-Length stays right)
const c19eLastIDToken = "@LASTID@@@@@@@@@@@@@@@@@@@@@@@@@@@@@"

func c19ePromBody(metric, key, val string) []byte {
	ts := prompb.TimeSeries{Labels: []prompb.Label{{Name: "__name__", Value: metric}, {Name: key, Value: val}, {Name: "job", Value: "c19"}}}
	for i := 0; i < 3; i++ {
		ts.Samples = append(ts.Samples, prompb.Sample{Value: float64(i + 1), Timestamp: int64(c19eTs+i) * 1000})
	}
	// a second, ordinary series after the hostile one
	ts2 := prompb.TimeSeries{Labels: []prompb.Label{{Name: "__name__", Value: "c19plain"}, {Name: "host", Value: "h"}},
		Samples: []prompb.Sample{{Value: 1, Timestamp: int64(c19eTs) * 1000}, {Value: 2, Timestamp: int64(c19eTs+1) * 1000}}}
	b, _ := proto.Marshal(&prompb.WriteRequest{Timeseries: []prompb.TimeSeries{ts, ts2}})
	return snappy.Encode(nil, b)
}

var c19ePromHdr = map[string]string{"Content-Type": "application/x-protobuf", "Content-Encoding": "snappy", "X-Prometheus-Remote-Write-Version": "0.1.0"}

func c19eStrAttr(k, v string) *commonpb.KeyValue {
	return &commonpb.KeyValue{Key: k, Value: &commonpb.AnyValue{Value: &commonpb.AnyValue_StringValue{StringValue: v}}}
}

func c19eOtlpMetricBody(metric, key, val string) []byte {
	var dps []*metricspb.NumberDataPoint
	for i := 0; i < 2; i++ {
		dps = append(dps, &metricspb.NumberDataPoint{Attributes: []*commonpb.KeyValue{c19eStrAttr(key, val), c19eStrAttr("job", "c19")},
			TimeUnixNano: uint64(c19eTs+i) * 1e9, Value: &metricspb.NumberDataPoint_AsDouble{AsDouble: float64(i + 1)}})
	}
	req := &collmetricspb.ExportMetricsServiceRequest{ResourceMetrics: []*metricspb.ResourceMetrics{{ScopeMetrics: []*metricspb.ScopeMetrics{{
		Metrics: []*metricspb.Metric{{Name: metric, Data: &metricspb.Metric_Gauge{Gauge: &metricspb.Gauge{DataPoints: dps}}}}}}}}}
	b, _ := gproto.Marshal(req)
	return b
}

func c19eOtlpLogBody(index string) []byte {
	req := &collogpb.ExportLogsServiceRequest{ResourceLogs: []*logpb.ResourceLogs{{
		Resource: &resourcepb.Resource{Attributes: []*commonpb.KeyValue{c19eStrAttr("service.name", "c19"), c19eStrAttr("siglensIndexName", index)}},
		ScopeLogs: []*logpb.ScopeLogs{{Scope: &commonpb.InstrumentationScope{Name: "c19"},
			LogRecords: []*logpb.LogRecord{{TimeUnixNano: uint64(c19eTs) * 1e9, SeverityText: "INFO", Body: &commonpb.AnyValue{Value: &commonpb.AnyValue_StringValue{StringValue: "c19 event"}}}}}},
	}}}
	b, _ := gproto.Marshal(req)
	return b
}

func c19eUploadBody(name string, overwrite bool) ([]byte, string) {
	return c19eUploadBodyF(name, "up.csv", overwrite)
}

func c19eUploadBodyF(name, fileName string, overwrite bool) ([]byte, string) {
	var body bytes.Buffer
	w := multipart.NewWriter(&body)
	w.WriteField("name", name)
	if overwrite {
		w.WriteField("overwrite", "true")
	}
	// the Content-Disposition is written by hand: CreateFormFile would escape the quotes, nothing else
	h := make(textproto.MIMEHeader)
	h.Set("Content-Disposition", `form-data; name="file"; filename="`+strings.NewReplacer(`"`, ``, "\r", ``, "\n", ``, "\x00", ``).Replace(fileName)+`"`)
	h.Set("Content-Type", "application/octet-stream")
	fw, _ := w.CreatePart(h)
	fw.Write([]byte("c19col\nC19UPLOADED\n"))
	w.Close()
	return body.Bytes(), w.FormDataContentType()
}

// c19eBuild turns a step into the requests the worker performs
func c19eBuild(s *c19eSandbox, kind string, names []string) []c19eReq {
	for i := range names {
		names[i] = strings.ReplaceAll(names[i], "@ROOT@", s.root)
	}
	if len(names) == 0 {
		return nil
	}
	n := names[0]
	n2 := ""
	if len(names) > 1 {
		n2 = names[1]
	}
	esc := url.PathEscape(n)
	const E, A, P, O, PQ, OT = "/elastic", "/api", "/promql", "/otsdb", "/api/pqs", "/otlp"
	doc := []byte(`{"m":"c19","c19k":"v"}`)
	H := func(handler, method string, params map[string]string, hdr map[string]string, body []byte, flush bool) c19eReq {
		return c19eReq{Level: "H", Handler: handler, Method: method, Params: params, Headers: hdr, Body: body, Flush: flush}
	}
	switch kind {
	case "bulk", "bulkH":
		body := append(c19eJSON(map[string]interface{}{"index": map[string]string{"_index": n}}), '\n')
		body = append(append(body, doc...), '\n')
		if kind == "bulk" {
			return []c19eReq{c19eRaw("i", "POST", E+"/_bulk", c19eJSONHdr, body, true)}
		}
		return []c19eReq{H("bulk", "POST", nil, c19eJSONHdr, body, true)}
	case "docR":
		return []c19eReq{c19eRaw("i", "PUT", E+"/"+n+"/_doc/1", c19eJSONHdr, doc, true)}
	case "docE":
		return []c19eReq{c19eRaw("i", "PUT", E+"/"+esc+"/_doc/1", c19eJSONHdr, doc, true)}
	case "docH":
		return []c19eReq{H("singleDoc", "PUT", map[string]string{"indexName": n, "_id": "1"}, c19eJSONHdr, doc, true)}
	case "pidxR":
		return []c19eReq{c19eRaw("i", "PUT", E+"/"+n, c19eJSONHdr, []byte(`{"mappings":{}}`), false)}
	case "pidxE":
		return []c19eReq{c19eRaw("i", "PUT", E+"/"+esc, c19eJSONHdr, []byte(`{"mappings":{}}`), false)}
	case "pidxH":
		return []c19eReq{H("putIndex", "PUT", map[string]string{"indexName": n}, c19eJSONHdr, []byte(`{"mappings":{}}`), false)}
	case "splunk":
		return []c19eReq{c19eRaw("i", "POST", "/services/collector/event", c19eJSONHdr, c19eJSON(map[string]interface{}{"event": map[string]string{"m": "c19"}, "index": n}), true)}
	case "otlplog":
		return []c19eReq{c19eRaw("i", "POST", OT+"/v1/logs", map[string]string{"Content-Type": "application/x-protobuf"}, c19eOtlpLogBody(n), true)}
	case "delR":
		return []c19eReq{c19eRaw("q", "DELETE", E+"/"+n, nil, nil, false)}
	case "delE":
		return []c19eReq{c19eRaw("q", "DELETE", E+"/"+esc, nil, nil, false)}
	case "delapiE":
		return []c19eReq{c19eRaw("q", "POST", A+"/deleteIndex/"+esc, nil, nil, false)}
	case "delH":
		return []c19eReq{H("deleteIndex", "DELETE", map[string]string{"indexName": n}, nil, nil, false)}
	case "srchidx":
		return []c19eReq{c19eRaw("q", "POST", A+"/search", c19eJSONHdr, c19eJSON(map[string]interface{}{"searchText": "*", "indexName": n, "startEpoch": "now-1h", "endEpoch": "now", "queryLanguage": "Splunk QL"}), false)}
	case "sortcol":
		return []c19eReq{
			c19eRaw("q", "POST", A+"/sort-columns", c19eJSONHdr, c19eJSON(map[string]interface{}{"indexName": n, "columns": []string{n2}}), false),
			func() c19eReq {
				rq := c19eRaw("i", "POST", E+"/_bulk", c19eJSONHdr, append(append(append(c19eJSON(map[string]interface{}{"index": map[string]string{"_index": n}}), '\n'), c19eJSON(map[string]string{n2: "v", "m": "c19"})...), '\n'), true)
				rq.Settle = true
				return rq
			}()}
	case "evkey":
		srch := func(q string) c19eReq {
			return c19eRaw("q", "POST", A+"/search", c19eJSONHdr, c19eJSON(map[string]interface{}{"searchText": q, "indexName": "c19col", "startEpoch": "now-1h", "endEpoch": "now", "queryLanguage": "Splunk QL"}), false)
		}
		qn := strings.NewReplacer(`"`, ``, `\`, ``, "\x00", "").Replace(n)
		ev := append(append(append(c19eJSON(map[string]interface{}{"index": map[string]string{"_index": "c19col"}}), '\n'), c19eJSON(map[string]interface{}{n: "v", "m": "c19", "num": 7})...), '\n')
		ing := c19eRaw("i", "POST", E+"/_bulk", c19eJSONHdr, ev, true)
		ing.Settle = true
		return []c19eReq{srch(`* | stats count BY "` + qn + `"`), srch(`* | stats count BY "` + qn + `"`), srch(`"` + qn + `"=v`), srch(`"` + qn + `"=v`), ing, srch(`"` + qn + `"=v`)}
	case "sortq":
		qn := strings.NewReplacer(`"`, ``, `\`, ``, "\x00", "").Replace(n)
		return []c19eReq{c19eRaw("q", "POST", A+"/search", c19eJSONHdr, c19eJSON(map[string]interface{}{"searchText": `* | sort "` + qn + `"`, "indexName": "c19sc", "startEpoch": "now-1h", "endEpoch": "now", "queryLanguage": "Splunk QL"}), false),
			c19eRaw("q", "POST", A+"/search", c19eJSONHdr, c19eJSON(map[string]interface{}{"searchText": `* | sort -` + qn, "indexName": "*", "startEpoch": "now-1h", "endEpoch": "now", "queryLanguage": "Splunk QL"}), false)}
	case "aliasAdd", "aliasRm":
		act := map[string]string{"aliasAdd": "add", "aliasRm": "remove"}[kind]
		return []c19eReq{c19eRaw("q", "POST", E+"/_aliases", c19eJSONHdr, c19eJSON(map[string]interface{}{"actions": []interface{}{map[string]interface{}{act: map[string]string{"index": n, "alias": n2}}}}), true)}
	case "palE":
		return []c19eReq{c19eRaw("q", "PUT", E+"/"+esc+"/_alias/"+url.PathEscape(n2), nil, nil, true)}
	case "palH":
		return []c19eReq{H("putAlias", "PUT", map[string]string{"indexName": n, "aliasName": n2}, nil, nil, true)}
	case "galE":
		return []c19eReq{c19eRaw("q", "GET", E+"/_alias/"+esc, nil, nil, false), c19eRaw("q", "GET", E+"/"+esc+"/_alias/c19al", nil, nil, false)}
	case "galH":
		return []c19eReq{H("getAlias", "GET", map[string]string{"aliasName": n}, nil, nil, false), H("getIndexAlias", "GET", map[string]string{"indexName": n, "aliasName": "c19al"}, nil, nil, false)}
	case "headE":
		return []c19eReq{c19eRaw("q", "HEAD", E+"/"+esc, nil, nil, false)}
	case "headH":
		return []c19eReq{H("indexAliasExist", "HEAD", map[string]string{"indexName": n}, nil, nil, false)}
	case "upload", "uploadO":
		body, ct := c19eUploadBody(n, kind == "uploadO")
		return []c19eReq{c19eRaw("q", "POST", A+"/lookup-upload", map[string]string{"Content-Type": ct}, body, false)}
	case "uploadF":
		fn := n
		if !strings.HasSuffix(strings.ToLower(fn), ".csv") && !strings.HasSuffix(strings.ToLower(fn), ".csv.gz") {
			fn += ".csv"
		}
		body, ct := c19eUploadBodyF("c19lkf", fn, true)
		return []c19eReq{c19eRaw("q", "POST", A+"/lookup-upload", map[string]string{"Content-Type": ct}, body, false)}
	case "lkgetR":
		return []c19eReq{c19eRaw("q", "GET", A+"/lookup-files/"+n, nil, nil, false)}
	case "lkgetE":
		return []c19eReq{c19eRaw("q", "GET", A+"/lookup-files/"+esc, nil, nil, false)}
	case "lkgetH":
		return []c19eReq{H("lookupGet", "GET", map[string]string{"lookupFilename": n}, nil, nil, false)}
	case "lkdelR":
		return []c19eReq{c19eRaw("q", "DELETE", A+"/lookup-files/"+n, nil, nil, false)}
	case "lkdelE":
		return []c19eReq{c19eRaw("q", "DELETE", A+"/lookup-files/"+esc, nil, nil, false)}
	case "lkdelH":
		return []c19eReq{H("lookupDelete", "DELETE", map[string]string{"lookupFilename": n}, nil, nil, false)}
	case "ilookup":
		q := `| inputlookup "` + strings.ReplaceAll(n, `"`, ``) + `"`
		return []c19eReq{c19eRaw("q", "POST", A+"/search", c19eJSONHdr, c19eJSON(map[string]interface{}{"searchText": q, "indexName": "*", "startEpoch": "now-1h", "endEpoch": "now", "queryLanguage": "Splunk QL"}), false)}
	case "dashNew":
		return []c19eReq{c19eRaw("q", "POST", A+"/dashboards/create", c19eJSONHdr, c19eJSON(map[string]string{"name": n, "description": "c19", "parentId": "root-folder"}), false)}
	case "dashUpd":
		return []c19eReq{c19eRaw("q", "POST", A+"/dashboards/update", c19eJSONHdr, c19eJSON(map[string]interface{}{"id": n, "details": map[string]interface{}{"name": n2, "description": "c19"}}), false)}
	case "dashGetE":
		return []c19eReq{c19eRaw("q", "GET", A+"/dashboards/"+esc, nil, nil, false)}
	case "dashGetH":
		return []c19eReq{H("dashGet", "GET", map[string]string{"dashboard-id": n}, nil, nil, false)}
	case "dashDelE":
		return []c19eReq{c19eRaw("q", "GET", A+"/dashboards/delete/"+esc, nil, nil, false)}
	case "dashDelH":
		return []c19eReq{H("dashDelete", "GET", map[string]string{"dashboard-id": n}, nil, nil, false)}
	case "dashFavE":
		return []c19eReq{c19eRaw("q", "PUT", A+"/dashboards/favorite/"+esc, nil, nil, false)}
	case "foldNew":
		return []c19eReq{c19eRaw("q", "POST", A+"/dashboards/folders/create", c19eJSONHdr, c19eJSON(map[string]string{"name": n, "parentId": n2}), false)}
	case "foldGetE":
		return []c19eReq{c19eRaw("q", "GET", A+"/dashboards/folders/"+esc, nil, nil, false)}
	case "foldDelE":
		return []c19eReq{c19eRaw("q", "DELETE", A+"/dashboards/folders/"+esc, nil, nil, false)}
	case "usqSave":
		return []c19eReq{c19eRaw("q", "POST", A+"/usersavedqueries/save", c19eJSONHdr, c19eJSON(map[string]string{"queryName": n, "queryDescription": "c19", "searchText": "*", "indexName": "*", "queryLanguage": "Splunk QL", "dataSource": "Logs"}), false)}
	case "usqGetE":
		return []c19eReq{c19eRaw("q", "GET", A+"/usersavedqueries/"+esc, nil, nil, false)}
	case "usqDelE":
		return []c19eReq{c19eRaw("q", "GET", A+"/usersavedqueries/deleteone/"+esc, nil, nil, false)}
	case "usqGetH":
		return []c19eReq{H("usqGet", "GET", map[string]string{"qname": n}, nil, nil, false)}
	case "otsdbM", "otsdbK", "otsdbV":
		m, k, v := "c19m", "c19k", "c19v"
		switch kind {
		case "otsdbM":
			m = n
		case "otsdbK":
			k = n
		default:
			v = n
		}
		var arr []interface{}
		for i := 0; i < 2; i++ {
			arr = append(arr, map[string]interface{}{"metric": m, "tags": map[string]string{k: v, "job": "c19"}, "timestamp": c19eTs + i, "value": i + 1})
		}
		return []c19eReq{c19eRaw("i", "POST", O+"/api/put", c19eJSONHdr, c19eJSON(arr), true)}
	case "promM", "promK", "promV", "promKH":
		m, k, v := "c19m", "c19k", "c19v"
		switch kind {
		case "promM":
			m = n
		case "promK", "promKH":
			k = n
		default:
			v = n
		}
		if kind == "promKH" {
			return []c19eReq{H("promWrite", "POST", nil, c19ePromHdr, c19ePromBody(m, k, v), true)}
		}
		return []c19eReq{c19eRaw("i", "POST", P+"/api/v1/write", c19ePromHdr, c19ePromBody(m, k, v), true)}
	case "otlpM", "otlpK", "otlpV":
		m, k, v := "c19m", "c19k", "c19v"
		switch kind {
		case "otlpM":
			m = n
		case "otlpK":
			k = n
		default:
			v = n
		}
		return []c19eReq{c19eRaw("i", "POST", OT+"/v1/metrics", map[string]string{"Content-Type": "application/x-protobuf"}, c19eOtlpMetricBody(m, k, v), true)}
	case "scroll":
		return []c19eReq{c19eRaw("q", "POST", E+"/_search?scroll=1m", c19eJSONHdr, c19eJSON(map[string]interface{}{"scroll": "1m", "scroll_id": n}), true)}
	case "staticR":
		return []c19eReq{c19eRaw("q", "GET", "/"+n, nil, nil, false)}
	case "staticE":
		// … and the two template routes /{filename}.html and /js/{filename}.js
		return []c19eReq{c19eRaw("q", "GET", "/"+esc, nil, nil, false), c19eRaw("q", "GET", "/"+strings.ReplaceAll(esc, "%2F", "/"), nil, nil, false),
			c19eRaw("q", "GET", "/"+esc+".html", nil, nil, false), c19eRaw("q", "GET", "/js/"+esc+".js", nil, nil, false)}
	case "pqsE":
		return []c19eReq{c19eRaw("q", "GET", PQ+"/"+esc, nil, nil, false)}

	// ---- metrics queries: the series of the bootstrap (metric c19m, tags c19k=c19v, job=c19, written before the restart) are in range
	case "oqK", "oqM":
		m, k := "c19m", "c19k"
		if kind == "oqM" {
			m = n
		} else {
			k = n
		}
		var rqs []c19eReq
		for _, flt := range []string{k + "=c19v", k + "=*", k + "=c19v|x", k + "=c19v,job=c19"} {
			rqs = append(rqs, c19eRaw("q", "GET", O+"/api/query?start="+c19eQStart+"&end="+c19eQEnd+"&m="+url.QueryEscape("avg:"+m+"{"+flt+"}"), nil, nil, false))
		}
		return rqs
	case "oxK", "oxKH":
		var rqs []c19eReq
		for _, flt := range []string{"c19v", "*"} {
			body := c19eJSON(map[string]interface{}{
				"time":    map[string]interface{}{"start": c19eTs - 600, "end": c19eTs + 600, "aggregator": "sum"},
				"filters": []interface{}{map[string]interface{}{"id": "f1", "tags": []interface{}{map[string]interface{}{"type": "literal_or", "tagk": n, "filter": flt, "groupBy": false}}}},
				"metrics": []interface{}{map[string]interface{}{"id": "a", "metric": "c19m", "filter": "f1", "aggregator": "sum"}},
				"outputs": []interface{}{map[string]interface{}{"id": "a", "alias": "a"}}})
			if kind == "oxKH" {
				rqs = append(rqs, H("otsdbQueryExp", "POST", nil, c19eJSONHdr, body, false))
			} else {
				rqs = append(rqs, c19eRaw("q", "POST", O+"/api/v1/query/exp", c19eJSONHdr, body, false))
			}
		}
		return rqs
	case "pqK", "pqM", "psK", "mxQ":
		q := "c19m{" + n + `="c19v"}`
		q2 := "c19m{" + n + `=~".*"}`
		if kind == "pqM" {
			q = `{__name__="` + strings.NewReplacer(`"`, ``, `\`, ``).Replace(n) + `"}`
			q2 = n + `{c19k="c19v"}`
		}
		form := map[string]string{"Content-Type": "application/x-www-form-urlencoded"}
		switch kind {
		case "psK":
			return []c19eReq{c19eRaw("q", "GET", P+"/api/v1/series?start="+c19eQStart+"&end="+c19eQEnd+"&match[]="+url.QueryEscape(q)+"&match[]="+url.QueryEscape(q2), nil, nil, false)}
		case "mxQ":
			return []c19eReq{c19eRaw("q", "POST", "/metrics-explorer/api/v1/timeseries", c19eJSONHdr, c19eJSON(map[string]interface{}{"start": c19eTs - 600, "end": c19eTs + 600,
				"queries": []interface{}{map[string]string{"name": "a", "query": q, "qlType": "promql"}}, "formulas": []interface{}{map[string]string{"formula": "a"}}}), false)}
		}
		return []c19eReq{
			c19eRaw("q", "POST", P+"/api/v1/query", form, []byte("time="+c19eQEnd+"&query="+url.QueryEscape(q)), false),
			c19eRaw("q", "POST", P+"/api/v1/query_range", form, []byte("start="+c19eQStart+"&end="+c19eQEnd+"&step=60&query="+url.QueryEscape(q2)), false)}
	case "plvE":
		return []c19eReq{c19eRaw("q", "GET", P+"/api/v1/label/"+esc+"/values?start="+c19eQStart+"&end="+c19eQEnd, nil, nil, false)}
	case "plvH":
		rq := H("promLabelValues", "GET", map[string]string{"labelName": n}, nil, nil, false)
		rq.Query = "start=" + c19eQStart + "&end=" + c19eQEnd
		return []c19eReq{rq}
	case "mxTags":
		return []c19eReq{c19eRaw("q", "POST", "/metrics-explorer/api/v1/all_tags", c19eJSONHdr, c19eJSON(map[string]interface{}{"start": c19eTs - 600, "end": c19eTs + 600, "metric_name": n}), false)}

	// ---- index names: the remaining bulk actions and routes
	case "bulkCreate", "bulkUpdate", "bulkDelete", "bulkQ":
		act := map[string]string{"bulkCreate": "create", "bulkUpdate": "update", "bulkDelete": "delete", "bulkQ": "index"}[kind]
		body := append(c19eJSON(map[string]interface{}{act: map[string]string{"_index": n, "_id": "1"}}), '\n')
		switch act {
		case "update":
			body = append(append(body, []byte(`{"doc":{"m":"c19"}}`)...), '\n')
		case "delete":
		default:
			body = append(append(body, doc...), '\n')
		}
		// a valid action after the hostile one
		body = append(append(append(body, []byte(`{"index":{"_index":"c19boot"}}`)...), '\n'), append(doc, '\n')...)
		if kind == "bulkQ" {
			return []c19eReq{c19eRaw("q", "POST", E+"/_bulk", c19eJSONHdr, body, true)}
		}
		return []c19eReq{c19eRaw("i", "POST", E+"/_bulk", c19eJSONHdr, body, true)}
	case "docCreateE":
		return []c19eReq{c19eRaw("i", "PUT", E+"/"+esc+"/_create/1", c19eJSONHdr, doc, true)}
	case "docUpdateE":
		return []c19eReq{c19eRaw("i", "POST", E+"/"+esc+"/_update/1", c19eJSONHdr, []byte(`{"doc":{"m":"c19"}}`), true)}
	case "docPostE":
		return []c19eReq{c19eRaw("i", "POST", E+"/"+esc+"/_doc", c19eJSONHdr, doc, true), c19eRaw("i", "PUT", E+"/"+esc+"/c19type/1", c19eJSONHdr, doc, true)}
	case "mapE":
		return []c19eReq{c19eRaw("i", "PUT", E+"/"+esc+"/_mapping", c19eJSONHdr, []byte(`{"properties":{"m":{"type":"keyword"}}}`), false),
			c19eRaw("i", "PUT", E+"/"+esc+"/_mapping/c19type", c19eJSONHdr, []byte(`{"properties":{"m":{"type":"keyword"}}}`), false)}
	case "mapH":
		return []c19eReq{H("putIndex", "PUT", map[string]string{"indexName": n, "docType": "c19type"}, c19eJSONHdr, []byte(`{"properties":{"m":{"type":"keyword"}}}`), false)}
	case "headIE":
		return []c19eReq{c19eRaw("i", "HEAD", E+"/"+esc, nil, nil, false)}
	case "esSrchE":
		mq := []byte(`{"query":{"match_all":{}}}`)
		return []c19eReq{c19eRaw("q", "POST", E+"/"+esc+"/_search", c19eJSONHdr, mq, false), c19eRaw("q", "GET", E+"/"+url.PathEscape(esc)+"/c19type/_search", c19eJSONHdr, mq, false),
			c19eRaw("q", "POST", E+"/"+esc+"/_doc/_search", c19eJSONHdr, mq, false)}
	case "esSrchH":
		return []c19eReq{H("esSearch", "POST", map[string]string{"indexName": n}, c19eJSONHdr, []byte(`{"query":{"match_all":{}}}`), false)}
	case "esDocGetE":
		return []c19eReq{c19eRaw("q", "GET", E+"/"+esc+"/_doc/1", nil, nil, false), c19eRaw("q", "HEAD", E+"/"+esc+"/_doc/1", nil, nil, false)}
	case "listCols":
		return []c19eReq{c19eRaw("q", "POST", A+"/listColumnNames", c19eJSONHdr, c19eJSON(map[string]interface{}{"indexName": n, "startEpoch": "now-1h", "endEpoch": "now"}), false)}
	case "pqsAggs":
		ing := c19eRaw("i", "POST", E+"/_bulk", c19eJSONHdr, append(append(append(c19eJSON(map[string]interface{}{"index": map[string]string{"_index": n}}), '\n'), c19eJSON(map[string]interface{}{n2: "v", "m": "c19", "num": 7})...), '\n'), true)
		ing.Settle = true
		return []c19eReq{c19eRaw("q", "POST", PQ+"/aggs", c19eJSONHdr, c19eJSON(map[string]interface{}{"tableName": n, "groupByColumns": []string{n2}, "measureColumns": []string{"num"}}), false), ing}
	case "dbpanE":
		return []c19eReq{c19eRaw("q", "POST", A+"/search/"+esc, c19eJSONHdr, c19eJSON(map[string]interface{}{"searchText": "*", "indexName": "c19boot", "startEpoch": "now-1h", "endEpoch": "now", "queryLanguage": "Splunk QL"}), false)}
	case "jaegerE":
		return []c19eReq{c19eRaw("q", "GET", "/jaeger/api/services/"+esc+"/operations", nil, nil, false)}
	case "lokiL":
		return []c19eReq{c19eRaw("i", "POST", "/loki/api/v1/push", c19eJSONHdr, c19eJSON(map[string]interface{}{"streams": []interface{}{map[string]interface{}{
			"stream": map[string]string{n: "v", "job": "c19"}, "values": []interface{}{[]string{fmt.Sprint(int64(c19eTs) * 1e9), "c19 line"}}}}}), true)}
	case "otlpTrace":
		return []c19eReq{c19eRaw("i", "POST", OT+"/v1/traces", map[string]string{"Content-Type": "application/x-protobuf"}, c19eOtlpTraceBody(n), true)}

	// ---- dashboards / folders: remaining routes, ids inside bodies
	case "foldUpdE":
		return []c19eReq{c19eRaw("q", "PUT", A+"/dashboards/folders/"+esc, c19eJSONHdr, c19eJSON(map[string]string{"name": n2, "parentId": n2}), false)}
	case "foldCntE":
		return []c19eReq{c19eRaw("q", "GET", A+"/dashboards/folders/"+esc+"/count", nil, nil, false)}
	case "dashNewP":
		return []c19eReq{c19eRaw("q", "POST", A+"/dashboards/create", c19eJSONHdr, c19eJSON(map[string]string{"name": "c19p", "description": "c19", "parentId": n}), false)}
	case "dashMove":
		// create a dashboard, then move it: the id of the answer is put in by the worker (@LASTID@, padded to the length of a UUID)
		return []c19eReq{c19eRaw("q", "POST", A+"/dashboards/create", c19eJSONHdr, c19eJSON(map[string]string{"name": "c19mv" + c19eHexS(n)[:c19Min(8, len(c19eHexS(n)))], "description": "c19", "parentId": "root-folder"}), false),
			c19eRaw("q", "POST", A+"/dashboards/update", c19eJSONHdr, c19eJSON(map[string]interface{}{"id": c19eLastIDToken, "details": map[string]interface{}{"name": "c19mv2", "description": "c19", "folder": map[string]string{"id": n}}}), false)}

	// ---- alerts
	case "alertGetE":
		return []c19eReq{c19eRaw("q", "GET", A+"/alerts/"+esc, nil, nil, false)}
	case "alertHistE":
		return []c19eReq{c19eRaw("q", "GET", A+"/alerts/"+esc+"/history", nil, nil, false)}
	case "minionGetE":
		return []c19eReq{c19eRaw("q", "GET", A+"/minionsearch/"+esc, nil, nil, false)}
	case "contactNew":
		return []c19eReq{c19eRaw("q", "POST", A+"/alerts/createContact", c19eJSONHdr, c19eJSON(map[string]interface{}{"contact_name": n, "email": []string{"c19@example.com"}}), false)}
	}
	return nil
}

func c19Min(a, b int) int {
	if a < b {
		return a
	}
	return b
}

func c19eOtlpTraceBody(service string) []byte {
	req := &coltracepb.ExportTraceServiceRequest{ResourceSpans: []*tracepb.ResourceSpans{{
		Resource: &resourcepb.Resource{Attributes: []*commonpb.KeyValue{c19eStrAttr("service.name", service)}},
		ScopeSpans: []*tracepb.ScopeSpans{{Spans: []*tracepb.Span{{TraceId: bytes.Repeat([]byte{0xc1}, 16), SpanId: bytes.Repeat([]byte{0x9e}, 8), Name: service,
			StartTimeUnixNano: uint64(c19eTs) * 1e9, EndTimeUnixNano: uint64(c19eTs)*1e9 + 1000, Attributes: []*commonpb.KeyValue{c19eStrAttr(service, "v")}}}}},
	}}}
	b, _ := gproto.Marshal(req)
	return b
}

// ---------------------------------------------------------------- exec

type c19eParsed struct {
	kind  string
	names []string
}

func c19eParse(line string) ([]c19eParsed, bool) {
	tok := strings.Fields(line)
	if len(tok) < 2 || tok[0] != "cf" {
		return nil, false
	}
	var res []c19eParsed
	for _, t := range tok[1:] {
		f := strings.Split(t, ":")
		k, ok := c19eKinds[f[0]]
		if !ok || len(f)-1 != k.names {
			return nil, false
		}
		p := c19eParsed{kind: f[0]}
		for _, h := range f[1:] {
			s, ok := c19Unhex(h)
			if !ok {
				return nil, false
			}
			p.names = append(p.names, s)
		}
		if k.gated && k.names > 0 && (p.names[0] == "" || strings.Contains(p.names[0], "/")) {
			return nil, false // not a value the router can deliver: outside the domain of this handler's theorem
		}
		res = append(res, p)
	}
	return res, true
}

func c19eExec(line string) Result {
	steps, ok := c19eParse(line)
	if !ok {
		return Result{Out: "bad-op", Tags: []string{"bad-op"}}
	}
	s, err := c19eGetSandbox()
	if err != nil {
		return Result{Out: "boot-failed: " + err.Error(), Tags: []string{"boot-failed"}}
	}
	held := true // false once c19eGetSandbox failed: it has given the pool token back itself
	defer func() {
		if held {
			c19ePutSandbox(s)
		}
	}()
	readReported := map[int]bool{}
	res := Result{Out: fmt.Sprintf("ok %d", len(steps))}
	tags := map[string]bool{}
	before := s.base
	for i, st := range steps {
		k := c19eKinds[st.kind]
		tags["kind:"+st.kind] = true
		tags["name:"+k.what] = true
		hostile := false
		pos := ""
		for j, n := range st.names {
			if c19eIsHostile(n) {
				hostile = true
				if k.names > 1 {
					pos += fmt.Sprint(j + 1)
				}
			}
		}
		sigKind := st.kind
		if pos != "" {
			sigKind += "." + pos
		}
		if hostile {
			res.Nontrivial = true
			tags["hostile:"+k.what] = true
		}
		shown := fmt.Sprintf("step %d %s %q", i+1, st.kind, st.names)
		var leaked []string
		s.watch.reads(0) // drop what the parent's own snapshot / restore read
		lost := false
		if st.kind == "restart" {
			if err := s.restart(); err != nil {
				tags["worker-lost:restart"] = true
				s.kill()
				c19ePutSandbox(s)
				if s, err = c19eGetSandbox(); err != nil {
					held = false
					return Result{Out: "boot-failed: " + err.Error(), Tags: []string{"boot-failed"}}
				}
				before = s.base
				continue
			}
		}
		for _, rq := range c19eBuild(s, st.kind, append([]string{}, st.names...)) {
			rs, err := s.call(rq, 25*time.Second)
			if err != nil {
				// a hang or a crash of the server is not what C19 is about: counted, the scenario goes on in a new server
				tags["worker-lost:"+err.Error()] = true
				tags["worker-lost-at:"+st.kind] = true
				s.kill()
				c19ePutSandbox(s)
				if s, err = c19eGetSandbox(); err != nil {
					held = false
					return Result{Out: "boot-failed: " + err.Error(), Tags: []string{"boot-failed"}}
				}
				before = s.base
				lost = true // the rest of this step is void: the replacement server has not seen its requests
				break
			}
			if os.Getenv("C19E_DEBUG") != "" {
				fmt.Fprintf(os.Stderr, "C19E %s -> %d %q %s\n", shown, rs.Status, trunc(string(rs.Body), 160), rs.Err)
			}
			if rs.Err != "" {
				tags["resp-err"] = true
			} else {
				tags[fmt.Sprintf("status:%dxx", rs.Status/100)] = true
			}
			if j := bytes.Index(rs.Body, []byte(c19eSecret)); j >= 0 {
				e := j + 24
				if e > len(rs.Body) {
					e = len(rs.Body)
				}
				leaked = append(leaked, string(rs.Body[j:e]))
			}
		}
		readOut := s.watch.reads(s.pid())
		if lost {
			readOut, leaked = nil, nil
		}
		if os.Getenv("C19E_DEBUG") != "" {
			fmt.Fprintf(os.Stderr, "C19E %s reads=%q watch=%v\n", shown, readOut, s.watch != nil && len(s.watch.dirs) > 0)
			if fds, err := os.ReadDir(fmt.Sprintf("/proc/%d/fd", s.cmd.Process.Pid)); err == nil {
				for _, fd := range fds {
					if l, err := os.Readlink(fmt.Sprintf("/proc/%d/fd/%s", s.cmd.Process.Pid, fd.Name())); err == nil && strings.Contains(l, "c19victim") {
						fmt.Fprintf(os.Stderr, "C19E   server still holds fd %s -> %s\n", fd.Name(), s.show(l))
					}
				}
			}
		}
		after := s.snapshot()
		var eff []string
		for p, sig := range after {
			if b, ok := before[p]; !ok {
				eff = append(eff, "created:"+s.show(p))
			} else if b != sig {
				eff = append(eff, "modified:"+s.show(p))
			}
		}
		for p := range before {
			if _, ok := after[p]; !ok {
				eff = append(eff, "deleted:"+s.show(p))
			}
		}
		sort.Strings(eff)
		if len(eff) > 0 {
			kinds := map[string]bool{}
			for _, e := range eff {
				kinds[map[string]string{"created": "write", "modified": "write", "deleted": "delete"}[strings.SplitN(e, ":", 2)[0]]] = true
			}
			var kl []string
			for e := range kinds {
				kl = append(kl, e)
			}
			sort.Strings(kl)
			if len(eff) > 6 {
				eff = append(eff[:6], fmt.Sprintf("… %d more", len(eff)-6))
			}
			res.Fails = append(res.Fails, PropFail{Sig: "confine/" + sigKind + "/" + strings.Join(kl, "+") + "-outside",
				Msg: fmt.Sprintf("%s: the server changed files OUTSIDE its data and log directories (paths relative to the sandbox root, data dir = %s): %s", shown, s.show(filepath.Join(s.inst, "data")), strings.Join(eff, ", "))})
			tags["violation"] = true
			// the server may keep the hostile name in memory (and write again at the next flush): the rest of the
			// scenario runs on a fresh server in a fresh sandbox, so that every PropFail names its own cause
			s.kill()
			c19ePutSandbox(s)
			if s, err = c19eGetSandbox(); err != nil {
				held = false
				return Result{Out: "boot-failed: " + err.Error(), Tags: []string{"boot-failed"}}
			}
			after = s.base
		}
		if len(leaked) > 0 {
			res.Fails = append(res.Fails, PropFail{Sig: "confine/" + sigKind + "/read-outside",
				Msg: shown + ": " + fmt.Sprintf("the response contains the content of a victim file outside the data and log directories: %q", leaked[0])})
			tags["read:leaked"] = true
			tags["violation"] = true
			readReported[i] = true
		}
		if len(readOut) > 0 {
			// a suspicion only: decided by running the scenario up to here again, in a fresh sandbox, one step at a time
			tags["read:suspected"] = true
			conf := c19eConfirmReads(steps[:i+1])
			if len(conf) == 0 {
				tags["read:unconfirmed"] = true
			}
			var idx []int
			for j := range conf {
				idx = append(idx, j)
			}
			sort.Ints(idx)
			for _, j := range idx {
				if readReported[j] {
					continue
				}
				readReported[j] = true
				paths := conf[j]
				if len(paths) > 6 {
					paths = append(paths[:6], "…")
				}
				res.Fails = append(res.Fails, PropFail{Sig: "confine/" + c19eSigKind(steps[j]) + "/read-outside",
					Msg: fmt.Sprintf("step %d %s %q: the server process read (read/pread/getdents) entries OUTSIDE its data and log directories: %s (seen while step %d ran, and again when the scenario up to it was repeated in a fresh sandbox, one step at a time)", j+1, steps[j].kind, steps[j].names, strings.Join(paths, ", "), i+1)})
				tags["read:accessed"] = true
				tags["violation"] = true
			}
		}
		before = after
	}
	for t := range tags {
		res.Tags = append(res.Tags, t)
	}
	sort.Strings(res.Tags)
	return res
}

// kind of the step plus, for steps with two names, which of them are hostile (witness class of a PropFail)
func c19eSigKind(st c19eParsed) string {
	pos := ""
	if c19eKinds[st.kind].names > 1 {
		for j, n := range st.names {
			if c19eIsHostile(n) {
				pos += fmt.Sprint(j + 1)
			}
		}
	}
	if pos != "" {
		return st.kind + "." + pos
	}
	return st.kind
}

func (s *c19eSandbox) show(p string) string {
	if r, err := filepath.Rel(s.root, p); err == nil {
		return "<root>/" + r
	}
	return p
}
