// C19 — user-supplied names cannot reach files outside the data directory: END-TO-END CONFINEMENT (suite "confine").
//
// What is checked is the property statement itself, on the running server, with no model in between:
//
//	a real siglens server (cmd/startup.Main in a child process, see c19_confine_worker.go) runs with its data and log
//	directories inside a sandbox tree that is populated with victim files and directories at every level above the
//	data directory (and in the install directory: server.yaml, static/).  Every op line is a SCENARIO = a sequence of
//	requests that carry hostile (and, mostly, ordinary) client-chosen names: index names (bulk `_index`, single-doc and
//	mapping routes, Splunk `index`, OTLP `siglensIndexName`, delete-index incl. comma lists and `cluster:` prefixes),
//	alias names, lookup file names (upload form value, get/delete route, `| inputlookup`), dashboard and folder ids and
//	names, saved-query names, metric names / TAG KEYS / tag values through OTSDB, Prometheus remote write (several
//	samples per series) and OTLP, scroll ids, sort columns, static paths.  After EVERY request (followed by the flush
//	calls of the server's shutdown path, so that deferred writes such as tags-tree files happen now) the parent
//	compares a snapshot (type, size, mtime, content hash) of everything in the sandbox OUTSIDE data/ and logs/ with the
//	snapshot before: any created, modified or deleted entry is a PropFail; so is a response that contains the secret
//	token stored in a victim file (= the server read a file outside its directories for the client).
//
// Levels: `…R` = raw bytes over TCP to the real server (name placed in the URL as it is), `…E` = same, the name
// percent-encoded once by the client, `…H` = the exported handler function called directly with the route parameter
// set to the name (what a unit test of the handler does).  Handlers whose ONLY gate is the router (the model's
// `routeParamOK`: lookup get/delete, dashboard/folder by id) are driven at level H with router-deliverable values
// only (non-empty, no '/'); every other handler gets every string.
//
// Safety of the harness itself: a name carries at most 7 dot-dot units (in any spelling) and every directory a name
// can be joined to lies at least 7 levels below the sandbox root; absolute names point into the sandbox
// (placeholder @ROOT@).  So even a server that confines nothing stays inside /tmp/c19e-XXXX.
//
// Output line: `ok <number of steps>` (the Lean side only checks the op-line grammar) — the verdict is the PropFail.
package main

import (
	"bufio"
	"bytes"
	"compress/gzip"
	"crypto/sha1"
	"encoding/hex"
	"encoding/json"
	"fmt"
	"io/fs"
	"math/rand"
	"mime/multipart"
	"net"
	"net/url"
	"os"
	"os/exec"
	"path/filepath"
	"sort"
	"strings"
	"sync"
	"time"

	"github.com/gogo/protobuf/proto"
	"github.com/golang/snappy"
	"github.com/prometheus/prometheus/prompb"
	collogpb "go.opentelemetry.io/proto/otlp/collector/logs/v1"
	collmetricspb "go.opentelemetry.io/proto/otlp/collector/metrics/v1"
	commonpb "go.opentelemetry.io/proto/otlp/common/v1"
	logpb "go.opentelemetry.io/proto/otlp/logs/v1"
	metricspb "go.opentelemetry.io/proto/otlp/metrics/v1"
	resourcepb "go.opentelemetry.io/proto/otlp/resource/v1"
	gproto "google.golang.org/protobuf/proto"
)

func init() {
	register(&Suite{Name: "confine", Gen: c19eGen, Exec: c19eExec, Parallel: c19eWorkers,
		Rule: "end to end on a real server process (cmd/startup.Main) inside a sandbox tree with victim files at every level: scenarios of requests with hostile and ordinary names through every name-carrying route (raw TCP, client-encoded, handler level); after every request + flush the snapshot of everything outside data/ and logs/ must be unchanged and no response may contain a victim's secret; distinct = sha1(op line); non-trivial = the scenario holds a hostile name"})
}

const c19eWorkers = 4
const c19eMaxUps = 7
const c19eSecret = "C19SECRET"

var c19eLevels = []string{"L1", "L2", "L3", "L4", "L5", "L6", "inst"}

// ---------------------------------------------------------------- step kinds

type c19eKind struct {
	names int    // number of client names the step carries (1 or 2)
	gated bool   // level H of a router-gated handler: only router-deliverable values
	what  string // name class, for the evidence
}

var c19eKinds = map[string]c19eKind{
	// index names, ingest side
	"bulk": {1, false, "index"}, "bulkH": {1, false, "index"},
	"docR": {1, false, "index"}, "docE": {1, false, "index"}, "docH": {1, false, "index"},
	"pidxR": {1, false, "index"}, "pidxE": {1, false, "index"}, "pidxH": {1, false, "index"},
	"splunk": {1, false, "index"}, "otlplog": {1, false, "index"},
	// index names, query side
	"delR": {1, false, "index"}, "delE": {1, false, "index"}, "delH": {1, false, "index"}, "delapiE": {1, false, "index"},
	"srchidx": {1, false, "index"}, "sortcol": {2, false, "index"},
	// column names: the JSON KEY of an ingested event (+ queries that make the background writers care about the column:
	// group-by usage for the aggregation tree, a repeated filter for persistent query results), rotation, sort by it
	"evkey": {1, false, "column"}, "sortq": {1, false, "column"},
	// aliases
	"aliasAdd": {2, false, "alias"}, "aliasRm": {2, false, "alias"},
	"palE": {2, false, "alias"}, "palH": {2, false, "alias"}, "galE": {1, false, "alias"}, "galH": {1, false, "alias"},
	"headE": {1, false, "alias"}, "headH": {1, false, "alias"},
	// lookups
	"upload": {1, false, "lookup"}, "uploadO": {1, false, "lookup"},
	"lkgetR": {1, false, "lookup"}, "lkgetE": {1, false, "lookup"}, "lkgetH": {1, true, "lookup"},
	"lkdelR": {1, false, "lookup"}, "lkdelE": {1, false, "lookup"}, "lkdelH": {1, true, "lookup"},
	"ilookup": {1, false, "lookup"},
	// dashboards, folders, saved queries
	"dashNew": {1, false, "dashboard"}, "dashUpd": {2, false, "dashboard"},
	"dashGetE": {1, false, "dashboard"}, "dashGetH": {1, true, "dashboard"}, "dashDelE": {1, false, "dashboard"}, "dashDelH": {1, true, "dashboard"},
	"dashFavE": {1, false, "dashboard"}, "foldNew": {2, false, "dashboard"}, "foldGetE": {1, false, "dashboard"}, "foldDelE": {1, false, "dashboard"},
	"usqSave": {1, false, "savedquery"}, "usqGetE": {1, false, "savedquery"}, "usqDelE": {1, false, "savedquery"}, "usqGetH": {1, false, "savedquery"},
	// metrics: name / tag key / tag value through three protocols; every series carries several samples
	"otsdbM": {1, false, "metric"}, "otsdbK": {1, false, "tagkey"}, "otsdbV": {1, false, "tagvalue"},
	"promM": {1, false, "metric"}, "promK": {1, false, "tagkey"}, "promV": {1, false, "tagvalue"}, "promKH": {1, false, "tagkey"},
	"otlpM": {1, false, "metric"}, "otlpK": {1, false, "tagkey"}, "otlpV": {1, false, "tagvalue"},
	// misc
	"scroll": {1, false, "scrollid"}, "staticR": {1, false, "static"}, "staticE": {1, false, "static"}, "pqsE": {1, false, "pqid"},
}

var c19eKindNames = func() []string {
	var l []string
	for k := range c19eKinds {
		l = append(l, k)
	}
	sort.Strings(l)
	return l
}()

// ---------------------------------------------------------------- generator

var c19eUpUnits = []string{"../", "../", "../", "../", "..%2F", "..%2f", "%2e%2e/", "%2e%2e%2f", "%2E%2E%2F", "%252e%252e%252f", "..%252f",
	"..\\", "..%5c", ".%2e/", "%2e./", "..//", ".././", "....//", "..;/", "．．/", "‥/", "..%c0%af", "..\x00/"}
var c19eLeaves = []string{"c19victim", "c19victim", "c19victim.csv", "c19victim.json", "c19victim.txt", "c19victim/important.txt", "c19victim/important.csv",
	"c19new", "c19new.csv", "c19victim.csv.gz", "server.yaml", "static/index.html", "c19victim/"}
var c19eValidNames = []string{"c19ok", "c19idx", "c19-idx_2", "c19.metrics.cpu", "évts", "日本", "a b", "...", "..a", "a..", ".hidden", "%2e%2e", "%2f", "x.csv", "c19lk.csv",
	"c19lk.csv.gz", "host", "host.name", "k8s.pod.name", "~tmp", "a:b", "A1", "c19boot"}
var c19eValidPrefixes = []string{"c19boot/", "c19ok/", "c19boot,", "c19boot,c19ok,", "cluster:", "c19cl:", "*,", "c19*,", "lookups/", "c19lk.csv/", "./", "c19boot/./", "H/", "final/"}

func c19eHexS(s string) string { return c19Hex(s) }

// a hostile name: at most c19eMaxUps dot-dot units in any spelling
func c19eHostile(r *rand.Rand) (string, string) {
	switch k := r.Intn(118); {
	case k >= 100: // the whole escape in ONE spelling that a decoder turns into "../" (percent-escapes, once or twice)
		ups := 1 + r.Intn(c19eMaxUps)
		unit := c19Pick(r, []string{"..%2F", "..%2f", "%2e%2e%2f", "%2E%2E%2F", "%2e%2e/", ".%2e%2f", "..%252F", "%252e%252e%252f", "..%5c", "..+%2F"})
		leaf := c19Pick(r, c19eLeaves)
		if r.Intn(2) == 0 {
			leaf = strings.ReplaceAll(leaf, "/", "%2F")
		}
		pre := ""
		if r.Intn(5) == 0 {
			pre = strings.ReplaceAll(c19Pick(r, c19eValidPrefixes), "/", "%2F")
		}
		return pre + strings.Repeat(unit, ups) + leaf, "encoded"
	case k < 50: // k ups in one spelling, optional valid prefix, a leaf that exists (or not) outside
		ups := 1 + r.Intn(c19eMaxUps)
		unit := c19Pick(r, c19eUpUnits)
		if r.Intn(3) > 0 {
			unit = "../"
		}
		var sb strings.Builder
		cls := "ups"
		if r.Intn(4) == 0 {
			sb.WriteString(c19Pick(r, c19eValidPrefixes))
			cls = "prefix+ups"
		}
		for i := 0; i < ups; i++ {
			if r.Intn(8) == 0 {
				sb.WriteString(c19Pick(r, c19eUpUnits)) // mixed spellings
			} else {
				sb.WriteString(unit)
			}
		}
		sb.WriteString(c19Pick(r, c19eLeaves))
		if unit != "../" {
			cls += "-encoded"
		}
		return sb.String(), cls
	case k < 62: // absolute, pointing into the sandbox
		lv := r.Intn(len(c19eLevels))
		p := "@ROOT@"
		for i := 0; i < lv; i++ {
			p += "/" + c19eLevels[i]
		}
		p += "/" + c19Pick(r, c19eLeaves)
		switch r.Intn(6) {
		case 0:
			p = "/" + p
		case 1:
			p = "file://" + p
		case 2:
			p = strings.ReplaceAll(p, "/", "%2F")
		case 3:
			p = "c19boot," + p
		}
		return p, "absolute"
	case k < 70: // climbs and comes back / ends in dots
		ups := 1 + r.Intn(c19eMaxUps)
		return strings.Repeat("../", ups) + c19Pick(r, []string{"", "..", ".", "c19victim/..", "c19victim/../c19victim.csv", "c19victim/./important.txt"}), "ups-dots"
	case k < 78: // NUL, control bytes, truncation tricks
		ups := 1 + r.Intn(c19eMaxUps)
		return strings.Repeat("../", ups) + c19Pick(r, []string{"c19victim.txt\x00.csv", "c19victim\x00", "c19victim.csv\x00x", "c19victim.txt%00.csv", "c19victim.txt\n", "c19victim.txt ", " c19victim.txt", "c19victim.txt#.csv", "c19victim.txt?.csv"}), "nul"
	case k < 86: // very long
		switch r.Intn(3) {
		case 0:
			return strings.Repeat("a", 256+r.Intn(4000)), "long"
		case 1:
			return strings.Repeat("a/", 100+r.Intn(400)) + strings.Repeat("../", r.Intn(c19eMaxUps+1)) + "c19victim", "long"
		default:
			return strings.Repeat("../", 1+r.Intn(c19eMaxUps)) + strings.Repeat("b", 255+r.Intn(50)) + "/../c19victim.csv", "long"
		}
	case k < 92: // separators only / degenerate
		return c19Pick(r, []string{".", "..", "/", "//", "./", "../", "..\\", "\\", "c19boot/", "c19boot/..", "c19boot/../..", "", " ", "%2e", "%2e%2e", "%2f", "..%2f", "*", "c19*", "_all", ".kibana", ".kibana/../../c19victim", "traces", "cluster:", ","}), "degenerate"
	default: // unicode look-alikes and mixed separators
		ups := 1 + r.Intn(c19eMaxUps)
		u := c19Pick(r, []string{"．．/", "‥/", "..∕", "..／", "..\\/", "..%u2215", "..%ef%bc%8f", "‮../"})
		return strings.Repeat(u, ups) + c19Pick(r, c19eLeaves), "unicode"
	}
}

func c19eValid(r *rand.Rand) string {
	return c19Pick(r, c19eValidNames)
}

// ups in any spelling the generator knows (used only to tag lines; safety comes from the construction above)
func c19eIsHostile(n string) bool {
	for _, v := range c19eValidNames {
		if n == v {
			return false
		}
	}
	return strings.Contains(n, "..") || strings.Contains(n, "/") || strings.Contains(n, "\\") || strings.Contains(n, "%") || strings.Contains(n, "@ROOT@") ||
		strings.Contains(n, "．") || strings.Contains(n, "‥") || strings.ContainsRune(n, 0) || len(n) > 200
}

func c19eStep(kind string, names ...string) string {
	s := kind
	for _, n := range names {
		s += ":" + c19eHexS(n)
	}
	return s
}

var c19eIndexKinds = []string{"bulk", "bulkH", "docR", "docE", "docH", "pidxR", "pidxE", "pidxH", "splunk", "otlplog", "delR", "delE", "delH", "delH", "delH", "delapiE", "srchidx"}
var c19eLookupKinds = []string{"upload", "uploadO", "upload", "uploadO", "lkgetR", "lkgetE", "lkgetH", "lkdelR", "lkdelE", "lkdelH", "ilookup", "ilookup"}
var c19eMetricKinds = []string{"otsdbM", "otsdbK", "otsdbK", "otsdbV", "promM", "promK", "promK", "promK", "promKH", "promV", "otlpM", "otlpK", "otlpK", "otlpV"}
var c19eDashKinds = []string{"dashNew", "dashUpd", "dashGetE", "dashGetH", "dashDelE", "dashDelH", "dashFavE", "foldNew", "foldGetE", "foldDelE", "usqSave", "usqGetE", "usqDelE", "usqGetH"}
var c19eAliasKinds = []string{"aliasAdd", "aliasAdd", "aliasRm", "palE", "palH", "galE", "galH", "headE", "headH"}
var c19eMiscKinds = []string{"scroll", "staticR", "staticE", "pqsE", "sortcol"}
var c19eColumnKinds = []string{"evkey", "evkey", "evkey", "sortcol", "sortcol", "sortq"}

func c19eGenStep(r *rand.Rand, kind string, hostileShare int) string {
	k := c19eKinds[kind]
	pick := func() string {
		if r.Intn(100) < hostileShare {
			for {
				n, _ := c19eHostile(r)
				if k.gated && (n == "" || strings.Contains(n, "/")) {
					continue // level H of a router-gated handler: the router never delivers these
				}
				return n
			}
		}
		return c19eValid(r)
	}
	if k.names == 2 {
		a, b := pick(), pick()
		if r.Intn(2) == 0 { // usually only one of the two is hostile
			if r.Intn(2) == 0 {
				a = c19eValid(r)
			} else {
				b = c19eValid(r)
			}
		}
		return c19eStep(kind, a, b)
	}
	return c19eStep(kind, pick())
}

func c19eGen(r *rand.Rand, n int, tier string) []string {
	var out []string
	add := func(steps ...string) { out = append(out, "cf "+strings.Join(steps, " ")) }
	// fixed scenarios: one per family, the shapes the property text names
	add(c19eStep("bulk", "c19idx"), c19eStep("delH", "../../../c19victim"), c19eStep("delH", "c19idx,../../../c19victim"), c19eStep("delH", "cluster:../../../c19victim"), c19eStep("delH", "c19idx"))
	add(c19eStep("uploadO", "..%2F..%2Fc19victim"), c19eStep("upload", "%2e%2e%2f%2e%2e%2fc19new"), c19eStep("uploadO", "../../c19victim.csv"), c19eStep("upload", "c19lk.csv"), c19eStep("lkgetE", "../../c19victim.csv"))
	add(c19eStep("promK", "../../../../../../c19victim.txt"), c19eStep("promK", "host"), c19eStep("otsdbK", "../../../../../../c19new"), c19eStep("otlpK", "../../../../../../c19new"))
	add(c19eStep("aliasAdd", "../../../../../c19victim", "c19al"), c19eStep("aliasAdd", "c19boot", "../../../../../c19victim"), c19eStep("aliasRm", "../../../../../c19victim", "c19al"))
	add(c19eStep("bulk", "c19sc"), c19eStep("sortcol", "c19sc", "../../../../../../../c19new"), c19eStep("sortcol", "c19sc", "m"))
	add(c19eStep("evkey", "../../../../../../../c19new"), c19eStep("evkey", "@ROOT@/L1/c19victim.txt"), c19eStep("evkey", "m"), c19eStep("sortq", "../../../../../../../c19victim"), c19eStep("sortq", "m"))
	add(c19eStep("ilookup", "../../c19victim.csv"), c19eStep("ilookup", "@ROOT@/L1/c19victim.csv"), c19eStep("staticR", "../c19victim.txt"), c19eStep("staticE", "../server.yaml"), c19eStep("scroll", "../../../c19victim"))
	out = append(out, "cf", "cf nosuchkind:61", "cf bulk", "cf bulk:zz", "cf bulk:61:62:63", "cf lkgetH:"+c19eHexS("a/b"))
	for len(out) < n {
		var steps []string
		fam := r.Intn(100)
		switch {
		case fam < 28: // index life cycle: create valid, operate with hostile (valid prefix + separators), delete
			steps = append(steps, c19eStep(c19Pick(r, []string{"bulk", "bulkH", "docE", "splunk"}), c19eValid(r)))
			for i := 2 + r.Intn(4); i > 0; i-- {
				steps = append(steps, c19eGenStep(r, c19Pick(r, c19eIndexKinds), 75))
			}
			if r.Intn(2) == 0 {
				steps = append(steps, c19eGenStep(r, "delH", 85))
			}
		case fam < 46: // lookups: upload valid, then hostile get/delete/upload/inputlookup
			steps = append(steps, c19eStep("upload", c19Pick(r, []string{"c19lk.csv", "c19lk", "c19lk.csv.gz", "x.csv"})))
			for i := 2 + r.Intn(4); i > 0; i-- {
				steps = append(steps, c19eGenStep(r, c19Pick(r, c19eLookupKinds), 75))
			}
		case fam < 64: // metrics: multi-sample series with hostile names / tag keys / values
			for i := 2 + r.Intn(4); i > 0; i-- {
				steps = append(steps, c19eGenStep(r, c19Pick(r, c19eMetricKinds), 70))
			}
		case fam < 74: // column names: hostile JSON keys in events, sort columns, rotation with every background writer
			idx := c19Pick(r, []string{"c19col", "c19ok", "c19idx"})
			steps = append(steps, c19eStep("bulk", idx))
			for i := 2 + r.Intn(3); i > 0; i-- {
				k := c19Pick(r, c19eColumnKinds)
				if k == "sortcol" { // index valid, column mostly hostile — and with all seven levels in half of the cases
					col, _ := c19eHostile(r)
					if r.Intn(2) == 0 {
						col = strings.Repeat("../", c19eMaxUps) + c19Pick(r, c19eLeaves)
					}
					if r.Intn(5) == 0 {
						col = c19eValid(r)
					}
					steps = append(steps, c19eStep("sortcol", idx, col))
				} else {
					steps = append(steps, c19eGenStep(r, k, 80))
				}
			}
		case fam < 80:
			steps = append(steps, c19eStep("dashNew", c19eValid(r)))
			for i := 2 + r.Intn(4); i > 0; i-- {
				steps = append(steps, c19eGenStep(r, c19Pick(r, c19eDashKinds), 75))
			}
		case fam < 90:
			steps = append(steps, c19eStep("bulk", "c19boot"))
			for i := 2 + r.Intn(4); i > 0; i-- {
				steps = append(steps, c19eGenStep(r, c19Pick(r, c19eAliasKinds), 75))
			}
		default:
			for i := 2 + r.Intn(5); i > 0; i-- {
				steps = append(steps, c19eGenStep(r, c19Pick(r, append(append([]string{}, c19eMiscKinds...), c19eKindNames...)), 70))
			}
		}
		add(steps...)
	}
	return out[:n]
}

// ---------------------------------------------------------------- sandbox + worker

type c19eSandbox struct {
	root, inst string
	cmd        *exec.Cmd
	stdin      *bufio.Writer
	lines      chan string
	dataPath   string
	victims    map[string][]byte // regular victim files: path → content
	base       map[string]string // snapshot of the outside after populate + boot
	dead       bool
}

var c19ePool chan *c19eSandbox
var c19ePoolOnce sync.Once
var c19eAll []*c19eSandbox
var c19eAllMu sync.Mutex

func c19eFreePort() string {
	l, err := net.Listen("tcp", "127.0.0.1:0")
	if err != nil {
		return "0"
	}
	defer l.Close()
	return fmt.Sprint(l.Addr().(*net.TCPAddr).Port)
}

func (s *c19eSandbox) populate() {
	dir := s.root
	dirs := []string{dir}
	for _, l := range c19eLevels {
		dir = filepath.Join(dir, l)
		dirs = append(dirs, dir)
	}
	s.inst = dir
	s.victims = map[string][]byte{}
	for i, d := range dirs {
		must(os.MkdirAll(filepath.Join(d, "c19victim"), 0o755))
		tok := fmt.Sprintf("%s-%d", c19eSecret, i)
		var gz bytes.Buffer
		zw := gzip.NewWriter(&gz)
		zw.Write([]byte("c19col\n" + tok + "-gz\n"))
		zw.Close()
		for name, content := range map[string][]byte{
			"c19victim.txt":           []byte("do not touch " + tok + "-txt\n"),
			"c19victim.csv":           []byte("c19col\n" + tok + "-csv\n"),
			"c19victim.json":          []byte(`{"c19":"` + tok + `-json"}` + "\n"),
			"c19victim.csv.gz":        gz.Bytes(),
			"c19victim/important.txt": []byte("important " + tok + "-dirtxt\n"),
			"c19victim/important.csv": []byte("c19col\n" + tok + "-dircsv\n"),
		} {
			s.victims[filepath.Join(d, name)] = content
		}
	}
	// the install directory: static assets (served by the UI route) and, written by the worker, server.yaml
	must(os.MkdirAll(filepath.Join(s.inst, "static", "js"), 0o755))
	s.victims[filepath.Join(s.inst, "static", "index.html")] = []byte("<html><body>c19 ui</body></html>\n")
	s.victims[filepath.Join(s.inst, "static", "js", "c19.js")] = []byte("// c19\n")
	s.restore()
}

// restore puts every victim back (after a violation) and removes what does not belong outside
func (s *c19eSandbox) restore() {
	for p, c := range s.victims {
		if b, err := os.ReadFile(p); err != nil || !bytes.Equal(b, c) {
			os.RemoveAll(p)
			os.MkdirAll(filepath.Dir(p), 0o755)
			os.WriteFile(p, c, 0o644)
		}
	}
	if s.base != nil {
		for p := range s.snapshot() {
			if _, ok := s.base[p]; !ok {
				os.RemoveAll(p)
			}
		}
	}
}

func (s *c19eSandbox) allowed(p string) bool {
	for _, a := range []string{filepath.Join(s.inst, "data"), filepath.Join(s.inst, "logs")} {
		if p == a || strings.HasPrefix(p, a+"/") {
			return true
		}
	}
	return false
}

// snapshot of everything in the sandbox outside data/ and logs/
func (s *c19eSandbox) snapshot() map[string]string {
	m := map[string]string{}
	filepath.WalkDir(s.root, func(p string, d fs.DirEntry, err error) error {
		if err != nil {
			return nil
		}
		if s.allowed(p) {
			if d.IsDir() {
				return filepath.SkipDir
			}
			return nil
		}
		if d.IsDir() {
			m[p] = "dir"
			return nil
		}
		st, err := os.Lstat(p)
		if err != nil {
			return nil
		}
		sig := fmt.Sprintf("%v:%d:%d", st.Mode().Type(), st.Size(), st.ModTime().UnixNano())
		if st.Mode().IsRegular() && st.Size() < 1<<16 {
			if b, err := os.ReadFile(p); err == nil {
				h := sha1.Sum(b)
				sig += ":" + hex.EncodeToString(h[:6])
			}
		}
		m[p] = sig
		return nil
	})
	return m
}

func c19eNewSandbox() (*c19eSandbox, error) {
	root, err := os.MkdirTemp("/tmp", "c19e-")
	if err != nil {
		return nil, err
	}
	if real, err := filepath.EvalSymlinks(root); err != nil || real != root {
		return nil, fmt.Errorf("sandbox root must not involve symlinks: %s", root)
	}
	s := &c19eSandbox{root: root}
	s.populate()
	self, err := os.Executable()
	if err != nil {
		return nil, err
	}
	cmd := exec.Command(self, "c19eworker", root, c19eFreePort(), c19eFreePort())
	cmd.Dir = s.inst
	cmd.Env = append(os.Environ(), "GOMAXPROCS=4")
	in, err := cmd.StdinPipe()
	if err != nil {
		return nil, err
	}
	outp, err := cmd.StdoutPipe()
	if err != nil {
		return nil, err
	}
	cmd.Stderr = nil
	if err := cmd.Start(); err != nil {
		return nil, err
	}
	s.cmd = cmd
	s.stdin = bufio.NewWriterSize(in, 1<<20)
	s.lines = make(chan string, 16)
	go func() {
		sc := bufio.NewScanner(outp)
		sc.Buffer(make([]byte, 1<<20), 1<<26)
		for sc.Scan() {
			if t := sc.Text(); strings.HasPrefix(t, "@@") {
				s.lines <- t[2:]
			}
		}
		close(s.lines)
		cmd.Wait()
	}()
	c19eAllMu.Lock()
	c19eAll = append(c19eAll, s)
	c19eAllMu.Unlock()
	select {
	case l, ok := <-s.lines:
		if !ok || !strings.HasPrefix(l, "READY ") {
			s.kill()
			return nil, fmt.Errorf("worker did not start: %q", l)
		}
		s.dataPath = strings.Fields(l)[1]
	case <-time.After(90 * time.Second):
		s.kill()
		return nil, fmt.Errorf("worker start timed out")
	}
	// a live node has flushed events before: <data>/<host>/final exists
	for _, rq := range c19eBuild(s, "bulk", []string{"c19boot"}) {
		if _, err := s.call(rq, 30*time.Second); err != nil {
			s.kill()
			return nil, fmt.Errorf("bootstrap ingest failed: %v", err)
		}
	}
	s.base = s.snapshot()
	return s, nil
}

func (s *c19eSandbox) kill() {
	s.dead = true
	if s.cmd != nil && s.cmd.Process != nil {
		s.cmd.Process.Kill()
	}
}

func (s *c19eSandbox) call(rq c19eReq, timeout time.Duration) (c19eResp, error) {
	var rs c19eResp
	b, _ := json.Marshal(rq)
	s.stdin.Write(b)
	s.stdin.WriteByte('\n')
	if err := s.stdin.Flush(); err != nil {
		return rs, err
	}
	select {
	case l, ok := <-s.lines:
		if !ok {
			return rs, fmt.Errorf("worker died")
		}
		if err := json.Unmarshal([]byte(l), &rs); err != nil {
			return rs, err
		}
		return rs, nil
	case <-time.After(timeout):
		return rs, fmt.Errorf("timeout")
	}
}

func c19eGetSandbox() (*c19eSandbox, error) {
	c19ePoolOnce.Do(func() {
		c19ePool = make(chan *c19eSandbox, c19eWorkers)
		for i := 0; i < c19eWorkers; i++ {
			c19ePool <- nil // created on first use
		}
		exitHooks = append(exitHooks, func() {
			c19eAllMu.Lock()
			defer c19eAllMu.Unlock()
			for _, s := range c19eAll {
				s.kill()
				os.RemoveAll(s.root)
			}
		})
	})
	s := <-c19ePool
	if s == nil || s.dead {
		var err error
		for try := 0; try < 3; try++ {
			if s, err = c19eNewSandbox(); err == nil {
				return s, nil
			}
		}
		c19ePool <- nil
		return nil, err
	}
	return s, nil
}

func c19ePutSandbox(s *c19eSandbox) {
	if s != nil && s.dead {
		os.RemoveAll(s.root)
		s = nil
	}
	c19ePool <- s
}

// ---------------------------------------------------------------- requests

func c19eRaw(server, method, path string, hdr map[string]string, body []byte, flush bool) c19eReq {
	var b bytes.Buffer
	b.WriteString(method + " " + path + " HTTP/1.1\r\nHost: localhost\r\nConnection: close\r\n")
	for k, v := range hdr {
		b.WriteString(k + ": " + v + "\r\n")
	}
	if body != nil || method == "POST" || method == "PUT" {
		fmt.Fprintf(&b, "Content-Length: %d\r\n", len(body))
	}
	b.WriteString("\r\n")
	b.Write(body)
	return c19eReq{Level: "R", Server: server, Raw: b.Bytes(), Flush: flush}
}

func c19eJSON(v interface{}) []byte {
	b, _ := json.Marshal(v)
	return b
}

var c19eJSONHdr = map[string]string{"Content-Type": "application/json"}

const c19eTs = 1700000000

func c19ePromBody(metric, key, val string) []byte {
	ts := prompb.TimeSeries{Labels: []prompb.Label{{Name: "__name__", Value: metric}, {Name: key, Value: val}, {Name: "job", Value: "c19"}}}
	for i := 0; i < 3; i++ {
		ts.Samples = append(ts.Samples, prompb.Sample{Value: float64(i + 1), Timestamp: int64(c19eTs+i) * 1000})
	}
	// a second, ordinary series after the hostile one
	ts2 := prompb.TimeSeries{Labels: []prompb.Label{{Name: "__name__", Value: "c19plain"}, {Name: "host", Value: "h"}},
		Samples: []prompb.Sample{{Value: 1, Timestamp: int64(c19eTs) * 1000}, {Value: 2, Timestamp: int64(c19eTs+1) * 1000}}}
	b, _ := proto.Marshal(&prompb.WriteRequest{Timeseries: []prompb.TimeSeries{ts, ts2}})
	return snappy.Encode(nil, b)
}

var c19ePromHdr = map[string]string{"Content-Type": "application/x-protobuf", "Content-Encoding": "snappy", "X-Prometheus-Remote-Write-Version": "0.1.0"}

func c19eStrAttr(k, v string) *commonpb.KeyValue {
	return &commonpb.KeyValue{Key: k, Value: &commonpb.AnyValue{Value: &commonpb.AnyValue_StringValue{StringValue: v}}}
}

func c19eOtlpMetricBody(metric, key, val string) []byte {
	var dps []*metricspb.NumberDataPoint
	for i := 0; i < 2; i++ {
		dps = append(dps, &metricspb.NumberDataPoint{Attributes: []*commonpb.KeyValue{c19eStrAttr(key, val), c19eStrAttr("job", "c19")},
			TimeUnixNano: uint64(c19eTs+i) * 1e9, Value: &metricspb.NumberDataPoint_AsDouble{AsDouble: float64(i + 1)}})
	}
	req := &collmetricspb.ExportMetricsServiceRequest{ResourceMetrics: []*metricspb.ResourceMetrics{{ScopeMetrics: []*metricspb.ScopeMetrics{{
		Metrics: []*metricspb.Metric{{Name: metric, Data: &metricspb.Metric_Gauge{Gauge: &metricspb.Gauge{DataPoints: dps}}}}}}}}}
	b, _ := gproto.Marshal(req)
	return b
}

func c19eOtlpLogBody(index string) []byte {
	req := &collogpb.ExportLogsServiceRequest{ResourceLogs: []*logpb.ResourceLogs{{
		Resource: &resourcepb.Resource{Attributes: []*commonpb.KeyValue{c19eStrAttr("service.name", "c19"), c19eStrAttr("siglensIndexName", index)}},
		ScopeLogs: []*logpb.ScopeLogs{{Scope: &commonpb.InstrumentationScope{Name: "c19"},
			LogRecords: []*logpb.LogRecord{{TimeUnixNano: uint64(c19eTs) * 1e9, SeverityText: "INFO", Body: &commonpb.AnyValue{Value: &commonpb.AnyValue_StringValue{StringValue: "c19 event"}}}}}},
	}}}
	b, _ := gproto.Marshal(req)
	return b
}

func c19eUploadBody(name string, overwrite bool) ([]byte, string) {
	var body bytes.Buffer
	w := multipart.NewWriter(&body)
	w.WriteField("name", name)
	if overwrite {
		w.WriteField("overwrite", "true")
	}
	fw, _ := w.CreateFormFile("file", "up.csv")
	fw.Write([]byte("c19col\nC19UPLOADED\n"))
	w.Close()
	return body.Bytes(), w.FormDataContentType()
}

// c19eBuild turns a step into the requests the worker performs
func c19eBuild(s *c19eSandbox, kind string, names []string) []c19eReq {
	for i := range names {
		names[i] = strings.ReplaceAll(names[i], "@ROOT@", s.root)
	}
	n := names[0]
	n2 := ""
	if len(names) > 1 {
		n2 = names[1]
	}
	esc := url.PathEscape(n)
	const E, A, P, O, PQ, OT = "/elastic", "/api", "/promql", "/otsdb", "/api/pqs", "/otlp"
	doc := []byte(`{"m":"c19","c19k":"v"}`)
	H := func(handler, method string, params map[string]string, hdr map[string]string, body []byte, flush bool) c19eReq {
		return c19eReq{Level: "H", Handler: handler, Method: method, Params: params, Headers: hdr, Body: body, Flush: flush}
	}
	switch kind {
	case "bulk", "bulkH":
		body := append(c19eJSON(map[string]interface{}{"index": map[string]string{"_index": n}}), '\n')
		body = append(append(body, doc...), '\n')
		if kind == "bulk" {
			return []c19eReq{c19eRaw("i", "POST", E+"/_bulk", c19eJSONHdr, body, true)}
		}
		return []c19eReq{H("bulk", "POST", nil, c19eJSONHdr, body, true)}
	case "docR":
		return []c19eReq{c19eRaw("i", "PUT", E+"/"+n+"/_doc/1", c19eJSONHdr, doc, true)}
	case "docE":
		return []c19eReq{c19eRaw("i", "PUT", E+"/"+esc+"/_doc/1", c19eJSONHdr, doc, true)}
	case "docH":
		return []c19eReq{H("singleDoc", "PUT", map[string]string{"indexName": n, "_id": "1"}, c19eJSONHdr, doc, true)}
	case "pidxR":
		return []c19eReq{c19eRaw("i", "PUT", E+"/"+n, c19eJSONHdr, []byte(`{"mappings":{}}`), false)}
	case "pidxE":
		return []c19eReq{c19eRaw("i", "PUT", E+"/"+esc, c19eJSONHdr, []byte(`{"mappings":{}}`), false)}
	case "pidxH":
		return []c19eReq{H("putIndex", "PUT", map[string]string{"indexName": n}, c19eJSONHdr, []byte(`{"mappings":{}}`), false)}
	case "splunk":
		return []c19eReq{c19eRaw("i", "POST", "/services/collector/event", c19eJSONHdr, c19eJSON(map[string]interface{}{"event": map[string]string{"m": "c19"}, "index": n}), true)}
	case "otlplog":
		return []c19eReq{c19eRaw("i", "POST", OT+"/v1/logs", map[string]string{"Content-Type": "application/x-protobuf"}, c19eOtlpLogBody(n), true)}
	case "delR":
		return []c19eReq{c19eRaw("q", "DELETE", E+"/"+n, nil, nil, false)}
	case "delE":
		return []c19eReq{c19eRaw("q", "DELETE", E+"/"+esc, nil, nil, false)}
	case "delapiE":
		return []c19eReq{c19eRaw("q", "POST", A+"/deleteIndex/"+esc, nil, nil, false)}
	case "delH":
		return []c19eReq{H("deleteIndex", "DELETE", map[string]string{"indexName": n}, nil, nil, false)}
	case "srchidx":
		return []c19eReq{c19eRaw("q", "POST", A+"/search", c19eJSONHdr, c19eJSON(map[string]interface{}{"searchText": "*", "indexName": n, "startEpoch": "now-1h", "endEpoch": "now", "queryLanguage": "Splunk QL"}), false)}
	case "sortcol":
		return []c19eReq{
			c19eRaw("q", "POST", A+"/sort-columns", c19eJSONHdr, c19eJSON(map[string]interface{}{"indexName": n, "columns": []string{n2}}), false),
			func() c19eReq {
				rq := c19eRaw("i", "POST", E+"/_bulk", c19eJSONHdr, append(append(append(c19eJSON(map[string]interface{}{"index": map[string]string{"_index": n}}), '\n'), c19eJSON(map[string]string{n2: "v", "m": "c19"})...), '\n'), true)
				rq.Settle = true
				return rq
			}()}
	case "evkey":
		srch := func(q string) c19eReq {
			return c19eRaw("q", "POST", A+"/search", c19eJSONHdr, c19eJSON(map[string]interface{}{"searchText": q, "indexName": "c19col", "startEpoch": "now-1h", "endEpoch": "now", "queryLanguage": "Splunk QL"}), false)
		}
		qn := strings.NewReplacer(`"`, ``, `\`, ``, "\x00", "").Replace(n)
		ev := append(append(append(c19eJSON(map[string]interface{}{"index": map[string]string{"_index": "c19col"}}), '\n'), c19eJSON(map[string]interface{}{n: "v", "m": "c19", "num": 7})...), '\n')
		ing := c19eRaw("i", "POST", E+"/_bulk", c19eJSONHdr, ev, true)
		ing.Settle = true
		return []c19eReq{srch(`* | stats count BY "` + qn + `"`), srch(`* | stats count BY "` + qn + `"`), srch(`"` + qn + `"=v`), srch(`"` + qn + `"=v`), ing, srch(`"` + qn + `"=v`)}
	case "sortq":
		qn := strings.NewReplacer(`"`, ``, `\`, ``, "\x00", "").Replace(n)
		return []c19eReq{c19eRaw("q", "POST", A+"/search", c19eJSONHdr, c19eJSON(map[string]interface{}{"searchText": `* | sort "` + qn + `"`, "indexName": "c19sc", "startEpoch": "now-1h", "endEpoch": "now", "queryLanguage": "Splunk QL"}), false),
			c19eRaw("q", "POST", A+"/search", c19eJSONHdr, c19eJSON(map[string]interface{}{"searchText": `* | sort -` + qn, "indexName": "*", "startEpoch": "now-1h", "endEpoch": "now", "queryLanguage": "Splunk QL"}), false)}
	case "aliasAdd", "aliasRm":
		act := map[string]string{"aliasAdd": "add", "aliasRm": "remove"}[kind]
		return []c19eReq{c19eRaw("q", "POST", E+"/_aliases", c19eJSONHdr, c19eJSON(map[string]interface{}{"actions": []interface{}{map[string]interface{}{act: map[string]string{"index": n, "alias": n2}}}}), true)}
	case "palE":
		return []c19eReq{c19eRaw("q", "PUT", E+"/"+esc+"/_alias/"+url.PathEscape(n2), nil, nil, true)}
	case "palH":
		return []c19eReq{H("putAlias", "PUT", map[string]string{"indexName": n, "aliasName": n2}, nil, nil, true)}
	case "galE":
		return []c19eReq{c19eRaw("q", "GET", E+"/_alias/"+esc, nil, nil, false), c19eRaw("q", "GET", E+"/"+esc+"/_alias/c19al", nil, nil, false)}
	case "galH":
		return []c19eReq{H("getAlias", "GET", map[string]string{"aliasName": n}, nil, nil, false), H("getIndexAlias", "GET", map[string]string{"indexName": n, "aliasName": "c19al"}, nil, nil, false)}
	case "headE":
		return []c19eReq{c19eRaw("q", "HEAD", E+"/"+esc, nil, nil, false)}
	case "headH":
		return []c19eReq{H("indexAliasExist", "HEAD", map[string]string{"indexName": n}, nil, nil, false)}
	case "upload", "uploadO":
		body, ct := c19eUploadBody(n, kind == "uploadO")
		return []c19eReq{c19eRaw("q", "POST", A+"/lookup-upload", map[string]string{"Content-Type": ct}, body, false)}
	case "lkgetR":
		return []c19eReq{c19eRaw("q", "GET", A+"/lookup-files/"+n, nil, nil, false)}
	case "lkgetE":
		return []c19eReq{c19eRaw("q", "GET", A+"/lookup-files/"+esc, nil, nil, false)}
	case "lkgetH":
		return []c19eReq{H("lookupGet", "GET", map[string]string{"lookupFilename": n}, nil, nil, false)}
	case "lkdelR":
		return []c19eReq{c19eRaw("q", "DELETE", A+"/lookup-files/"+n, nil, nil, false)}
	case "lkdelE":
		return []c19eReq{c19eRaw("q", "DELETE", A+"/lookup-files/"+esc, nil, nil, false)}
	case "lkdelH":
		return []c19eReq{H("lookupDelete", "DELETE", map[string]string{"lookupFilename": n}, nil, nil, false)}
	case "ilookup":
		q := `| inputlookup "` + strings.ReplaceAll(n, `"`, ``) + `"`
		return []c19eReq{c19eRaw("q", "POST", A+"/search", c19eJSONHdr, c19eJSON(map[string]interface{}{"searchText": q, "indexName": "*", "startEpoch": "now-1h", "endEpoch": "now", "queryLanguage": "Splunk QL"}), false)}
	case "dashNew":
		return []c19eReq{c19eRaw("q", "POST", A+"/dashboards/create", c19eJSONHdr, c19eJSON(map[string]string{"name": n, "description": "c19", "parentId": "root-folder"}), false)}
	case "dashUpd":
		return []c19eReq{c19eRaw("q", "POST", A+"/dashboards/update", c19eJSONHdr, c19eJSON(map[string]interface{}{"id": n, "details": map[string]interface{}{"name": n2, "description": "c19"}}), false)}
	case "dashGetE":
		return []c19eReq{c19eRaw("q", "GET", A+"/dashboards/"+esc, nil, nil, false)}
	case "dashGetH":
		return []c19eReq{H("dashGet", "GET", map[string]string{"dashboard-id": n}, nil, nil, false)}
	case "dashDelE":
		return []c19eReq{c19eRaw("q", "GET", A+"/dashboards/delete/"+esc, nil, nil, false)}
	case "dashDelH":
		return []c19eReq{H("dashDelete", "GET", map[string]string{"dashboard-id": n}, nil, nil, false)}
	case "dashFavE":
		return []c19eReq{c19eRaw("q", "PUT", A+"/dashboards/favorite/"+esc, nil, nil, false)}
	case "foldNew":
		return []c19eReq{c19eRaw("q", "POST", A+"/dashboards/folders/create", c19eJSONHdr, c19eJSON(map[string]string{"name": n, "parentId": n2}), false)}
	case "foldGetE":
		return []c19eReq{c19eRaw("q", "GET", A+"/dashboards/folders/"+esc, nil, nil, false)}
	case "foldDelE":
		return []c19eReq{c19eRaw("q", "DELETE", A+"/dashboards/folders/"+esc, nil, nil, false)}
	case "usqSave":
		return []c19eReq{c19eRaw("q", "POST", A+"/usersavedqueries/save", c19eJSONHdr, c19eJSON(map[string]string{"queryName": n, "queryDescription": "c19", "searchText": "*", "indexName": "*", "queryLanguage": "Splunk QL", "dataSource": "Logs"}), false)}
	case "usqGetE":
		return []c19eReq{c19eRaw("q", "GET", A+"/usersavedqueries/"+esc, nil, nil, false)}
	case "usqDelE":
		return []c19eReq{c19eRaw("q", "GET", A+"/usersavedqueries/deleteone/"+esc, nil, nil, false)}
	case "usqGetH":
		return []c19eReq{H("usqGet", "GET", map[string]string{"qname": n}, nil, nil, false)}
	case "otsdbM", "otsdbK", "otsdbV":
		m, k, v := "c19m", "c19k", "c19v"
		switch kind {
		case "otsdbM":
			m = n
		case "otsdbK":
			k = n
		default:
			v = n
		}
		var arr []interface{}
		for i := 0; i < 2; i++ {
			arr = append(arr, map[string]interface{}{"metric": m, "tags": map[string]string{k: v, "job": "c19"}, "timestamp": c19eTs + i, "value": i + 1})
		}
		return []c19eReq{c19eRaw("i", "POST", O+"/api/put", c19eJSONHdr, c19eJSON(arr), true)}
	case "promM", "promK", "promV", "promKH":
		m, k, v := "c19m", "c19k", "c19v"
		switch kind {
		case "promM":
			m = n
		case "promK", "promKH":
			k = n
		default:
			v = n
		}
		if kind == "promKH" {
			return []c19eReq{H("promWrite", "POST", nil, c19ePromHdr, c19ePromBody(m, k, v), true)}
		}
		return []c19eReq{c19eRaw("i", "POST", P+"/api/v1/write", c19ePromHdr, c19ePromBody(m, k, v), true)}
	case "otlpM", "otlpK", "otlpV":
		m, k, v := "c19m", "c19k", "c19v"
		switch kind {
		case "otlpM":
			m = n
		case "otlpK":
			k = n
		default:
			v = n
		}
		return []c19eReq{c19eRaw("i", "POST", OT+"/v1/metrics", map[string]string{"Content-Type": "application/x-protobuf"}, c19eOtlpMetricBody(m, k, v), true)}
	case "scroll":
		return []c19eReq{c19eRaw("q", "POST", E+"/_search?scroll=1m", c19eJSONHdr, c19eJSON(map[string]interface{}{"scroll": "1m", "scroll_id": n}), true)}
	case "staticR":
		return []c19eReq{c19eRaw("q", "GET", "/"+n, nil, nil, false)}
	case "staticE":
		return []c19eReq{c19eRaw("q", "GET", "/"+esc, nil, nil, false), c19eRaw("q", "GET", "/"+strings.ReplaceAll(esc, "%2F", "/"), nil, nil, false)}
	case "pqsE":
		return []c19eReq{c19eRaw("q", "GET", PQ+"/"+esc, nil, nil, false)}
	}
	return nil
}

// ---------------------------------------------------------------- exec

type c19eParsed struct {
	kind  string
	names []string
}

func c19eParse(line string) ([]c19eParsed, bool) {
	tok := strings.Fields(line)
	if len(tok) < 2 || tok[0] != "cf" {
		return nil, false
	}
	var res []c19eParsed
	for _, t := range tok[1:] {
		f := strings.Split(t, ":")
		k, ok := c19eKinds[f[0]]
		if !ok || len(f)-1 != k.names {
			return nil, false
		}
		p := c19eParsed{kind: f[0]}
		for _, h := range f[1:] {
			s, ok := c19Unhex(h)
			if !ok {
				return nil, false
			}
			p.names = append(p.names, s)
		}
		if k.gated && (p.names[0] == "" || strings.Contains(p.names[0], "/")) {
			return nil, false // not a value the router can deliver: outside the domain of this handler's theorem
		}
		res = append(res, p)
	}
	return res, true
}

func c19eExec(line string) Result {
	steps, ok := c19eParse(line)
	if !ok {
		return Result{Out: "bad-op", Tags: []string{"bad-op"}}
	}
	s, err := c19eGetSandbox()
	if err != nil {
		return Result{Out: "boot-failed: " + err.Error(), Tags: []string{"boot-failed"}}
	}
	defer func() { c19ePutSandbox(s) }()
	res := Result{Out: fmt.Sprintf("ok %d", len(steps))}
	tags := map[string]bool{}
	before := s.base
	for i, st := range steps {
		k := c19eKinds[st.kind]
		tags["kind:"+st.kind] = true
		tags["name:"+k.what] = true
		hostile := false
		pos := ""
		for j, n := range st.names {
			if c19eIsHostile(n) {
				hostile = true
				if k.names > 1 {
					pos += fmt.Sprint(j + 1)
				}
			}
		}
		sigKind := st.kind
		if pos != "" {
			sigKind += "." + pos
		}
		if hostile {
			res.Nontrivial = true
			tags["hostile:"+k.what] = true
		}
		shown := fmt.Sprintf("step %d %s %q", i+1, st.kind, st.names)
		var leaked []string
		for _, rq := range c19eBuild(s, st.kind, append([]string{}, st.names...)) {
			rs, err := s.call(rq, 25*time.Second)
			if err != nil {
				// a hang or a crash of the server is not what C19 is about: counted, the scenario goes on in a new server
				tags["worker-lost:"+err.Error()] = true
				s.kill()
				c19ePutSandbox(s)
				if s, err = c19eGetSandbox(); err != nil {
					return Result{Out: "boot-failed: " + err.Error(), Tags: []string{"boot-failed"}}
				}
				before = s.base
				break
			}
			if os.Getenv("C19E_DEBUG") != "" {
				fmt.Fprintf(os.Stderr, "C19E %s -> %d %q %s\n", shown, rs.Status, trunc(string(rs.Body), 160), rs.Err)
			}
			if rs.Err != "" {
				tags["resp-err"] = true
			} else {
				tags[fmt.Sprintf("status:%dxx", rs.Status/100)] = true
			}
			if j := bytes.Index(rs.Body, []byte(c19eSecret)); j >= 0 {
				e := j + 24
				if e > len(rs.Body) {
					e = len(rs.Body)
				}
				leaked = append(leaked, string(rs.Body[j:e]))
			}
		}
		after := s.snapshot()
		var eff []string
		for p, sig := range after {
			if b, ok := before[p]; !ok {
				eff = append(eff, "created:"+s.show(p))
			} else if b != sig {
				eff = append(eff, "modified:"+s.show(p))
			}
		}
		for p := range before {
			if _, ok := after[p]; !ok {
				eff = append(eff, "deleted:"+s.show(p))
			}
		}
		sort.Strings(eff)
		if len(eff) > 0 {
			kinds := map[string]bool{}
			for _, e := range eff {
				kinds[map[string]string{"created": "write", "modified": "write", "deleted": "delete"}[strings.SplitN(e, ":", 2)[0]]] = true
			}
			var kl []string
			for e := range kinds {
				kl = append(kl, e)
			}
			sort.Strings(kl)
			if len(eff) > 6 {
				eff = append(eff[:6], fmt.Sprintf("… %d more", len(eff)-6))
			}
			res.Fails = append(res.Fails, PropFail{Sig: "confine/" + sigKind + "/" + strings.Join(kl, "+") + "-outside",
				Msg: fmt.Sprintf("%s: the server changed files OUTSIDE its data and log directories (paths relative to the sandbox root, data dir = %s): %s", shown, s.show(filepath.Join(s.inst, "data")), strings.Join(eff, ", "))})
			tags["violation"] = true
			// the server may keep the hostile name in memory (and write again at the next flush): the rest of the
			// scenario runs on a fresh server in a fresh sandbox, so that every PropFail names its own cause
			s.kill()
			c19ePutSandbox(s)
			if s, err = c19eGetSandbox(); err != nil {
				return Result{Out: "boot-failed: " + err.Error(), Tags: []string{"boot-failed"}}
			}
			after = s.base
		}
		if len(leaked) > 0 {
			res.Fails = append(res.Fails, PropFail{Sig: "confine/" + sigKind + "/read-outside",
				Msg: fmt.Sprintf("%s: the response contains the content of a victim file outside the data and log directories: %q", shown, leaked[0])})
			tags["violation"] = true
		}
		before = after
	}
	for t := range tags {
		res.Tags = append(res.Tags, t)
	}
	sort.Strings(res.Tags)
	return res
}

func (s *c19eSandbox) show(p string) string {
	if r, err := filepath.Rel(s.root, p); err == nil {
		return "<root>/" + r
	}
	return p
}
