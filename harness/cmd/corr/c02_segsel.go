package main

// suite "segsel" (C02 / C03 / C11): segment selection by time, model lean/SigModel/Model/SegSelect.lean.
//   segsel <qs> <qe> <org> <ix,ix,…> R <seg>… [| <seg>…]… U <seg>…      seg ::= <key>:<table>:<earliest>:<latest>:<org>
// Exec fills the REAL in-memory metadata — the rotated segments through metadata.BulkAddSegmentMicroIndex, bulk by bulk in
// the order of the line (every bulk re-sorts the tables' slices), the open segments into writer.AllUnrotatedSegmentInfo
// (overlay hook) — and asks the real code which segments the range needs: metadata.FilterSegmentsByTime,
// writer.FilterUnrotatedSegmentsInQuery and the request lists of a record query (query.getAllSegmentsInQuery) and of a
// segment-statistics query (query.getAllSegmentsInAggs) through the overlay hook VerifSegSelCollect.
// PropFail (the property itself, independent of the model): a segment of a queried index and of the query's org that
// shares an instant with the range is missing from a request list.

import (
	"fmt"
	"math/rand"
	"sort"
	"strconv"
	"strings"

	dtu "github.com/siglens/siglens/pkg/common/dtypeutils"
	segmetadata "github.com/siglens/siglens/pkg/segment/metadata"
	"github.com/siglens/siglens/pkg/segment/query"
	"github.com/siglens/siglens/pkg/segment/structs"
	"github.com/siglens/siglens/pkg/segment/writer"
)

func init() {
	register(&Suite{Name: "segsel", Gen: genSegSel, Exec: execSegSel,
		Rule: "0–9 rotated segments (added in 1–4 bulks, in random order) and 0–4 open segments over 1–3 indexes and two orgs, of very different widths (wide / narrow / one instant), overlapping, nested, with equal ends, all well-formed (earliest ≤ latest: the statement speaks about segments that hold events); by construction: wide + narrow-ending-later + older narrow inside the wide one; a rotated segment ending at / after the range's end + an open segment inside the range; a key that is open AND rotated; a bulk that re-adds known keys; ranges whose bounds lie before / on / inside / after the bounds of the segments (start ≤ end); 1 % malformed op lines; non-trivial = ≥ 2 segments of a queried index"})
}

type ssSeg struct {
	key, table int
	lo, hi     uint64
	org        int64
}

func (s ssSeg) tok() string { return fmt.Sprintf("%d:%d:%d:%d:%d", s.key, s.table, s.lo, s.hi, s.org) }

func genSegSel(r *rand.Rand, n int, tier string) []string {
	var out []string
	for c := 0; c < n; c++ {
		key := 0
		mk := func(table int, lo, hi uint64) ssSeg {
			key++
			s := ssSeg{key: key, table: table, lo: lo, hi: hi}
			if r.Intn(12) == 0 {
				s.org = 1
			}
			return s
		}
		base := uint64(1000 + r.Intn(3)*1000000)
		rnd := func(table int) ssSeg {
			switch r.Intn(6) {
			case 0, 1: // wide
				lo := base + uint64(r.Intn(3000))
				return mk(table, lo, lo+uint64(5000+r.Intn(15000)))
			case 2: // one instant
				lo := base + uint64(r.Intn(20000))
				return mk(table, lo, lo)
			case 3: // a few instants
				lo := base + uint64(r.Intn(20000))
				return mk(table, lo, lo+uint64(r.Intn(4)))
			default: // narrow
				lo := base + uint64(r.Intn(20000))
				return mk(table, lo, lo+uint64(1+r.Intn(300)))
			}
		}
		var rot, open []ssSeg
		var wins [][2]uint64
		ntab := 1 + r.Intn(3)
		switch r.Intn(5) {
		case 0: // wide, narrow ending later than the window, older narrow inside the wide one
			l := uint64(8000 + r.Intn(10000))
			w := mk(0, base, base+l)
			o := mk(0, base+200+uint64(r.Intn(int(l/2)-1000)), 0)
			o.hi = o.lo + uint64(r.Intn(300))
			nw := mk(0, base+l/2+500+uint64(r.Intn(int(l/2)-1000)), 0)
			nw.hi = nw.lo + uint64(r.Intn(300))
			w.org, o.org, nw.org = 0, 0, 0
			rot = append(rot, w, nw, o)
			wins = append(wins, [2]uint64{o.lo - uint64(r.Intn(100)), o.hi + 1 + uint64(r.Int63n(int64(nw.lo-o.hi-1)))})
		case 1: // rotated data ending at / after the range's end, open segment inside the range
			t1 := base + 6000 + uint64(r.Intn(8000))
			a := mk(0, t1-uint64(r.Intn(4000)), t1)
			b := mk(0, base+2500+uint64(r.Intn(1500)), 0)
			b.hi = b.lo + uint64(r.Intn(300))
			a.org, b.org = 0, 0
			rot = append(rot, a)
			open = append(open, b)
			wins = append(wins, [2]uint64{b.lo - uint64(r.Intn(100)), []uint64{b.hi + uint64(r.Intn(500)), t1, t1 - 1, t1 + 1}[r.Intn(4)]})
		}
		for k, m := 0, r.Intn(7); k < m; k++ {
			rot = append(rot, rnd(r.Intn(ntab)))
		}
		for k, m := 0, r.Intn(4); k < m; k++ {
			open = append(open, rnd(r.Intn(ntab)))
		}
		if len(rot) > 1 && r.Intn(4) == 0 { // equal ends
			rot[r.Intn(len(rot))].hi = rot[0].hi
			for i := range rot {
				if rot[i].lo > rot[i].hi {
					rot[i].lo = rot[i].hi
				}
			}
		}
		if len(rot) > 0 && r.Intn(8) == 0 { // a segment that is in both maps (mid-rotation)
			s := rot[r.Intn(len(rot))]
			open = append(open, s)
		}
		r.Shuffle(len(rot), func(i, j int) { rot[i], rot[j] = rot[j], rot[i] })
		// bulks
		var rt []string
		for i, s := range rot {
			if i > 0 && r.Intn(3) == 0 {
				rt = append(rt, "|")
			}
			rt = append(rt, s.tok())
		}
		if len(rot) > 0 && r.Intn(8) == 0 { // the metadata refresh re-adds what it read before
			rt = append(rt, "|")
			for _, s := range rot {
				if r.Intn(2) == 0 {
					rt = append(rt, s.tok())
				}
			}
		}
		var ut []string
		for _, s := range open {
			ut = append(ut, s.tok())
		}
		// range
		all := append(append([]ssSeg{}, rot...), open...)
		bound := func() uint64 {
			if len(all) == 0 {
				return base + uint64(r.Intn(20000))
			}
			s := all[r.Intn(len(all))]
			switch r.Intn(7) {
			case 0:
				return s.lo - 1 - uint64(r.Intn(50))
			case 1:
				return s.lo
			case 2:
				if s.hi > s.lo {
					return s.lo + uint64(r.Int63n(int64(s.hi-s.lo)))
				}
				return s.lo
			case 3:
				return s.hi
			case 4:
				return s.hi + 1
			case 5:
				return s.lo - 1
			default:
				return s.hi + 1 + uint64(r.Intn(50))
			}
		}
		qs, qe := bound(), bound()
		if qs > qe {
			qs, qe = qe, qs
		}
		if len(wins) > 0 && r.Intn(4) != 0 {
			qs, qe = wins[0][0], wins[0][1]
		}
		if r.Intn(10) == 0 {
			qs = 0
		}
		if r.Intn(10) == 0 {
			qe = base + 100000
		}
		ixs := []string{"0"}
		for t := 1; t < ntab+1; t++ { // (index ntab has no table)
			if r.Intn(2) == 0 {
				ixs = append(ixs, strconv.Itoa(t))
			}
		}
		r.Shuffle(len(ixs), func(i, j int) { ixs[i], ixs[j] = ixs[j], ixs[i] })
		org := 0
		if r.Intn(10) == 0 {
			org = 1
		}
		line := strings.TrimSpace(fmt.Sprintf("segsel %d %d %d %s R %s U %s", qs, qe, org, strings.Join(ixs, ","), strings.Join(rt, " "), strings.Join(ut, " ")))
		if r.Intn(100) == 0 { // malformed op lines: both sides must refuse them
			switch r.Intn(3) {
			case 0:
				line = strings.Replace(line, " U", "", 1)
			case 1:
				line = strings.Replace(line, ":", "", 1)
			default:
				line = strings.Replace(line, " R", " R x", 1)
			}
		}
		out = append(out, line)
	}
	return out
}

func ssParseSeg(t string) (ssSeg, bool) {
	p := strings.Split(t, ":")
	if len(p) != 5 {
		return ssSeg{}, false
	}
	var s ssSeg
	var e [5]error
	s.key, e[0] = strconv.Atoi(p[0])
	s.table, e[1] = strconv.Atoi(p[1])
	s.lo, e[2] = strconv.ParseUint(p[2], 10, 64)
	s.hi, e[3] = strconv.ParseUint(p[3], 10, 64)
	s.org, e[4] = strconv.ParseInt(p[4], 10, 64)
	for _, x := range e {
		if x != nil {
			return ssSeg{}, false
		}
	}
	if s.key < 0 || s.table < 0 || strings.HasPrefix(p[0], "+") || strings.HasPrefix(p[1], "+") || strings.HasPrefix(p[4], "+") {
		return ssSeg{}, false
	}
	return s, true
}

func ssKeyName(k int) string   { return fmt.Sprintf("sk%d", k) }
func ssTableName(t int) string { return fmt.Sprintf("sstab%d", t) }

func ssKeys(ks []string) string {
	seen := map[int]bool{}
	var ns []int
	for _, k := range ks {
		n, err := strconv.Atoi(strings.TrimPrefix(k, "sk"))
		if err != nil {
			n = -1
		}
		if !seen[n] {
			seen[n] = true
			ns = append(ns, n)
		}
	}
	sort.Ints(ns)
	var p []string
	for _, n := range ns {
		p = append(p, strconv.Itoa(n))
	}
	return strings.Join(p, ",")
}

var ssQid = uint64(7700000)

func execSegSel(line string) Result {
	f := strings.Fields(line)
	if len(f) < 7 || f[0] != "segsel" || f[5] != "R" {
		return Result{Out: "bad-op"}
	}
	qs, e1 := strconv.ParseUint(f[1], 10, 64)
	qe, e2 := strconv.ParseUint(f[2], 10, 64)
	org, e3 := strconv.ParseInt(f[3], 10, 64)
	if e1 != nil || e2 != nil || e3 != nil || strings.HasPrefix(f[3], "+") {
		return Result{Out: "bad-op"}
	}
	var ixs []int
	for _, t := range strings.Split(f[4], ",") {
		n, err := strconv.Atoi(t)
		if err != nil || n < 0 || strings.HasPrefix(t, "+") {
			return Result{Out: "bad-op"}
		}
		ixs = append(ixs, n)
	}
	var bulks [][]ssSeg
	bulks = append(bulks, nil)
	i := 6
	for ; i < len(f) && f[i] != "U"; i++ {
		if f[i] == "|" {
			bulks = append(bulks, nil)
			continue
		}
		s, ok := ssParseSeg(f[i])
		if !ok {
			return Result{Out: "bad-op"}
		}
		bulks[len(bulks)-1] = append(bulks[len(bulks)-1], s)
	}
	if i >= len(f) {
		return Result{Out: "bad-op"}
	}
	var open []ssSeg
	for _, t := range f[i+1:] {
		s, ok := ssParseSeg(t)
		if !ok {
			return Result{Out: "bad-op"}
		}
		open = append(open, s)
	}
	// the real metadata
	segmetadata.ResetGlobalMetadataForTest()
	rotated := map[int]ssSeg{} // first addition of a key wins (a known key is merged and keeps its range)
	for _, b := range bulks {
		var smis []*segmetadata.SegmentMicroIndex
		for _, s := range b {
			smis = append(smis, segmetadata.ProcessSegmetaInfo(&structs.SegMeta{SegmentKey: ssKeyName(s.key), VirtualTableName: ssTableName(s.table),
				EarliestEpochMS: s.lo, LatestEpochMS: s.hi, OrgId: s.org, RecordCount: 1}))
			if _, ok := rotated[s.key]; !ok {
				rotated[s.key] = s
			}
		}
		segmetadata.BulkAddSegmentMicroIndex(smis)
	}
	var uk, ut []string
	var ulo, uhi []uint64
	var uorg []int64
	for _, s := range open {
		uk, ut, ulo, uhi, uorg = append(uk, ssKeyName(s.key)), append(ut, ssTableName(s.table)), append(ulo, s.lo), append(uhi, s.hi), append(uorg, s.org)
	}
	writer.VerifSegSelSetUnrotated(uk, ut, ulo, uhi, uorg)
	defer func() {
		segmetadata.ResetGlobalMetadataForTest()
		writer.VerifSegSelSetUnrotated(nil, nil, nil, nil, nil)
	}()
	var names []string
	for _, ix := range ixs {
		names = append(names, ssTableName(ix))
	}
	tr := &dtu.TimeRange{StartEpochMs: qs, EndEpochMs: qe}
	flat := func(m map[string]map[string]*structs.SegmentByTimeAndColSizes) []string {
		var ks []string
		for _, t := range m {
			for k := range t {
				ks = append(ks, k)
			}
		}
		return ks
	}
	rsel, passed, checked := segmetadata.FilterSegmentsByTime(tr, names, org)
	usel, uchecked, upassed := writer.FilterUnrotatedSegmentsInQuery(tr, names, org)
	var fails []PropFail
	reqs := func(aggs bool) (string, map[int]bool) {
		ssQid++
		keys, unrot, err := query.VerifSegSelCollect(strings.Join(names, ","), qs, qe, org, aggs, ssQid)
		if err != nil {
			return "error", nil
		}
		var a, b []string
		got := map[int]bool{}
		for j, k := range keys {
			if unrot[j] {
				a = append(a, k)
			} else {
				b = append(b, k)
			}
			n, _ := strconv.Atoi(strings.TrimPrefix(k, "sk"))
			got[n] = true
		}
		return ssKeys(a) + "/" + ssKeys(b), got
	}
	q1, got1 := reqs(false)
	q2, got2 := reqs(true)
	// the property itself: every segment of a queried index and the query's org that shares an instant with the range is asked for
	queried := map[int]bool{}
	for _, ix := range ixs {
		queried[ix] = true
	}
	inRange := func(s ssSeg) bool {
		lo, hi := s.lo, s.hi
		if qs > lo {
			lo = qs
		}
		if qe < hi {
			hi = qe
		}
		return s.lo <= s.hi && qs <= qe && lo <= hi && queried[s.table] && s.org == org
	}
	nQueried := 0
	check := func(s ssSeg, kind string) {
		if queried[s.table] {
			nQueried++
		}
		if !inRange(s) {
			return
		}
		for qi, got := range []map[int]bool{got1, got2} {
			if got != nil && !got[s.key] {
				fails = append(fails, PropFail{Sig: "segsel/" + kind + "-segment-in-range-not-requested/" + []string{"record-query", "stats-query"}[qi],
					Msg: fmt.Sprintf("the %s segment %d of index %d spans [%d, %d] and shares an instant with the query range [%d, %d], but the %s asks for the segments {%s}: the events of the segment inside the range are not searched",
						kind, s.key, s.table, s.lo, s.hi, qs, qe, []string{"record query", "segment-statistics query"}[qi], []string{q1, q2}[qi])})
			}
		}
	}
	for _, s := range rotated {
		check(s, "rotated")
	}
	for _, s := range open {
		if _, ok := rotated[s.key]; !ok {
			check(s, "open")
		}
	}
	sort.Slice(fails, func(a, b int) bool { return fails[a].Sig+fails[a].Msg < fails[b].Sig+fails[b].Msg })
	out := fmt.Sprintf("rot=%s passed=%d checked=%d unrot=%s upassed=%d uchecked=%d q=%s aggs=%s", ssKeys(flat(rsel)), passed, checked, ssKeys(flat(usel)), upassed, uchecked, q1, q2)
	// tags
	var tags []string
	var rl []ssSeg
	for _, s := range rotated {
		if queried[s.table] && s.org == org {
			rl = append(rl, s)
		}
	}
	ov := func(s ssSeg) bool { return inRange(s) }
	gap := false
	for _, a := range rl {
		for _, b := range rl {
			for _, c := range rl {
				if a.table == b.table && b.table == c.table && a.hi > b.hi && b.hi > c.hi && ov(a) && !ov(b) && ov(c) {
					gap = true
				}
			}
		}
	}
	if gap {
		tags = append(tags, "window-overlaps-rotated-segments-not-adjacent-by-end")
	}
	behind := false
	for _, o := range open {
		if _, isRot := rotated[o.key]; !isRot && ov(o) {
			for _, a := range rl {
				if a.table == o.table && a.hi >= qe {
					behind = true
				}
			}
		}
	}
	if behind {
		tags = append(tags, "open-segment-in-range-and-rotated-data-ending-at-or-after-the-range")
	}
	if len(bulks) > 1 {
		tags = append(tags, "several-bulks")
	}
	if qs > qe {
		tags = append(tags, "reversed-range")
	}
	for _, s := range open {
		if _, ok := rotated[s.key]; ok {
			tags = append(tags, "key-open-and-rotated")
			break
		}
	}
	tags = append(tags, fmt.Sprintf("rotated-selected=%d", min(len(flat(rsel)), 4)), fmt.Sprintf("open-selected=%d", min(len(flat(usel)), 3)))
	return Result{Out: out, Fails: fails, Nontrivial: nQueried >= 2, Tags: tags}
}
