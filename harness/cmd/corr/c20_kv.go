package main

import (
	"bytes"
	"context"
	"encoding/hex"
	"encoding/json"
	"errors"
	"fmt"
	"math/rand"
	"mime/multipart"
	"os"
	"os/exec"
	"sort"
	"strconv"
	"strings"
	"sync"
	"time"
	"unicode/utf8"

	"github.com/siglens/siglens/pkg/alerts/alertsHandler"
	"github.com/siglens/siglens/pkg/alerts/alertutils"
	"github.com/siglens/siglens/pkg/config"
	"github.com/siglens/siglens/pkg/dashboards"
	"github.com/siglens/siglens/pkg/hooks"
	"github.com/siglens/siglens/pkg/lookups"
	usq "github.com/siglens/siglens/pkg/usersavedqueries"
	eswriter "github.com/siglens/siglens/pkg/es/writer"
	vtable "github.com/siglens/siglens/pkg/virtualtable"
	"github.com/valyala/fasthttp"
)

// suite "kv" (C20, keyed-store half):  kv <store> <op> <op> …
//   tenants: one digit 0|1|2 → org ids 0, 1, 7;  names and values: lower-case hex of their bytes
//     c<t>.<k>=<v> create   u<t>.<k>=<v> update   r<t>.<k>><k2> rename   d<t>.<k> delete
//     g<t>.<k> get          l<t> list             R restart (new process on the same data directory)
//   (per store: see the kvStore implementations; alias uses d<t>.<index>=<alias> and q<t>.<alias>)
// Every line runs the REAL store in a fresh data directory.  R clears the package's in-memory state through
// an overlay hook and calls the package's own Init function, so that the state really comes from the disk.
// The property statement is checked independently of the Lean model against a plain Go map ("shadow") that
// records what the store ACKNOWLEDGED: after every operation every tenant is read back through the store's
// own read functions and compared with the shadow.

func init() {
	register(&Suite{Name: "kv", Gen: genKV, Exec: execKV,
		Rule: "operation sequences (≤ 40 ops) of create/update/rename/delete/get/list/restart over 3 tenants (orgs 0, 1, 7) against the real stores (saved queries, index aliases, …) in a fresh data directory per line; names with spaces, unicode, dots, quotes, control characters, 300-byte names, case variants and prefixes of each other; restart at any position; after EVERY op every tenant is read back and compared with a plain Go map of the acknowledged writes; non-trivial = ≥ 3 ops with an accepted write and a read"})
}

var kvOrgs = []int64{0, 1, 7}

type kvOp struct {
	kind     byte // c u r d g l q R
	t        int
	k, k2, v string
	form     byte // 0: bare key, '=': k=v, '>': k>k2, 'l': no key, 'R'
	id, pid  int  // dash store: object id, parent id (-1 = not given)
	acts     []kvAliasAct // alias store: the actions of one POST _aliases request (kind 'P')
}

// one action of a POST _aliases request: 'a' add {index}, 'A' add {indices}, 'r' remove, 'x' an action the handler cannot read
type kvAliasAct struct {
	kind    byte
	indexes []string
	alias   string
}

func kvHexLower(s string) (string, bool) {
	if len(s)%2 != 0 {
		return "", false
	}
	for i := 0; i < len(s); i++ {
		c := s[i]
		if !((c >= '0' && c <= '9') || (c >= 'a' && c <= 'f')) {
			return "", false
		}
	}
	b, err := hex.DecodeString(s)
	if err != nil {
		return "", false
	}
	return string(b), true
}

func kvHex(s string) string { return hex.EncodeToString([]byte(s)) }

// kvParseTok mirrors Oracle/C20K.lean: the generic token shapes; each store then accepts a subset.
func kvParseTok(s string) (kvOp, bool) {
	if s == "R" {
		return kvOp{kind: 'R', form: 'R'}, true
	}
	if len(s) == 2 && s[0] == 'l' {
		if s[1] < '0' || s[1] > '2' {
			return kvOp{}, false
		}
		return kvOp{kind: 'l', t: int(s[1] - '0'), form: 'l'}, true
	}
	if len(s) < 3 || s[1] < '0' || s[1] > '2' || s[2] != '.' {
		return kvOp{}, false
	}
	op := kvOp{kind: s[0], t: int(s[1] - '0')}
	rest := s[3:]
	var ok bool
	switch {
	case strings.Count(rest, "=") == 1 && !strings.Contains(rest, ">"):
		i := strings.IndexByte(rest, '=')
		op.form = '='
		if op.k, ok = kvHexLower(rest[:i]); !ok {
			return kvOp{}, false
		}
		if op.v, ok = kvHexLower(rest[i+1:]); !ok {
			return kvOp{}, false
		}
	case strings.Count(rest, ">") == 1 && !strings.Contains(rest, "="):
		i := strings.IndexByte(rest, '>')
		op.form = '>'
		if op.k, ok = kvHexLower(rest[:i]); !ok {
			return kvOp{}, false
		}
		if op.k2, ok = kvHexLower(rest[i+1:]); !ok {
			return kvOp{}, false
		}
	default:
		if op.k, ok = kvHexLower(rest); !ok {
			return kvOp{}, false
		}
	}
	return op, true
}

type kvStore interface {
	parse(tok string) (kvOp, bool)
	boot() error
	apply(op kvOp) string
	restart() error
	// readAll returns what the store's read functions currently answer for tenant t, as a canonical
	// string map (the same shape as the store's shadow)
	readAll(t int) (map[string]string, error)
	// shadow of tenant t: what the acknowledged writes say the reads must return
	shadowOf(t int) map[string]string
}

var kvCurRun *kvRun // the line being executed (stores report immediate property failures through it)

type kvRun struct {
	store   string
	res     *Result
	seen    map[string]bool
	lastOp  kvOp
	lastTok string
	afterRe bool
	tainted [3]bool // a tenant whose reads already differed once is not audited further (no cascades)
	// stores that load a tenant's state LAZILY (saved queries: InitUsq loads org 0 only, every other org on its
	// first request): a read-back of a tenant that no operation has addressed since the last restart would itself
	// be that first request and hide what a WRITE as the first request does.  For such stores only the tenants in
	// `only` are read back after an operation; every tenant is read back before a restart and at the end of the line.
	only       *[3]bool
	firstTouch bool // the operation just executed was its tenant's first since a restart
}

func (r *kvRun) fail(class, msg string) {
	sig := "kv/" + r.store + "/" + class
	if r.seen[sig] {
		return
	}
	r.seen[sig] = true
	r.res.Fails = append(r.res.Fails, PropFail{Sig: sig, Msg: msg})
}

func kvShow(s string) string {
	if len(s) > 100 {
		return fmt.Sprintf("%q…(%d bytes)", s[:100], len(s))
	}
	return fmt.Sprintf("%q", s)
}

// kvDiff classifies the difference between what the reads must return (want) and what they return (got)
func kvDiff(want, got map[string]string) (class, key, msg string) {
	var ks []string
	for k := range want {
		ks = append(ks, k)
	}
	for k := range got {
		if _, ok := want[k]; !ok {
			ks = append(ks, k)
		}
	}
	sort.Strings(ks)
	for _, k := range ks {
		w, okw := want[k]
		g, okg := got[k]
		switch {
		case okw && !okg:
			return "lost", k, fmt.Sprintf("%s was written (value %s) and is not returned", kvShow(k), kvShow(w))
		case !okw && okg:
			return "ghost", k, fmt.Sprintf("%s is returned (value %s) although it was deleted / never written", kvShow(k), kvShow(g))
		case w != g:
			return "stale", k, fmt.Sprintf("%s: last written %s, read %s", kvShow(k), kvShow(w), kvShow(g))
		}
	}
	return "", "", ""
}

// audit: every tenant is read back and compared with the shadow (the property statement itself)
func (r *kvRun) audit(st kvStore, when string) {
	for t := range kvOrgs {
		if r.only != nil && !r.only[t] {
			continue
		}
		got, err := st.readAll(t) // always read (a read may have side effects the model mirrors), compare unless tainted
		if r.tainted[t] {
			continue
		}
		if err != nil {
			r.fail("read-error", fmt.Sprintf("%s: reading tenant %d failed: %v", when, kvOrgs[t], err))
			r.tainted[t] = true
			continue
		}
		want := st.shadowOf(t)
		class, key, msg := kvDiff(want, got)
		if class == "" {
			continue
		}
		switch {
		case class == "ghost" && strings.HasPrefix(key, kvAliasMemView+"(no index)"):
			class = "alias-listed-without-index" // the alias' inner map stays behind, empty
		case class == "lost" && strings.HasPrefix(key, kvAliasMemView) && strings.HasSuffix(key, "\x00"):
			class = "empty-alias-in-file-view-only" // acknowledged, returned by GetAliases, never in the alias→index map
		case r.afterRe:
			class += "-after-restart"
		case r.firstTouch && r.lastOp.t == t:
			class += "-by-first-request-after-restart" // e.g. a save that starts from an empty map and rewrites the file
		case r.lastOp.form != 'R' && r.lastOp.t != t:
			class = "other-tenant-disturbed"
		case r.lastTok != "ok" && !strings.HasPrefix(r.lastTok, "ok:") && strings.ContainsRune("cudrfx", rune(r.lastOp.kind)):
			class = "failed-op-changes-state" // the operation was refused, yet what the tenant reads changed
		case class == "lost" && r.lastOp.kind == 'P' && r.lastTok == "ok":
			class = "request-acknowledged-not-stored"
		case class == "lost" && (r.lastOp.kind == 'c' || r.lastOp.kind == 'u' || r.lastOp.kind == 'f'):
			class = "ok-but-not-stored"
		case class == "ghost" && (r.lastOp.kind == 'd' || r.lastOp.kind == 'x'):
			class = "survives-delete"
		case class == "ghost" && r.lastOp.kind == 'r':
			class = "old-name-survives-rename"
		}
		r.fail(class, fmt.Sprintf("%s (tenant org %d): %s", when, kvOrgs[t], msg))
		r.tainted[t] = true
	}
}

var kvRoot string
var kvSeq int

func kvFreshDir() (string, error) {
	if kvRoot == "" {
		d, err := os.MkdirTemp("", "verifkv")
		if err != nil {
			return "", err
		}
		kvRoot = d
		exitHooks = append(exitHooks, func() { os.RemoveAll(d) })
	}
	kvSeq++
	dir := fmt.Sprintf("%s/w%d/", kvRoot, kvSeq)
	if err := os.MkdirAll(dir, 0o755); err != nil {
		return "", err
	}
	return dir, nil
}

func kvNewStore(name string) kvStore {
	switch name {
	case "usq":
		return &kvUsq{}
	case "alias":
		return &kvAlias{}
	case "dash":
		return &kvDash{}
	case "contact":
		return &kvContact{}
	case "lookup":
		return &kvLookup{}
	case "adb":
		return &kvAlertDB{}
	}
	return nil
}

func execKV(line string) Result {
	f := strings.Fields(line)
	if len(f) < 3 || f[0] != "kv" {
		return Result{Out: "bad-op"}
	}
	st := kvNewStore(f[1])
	if st == nil {
		return Result{Out: "bad-op"}
	}
	var ops []kvOp
	for _, tok := range f[2:] {
		op, ok := st.parse(tok)
		if !ok {
			return Result{Out: "bad-op"}
		}
		ops = append(ops, op)
	}
	if f[1] == "dash" && os.Getenv("VERIF_KV_CHILD") == "" && kvDashRisky(f[2:]) {
		return kvExecInChild(line)
	}
	dir, err := kvFreshDir()
	if err != nil {
		return Result{Out: "harness-error:" + err.Error()}
	}
	defer os.RemoveAll(dir)
	config.InitializeTestingConfig(dir)
	if err := st.boot(); err != nil {
		return Result{Out: "harness-error:boot:" + err.Error()}
	}
	if c, ok := st.(interface{ cleanup() }); ok {
		defer c.cleanup()
	}
	var res Result
	run := &kvRun{store: f[1], res: &res, seen: map[string]bool{}}
	kvCurRun = run
	res.Tags = append(res.Tags, "store="+f[1])
	var toks []string
	tenants := map[int]bool{}
	writes, reads, restarts := 0, 0, 0
	lazy := false
	if l, ok := st.(interface{ lazyTenants() bool }); ok {
		lazy = l.lazyTenants()
	}
	var touched [3]bool // tenants addressed by an operation since the last restart (lazy stores)
	firstWriteAfterRestart := false
	for _, op := range ops {
		run.lastOp = op
		run.afterRe = false
		run.firstTouch = false
		if op.form == 'R' {
			restarts++
			run.only = nil
			run.audit(st, "before restart")
			if op.kind == 'G' { // graceful shutdown: what cmd/startup.ShutdownSiglensServer runs for this store, then a new process
				if err := st.(interface{ shutdown() error }).shutdown(); err != nil {
					return Result{Out: "harness-error:shutdown:" + err.Error()}
				}
				res.Tags = append(res.Tags, "graceful-shutdown")
			}
			if err := st.restart(); err != nil {
				return Result{Out: "harness-error:restart:" + err.Error()}
			}
			run.afterRe = true
			if lazy {
				touched = [3]bool{} // no read-back here: it would load every tenant
			} else {
				run.audit(st, "after restart")
			}
			toks = append(toks, string(op.kind))
			continue
		}
		tenants[op.t] = true
		if lazy {
			run.firstTouch = restarts > 0 && !touched[op.t]
			if run.firstTouch && op.t != 0 && (op.kind == 'c' || op.kind == 'u') {
				firstWriteAfterRestart = true
			}
			touched[op.t] = true
			run.only = &touched
		}
		tok := st.apply(op)
		run.lastTok = tok
		toks = append(toks, tok)
		switch op.kind {
		case 'c', 'u', 'r', 'd', 'f', 'x', 'v', 'P':
			if tok == "ok" || strings.HasPrefix(tok, "ok:") || tok == "0" || tok == "1" {
				writes++
			}
		default:
			reads++
		}
		run.audit(st, "after "+string(op.kind))
	}
	if lazy {
		run.only, run.afterRe, run.firstTouch = nil, false, false
		run.audit(st, "at the end of the line")
		if firstWriteAfterRestart {
			res.Tags = append(res.Tags, "write-is-first-request-of-org≠0-after-restart")
		}
	}
	res.Out = strings.Join(toks, " ")
	res.Nontrivial = len(ops) >= 3 && writes > 0 && reads > 0
	if restarts > 0 {
		res.Tags = append(res.Tags, "restart")
	}
	if len(tenants) > 1 {
		res.Tags = append(res.Tags, "multi-tenant")
	}
	for _, op := range ops {
		if kvUnusual(op.k) || kvUnusual(op.k2) {
			res.Tags = append(res.Tags, "unusual-name")
			break
		}
	}
	return res
}

// kvDashRisky: the line moves something through the dashboard-update API (u…@pid). updateDashboard has no
// circular-reference check; when the id is a folder the request can spin forever in buildFolderPath. Such
// lines run in a child process that is killed after a timeout.
func kvDashRisky(toks []string) bool {
	for _, t := range toks {
		if strings.HasPrefix(t, "u") && strings.Contains(t, "@") {
			return true
		}
	}
	return false
}

const kvChildTimeout = 8 * time.Second

func kvExecInChild(line string) Result {
	dir, err := kvFreshDir()
	if err != nil {
		return Result{Out: "harness-error:" + err.Error()}
	}
	defer os.RemoveAll(dir)
	opsf := dir + "kv.ops"
	if err := os.WriteFile(opsf, []byte(line+"\n"), 0o644); err != nil {
		return Result{Out: "harness-error:" + err.Error()}
	}
	ctx, cancel := context.WithTimeout(context.Background(), kvChildTimeout)
	defer cancel()
	cmd := exec.CommandContext(ctx, os.Args[0], "exec", "kv", opsf, dir)
	cmd.Env = append(os.Environ(), "VERIF_KV_CHILD=1", "TMPDIR="+dir)
	out, err := cmd.CombinedOutput()
	if ctx.Err() != nil {
		return Result{Out: "hang", Nontrivial: true, Tags: []string{"store=dash", "hang"},
			Fails: []PropFail{{Sig: "kv/dash/request-hangs", Msg: "the operation sequence did not finish within 8 s in a child process (killed): a request spins forever"}}}
	}
	if err != nil {
		return Result{Out: "harness-error:child:" + err.Error() + ":" + trunc(string(out), 300)}
	}
	impl, err1 := os.ReadFile(dir + "kv.impl")
	st, err2 := os.ReadFile(dir + "kv.stats")
	if err1 != nil || err2 != nil {
		return Result{Out: "harness-error:child-output"}
	}
	res := Result{Out: strings.TrimRight(string(impl), "\n")}
	var stats struct {
		Distinct int            `json:"distinct_nontrivial"`
		Tags     map[string]int `json:"tags"`
	}
	if json.Unmarshal(st, &stats) == nil {
		res.Nontrivial = stats.Distinct > 0
		for t := range stats.Tags {
			res.Tags = append(res.Tags, t)
		}
	}
	if pf, err := os.ReadFile(dir + "kv.prop"); err == nil {
		for _, l := range strings.Split(string(pf), "\n") {
			var d struct{ Sig, Msg string }
			if strings.TrimSpace(l) != "" && json.Unmarshal([]byte(l), &d) == nil {
				res.Fails = append(res.Fails, PropFail{Sig: d.Sig, Msg: d.Msg})
			}
		}
	}
	return res
}

func kvUnusual(s string) bool {
	if len(s) > 100 {
		return true
	}
	for _, c := range s {
		if !(c >= 'a' && c <= 'z') && !(c >= '0' && c <= '9') {
			return true
		}
	}
	return false
}

// ---------------------------------------------------------------- generator

var kvNames = []string{
	"a", "ab", "abc", "abcd", "b", "A", "Ab", "AB", "q1", "q.1", "q..1", ".hidden", "x.json", "x.csv", "a b", " a", "a ", "  ",
	"ünï-ćödé", "日本語", "𝔘𝔫𝔦", "é", "é", "%2e%2e", "a%20b", "a=b&c=d", "\"quoted\"", "it's", "<b>x</b>", "a,b", "a:b", "a+b",
	"*", "?", "null", "NULL", "0", "-1", "true", "{}", "[]", "a\tb", "a\nb", "\\u0041", "con", "..a", "a..", "~", "#1", "@x", "$x", "`x`", "|", ";",
}

func kvLongName(r *rand.Rand, store string) string {
	n := []int{120, 200, 300}[r.Intn(3)]
	if store == "alias" { // an index name is a file name (+ ".json"): stay below NAME_MAX
		n = []int{120, 200, 249}[r.Intn(3)]
	}
	b := make([]byte, n)
	for i := range b {
		b[i] = "kK9_"[r.Intn(4)]
	}
	return string(b)
}

var kvVals = []string{"v1", "v2", "v3", "", " ", "* | stats count", "ünï", "{\"a\":1}", "a=b", "line1\nline2", "\"q\"", "0", "null", "日本"}

func kvPick(r *rand.Rand, pool []string) string { return pool[r.Intn(len(pool))] }

func genKV(r *rand.Rand, n int, tier string) []string {
	stores := []string{"usq", "alias", "dash", "contact", "lookup", "adb"}
	var out []string
	for i := 0; i < n; i++ {
		store := stores[i%len(stores)]
		if r.Intn(40) == 0 { // malformed share
			bad := []string{
				"kv " + store, "kv nostore l0", "kv " + store + " l3", "kv " + store + " c0.6=61", "kv " + store + " c0.61=6G", "kv " + store + " c0.61=62=63",
				"kv " + store + " x0.61", "kv " + store + " l0.61", "kv " + store + " c3.61=62", "kv " + store + " d0", "kv " + store + " c0,61=62",
				"kv " + store + " C0.61=62", "kv " + store + " c0.6A=62", "kv " + store + " r0.61>62>63", "kv " + store + " RR", "kv usq G", "kv alias P0.", "kv alias P0.a69", "kv alias P3.x", "kv usq P0.x", "kv alias P0.a69=61,,x", "kv " + store + " GG", "kv " + store + " g0.61 ll0",
				"kv " + store + " r0.61>62", "kv " + store + " q0.61=62",
			}
			out = append(out, bad[r.Intn(len(bad))])
			continue
		}
		if store == "dash" {
			out = append(out, genDashLine(r))
			continue
		}
		if store == "contact" {
			out = append(out, genContactLine(r))
			continue
		}
		if store == "lookup" {
			out = append(out, genLookupLine(r))
			continue
		}
		if store == "adb" {
			out = append(out, genAlertDBLine(r))
			continue
		}
		out = append(out, genKVLine(r, store))
	}
	return out
}

func genKVLine(r *rand.Rand, store string) string {
	// a small pool of names per line so that names repeat; some lines use near-identical names
	var pool []string
	np := 2 + r.Intn(4)
	switch r.Intn(5) {
	case 0:
		pool = []string{"a", "ab", "abc", "A", "aB"}[:np]
	case 1:
		pool = []string{"q", "q ", " q", "Q", "q."}[:np]
	default:
		for len(pool) < np {
			if r.Intn(12) == 0 {
				pool = append(pool, kvLongName(r, store))
			} else {
				pool = append(pool, kvPick(r, kvNames))
			}
		}
	}
	pool2 := pool // second name space (alias names)
	if store == "alias" && r.Intn(3) > 0 {
		pool2 = nil
		for len(pool2) < 2+r.Intn(3) {
			pool2 = append(pool2, kvPick(r, kvNames))
		}
	}
	if r.Intn(25) == 0 {
		pool = append(pool, "")
	}
	if store == "alias" && r.Intn(15) == 0 {
		pool = append(pool, []string{".", "..", "a/b", "a\\b"}[r.Intn(4)])
	}
	if store == "alias" && r.Intn(8) == 0 { // alias names that are no names: refused since patch c20-14
		pool2 = append([]string{}, pool2...)
		pool2 = append(pool2, []string{"", "", ".", "..", "a/b", "a\\b", "/", "../x"}[r.Intn(8)])
		if r.Intn(2) == 0 {
			pool2 = append(pool2, "")
		}
	}
	nt := []int{1, 2, 2, 3, 3}[r.Intn(5)]
	tperm := r.Perm(3)[:nt]
	nops := 1 + r.Intn(40)
	if r.Intn(4) == 0 {
		nops = 1 + r.Intn(8)
	}
	pR := []int{0, 4, 8, 15}[r.Intn(4)]
	var ops []string
	for j := 0; j < nops; j++ {
		t := tperm[r.Intn(nt)]
		k := kvHex(kvPick(r, pool))
		x := r.Intn(100)
		if x < pR {
			if store == "alias" && r.Intn(3) == 0 {
				ops = append(ops, "G")
			} else {
				ops = append(ops, "R")
			}
			continue
		}
		x = r.Intn(100)
		switch store {
		case "usq":
			switch {
			case x < 40:
				ops = append(ops, fmt.Sprintf("%s%d.%s=%s", []string{"c", "u"}[r.Intn(2)], t, k, kvHex(kvPick(r, kvVals))))
			case x < 58:
				ops = append(ops, fmt.Sprintf("d%d.%s", t, k))
			case x < 75:
				q := kvPick(r, pool)
				if r.Intn(3) == 0 && len(q) > 1 && utf8.ValidString(q[1:]) { // proper substring
					q = q[1:]
				}
				ops = append(ops, fmt.Sprintf("g%d.%s", t, kvHex(q)))
			default:
				ops = append(ops, fmt.Sprintf("l%d", t))
			}
		case "alias":
			a := kvHex(kvPick(r, pool2))
			if r.Intn(5) == 0 { // one POST _aliases request with 1–4 actions
				var acts []string
				for n := 1 + r.Intn(4); n > 0; n-- {
					i, al := kvHex(kvPick(r, pool)), kvHex(kvPick(r, pool2))
					switch y := r.Intn(20); {
					case y < 7:
						acts = append(acts, "a"+i+"="+al)
					case y < 13:
						var is []string
						for m := r.Intn(4); m > 0; m-- {
							is = append(is, kvHex(kvPick(r, pool)))
						}
						acts = append(acts, "A"+strings.Join(is, "+")+"="+al)
					case y < 19:
						acts = append(acts, "r"+i+"="+al)
					default:
						acts = append(acts, "x")
					}
				}
				ops = append(ops, fmt.Sprintf("P%d.%s", t, strings.Join(acts, ",")))
				continue
			}
			switch {
			case x < 38:
				ops = append(ops, fmt.Sprintf("c%d.%s=%s", t, k, a))
			case x < 58:
				ops = append(ops, fmt.Sprintf("d%d.%s=%s", t, k, a))
			case x < 70:
				ops = append(ops, fmt.Sprintf("g%d.%s", t, k))
			case x < 84:
				ops = append(ops, fmt.Sprintf("q%d.%s", t, a))
			default:
				ops = append(ops, fmt.Sprintf("l%d", t))
			}
		}
	}
	if store == "usq" && r.Intn(3) == 0 {
		// by construction: a tenant ≠ org 0 with stored queries, a restart, and that tenant's FIRST request after it
		// is a save / delete (not a read); other tenants may come first
		t := 1 + r.Intn(2)
		for k := 1 + r.Intn(3); k > 0; k-- {
			ops = append(ops, fmt.Sprintf("c%d.%s=%s", t, kvHex(kvPick(r, pool)), kvHex(kvPick(r, kvVals))))
		}
		if r.Intn(3) == 0 {
			ops = append(ops, fmt.Sprintf("c0.%s=%s", kvHex(kvPick(r, pool)), kvHex(kvPick(r, kvVals))))
		}
		ops = append(ops, "R")
		if r.Intn(3) == 0 {
			if r.Intn(2) == 0 { // org 0 (loaded by InitUsq) comes first
				ops = append(ops, fmt.Sprintf("c0.%s=%s", kvHex(kvPick(r, pool)), kvHex("v9")))
			} else {
				ops = append(ops, "l0")
			}
		}
		if r.Intn(4) == 0 {
			ops = append(ops, fmt.Sprintf("d%d.%s", t, kvHex(kvPick(r, pool))))
		} else {
			ops = append(ops, fmt.Sprintf("c%d.%s=%s", t, kvHex(kvPick(r, kvNames)), kvHex(kvPick(r, kvVals))))
		}
		ops = append(ops, fmt.Sprintf("l%d", t))
		if r.Intn(2) == 0 {
			ops = append(ops, "R", fmt.Sprintf("l%d", t))
		}
	}
	return "kv " + store + " " + strings.Join(ops, " ")
}

// ---------------------------------------------------------------- helpers

func kvCtx(body []byte, uv map[string]string) *fasthttp.RequestCtx {
	ctx := &fasthttp.RequestCtx{}
	if body != nil {
		ctx.Request.SetBody(body)
	}
	for k, v := range uv {
		ctx.SetUserValue(k, v)
	}
	return ctx
}

func kvSortedJoin(items []string, sep string) string {
	sort.Strings(items)
	return strings.Join(items, sep)
}

func kvEntries(m map[string]string) string {
	var items []string
	for k, v := range m {
		items = append(items, kvHex(k)+"="+kvHex(v))
	}
	return kvSortedJoin(items, ",")
}

// ---------------------------------------------------------------- saved queries

// kvUsq drives pkg/usersavedqueries through its HTTP handlers (in-memory fasthttp.RequestCtx).
//   c|u<t>.<name>=<value>  SaveUserQueries (upsert; value = searchText)      d<t>.<name>  DeleteUserSavedQuery
//   g<t>.<text>            SearchUserSavedQuery (names CONTAINING text)      l<t>         GetUserSavedQueriesAll
type kvUsq struct {
	shadow [3]map[string]string
}

func (s *kvUsq) parse(tok string) (kvOp, bool) {
	op, ok := kvParseTok(tok)
	return op, ok && s.accepts(op)
}

func (s *kvUsq) accepts(op kvOp) bool {
	switch op.kind {
	case 'c', 'u':
		return op.form == '='
	case 'd', 'g':
		return op.form == 0
	case 'l':
		return op.form == 'l'
	case 'R':
		return true
	}
	return false
}

func (s *kvUsq) boot() error {
	for i := range s.shadow {
		s.shadow[i] = map[string]string{}
	}
	usq.VerifResetUsqMemory()
	return usq.InitUsq()
}

func (s *kvUsq) restart() error {
	usq.VerifResetUsqMemory()
	return usq.InitUsq()
}

func (s *kvUsq) shadowOf(t int) map[string]string { return s.shadow[t] }

// InitUsq loads org 0 only; every other org is loaded by its first request (readSavedQueries)
func (s *kvUsq) lazyTenants() bool { return true }

const kvUsqDescPrefix = "description of "

func kvUsqDecode(body []byte) (map[string]string, error) {
	var m map[string]map[string]interface{}
	if err := json.Unmarshal(body, &m); err != nil {
		return nil, fmt.Errorf("answer is not a JSON object: %v", err)
	}
	out := map[string]string{}
	for name, q := range m {
		v, _ := q["searchText"].(string)
		d, _ := q["description"].(string)
		if d != kvUsqDescPrefix+v || q["indexName"] != "idx-"+v {
			v = fmt.Sprintf("%s\x00damaged-fields(description=%q,indexName=%v)", v, d, q["indexName"])
		}
		out[name] = v
	}
	return out, nil
}

func (s *kvUsq) readAll(t int) (map[string]string, error) {
	ctx := kvCtx(nil, nil)
	usq.GetUserSavedQueriesAll(ctx, kvOrgs[t])
	if ctx.Response.StatusCode() != 200 {
		return nil, fmt.Errorf("GetUserSavedQueriesAll: status %d", ctx.Response.StatusCode())
	}
	return kvUsqDecode(ctx.Response.Body())
}

func (s *kvUsq) apply(op kvOp) string {
	org := kvOrgs[op.t]
	switch op.kind {
	case 'c', 'u':
		body, _ := json.Marshal(map[string]string{"queryName": op.k, "searchText": op.v, "queryDescription": kvUsqDescPrefix + op.v, "indexName": "idx-" + op.v})
		ctx := kvCtx(body, nil)
		usq.SaveUserQueries(ctx, org)
		switch ctx.Response.StatusCode() {
		case 200:
			s.shadow[op.t][op.k] = op.v
			return "ok"
		case 400:
			return "inv"
		}
		return fmt.Sprintf("err%d", ctx.Response.StatusCode())
	case 'd':
		ctx := kvCtx(nil, map[string]string{"qname": op.k})
		usq.DeleteUserSavedQuery(ctx, org)
		switch ctx.Response.StatusCode() {
		case 200:
			delete(s.shadow[op.t], op.k)
			return "ok"
		case 400:
			return "nf"
		}
		return fmt.Sprintf("err%d", ctx.Response.StatusCode())
	case 'g':
		ctx := kvCtx(nil, map[string]string{"qname": op.k})
		usq.SearchUserSavedQuery(ctx, org)
		switch ctx.Response.StatusCode() {
		case 404:
			return "nf"
		case 200:
			m, err := kvUsqDecode(ctx.Response.Body())
			if err != nil {
				return "err:" + err.Error()
			}
			if len(m) == 0 {
				return "nf"
			}
			return kvEntries(m)
		}
		return fmt.Sprintf("err%d", ctx.Response.StatusCode())
	case 'l':
		m, err := s.readAll(op.t)
		if err != nil {
			return "err"
		}
		return "[" + kvEntries(m) + "]"
	}
	return "bad-op"
}

// ---------------------------------------------------------------- index aliases

// kvAlias drives the alias functions of pkg/virtualtable.  The keyed store is (org, index) ↦ set of alias
// names, read in two directions: GetAliases(index) from the per-index file, and the in-memory inverse
// alias ↦ indexes (GetAllAliasesAsMapArray, IsAlias).
//   c<t>.<index>=<alias> AddAliases      d<t>.<index>=<alias> RemoveAliases     g<t>.<index> GetAliases
//   l<t> GetAllAliasesAsMapArray         q<t>.<alias> IsAlias
//   G graceful shutdown (FlushAliasMapToFile, as ShutdownSiglensServer calls it) followed by a restart
//   P<t>.<action>,… one POST _aliases request through the REAL handler es/writer.ProcessPostAliasesRequest
//     (a<index>=<alias> add/index, A<index>+…=<alias> add/indices, r<index>=<alias> remove, x unknown action) → ok | bad
// shadow key: "<index>\x00<alias>" ↦ "1"; readAll merges both read directions: "F"/"M" = seen in the
// file view / in the memory view.
type kvAlias struct {
	shadow  [3]map[string]string
	touched [3]map[string]bool // index names ever used (GetAliases is asked for each)
}

// P<t>.<action>,<action>,…   action ::= a<index>=<alias> | A<index>+<index>…=<alias> | r<index>=<alias> | x
func kvParseAliasPost(tok string) (kvOp, bool) {
	if len(tok) < 4 || tok[0] != 'P' || tok[1] < '0' || tok[1] > '2' || tok[2] != '.' {
		return kvOp{}, false
	}
	op := kvOp{kind: 'P', t: int(tok[1] - '0'), form: 'P'}
	for _, a := range strings.Split(tok[3:], ",") {
		if a == "x" {
			op.acts = append(op.acts, kvAliasAct{kind: 'x'})
			continue
		}
		if a == "" {
			return kvOp{}, false
		}
		is, al, ok := kvSplit1(a[1:], "=")
		if !ok {
			return kvOp{}, false
		}
		act := kvAliasAct{kind: a[0]}
		if act.alias, ok = kvHexLower(al); !ok {
			return kvOp{}, false
		}
		switch a[0] {
		case 'a', 'r':
			i, ok := kvHexLower(is)
			if !ok {
				return kvOp{}, false
			}
			act.indexes = []string{i}
		case 'A':
			if is != "" {
				for _, h := range strings.Split(is, "+") {
					i, ok := kvHexLower(h)
					if !ok {
						return kvOp{}, false
					}
					act.indexes = append(act.indexes, i)
				}
			}
		default:
			return kvOp{}, false
		}
		op.acts = append(op.acts, act)
	}
	return op, true
}

func (s *kvAlias) parse(tok string) (kvOp, bool) {
	if tok == "G" { // graceful shutdown (FlushAliasMapToFile) + restart
		return kvOp{kind: 'G', form: 'R'}, true
	}
	if strings.HasPrefix(tok, "P") {
		return kvParseAliasPost(tok)
	}
	op, ok := kvParseTok(tok)
	return op, ok && s.accepts(op)
}

func (s *kvAlias) shutdown() error { return vtable.FlushAliasMapToFile() }

func (s *kvAlias) accepts(op kvOp) bool {
	switch op.kind {
	case 'c', 'd':
		return op.form == '='
	case 'g', 'q':
		return op.form == 0
	case 'l':
		return op.form == 'l'
	case 'R':
		return true
	}
	return false
}

func kvMyIds() []int64 { return kvOrgs }

func (s *kvAlias) boot() error {
	for i := range s.shadow {
		s.shadow[i] = map[string]string{}
		s.touched[i] = map[string]bool{}
	}
	vtable.VerifResetAliasMemory()
	if err := vtable.InitVTable(kvMyIds); err != nil {
		return err
	}
	// ASSUMPTION (documented in props.py): the per-org alias directories exist. The OSS tree never creates
	// them (AddAliases of an org ≠ 0 fails with ENOENT otherwise); a multi-tenant deployment has to.
	for _, o := range kvOrgs {
		if o != 0 {
			if err := os.MkdirAll(vtable.VTableAliasesDir+strconv.FormatInt(o, 10)+"/", 0o764); err != nil {
				return err
			}
		}
	}
	return nil
}

func (s *kvAlias) restart() error {
	vtable.VerifResetAliasMemory()
	return vtable.InitVTable(kvMyIds)
}

const kvAliasFileView, kvAliasMemView = "file-view(GetAliases) ", "memory-view(alias→index map) "

func (s *kvAlias) shadowOf(t int) map[string]string {
	// both read directions must show every acknowledged pair (the empty alias name is no exception: since patch
	// c20-14 AddAliases refuses it; before, it was acknowledged, written to the index' file and never put into memory)
	m := map[string]string{}
	for k := range s.shadow[t] {
		m[kvAliasFileView+k] = "1"
		m[kvAliasMemView+k] = "1"
	}
	return m
}

func (s *kvAlias) readAll(t int) (map[string]string, error) {
	org := kvOrgs[t]
	out := map[string]string{}
	for idx := range s.touched[t] {
		if !vtable.IsValidIndexName(idx) {
			continue
		}
		as, err := vtable.GetAliases(idx, org)
		if err != nil {
			return nil, fmt.Errorf("GetAliases(%q): %v", idx, err)
		}
		for a := range as {
			out[kvAliasFileView+idx+"\x00"+a] = "1"
		}
	}
	all, err := vtable.GetAllAliasesAsMapArray(org)
	if err != nil {
		return nil, err
	}
	for a, idxs := range all {
		if len(idxs) == 0 {
			out[kvAliasMemView+"(no index)\x00"+a] = "1"
		}
		for _, idx := range idxs {
			out[kvAliasMemView+idx+"\x00"+a] = "1"
		}
	}
	return out, nil
}

func kvAliasErr(err error) string {
	switch {
	case err == nil:
		return "ok"
	case errors.Is(err, os.ErrNotExist):
		return "nf"
	case strings.Contains(err.Error(), "indexName is null"), strings.Contains(err.Error(), "indexName is invalid"), strings.Contains(err.Error(), "invalid indexName"),
		strings.Contains(err.Error(), "alias name is invalid"):
		return "inv"
	}
	return "err:" + strings.ReplaceAll(err.Error(), " ", "_")
}

// resync: go on from what the alias files hold (after a refused request only a prefix of it was applied)
func (s *kvAlias) resync(t int) {
	n := map[string]string{}
	for idx := range s.touched[t] {
		if !vtable.IsValidIndexName(idx) {
			continue
		}
		if as, err := vtable.GetAliases(idx, kvOrgs[t]); err == nil {
			for a := range as {
				n[idx+"\x00"+a] = "1"
			}
		}
	}
	s.shadow[t] = n
}

// post drives the REAL handler of POST _aliases (es/writer.ProcessPostAliasesRequest) with one request.
func (s *kvAlias) post(op kvOp) string {
	var actions []map[string]interface{}
	mustRefuse := ""
	for _, a := range op.acts {
		for _, i := range a.indexes {
			s.touched[op.t][i] = true
			if !vtable.IsValidIndexName(i) && mustRefuse == "" {
				mustRefuse = fmt.Sprintf("index name %q is not a valid name", i)
			}
		}
		if a.kind != 'x' && a.kind != 'r' && !vtable.IsValidIndexName(a.alias) && len(a.indexes) > 0 && mustRefuse == "" {
			mustRefuse = fmt.Sprintf("alias name %q is not a valid name", a.alias)
		}
		switch a.kind {
		case 'a':
			actions = append(actions, map[string]interface{}{"add": map[string]interface{}{"index": a.indexes[0], "alias": a.alias}})
		case 'A':
			is := []interface{}{}
			for _, i := range a.indexes {
				is = append(is, i)
			}
			actions = append(actions, map[string]interface{}{"add": map[string]interface{}{"indices": is, "alias": a.alias}})
		case 'r':
			actions = append(actions, map[string]interface{}{"remove": map[string]interface{}{"index": a.indexes[0], "alias": a.alias}})
		case 'x':
			actions = append(actions, map[string]interface{}{"frobnicate": map[string]interface{}{"index": "i", "alias": "a"}})
			if mustRefuse == "" {
				mustRefuse = "the action name is unknown"
			}
		}
	}
	body, _ := json.Marshal(map[string]interface{}{"actions": actions})
	ctx := kvCtx(body, nil)
	eswriter.ProcessPostAliasesRequest(ctx, kvOrgs[op.t])
	switch ctx.Response.StatusCode() {
	case 200:
		if !strings.Contains(string(ctx.Response.Body()), "\"acknowledged\":true") {
			return "err:200-without-acknowledged"
		}
		if mustRefuse != "" {
			kvCurRun.fail("refused-action-acknowledged", fmt.Sprintf("POST _aliases %s is answered 200 acknowledged although %s", trunc(string(body), 300), mustRefuse))
			s.resync(op.t)
			return "ok"
		}
		// acknowledged ⇔ stored: every action of the request is in force
		for _, a := range op.acts {
			for _, i := range a.indexes {
				if a.kind == 'r' {
					delete(s.shadow[op.t], i+"\x00"+a.alias)
				} else {
					s.shadow[op.t][i+"\x00"+a.alias] = "1"
				}
			}
		}
		return "ok"
	case 400:
		s.resync(op.t)
		return "bad"
	}
	return fmt.Sprintf("err%d", ctx.Response.StatusCode())
}

func (s *kvAlias) apply(op kvOp) string {
	org := kvOrgs[op.t]
	switch op.kind {
	case 'P':
		return s.post(op)
	case 'c':
		s.touched[op.t][op.k] = true
		err := vtable.AddAliases(op.k, []string{op.v}, org)
		if err == nil {
			s.shadow[op.t][op.k+"\x00"+op.v] = "1"
		}
		return kvAliasErr(err)
	case 'd':
		s.touched[op.t][op.k] = true
		err := vtable.RemoveAliases(op.k, []string{op.v}, org)
		if err == nil {
			delete(s.shadow[op.t], op.k+"\x00"+op.v)
		}
		return kvAliasErr(err)
	case 'g':
		as, err := vtable.GetAliases(op.k, org)
		if err != nil {
			return kvAliasErr(err)
		}
		var items []string
		for a := range as {
			items = append(items, kvHex(a))
		}
		return "{" + kvSortedJoin(items, ",") + "}"
	case 'l':
		all, err := vtable.GetAllAliasesAsMapArray(org)
		if err != nil {
			return kvAliasErr(err)
		}
		var items []string
		for a, idxs := range all {
			var hs []string
			for _, i := range idxs {
				hs = append(hs, kvHex(i))
			}
			items = append(items, kvHex(a)+":"+kvSortedJoin(hs, "+"))
		}
		return "[" + kvSortedJoin(items, ",") + "]"
	case 'q':
		found, idx := vtable.IsAlias(op.k, org)
		if !found {
			return "-"
		}
		// IsAlias answers with ONE of the alias' indexes (Go map order): canonical only when the store itself
		// holds a single candidate (GetAllAliasesAsMapArray of the same in-memory map)
		all, _ := vtable.GetAllAliasesAsMapArray(org)
		if len(all[op.k]) > 1 {
			ok := false
			for _, i := range all[op.k] {
				ok = ok || i == idx
			}
			if !ok {
				return "wrong-index:" + kvHex(idx)
			}
			return "*"
		}
		return kvHex(idx)
	}
	return "bad-op"
}

// ---------------------------------------------------------------- dashboards and folders

// kvDash drives pkg/dashboards (functions underneath the HTTP handlers, via the overlay).  Ids in the op line
// are numbers: 0 = root folder, n = the n-th object created by the line (the harness numbers the UUIDs in
// creation order); a number not created yet stands for an id nobody has.
//   c<t>.<name>=<payload>[@<pid>] create dashboard    f<t>.<name>[@<pid>] create folder
//   u<t>.<id>=<name>:<payload>[@<pid>] update dashboard (move with @)    r<t>.<id>><name>[@<pid>] rename/move folder
//   d<t>.<id> delete dashboard   x<t>.<id> delete folder   g<t>.<id> get dashboard   k<t>.<id> folder contents
//   l<t> list all items          v<t>.<id> toggle favorite
type kvDashObj struct {
	folder        bool
	name, payload string
	parent        int
	fav           bool
}

type kvDash struct {
	uuid   []string       // number → uuid (index 0 = root)
	num    map[string]int // uuid → number
	shadow [3]map[int]*kvDashObj
}

func kvDec(s string) (int, bool) {
	if s == "" || len(s) > 6 {
		return 0, false
	}
	for i := 0; i < len(s); i++ {
		if s[i] < '0' || s[i] > '9' {
			return 0, false
		}
	}
	n, err := strconv.Atoi(s)
	return n, err == nil
}

func kvSplitAt(s string) (string, int, bool) {
	parts := strings.Split(s, "@")
	switch len(parts) {
	case 1:
		return s, -1, true
	case 2:
		p, ok := kvDec(parts[1])
		return parts[0], p, ok
	}
	return "", 0, false
}

func kvSplit1(s string, sep string) (string, string, bool) {
	parts := strings.Split(s, sep)
	if len(parts) != 2 {
		return "", "", false
	}
	return parts[0], parts[1], true
}

func (s *kvDash) parse(tok string) (kvOp, bool) {
	if tok == "R" {
		return kvOp{kind: 'R', form: 'R'}, true
	}
	if len(tok) == 2 && tok[0] == 'l' {
		if tok[1] < '0' || tok[1] > '2' {
			return kvOp{}, false
		}
		return kvOp{kind: 'l', t: int(tok[1] - '0'), form: 'l'}, true
	}
	if len(tok) < 3 || tok[1] < '0' || tok[1] > '2' || tok[2] != '.' {
		return kvOp{}, false
	}
	op := kvOp{kind: tok[0], t: int(tok[1] - '0'), pid: -1}
	rest := tok[3:]
	var ok bool
	switch op.kind {
	case 'c':
		body, pid, ok1 := kvSplitAt(rest)
		k, v, ok2 := kvSplit1(body, "=")
		if !ok1 || !ok2 {
			return kvOp{}, false
		}
		op.pid = pid
		if op.k, ok = kvHexLower(k); !ok {
			return kvOp{}, false
		}
		if op.v, ok = kvHexLower(v); !ok {
			return kvOp{}, false
		}
	case 'f':
		body, pid, ok1 := kvSplitAt(rest)
		if !ok1 {
			return kvOp{}, false
		}
		op.pid = pid
		if op.k, ok = kvHexLower(body); !ok {
			return kvOp{}, false
		}
	case 'u':
		body, pid, ok1 := kvSplitAt(rest)
		ids, nv, ok2 := kvSplit1(body, "=")
		if !ok1 || !ok2 {
			return kvOp{}, false
		}
		k, v, ok3 := kvSplit1(nv, ":")
		id, ok4 := kvDec(ids)
		if !ok3 || !ok4 || id == 0 {
			return kvOp{}, false
		}
		op.id, op.pid = id, pid
		if op.k, ok = kvHexLower(k); !ok {
			return kvOp{}, false
		}
		if op.v, ok = kvHexLower(v); !ok {
			return kvOp{}, false
		}
	case 'r':
		body, pid, ok1 := kvSplitAt(rest)
		ids, k, ok2 := kvSplit1(body, ">")
		id, ok3 := kvDec(ids)
		if !ok1 || !ok2 || !ok3 {
			return kvOp{}, false
		}
		op.id, op.pid = id, pid
		if op.k, ok = kvHexLower(k); !ok {
			return kvOp{}, false
		}
	case 'd', 'x', 'g', 'k', 'v':
		if op.id, ok = kvDec(rest); !ok {
			return kvOp{}, false
		}
	default:
		return kvOp{}, false
	}
	return op, true
}

func (s *kvDash) boot() error {
	s.uuid = []string{dashboards.VerifRootFolderID}
	s.num = map[string]int{dashboards.VerifRootFolderID: 0}
	for i := range s.shadow {
		s.shadow[i] = map[int]*kvDashObj{}
	}
	return s.restart()
}

func (s *kvDash) restart() error {
	// cmd/startup calls InitDashboards(0); the other orgs' structures are created the same way
	for _, o := range kvOrgs {
		if err := dashboards.InitDashboards(o); err != nil {
			return err
		}
	}
	return nil
}

func (s *kvDash) ref(n int) string {
	if n >= 0 && n < len(s.uuid) {
		return s.uuid[n]
	}
	return fmt.Sprintf("00000000-0000-4000-8000-%012d", n) // an id nobody has
}

func (s *kvDash) number(uuid string) int {
	if n, ok := s.num[uuid]; ok {
		return n
	}
	return -1
}

func (s *kvDash) newID(uuid string) int {
	s.uuid = append(s.uuid, uuid)
	s.num[uuid] = len(s.uuid) - 1
	return len(s.uuid) - 1
}

func kvDashErr(err error) string {
	if err == nil {
		return "ok"
	}
	m := err.Error()
	switch {
	case strings.Contains(m, "name cannot be empty"), strings.Contains(m, "cannot update root folder"), strings.Contains(m, "cannot delete root folder"):
		return "inv"
	case strings.Contains(m, "arent folder not found"):
		return "pnf"
	case strings.Contains(m, "must be a folder"), strings.Contains(m, "is not a dashboard"), strings.Contains(m, "is not a folder"):
		return "nd"
	case strings.Contains(m, "already exists"):
		return "ex"
	case strings.Contains(m, "circular reference"):
		return "cyc"
	case strings.Contains(m, "dashboard not found"), strings.Contains(m, "folder not found"), errors.Is(err, os.ErrNotExist):
		return "nf"
	}
	return "err:" + strings.ReplaceAll(m, " ", "_")
}

// shadow path of a folder: names below the root, joined with '/'
func (s *kvDash) shadowPath(t, fid int) string {
	var names []string
	for i := 0; fid != 0 && i < 1000; i++ {
		o := s.shadow[t][fid]
		if o == nil {
			break
		}
		names = append([]string{o.name}, names...)
		fid = o.parent
	}
	return strings.Join(names, "/")
}

func (s *kvDash) shadowOf(t int) map[string]string {
	m := map[string]string{}
	kids := map[int][]string{}
	for id, o := range s.shadow[t] {
		kids[o.parent] = append(kids[o.parent], strconv.Itoa(id))
	}
	for id, o := range s.shadow[t] {
		key := fmt.Sprintf("#%d", id)
		if o.folder {
			m[key] = fmt.Sprintf("folder name=%q parent=#%d children=[%s]", o.name, o.parent, kvSortedJoin(kids[id], " "))
		} else {
			m[key] = fmt.Sprintf("dashboard name=%q payload=%q parent=#%d folderpath=%q favorite=%v", o.name, o.payload, o.parent, s.shadowPath(t, o.parent), o.fav)
		}
	}
	m["#0"] = fmt.Sprintf("folder name=\"Root\" parent=- children=[%s]", kvSortedJoin(kids[0], " "))
	return m
}

func (s *kvDash) readAll(t int) (map[string]string, error) {
	org := kvOrgs[t]
	lst, err := dashboards.VerifListItems(org)
	if err != nil {
		return nil, err
	}
	m := map[string]string{}
	folderIDs := []string{dashboards.VerifRootFolderID}
	for _, it := range lst.Items {
		key := fmt.Sprintf("#%d", s.number(it.ID))
		if it.Type == dashboards.ItemTypeFolder {
			folderIDs = append(folderIDs, it.ID)
			continue
		}
		d, err := dashboards.VerifGetDashboard(it.ID, org)
		if err != nil {
			m[key] = fmt.Sprintf("dashboard listed (name=%q) but get fails: %v", it.Name, kvDashErr(err))
			continue
		}
		name, _ := d["name"].(string)
		desc, _ := d["description"].(string)
		fav, _ := d["isFavorite"].(bool)
		fid, fpath := "?", "?"
		if f, ok := d["folder"].(map[string]interface{}); ok {
			fid, _ = f["id"].(string)
			fpath, _ = f["path"].(string)
		}
		v := fmt.Sprintf("dashboard name=%q payload=%q parent=#%d folderpath=%q favorite=%v", name, desc, s.number(fid), fpath, fav)
		if it.Name != name || s.number(it.ParentID) != s.number(fid) || it.IsStarred != fav || it.Description != desc {
			v += fmt.Sprintf(" BUT list says name=%q parent=#%d favorite=%v payload=%q", it.Name, s.number(it.ParentID), it.IsStarred, it.Description)
		}
		m[key] = v
	}
	for _, fid := range folderIDs {
		c, err := dashboards.VerifGetFolderContents(fid, org)
		key := fmt.Sprintf("#%d", s.number(fid))
		if err != nil {
			m[key] = "folder listed but contents fail: " + kvDashErr(err)
			continue
		}
		var kids []string
		for _, ch := range c.Items {
			kids = append(kids, strconv.Itoa(s.number(ch.ID)))
		}
		parent := "-"
		if n := len(c.Breadcrumbs); n >= 2 {
			parent = fmt.Sprintf("#%d", s.number(c.Breadcrumbs[n-2].ID))
		}
		m[key] = fmt.Sprintf("folder name=%q parent=%s children=[%s]", c.Folder.Name, parent, kvSortedJoin(kids, " "))
	}
	return m, nil
}

func (s *kvDash) owner(id int) int {
	for t := range s.shadow {
		if s.shadow[t][id] != nil {
			return t
		}
	}
	return -1
}

func (s *kvDash) removeTree(t, id int) {
	for cid, o := range s.shadow[t] {
		if o.parent == id && cid != id {
			s.removeTree(t, cid)
		}
	}
	delete(s.shadow[t], id)
}

// folderNamesUnique: createFolder and a folder rename refuse a name that a sibling folder carries ("already exists
// in this location"), i.e. (parent, name) is a key of folders; after an ACCEPTED folder operation the parent is
// read back through getFolderContents and must not list two folders of one name.
func (s *kvDash) folderNamesUnique(t, parent int, what string) {
	c, err := dashboards.VerifGetFolderContents(s.ref(parent), kvOrgs[t])
	if err != nil {
		return
	}
	seen := map[string]string{}
	for _, ch := range c.Items {
		if ch.Type != dashboards.ItemTypeFolder {
			continue
		}
		if other, dup := seen[ch.Name]; dup {
			kvCurRun.fail("two-folders-one-name-in-a-parent", fmt.Sprintf("after %s (org %d): folder #%d lists two folders named %q (#%d and #%d) — create and rename refuse that, the move did not check", what, kvOrgs[t], parent, ch.Name, s.number(other), s.number(ch.ID)))
			return
		}
		seen[ch.Name] = ch.ID
	}
}

func (s *kvDash) apply(op kvOp) string {
	org := kvOrgs[op.t]
	sh := s.shadow[op.t]
	pidRef := ""
	if op.pid >= 0 {
		pidRef = s.ref(op.pid)
	}
	parentNum := op.pid
	if parentNum < 0 {
		parentNum = 0
	}
	switch op.kind {
	case 'c':
		res, err := dashboards.VerifCreateDashboard(op.k, op.v, pidRef, org)
		if err != nil {
			return kvDashErr(err)
		}
		for id := range res {
			n := s.newID(id)
			sh[n] = &kvDashObj{name: op.k, payload: op.v, parent: parentNum}
			return fmt.Sprintf("ok:%d", n)
		}
		return "err:no-id"
	case 'f':
		id, err := dashboards.VerifCreateFolder(op.k, pidRef, org)
		if err != nil {
			return kvDashErr(err)
		}
		n := s.newID(id)
		sh[n] = &kvDashObj{folder: true, name: op.k, parent: parentNum}
		s.folderNamesUnique(op.t, parentNum, "createFolder")
		return fmt.Sprintf("ok:%d", n)
	case 'u':
		details := map[string]interface{}{"name": op.k, "description": op.v}
		if op.pid >= 0 {
			details["folder"] = map[string]interface{}{"id": pidRef}
		}
		err := dashboards.VerifUpdateDashboard(s.ref(op.id), op.k, details, org)
		if err == nil {
			o := sh[op.id]
			switch {
			case o == nil:
				kvCurRun.fail("update-accepted-for-unknown-id", fmt.Sprintf("updateDashboard(#%d) of org %d succeeded although the org holds no such object", op.id, org))
				kvCurRun.tainted[op.t] = true
			case o.folder:
				kvCurRun.fail("dashboard-update-accepted-for-folder-id", fmt.Sprintf("updateDashboard(#%d, name %q) succeeded on a FOLDER id: the folder is renamed and a details file is written for it", op.id, op.k))
				kvCurRun.tainted[op.t] = true
			default:
				o.name, o.payload, o.fav = op.k, op.v, false // the client's details replace the stored ones (no isFavorite sent)
				if op.pid >= 0 {
					o.parent = op.pid
				}
			}
		}
		return kvDashErr(err)
	case 'r':
		if o := sh[op.id]; o != nil && o.folder && op.pid >= 0 && op.pid != o.parent && (op.k == "" || op.k == o.name) {
			kvCurRun.res.Tags = append(kvCurRun.res.Tags, "folder-move-without-rename-requested")
		}
		err := dashboards.VerifUpdateFolder(s.ref(op.id), op.k, pidRef, org)
		if err == nil {
			o := sh[op.id]
			switch {
			case o == nil:
				kvCurRun.fail("update-accepted-for-unknown-id", fmt.Sprintf("updateFolder(#%d) of org %d succeeded although the org holds no such object", op.id, org))
				kvCurRun.tainted[op.t] = true
			case !o.folder:
				kvCurRun.fail("folder-update-accepted-for-dashboard-id", fmt.Sprintf("updateFolder(#%d, name %q) succeeded on a DASHBOARD id: the folder structure is changed, the dashboard's own details are not", op.id, op.k))
				kvCurRun.tainted[op.t] = true
			default:
				if op.pid >= 0 && op.pid != o.parent && (op.k == "" || op.k == o.name) {
					kvCurRun.res.Tags = append(kvCurRun.res.Tags, "folder-moved-without-rename")
				}
				if op.k != "" {
					o.name = op.k
				}
				if op.pid >= 0 {
					o.parent = op.pid
				}
				s.folderNamesUnique(op.t, o.parent, "updateFolder")
			}
		}
		return kvDashErr(err)
	case 'd':
		err := dashboards.VerifDeleteDashboard(s.ref(op.id), org)
		if err == nil {
			delete(sh, op.id)
		}
		return kvDashErr(err)
	case 'x':
		err := dashboards.VerifDeleteFolder(s.ref(op.id), org)
		if err == nil {
			s.removeTree(op.t, op.id)
		}
		return kvDashErr(err)
	case 'v':
		fav, err := dashboards.VerifToggleFavorite(s.ref(op.id), org)
		if err != nil {
			return kvDashErr(err)
		}
		// a keyed store lets a tenant toggle only its OWN dashboard; if another tenant's flag flips, the audit
		// of that tenant reports it
		if o := sh[op.id]; o != nil && !o.folder {
			o.fav = !o.fav
		}
		if fav {
			return "1"
		}
		return "0"
	case 'g':
		d, err := dashboards.VerifGetDashboard(s.ref(op.id), org)
		if err != nil {
			return kvDashErr(err)
		}
		if ow := s.owner(op.id); ow >= 0 && ow != op.t {
			kvCurRun.fail("foreign-tenant-read", fmt.Sprintf("getDashboard(#%d) asked by org %d returns the dashboard of org %d (details files are addressed by id only)", op.id, org, kvOrgs[ow]))
		} else if ow < 0 && !kvCurRun.tainted[0] && !kvCurRun.tainted[1] && !kvCurRun.tainted[2] {
			kvCurRun.fail("survives-delete", fmt.Sprintf("getDashboard(#%d) returns a dashboard that no org holds (deleted, or never created)", op.id))
		}
		name, _ := d["name"].(string)
		desc, _ := d["description"].(string)
		fav, _ := d["isFavorite"].(bool)
		fid, fname, fpath, crumbs := -1, "", "", []string{}
		if f, ok := d["folder"].(map[string]interface{}); ok {
			if x, ok := f["id"].(string); ok {
				fid = s.number(x)
			}
			fname, _ = f["name"].(string)
			fpath, _ = f["path"].(string)
			switch bc := f["breadcrumbs"].(type) {
			case []interface{}:
				for _, b := range bc {
					if bm, ok := b.(map[string]interface{}); ok {
						x, _ := bm["id"].(string)
						crumbs = append(crumbs, strconv.Itoa(s.number(x)))
					}
				}
			case []dashboards.Breadcrumb:
				for _, b := range bc {
					crumbs = append(crumbs, strconv.Itoa(s.number(b.ID)))
				}
			}
		}
		f := 0
		if fav {
			f = 1
		}
		return fmt.Sprintf("%s:%s:%d:%s:%s:%s:%d", kvHex(name), kvHex(desc), fid, kvHex(fname), kvHex(fpath), strings.Join(crumbs, "."), f)
	case 'k':
		c, err := dashboards.VerifGetFolderContents(s.ref(op.id), org)
		if err != nil {
			return kvDashErr(err)
		}
		ty := func(t string) string {
			if t == dashboards.ItemTypeFolder {
				return "F"
			}
			return "D"
		}
		var kids, crumbs []string
		for _, ch := range c.Items {
			kids = append(kids, fmt.Sprintf("%d/%s/%s/%d", s.number(ch.ID), kvHex(ch.Name), ty(ch.Type), ch.ChildCount))
		}
		for _, b := range c.Breadcrumbs {
			crumbs = append(crumbs, strconv.Itoa(s.number(b.ID)))
		}
		return fmt.Sprintf("%s/%s[%s]^%s", kvHex(c.Folder.Name), ty(c.Folder.Type), strings.Join(kids, ","), strings.Join(crumbs, "."))
	case 'l':
		lst, err := dashboards.VerifListItems(org)
		if err != nil {
			return kvDashErr(err)
		}
		var rows []string
		for _, it := range lst.Items {
			ty, parent, f := "D", "-", 0
			if it.Type == dashboards.ItemTypeFolder {
				ty = "F"
			}
			if it.ParentID != "" {
				parent = strconv.Itoa(s.number(it.ParentID))
			}
			if it.IsStarred {
				f = 1
			}
			rows = append(rows, fmt.Sprintf("%d/%s/%s/%s/%s/%s/%d/%s", s.number(it.ID), kvHex(it.Name), ty, parent, kvHex(it.ParentName), kvHex(it.FullPath), f, kvHex(it.Description)))
		}
		return "[" + kvSortedJoin(rows, ",") + "]"
	}
	return "bad-op"
}

func genDashLine(r *rand.Rand) string {
	names := []string{"a", "ab", "A", "a b", "ünï", "日本", "x/y", "q.1", "\"q\"", "..", "a\nb", "Root", "%2e"}
	if r.Intn(10) == 0 {
		names = append(names, kvLongName(r, "dash"))
	}
	np := 2 + r.Intn(4)
	r.Shuffle(len(names), func(i, j int) { names[i], names[j] = names[j], names[i] })
	pool := names[:np]
	if r.Intn(20) == 0 {
		pool = append(pool, "")
	}
	nt := []int{1, 1, 2, 2, 3}[r.Intn(5)]
	tperm := r.Perm(3)[:nt]
	nops := 1 + r.Intn(40)
	if r.Intn(4) == 0 {
		nops = 1 + r.Intn(8)
	}
	pR := []int{0, 3, 8}[r.Intn(3)]
	pForeign := []int{0, 0, 6, 15}[r.Intn(4)] // % of id references that ignore tenant and type
	// generator-side bookkeeping (a guess of what exists; the real ids are assigned by the run)
	type gobj struct {
		t      int
		folder bool
	}
	objs := []gobj{{-1, true}} // 0 = root
	var ops []string
	if r.Intn(5) == 0 {
		// by construction: folders N (#1) and M (#2) below the root, N (#3) inside M; then #3 is moved to the root
		// (without a new name / with its own name / with another name), where a folder N exists already
		t := tperm[0]
		n, m := kvHex(pool[0]), kvHex(pool[1])
		if pool[0] == "" || pool[1] == "" || pool[0] == pool[1] {
			n, m = kvHex("n1"), kvHex("m1")
		}
		ops = append(ops, fmt.Sprintf("f%d.%s", t, n), fmt.Sprintf("f%d.%s", t, m), fmt.Sprintf("f%d.%s@2", t, n))
		objs = append(objs, gobj{t, true}, gobj{t, true}, gobj{t, true})
		switch r.Intn(4) {
		case 0:
			ops = append(ops, fmt.Sprintf("r%d.3>@0", t))
		case 1:
			ops = append(ops, fmt.Sprintf("r%d.3>%s@0", t, n))
		case 2:
			ops = append(ops, fmt.Sprintf("r%d.1>@2", t)) // the other way round: #1 into M, next to #3
		default:
			ops = append(ops, fmt.Sprintf("r%d.3>%s@0", t, m), fmt.Sprintf("r%d.3>@0", t))
		}
		ops = append(ops, fmt.Sprintf("k%d.0", t), fmt.Sprintf("l%d", t))
	}
	pickID := func(t int, wantFolder bool, allowRoot bool) int {
		if r.Intn(100) < pForeign || len(objs) == 1 {
			if r.Intn(6) == 0 {
				return len(objs) + r.Intn(3) // not created (yet)
			}
			return r.Intn(len(objs))
		}
		var c []int
		for i, o := range objs {
			if i == 0 {
				if wantFolder && allowRoot {
					c = append(c, 0)
				}
				continue
			}
			if o.t == t && o.folder == wantFolder {
				c = append(c, i)
			}
		}
		if len(c) == 0 {
			return r.Intn(len(objs) + 1)
		}
		return c[r.Intn(len(c))]
	}
	for j := 0; j < nops; j++ {
		t := tperm[r.Intn(nt)]
		if r.Intn(100) < pR {
			ops = append(ops, "R")
			continue
		}
		name := kvHex(kvPick(r, pool))
		at := func() string {
			if r.Intn(3) == 0 {
				return ""
			}
			return fmt.Sprintf("@%d", pickID(t, true, true))
		}
		x := r.Intn(100)
		switch {
		case x < 18:
			ops = append(ops, fmt.Sprintf("c%d.%s=%s%s", t, name, kvHex(kvPick(r, kvVals)), at()))
			objs = append(objs, gobj{t, false}) // may fail: the numbering of the run decides
		case x < 32:
			ops = append(ops, fmt.Sprintf("f%d.%s%s", t, name, at()))
			objs = append(objs, gobj{t, true})
		case x < 44:
			id := pickID(t, false, false)
			if id == 0 {
				id = 1
			}
			mv := []string{"", "", at()}[r.Intn(3)]
			if mv != "" && id < len(objs) && objs[id].folder && r.Intn(40) != 0 {
				mv = "" // moving a FOLDER id through the dashboard API can hang the request (see kvDashRisky): keep it rare
			}
			ops = append(ops, fmt.Sprintf("u%d.%d=%s:%s%s", t, id, name, kvHex(kvPick(r, kvVals)), mv))
		case x < 56:
			nm := name
			if r.Intn(3) == 0 {
				nm = ""
			}
			ops = append(ops, fmt.Sprintf("r%d.%d>%s%s", t, pickID(t, true, false), nm, []string{"", at()}[r.Intn(2)]))
		case x < 63:
			ops = append(ops, fmt.Sprintf("d%d.%d", t, pickID(t, false, false)))
		case x < 70:
			ops = append(ops, fmt.Sprintf("x%d.%d", t, pickID(t, true, false)))
		case x < 80:
			ops = append(ops, fmt.Sprintf("g%d.%d", t, pickID(t, false, false)))
		case x < 88:
			ops = append(ops, fmt.Sprintf("k%d.%d", t, pickID(t, true, true)))
		case x < 94:
			ops = append(ops, fmt.Sprintf("l%d", t))
		default:
			ops = append(ops, fmt.Sprintf("v%d.%d", t, pickID(t, false, false)))
		}
	}
	return "kv dash " + strings.Join(ops, " ")
}

// ---------------------------------------------------------------- requests of an org (contact points, alerts)

// The update / delete / get handlers of contact points and alerts take no org id; the org of a request is what the
// deployment's org id hook (hooks.GlobalHooks.GetOrgIdHookQuery, used by CallWithMyIdQuery for the other routes)
// resolves from the request.  The harness installs a hook that reads the org from a user value of the request.
func kvInstallOrgHook() {
	hooks.GlobalHooks.GetOrgIdHookQuery = func(ctx *fasthttp.RequestCtx) (int64, error) {
		if v, ok := ctx.UserValue("verif-org").(int64); ok {
			return v, nil
		}
		return 0, errors.New("verif: request without an org")
	}
}

// kvRequest runs one handler with the request body of org `org`; a status other than 200 comes back as an error
// carrying the message of the response
func kvRequest(h func(*fasthttp.RequestCtx), org int64, body []byte, uv map[string]string) ([]byte, error) {
	ctx := kvCtx(body, uv)
	ctx.SetUserValue("verif-org", org)
	h(ctx)
	if ctx.Response.StatusCode() == fasthttp.StatusOK {
		return ctx.Response.Body(), nil
	}
	var m struct {
		Message string `json:"message"`
		Error   string `json:"error"`
	}
	if err := json.Unmarshal(ctx.Response.Body(), &m); err != nil || m.Message+m.Error == "" {
		return nil, fmt.Errorf("status %d: %s", ctx.Response.StatusCode(), string(ctx.Response.Body()))
	}
	return nil, errors.New(m.Error + m.Message)
}

// another org than the caller's, for the org_id member of a request body (which the handlers must not trust)
func kvOtherOrg(t int) int64 { return kvOrgs[(t+1)%len(kvOrgs)] }

func kvContactBody(id, name, v string, bodyOrg *int64) []byte {
	sl := []map[string]string{}
	for _, c := range kvContactSlack(v) {
		sl = append(sl, map[string]string{"channel_id": c.ChannelId, "slack_token": c.SlToken})
	}
	m := map[string]interface{}{"contact_name": name, "pager_duty": v, "slack": sl}
	if em := kvContactEmail(v); len(em) > 0 {
		m["email"] = em
	}
	if id != "" {
		m["contact_id"] = id
	}
	if bodyOrg != nil {
		m["org_id"] = *bodyOrg
	}
	b, _ := json.Marshal(m)
	return b
}

// ---------------------------------------------------------------- contact points (sqlite / gorm)

// kvContact drives the contact-point REQUEST HANDLERS of pkg/alerts/alertsHandler (sqlite through gorm underneath);
// the org of a request is resolved by the org id hook (kvInstallOrgHook).  Ids are numbers: n = the n-th contact
// created by the line.
//   c<t>.<name>=<v> ProcessCreateContactRequest (the body names ANOTHER org in org_id: the handler must not care)
//   u<t>.<id>=<name>:<v> ProcessUpdateContactRequest, body without org_id    U…: body with another org's org_id
//   d<t>.<id> ProcessDeleteContactRequest      l<t> GetAllContactPoints       R close + reopen siglens.db
// The value v is a comma-separated list: PagerDuty = v, Slack = one {channel_id: part, slack_token: "tok-"+part}
// per non-empty part, Email = one address part+"@kv.test" per part that starts with 'm' (the model's value is opaque:
// the e-mail list is judged by the read-back audit, like the rest of the value).
type kvContactObj struct {
	name, v string
}

type kvContact struct {
	uuid      []string // number-1 → contact id
	num       map[string]int
	shadow [3]map[int]*kvContactObj
}

func (s *kvContact) parse(tok string) (kvOp, bool) {
	if tok == "R" {
		return kvOp{kind: 'R', form: 'R'}, true
	}
	if len(tok) == 2 && tok[0] == 'l' {
		if tok[1] < '0' || tok[1] > '2' {
			return kvOp{}, false
		}
		return kvOp{kind: 'l', t: int(tok[1] - '0'), form: 'l'}, true
	}
	if len(tok) < 3 || tok[1] < '0' || tok[1] > '2' || tok[2] != '.' {
		return kvOp{}, false
	}
	op := kvOp{kind: tok[0], t: int(tok[1] - '0'), pid: -1}
	rest := tok[3:]
	var ok bool
	switch op.kind {
	case 'c':
		k, v, ok2 := kvSplit1(rest, "=")
		if !ok2 {
			return kvOp{}, false
		}
		if op.k, ok = kvHexLower(k); !ok {
			return kvOp{}, false
		}
		if op.v, ok = kvHexLower(v); !ok {
			return kvOp{}, false
		}
	case 'u', 'U':
		ids, nv, ok2 := kvSplit1(rest, "=")
		k, v, ok3 := kvSplit1(nv, ":")
		id, ok4 := kvDec(ids)
		if !ok2 || !ok3 || !ok4 || id == 0 {
			return kvOp{}, false
		}
		op.id = id
		if op.k, ok = kvHexLower(k); !ok {
			return kvOp{}, false
		}
		if op.v, ok = kvHexLower(v); !ok {
			return kvOp{}, false
		}
		if op.kind == 'U' {
			op.kind, op.form = 'u', 'U' // the same request with a foreign org_id in its body
		}
	case 'd':
		if op.id, ok = kvDec(rest); !ok || op.id == 0 {
			return kvOp{}, false
		}
	default:
		return kvOp{}, false
	}
	return op, true
}

func (s *kvContact) boot() error {
	s.uuid = nil
	s.num = map[string]int{}
	for i := range s.shadow {
		s.shadow[i] = map[int]*kvContactObj{}
	}
	if kvContactConnected {
		alertsHandler.Disconnect() // the previous line's database
	}
	if err := alertsHandler.ConnectSiglensDB(); err != nil {
		return err
	}
	kvContactConnected = true
	kvInstallOrgHook()
	return alertsHandler.VerifTuneDB()
}

var kvContactConnected bool

func (s *kvContact) restart() error {
	alertsHandler.Disconnect()
	if err := alertsHandler.ConnectSiglensDB(); err != nil {
		return err
	}
	return alertsHandler.VerifTuneDB()
}

func (s *kvContact) ref(n int) string {
	if n >= 1 && n <= len(s.uuid) {
		return s.uuid[n-1]
	}
	return fmt.Sprintf("00000000-0000-4000-8000-%012d", n)
}

func kvContactSlack(v string) []alertutils.SlackTokenConfig {
	var out []alertutils.SlackTokenConfig
	for _, p := range strings.Split(v, ",") {
		if p != "" {
			out = append(out, alertutils.SlackTokenConfig{ChannelId: p, SlToken: "tok-" + p})
		}
	}
	return out
}

func kvContactEmail(v string) []string {
	var out []string
	for _, p := range strings.Split(v, ",") {
		if strings.HasPrefix(p, "m") {
			out = append(out, p+"@kv.test")
		}
	}
	return out
}

func kvContactErr(err error) string {
	if err == nil {
		return "ok"
	}
	m := err.Error()
	switch {
	case strings.Contains(m, "does not exist"):
		return "nf"
	case strings.Contains(m, "UNIQUE constraint failed"), strings.Contains(m, "already exist"):
		return "ex"
	case strings.Contains(m, "invalid contact id"), strings.Contains(m, "is not Valid"):
		return "inv"
	case strings.Contains(m, "UpdateContactPoint: unable to update contact"):
		return "fail" // the gorm Save failed (the message prints a nil error; the cause is the UNIQUE contact_name)
	}
	return "err:" + strings.ReplaceAll(trunc(m, 200), " ", "_")
}

func kvContactShow(name, pager string, slack, email []string) string {
	sort.Strings(slack)
	return fmt.Sprintf("name=%q pager=%q slack=[%s] email=%q", name, pager, strings.Join(slack, " "), append([]string{}, email...))
}

func (s *kvContact) shadowOf(t int) map[string]string {
	m := map[string]string{}
	for id, o := range s.shadow[t] {
		var sl []string
		for _, c := range kvContactSlack(o.v) {
			sl = append(sl, c.ChannelId+"/"+c.SlToken)
		}
		m[fmt.Sprintf("#%d", id)] = kvContactShow(o.name, o.v, sl, kvContactEmail(o.v))
	}
	return m
}

func (s *kvContact) readAll(t int) (map[string]string, error) {
	cs, err := alertsHandler.VerifGetAllContacts(kvOrgs[t])
	if err != nil {
		return nil, err
	}
	m := map[string]string{}
	for _, c := range cs {
		var sl []string
		for _, x := range c.Slack {
			sl = append(sl, x.ChannelId+"/"+x.SlToken)
		}
		n, ok := s.num[c.ContactId]
		key := fmt.Sprintf("#%d", n)
		if !ok {
			key = "unknown id " + c.ContactId
		}
		m[key] = kvContactShow(c.ContactName, c.PagerDuty, sl, c.Email)
	}
	return m, nil
}

func (s *kvContact) owner(id int) int {
	for t := range s.shadow {
		if s.shadow[t][id] != nil {
			return t
		}
	}
	return -1
}

func (s *kvContact) apply(op kvOp) string {
	org := kvOrgs[op.t]
	switch op.kind {
	case 'c':
		other := kvOtherOrg(op.t)
		_, err := kvRequest(func(c *fasthttp.RequestCtx) { alertsHandler.ProcessCreateContactRequest(c, org) }, org, kvContactBody("", op.k, op.v, &other), nil)
		if err != nil {
			return kvContactErr(err)
		}
		// the response carries no id: the new contact is the one of this name (names are unique over all orgs)
		cid := ""
		for t := range kvOrgs {
			cs, _ := alertsHandler.VerifGetAllContacts(kvOrgs[t])
			for _, c := range cs {
				if c.ContactName == op.k {
					if _, old := s.num[c.ContactId]; !old {
						cid = c.ContactId
						if t != op.t {
							kvCurRun.fail("create-stores-into-another-org", fmt.Sprintf("create contact %q by org %d: the contact is listed for org %d", op.k, org, kvOrgs[t]))
							kvCurRun.tainted[t], kvCurRun.tainted[op.t] = true, true
						}
					}
				}
			}
		}
		if cid == "" {
			// acknowledged without an id: nothing was created. The keyed store must show what it acknowledged.
			kvCurRun.fail("create-ok-but-not-stored", fmt.Sprintf("create contact (name %q, org %d) answered success but created nothing (a contact with this name exists, in whatever org)", op.k, org))
			return "ok:-"
		}
		s.uuid = append(s.uuid, cid)
		n := len(s.uuid)
		s.num[cid] = n
		s.shadow[op.t][n] = &kvContactObj{name: op.k, v: op.v}
		return fmt.Sprintf("ok:%d", n)
	case 'u':
		var bodyOrg *int64
		if op.form == 'U' {
			o := kvOtherOrg(op.t)
			bodyOrg = &o
			kvCurRun.res.Tags = append(kvCurRun.res.Tags, "update-body-names-another-org")
		}
		_, err := kvRequest(alertsHandler.ProcessUpdateContactRequest, org, kvContactBody(s.ref(op.id), op.k, op.v, bodyOrg), nil)
		if err == nil {
			if ow := s.owner(op.id); ow == op.t {
				s.shadow[ow][op.id] = &kvContactObj{name: op.k, v: op.v}
				// an update edits the contact, it does not hand it to another org
				for t := range kvOrgs {
					if t == op.t {
						continue
					}
					cs, _ := alertsHandler.VerifGetAllContacts(kvOrgs[t])
					for _, c := range cs {
						if c.ContactId == s.ref(op.id) {
							kvCurRun.fail("update-moves-contact-to-another-org", fmt.Sprintf("update of contact #%d by its owner org %d (body org_id: %v): the contact is now listed for org %d", op.id, org, kvShowOrg(bodyOrg), kvOrgs[t]))
							kvCurRun.tainted[t], kvCurRun.tainted[op.t] = true, true
						}
					}
				}
			} else if ow >= 0 {
				kvCurRun.fail("foreign-tenant-write", fmt.Sprintf("update contact #%d requested by org %d succeeded on the contact of org %d", op.id, org, kvOrgs[ow]))
				kvCurRun.tainted[ow], kvCurRun.tainted[op.t] = true, true
			}
		}
		return kvContactErr(err)
	case 'd':
		_, err := kvRequest(alertsHandler.ProcessDeleteContactRequest, org, []byte(fmt.Sprintf(`{"contact_id":%q}`, s.ref(op.id))), nil)
		if err == nil {
			if ow := s.owner(op.id); ow == op.t {
				delete(s.shadow[ow], op.id)
			} else if ow >= 0 {
				kvCurRun.fail("foreign-tenant-write", fmt.Sprintf("delete contact #%d requested by org %d succeeded on the contact of org %d", op.id, org, kvOrgs[ow]))
				kvCurRun.tainted[ow], kvCurRun.tainted[op.t] = true, true
			}
		}
		return kvContactErr(err)
	case 'l':
		cs, err := alertsHandler.VerifGetAllContacts(org)
		if err != nil {
			return kvContactErr(err)
		}
		var rows []string
		for _, c := range cs {
			var sl []string
			for _, x := range c.Slack {
				sl = append(sl, kvHex(x.ChannelId))
			}
			rows = append(rows, fmt.Sprintf("%d/%s/%s/%s", s.num[c.ContactId], kvHex(c.ContactName), kvHex(c.PagerDuty), kvSortedJoin(sl, "+")))
		}
		return "[" + kvSortedJoin(rows, ",") + "]"
	}
	return "bad-op"
}

func kvShowOrg(o *int64) string {
	if o == nil {
		return "absent"
	}
	return strconv.FormatInt(*o, 10)
}

func genContactLine(r *rand.Rand) string {
	names := []string{"ops", "Ops", "ops ", "on call", "ünï", "日本", "a,b", "\"q\"", "x'y", "%", "_", "null"}
	if r.Intn(10) == 0 {
		names = append(names, kvLongName(r, "contact"))
	}
	r.Shuffle(len(names), func(i, j int) { names[i], names[j] = names[j], names[i] })
	pool := names[:2+r.Intn(5)]
	if r.Intn(20) == 0 {
		pool = append(pool, "")
	}
	vals := []string{"", "", "c1", "c1,c2", "c2", "ünï,c1", ",", "c3,,c4", "x y"}
	if r.Intn(3) == 0 { // contacts with one or several e-mail addresses
		vals = append(vals, "m1", "m1,m2", "c1,m3", "m\"q,m4,m5")
	}
	nt := []int{1, 2, 2, 3}[r.Intn(4)]
	tperm := r.Perm(3)[:nt]
	nops := 1 + r.Intn(30)
	pR := []int{0, 4, 10}[r.Intn(3)]
	pForeign := []int{0, 0, 10}[r.Intn(3)]
	pDup := []int{0, 10, 30}[r.Intn(3)]
	created := []int{} // tenant of the n-th contact (a guess: duplicate names are not created)
	usedNames := map[string]bool{}
	var ops []string
	pickID := func(t int) int {
		var c []int
		for i, ct := range created {
			if ct == t || r.Intn(100) < pForeign {
				c = append(c, i+1)
			}
		}
		if len(c) == 0 || r.Intn(15) == 0 {
			return len(created) + 1 + r.Intn(2)
		}
		return c[r.Intn(len(c))]
	}
	for j := 0; j < nops; j++ {
		t := tperm[r.Intn(nt)]
		if r.Intn(100) < pR {
			ops = append(ops, "R")
			continue
		}
		x := r.Intn(100)
		switch {
		case x < 35:
			name := kvPick(r, pool)
			if usedNames[name] && r.Intn(100) >= pDup {
				name = fmt.Sprintf("%s-%d", name, j)
			}
			ops = append(ops, fmt.Sprintf("c%d.%s=%s", t, kvHex(name), kvHex(kvPick(r, vals))))
			if !usedNames[name] {
				usedNames[name] = true
				created = append(created, t)
			}
		case x < 60:
			name := kvPick(r, pool)
			if r.Intn(100) >= pDup {
				name = fmt.Sprintf("%s-u%d", name, j)
			}
			ops = append(ops, fmt.Sprintf("%s%d.%d=%s:%s", []string{"u", "u", "U"}[r.Intn(3)], t, pickID(t), kvHex(name), kvHex(kvPick(r, vals))))
			usedNames[name] = true
		case x < 75:
			ops = append(ops, fmt.Sprintf("d%d.%d", t, pickID(t)))
		default:
			ops = append(ops, fmt.Sprintf("l%d", t))
		}
	}
	return "kv contact " + strings.Join(ops, " ")
}

// ---------------------------------------------------------------- lookup files

// kvLookup drives pkg/lookups through its HTTP handlers (multipart upload in an in-memory RequestCtx), each request
// for the org of its tenant digit (WITH patch c13-1 the handlers take the org id and every org has a directory of its
// own; the handlers of a tree without the patch take no org id — they are called as they are, see kvLookupCall).
//   c<t>.<name>=<content> UploadLookupFile   u<t>.… with overwrite=true   C<t>/U<t>: the uploaded file is a .csv.gz
//   g<t>.<name> GetLookupFile   d<t>.<name> DeleteLookupFile   l<t> GetAllLookupFiles
type kvLookup struct {
	shadow [3]map[string]string
}

// kvLookupCall: handler(ctx, org) — or handler(ctx) for the handlers that know no org
func kvLookupCall(handler interface{}, ctx *fasthttp.RequestCtx, t int) {
	callLookupHandler(handler, ctx, kvOrgs[t])
}

// sharedBetweenTenants: a request made for one org finds (reads, is refused because of, deletes) a file that only
// ANOTHER org has stored (C13 / C20: one tenant's operations never disturb another's)
func (s *kvLookup) sharedBetweenTenants(t int, name, what string) {
	if _, mine := s.shadow[t][name]; mine {
		return
	}
	for ow := range s.shadow {
		if _, ok := s.shadow[ow][name]; ok && ow != t {
			kvCurRun.fail("shared-between-tenants", fmt.Sprintf("%s by org %d touches lookup file %q, which org %d uploaded and org %d did not: the lookup files of the orgs are not kept apart", what, kvOrgs[t], name, kvOrgs[ow], kvOrgs[t]))
			return
		}
	}
}

func kvSimpleName(n string) bool {
	return n != "" && n != "." && n != ".." && !strings.ContainsAny(n, "/\\")
}

func (s *kvLookup) parse(tok string) (kvOp, bool) {
	if tok == "R" {
		return kvOp{kind: 'R', form: 'R'}, true
	}
	if len(tok) == 2 && tok[0] == 'l' && tok[1] >= '0' && tok[1] <= '2' {
		return kvOp{kind: 'l', form: 'l', t: int(tok[1] - '0')}, true
	}
	if len(tok) < 3 || tok[1] < '0' || tok[1] > '2' || tok[2] != '.' {
		return kvOp{}, false
	}
	op := kvOp{kind: tok[0], t: int(tok[1] - '0')}
	rest := tok[3:]
	var ok bool
	switch op.kind {
	case 'c', 'u', 'C', 'U':
		k, v, ok2 := kvSplit1(rest, "=")
		if !ok2 {
			return kvOp{}, false
		}
		if op.k, ok = kvHexLower(k); !ok {
			return kvOp{}, false
		}
		if op.v, ok = kvHexLower(v); !ok {
			return kvOp{}, false
		}
	case 'g', 'd':
		if op.k, ok = kvHexLower(rest); !ok || !kvSimpleName(op.k) {
			return kvOp{}, false
		}
	default:
		return kvOp{}, false
	}
	return op, true
}

func (s *kvLookup) boot() error {
	for t := range s.shadow {
		s.shadow[t] = map[string]string{}
	}
	return nil
}
func (s *kvLookup) restart() error { return nil } // nothing is held in memory

func (s *kvLookup) shadowOf(t int) map[string]string { return s.shadow[t] }

func (s *kvLookup) readAll(t int) (map[string]string, error) {
	m := map[string]string{}
	ctx := kvCtx(nil, nil)
	kvLookupCall(lookups.GetAllLookupFiles, ctx, t)
	if ctx.Response.StatusCode() != 200 {
		return nil, fmt.Errorf("GetAllLookupFiles: status %d", ctx.Response.StatusCode())
	}
	var names []string
	if err := json.Unmarshal(ctx.Response.Body(), &names); err != nil {
		return nil, err
	}
	for _, n := range names {
		c := kvCtx(nil, map[string]string{"lookupFilename": n})
		kvLookupCall(lookups.GetLookupFile, c, t)
		if c.Response.StatusCode() != 200 {
			m[n] = fmt.Sprintf("listed but get answers %d", c.Response.StatusCode())
			continue
		}
		m[n] = string(c.Response.Body())
	}
	return m, nil
}

func (s *kvLookup) apply(op kvOp) string {
	switch op.kind {
	case 'c', 'u', 'C', 'U':
		var buf bytes.Buffer
		w := multipart.NewWriter(&buf)
		_ = w.WriteField("name", op.k)
		if op.kind == 'u' || op.kind == 'U' {
			_ = w.WriteField("overwrite", "true")
		}
		fn := "upload.csv"
		if op.kind == 'C' || op.kind == 'U' {
			fn = "upload.CSV.gz"
		}
		fw, _ := w.CreateFormFile("file", fn)
		_, _ = fw.Write([]byte(op.v))
		_ = w.Close()
		ctx := &fasthttp.RequestCtx{}
		ctx.Request.Header.SetMethod("POST")
		ctx.Request.Header.SetContentType(w.FormDataContentType())
		ctx.Request.SetBody(buf.Bytes())
		kvLookupCall(lookups.UploadLookupFile, ctx, op.t)
		body := string(ctx.Response.Body())
		switch ctx.Response.StatusCode() {
		case 200:
			const pre = "File uploaded successfully: "
			if !strings.HasPrefix(body, pre) {
				return "err:answer"
			}
			stored := strings.TrimPrefix(body, pre)
			s.shadow[op.t][stored] = op.v
			return "ok:" + kvHex(stored)
		case 409:
			s.sharedBetweenTenants(op.t, kvLookupStoredName(op.k, op.kind == 'C' || op.kind == 'U'), "an upload (refused: the file exists)")
			return "ex"
		case 400:
			return "inv"
		}
		return fmt.Sprintf("err%d", ctx.Response.StatusCode())
	case 'g':
		ctx := kvCtx(nil, map[string]string{"lookupFilename": op.k})
		kvLookupCall(lookups.GetLookupFile, ctx, op.t)
		switch ctx.Response.StatusCode() {
		case 200:
			s.sharedBetweenTenants(op.t, op.k, "a download")
			return "=" + kvHex(string(ctx.Response.Body()))
		case 404:
			return "nf"
		}
		return fmt.Sprintf("err%d", ctx.Response.StatusCode())
	case 'd':
		ctx := kvCtx(nil, map[string]string{"lookupFilename": op.k})
		kvLookupCall(lookups.DeleteLookupFile, ctx, op.t)
		switch ctx.Response.StatusCode() {
		case 200:
			s.sharedBetweenTenants(op.t, op.k, "a delete")
			delete(s.shadow[op.t], op.k)
			return "ok"
		case 404:
			return "nf"
		}
		return fmt.Sprintf("err%d", ctx.Response.StatusCode())
	case 'l':
		ctx := kvCtx(nil, nil)
		kvLookupCall(lookups.GetAllLookupFiles, ctx, op.t)
		var names []string
		if ctx.Response.StatusCode() != 200 || json.Unmarshal(ctx.Response.Body(), &names) != nil {
			return fmt.Sprintf("err%d", ctx.Response.StatusCode())
		}
		var hs []string
		for _, n := range names {
			hs = append(hs, kvHex(n))
			s.sharedBetweenTenants(op.t, n, "the listing")
		}
		return "[" + kvSortedJoin(hs, ",") + "]"
	}
	return "bad-op"
}

// kvLookupStoredName: the file name an upload of `name` is stored under (".csv" / ".csv.gz" appended unless it is there)
func kvLookupStoredName(name string, gz bool) string {
	l := strings.ToLower(name)
	if strings.HasSuffix(l, ".csv") || strings.HasSuffix(l, ".csv.gz") {
		return name
	}
	if gz {
		return name + ".csv.gz"
	}
	return name + ".csv"
}

func genLookupLine(r *rand.Rand) string {
	names := []string{"a", "a.csv", "A.CSV", "a.Csv", "a.csv.gz", "a.gz", "ab", "a b", "ünï", "日本.csv", "x.json", ".csv", "csv", "a.csv.", "a..csv", "q.1", "%2e", "\"q\"", "a.CSV.GZ", "..a"}
	if r.Intn(10) == 0 {
		names = append(names, kvLongName(r, "alias")[:120]) // + ".csv.gz" must stay below NAME_MAX
	}
	r.Shuffle(len(names), func(i, j int) { names[i], names[j] = names[j], names[i] })
	pool := names[:2+r.Intn(5)]
	if r.Intn(12) == 0 {
		pool = append(pool, []string{"", ".", "..", "a/b", "a\\b"}[r.Intn(5)])
	}
	contents := []string{"", "k,v\n1,2\n", "x", "ünï,1\n", "a,b\r\n", "\x00\x01\xff", "k\n" + strings.Repeat("row\n", 50)}
	nops := 1 + r.Intn(30)
	pR := []int{0, 5}[r.Intn(2)]
	// one line in three is made by requests of two or three orgs (each org has a directory of its own; the names of the
	// sub-directories of org 0's directory — the org ids — are asked for like file names now and then)
	tn := []int{0}
	if r.Intn(3) == 0 {
		tn = r.Perm(3)[:2+r.Intn(2)]
		pool = append(pool, []string{"1", "7", "7.csv", "0"}[r.Intn(4)])
	}
	var stored []string
	var ops []string
	for j := 0; j < nops; j++ {
		if r.Intn(100) < pR {
			ops = append(ops, "R")
			continue
		}
		t := tn[r.Intn(len(tn))]
		x := r.Intn(100)
		switch {
		case x < 40:
			n := kvPick(r, pool)
			ops = append(ops, fmt.Sprintf("%s%d.%s=%s", []string{"c", "c", "u", "u", "C", "U"}[r.Intn(6)], t, kvHex(n), kvHex(kvPick(r, contents))))
			if kvSimpleName(n) {
				stored = append(stored, n, n+".csv", n+".csv.gz")
			}
		case x < 60, x < 80:
			n := kvPick(r, pool)
			if len(stored) > 0 && r.Intn(3) > 0 {
				n = stored[r.Intn(len(stored))]
			}
			if !kvSimpleName(n) {
				n = "a"
			}
			ops = append(ops, fmt.Sprintf("%s%d.%s", []string{"g", "d"}[x/60%2], t, kvHex(n)))
		default:
			ops = append(ops, fmt.Sprintf("l%d", t))
		}
	}
	return "kv lookup " + strings.Join(ops, " ")
}

// ---------------------------------------------------------------- alert definitions (sqlite / gorm)

// kvAlertDB drives the alert CRUD methods of pkg/alerts/alertsqlite through the alertsHandler database object,
// the way the HTTP handlers do (update = GetAlert, overwrite the configuration fields, UpdateAlert). Contacts
// and alerts are numbered separately in creation order.
//   p<t>.<name>                      CreateContact (no channels)                       → ok:<cid>
//   c<t>.<name>=<msg>@<cid>          CreateAlert (log alert, fixed valid query)         → ok:<id>
//   u<t>.<id>=<name>:<msg>[@<cid>]   GetAlert + UpdateAlert                            d<t>.<id> DeleteAlert
//   g<t>.<id> GetAlert               l<t> GetAllAlerts                                 R close + reopen siglens.db
type kvAlertObj struct {
	name, msg string
	cid       int
}

type kvAlertDB struct {
	cuuid  []string
	cnum   map[string]int
	cname  map[int]string
	auuid  []string
	anum   map[string]int
	shadow [3]map[int]*kvAlertObj
}

func (s *kvAlertDB) parse(tok string) (kvOp, bool) {
	if tok == "R" {
		return kvOp{kind: 'R', form: 'R'}, true
	}
	if len(tok) == 2 && tok[0] == 'l' {
		if tok[1] < '0' || tok[1] > '2' {
			return kvOp{}, false
		}
		return kvOp{kind: 'l', t: int(tok[1] - '0'), form: 'l'}, true
	}
	if len(tok) < 3 || tok[1] < '0' || tok[1] > '2' || tok[2] != '.' {
		return kvOp{}, false
	}
	op := kvOp{kind: tok[0], t: int(tok[1] - '0'), pid: -1}
	rest := tok[3:]
	var ok bool
	switch op.kind {
	case 'p':
		if op.k, ok = kvHexLower(rest); !ok {
			return kvOp{}, false
		}
	case 'c', 'C':
		body, pid, ok1 := kvSplitAt(rest)
		k, v, ok2 := kvSplit1(body, "=")
		if !ok1 || !ok2 || pid < 1 {
			return kvOp{}, false
		}
		op.pid = pid
		if op.k, ok = kvHexLower(k); !ok {
			return kvOp{}, false
		}
		if op.v, ok = kvHexLower(v); !ok {
			return kvOp{}, false
		}
		if op.kind == 'C' {
			op.kind, op.form = 'c', 'C' // the same request with a foreign org_id in its body
		}
	case 'u':
		body, pid, ok1 := kvSplitAt(rest)
		ids, nv, ok2 := kvSplit1(body, "=")
		if !ok1 || !ok2 || pid == 0 {
			return kvOp{}, false
		}
		k, v, ok3 := kvSplit1(nv, ":")
		id, ok4 := kvDec(ids)
		if !ok3 || !ok4 || id == 0 {
			return kvOp{}, false
		}
		op.id, op.pid = id, pid
		if op.k, ok = kvHexLower(k); !ok {
			return kvOp{}, false
		}
		if op.v, ok = kvHexLower(v); !ok {
			return kvOp{}, false
		}
	case 'd', 'g':
		if op.id, ok = kvDec(rest); !ok || op.id == 0 {
			return kvOp{}, false
		}
	default:
		return kvOp{}, false
	}
	return op, true
}

func (s *kvAlertDB) boot() error {
	s.cuuid, s.auuid = nil, nil
	s.cnum, s.anum, s.cname = map[string]int{}, map[string]int{}, map[int]string{}
	for i := range s.shadow {
		s.shadow[i] = map[int]*kvAlertObj{}
	}
	if kvContactConnected {
		alertsHandler.Disconnect()
	}
	if err := alertsHandler.ConnectSiglensDB(); err != nil {
		return err
	}
	kvContactConnected = true
	kvInstallOrgHook()
	kvAdbOnce.Do(alertsHandler.VerifJobPrepare) // the cron jobs the handlers create wait ≥ 60 s for their first run
	return alertsHandler.VerifTuneDB()
}

var kvAdbOnce sync.Once

func (s *kvAlertDB) restart() error {
	alertsHandler.Disconnect()
	if err := alertsHandler.ConnectSiglensDB(); err != nil {
		return err
	}
	return alertsHandler.VerifTuneDB()
}

// cleanup: the create / update handlers schedule a cron job per alert; a line lasts milliseconds and removes them
func (s *kvAlertDB) cleanup() {
	for _, id := range s.auuid {
		alertsHandler.VerifJobRemove(id)
	}
}

func kvAlertBody(id, name, msg, contactID, contactName string, bodyOrg *int64) []byte {
	m := map[string]interface{}{
		"alert_name":    name,
		"alert_type":    alertutils.AlertTypeLogs,
		"contact_id":    contactID,
		"contact_name":  contactName,
		"queryParams":   map[string]string{"data_source": "Logs", "queryLanguage": "Splunk QL", "queryText": "* | stats count", "startTime": "now-5m", "endTime": "now", "index": "*", "queryMode": "Builder"},
		"condition":     alertutils.IsAbove,
		"value":         1,
		"eval_for":      1,
		"eval_interval": 1,
		"message":       msg,
	}
	if id != "" {
		m["alert_id"] = id
	}
	if bodyOrg != nil {
		m["org_id"] = *bodyOrg
	}
	b, _ := json.Marshal(m)
	return b
}

func (s *kvAlertDB) cref(n int) string {
	if n >= 1 && n <= len(s.cuuid) {
		return s.cuuid[n-1]
	}
	return fmt.Sprintf("00000000-0000-4000-8000-c%011d", n)
}

func (s *kvAlertDB) aref(n int) string {
	if n >= 1 && n <= len(s.auuid) {
		return s.auuid[n-1]
	}
	return fmt.Sprintf("00000000-0000-4000-8000-a%011d", n)
}

func kvAlertErr(err error) string {
	if err == nil {
		return "ok"
	}
	m := err.Error()
	switch {
	case strings.Contains(m, "UNIQUE constraint failed"), strings.Contains(m, "already exists"):
		return "ex"
	case strings.Contains(m, "Contact does not exist"), strings.Contains(m, "contact:") && strings.Contains(m, "does not exist"):
		return "pnf"
	case strings.Contains(m, "already exists"):
		return "ex"
	case strings.Contains(m, "does not exist"):
		return "nf"
	case strings.Contains(m, "not valid"), strings.Contains(m, "not Valid"), strings.Contains(m, "is not valid"):
		return "inv"
	}
	return "err:" + strings.ReplaceAll(trunc(m, 200), " ", "_")
}

func kvAlertShow(name, msg string, cid int, cname string) string {
	return fmt.Sprintf("name=%q message=%q contact=#c%d(%q)", name, msg, cid, cname)
}

func (s *kvAlertDB) shadowOf(t int) map[string]string {
	m := map[string]string{}
	for id, o := range s.shadow[t] {
		m[fmt.Sprintf("#%d", id)] = kvAlertShow(o.name, o.msg, o.cid, s.cname[o.cid])
	}
	return m
}

func (s *kvAlertDB) readAll(t int) (map[string]string, error) {
	as, err := alertsHandler.VerifGetAllAlerts(kvOrgs[t])
	if err != nil {
		return nil, err
	}
	m := map[string]string{}
	for _, a := range as {
		key := "unknown id " + a.AlertId
		if n, ok := s.anum[a.AlertId]; ok {
			key = fmt.Sprintf("#%d", n)
		}
		m[key] = kvAlertShow(a.AlertName, a.Message, s.cnum[a.ContactID], a.ContactName)
	}
	return m, nil
}

func (s *kvAlertDB) owner(id int) int {
	for t := range s.shadow {
		if s.shadow[t][id] != nil {
			return t
		}
	}
	return -1
}

func kvAlertTok(s *kvAlertDB, a *alertutils.AlertDetails) string {
	return fmt.Sprintf("%d/%s/%s/%d/%s", s.anum[a.AlertId], kvHex(a.AlertName), kvHex(a.Message), s.cnum[a.ContactID], kvHex(a.ContactName))
}

func (s *kvAlertDB) apply(op kvOp) string {
	org := kvOrgs[op.t]
	switch op.kind {
	case 'p':
		c := &alertutils.Contact{ContactName: op.k, OrgId: org}
		if err := alertsHandler.VerifCreateContact(c); err != nil {
			return kvContactErr(err)
		}
		if c.ContactId == "" {
			return "ok:-"
		}
		s.cuuid = append(s.cuuid, c.ContactId)
		s.cnum[c.ContactId] = len(s.cuuid)
		s.cname[len(s.cuuid)] = op.k
		return fmt.Sprintf("ok:%d", len(s.cuuid))
	case 'c':
		var bodyOrg *int64
		if op.form == 'C' {
			o := kvOtherOrg(op.t)
			bodyOrg = &o
			kvCurRun.res.Tags = append(kvCurRun.res.Tags, "create-body-names-another-org")
		}
		_, err := kvRequest(func(c *fasthttp.RequestCtx) { alertsHandler.ProcessCreateAlertRequest(c, org) }, org, kvAlertBody("", op.k, op.v, s.cref(op.pid), "", bodyOrg), nil)
		if err != nil {
			return kvAlertErr(err)
		}
		// the response carries no id: the new alert is the one of this name (names are unique over all orgs)
		aid := ""
		for t := range kvOrgs {
			as, _ := alertsHandler.VerifGetAllAlerts(kvOrgs[t])
			for _, a := range as {
				if _, old := s.anum[a.AlertId]; !old && a.AlertName == op.k {
					aid = a.AlertId
					if t != op.t {
						kvCurRun.fail("create-stores-into-another-org", fmt.Sprintf("create alert %q requested by org %d (body org_id: %v): the alert is listed for org %d", op.k, org, kvShowOrg(bodyOrg), kvOrgs[t]))
						kvCurRun.tainted[t], kvCurRun.tainted[op.t] = true, true
					}
				}
			}
		}
		if aid == "" {
			kvCurRun.fail("create-ok-but-not-stored", fmt.Sprintf("create alert %q requested by org %d answered success but no org lists the alert", op.k, org))
			return "ok:-"
		}
		s.auuid = append(s.auuid, aid)
		n := len(s.auuid)
		s.anum[aid] = n
		s.shadow[op.t][n] = &kvAlertObj{name: op.k, msg: op.v, cid: op.pid}
		return fmt.Sprintf("ok:%d", n)
	case 'u':
		// ProcessUpdateAlertRequest; a client that does not change the contact sends the one the alert has
		// (contact_name is taken from the request as it is unless the contact id changes: the client sends the name it shows)
		contactID, contactName := "", ""
		if a, err := alertsHandler.VerifGetAlert(s.aref(op.id)); err == nil {
			contactID, contactName = a.ContactID, a.ContactName
		}
		if op.pid >= 0 && s.cref(op.pid) != contactID {
			contactID, contactName = s.cref(op.pid), s.cname[op.pid]
		}
		_, err := kvRequest(alertsHandler.ProcessUpdateAlertRequest, org, kvAlertBody(s.aref(op.id), op.k, op.v, contactID, contactName, nil), nil)
		if err == nil {
			if ow := s.owner(op.id); ow == op.t {
				o := s.shadow[ow][op.id]
				o.name, o.msg = op.k, op.v
				if op.pid >= 0 {
					o.cid = op.pid
				}
			} else if ow >= 0 {
				kvCurRun.fail("foreign-tenant-write", fmt.Sprintf("update alert #%d requested by org %d succeeded on the alert of org %d", op.id, org, kvOrgs[ow]))
				kvCurRun.tainted[ow], kvCurRun.tainted[op.t] = true, true
			}
		}
		if s.owner(op.id) < 0 && kvAlertErr(err) != "nf" {
			// (before patch c20-22) the update went on with the empty alert that GetAlert answered for an unknown id
			kvCurRun.fail("unknown-alert-id-answered-200", fmt.Sprintf("update alert #%d (an id no alert has) requested by org %d is not refused as unknown: %s", op.id, org, kvAlertErr(err)))
		}
		return kvAlertErr(err)
	case 'd':
		_, err := kvRequest(alertsHandler.ProcessDeleteAlertRequest, org, []byte(fmt.Sprintf(`{"alert_id":%q}`, s.aref(op.id))), nil)
		if err == nil {
			if ow := s.owner(op.id); ow == op.t {
				delete(s.shadow[ow], op.id)
			} else if ow >= 0 {
				kvCurRun.fail("foreign-tenant-write", fmt.Sprintf("delete alert #%d requested by org %d succeeded on the alert of org %d", op.id, org, kvOrgs[ow]))
				kvCurRun.tainted[ow], kvCurRun.tainted[op.t] = true, true
			}
		}
		return kvAlertErr(err)
	case 'g':
		body, err := kvRequest(alertsHandler.ProcessGetAlertRequest, org, nil, map[string]string{"alertID": s.aref(op.id)})
		if err != nil {
			return kvAlertErr(err)
		}
		var resp struct {
			Alert *alertutils.AlertDetails `json:"alert"`
		}
		if err := json.Unmarshal(body, &resp); err != nil || resp.Alert == nil {
			return "err:get-alert-response"
		}
		a := resp.Alert
		if a.AlertId == "" {
			// (before patch c20-22) GetAlert of an unknown id answered an empty alert, not an error
			kvCurRun.fail("unknown-alert-id-answered-200", fmt.Sprintf("get alert #%d (an id no alert has) requested by org %d is answered 200 with an empty alert", op.id, org))
			return "-"
		}
		if ow := s.owner(op.id); ow >= 0 && ow != op.t {
			kvCurRun.fail("foreign-tenant-read", fmt.Sprintf("get alert #%d requested by org %d returns the alert of org %d", op.id, org, kvOrgs[ow]))
		}
		return kvAlertTok(s, a)
	case 'l':
		as, err := alertsHandler.VerifGetAllAlerts(org)
		if err != nil {
			return kvAlertErr(err)
		}
		var rows []string
		for _, a := range as {
			rows = append(rows, kvAlertTok(s, a))
		}
		return "[" + kvSortedJoin(rows, ",") + "]"
	}
	return "bad-op"
}

func genAlertDBLine(r *rand.Rand) string {
	names := []string{"cpu high", "CPU high", "disk", "ünï", "日本", "a,b", "\"q\"", "x'y", "%", "null", "*x"}
	r.Shuffle(len(names), func(i, j int) { names[i], names[j] = names[j], names[i] })
	pool := names[:2+r.Intn(5)]
	if r.Intn(15) == 0 {
		pool = append(pool, []string{"", "*"}[r.Intn(2)])
	}
	msgs := []string{"", "m1", "m2", "ünï {{alert_rule_name}}", "line1\nline2"}
	nt := []int{1, 2, 2, 3}[r.Intn(4)]
	tperm := r.Perm(3)[:nt]
	nops := 2 + r.Intn(28)
	pR := []int{0, 4, 10}[r.Intn(3)]
	pForeign := []int{0, 0, 10}[r.Intn(3)]
	pDup := []int{0, 10, 30}[r.Intn(3)]
	var ops []string
	ncontacts := 0
	alerts := []int{} // tenant of the n-th alert (a guess)
	used := map[string]bool{}
	newContact := func(t int) {
		ncontacts++
		ops = append(ops, fmt.Sprintf("p%d.%s", t, kvHex(fmt.Sprintf("contact-%d", ncontacts))))
	}
	newContact(tperm[0])
	pickCid := func() int {
		if r.Intn(12) == 0 {
			return ncontacts + 1 + r.Intn(2)
		}
		return 1 + r.Intn(ncontacts)
	}
	pickID := func(t int) int {
		var c []int
		for i, at := range alerts {
			if at == t || r.Intn(100) < pForeign {
				c = append(c, i+1)
			}
		}
		if len(c) == 0 || r.Intn(15) == 0 {
			return len(alerts) + 1 + r.Intn(2)
		}
		return c[r.Intn(len(c))]
	}
	for j := 0; j < nops; j++ {
		t := tperm[r.Intn(nt)]
		if r.Intn(100) < pR {
			ops = append(ops, "R")
			continue
		}
		x := r.Intn(100)
		switch {
		case x < 8:
			newContact(t)
		case x < 38:
			name := kvPick(r, pool)
			if used[name] && r.Intn(100) >= pDup {
				name = fmt.Sprintf("%s-%d", name, j)
			}
			cid := pickCid()
			ops = append(ops, fmt.Sprintf("%s%d.%s=%s@%d", []string{"c", "c", "C"}[r.Intn(3)], t, kvHex(name), kvHex(kvPick(r, msgs)), cid))
			if !used[name] && name != "" && name != "*" && cid <= ncontacts {
				used[name] = true
				alerts = append(alerts, t)
			}
		case x < 60:
			name := kvPick(r, pool)
			if r.Intn(100) >= pDup {
				name = fmt.Sprintf("%s-u%d", name, j)
			}
			at := ""
			if r.Intn(3) == 0 {
				at = fmt.Sprintf("@%d", pickCid())
			}
			ops = append(ops, fmt.Sprintf("u%d.%d=%s:%s%s", t, pickID(t), kvHex(name), kvHex(kvPick(r, msgs)), at))
			used[name] = true
		case x < 72:
			ops = append(ops, fmt.Sprintf("d%d.%d", t, pickID(t)))
		case x < 84:
			ops = append(ops, fmt.Sprintf("g%d.%d", t, pickID(t)))
		default:
			ops = append(ops, fmt.Sprintf("l%d", t))
		}
	}
	return "kv adb " + strings.Join(ops, " ")
}
