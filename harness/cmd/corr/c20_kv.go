package main

import (
	"encoding/hex"
	"encoding/json"
	"errors"
	"fmt"
	"math/rand"
	"os"
	"sort"
	"strconv"
	"strings"
	"unicode/utf8"

	"github.com/siglens/siglens/pkg/config"
	usq "github.com/siglens/siglens/pkg/usersavedqueries"
	vtable "github.com/siglens/siglens/pkg/virtualtable"
	"github.com/valyala/fasthttp"
)

// suite "kv" (C20, keyed-store half):  kv <store> <op> <op> …
//   tenants: one digit 0|1|2 → org ids 0, 1, 7;  names and values: lower-case hex of their bytes
//     c<t>.<k>=<v> create   u<t>.<k>=<v> update   r<t>.<k>><k2> rename   d<t>.<k> delete
//     g<t>.<k> get          l<t> list             R restart (new process on the same data directory)
//   (per store: see the kvStore implementations; alias uses d<t>.<index>=<alias> and q<t>.<alias>)
// Every line runs the REAL store in a fresh data directory.  R clears the package's in-memory state through
// an overlay hook and calls the package's own Init function, so that the state really comes from the disk.
// The property statement is checked independently of the Lean model against a plain Go map ("shadow") that
// records what the store ACKNOWLEDGED: after every operation every tenant is read back through the store's
// own read functions and compared with the shadow.

func init() {
	register(&Suite{Name: "kv", Gen: genKV, Exec: execKV,
		Rule: "operation sequences (≤ 40 ops) of create/update/rename/delete/get/list/restart over 3 tenants (orgs 0, 1, 7) against the real stores (saved queries, index aliases, …) in a fresh data directory per line; names with spaces, unicode, dots, quotes, control characters, 300-byte names, case variants and prefixes of each other; restart at any position; after EVERY op every tenant is read back and compared with a plain Go map of the acknowledged writes; non-trivial = ≥ 3 ops with an accepted write and a read"})
}

var kvOrgs = []int64{0, 1, 7}

type kvOp struct {
	kind     byte // c u r d g l q R
	t        int
	k, k2, v string
	form     byte // 0: bare key, '=': k=v, '>': k>k2, 'l': no key, 'R'
}

func kvHexLower(s string) (string, bool) {
	if len(s)%2 != 0 {
		return "", false
	}
	for i := 0; i < len(s); i++ {
		c := s[i]
		if !((c >= '0' && c <= '9') || (c >= 'a' && c <= 'f')) {
			return "", false
		}
	}
	b, err := hex.DecodeString(s)
	if err != nil {
		return "", false
	}
	return string(b), true
}

func kvHex(s string) string { return hex.EncodeToString([]byte(s)) }

// kvParseTok mirrors Oracle/C20K.lean: the generic token shapes; each store then accepts a subset.
func kvParseTok(s string) (kvOp, bool) {
	if s == "R" {
		return kvOp{kind: 'R', form: 'R'}, true
	}
	if len(s) == 2 && s[0] == 'l' {
		if s[1] < '0' || s[1] > '2' {
			return kvOp{}, false
		}
		return kvOp{kind: 'l', t: int(s[1] - '0'), form: 'l'}, true
	}
	if len(s) < 3 || s[1] < '0' || s[1] > '2' || s[2] != '.' {
		return kvOp{}, false
	}
	op := kvOp{kind: s[0], t: int(s[1] - '0')}
	rest := s[3:]
	var ok bool
	switch {
	case strings.Count(rest, "=") == 1 && !strings.Contains(rest, ">"):
		i := strings.IndexByte(rest, '=')
		op.form = '='
		if op.k, ok = kvHexLower(rest[:i]); !ok {
			return kvOp{}, false
		}
		if op.v, ok = kvHexLower(rest[i+1:]); !ok {
			return kvOp{}, false
		}
	case strings.Count(rest, ">") == 1 && !strings.Contains(rest, "="):
		i := strings.IndexByte(rest, '>')
		op.form = '>'
		if op.k, ok = kvHexLower(rest[:i]); !ok {
			return kvOp{}, false
		}
		if op.k2, ok = kvHexLower(rest[i+1:]); !ok {
			return kvOp{}, false
		}
	default:
		if op.k, ok = kvHexLower(rest); !ok {
			return kvOp{}, false
		}
	}
	return op, true
}

type kvStore interface {
	accepts(op kvOp) bool
	boot() error
	apply(op kvOp) string
	restart() error
	// readAll returns what the store's read functions currently answer for tenant t, as a canonical
	// string map (the same shape as the store's shadow)
	readAll(t int) (map[string]string, error)
	// shadow of tenant t: what the acknowledged writes say the reads must return
	shadowOf(t int) map[string]string
}

type kvRun struct {
	store   string
	res     *Result
	seen    map[string]bool
	lastOp  kvOp
	afterRe bool
	tainted [3]bool // a tenant whose reads already differed once is not audited further (no cascades)
}

func (r *kvRun) fail(class, msg string) {
	sig := "kv/" + r.store + "/" + class
	if r.seen[sig] {
		return
	}
	r.seen[sig] = true
	r.res.Fails = append(r.res.Fails, PropFail{Sig: sig, Msg: msg})
}

func kvShow(s string) string {
	if len(s) > 40 {
		return fmt.Sprintf("%q…(%d bytes)", s[:40], len(s))
	}
	return fmt.Sprintf("%q", s)
}

// kvDiff classifies the difference between what the reads must return (want) and what they return (got)
func kvDiff(want, got map[string]string) (class, msg string) {
	var ks []string
	for k := range want {
		ks = append(ks, k)
	}
	for k := range got {
		if _, ok := want[k]; !ok {
			ks = append(ks, k)
		}
	}
	sort.Strings(ks)
	for _, k := range ks {
		w, okw := want[k]
		g, okg := got[k]
		switch {
		case okw && !okg:
			return "lost", fmt.Sprintf("%s was written (value %s) and is not returned", kvShow(k), kvShow(w))
		case !okw && okg:
			return "ghost", fmt.Sprintf("%s is returned (value %s) although it was deleted / never written", kvShow(k), kvShow(g))
		case w != g:
			return "stale", fmt.Sprintf("%s: last written %s, read %s", kvShow(k), kvShow(w), kvShow(g))
		}
	}
	return "", ""
}

// audit: every tenant is read back and compared with the shadow (the property statement itself)
func (r *kvRun) audit(st kvStore, when string) {
	for t := range kvOrgs {
		if r.tainted[t] {
			continue
		}
		got, err := st.readAll(t)
		if err != nil {
			r.fail("read-error", fmt.Sprintf("%s: reading tenant %d failed: %v", when, kvOrgs[t], err))
			r.tainted[t] = true
			continue
		}
		want := st.shadowOf(t)
		class, msg := kvDiff(want, got)
		if class == "" {
			continue
		}
		switch {
		case r.afterRe:
			class += "-after-restart"
		case r.lastOp.form != 'R' && r.lastOp.t != t:
			class = "other-tenant-disturbed"
		case class == "lost" && (r.lastOp.kind == 'c' || r.lastOp.kind == 'u'):
			class = "ok-but-not-stored"
		case class == "ghost" && r.lastOp.kind == 'd':
			class = "survives-delete"
		case class == "ghost" && r.lastOp.kind == 'r':
			class = "old-name-survives-rename"
		}
		r.fail(class, fmt.Sprintf("%s (tenant org %d): %s", when, kvOrgs[t], msg))
		r.tainted[t] = true
	}
}

var kvRoot string
var kvSeq int

func kvFreshDir() (string, error) {
	if kvRoot == "" {
		d, err := os.MkdirTemp("", "verifkv")
		if err != nil {
			return "", err
		}
		kvRoot = d
		exitHooks = append(exitHooks, func() { os.RemoveAll(d) })
	}
	kvSeq++
	dir := fmt.Sprintf("%s/w%d/", kvRoot, kvSeq)
	if err := os.MkdirAll(dir, 0o755); err != nil {
		return "", err
	}
	return dir, nil
}

func kvNewStore(name string) kvStore {
	switch name {
	case "usq":
		return &kvUsq{}
	case "alias":
		return &kvAlias{}
	}
	return nil
}

func execKV(line string) Result {
	f := strings.Fields(line)
	if len(f) < 3 || f[0] != "kv" {
		return Result{Out: "bad-op"}
	}
	st := kvNewStore(f[1])
	if st == nil {
		return Result{Out: "bad-op"}
	}
	var ops []kvOp
	for _, tok := range f[2:] {
		op, ok := kvParseTok(tok)
		if !ok || !st.accepts(op) {
			return Result{Out: "bad-op"}
		}
		ops = append(ops, op)
	}
	dir, err := kvFreshDir()
	if err != nil {
		return Result{Out: "harness-error:" + err.Error()}
	}
	defer os.RemoveAll(dir)
	config.InitializeTestingConfig(dir)
	if err := st.boot(); err != nil {
		return Result{Out: "harness-error:boot:" + err.Error()}
	}
	var res Result
	run := &kvRun{store: f[1], res: &res, seen: map[string]bool{}}
	res.Tags = append(res.Tags, "store="+f[1])
	var toks []string
	tenants := map[int]bool{}
	writes, reads, restarts := 0, 0, 0
	for _, op := range ops {
		run.lastOp = op
		run.afterRe = false
		if op.form == 'R' {
			restarts++
			run.audit(st, "before restart")
			if err := st.restart(); err != nil {
				return Result{Out: "harness-error:restart:" + err.Error()}
			}
			run.afterRe = true
			run.audit(st, "after restart")
			toks = append(toks, "R")
			continue
		}
		tenants[op.t] = true
		tok := st.apply(op)
		toks = append(toks, tok)
		switch op.kind {
		case 'c', 'u', 'r', 'd':
			if tok == "ok" || strings.HasPrefix(tok, "ok:") {
				writes++
			}
		default:
			reads++
		}
		run.audit(st, "after "+string(op.kind))
	}
	res.Out = strings.Join(toks, " ")
	res.Nontrivial = len(ops) >= 3 && writes > 0 && reads > 0
	if restarts > 0 {
		res.Tags = append(res.Tags, "restart")
	}
	if len(tenants) > 1 {
		res.Tags = append(res.Tags, "multi-tenant")
	}
	for _, op := range ops {
		if kvUnusual(op.k) || kvUnusual(op.k2) {
			res.Tags = append(res.Tags, "unusual-name")
			break
		}
	}
	return res
}

func kvUnusual(s string) bool {
	if len(s) > 100 {
		return true
	}
	for _, c := range s {
		if !(c >= 'a' && c <= 'z') && !(c >= '0' && c <= '9') {
			return true
		}
	}
	return false
}

// ---------------------------------------------------------------- generator

var kvNames = []string{
	"a", "ab", "abc", "abcd", "b", "A", "Ab", "AB", "q1", "q.1", "q..1", ".hidden", "x.json", "x.csv", "a b", " a", "a ", "  ",
	"ünï-ćödé", "日本語", "𝔘𝔫𝔦", "é", "é", "%2e%2e", "a%20b", "a=b&c=d", "\"quoted\"", "it's", "<b>x</b>", "a,b", "a:b", "a+b",
	"*", "?", "null", "NULL", "0", "-1", "true", "{}", "[]", "a\tb", "a\nb", "\\u0041", "con", "..a", "a..", "~", "#1", "@x", "$x", "`x`", "|", ";",
}

func kvLongName(r *rand.Rand, store string) string {
	n := []int{120, 200, 300}[r.Intn(3)]
	if store == "alias" { // an index name is a file name (+ ".json"): stay below NAME_MAX
		n = []int{120, 200, 249}[r.Intn(3)]
	}
	b := make([]byte, n)
	for i := range b {
		b[i] = "kK9_"[r.Intn(4)]
	}
	return string(b)
}

var kvVals = []string{"v1", "v2", "v3", "", " ", "* | stats count", "ünï", "{\"a\":1}", "a=b", "line1\nline2", "\"q\"", "0", "null", "日本"}

func kvPick(r *rand.Rand, pool []string) string { return pool[r.Intn(len(pool))] }

func genKV(r *rand.Rand, n int, tier string) []string {
	stores := []string{"usq", "alias"}
	var out []string
	for i := 0; i < n; i++ {
		store := stores[i%len(stores)]
		if r.Intn(40) == 0 { // malformed share
			bad := []string{
				"kv " + store, "kv nostore l0", "kv " + store + " l3", "kv " + store + " c0.6=61", "kv " + store + " c0.61=6G", "kv " + store + " c0.61=62=63",
				"kv " + store + " x0.61", "kv " + store + " l0.61", "kv " + store + " c3.61=62", "kv " + store + " d0", "kv " + store + " c0,61=62",
				"kv " + store + " C0.61=62", "kv " + store + " c0.6A=62", "kv " + store + " r0.61>62>63", "kv " + store + " RR", "kv " + store + " g0.61 ll0",
				"kv " + store + " r0.61>62", "kv " + store + " q0.61=62",
			}
			out = append(out, bad[r.Intn(len(bad))])
			continue
		}
		out = append(out, genKVLine(r, store))
	}
	return out
}

func genKVLine(r *rand.Rand, store string) string {
	// a small pool of names per line so that names repeat; some lines use near-identical names
	var pool []string
	np := 2 + r.Intn(4)
	switch r.Intn(5) {
	case 0:
		pool = []string{"a", "ab", "abc", "A", "aB"}[:np]
	case 1:
		pool = []string{"q", "q ", " q", "Q", "q."}[:np]
	default:
		for len(pool) < np {
			if r.Intn(12) == 0 {
				pool = append(pool, kvLongName(r, store))
			} else {
				pool = append(pool, kvPick(r, kvNames))
			}
		}
	}
	pool2 := pool // second name space (alias names)
	if store == "alias" && r.Intn(3) > 0 {
		pool2 = nil
		for len(pool2) < 2+r.Intn(3) {
			pool2 = append(pool2, kvPick(r, kvNames))
		}
	}
	if r.Intn(25) == 0 {
		pool = append(pool, "")
	}
	if store == "alias" && r.Intn(15) == 0 {
		pool = append(pool, []string{".", "..", "a/b", "a\\b"}[r.Intn(4)])
	}
	if store == "alias" && r.Intn(40) == 0 {
		pool2 = append(pool2, "")
	}
	nt := []int{1, 2, 2, 3, 3}[r.Intn(5)]
	tperm := r.Perm(3)[:nt]
	nops := 1 + r.Intn(40)
	if r.Intn(4) == 0 {
		nops = 1 + r.Intn(8)
	}
	pR := []int{0, 4, 8, 15}[r.Intn(4)]
	var ops []string
	for j := 0; j < nops; j++ {
		t := tperm[r.Intn(nt)]
		k := kvHex(kvPick(r, pool))
		x := r.Intn(100)
		if x < pR {
			ops = append(ops, "R")
			continue
		}
		x = r.Intn(100)
		switch store {
		case "usq":
			switch {
			case x < 40:
				ops = append(ops, fmt.Sprintf("%s%d.%s=%s", []string{"c", "u"}[r.Intn(2)], t, k, kvHex(kvPick(r, kvVals))))
			case x < 58:
				ops = append(ops, fmt.Sprintf("d%d.%s", t, k))
			case x < 75:
				q := kvPick(r, pool)
				if r.Intn(3) == 0 && len(q) > 1 && utf8.ValidString(q[1:]) { // proper substring
					q = q[1:]
				}
				ops = append(ops, fmt.Sprintf("g%d.%s", t, kvHex(q)))
			default:
				ops = append(ops, fmt.Sprintf("l%d", t))
			}
		case "alias":
			a := kvHex(kvPick(r, pool2))
			switch {
			case x < 38:
				ops = append(ops, fmt.Sprintf("c%d.%s=%s", t, k, a))
			case x < 58:
				ops = append(ops, fmt.Sprintf("d%d.%s=%s", t, k, a))
			case x < 70:
				ops = append(ops, fmt.Sprintf("g%d.%s", t, k))
			case x < 84:
				ops = append(ops, fmt.Sprintf("q%d.%s", t, a))
			default:
				ops = append(ops, fmt.Sprintf("l%d", t))
			}
		}
	}
	return "kv " + store + " " + strings.Join(ops, " ")
}

// ---------------------------------------------------------------- helpers

func kvCtx(body []byte, uv map[string]string) *fasthttp.RequestCtx {
	ctx := &fasthttp.RequestCtx{}
	if body != nil {
		ctx.Request.SetBody(body)
	}
	for k, v := range uv {
		ctx.SetUserValue(k, v)
	}
	return ctx
}

func kvSortedJoin(items []string, sep string) string {
	sort.Strings(items)
	return strings.Join(items, sep)
}

func kvEntries(m map[string]string) string {
	var items []string
	for k, v := range m {
		items = append(items, kvHex(k)+"="+kvHex(v))
	}
	return kvSortedJoin(items, ",")
}

// ---------------------------------------------------------------- saved queries

// kvUsq drives pkg/usersavedqueries through its HTTP handlers (in-memory fasthttp.RequestCtx).
//   c|u<t>.<name>=<value>  SaveUserQueries (upsert; value = searchText)      d<t>.<name>  DeleteUserSavedQuery
//   g<t>.<text>            SearchUserSavedQuery (names CONTAINING text)      l<t>         GetUserSavedQueriesAll
type kvUsq struct {
	shadow [3]map[string]string
}

func (s *kvUsq) accepts(op kvOp) bool {
	switch op.kind {
	case 'c', 'u':
		return op.form == '='
	case 'd', 'g':
		return op.form == 0
	case 'l':
		return op.form == 'l'
	case 'R':
		return true
	}
	return false
}

func (s *kvUsq) boot() error {
	for i := range s.shadow {
		s.shadow[i] = map[string]string{}
	}
	usq.VerifResetUsqMemory()
	return usq.InitUsq()
}

func (s *kvUsq) restart() error {
	usq.VerifResetUsqMemory()
	return usq.InitUsq()
}

func (s *kvUsq) shadowOf(t int) map[string]string     { return s.shadow[t] }

const kvUsqDescPrefix = "description of "

func kvUsqDecode(body []byte) (map[string]string, error) {
	var m map[string]map[string]interface{}
	if err := json.Unmarshal(body, &m); err != nil {
		return nil, fmt.Errorf("answer is not a JSON object: %v", err)
	}
	out := map[string]string{}
	for name, q := range m {
		v, _ := q["searchText"].(string)
		d, _ := q["description"].(string)
		if d != kvUsqDescPrefix+v || q["indexName"] != "idx-"+v {
			v = fmt.Sprintf("%s\x00damaged-fields(description=%q,indexName=%v)", v, d, q["indexName"])
		}
		out[name] = v
	}
	return out, nil
}

func (s *kvUsq) readAll(t int) (map[string]string, error) {
	ctx := kvCtx(nil, nil)
	usq.GetUserSavedQueriesAll(ctx, kvOrgs[t])
	if ctx.Response.StatusCode() != 200 {
		return nil, fmt.Errorf("GetUserSavedQueriesAll: status %d", ctx.Response.StatusCode())
	}
	return kvUsqDecode(ctx.Response.Body())
}

func (s *kvUsq) apply(op kvOp) string {
	org := kvOrgs[op.t]
	switch op.kind {
	case 'c', 'u':
		body, _ := json.Marshal(map[string]string{"queryName": op.k, "searchText": op.v, "queryDescription": kvUsqDescPrefix + op.v, "indexName": "idx-" + op.v})
		ctx := kvCtx(body, nil)
		usq.SaveUserQueries(ctx, org)
		switch ctx.Response.StatusCode() {
		case 200:
			s.shadow[op.t][op.k] = op.v
			return "ok"
		case 400:
			return "inv"
		}
		return fmt.Sprintf("err%d", ctx.Response.StatusCode())
	case 'd':
		ctx := kvCtx(nil, map[string]string{"qname": op.k})
		usq.DeleteUserSavedQuery(ctx, org)
		switch ctx.Response.StatusCode() {
		case 200:
			delete(s.shadow[op.t], op.k)
			return "ok"
		case 400:
			return "nf"
		}
		return fmt.Sprintf("err%d", ctx.Response.StatusCode())
	case 'g':
		ctx := kvCtx(nil, map[string]string{"qname": op.k})
		usq.SearchUserSavedQuery(ctx, org)
		switch ctx.Response.StatusCode() {
		case 404:
			return "nf"
		case 200:
			m, err := kvUsqDecode(ctx.Response.Body())
			if err != nil {
				return "err:" + err.Error()
			}
			if len(m) == 0 {
				return "nf"
			}
			return kvEntries(m)
		}
		return fmt.Sprintf("err%d", ctx.Response.StatusCode())
	case 'l':
		m, err := s.readAll(op.t)
		if err != nil {
			return "err"
		}
		return "[" + kvEntries(m) + "]"
	}
	return "bad-op"
}

// ---------------------------------------------------------------- index aliases

// kvAlias drives the alias functions of pkg/virtualtable.  The keyed store is (org, index) ↦ set of alias
// names, read in two directions: GetAliases(index) from the per-index file, and the in-memory inverse
// alias ↦ indexes (GetAllAliasesAsMapArray, IsAlias).
//   c<t>.<index>=<alias> AddAliases      d<t>.<index>=<alias> RemoveAliases     g<t>.<index> GetAliases
//   l<t> GetAllAliasesAsMapArray         q<t>.<alias> IsAlias
// shadow key: "<index>\x00<alias>" ↦ "1"; readAll merges both read directions: "F"/"M" = seen in the
// file view / in the memory view.
type kvAlias struct {
	shadow  [3]map[string]string
	touched [3]map[string]bool // index names ever used (GetAliases is asked for each)
}

func (s *kvAlias) accepts(op kvOp) bool {
	switch op.kind {
	case 'c', 'd':
		return op.form == '='
	case 'g', 'q':
		return op.form == 0
	case 'l':
		return op.form == 'l'
	case 'R':
		return true
	}
	return false
}

func kvMyIds() []int64 { return kvOrgs }

func (s *kvAlias) boot() error {
	for i := range s.shadow {
		s.shadow[i] = map[string]string{}
		s.touched[i] = map[string]bool{}
	}
	vtable.VerifResetAliasMemory()
	if err := vtable.InitVTable(kvMyIds); err != nil {
		return err
	}
	// ASSUMPTION (documented in props.py): the per-org alias directories exist. The OSS tree never creates
	// them (AddAliases of an org ≠ 0 fails with ENOENT otherwise); a multi-tenant deployment has to.
	for _, o := range kvOrgs {
		if o != 0 {
			if err := os.MkdirAll(vtable.VTableAliasesDir+strconv.FormatInt(o, 10)+"/", 0o764); err != nil {
				return err
			}
		}
	}
	return nil
}

func (s *kvAlias) restart() error {
	vtable.VerifResetAliasMemory()
	return vtable.InitVTable(kvMyIds)
}

const kvAliasFileView, kvAliasMemView = "file-view(GetAliases) ", "memory-view(alias→index map) "

func (s *kvAlias) shadowOf(t int) map[string]string {
	// both read directions must show every acknowledged pair; the empty alias name is granted as "not a name"
	m := map[string]string{}
	for k := range s.shadow[t] {
		if strings.HasSuffix(k, "\x00") {
			continue
		}
		m[kvAliasFileView+k] = "1"
		m[kvAliasMemView+k] = "1"
	}
	return m
}

func (s *kvAlias) readAll(t int) (map[string]string, error) {
	org := kvOrgs[t]
	out := map[string]string{}
	for idx := range s.touched[t] {
		if !vtable.IsValidIndexName(idx) {
			continue
		}
		as, err := vtable.GetAliases(idx, org)
		if err != nil {
			return nil, fmt.Errorf("GetAliases(%q): %v", idx, err)
		}
		for a := range as {
			if a != "" {
				out[kvAliasFileView+idx+"\x00"+a] = "1"
			}
		}
	}
	all, err := vtable.GetAllAliasesAsMapArray(org)
	if err != nil {
		return nil, err
	}
	for a, idxs := range all {
		if len(idxs) == 0 {
			out[kvAliasMemView+"(no index)\x00"+a] = "1"
		}
		for _, idx := range idxs {
			out[kvAliasMemView+idx+"\x00"+a] = "1"
		}
	}
	return out, nil
}

func kvAliasErr(err error) string {
	switch {
	case err == nil:
		return "ok"
	case errors.Is(err, os.ErrNotExist):
		return "nf"
	case strings.Contains(err.Error(), "indexName is null"), strings.Contains(err.Error(), "indexName is invalid"), strings.Contains(err.Error(), "invalid indexName"):
		return "inv"
	}
	return "err:" + strings.ReplaceAll(err.Error(), " ", "_")
}

func (s *kvAlias) apply(op kvOp) string {
	org := kvOrgs[op.t]
	switch op.kind {
	case 'c':
		s.touched[op.t][op.k] = true
		err := vtable.AddAliases(op.k, []string{op.v}, org)
		if err == nil {
			s.shadow[op.t][op.k+"\x00"+op.v] = "1"
		}
		return kvAliasErr(err)
	case 'd':
		s.touched[op.t][op.k] = true
		err := vtable.RemoveAliases(op.k, []string{op.v}, org)
		if err == nil {
			delete(s.shadow[op.t], op.k+"\x00"+op.v)
		}
		return kvAliasErr(err)
	case 'g':
		as, err := vtable.GetAliases(op.k, org)
		if err != nil {
			return kvAliasErr(err)
		}
		var items []string
		for a := range as {
			items = append(items, kvHex(a))
		}
		return "{" + kvSortedJoin(items, ",") + "}"
	case 'l':
		all, err := vtable.GetAllAliasesAsMapArray(org)
		if err != nil {
			return kvAliasErr(err)
		}
		var items []string
		for a, idxs := range all {
			var hs []string
			for _, i := range idxs {
				hs = append(hs, kvHex(i))
			}
			items = append(items, kvHex(a)+":"+kvSortedJoin(hs, "+"))
		}
		return "[" + kvSortedJoin(items, ",") + "]"
	case 'q':
		found, idx := vtable.IsAlias(op.k, org)
		if !found {
			return "-"
		}
		// IsAlias answers with ONE of the alias' indexes (Go map order): canonical only when the store itself
		// holds a single candidate (GetAllAliasesAsMapArray of the same in-memory map)
		all, _ := vtable.GetAllAliasesAsMapArray(org)
		if len(all[op.k]) > 1 {
			ok := false
			for _, i := range all[op.k] {
				ok = ok || i == idx
			}
			if !ok {
				return "wrong-index:" + kvHex(idx)
			}
			return "*"
		}
		return kvHex(idx)
	}
	return "bad-op"
}
