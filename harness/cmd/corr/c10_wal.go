package main

import (
	"encoding/hex"
	"fmt"
	"math"
	"math/rand"
	"os"
	"path/filepath"
	"strconv"
	"strings"

	"github.com/klauspost/compress/zstd"
	"github.com/siglens/siglens/pkg/segment/writer/metrics/wal"
)

// suite "wal": wal <mut> dps=<t:vhex:tsid,...;...> pay=<hex;hex>
// The payload hex (zstd output) is computed at generation time by the real encoder and carried in the
// op line, because zstd is a parameter of the Lean model.

func init() {
	register(&Suite{Name: "wal", Gen: genWal, Exec: execWal,
		Rule: "WAL files of 0..5 blocks × 1..6 datapoints, unmutated / truncated at every kind of offset / one byte replaced; distinct = sha1(op line); non-trivial = ≥1 block and a mutation"})
}

var walDec, _ = zstd.NewReader(nil)

func genWal(r *rand.Rand, n int, tier string) []string {
	var out []string
	for i := 0; i < n; i++ {
		nb := r.Intn(5)
		if r.Intn(4) == 0 {
			nb = 1 + r.Intn(2)
		}
		var blocks [][]wal.WalDatapoint
		for b := 0; b < nb; b++ {
			nd := 1 + r.Intn(6)
			var dps []wal.WalDatapoint
			for j := 0; j < nd; j++ {
				v := specialVals[r.Intn(len(specialVals))]
				if r.Intn(2) == 0 {
					v = r.Uint64()
				}
				if math.IsNaN(math.Float64frombits(v)) { // binary.Write keeps NaN payload bits; keep anyway
				}
				dps = append(dps, wal.WalDatapoint{Timestamp: uint32(1700000000 + r.Intn(1000000)), DpVal: math.Float64frombits(v), Tsid: r.Uint64() >> uint(r.Intn(64))})
			}
			blocks = append(blocks, dps)
		}
		// build the file once to know its length and the payloads
		_, pays := walBuild(blocks)
		flen := 1
		for _, p := range pays {
			flen += 8 + len(p)
		}
		mut := "none"
		switch r.Intn(5) {
		case 0:
		case 1, 2:
			mut = fmt.Sprintf("cut:%d", r.Intn(flen+1))
			if r.Intn(3) == 0 && nb > 0 { // cut exactly at a frame/field boundary ± 1
				off := 1
				k := r.Intn(nb)
				for j := 0; j < k; j++ {
					off += 8 + len(pays[j])
				}
				off += []int{0, 4, 8, 8 + len(pays[k])}[r.Intn(4)] + r.Intn(3) - 1
				if off < 0 {
					off = 0
				}
				if off > flen {
					off = flen
				}
				mut = fmt.Sprintf("cut:%d", off)
			}
		default:
			if flen > 0 {
				mut = fmt.Sprintf("set:%d:%d", r.Intn(flen), r.Intn(256))
			}
		}
		out = append(out, fmt.Sprintf("wal %s dps=%s pay=%s", mut, fmtBlocks(blocks), fmtPays(pays)))
	}
	return out
}

func fmtBlocks(blocks [][]wal.WalDatapoint) string {
	var bs []string
	for _, b := range blocks {
		var ds []string
		for _, d := range b {
			ds = append(ds, fmt.Sprintf("%d:%016x:%d", d.Timestamp, math.Float64bits(d.DpVal), d.Tsid))
		}
		bs = append(bs, strings.Join(ds, ","))
	}
	return strings.Join(bs, ";")
}
func fmtPays(p [][]byte) string {
	var s []string
	for _, x := range p {
		s = append(s, hex.EncodeToString(x))
	}
	return strings.Join(s, ";")
}

// writes a real WAL with one Append per block; returns file bytes and the payloads found in it
func walBuild(blocks [][]wal.WalDatapoint) ([]byte, [][]byte) {
	dir, err := os.MkdirTemp("", "verifwal")
	if err != nil {
		panic(err)
	}
	defer os.RemoveAll(dir)
	fp := filepath.Join(dir, "shardid_0_segid_0_blockid_0_1.wal")
	w, err := wal.NewWAL(fp, wal.NewDataPointEncoder())
	if err != nil {
		panic(err)
	}
	var pays [][]byte
	prev := 1
	for _, b := range blocks {
		if err := w.Append(b); err != nil {
			panic(err)
		}
		data, _ := os.ReadFile(fp)
		pays = append(pays, append([]byte{}, data[prev+8:]...))
		prev = len(data)
	}
	w.Close()
	data, err := os.ReadFile(fp)
	if err != nil {
		panic(err)
	}
	return data, pays
}

func parseWalLine(line string) (mut string, blocks [][]wal.WalDatapoint, pays string, ok bool) {
	f := strings.Fields(line)
	if len(f) != 4 || f[0] != "wal" || !strings.HasPrefix(f[2], "dps=") || !strings.HasPrefix(f[3], "pay=") {
		return
	}
	mut = f[1]
	d := strings.TrimPrefix(f[2], "dps=")
	if d != "" {
		for _, b := range strings.Split(d, ";") {
			var dps []wal.WalDatapoint
			for _, x := range strings.Split(b, ",") {
				p := strings.Split(x, ":")
				if len(p) != 3 {
					return
				}
				t, e1 := strconv.ParseUint(p[0], 10, 32)
				v, e2 := strconv.ParseUint(p[1], 16, 64)
				id, e3 := strconv.ParseUint(p[2], 10, 64)
				if e1 != nil || e2 != nil || e3 != nil {
					return
				}
				dps = append(dps, wal.WalDatapoint{Timestamp: uint32(t), DpVal: math.Float64frombits(v), Tsid: id})
			}
			blocks = append(blocks, dps)
		}
	}
	return mut, blocks, strings.TrimPrefix(f[3], "pay="), true
}

func execWal(line string) Result {
	mut, blocks, payStr, ok := parseWalLine(line)
	if !ok {
		return Result{Out: "bad-op"}
	}
	data, pays := walBuild(blocks)
	res := Result{Tags: []string{"mut:" + strings.SplitN(mut, ":", 2)[0], fmt.Sprintf("blocks=%d", len(blocks))}}
	if fmtPays(pays) != payStr {
		// zstd output differs from generation time (would be a harness artefact, not a product defect)
		return Result{Out: "payload-drift"}
	}
	var raws []string
	for _, p := range pays {
		raw, err := walDec.DecodeAll(p, nil)
		if err != nil {
			panic(err)
		}
		raws = append(raws, hex.EncodeToString(raw))
	}
	mutated := append([]byte{}, data...)
	damagedFrame := -1 // index of the first frame touched by the mutation
	frameOf := func(pos int) int {
		off := 1
		for i, p := range pays {
			if pos < off+8+len(p) {
				return i
			}
			off += 8 + len(p)
		}
		return len(pays)
	}
	completeFrames := len(pays)
	parts := strings.Split(mut, ":")
	switch parts[0] {
	case "none":
	case "cut":
		k, _ := strconv.Atoi(parts[1])
		if k > len(mutated) {
			k = len(mutated)
		}
		mutated = mutated[:k]
		completeFrames = 0
		off := 1
		for _, p := range pays {
			off += 8 + len(p)
			if off <= k {
				completeFrames++
			}
		}
	case "set":
		pos, _ := strconv.Atoi(parts[1])
		b, _ := strconv.Atoi(parts[2])
		if pos < len(mutated) {
			if mutated[pos] != byte(b) && pos > 0 {
				damagedFrame = frameOf(pos)
			}
			if mutated[pos] != byte(b) && pos == 0 {
				damagedFrame = 0
				completeFrames = 0
			}
			mutated[pos] = byte(b)
		}
	default:
		return Result{Out: "bad-op"}
	}
	dir, _ := os.MkdirTemp("", "verifwalr")
	defer os.RemoveAll(dir)
	fp := filepath.Join(dir, "x.wal")
	os.WriteFile(fp, mutated, 0o644)
	status := "clean"
	var got []wal.WalDatapoint
	it, err := wal.NewWALReader(fp)
	if err != nil {
		status = "noopen"
	} else {
		for {
			dp, err := it.Next()
			if err != nil {
				status = "err"
				break
			}
			if dp == nil {
				break
			}
			got = append(got, *dp)
			if len(got) > 1000000 {
				panic("runaway iterator")
			}
		}
		it.Close()
	}
	// canonicalise: how many whole original blocks does `got` consist of?
	nblk := 0
	idx := 0
	faithful := true
	for _, b := range blocks {
		if idx == len(got) {
			break
		}
		if idx+len(b) > len(got) {
			faithful = false
			break
		}
		for j, d := range b {
			g := got[idx+j]
			if g.Timestamp != d.Timestamp || math.Float64bits(g.DpVal) != math.Float64bits(d.DpVal) || g.Tsid != d.Tsid {
				faithful = false
			}
		}
		if !faithful {
			break
		}
		idx += len(b)
		nblk++
	}
	if idx != len(got) {
		faithful = false
	}
	rd := fmt.Sprintf("%d/%s", nblk, status)
	if !faithful {
		rd = fmt.Sprintf("unfaithful(%d dps)/%s", len(got), status)
		res.Fails = append(res.Fails, PropFail{Sig: "wal-replay-not-a-prefix/" + parts[0], Msg: fmt.Sprintf("replayed datapoints are not a prefix of the appended blocks: got %d datapoints", len(got))})
	} else {
		switch parts[0] {
		case "none":
			if nblk != len(blocks) || status != "clean" {
				res.Fails = append(res.Fails, PropFail{Sig: "wal-intact-file-not-fully-replayed", Msg: "intact WAL replayed " + rd})
			}
		case "cut":
			if nblk != completeFrames {
				res.Fails = append(res.Fails, PropFail{Sig: "wal-truncated-wrong-prefix", Msg: fmt.Sprintf("cut file replayed %s, complete frames %d", rd, completeFrames)})
			}
		case "set":
			if damagedFrame >= 0 && nblk > damagedFrame {
				res.Fails = append(res.Fails, PropFail{Sig: "wal-damaged-block-accepted", Msg: fmt.Sprintf("block %d was damaged yet replay returned %s", damagedFrame, rd)})
			}
			if damagedFrame >= 0 && nblk < damagedFrame && nblk < completeFrames {
				res.Fails = append(res.Fails, PropFail{Sig: "wal-intact-blocks-before-damage-lost", Msg: fmt.Sprintf("block %d was damaged, replay returned only %s", damagedFrame, rd)})
			}
		}
	}
	res.Out = fmt.Sprintf("file=%s raw=%s rt=true read=%s", hex.EncodeToString(data), strings.Join(raws, ";"), rd)
	res.Nontrivial = len(blocks) >= 1 && parts[0] != "none"
	return res
}
