// Suites "fx_c15", "fx_c20", "fx_c12", "fx_c17" — what a client of the running server is promised, checked on the answers.
//
// The suite "alive" (c17_alive.go) asks of an answer only that it arrives and that the process lives.  The lines here
// are short request SEQUENCES against a real server process (the worker of suite alive, one fresh and empty server per
// line) whose answers are judged by the property statement itself:
//
//	fx getdoc    (C15 / C01)  a document acknowledged as created (PUT / POST _doc/<id>, PUT _create/<id>) is, after the flush, found
//	                          by GET /elastic/<index>/_doc/<id> with the fields that were sent; an id that was never stored is not
//	                          found; the Elasticsearch search that counts a document (also one of a bulk request) returns it
//	fx contact   (C20)        a contact point with lists of e-mail addresses / Slack channels / webhooks: created, listed with what
//	                          was sent (next to the contact that existed before), updated, listed again
//	fx reload    (C20 / C17)  POST /api/config/reload (query server) or /config/reload (ingest server) with the config file missing,
//	                          replaced by a directory, unparsable, changed, unchanged: a reload that fails says so and leaves the
//	                          running config as it was; a changed file is applied
//	fx otlptrace (C12 / C16)  spans acknowledged by POST /otlp/v1/traces on a server that has never seen the index `traces` are,
//	                          after the flush, returned by a search of that index exactly once each
//	fx searchbad (C17)        POST /api/search with a body that is no JSON object: the answer is results (2xx, one JSON value) or
//	                          an error (4xx / 5xx without results), never both
//
// Op line: `fx <scenario> <hex of the JSON parameters>`; the Lean side checks the grammar (Oracle/C17F.lean), the verdict
// is the PropFail.  After every line: the server process is still running (else alivefx/<scenario>/process-died/<site>).
package main

import (
	"bytes"
	"encoding/hex"
	"encoding/json"
	"fmt"
	"math"
	"math/rand"
	"net/url"
	"os"
	"path/filepath"
	"sort"
	"strconv"
	"strings"
	"time"

	coltracepb "go.opentelemetry.io/proto/otlp/collector/trace/v1"
	commonpb "go.opentelemetry.io/proto/otlp/common/v1"
	resourcepb "go.opentelemetry.io/proto/otlp/resource/v1"
	tracepb "go.opentelemetry.io/proto/otlp/trace/v1"
	gproto "google.golang.org/protobuf/proto"
)

var c17fSuites = []struct {
	name  string
	scens []string
	rule  string
}{
	{"fx_c15", []string{"getdoc"}, "a document acknowledged as created is retrievable by id and returned by the search that counts it (real server, fresh per line)"},
	{"fx_c20", []string{"contact", "reload"}, "contact points with e-mail / Slack / webhook lists are listed as written; a failing config reload changes nothing and says so (real server, fresh per line)"},
	{"fx_c12", []string{"otlptrace"}, "spans acknowledged by the OTLP trace route of a fresh server are searchable after the flush, once each"},
	{"fx_c17", []string{"searchbad", "reload"}, "a search request is answered with results or with an error, never both; a failing config reload is answered as a failure"},
}

var c17fScenarios = map[string]bool{"getdoc": true, "contact": true, "reload": true, "otlptrace": true, "searchbad": true}

func init() {
	for _, su := range c17fSuites {
		scens := su.scens
		register(&Suite{Name: su.name, Parallel: 4, Exec: c17fExec,
			Gen:  func(r *rand.Rand, n int, tier string) []string { return c17fGen(r, n, scens) },
			Rule: su.rule + "; non-trivial = the scenario ran to its checks"})
	}
}

type c17fSpan struct {
	Name   string `json:"name"`
	Parent int    `json:"parent"` // index of the parent span in the list, -1 = root
}

type c17fParams struct {
	// getdoc
	Idx    string                 `json:"idx,omitempty"`
	ID     string                 `json:"id,omitempty"`
	Via    string                 `json:"via,omitempty"`
	Doc    map[string]interface{} `json:"doc,omitempty"`
	Others int                    `json:"others,omitempty"`
	// contact
	Name    string   `json:"name,omitempty"`
	Emails  []string `json:"emails,omitempty"`
	Slack   []string `json:"slack,omitempty"`
	Webhook []string `json:"webhook,omitempty"`
	Pager   string   `json:"pager,omitempty"`
	Emails2 []string `json:"emails2,omitempty"`
	// otlptrace
	Service string     `json:"service,omitempty"`
	Spans   []c17fSpan `json:"spans,omitempty"`
	// searchbad
	Body string `json:"body,omitempty"` // hex
	// reload
	Mode string `json:"mode,omitempty"`
	Srv  string `json:"srv,omitempty"`
}

// ---------------------------------------------------------------- generator

func c17fLine(scen string, p c17fParams) string {
	b, _ := json.Marshal(p)
	return "fx " + scen + " " + hex.EncodeToString(b)
}

var c17fIDs = []string{"1", "42", "007", "1.0", "1e3", "-5", "abc", "a-b_c.d", "doc1", "ID-Upper", "0f8fad5b-d9cb-469f-a165-70867728950e", "9223372036854775807", "true", "null", "x1y2", "zz.9"}

func c17fDoc(r *rand.Rand) map[string]interface{} {
	d := map[string]interface{}{}
	n := 1 + r.Intn(5)
	for i := 0; i < n; i++ {
		k := []string{"a", "b", "msg", "host", "n", "lat", "ok", "Upper", "k_" + strconv.Itoa(r.Intn(100))}[r.Intn(9)]
		switch r.Intn(5) {
		case 0:
			d[k] = r.Intn(2000) - 1000
		case 1:
			d[k] = []string{"x", "hello world", "", "h1", "ünï", "a\"b", "1"}[r.Intn(7)] + strconv.Itoa(r.Intn(50)) + "s"
		case 2:
			d[k] = r.Intn(2) == 0
		case 3:
			d[k] = float64(r.Intn(100000))/8 + 0.5
		default:
			d[k] = "v" + strconv.Itoa(r.Intn(1000))
		}
	}
	if r.Intn(4) == 0 { // a nested object: stored flattened, returned nested again
		d["o"] = map[string]interface{}{"x": r.Intn(100), "y": "in" + strconv.Itoa(r.Intn(9))}
	}
	return d
}

var c17fMails = []string{"a@b.c", "ops@example.org", "x.y+tag@sub.example.com", "ü@exämple.de", "with,comma@example.org", "q\"uote@example.org", "UPPER@EXAMPLE.ORG"}

func c17fMailList(r *rand.Rand) []string {
	n := []int{0, 1, 1, 2, 2, 3, 6}[r.Intn(7)]
	out := []string{}
	for i := 0; i < n; i++ {
		out = append(out, strconv.Itoa(i)+c17fMails[r.Intn(len(c17fMails))])
	}
	return out
}

var c17fBadBodies = []string{`{"searchText":"*","indexName":"fxidx"`, `garbage`, ``, `[1,2]`, `"text"`, `17`, `{`, `}`, `{"searchText":}`, `{"searchText":"*",}`, "\x00\x01\x02", `{"searchText":"*","indexName":"fxidx","startEpoch":"now-1h","endEpoch":"now"} trailing`,
	`<html>`, `searchText=*`, `{'searchText':'*'}`, `{"searchText":"*","indexName":"fxidx","startEpoch":"now-1h","endEpoch":"now","queryLanguage":"Splunk QL"}`, `null`, `{}`, `{"searchText":"* | stats count","indexName":"fxidx","startEpoch":"now-1h","endEpoch":"now","queryLanguage":"Splunk QL"`}

var c17fReloadModes = []string{"missing", "directory", "badyaml", "changed", "same", "empty"}

func c17fGenOne(r *rand.Rand, scen string, i int) string {
	switch scen {
	case "getdoc":
		return c17fLine(scen, c17fParams{Idx: []string{"fxidx", "fx-idx-2", "fx.idx"}[r.Intn(3)], ID: c17fIDs[(i+r.Intn(3))%len(c17fIDs)],
			Via: []string{"put", "post", "create", "bulk"}[i%4], Doc: c17fDoc(r), Others: []int{0, 0, 1, 3, 7}[r.Intn(5)]})
	case "contact":
		p := c17fParams{Name: "fxc" + strconv.Itoa(r.Intn(1000)), Emails: c17fMailList(r), Emails2: c17fMailList(r), Pager: []string{"", "pd-key"}[r.Intn(2)]}
		for j := 0; j < r.Intn(3); j++ {
			p.Slack = append(p.Slack, "C"+strconv.Itoa(j))
		}
		for j := 0; j < r.Intn(3); j++ {
			p.Webhook = append(p.Webhook, "http://127.0.0.1:1/hook"+strconv.Itoa(j))
		}
		if i%3 == 0 && len(p.Emails) == 0 {
			p.Emails = []string{"0" + c17fMails[r.Intn(len(c17fMails))]}
		}
		return c17fLine(scen, p)
	case "reload":
		return c17fLine(scen, c17fParams{Mode: c17fReloadModes[i%len(c17fReloadModes)], Srv: []string{"q", "i"}[r.Intn(2)]})
	case "otlptrace":
		p := c17fParams{Service: "svc" + strconv.Itoa(r.Intn(5))}
		n := 1 + r.Intn(6)
		for j := 0; j < n; j++ {
			p.Spans = append(p.Spans, c17fSpan{Name: "op" + strconv.Itoa(j), Parent: r.Intn(j+1) - 1})
		}
		return c17fLine(scen, p)
	default: // searchbad
		b := c17fBadBodies[(i+r.Intn(2))%len(c17fBadBodies)]
		if r.Intn(5) == 0 {
			b = mutate(r, b)
		}
		return c17fLine("searchbad", c17fParams{Body: hex.EncodeToString([]byte(b))})
	}
}

func c17fGen(r *rand.Rand, n int, scens []string) []string {
	var out []string
	for i := 0; len(out) < n; i++ {
		if r.Intn(25) == 0 { // malformed share (grammar level)
			out = append(out, []string{"fx", "fx getdoc", "fx nosuch 7b7d", "fx getdoc zz", "fx getdoc 7b7d extra", "fx reload", "fx contact 7b7", "FX getdoc 7b7d"}[r.Intn(8)])
			continue
		}
		out = append(out, c17fGenOne(r, scens[i%len(scens)], i/len(scens)))
	}
	return out
}

// ---------------------------------------------------------------- exec

type c17fRun struct {
	s    *c17aSB
	scen string
	res  *Result
	log  []string // the exchange so far (witness)
}

func (x *c17fRun) fail(what, msg string) {
	x.res.Fails = append(x.res.Fails, PropFail{Sig: "alivefx/" + what, Msg: msg + "; exchange: " + strings.Join(x.log, " | ")})
}

func (x *c17fRun) tag(t string) { x.res.Tags = append(x.res.Tags, t) }

func (x *c17fRun) do(srv, method, path, ctype string, body []byte, hdr ...[2]string) c17aAns {
	port := x.s.qport
	if srv == "i" {
		port = x.s.iport
	}
	var h [][2]string
	if ctype != "" {
		h = append(h, [2]string{"Content-Type", ctype})
	}
	h = append(h, hdr...)
	a := c17aHTTP(port, c17aReqBytes(method, path, h, body), c17aAnswerDeadline)
	shown := strconv.Quote(string(body))
	if ctype == c17aPB {
		shown = fmt.Sprintf("<%d bytes protobuf>", len(body))
	}
	x.log = append(x.log, fmt.Sprintf("%s %s %s -> %d %s%s", method, path, trunc(shown, 300), a.status, trunc(strconv.Quote(string(a.body)), 300), a.err))
	if len(x.log) > 14 {
		x.log = x.log[len(x.log)-14:]
	}
	return a
}

func c17fExec(line string) Result {
	f := strings.Fields(line)
	if len(f) != 3 || f[0] != "fx" || !c17fScenarios[f[1]] || f[2] == "" {
		return Result{Out: "bad-op", Tags: []string{"malformed"}}
	}
	pb, err := hex.DecodeString(f[2])
	if err != nil {
		return Result{Out: "bad-op", Tags: []string{"malformed"}}
	}
	res := Result{Out: "ok", Tags: []string{"fx:" + f[1]}}
	var p c17fParams
	if err := json.Unmarshal(pb, &p); err != nil {
		res.Tags = append(res.Tags, "params-unparsed")
		return res
	}
	c17aInstallExitHook()
	var s *c17aSB
	for try := 0; try < 3; try++ {
		if s, err = c17aNewSBWith("", nil, nil, false); err == nil {
			break
		}
	}
	if err != nil {
		return Result{Out: "boot-failed", Fails: []PropFail{{Sig: "alivefx/boot-failed", Msg: err.Error()}}, Tags: []string{"boot-failed"}}
	}
	defer func() {
		s.kill()
		if os.Getenv("C17A_KEEP") == "" {
			os.RemoveAll(s.root)
		}
	}()
	x := &c17fRun{s: s, scen: f[1], res: &res}
	switch f[1] {
	case "getdoc":
		c17fGetDoc(x, &p)
	case "contact":
		c17fContact(x, &p)
	case "reload":
		c17fReload(x, &p)
	case "otlptrace":
		c17fOtlpTrace(x, &p)
	case "searchbad":
		c17fSearchBad(x, &p)
	}
	time.Sleep(time.Millisecond)
	if s.hasExited() {
		suffix, msg := s.died()
		x.fail(f[1]+"/process-died"+suffix, msg)
		x.tag("died")
	}
	return res
}

// ---------------------------------------------------------------- JSON helpers

func c17fFlatten(prefix string, v interface{}, out map[string]interface{}) {
	if m, ok := v.(map[string]interface{}); ok {
		for k, w := range m {
			p := k
			if prefix != "" {
				p = prefix + "." + k
			}
			c17fFlatten(p, w, out)
		}
		return
	}
	out[prefix] = v
}

func c17fSameScalar(a, b interface{}) bool {
	fa, oka := c17fNum(a)
	fb, okb := c17fNum(b)
	if oka && okb {
		return fa == fb || math.Abs(fa-fb) <= 1e-9*math.Max(math.Abs(fa), math.Abs(fb))
	}
	return fmt.Sprint(a) == fmt.Sprint(b) && oka == okb
}

func c17fNum(v interface{}) (float64, bool) {
	switch t := v.(type) {
	case float64:
		return t, true
	case int:
		return float64(t), true
	case json.Number:
		f, err := t.Float64()
		return f, err == nil
	}
	return 0, false
}

// missing: the fields of want that got does not carry with the same value (both flattened)
func c17fMissing(want map[string]interface{}, got interface{}) []string {
	w, g := map[string]interface{}{}, map[string]interface{}{}
	c17fFlatten("", want, w)
	c17fFlatten("", got, g)
	var bad []string
	for k, v := range w {
		if gv, ok := g[k]; !ok {
			bad = append(bad, k+" absent")
		} else if !c17fSameScalar(v, gv) {
			bad = append(bad, fmt.Sprintf("%s=%v (sent %v)", k, gv, v))
		}
	}
	sort.Strings(bad)
	return bad
}

// ---------------------------------------------------------------- getdoc

func c17fGetDoc(x *c17fRun, p *c17fParams) {
	if p.Idx == "" || p.ID == "" || len(p.Doc) == 0 || p.Others < 0 || p.Others > 50 {
		x.tag("params-incomplete")
		return
	}
	doc, _ := json.Marshal(p.Doc)
	if p.Others > 0 {
		var b bytes.Buffer
		for i := 0; i < p.Others; i++ {
			fmt.Fprintf(&b, "{\"index\":{\"_index\":%q,\"_id\":\"other-%d\"}}\n{\"other\":%d}\n", p.Idx, i, i)
		}
		x.do("i", "POST", "/elastic/_bulk", c17aJ, b.Bytes())
	}
	idp := url.PathEscape(p.ID)
	var a c17aAns
	acked := false
	switch p.Via {
	case "post":
		a = x.do("i", "POST", "/elastic/"+p.Idx+"/_doc/"+idp, c17aJ, doc)
		acked = a.status/100 == 2
	case "create":
		a = x.do("i", "PUT", "/elastic/"+p.Idx+"/_create/"+idp, c17aJ, doc)
		acked = a.status/100 == 2
	case "bulk":
		idj, _ := json.Marshal(p.ID)
		a = x.do("i", "POST", "/elastic/_bulk", c17aJ, []byte(fmt.Sprintf("{\"index\":{\"_index\":%q,\"_id\":%s}}\n%s\n", p.Idx, idj, doc)))
		acked = a.status/100 == 2 && bytes.Contains(a.body, []byte(`"status":201`)) && bytes.Contains(a.body, []byte(`"errors":false`))
	default:
		a = x.do("i", "PUT", "/elastic/"+p.Idx+"/_doc/"+idp, c17aJ, doc)
		acked = a.status/100 == 2
	}
	x.tag("via:" + p.Via)
	if !acked {
		x.tag("store-refused") // nothing was promised
		return
	}
	if err := x.s.flush(); err != nil {
		x.tag("flush-failed")
		return
	}
	x.res.Nontrivial = true
	// by id (the _id of a BULK action is not kept by the store — only the single-document routes store it —, so
	// nothing is asked of GET by id for such a document; the search below judges it)
	if p.Via != "bulk" {
		c17fGetByID(x, p, idp)
	}
	c17fSearchAll(x, p)
}

func c17fGetByID(x *c17fRun, p *c17fParams, idp string) {
	g := x.do("q", "GET", "/elastic/"+p.Idx+"/_doc/"+idp, "", nil)
	var gr struct {
		Found  bool                   `json:"found"`
		Source map[string]interface{} `json:"_source"`
	}
	if g.status/100 == 2 && json.Unmarshal(g.body, &gr) == nil {
		if !gr.Found {
			x.fail("es-get-by-id/acknowledged-document-not-found", fmt.Sprintf("document %q of index %s was acknowledged as created (%s) and flushed, GET by id answers found=false", p.ID, p.Idx, p.Via))
		} else if bad := c17fMissing(p.Doc, gr.Source); len(bad) > 0 {
			x.fail("es-get-by-id/source-differs", fmt.Sprintf("document %q of index %s comes back with other fields than were sent: %s", p.ID, p.Idx, strings.Join(bad, ", ")))
		} else {
			x.tag("get:found")
		}
	} else if g.status/100 == 2 {
		x.fail("es-get-by-id/acknowledged-document-not-found", fmt.Sprintf("GET by id of the acknowledged document %q answers %d with a body that is no document", p.ID, g.status))
	} else {
		x.tag(fmt.Sprintf("get:status-%d", g.status)) // an error is an answer; the search below still judges the store
	}
	// an id that was never stored
	n := x.do("q", "GET", "/elastic/"+p.Idx+"/_doc/"+idp+"-never-stored", "", nil)
	var nr struct {
		Found bool `json:"found"`
	}
	if n.status/100 == 2 && json.Unmarshal(n.body, &nr) == nil && nr.Found {
		x.fail("es-get-by-id/absent-document-found", fmt.Sprintf("GET by id %q-never-stored answers found=true", p.ID))
	}
}

// the search that counts the document returns it
func c17fSearchAll(x *c17fRun, p *c17fParams) {
	sr := x.do("q", "POST", "/elastic/"+p.Idx+"/_search", c17aJ, []byte(`{"query":{"match_all":{}},"size":100}`))
	var so struct {
		Hits struct {
			Total interface{} `json:"total"`
			Hits  []struct {
				Source map[string]interface{} `json:"_source"`
			} `json:"hits"`
		} `json:"hits"`
	}
	if sr.status/100 == 2 && json.Unmarshal(sr.body, &so) == nil {
		total := 0.0
		switch t := so.Hits.Total.(type) {
		case float64:
			total = t
		case map[string]interface{}:
			total, _ = c17fNum(t["value"])
		}
		if total > 0 && len(so.Hits.Hits) == 0 {
			x.fail("es-search/total-without-hits", fmt.Sprintf("match_all over index %s counts %v documents and returns none of them", p.Idx, total))
		} else if len(so.Hits.Hits) > 0 {
			found := false
			for _, h := range so.Hits.Hits {
				if len(c17fMissing(p.Doc, h.Source)) == 0 {
					found = true
				}
			}
			if !found {
				x.fail("es-search/document-missing-from-hits", fmt.Sprintf("match_all over index %s (%d documents, size 100) returns %d hits, none with the fields of the acknowledged document %q", p.Idx, p.Others+1, len(so.Hits.Hits), p.ID))
			} else {
				x.tag("search:hit")
			}
		}
	}
}

// ---------------------------------------------------------------- contact

type c17fContactRow struct {
	ID    string   `json:"contact_id"`
	Name  string   `json:"contact_name"`
	Email []string `json:"email"`
	Slack []struct {
		Channel string `json:"channel_id"`
		Token   string `json:"slack_token"`
	} `json:"slack"`
	Pager   string `json:"pager_duty"`
	Webhook []struct {
		Webhook string `json:"webhook"`
	} `json:"webhook"`
}

func c17fContactBody(id string, p *c17fParams, emails []string) []byte {
	sl := []map[string]string{}
	for _, c := range p.Slack {
		sl = append(sl, map[string]string{"channel_id": c, "slack_token": "tok-" + c})
	}
	wh := []map[string]string{}
	for _, w := range p.Webhook {
		wh = append(wh, map[string]string{"webhook": w})
	}
	m := map[string]interface{}{"contact_name": p.Name, "email": emails, "slack": sl, "webhook": wh, "pager_duty": p.Pager}
	if id != "" {
		m["contact_id"] = id
	}
	b, _ := json.Marshal(m)
	return b
}

func (x *c17fRun) contacts(when string) (map[string]c17fContactRow, bool) {
	a := x.do("q", "GET", "/api/alerts/allContacts", "", nil)
	var l struct {
		Contacts []c17fContactRow `json:"contacts"`
	}
	if a.status != 200 || json.Unmarshal(a.body, &l) != nil {
		x.fail("contact/listing-fails-"+when, fmt.Sprintf("GET /api/alerts/allContacts answers %d %s %s", a.status, trunc(string(a.body), 300), when))
		return nil, false
	}
	m := map[string]c17fContactRow{}
	for _, c := range l.Contacts {
		m[c.Name] = c
	}
	return m, true
}

func c17fSameList(a, b []string) bool {
	return strings.Join(a, "\x00") == strings.Join(b, "\x00") && len(a) == len(b)
}

func (x *c17fRun) contactIs(row c17fContactRow, p *c17fParams, emails []string, when string) {
	var sl, wh []string
	for _, c := range row.Slack {
		sl = append(sl, c.Channel)
	}
	for _, w := range row.Webhook {
		wh = append(wh, w.Webhook)
	}
	sort.Strings(sl)
	sort.Strings(wh)
	wsl, wwh := append([]string{}, p.Slack...), append([]string{}, p.Webhook...)
	sort.Strings(wsl)
	sort.Strings(wwh)
	var bad []string
	if !c17fSameList(row.Email, emails) {
		bad = append(bad, fmt.Sprintf("email %q (written %q)", row.Email, emails))
	}
	if !c17fSameList(sl, wsl) {
		bad = append(bad, fmt.Sprintf("slack %q (written %q)", sl, wsl))
	}
	if !c17fSameList(wh, wwh) {
		bad = append(bad, fmt.Sprintf("webhook %q (written %q)", wh, wwh))
	}
	if row.Pager != p.Pager {
		bad = append(bad, fmt.Sprintf("pager_duty %q (written %q)", row.Pager, p.Pager))
	}
	if len(bad) > 0 {
		x.fail("contact/read-back-differs", fmt.Sprintf("contact %q is listed %s with %s", p.Name, when, strings.Join(bad, ", ")))
	}
}

func c17fContact(x *c17fRun, p *c17fParams) {
	if p.Name == "" || p.Name == "fx-before" {
		x.tag("params-incomplete")
		return
	}
	b := x.do("q", "POST", "/api/alerts/createContact", c17aJ, []byte(`{"contact_name":"fx-before","slack":[{"channel_id":"B","slack_token":"t"}]}`))
	if b.status != 200 {
		x.tag("baseline-refused")
		return
	}
	x.res.Nontrivial = true
	x.tag(fmt.Sprintf("emails:%d", len(p.Emails)))
	c := x.do("q", "POST", "/api/alerts/createContact", c17aJ, c17fContactBody("", p, p.Emails))
	created := c.status == 200
	if !created {
		x.fail("contact/valid-contact-refused", fmt.Sprintf("a new contact %q with %d e-mail address(es), %d Slack channel(s), %d webhook(s) is refused: %d %s", p.Name, len(p.Emails), len(p.Slack), len(p.Webhook), c.status, trunc(string(c.body), 300)))
	}
	m, ok := x.contacts("after-create")
	if !ok {
		return
	}
	if _, ok := m["fx-before"]; !ok {
		x.fail("contact/read-back-differs", "the contact fx-before, created before, is not listed any more after the creation of "+p.Name)
	}
	if !created {
		return
	}
	row, ok := m[p.Name]
	if !ok {
		x.fail("contact/read-back-differs", fmt.Sprintf("contact %q was acknowledged as created and is not listed", p.Name))
		return
	}
	x.contactIs(row, p, p.Emails, "after its creation")
	// update: another list of addresses
	u := x.do("q", "POST", "/api/alerts/updateContact", c17aJ, c17fContactBody(row.ID, p, p.Emails2))
	if u.status != 200 {
		x.fail("contact/valid-contact-refused", fmt.Sprintf("the update of contact %q to %d e-mail address(es) is refused: %d %s", p.Name, len(p.Emails2), u.status, trunc(string(u.body), 300)))
		return
	}
	m, ok = x.contacts("after-update")
	if !ok {
		return
	}
	if row, ok = m[p.Name]; !ok {
		x.fail("contact/read-back-differs", fmt.Sprintf("contact %q is not listed after its update", p.Name))
		return
	}
	x.contactIs(row, p, p.Emails2, "after its update")
}

// ---------------------------------------------------------------- reload

func (x *c17fRun) config(srv string) (map[string]interface{}, bool) {
	path := "/api/config"
	if srv == "i" {
		path = "/config"
	}
	a := x.do(srv, "GET", path, "", nil)
	var m map[string]interface{}
	if a.status != 200 || json.Unmarshal(a.body, &m) != nil || len(m) == 0 {
		return nil, false
	}
	return m, true
}

func c17fReload(x *c17fRun, p *c17fParams) {
	if p.Srv != "i" && p.Srv != "q" {
		x.tag("params-incomplete")
		return
	}
	file := filepath.Join(x.s.inst, "server.yaml")
	orig, err := os.ReadFile(file)
	before, ok := x.config(p.Srv)
	if err != nil || !ok {
		x.tag("no-config-before")
		return
	}
	mustFail := true
	switch p.Mode {
	case "missing":
		err = os.Rename(file, file+".away")
	case "directory": // reading it fails (EISDIR), stat succeeds
		if err = os.Rename(file, file+".away"); err == nil {
			err = os.Mkdir(file, 0o755)
		}
	case "badyaml":
		err = os.WriteFile(file, []byte("ingestPort: [\n\t: : :\n"), 0o644)
	case "changed":
		mustFail = false
		err = os.WriteFile(file, []byte(strings.Replace(string(orig), "queryTimeoutSecs: 20", "queryTimeoutSecs: 77", 1)), 0o644)
	case "same", "empty": // (an empty file is a valid YAML document: the defaults)
		mustFail = false
		if p.Mode == "empty" {
			err = os.WriteFile(file, nil, 0o644)
		}
	default:
		x.tag("params-incomplete")
		return
	}
	if err != nil {
		x.tag("file-not-arranged")
		return
	}
	x.res.Nontrivial = true
	x.tag("reload:" + p.Mode)
	x.log = append(x.log, "(config file: "+p.Mode+")")
	path := "/api/config/reload"
	if p.Srv == "i" {
		path = "/config/reload"
	}
	a := x.do(p.Srv, "POST", path, c17aJ, []byte(`{}`))
	after, ok := x.config(p.Srv)
	if !ok {
		x.fail("config-reload/config-unreadable-after-reload", "GET of the running config fails after the reload request")
		return
	}
	bj, _ := json.Marshal(before)
	aj, _ := json.Marshal(after)
	if mustFail {
		if !bytes.Equal(bj, aj) {
			var diff []string
			for k, v := range before {
				if fmt.Sprint(v) != fmt.Sprint(after[k]) {
					diff = append(diff, fmt.Sprintf("%s: %v -> %v", k, v, after[k]))
				}
			}
			sort.Strings(diff)
			x.fail("config-reload/unreadable-file-resets-running-config", fmt.Sprintf("the config file cannot be read (%s); the reload request (answered %d) changed the running config: %s", p.Mode, a.status, trunc(strings.Join(diff, "; "), 600)))
		}
		if a.status/100 == 2 {
			x.fail("config-reload/failure-answered-as-success", fmt.Sprintf("the config file cannot be read (%s) and the reload request is answered %d %s", p.Mode, a.status, trunc(strconv.Quote(string(a.body)), 120)))
		}
		return
	}
	if a.status/100 != 2 {
		x.tag("reload-refused")
		return
	}
	if p.Mode == "changed" {
		if v, _ := c17fNum(after["QueryTimeoutSecs"]); v != 77 {
			x.fail("config-reload/valid-file-not-applied", fmt.Sprintf("the reload of a readable config file with queryTimeoutSecs: 77 is answered %d, the running config says QueryTimeoutSecs=%v", a.status, after["QueryTimeoutSecs"]))
		}
	}
}

// ---------------------------------------------------------------- otlptrace

func c17fOtlpTrace(x *c17fRun, p *c17fParams) {
	if len(p.Spans) == 0 || len(p.Spans) > 200 || p.Service == "" {
		x.tag("params-incomplete")
		return
	}
	now := uint64(time.Now().Add(-30 * time.Second).UnixNano())
	tid := bytes.Repeat([]byte{0xf1}, 16)
	ids := make([][]byte, len(p.Spans))
	want := map[string]int{}
	var spans []*tracepb.Span
	for i, sp := range p.Spans {
		ids[i] = []byte{0xf0, 0, 0, 0, 0, 0, byte(i >> 8), byte(i)}
		want[hex.EncodeToString(ids[i])] = 0
		s := &tracepb.Span{TraceId: tid, SpanId: ids[i], Name: sp.Name, Kind: tracepb.Span_SPAN_KIND_SERVER,
			StartTimeUnixNano: now + uint64(i)*1000, EndTimeUnixNano: now + uint64(i)*1000 + 5e6,
			Attributes: []*commonpb.KeyValue{c17aStrAttr("http.method", "GET")}, Status: &tracepb.Status{Code: tracepb.Status_STATUS_CODE_OK}}
		if sp.Parent >= 0 && sp.Parent < i {
			s.ParentSpanId = ids[sp.Parent]
		}
		spans = append(spans, s)
	}
	req := &coltracepb.ExportTraceServiceRequest{ResourceSpans: []*tracepb.ResourceSpans{{
		Resource:   &resourcepb.Resource{Attributes: []*commonpb.KeyValue{c17aStrAttr("service.name", p.Service)}},
		ScopeSpans: []*tracepb.ScopeSpans{{Scope: &commonpb.InstrumentationScope{Name: "fx"}, Spans: spans}}}}}
	body, _ := gproto.Marshal(req)
	a := x.do("i", "POST", "/otlp/v1/traces", c17aPB, body)
	if a.status != 200 {
		x.tag("ingest-refused")
		return
	}
	if err := x.s.flush(); err != nil {
		x.tag("flush-failed")
		return
	}
	x.res.Nontrivial = true
	x.tag(fmt.Sprintf("spans:%d", len(p.Spans)))
	sr := x.do("q", "POST", "/api/search", c17aJ, []byte(`{"searchText":"*","indexName":"traces","startEpoch":"now-1h","endEpoch":"now","queryLanguage":"Splunk QL","size":1000}`))
	var so struct {
		Hits struct {
			Records []map[string]interface{} `json:"records"`
		} `json:"hits"`
	}
	if sr.status != 200 || json.Unmarshal(sr.body, &so) != nil {
		x.fail("otlp-traces/acknowledged-spans-not-searchable", fmt.Sprintf("%d spans were acknowledged by POST /otlp/v1/traces and flushed; the search of index traces answers %d %s", len(p.Spans), sr.status, trunc(string(sr.body), 200)))
		return
	}
	for _, r := range so.Hits.Records {
		if id, ok := r["span_id"].(string); ok {
			if _, mine := want[id]; mine {
				want[id]++
			}
		}
	}
	var missing, twice []string
	for id, n := range want {
		if n == 0 {
			missing = append(missing, id)
		} else if n > 1 {
			twice = append(twice, id)
		}
	}
	sort.Strings(missing)
	sort.Strings(twice)
	if len(missing) > 0 {
		x.fail("otlp-traces/acknowledged-spans-not-searchable", fmt.Sprintf("%d of %d spans acknowledged by POST /otlp/v1/traces on a fresh server are not returned by the search of index traces after the flush (%d records returned): %s", len(missing), len(p.Spans), len(so.Hits.Records), trunc(strings.Join(missing, ","), 200)))
	}
	if len(twice) > 0 {
		x.fail("otlp-traces/span-returned-twice", fmt.Sprintf("spans returned more than once by the search of index traces: %s", trunc(strings.Join(twice, ","), 200)))
	}
}

// ---------------------------------------------------------------- searchbad

func c17fSearchBad(x *c17fRun, p *c17fParams) {
	body, err := hex.DecodeString(p.Body)
	if err != nil {
		x.tag("params-incomplete")
		return
	}
	// something a search that runs after all would return
	x.do("i", "POST", "/elastic/_bulk", c17aJ, []byte("{\"index\":{\"_index\":\"fxidx\"}}\n{\"x\":1}\n"))
	if err := x.s.flush(); err != nil {
		x.tag("flush-failed")
		return
	}
	var probe interface{}
	isObject := false
	if json.Unmarshal(body, &probe) == nil {
		_, isObject = probe.(map[string]interface{})
	}
	x.res.Nontrivial = !isObject
	a := x.do("q", "POST", "/api/search", c17aJ, body)
	if a.err != "" {
		return // suite alive judges answers that do not arrive
	}
	x.tag(fmt.Sprintf("status:%dxx", a.status/100))
	hasResults := bytes.Contains(a.body, []byte(`"totalMatched"`)) || bytes.Contains(a.body, []byte(`"records"`))
	if a.status/100 == 2 {
		if !json.Valid(bytes.TrimSpace(a.body)) && len(bytes.TrimSpace(a.body)) > 0 {
			x.fail("search/error-and-results-in-one-answer", fmt.Sprintf("POST /api/search with the body %s is answered %d with a body that is not one JSON value: %s", trunc(strconv.Quote(string(body)), 200), a.status, trunc(strconv.Quote(string(a.body)), 300)))
		}
	} else if hasResults {
		x.fail("search/error-and-results-in-one-answer", fmt.Sprintf("POST /api/search with the body %s is answered with the error status %d AND search results: %s", trunc(strconv.Quote(string(body)), 200), a.status, trunc(strconv.Quote(string(a.body)), 300)))
	}
}
