package main

// Property C11 — suite "conc", op `c11f`: CONCURRENT FLUSHES OF DIFFERENT SEGSTORES, replayed step by step.
//
//	c11f <n> <tok> …        tok ::= <j> (0 ≤ j < n: next step of the flush of store j) | "/" (end of the round)
//
// n stores (2..8).  Store j < 5 is the stream `vfs<j>` of its own index `c11fi<j>`; stores 5, 6, 7 are SECOND streams
// (`vfs5`…) of the indexes of stores 0, 1, 2 (several segstores of one index).  The schedule is cut into rounds by
// "/" (at most 4; the end of the line ends the last round).  In round r every store first receives 1 + (j+r) mod 3
// events with the timestamps base + j·1 000 000 + r·1000 + e (every store has its own time window), without a flush.
// Then the stores are flushed by one goroutine each (the real AppendWipToSegfile under the store's own lock, as an
// ingest-triggered flush does it), and the token j lets the flush of store j take its next step:
//
//	not started → started, stopped before the block summary is encoded
//	            → encoded, stopped before the bytes are written to the .bsu file
//	            → written, flush completed
//
// (pause points: harness/cmd/overlaygen/c11f.go; a token for a completed flush does nothing).  At the end of a
// round the flushes are completed one after the other in store order (unstarted ones are started).  After the last
// round every store is rotated and the block summaries of its segment are read back from the .bsu FILE with the
// product's reader (microreader.ReadBlockSummaries).  Answer, equal to the Oracle's (Model/ConcFlush.lean run with
// the work buffer private to each flush):
//
//	bsu=<j>:<lo>-<hi>-<cnt>,…;<j>:…        lo/hi relative to base, blocks in file order
//
// Property statement checked directly (PropFail): every block summary of a segment lies inside the time window of
// the events of ITS store (conc/block-summary-of-another-segment), the .bsu file is readable
// (conc/block-summary-unreadable), and after the rotation a match-all search of the index restricted to the store's
// time window returns exactly the acknowledged events of the store
// (conc/flushed-event-missing-after-rotation, conc/event-returned-twice).

import (
	"encoding/json"
	"fmt"
	"math/rand"
	"os"
	"sort"
	"strconv"
	"strings"
	"sync"
	"time"

	"github.com/siglens/siglens/pkg/ast/pipesearch"
	"github.com/siglens/siglens/pkg/config"
	eswriter "github.com/siglens/siglens/pkg/es/writer"
	"github.com/siglens/siglens/pkg/segment/reader/microreader"
	"github.com/siglens/siglens/pkg/segment/structs"
	"github.com/siglens/siglens/pkg/segment/writer"
)

const c11fBase = uint64(1_700_000_000_000)
const c11fWindow = 1_000_000

type c11fOp struct {
	n      int
	rounds [][]int
}

func c11fParse(line string) (c11fOp, bool) {
	f := strings.Fields(line)
	var op c11fOp
	if len(f) < 2 || len(f) > 70 || f[0] != "c11f" {
		return op, false
	}
	n, ok := c11Num(f[1])
	if !ok || n < 2 || n > 8 {
		return op, false
	}
	op.n = n
	cur := []int{}
	for _, t := range f[2:] {
		if t == "/" {
			op.rounds = append(op.rounds, cur)
			cur = []int{}
			continue
		}
		j, ok := c11Num(t)
		if !ok || j >= n {
			return op, false
		}
		cur = append(cur, j)
	}
	op.rounds = append(op.rounds, cur)
	if len(op.rounds) > 4 {
		return op, false
	}
	return op, true
}

func c11fIndex(j int) string {
	if j >= 5 {
		return fmt.Sprintf("c11fi%d", j-5)
	}
	return fmt.Sprintf("c11fi%d", j)
}

func c11fStream(j int) string { return fmt.Sprintf("vfs%d", j) }

func c11fCount(j, r int) int { return 1 + (j+r)%3 }

type c11fStore struct {
	j      int
	segkey string
	pc     int // 0 not started, 1 before encode, 2 before write, 3 done
	ev     chan string
	resume chan struct{}
	fin    chan error
	vids   []int
}

func c11fReplay(line string) {
	op, ok := c11fParse(line)
	if !ok {
		fmt.Println("bad-op")
		return
	}
	if !writer.VerifC11FInstrumented {
		fmt.Println("not-instrumented: " + writer.VerifC11FProblem)
		return
	}
	dir := bootEngine()
	defer os.RemoveAll(dir)
	var fails []PropFail
	failSeen := map[string]bool{}
	fail := func(sig, msg string) {
		if !failSeen[sig] {
			failSeen[sig] = true
			fails = append(fails, PropFail{Sig: sig, Msg: msg})
		}
	}
	finish := func(out string) {
		fmt.Println(out)
		for _, f := range fails {
			b, _ := json.Marshal(f)
			fmt.Println("FAIL " + string(b))
		}
	}
	stores := make([]*c11fStore, op.n)
	var byKey sync.Map
	for j := range stores {
		stores[j] = &c11fStore{j: j, ev: make(chan string, 4), resume: make(chan struct{}), fin: make(chan error, 1)}
	}
	writer.VerifC11FPause = func(point string, segkey string) {
		v, ok := byKey.Load(segkey)
		if !ok {
			return
		}
		s := v.(*c11fStore)
		s.ev <- point
		<-s.resume
	}
	stall := func(what string) {
		finish("worker-stall " + what)
		os.Exit(0)
	}
	// one step of the flush of store s
	advance := func(s *c11fStore) {
		switch s.pc {
		case 0:
			go func() { s.fin <- writer.VerifC11FFlushStream(c11fStream(s.j)) }()
		case 1, 2:
			s.resume <- struct{}{}
		default:
			return
		}
		select {
		case <-s.ev:
			s.pc++
		case err := <-s.fin:
			if err != nil {
				fail("conc/flush-error", fmt.Sprintf("flush of store %d: %v", s.j, err))
			}
			s.pc = 3
		case <-time.After(20 * time.Second):
			stall(fmt.Sprintf("store %d after step %d", s.j, s.pc))
		}
	}
	tsKey := config.GetTimeStampKey()
	nextVid := 1
	var stack [64]byte
	for r, toks := range op.rounds {
		for _, s := range stores {
			var ples []*writer.ParsedLogEvent
			for e := 0; e < c11fCount(s.j, r); e++ {
				ts := c11fBase + uint64(s.j*c11fWindow+r*1000+e)
				raw := []byte(fmt.Sprintf(`{"_vid":%d,"s":%d,"m":"e%d","%s":%d}`, nextVid, s.j, nextVid, tsKey, ts))
				ple, err := writer.GetNewPLE(raw, ts, c11fIndex(s.j), &tsKey, stack[:])
				if err != nil {
					panic(err)
				}
				ples = append(ples, ple)
				s.vids = append(s.vids, nextVid)
				nextVid++
			}
			ix := c11fIndex(s.j)
			err := eswriter.ProcessIndexRequestPle(c11fBase, ix, false, map[string]string{}, 0, 0, map[string]string{ix: c11fStream(s.j)}, map[uint64]string{}, stack[:], ples)
			writer.ReleasePLEs(ples)
			if err != nil {
				panic(err)
			}
			key, ok := writer.VerifC11FSegKey(c11fStream(s.j))
			if !ok {
				panic("no store after ingest")
			}
			if s.segkey != "" && s.segkey != key {
				panic("segment key of an unrotated store changed: " + s.segkey + " → " + key)
			}
			s.segkey = key
			byKey.Store(key, s)
			s.pc = 0
		}
		for _, j := range toks {
			advance(stores[j])
		}
		for _, s := range stores {
			for s.pc < 3 {
				advance(s)
			}
		}
	}
	writer.VerifC11FPause = nil
	for _, s := range stores {
		if err := writer.VerifC11FRotateStream(c11fStream(s.j)); err != nil {
			fail("conc/rotation-error", fmt.Sprintf("rotation of store %d: %v", s.j, err))
		}
	}
	var parts []string
	for _, s := range stores {
		sums, _, err := microreader.ReadBlockSummaries(structs.GetBsuFnameFromSegKey(s.segkey), true)
		if err != nil {
			parts = append(parts, fmt.Sprintf("%d:unreadable", s.j))
			fail("conc/block-summary-unreadable", fmt.Sprintf("%s: the block summary file of store %d (index %s, stream %s) cannot be read after the rotation: %v", line, s.j, c11fIndex(s.j), c11fStream(s.j), err))
			continue
		}
		lo0 := c11fBase + uint64(s.j*c11fWindow)
		var l []string
		for b, bs := range sums {
			if bs.LowTs < lo0 || bs.HighTs >= lo0+c11fWindow || bs.LowTs > bs.HighTs {
				fail("conc/block-summary-of-another-segment", fmt.Sprintf("%s: block %d of the segment of store %d (index %s, stream %s) carries the time range [%d, %d] (relative to base: [%d, %d]) and %d records, the events of this store lie in [%d, %d): the summary of another store's block was written to this segment's .bsu file",
					line, b, s.j, c11fIndex(s.j), c11fStream(s.j), bs.LowTs, bs.HighTs, int64(bs.LowTs)-int64(c11fBase), int64(bs.HighTs)-int64(c11fBase), bs.RecCount, lo0, lo0+c11fWindow))
			}
			l = append(l, fmt.Sprintf("%d-%d-%d", int64(bs.LowTs)-int64(c11fBase), int64(bs.HighTs)-int64(c11fBase), bs.RecCount))
		}
		parts = append(parts, fmt.Sprintf("%d:%s", s.j, strings.Join(l, ",")))
	}
	// the property on the search path: per store, a match-all search of its index restricted to its time window
	for _, s := range stores {
		lo0 := c11fBase + uint64(s.j*c11fWindow)
		body := map[string]interface{}{
			"searchText": "*", "startEpoch": float64(lo0), "endEpoch": float64(lo0 + c11fWindow - 1),
			"indexName": c11fIndex(s.j), "queryLanguage": "Splunk QL", "size": float64(1000), "from": float64(0),
		}
		resp, _, _, err := pipesearch.ParseAndExecutePipeRequest(body, uint64(7000+s.j), 0, time.Now(), "", nil)
		if err != nil || resp == nil {
			fail("conc/query-error", fmt.Sprintf("%s: search of store %d after rotation: %v", line, s.j, err))
			continue
		}
		seen := map[int]int{}
		for _, h := range resp.Hits.Hits {
			switch v := h["_vid"].(type) {
			case float64:
				seen[int(v)]++
			case int64:
				seen[int(v)]++
			case uint64:
				seen[int(v)]++
			case json.Number:
				n, _ := v.Int64()
				seen[int(n)]++
			}
		}
		missing, twice := 0, 0
		for _, v := range s.vids {
			if seen[v] == 0 {
				missing++
			}
			if seen[v] > 1 {
				twice++
			}
		}
		if missing > 0 {
			fail("conc/flushed-event-missing-after-rotation", fmt.Sprintf("%s: after the rotation a match-all search of index %s over the time window of store %d finds %d of its %d acknowledged and flushed events (errors: %v)", line, c11fIndex(s.j), s.j, len(s.vids)-missing, len(s.vids), resp.Errors))
		}
		if twice > 0 {
			fail("conc/event-returned-twice", fmt.Sprintf("%s: after the rotation %d events of store %d are returned more than once", line, twice, s.j))
		}
	}
	finish("bsu=" + strings.Join(parts, ";"))
}

func c11fExec(line string) Result {
	op, ok := c11fParse(strings.TrimSpace(line))
	if !ok {
		return Result{Out: "bad-op", Tags: []string{"malformed"}}
	}
	out, stderr, err, timedOut := c11SpawnWorker([]string{"c11worker", "x"}, strings.TrimSpace(line)+"\n", []string{"GOMEMLIMIT=2GiB", "GOMAXPROCS=4"}, 150*time.Second)
	if timedOut {
		return Result{Out: "worker-timeout", Fails: []PropFail{{Sig: "conc-replay/worker-timeout", Msg: "replay worker did not finish within 150 s"}}, Nontrivial: true}
	}
	res := Result{Nontrivial: true, Tags: []string{"flush-of-several-stores", fmt.Sprintf("flush-stores=%d", op.n)}}
	// distribution: does the schedule put two stores between "encoded" and "written" at the same time?
	overlap := false
	for _, toks := range op.rounds {
		pc := make([]int, op.n)
		for _, j := range toks {
			if pc[j] < 3 {
				pc[j]++
			}
			between := 0
			for _, p := range pc {
				if p == 2 {
					between++
				}
			}
			if between >= 2 {
				overlap = true
			}
		}
	}
	if overlap {
		res.Tags = append(res.Tags, "two-stores-between-encode-and-write")
	}
	if op.n > 5 {
		res.Tags = append(res.Tags, "two-streams-of-one-index")
	}
	if len(op.rounds) > 1 {
		res.Tags = append(res.Tags, "several-blocks-per-store")
	}
	first := ""
	for _, l := range strings.Split(strings.TrimSpace(out), "\n") {
		if strings.HasPrefix(l, "FAIL ") {
			var pf PropFail
			if json.Unmarshal([]byte(l[5:]), &pf) == nil {
				res.Fails = append(res.Fails, pf)
			}
		} else if first == "" && (strings.HasPrefix(l, "bsu=") || strings.HasPrefix(l, "worker-stall") || strings.HasPrefix(l, "not-instrumented") || l == "bad-op") {
			first = l
		}
	}
	if first == "" {
		first = "worker-crash"
		msg := ""
		if err != nil {
			msg = err.Error()
		}
		res.Fails = append(res.Fails, PropFail{Sig: "conc/crash@" + c11CrashFrame(stderr), Msg: "flush replay worker died: " + msg + " " + trunc(stderr, 600)})
	}
	if strings.HasPrefix(first, "worker-stall") {
		res.Fails = append(res.Fails, PropFail{Sig: "conc-replay/stall", Msg: line + ": a scheduled flush step did not complete (" + first + "): flushes of different stores wait for each other"})
	}
	res.Out = first
	if len(res.Fails) > 0 {
		res.Tags = append(res.Tags, "propfail")
	}
	return res
}

// schedules that matter, always first: two / three stores between "encoded" and "written", the first one writes last
var c11fFixed = []string{
	"c11f 2 0 0 1 1 0 1",
	"c11f 4 0 1 2 3 0 1 2 3 3 2 1 0 / 3 3 0 0 3 0",
	"c11f 6 0 0 5 5 5 0 / 1 1 2 2 1 2",
	"c11f 8 7 7 6 6 5 5 4 4 3 3 2 2 1 1 0 0 0 1 2 3 4 5 6 7",
}

func c11fGenLine(r *rand.Rand, tier string) string {
	n := 2 + r.Intn(7)
	if r.Intn(3) == 0 {
		n = 4 + r.Intn(5) // N ≥ 4 stores often
	}
	rounds := 1 + r.Intn(3)
	var toks []string
	for k := 0; k < rounds; k++ {
		if k > 0 {
			toks = append(toks, "/")
		}
		// pick 2..min(n,4) stores that overlap in this round: all of them are taken to "encoded" (2 steps each, shuffled),
		// then written in a random order; a few stray tokens in between
		m := 2 + r.Intn(3)
		if m > n {
			m = n
		}
		perm := r.Perm(n)[:m]
		if n > 5 && r.Intn(2) == 0 {
			// two streams of ONE index among the overlapping flushes
			j := r.Intn(n - 5)
			perm[0], perm[1] = j, j+5
			for i := 2; i < len(perm); i++ {
				if perm[i] == j || perm[i] == j+5 {
					perm = append(perm[:i], perm[i+1:]...)
					i--
				}
			}
		}
		var pre []int
		for _, j := range perm {
			pre = append(pre, j, j)
		}
		r.Shuffle(len(pre), func(a, b int) { pre[a], pre[b] = pre[b], pre[a] })
		for _, j := range pre {
			toks = append(toks, strconv.Itoa(j))
		}
		if r.Intn(3) == 0 {
			toks = append(toks, strconv.Itoa(r.Intn(n)))
		}
		wr := append([]int{}, perm...)
		sort.Ints(wr)
		if r.Intn(2) == 0 {
			r.Shuffle(len(wr), func(a, b int) { wr[a], wr[b] = wr[b], wr[a] })
		}
		for _, j := range wr {
			if r.Intn(4) > 0 {
				toks = append(toks, strconv.Itoa(j))
			}
		}
	}
	if len(toks) > 60 {
		toks = toks[:60]
	}
	return fmt.Sprintf("c11f %d %s", n, strings.Join(toks, " "))
}
