package main

// suite "tlvseg" (C01 kernel, segments of several blocks): one or two log columns over a segment of 1..8 blocks
// through the REAL writer and the REAL reader.  Op line (answer format: lean/Oracle/C01Seg.lean):
//
//	tlvseg w <limit> <col> [<col>]      col ::= block/block/...   block ::= v,v,...   v ::= s<hex>|b0|b1|i<n>|f<hex16>|z|-
//
// Real code driven per line: a fresh SegStore made the way createSegStore makes it (NewSegStore, initWipBlock,
// resetSegStore: real suffix file, real segment directory), per block one SegStore.AddEntry call with one
// ParsedLogEvent per event (parseSingleString/Bool/Null/Number → doLogEventFilling → initAndBackFillColumn,
// backFillPastRecords, checkAddDictEnc, updateColValueSizeInAllSeenColumns, RecordCount++), then the real block
// flush SegStore.AppendWipToSegfile (marking + consolidateColumnTypes, writeWip per column, flushBlockSummary,
// resetWipBlock: the WIP block resets while AllSeenColumnSizes / RecordCount persist); the flush of the last block
// is called with forceRotate, so checkAndRotateColFiles writes the segment's SegMeta.  The record length the
// segment ADVERTISES is taken from that SegMeta (ColumnNames[col].ConsistentCvalSize, handed to the
// AfterSegmentRotation hook), the block bytes from the segment's .csg files through the real block-summary reader
// (microreader.ReadBlockSummaries on the .bsu file) and the real SegmentFileReader (ValidateAndReadBlock →
// loadBlockUsingBuffer → unpackRawCsg / ReadDictEnc).
// Property check, independent of the model: with ONE SegmentFileReader per column, given the advertised length as
// the query path gives it, every block is loaded in turn and every record is sought (forward, then backward, then
// zig-zag) with ReadRecord and decoded with GetCvalFromRec; it must be the value of that event.

import (
	"encoding/hex"
	"fmt"
	"math/rand"
	"os"
	"path/filepath"
	"sort"
	"strconv"
	"strings"
	"sync"

	"github.com/cespare/xxhash"
	"github.com/siglens/siglens/pkg/config"
	"github.com/siglens/siglens/pkg/hooks"
	"github.com/siglens/siglens/pkg/segment/memory/limit"
	"github.com/siglens/siglens/pkg/segment/reader/microreader"
	"github.com/siglens/siglens/pkg/segment/reader/segread/segreader"
	"github.com/siglens/siglens/pkg/segment/structs"
	sutils "github.com/siglens/siglens/pkg/segment/utils"
	"github.com/siglens/siglens/pkg/segment/writer"
	serverutils "github.com/siglens/siglens/pkg/server/utils"
	vtable "github.com/siglens/siglens/pkg/virtualtable"
)

func init() {
	register(&Suite{Name: "tlvseg", Gen: genTlvSeg, Exec: execTlvSeg,
		Rule: "segments of 1..5 (rarely 8) blocks of 1..6 (rarely ~40) events, one or two columns, through the real SegStore (AddEntry per block, AppendWipToSegfile per block, rotation at the end); per column and block one of: present in every event, appearing late in the block, disappearing after some events, absent from the whole block, sparse; value profiles: int64 only (all records 9 bytes), int64 + 6-byte strings (9 bytes, consolidated when they meet in a block), strings of different lengths, bools and nulls, floats + ints, anything; cardinality limits 1, 2, 3, 501 and random (dictionary vs columnar blocks); compared with the model: advertised record length per column, per block encoding / rewritten flag / column bytes; property check reads every record of every block back with the advertised length; non-trivial = at least 2 blocks"})
}

var tsegOnce sync.Once
var tsegDir string
var tsegSeq int
var tsegLastMeta *structs.SegMeta

func tsegInit() {
	tsegOnce.Do(func() {
		d, err := os.MkdirTemp("", "veriftseg")
		if err != nil {
			panic(err)
		}
		tsegDir = d
		exitHooks = append(exitHooks, func() { os.RemoveAll(d) })
		config.InitializeTestingConfig(d + "/")
		limit.InitMemoryLimiter()
		if err := vtable.InitVTable(serverutils.GetMyIds); err != nil {
			panic(err)
		}
		hooks.GlobalHooks.AfterSegmentRotation = func(m interface{}) error {
			if sm, ok := m.(*structs.SegMeta); ok {
				cp := *sm
				tsegLastMeta = &cp
			}
			return nil
		}
	})
}

func tsegTokOK(s string) bool {
	return s == "-" || s == "z" || s == "b0" || s == "b1" || strings.HasPrefix(s, "s") || strings.HasPrefix(s, "i") || strings.HasPrefix(s, "f")
}

// 1..8 blocks of 1..200 values of the suite's class; a column with a float has no string and no bool
func tsegParseCol(s string, lim uint64) ([][]tlvVal, bool) {
	var col [][]tlvVal
	hasF, hasSB, hasI := false, false, false
	for _, bs := range strings.Split(s, "/") {
		var blk []tlvVal
		for _, t := range strings.Split(bs, ",") {
			if !tsegTokOK(t) {
				return nil, false
			}
			v, ok := tlvParseVal(t)
			if !ok {
				return nil, false
			}
			switch v.v.Kind {
			case '-', 'z':
			case 'i':
				hasI = true
			case 'b':
				hasSB = true
			case 'f':
				hasF = true
			case 's':
				hasSB = true
				if !tlvMixOK(v) {
					return nil, false
				}
			default:
				return nil, false
			}
			blk = append(blk, v)
		}
		if len(blk) < 1 || len(blk) > 200 {
			return nil, false
		}
		col = append(col, blk)
	}
	if len(col) < 1 || len(col) > 8 || (hasF && hasSB) {
		return nil, false
	}
	// a limit below the production value only for columns that cannot be consolidated to strings: with a small
	// limit a block can be columnar without any string, writeNonDeBloom then sizes the column's bloom with
	// bloom.NewWithEstimates(0, p) (k = uint(NaN) = 2^63) and the next insertion into it (convertColumnToStrings)
	// never returns. Unreachable with the limit 501: a harness restriction, shared with the oracle (colOk).
	if lim < 501 && hasSB && hasI {
		return nil, false
	}
	return col, true
}

// the latitude the property grants on read-back: a number may come back as its decimal text, a decimal text as
// the number, a bool as the text true / false (type consolidation of a column)
func tsegValueOK(want, got string) bool {
	if got == want {
		return true
	}
	switch {
	case strings.HasPrefix(want, "i:") && strings.HasPrefix(got, "s:"):
		return got == "s:"+hex.EncodeToString([]byte(want[2:]))
	case strings.HasPrefix(want, "s:") && strings.HasPrefix(got, "i:"):
		b, _ := hex.DecodeString(want[2:])
		if i, err := strconv.ParseInt(string(b), 10, 64); err == nil {
			return got == "i:"+strconv.FormatInt(i, 10)
		}
	case want == "b:1":
		return got == "s:"+hex.EncodeToString([]byte("true"))
	case want == "b:0":
		return got == "s:"+hex.EncodeToString([]byte("false"))
	}
	return false
}

func tsegSeekOrder(n int) []uint16 {
	var s []uint16
	for i := 0; i < n; i++ {
		s = append(s, uint16(i))
	}
	for i := n - 1; i >= 0; i-- {
		s = append(s, uint16(i))
	}
	for i := 0; i < n/2; i++ {
		s = append(s, uint16(i), uint16(n-1-i))
	}
	return s
}

func execTlvSeg(line string) Result {
	f := strings.Fields(line)
	if len(f) < 4 || len(f) > 5 || f[0] != "tlvseg" || f[1] != "w" || !isPlainNat(f[2]) {
		return Result{Out: "bad-op"}
	}
	lim, err := strconv.ParseUint(f[2], 10, 32)
	if err != nil || lim == 0 || lim > 65535 || strconv.FormatUint(lim, 10) != f[2] {
		return Result{Out: "bad-op"}
	}
	names := []string{"c", "d"}[:len(f)-3]
	cols := make([][][]tlvVal, len(names))
	for i := range names {
		c, ok := tsegParseCol(f[3+i], lim)
		if !ok {
			return Result{Out: "bad-op"}
		}
		cols[i] = c
	}
	if len(cols) == 2 {
		if len(cols[0]) != len(cols[1]) {
			return Result{Out: "bad-op"}
		}
		for b := range cols[0] {
			if len(cols[0][b]) != len(cols[1][b]) {
				return Result{Out: "bad-op"}
			}
		}
	}
	tsegInit()
	nblocks := len(cols[0])

	saved := writer.VerifCardLimit()
	writer.SetCardinalityLimit(uint16(lim))
	defer writer.SetCardinalityLimit(saved)

	tsegSeq++
	stream := fmt.Sprintf("c01seg-%d", tsegSeq)
	table := "c01seg"
	ss, err := writer.VerifC01SegStore(stream, table, 0)
	if err != nil {
		return Result{Out: "segstore-error:" + err.Error()}
	}
	segkey := ss.SegmentKey
	defer os.RemoveAll(filepath.Dir(segkey))
	tsKey := config.GetTimeStampKey()
	tsegLastMeta = nil

	mixed := make([][]bool, len(names))
	for i := range mixed {
		mixed[i] = make([]bool, nblocks)
	}
	gi := 0
	for b := 0; b < nblocks; b++ {
		n := len(cols[0][b])
		ples := make([]*writer.ParsedLogEvent, 0, n)
		for e := 0; e < n; e++ {
			vv := make([]writer.VerifVal, len(names))
			for i := range names {
				vv[i] = cols[i][b][e].v
			}
			ples = append(ples, writer.VerifC01SegPLE(uint64(1000+gi), names, vv, &tsKey))
			gi++
		}
		if err := ss.AddEntry(stream, table, false, sutils.SIGNAL_EVENTS, 0, 0, nil, nil, ples); err != nil {
			return Result{Out: "fill-error:" + err.Error()}
		}
		if int(ss.VerifC01SegBlockRecs()) != n || int(ss.VerifC01SegNumBlocks()) != b {
			return Result{Out: fmt.Sprintf("block-cut-unexpected:block=%d recs=%d numBlocks=%d", b, ss.VerifC01SegBlockRecs(), ss.VerifC01SegNumBlocks())}
		}
		for i, nm := range names {
			mixed[i][b] = ss.VerifC01SegMixed(nm)
		}
		ss.Lock.Lock()
		err := ss.AppendWipToSegfile(stream, b == nblocks-1, false, false)
		ss.Lock.Unlock()
		if err != nil {
			// the flush of a block must not fail: the events of the block are not served afterwards
			return Result{Out: "flush-error:" + err.Error(), Nontrivial: true, Fails: []PropFail{{Sig: "tlvseg/flush-error",
				Msg: fmt.Sprintf("AppendWipToSegfile failed for block %d (%d events): %v", b, n, err)}}}
		}
	}
	meta := tsegLastMeta
	if meta == nil || meta.SegmentKey != segkey {
		return Result{Out: "no-segmeta-after-rotation"}
	}
	sums, allBmi, err := microreader.ReadBlockSummaries(structs.GetBsuFnameFromSegKey(segkey), false)
	if err != nil {
		return Result{Out: "bsu-error:" + err.Error()}
	}
	// the block summaries as the searchers see them: record counts by position, block numbers with metadata
	var bsuRecs, bmhNums []string
	for _, bs := range sums {
		bsuRecs = append(bsuRecs, strconv.Itoa(int(bs.RecCount)))
	}
	var bn []int
	for k := range allBmi.AllBmh {
		bn = append(bn, int(k))
	}
	sort.Ints(bn)
	for _, k := range bn {
		bmhNums = append(bmhNums, strconv.Itoa(k))
	}
	bsuS := " bsu=[" + strings.Join(bsuRecs, ";") + "] bmh=[" + strings.Join(bmhNums, ";") + "]"
	if len(sums) != nblocks {
		return Result{Out: "bsu-blocks:" + bsuS, Nontrivial: true, Fails: []PropFail{{Sig: "tlvseg/block-summary-count",
			Msg: fmt.Sprintf("%d blocks were flushed, the .bsu file holds %d block summaries:%s", nblocks, len(sums), bsuS)}}}
	}
	allBlocks := map[uint16]struct{}{}
	for b := 0; b < nblocks; b++ {
		allBlocks[uint16(b)] = struct{}{}
	}

	res := Result{Nontrivial: nblocks >= 2}
	tags := map[string]bool{fmt.Sprintf("seg-blocks=%d", nblocks): true, fmt.Sprintf("seg-cols=%d", len(names)): true}
	var outs []string
	for ci, nm := range names {
		sizeS := "none"
		constLen := uint32(0) // the query path looks the column up in a map: 0 when the segment does not list it
		if cs, ok := meta.ColumnNames[nm]; ok && cs != nil {
			sizeS = strconv.FormatUint(uint64(cs.ConsistentCvalSize), 10)
			constLen = cs.ConsistentCvalSize
			if constLen != sutils.INCONSISTENT_CVAL_SIZE {
				tags["seg-consistent-len"] = true
			} else {
				tags["seg-inconsistent-len"] = true
			}
		}
		blkS := make([]string, nblocks)
		fname := fmt.Sprintf("%v_%v.csg", segkey, xxhash.Sum64String(nm))
		fd, err := os.Open(fname)
		if err != nil {
			// the column was never written
			for b := range blkS {
				blkS[b] = "-"
			}
			for b := 0; b < nblocks; b++ {
				for e, v := range cols[ci][b] {
					if v.v.Kind != '-' {
						res.Fails = append(res.Fails, PropFail{Sig: "tlvseg/column-file-missing", Msg: fmt.Sprintf("column %s has a value in block %d event %d but no .csg file", nm, b, e)})
					}
				}
			}
			outs = append(outs, fmt.Sprintf("%s{size=%s blk=[%s]}", nm, sizeS, strings.Join(blkS, ";")))
			continue
		}
		sfr, err := segreader.InitNewSegFileReader(fd, nm, allBlocks, 0, sums, constLen, allBmi)
		if err != nil {
			fd.Close()
			return Result{Out: "reader-error:" + err.Error()}
		}
		broken := false
		for b := 0; b < nblocks; b++ {
			n := len(cols[ci][b])
			if int(sums[b].RecCount) != n {
				res.Fails = append(res.Fails, PropFail{Sig: "tlvseg/block-record-count", Msg: fmt.Sprintf("block %d summary has %d records, %d events were sent", b, sums[b].RecCount, n)})
			}
			present := false
			if idx, ok := allBmi.CnameDict[nm]; ok {
				if bmh := allBmi.AllBmh[uint16(b)]; bmh != nil && idx < len(bmh.ColBlockOffAndLen) && bmh.ColBlockOffAndLen[idx].Length > 0 {
					present = true
				}
			}
			hasVal := false
			late := false
			for e, v := range cols[ci][b] {
				if v.v.Kind != '-' {
					if !hasVal && e > 0 {
						late = true
					}
					hasVal = true
				}
			}
			if late {
				tags["seg-late-column"] = true
			}
			if broken {
				blkS[b] = "?"
				continue
			}
			loaded := func() (s string) {
				defer func() {
					if r := recover(); r != nil {
						s = "panic"
					}
				}()
				if err := sfr.ValidateAndReadBlock(uint16(b)); err != nil {
					return "err:" + tlvErrName(err)
				}
				return ""
			}()
			if loaded != "" {
				blkS[b] = "load-" + loaded
				res.Fails = append(res.Fails, PropFail{Sig: "tlvseg/block-unreadable", Msg: fmt.Sprintf("column %s block %d written by the real writer cannot be loaded: %s", nm, b, loaded)})
				broken = loaded == "panic"
				continue
			}
			if !present {
				blkS[b] = "-"
				tags["seg-absent-block"] = true
				if hasVal {
					res.Fails = append(res.Fails, PropFail{Sig: "tlvseg/column-missing-in-block", Msg: fmt.Sprintf("column %s has a value in block %d but the block has no bytes for it", nm, b)})
				}
				// a block without the column: no record may come back as a value
				_, recs := tlvSeeks(sfr, tsegSeekOrder(n))
				for j, r := range recs {
					if len(r) == 0 {
						continue
					}
					if got, _, _ := tlvDecode(r); got != "z" {
						res.Fails = append(res.Fails, PropFail{Sig: "tlvseg/absent-block-has-data", Msg: fmt.Sprintf("column %s is absent from block %d but seek #%d returned %s", nm, b, j, trunc(hex.EncodeToString(r), 60))})
						break
					}
				}
				continue
			}
			isDict := sfr.VerifEncType() == sutils.ZSTD_DICTIONARY_BLOCK[0]
			var raw []byte
			if !isDict {
				sfr.VerifClipRawBlock()
				raw = sfr.VerifC01SegRawBlock()
				tags["seg-columnar-block"] = true
			} else {
				tags["seg-dict-block"] = true
			}
			seeks := tsegSeekOrder(n)
			listing, recs := tlvSeeks(sfr, seeks)
			if isDict {
				// the column bytes of a dictionary block: the records 0..n-1 as the dictionary gives them back
				for j := 0; j < n && j < len(recs); j++ {
					raw = append(raw, recs[j]...)
				}
			}
			flag := "c"
			if isDict {
				flag = "d"
			}
			if mixed[ci][b] {
				tags["seg-rewritten-block"] = true
				if isDict {
					flag = "md"
				} else {
					flag = "m"
				}
			}
			blkS[b] = flag + ":" + hex.EncodeToString(raw)
			// property: every seek returns the record of the event asked for
			for j, s := range seeks {
				if j >= len(recs) {
					res.Fails = append(res.Fails, PropFail{Sig: "tlvseg/seek/panic", Msg: fmt.Sprintf("column %s block %d (advertised record length %s): seek #%d (record %d) was not reached: %s", nm, b, sizeS, j, s, trunc(listing, 200))})
					broken = true
					break
				}
				want := cols[ci][b][s].want
				if recs[j] == nil {
					res.Fails = append(res.Fails, PropFail{Sig: "tlvseg/seek/record-lost", Msg: fmt.Sprintf("column %s block %d (advertised record length %s): record %d not returned (seek #%d): %s", nm, b, sizeS, s, j, trunc(listing, 200))})
					break
				}
				got, _, o := tlvDecode(recs[j])
				if !tsegValueOK(want, got) {
					cls := "wrong-value"
					if o == "panic" || strings.HasPrefix(o, "err:") {
						cls = "undecodable"
					}
					res.Fails = append(res.Fails, PropFail{Sig: "tlvseg/seek/" + cls, Msg: fmt.Sprintf("column %s block %d (advertised record length %s): record %d (seek #%d) decodes to %s, sent %s", nm, b, sizeS, s, j, trunc(o, 80), trunc(want, 80))})
					break
				}
			}
		}
		sfr.Close()
		outs = append(outs, fmt.Sprintf("%s{size=%s blk=[%s]}", nm, sizeS, strings.Join(blkS, ";")))
	}
	res.Out = strings.Join(outs, " ") + bsuS
	for t := range tags {
		res.Tags = append(res.Tags, t)
	}
	sort.Strings(res.Tags)
	return res
}

// ---------------------------------------------------------------- generator

var tsegStr9 = []string{"abcdef", "ghijkl", "mopqrs", "zzzzzz", "a-b-c-"}          // 6 bytes: 9-byte records, like a number
var tsegStrAny = []string{"", "a", "ab", "abc", "abcdef", "hello-world", "12", "-7", "007", "x1", "-", "1-2", "123456"} // class mixOk
var tsegInts = []int64{0, 1, 2, -1, 12, 255, 65536, 9223372036854775807, -9223372036854775808}

func tsegVal(r *rand.Rand, profile int) string {
	h := func(s string) string { return "s" + hex.EncodeToString([]byte(s)) }
	i := func() string { return "i" + strconv.FormatInt(tsegInts[r.Intn(len(tsegInts))], 10) }
	switch profile {
	case 0: // int64 only
		return i()
	case 1: // 9-byte records of two types
		if r.Intn(2) == 0 {
			return i()
		}
		return h(tsegStr9[r.Intn(len(tsegStr9))])
	case 2: // strings of different lengths
		return h(tsegStrAny[r.Intn(len(tsegStrAny))])
	case 3: // bools and nulls
		return []string{"b0", "b1", "b1", "z"}[r.Intn(4)]
	case 4: // floats and ints
		if r.Intn(2) == 0 {
			return i()
		}
		return fmt.Sprintf("f%016x", tlvF64Edges[r.Intn(len(tlvF64Edges))])
	case 5: // 6-byte strings only
		return h(tsegStr9[r.Intn(len(tsegStr9))])
	case 6: // one value repeated (dictionary of one word)
		return "i7"
	}
	switch r.Intn(6) { // anything in the class (no floats)
	case 0:
		return i()
	case 1:
		return h(tsegStrAny[r.Intn(len(tsegStrAny))])
	case 2:
		return h(tsegStr9[r.Intn(len(tsegStr9))])
	case 3:
		return []string{"b0", "b1"}[r.Intn(2)]
	case 4:
		return "z"
	}
	return i()
}

// presence pattern of a column in one block of n events: which events carry it
func tsegPresence(r *rand.Rand, n int, pat int) []bool {
	p := make([]bool, n)
	switch pat {
	case 0: // every event
		for i := range p {
			p[i] = true
		}
	case 1: // appears late
		k := 1
		if n > 1 {
			k = 1 + r.Intn(n-1)
		}
		for i := k; i < n; i++ {
			p[i] = true
		}
		if n == 1 {
			p[0] = true
		}
	case 2: // disappears
		k := 1 + r.Intn(n)
		for i := 0; i < k && i < n; i++ {
			p[i] = true
		}
	case 3: // absent from the whole block
	default: // sparse
		for i := range p {
			p[i] = r.Intn(2) == 0
		}
	}
	return p
}

func tsegGenCol(r *rand.Rand, shape []int, profile int, fullBias bool) string {
	var blocks []string
	for _, n := range shape {
		pat := r.Intn(5)
		if fullBias && r.Intn(3) != 0 {
			pat = 0
		}
		pres := tsegPresence(r, n, pat)
		var vs []string
		for e := 0; e < n; e++ {
			if pres[e] {
				vs = append(vs, tsegVal(r, profile))
			} else {
				vs = append(vs, "-")
			}
		}
		blocks = append(blocks, strings.Join(vs, ","))
	}
	return strings.Join(blocks, "/")
}

// profiles whose columns hold a number together with a string or bool: only with the production limit (tsegParseCol)
func tsegNeeds501(profile int) bool { return profile == 1 || profile >= 7 }

func tsegLimit(r *rand.Rand, profiles ...int) int {
	for _, p := range profiles {
		if tsegNeeds501(p) {
			return 501
		}
	}
	switch r.Intn(8) {
	case 0:
		return 1
	case 1, 2:
		return 2
	case 3:
		return 3
	case 4:
		return 1 + r.Intn(8)
	}
	return 501
}

func tsegShape(r *rand.Rand) []int {
	nb := 1 + r.Intn(5)
	if r.Intn(40) == 0 {
		nb = 6 + r.Intn(3)
	}
	shape := make([]int, nb)
	for i := range shape {
		shape[i] = 1 + r.Intn(6)
		if r.Intn(50) == 0 {
			shape[i] = 20 + r.Intn(30)
		}
	}
	return shape
}

// the shape fix b7f8683 is about: one record length in the blocks so far, then a block that starts without the column
func tsegGenLateAfterConsistent(r *rand.Rand) string {
	profile := []int{0, 1, 5, 6, 3}[r.Intn(5)]
	nb := 2 + r.Intn(3)
	var blocks []string
	lateAt := 1 + r.Intn(nb-1)
	for b := 0; b < nb; b++ {
		n := 1 + r.Intn(4)
		var vs []string
		switch {
		case b == lateAt:
			n = 2 + r.Intn(3)
			k := 1 + r.Intn(n-1)
			for e := 0; e < n; e++ {
				if e < k {
					vs = append(vs, "-")
				} else {
					vs = append(vs, tsegVal(r, profile))
				}
			}
		case b > lateAt && r.Intn(2) == 0:
			for e := 0; e < n; e++ {
				vs = append(vs, "-")
			}
		default:
			for e := 0; e < n; e++ {
				vs = append(vs, tsegVal(r, profile))
			}
		}
		blocks = append(blocks, strings.Join(vs, ","))
	}
	lim := []int{1, 2, 2, 3, 501}[r.Intn(5)]
	if tsegNeeds501(profile) {
		lim = 501
	}
	return fmt.Sprintf("tlvseg w %d %s", lim, strings.Join(blocks, "/"))
}

func genTlvSeg(r *rand.Rand, n int, tier string) []string {
	out := []string{
		"tlvseg w 2 i2/-,i0",       // the witness of fix b7f8683: block1=[{x:2}], block2=[{},{x:0}]
		"tlvseg w 501 i2/-,i0",     // the same, dictionary encoded
		"tlvseg w 2 i2/-,i0 -/i5,-", // with a second column
		"tlvseg w 501 i1,i2/-,-/s616263646566,s6768696a6b6c",
		"tlvseg w 501 i1/i2,-",
		"tlvseg w 501 i1/s616263646566,i12",
		"tlvseg w 501 s61/i5/i6",
		"tlvseg w 501 -,-/-,b1,i5/i1",
		"tlvseg w 1 z/z,z/-,z",
		"tlvseg w 3 -/-/-", "tlvseg w 3 -",
		"tlvseg w 501 -,-/i1,i2/i3", "tlvseg w 501 -/-,i1 -/-,-", "tlvseg w 501 z/-/i1", "tlvseg w 501 -,-/-/z,-/s61",
		"tlvseg w 501 f3ff0000000000000,i1/-,f8000000000000000",
		"tlvseg w 0 i1", "tlvseg w 65536 i1", "tlvseg w 02 i1", "tlvseg w 2 i1//i2", "tlvseg w 2 i1/ i2", "tlvseg w 2 i1,i2 i1", "tlvseg w 2 i1/i2 i1",
		"tlvseg w 2 f3ff0000000000000,s61", "tlvseg w 2 u5", "tlvseg w 2 S3:1", "tlvseg w 2 i1/i2/i3/i4/i5/i6/i7/i8/i9", "tlvseg x 2 i1", "tlvseg w 2", "tlvseg w 2 s696e66", "tlvseg w 500 s61,i1", "tlvseg w 2 b1/i1", "tlvseg w 2 s61/z,b1", "tlvseg w 1 s616263646566,-/-,s6768696a6b6c",
	}
	for len(out) < n {
		x := r.Intn(100)
		switch {
		case x < 22:
			out = append(out, tsegGenLateAfterConsistent(r))
		case x < 62:
			shape := tsegShape(r)
			p := r.Intn(8)
			out = append(out, fmt.Sprintf("tlvseg w %d %s", tsegLimit(r, p), tsegGenCol(r, shape, p, r.Intn(2) == 0)))
		case x < 96:
			shape := tsegShape(r)
			p, q := r.Intn(8), r.Intn(8)
			out = append(out, fmt.Sprintf("tlvseg w %d %s %s", tsegLimit(r, p, q), tsegGenCol(r, shape, p, r.Intn(2) == 0), tsegGenCol(r, shape, q, r.Intn(2) == 0)))
		default: // malformed
			shape := tsegShape(r)
			l := fmt.Sprintf("tlvseg w %d %s", tsegLimit(r, 7), tsegGenCol(r, shape, 7, false))
			switch r.Intn(5) {
			case 0:
				l = strings.Replace(l, ",", ",,", 1)
			case 1:
				l = strings.Replace(l, "/", "//", 1)
			case 2:
				l += " " + tsegGenCol(r, append(shape, 1), 0, true)
			case 3:
				l = strings.Replace(l, " i", " q", 1)
			case 4:
				l = strings.Replace(l, "w ", "w -", 1)
			}
			out = append(out, l)
		}
	}
	return out[:n]
}
