// C17 — "the process keeps running": the WORKER side of suite "alive" (see c17_alive.go).
//
//	corr c17aworker <sandbox root> <ingest port> <query port> [<esVersion> [orgs]]
//
// "orgs": the deployment resolves the organisation of a request (hooks.GlobalHooks.GetOrgIdHook / GetOrgIdHookQuery,
// what the builds with several organisations install): here from the header X-Verif-Org, org 0 without it (suite alivepar).
//
// The worker IS a siglens server (same recipe as the C19 confinement worker): it writes a server.yaml into its working
// directory (<root>/inst) and runs the real cmd/startup.Main() — configuration file → derived config → log file →
// StartSiglensServer: both HTTP servers with the real routers, all background loops.  It performs NO request itself:
// the parent talks to the two ports over TCP, so that the death of this process (an unrecovered panic on a request
// goroutine, a log.Fatal, the runtime giving up) is observed from outside as what it is.  Stdin carries the commands
// "flush" (the flush calls of ShutdownSiglensServer, so that the bootstrap data is in its final place), EOF (exit) and,
// for the `gl` lines of suite alive (the goroutines of a query after its terminal state, c17_alive_gor.go):
// "census" (goroutines of query-owned code by creation site + sizes of the running / waiting tables),
// "qtimeout <secs>" (config.SetQueryTimeoutSecs), "qhook <delay ms> <0|1>" (hooks.GlobalHooks.FilterQsrsHook: the segment
// lookup of every query takes that long / fails; "qhook 0 0" removes it), "qcancel" (query.CancelQuery of every running query).
package main

import (
	"bufio"
	"fmt"
	"net"
	"os"
	"strconv"
	"strings"
	"syscall"
	"time"

	"github.com/valyala/fasthttp"

	"github.com/siglens/siglens/cmd/startup"
	"github.com/siglens/siglens/pkg/config"
	"github.com/siglens/siglens/pkg/hooks"
	"github.com/siglens/siglens/pkg/scroll"
	"github.com/siglens/siglens/pkg/segment/writer"
	"github.com/siglens/siglens/pkg/segment/writer/metrics"
	vtable "github.com/siglens/siglens/pkg/virtualtable"
)

func init() { registerWorker("c17aworker", c17aWorkerMain) }

func c17aWorkerMain() {
	if len(os.Args) < 5 {
		fmt.Println("FATAL usage: corr c17aworker <root> <iport> <qport>")
		os.Exit(3)
	}
	root, iport, qport := os.Args[2], os.Args[3], os.Args[4]
	esVersion := "7.9.3"
	if len(os.Args) > 5 { // 6.x registers the ingest routes with a document type, 7.x the ones without
		esVersion = os.Args[5]
	}
	if len(os.Args) > 6 && os.Args[6] == "orgs" {
		orgOf := func(ctx *fasthttp.RequestCtx) (int64, error) {
			n, _ := strconv.ParseInt(string(ctx.Request.Header.Peek("X-Verif-Org")), 10, 64)
			return n, nil
		}
		hooks.GlobalHooks.GetOrgIdHook = orgOf
		hooks.GlobalHooks.GetOrgIdHookQuery = orgOf
	}
	cwd, err := os.Getwd()
	if err != nil || !strings.HasPrefix(cwd, root+"/") {
		fmt.Println("FATAL cwd not inside the sandbox:", cwd, err)
		os.Exit(3)
	}
	// a request that makes the server reserve tens of gigabytes ends THIS process, not the machine
	lim := syscall.Rlimit{Cur: 24 << 30, Max: 24 << 30}
	_ = syscall.Setrlimit(syscall.RLIMIT_AS, &lim)
	yaml := fmt.Sprintf(`ingestListenIP: "127.0.0.1"
ingestPort: %s
queryListenIP: "127.0.0.1"
queryPort: %s
dataPath: %s/data/
timestampKey: timestamp
pqsEnabled: true
analyticsEnabled: false
esVersion: "%s"
ssInstanceName: "H"
idleWipFlushIntervalSecs: 3600
maxWaitWipFlushIntervalSecs: 3600
log:
  logPrefix: %s/logs/
tls:
  enabled: false
queryTimeoutSecs: 20
`, iport, qport, cwd, esVersion, cwd)
	if cur, err := os.ReadFile("server.yaml"); err != nil || string(cur) != yaml {
		if err := os.WriteFile("server.yaml", []byte(yaml), 0o644); err != nil {
			fmt.Println("FATAL", err)
			os.Exit(3)
		}
	}
	os.Args = []string{"siglens", "-config", "server.yaml"}
	// no outbound traffic: the startup's "which IP am I" lookup and every webhook fail at once
	os.Setenv("HTTPS_PROXY", "http://127.0.0.1:1")
	os.Setenv("HTTP_PROXY", "http://127.0.0.1:1")
	os.Setenv("NO_PROXY", "127.0.0.1,localhost")
	go startup.Main()

	deadline := time.Now().Add(60 * time.Second)
	for _, p := range []string{iport, qport} {
		for {
			if c17aWorkerHealth(p) {
				break
			}
			if time.Now().After(deadline) {
				fmt.Println("FATAL server did not come up on port", p)
				os.Exit(3)
			}
			time.Sleep(30 * time.Millisecond)
		}
	}
	out := bufio.NewWriter(os.Stdout)
	fmt.Fprintln(out, "@@READY "+config.GetDataPath())
	out.Flush()
	in := bufio.NewReader(os.Stdin)
	for {
		line, err := in.ReadString('\n')
		if strings.TrimSpace(line) == "flush" {
			writer.ForcedFlushToSegfile()
			metrics.ForceFlushMetricsBlock()
			_ = vtable.FlushAliasMapToFile()
			scroll.ForcedFlushToScrollFile()
			fmt.Fprintln(out, "@@ok")
			out.Flush()
		} else if ans, ok := c17gWorkerCommand(strings.Fields(line)); ok {
			fmt.Fprintln(out, "@@"+ans)
			out.Flush()
		}
		if err != nil {
			os.Exit(0)
		}
	}
}

func c17aWorkerHealth(port string) bool {
	conn, err := net.DialTimeout("tcp", "127.0.0.1:"+port, time.Second)
	if err != nil {
		return false
	}
	defer conn.Close()
	conn.SetDeadline(time.Now().Add(2 * time.Second))
	if _, err := conn.Write([]byte("GET /api/health HTTP/1.1\r\nHost: localhost\r\nConnection: close\r\n\r\n")); err != nil {
		return false
	}
	buf := make([]byte, 64)
	n, _ := conn.Read(buf)
	return strings.HasPrefix(string(buf[:n]), "HTTP/1.1 200")
}
