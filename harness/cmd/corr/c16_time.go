package main

import (
	"encoding/hex"
	"fmt"
	"math/big"
	"math/rand"
	"regexp"
	"strconv"
	"strings"
	"time"

	promingest "github.com/siglens/siglens/pkg/integrations/prometheus/ingest"
	"github.com/siglens/siglens/pkg/segment/writer"
	"github.com/siglens/siglens/pkg/segment/writer/metrics"
	"github.com/siglens/siglens/pkg/utils"
)

// suite "time" (C16, time-unit logic):
//
//	ts absent | ts other | ts badesc | ts num <text> | ts str <hex> <layoutMs|->   → ms=<n> | ms=now
//	mts otsdb|otlp absent|other | num <text> | str <hex> <layoutSec|->             → sec=<n> | err
//	mts prom <int64> → sec=<n>          mts norm <int64> → sec=<n> | err
//
// <text> is the raw JSON number token (alphabet 0-9 . e E + -, first char digit or '-'); <hex> is the
// string value (printable ASCII without '"' and '\'); <layoutMs>/<layoutSec> is the ABSTRACTION of the
// Go time.Parse layouts (first matching layout's UnixNano()/1e6 resp. Unix(), '-' if none matches),
// computed here with time.Parse over the harness's own copy of the two layout lists and re-checked
// by Exec ("abstraction-drift").
//
// Exec builds a small JSON document around the scalar and calls the REAL utils.ExtractTimeStamp,
// metrics.ExtractOTSDBPayload / ExtractOTLPPayload, the remote-write parseTimestamp (overlay export)
// and utils.ParseTimeForPromQL (→ normalizeIntToSeconds).
//
// PropFail (independent of the Lean model; big.Rat arithmetic on the token): an event whose time is a
// well-formed JSON number / digit string / RFC3339 string in an ACCEPTED unit inside that unit's
// plausible window must be stored (writer.GetNewPLE) with that instant:
//	logs:    seconds [1e8,1e10) → v*1000 ; milliseconds [99999999999,1e13) → v ; nanoseconds [1e18,2^63) → v/1e6
//	metrics: seconds [1e8,2^32) ; OTSDB + remote write: seconds, milliseconds ; OTLP: seconds, milliseconds, nanoseconds
// Latitude granted: a nanosecond count written in decimal/exponent form is read as binary64 (which
// cannot carry it exactly): within 1 ms; anything below the store's resolution may be dropped or rounded (sub-millisecond for
// logs, sub-second for metrics — the code comment in ParseTimeForPromQL says so for metrics);
// microseconds are nowhere said to be accepted (no demand; characterised by theorem); nanosecond
// instants before 2001-09-09 (< 1e18, the documented magnitude of "Time in Nano Seconds") no demand;
// anything outside the windows, negative, non-JSON number tokens, decimal/exponent STRINGS and date
// strings other than RFC3339: no demand.

func init() {
	register(&Suite{Name: "time", Gen: genTime, Exec: execTime,
		Rule: "instants 1970..2300 (log-uniform + key dates) rendered in s/ms/us/ns as integer, decimal, exponent, numeric string, RFC3339 and the other layouts; every threshold (99999999999, 1e9..1e19, 2^31, 2^32, 2^53, 2^63, 2^64) ±2 in all forms; negative, zero, huge, malformed tokens, absent key, non-scalars; same for the OTSDB/OTLP/remote-write/PromQL-time paths; distinct = sha1(op line); non-trivial = a time-carrying scalar (not absent/other)"})
}

var c16LogLayouts = []string{time.RFC3339, time.RFC3339Nano, "2006-01-02T15:04:05Z", "2006-01-02T15:04:05.999Z", "2006-01-02T15:04:05.999-07:00"}
var c16MetricLayouts = []string{time.RFC3339, time.RFC3339Nano, time.RFC1123, time.RFC1123Z, time.RFC822, time.RFC822Z, time.RFC850}

func c16LayoutMs(s string) string {
	for _, l := range c16LogLayouts {
		if t, err := time.Parse(l, s); err == nil {
			return strconv.FormatInt(t.UTC().UnixNano()/1000000, 10)
		}
	}
	return "-"
}

func c16LayoutSec(s string) string {
	for _, l := range c16MetricLayouts {
		if t, err := time.Parse(l, s); err == nil {
			return strconv.FormatInt(t.Unix(), 10)
		}
	}
	return "-"
}

var c16NumTok = regexp.MustCompile(`^[0-9-][0-9.eE+-]*$`)
var c16JsonNum = regexp.MustCompile(`^-?(0|[1-9][0-9]*)(\.[0-9]+)?([eE][+-]?[0-9]{1,3})?$`)
var c16Digits = regexp.MustCompile(`^[0-9]+$`)

func c16StrOK(s string) bool {
	for i := 0; i < len(s); i++ {
		if s[i] < 32 || s[i] >= 127 || s[i] == '"' || s[i] == '\\' {
			return false
		}
	}
	return true
}

// ---------------------------------------------------------------- generator

var c16Thresholds = []string{"99999999999", "1000000000", "9999999999", "10000000000", "100000000", "100000000000", "1000000000000",
	"10000000000000", "100000000000000", "1000000000000000", "10000000000000000", "99999999999000000", "1000000000000000000", "10000000000000000000",
	"2147483648", "4294967296", "4294967296000", "4294967296000000000", "9007199254740992", "9223372036854775808", "18446744073709551616",
	"18446744073709551", "18446744073709552", "99999999999000", "1000000000000000000000"}

func c16Instant(r *rand.Rand) *big.Int { // epoch nanoseconds
	var sec int64
	switch r.Intn(10) {
	case 0: // 1970..1973 (before the plausible window)
		sec = r.Int63n(100000000)
	case 1: // beyond 2286
		sec = 10000000000 + r.Int63n(3000000000)
	case 2: // around the 2001-09-09 magnitude change
		sec = 1000000000 + r.Int63n(2000) - 1000
	case 3: // around uint32 seconds
		sec = 4294967296 + r.Int63n(2000) - 1000
	case 4: // 1973..2001
		sec = 100000000 + r.Int63n(900000000)
	default:
		sec = 100000000 + r.Int63n(9900000000)
	}
	// keep well away from the wall clock ("now" is recognised by bracketing)
	now := time.Now().Unix()
	if sec > now-200000 && sec < now+200000 {
		sec -= 400000
	}
	ns := new(big.Int).Mul(big.NewInt(sec), big.NewInt(1000000000))
	var frac int64
	switch r.Intn(4) {
	case 0:
		frac = 0
	case 1:
		frac = r.Int63n(1000) * 1000000
	case 2:
		frac = 999000000 + r.Int63n(1000000)
	default:
		frac = r.Int63n(1000000000)
	}
	return ns.Add(ns, big.NewInt(frac))
}

var c16Pow10 = []int64{1, 10, 100, 1000, 10000, 100000, 1000000, 10000000, 100000000, 1000000000}

// render ns-instant in unit (0 s, 1 ms, 2 us, 3 ns) as integer text plus optional fraction digits
func c16Render(r *rand.Rand, ns *big.Int, unit int, form int) string {
	div := big.NewInt(c16Pow10[9-3*unit])
	q, m := new(big.Int).QuoRem(ns, div, new(big.Int))
	switch form {
	case 0: // integer
		return q.String()
	case 1: // decimal with the full or a cut fraction
		if unit == 3 {
			return q.String() + ".0"
		}
		fd := 9 - 3*unit
		f := fmt.Sprintf("%0*d", fd, m.Int64())
		cut := 1 + r.Intn(fd)
		if r.Intn(3) == 0 {
			cut = 3
			if cut > fd {
				cut = fd
			}
		}
		return q.String() + "." + f[:cut]
	default: // exponent form d.ddddE+N of the integer
		s := q.String()
		if len(s) < 2 {
			return s + "e0"
		}
		mant := strings.TrimRight(s[1:], "0")
		e := []string{"e", "E", "e+"}[r.Intn(3)]
		if mant == "" {
			return s[:1] + e + strconv.Itoa(len(s)-1)
		}
		return s[:1] + "." + mant + e + strconv.Itoa(len(s)-1)
	}
}

func c16Hex(s string) string { return hex.EncodeToString([]byte(s)) }

func c16DateStrings(r *rand.Rand, ns *big.Int) []string {
	t := time.Unix(0, 0).UTC().Add(0)
	sec := new(big.Int).Quo(ns, big.NewInt(1000000000)).Int64()
	nsec := new(big.Int).Rem(ns, big.NewInt(1000000000)).Int64()
	t = time.Unix(sec, nsec).UTC()
	loc := time.FixedZone("", (r.Intn(25)-12)*3600+r.Intn(2)*1800)
	tl := t.In(loc)
	return []string{
		t.Format(time.RFC3339), t.Format(time.RFC3339Nano), tl.Format(time.RFC3339), tl.Format(time.RFC3339Nano),
		t.Format("2006-01-02T15:04:05.000Z"), tl.Format("2006-01-02T15:04:05.999-07:00"), t.Format("2006-01-02T15:04:05.000000Z"),
		t.Format(time.RFC1123), tl.Format(time.RFC1123Z), t.Format(time.RFC822), tl.Format(time.RFC822Z), t.Format(time.RFC850),
		t.Format("2006-01-02 15:04:05"), t.Format("2006-01-02"), t.Format(time.ANSIC), "2" + t.Format(time.RFC3339),
	}
}

var c16Malformed = []string{"1.2.3", "1e", "1e+", "1e-", "--5", "1-2", "5.", "-.5", "-", "-0", "0", "0.0", "0.5", "-0.5", "0.999", "1E5", "1e-3", "00012", "1e05",
	"1e400", "1e-400", "-1e400", "1e309", "1.7976931348623157e308", "1.7976931348623159e308", "1e99999", "1e-99999", "0e99999", "1e100000000", "5e-324", "2e-324",
	"0.99999999999999999999", "1700000000.99999999999", "1700000000.9999999", "-5", "-1700000000", "-1700000000000", "-1.5", "-9223372036854775808", "-9223372036854775809",
	"-9223372036854775807", "-1e19", "-1e30", "1e19", "1e20", "1e30", "21000000000000000000", "20000000000000000000", "27670116110564327424", "99999999999999999999",
	"184467440737095516150", "9223372036854775807", "9223372036854775808", "9223372036854775809", "18446744073709551615", "18446744073709551616", "18446744073709551617",
	"1.7e9", "1.7e12", "1.7e15", "1.7e18", "17e8", "1700000000e3", "1700000000123e-3", "1.700000000123e9", "1.700000000123e+9", "+5", "1+5", "1e5e5", "1..5", "1.e5", ".5"}

var c16OddStrings = []string{"", " ", "random string", "20201-08-03T07:10:20.123456+02:00", "2020-08-03T07:10:20.123456+02:00", "2019-06-11T16:33:51Z", "+1700000000", "-1700000000",
	"1700000000 ", " 1700000000", "0001700000000", "1700000000.5", "1.7e9", "1_700_000_000", "0x10", "0", "00", "1970-01-01T00:00:00Z", "1969-12-31T23:59:59Z",
	"2262-04-11T23:47:16Z", "2300-01-01T00:00:00Z", "1677-09-21T00:12:43Z", "1600-01-01T00:00:00Z", "9999-12-31T23:59:59Z", "18446744073709551615", "18446744073709551616",
	"99999999999999999999999", "NaN", "now", "2020-08-03T07:10:20", "2020-08-03 07:10:20Z", "Mon, 03 Aug 2020 07:10:20 GMT", "Mon, 03 Aug 2020 07:10:20 +0200"}

func genTime(r *rand.Rand, n int, tier string) []string {
	var out []string
	add := func(s string) { out = append(out, s) }
	// scalar → all the paths
	num := func(text string) {
		if !c16NumTok.MatchString(text) {
			return
		}
		switch r.Intn(6) {
		case 0, 1, 2:
			add("ts num " + text)
		case 3:
			add("mts otsdb num " + text)
		case 4:
			add("mts otlp num " + text)
		default:
			if _, err := strconv.ParseInt(text, 10, 64); err == nil {
				if r.Intn(2) == 0 {
					add("mts prom " + text)
				} else {
					add("mts norm " + text)
				}
			} else {
				add("ts num " + text)
			}
		}
	}
	str := func(s string) {
		if !c16StrOK(s) {
			return
		}
		switch r.Intn(5) {
		case 0, 1, 2:
			add("ts str " + c16Hex(s) + " " + c16LayoutMs(s))
		case 3:
			add("mts otsdb str " + c16Hex(s) + " " + c16LayoutSec(s))
		default:
			add("mts otlp str " + c16Hex(s) + " " + c16LayoutSec(s))
		}
	}
	// deterministic boundary block first
	for _, th := range c16Thresholds {
		b, _ := new(big.Int).SetString(th, 10)
		for d := int64(-2); d <= 2; d++ {
			v := new(big.Int).Add(b, big.NewInt(d)).String()
			add("ts num " + v)
			add("ts str " + c16Hex(v) + " -")
			add("mts otsdb num " + v)
			add("mts otlp num " + v)
			add("mts otsdb str " + c16Hex(v) + " -")
			if _, err := strconv.ParseInt(v, 10, 64); err == nil {
				add("mts prom " + v)
				add("mts norm " + v)
			}
			if d == 0 {
				add("ts num " + v + ".0")
				add("ts num " + v + ".5")
				add("ts num " + v + ".999")
				add("mts otsdb num " + v + ".5")
				add("mts otlp num " + v + ".5")
				add("ts num " + v[:1] + "." + v[1:] + "e" + strconv.Itoa(len(v)-1))
				add("ts num -" + v)
				add("mts otlp num -" + v)
				add("mts prom -" + strings.TrimPrefix(v, "-"))
			}
		}
	}
	for _, m := range c16Malformed {
		if c16NumTok.MatchString(m) {
			add("ts num " + m)
			add("mts otsdb num " + m)
			add("mts otlp num " + m)
		}
		if c16StrOK(m) {
			add("ts str " + c16Hex(m) + " " + c16LayoutMs(m))
			add("mts otsdb str " + c16Hex(m) + " " + c16LayoutSec(m))
		}
	}
	for _, s := range c16OddStrings {
		add("ts str " + c16Hex(s) + " " + c16LayoutMs(s))
		add("mts otsdb str " + c16Hex(s) + " " + c16LayoutSec(s))
	}
	for _, k := range []string{"absent", "other", "badesc"} {
		add("ts " + k)
	}
	for _, p := range []string{"otsdb", "otlp"} {
		add("mts " + p + " absent")
		add("mts " + p + " other")
	}
	add("mts otlp str " + c16Hex("1700000000") + " -")
	fixed := len(out)
	if n < fixed {
		// keep a prefix-independent sample: boundary block is the point of the suite, never cut it
		n = fixed
	}
	for len(out) < n {
		switch k := r.Intn(100); {
		case k < 55: // an instant in a unit and form, as number
			ns := c16Instant(r)
			num(c16Render(r, ns, r.Intn(4), r.Intn(3)))
		case k < 70: // as numeric string
			ns := c16Instant(r)
			form := 0
			if r.Intn(6) == 0 {
				form = 1 + r.Intn(2)
			}
			str(c16Render(r, ns, r.Intn(4), form))
		case k < 82: // date strings
			ds := c16DateStrings(r, c16Instant(r))
			str(ds[r.Intn(len(ds))])
		case k < 88: // random token over the alphabet (mostly malformed)
			const al = "0123456789.eE+-"
			l := 1 + r.Intn(12)
			b := make([]byte, l)
			for i := range b {
				if r.Intn(3) != 0 {
					b[i] = al[r.Intn(10)]
				} else {
					b[i] = al[r.Intn(len(al))]
				}
			}
			if b[0] != '-' && (b[0] < '0' || b[0] > '9') {
				b[0] = '1'
			}
			num(string(b))
		case k < 93: // long digit strings (parseInt wrap, ParseUint range, float fallback)
			l := 17 + r.Intn(9)
			b := make([]byte, l)
			for i := range b {
				b[i] = byte('0' + r.Intn(10))
			}
			if b[0] == '0' {
				b[0] = '1'
			}
			if r.Intn(2) == 0 {
				num(string(b))
			} else {
				str(string(b))
			}
		case k < 97: // mutated malformed pool entry
			m := c16Malformed[r.Intn(len(c16Malformed))]
			if r.Intn(2) == 0 && len(m) > 1 {
				i := r.Intn(len(m))
				m = m[:i] + string("0123456789.e-"[r.Intn(13)]) + m[i+1:]
			}
			num(m)
		default:
			add([]string{"ts absent", "ts other", "ts badesc", "mts otsdb absent", "mts otlp other"}[r.Intn(5)])
		}
	}
	return out
}

// ---------------------------------------------------------------- exec

var c16Key = "timestamp"

const c16TsNow = uint64(424242)

func c16Doc(scalar string, present bool) []byte {
	if !present {
		return []byte(`{"k0":1,"msg":"hello","z":"y"}`)
	}
	return []byte(`{"k0":1,"timestamp":` + scalar + `,"z":"y"}`)
}

func c16MetricDoc(scalar string, present bool) []byte {
	if !present {
		return []byte(`{"metric":"m1","tags":{"h":"a"},"value":1.5}`)
	}
	return []byte(`{"metric":"m1","tags":{"h":"a"},"timestamp":` + scalar + `,"value":1.5}`)
}

// runs ExtractTimeStamp; "now" is recognised by bracketing the call with the clock
func c16Extract(doc []byte) string {
	t0 := utils.GetCurrentTimeInMs()
	v := utils.ExtractTimeStamp(doc, &c16Key)
	t1 := utils.GetCurrentTimeInMs()
	if v != 0 && v+5 >= t0 && v <= t1+5 {
		return "ms=now"
	}
	return "ms=" + strconv.FormatUint(v, 10)
}

// what GetNewPLE stores: (value, "arrival" / "value" / "rejected")
func c16Stored(doc []byte) (uint64, string) {
	var buf [utils.UnescapeStackBufSize]byte
	t0 := utils.GetCurrentTimeInMs()
	ple, err := writer.GetNewPLE(doc, c16TsNow, "c16idx", &c16Key, buf[:])
	t1 := utils.GetCurrentTimeInMs()
	if err != nil || ple == nil {
		return 0, "rejected"
	}
	v := ple.GetTimestamp()
	writer.ReleasePLEs([]*writer.ParsedLogEvent{ple})
	if v == c16TsNow || (v+5 >= t0 && v <= t1+5) {
		return v, "arrival"
	}
	return v, "value"
}

var (
	c16e6  = big.NewRat(1000000, 1)
	c16e3  = big.NewRat(1000, 1)
	c16e9  = big.NewRat(1000000000, 1)
	c16one = big.NewRat(1, 1)
)

func c16RatOf(s string) *big.Rat { r, _ := new(big.Rat).SetString(s); return r }

func c16RatFloor(x *big.Rat) *big.Int {
	q := new(big.Int)
	m := new(big.Int)
	q.DivMod(x.Num(), x.Denom(), m)
	return q
}

func c16InWin(v *big.Rat, lo, hi string) bool { return v.Cmp(c16RatOf(lo)) >= 0 && v.Cmp(c16RatOf(hi)) < 0 }

// unit of a value by the plausible windows (disjoint): "s", "ms", "us", "ns", "ns-before-2001", ""
func c16Unit(v *big.Rat) string {
	switch {
	case c16InWin(v, "100000000", "10000000000"):
		return "s"
	case c16InWin(v, "99999999999", "10000000000000"):
		return "ms"
	case c16InWin(v, "100000000000000", "10000000000000000"):
		return "us"
	case c16InWin(v, "1000000000000000000", "9223372036854775808"): // int64 nanoseconds end 2262-04-11
		return "ns"
	case c16InWin(v, "99999999999000000", "1000000000000000000"):
		return "ns-before-2001"
	}
	return ""
}

// exact value of a well-formed JSON number token (nil if the token is not a JSON number or has an absurd exponent)
func c16Value(text string) *big.Rat {
	if !c16JsonNum.MatchString(text) || len(text) > 60 {
		return nil
	}
	v, ok := new(big.Rat).SetString(text)
	if !ok {
		return nil
	}
	return v
}

// expected epoch ms (floor) and whether a sub-ms remainder exists
func c16WantMs(v *big.Rat, unit string) (*big.Int, bool) {
	x := new(big.Rat).Set(v)
	switch unit {
	case "s":
		x.Mul(x, c16e3)
	case "ns":
		x.Quo(x, c16e6)
	}
	f := c16RatFloor(x)
	return f, !x.IsInt()
}

func c16WantSec(v *big.Rat, unit string) (*big.Int, bool) {
	x := new(big.Rat).Set(v)
	switch unit {
	case "ms":
		x.Quo(x, c16e3)
	case "ns":
		x.Quo(x, c16e9)
	}
	return c16RatFloor(x), !x.IsInt()
}

func c16Near(got uint64, want *big.Int, frac bool) bool {
	g := new(big.Int).SetUint64(got)
	if g.Cmp(want) == 0 {
		return true
	}
	return frac && g.Cmp(new(big.Int).Add(want, big.NewInt(1))) == 0
}

// floatForm: the token is a JSON number in decimal/exponent form (read as binary64, the usual
// reading of JSON numbers). Beyond 2^53 (nanosecond counts) binary64 cannot carry the decimal
// exactly, so a result within 1 ms of the exact decimal's instant is granted.
func c16LogProp(enc string, v *big.Rat, doc []byte, res *Result, floatForm bool) {
	unit := c16Unit(v)
	res.Tags = append(res.Tags, "log-"+enc+"-unit="+unit)
	if unit != "s" && unit != "ms" && unit != "ns" {
		return // no demand: not an accepted unit / outside the plausible windows
	}
	want, frac := c16WantMs(v, unit)
	got, how := c16Stored(doc)
	if how == "rejected" {
		return // the document as a whole is refused: nothing is stored under a wrong time
	}
	if how == "value" && c16Near(got, want, frac) {
		return
	}
	if how == "value" && floatForm && unit == "ns" && got+1 == want.Uint64() {
		res.Tags = append(res.Tags, "log-float-form-ns-within-1ms")
		return
	}
	cls := enc + "-" + unit + "-other"
	switch {
	case how == "arrival":
		cls = enc + "-" + unit + "-arrival-time-used"
	case unit == "s" && !v.IsInt() && new(big.Int).SetUint64(got).Cmp(new(big.Int).Mul(c16RatFloor(v), big.NewInt(1000))) == 0:
		cls = enc + "-fractional-seconds-truncated-to-whole-second"
	case unit == "ns" && new(big.Int).SetUint64(got).Cmp(new(big.Int).Mul(want, big.NewInt(1000))) > 0:
		cls = enc + "-nanos-not-scaled" // stored value is (about) the nanosecond count itself
	}
	res.Fails = append(res.Fails, PropFail{Sig: "time-unit/" + cls,
		Msg: fmt.Sprintf("event time %s (%s, unit %s) = epoch ms %s, stored %d (%s)", v.FloatString(3), enc, unit, want, got, how)})
}

func c16MetricProp(proto, enc string, v *big.Rat, out string, res *Result) {
	unit := c16Unit(v)
	res.Tags = append(res.Tags, "metric-"+proto+"-"+enc+"-unit="+unit)
	accepted := unit == "s" || unit == "ms" || (unit == "ns" && proto == "otlp")
	if proto == "prom" {
		accepted = unit == "ms" // the remote-write protocol fixes milliseconds
	}
	if !accepted {
		return
	}
	want, frac := c16WantSec(v, unit)
	if want.Cmp(big.NewInt(4294967296)) >= 0 {
		return // beyond uint32 seconds (2106): outside the metrics store's range
	}
	if strings.HasPrefix(out, "sec=") {
		g, _ := strconv.ParseUint(out[4:], 10, 64)
		if c16Near(g, want, frac) {
			return
		}
	}
	cls := "other"
	if out == "err" {
		cls = "rejected"
	}
	res.Fails = append(res.Fails, PropFail{Sig: "metric-time-unit/" + proto + "-" + enc + "-" + unit + "-" + cls,
		Msg: fmt.Sprintf("datapoint time %s (unit %s) = epoch s %s, extractor answered %s", v.FloatString(3), unit, want, out)})
}

func execTime(line string) Result {
	f := strings.Fields(line)
	bad := Result{Out: "bad-op"}
	if len(f) < 2 {
		return bad
	}
	res := Result{Nontrivial: true}
	switch f[0] {
	case "ts":
		switch {
		case len(f) == 2 && f[1] == "absent":
			res.Nontrivial = false
			res.Out = c16Extract(c16Doc("", false))
			res.Tags = append(res.Tags, "log-absent")
			if _, how := c16Stored(c16Doc("", false)); how != "arrival" {
				res.Fails = append(res.Fails, PropFail{Sig: "time-unit/absent-key-not-arrival-time", Msg: "event without a time was not stored with the arrival time"})
			}
		case len(f) == 2 && f[1] == "other":
			res.Nontrivial = false
			outs := map[string]bool{}
			for _, sc := range []string{"true", "false", "null", `{"a":1}`, `[1,2]`} {
				outs[c16Extract(c16Doc(sc, true))] = true
			}
			if len(outs) == 1 {
				for k := range outs {
					res.Out = k
				}
			} else {
				res.Out = fmt.Sprintf("mixed %v", len(outs))
			}
			res.Tags = append(res.Tags, "log-other")
		case len(f) == 2 && f[1] == "badesc":
			res.Out = c16Extract(c16Doc(`"12\x34"`, true))
			res.Tags = append(res.Tags, "log-badesc")
		case len(f) == 3 && f[1] == "num":
			if !c16NumTok.MatchString(f[2]) {
				return bad
			}
			doc := c16Doc(f[2], true)
			res.Out = c16Extract(doc)
			if v := c16Value(f[2]); v != nil {
				c16LogProp("numeric", v, doc, &res, !c16Digits.MatchString(f[2]))
			} else {
				res.Tags = append(res.Tags, "log-numeric-not-json-number")
			}
		case len(f) == 4 && f[1] == "str":
			b, err := hex.DecodeString(f[2])
			if err != nil || !c16StrOK(string(b)) {
				return bad
			}
			s := string(b)
			if f[3] != "-" {
				if _, err := strconv.ParseInt(f[3], 10, 64); err != nil {
					return bad
				}
			}
			if a := c16LayoutMs(s); a != f[3] {
				return Result{Out: "abstraction-drift layout " + a}
			}
			doc := c16Doc(`"`+s+`"`, true)
			res.Out = c16Extract(doc)
			if c16Digits.MatchString(s) && len(s) < 40 {
				c16LogProp("string", c16RatOf(s), doc, &res, false)
			} else if t, err := time.Parse(time.RFC3339Nano, s); err == nil && t.Year() >= 1973 && t.Year() < 2262 {
				v := new(big.Rat).SetFrac(big.NewInt(t.UnixNano()), big.NewInt(1000000))
				if c16Unit(v) == "ms" {
					c16LogProp("rfc3339", v, doc, &res, false)
				}
			} else {
				res.Tags = append(res.Tags, "log-string-no-accepted-format")
			}
		default:
			return bad
		}
		return res
	case "mts":
		if len(f) == 3 && (f[1] == "prom" || f[1] == "norm") {
			i, err := strconv.ParseInt(f[2], 10, 64)
			if err != nil {
				return bad
			}
			if f[1] == "prom" {
				res.Out = fmt.Sprintf("sec=%d", promingest.VerifParseTimestamp(i))
				if i > 0 {
					c16MetricProp("prom", "int", new(big.Rat).SetInt64(i), res.Out, &res)
				}
			} else {
				s, err := utils.ParseTimeForPromQL(strconv.FormatInt(i, 10))
				if err != nil {
					res.Out = "err"
				} else {
					res.Out = fmt.Sprintf("sec=%d", s)
				}
				res.Tags = append(res.Tags, "promql-time")
			}
			return res
		}
		if len(f) < 3 || (f[1] != "otsdb" && f[1] != "otlp") {
			return bad
		}
		var doc []byte
		var v *big.Rat
		enc := ""
		switch {
		case len(f) == 3 && f[2] == "absent":
			doc = c16MetricDoc("", false)
			res.Nontrivial = false
		case len(f) == 3 && f[2] == "other":
			doc = c16MetricDoc("true", true)
			res.Nontrivial = false
		case len(f) == 4 && f[2] == "num":
			if !c16NumTok.MatchString(f[3]) {
				return bad
			}
			doc = c16MetricDoc(f[3], true)
			v = c16Value(f[3])
			enc = "numeric"
		case len(f) == 5 && f[2] == "str":
			b, err := hex.DecodeString(f[3])
			if err != nil || !c16StrOK(string(b)) {
				return bad
			}
			s := string(b)
			if f[4] != "-" {
				if _, err := strconv.ParseInt(f[4], 10, 64); err != nil {
					return bad
				}
			}
			if a := c16LayoutSec(s); a != f[4] {
				return Result{Out: "abstraction-drift layout " + a}
			}
			doc = c16MetricDoc(`"`+s+`"`, true)
			if c16Digits.MatchString(s) && len(s) < 40 && f[1] == "otsdb" {
				v = c16RatOf(s)
				enc = "string"
			}
		default:
			return bad
		}
		th := metrics.GetTagsHolder()
		var ts uint32
		var err error
		var name []byte
		if f[1] == "otsdb" {
			name, _, ts, err = metrics.ExtractOTSDBPayload(doc, th)
		} else {
			name, _, ts, err = metrics.ExtractOTLPPayload(doc, th)
		}
		if err != nil {
			res.Out = "err"
		} else if len(name) == 0 {
			res.Out = "noname"
		} else {
			res.Out = fmt.Sprintf("sec=%d", ts)
		}
		if v != nil {
			c16MetricProp(f[1], enc, v, res.Out, &res)
		}
		return res
	}
	return bad
}
