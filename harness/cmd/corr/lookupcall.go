package main

import (
	"reflect"

	"github.com/valyala/fasthttp"
)

// callLookupHandler calls a request handler of pkg/lookups for the org: handler(ctx, org) — the handlers WITH patch
// c13-1 (one directory of lookup files per org) — or handler(ctx) for the handlers of a tree that knows no org there.
// (The suites must build against both until the patch is committed.)
func callLookupHandler(handler interface{}, ctx *fasthttp.RequestCtx, org int64) {
	v := reflect.ValueOf(handler)
	if v.Type().NumIn() == 2 {
		v.Call([]reflect.Value{reflect.ValueOf(ctx), reflect.ValueOf(org)})
		return
	}
	v.Call([]reflect.Value{reflect.ValueOf(ctx)})
}
