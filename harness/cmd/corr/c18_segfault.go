package main

// C18 — damaged segment files are detected, never served as data.   Suite "segfault" (segment-level fault injection).
//
//	segfault [card=<n>] [procs=<n>] H <history…> Q <query…> M <seg>/<file>/<mutation>
//
//	procs          : GOMAXPROCS of the restarted process (1 = one reader per segment visits all its blocks; 4 = segments side by side)
//	history, query : tokens of e2e_suite.go (ev/<vid>/<ts>/<fields>, send, fl, ro;  q/<from>/<size>/<start>/<end>/<filterRPN>[/<stage>]);
//	                 every event carries n~i<2^vid> (vid < 50) so that sums identify the events that were counted;
//	                 additional stage  tc:<spanSec>  = `| timechart span=<n>s count`
//	seg            : number of the segment (0 = events before the first `ro`, …)
//	file           : csg:<column> | cmi:<column> | bsu | sst | sfm | segmeta | pqmr:<i> | crup:<i>     (i-th file of that kind, by name)
//	mutation       : none | del (the file is removed) | cut@<pos> | set@<pos>=<byte> | xor@<pos>=<mask> |
//	                 put@<pos>=<hex> (1..8 bytes written from pos on: boundary patterns over a length / count / offset field)
//	pos            : a<n> absolute | e<n> = length-n | m<permille of the length> |
//	                 c<k>h<d> byte d of the 12-byte header of checksum chunk k | c<k>d<d> byte d of its data |
//	                 c<k>t<d> = end of chunk k minus d | c<k>p<permille of its data>
//	                 (segmeta: the file is segmeta.json and positions are relative to the line of segment <seg>)
//	                 b:<col>:<blk>:l<d> | b:<col>:<blk>:o<d>  (.bsu only) byte d of the length (4 bytes) / offset (8 bytes) field of
//	                 column <col> in block <blk>
//	                 s:<col>:l<n> (.sst only) byte n of the 4-byte length field in front of the statistics record of <col>
//	                 s:<col>:a<n> | s:<col>:e<n>  (.sst only) byte n of / n bytes before the end of the statistics record of
//	                 column <col> (the columns are written in map order, so absolute positions hit a random column)
//
// Exec: child 1 (fresh engine process on a new data directory) ingests the history, runs the queries (the CLEAN answers =
// Out, compared with the Lean specification's answer for the same line by lib/e2ecmp.py) and exits; the parent applies
// the mutation to ONE file; child 2 (fresh process, component start-up order of cmd/startup, waits for the segment-meta
// sync) runs the same queries.  The property statement is checked on child 2's answers, see sfJudge.
//
// "An error is reported" = the response carries err/errors, or the engine logged at error level while the query ran
// (per-segment error collection ends in the log in the current query pipeline), or — for files that are only read at
// start-up — while the restarted process loaded its metadata.

import (
	"bufio"
	"bytes"
	"encoding/binary"
	"encoding/hex"
	"encoding/json"
	"fmt"
	"math/big"
	"math/rand"
	"os"
	"os/exec"
	"path/filepath"
	"sort"
	"strconv"
	"strings"
	"sync"
	"time"

	"github.com/cespare/xxhash"
	log "github.com/sirupsen/logrus"
)

// ---------------------------------------------------------------- log capture (worker side, used by e2eworker.go)

type sfLogHook struct {
	mu   sync.Mutex
	msgs []string
}

var sfHook *sfLogHook

func (h *sfLogHook) Levels() []log.Level {
	return []log.Level{log.ErrorLevel, log.FatalLevel, log.PanicLevel}
}

func (h *sfLogHook) Fire(e *log.Entry) error {
	if os.Getenv("VERIF_LOG_ERRORS") == "stderr" { // manual triage of a worker that never answers
		fmt.Fprintln(os.Stderr, "LOGERR", trunc(e.Message, 4000))
	}
	h.mu.Lock()
	if len(h.msgs) < 64 {
		h.msgs = append(h.msgs, trunc(e.Message, 700))
	}
	h.mu.Unlock()
	return nil
}

func sfInstallLogCapture() bool {
	if os.Getenv("VERIF_LOG_ERRORS") == "" {
		return false
	}
	sfHook = &sfLogHook{}
	if log.GetLevel() < log.ErrorLevel {
		log.SetLevel(log.ErrorLevel) // output stays io.Discard (main.go)
	}
	log.AddHook(sfHook)
	return true
}

func sfDrainLogErrors() []string {
	if sfHook == nil {
		return nil
	}
	sfHook.mu.Lock()
	defer sfHook.mu.Unlock()
	m := sfHook.msgs
	sfHook.msgs = nil
	if m == nil {
		m = []string{}
	}
	return m
}

// ---------------------------------------------------------------- suite

func init() {
	register(&Suite{Name: "segfault", Parallel: 6, Gen: genSegfault, Exec: execSegfault,
		Rule: "known dataset (2 segments x 2-3 blocks x 3-4 records; dictionary column, plain column, numbers, timestamps; last segment rotated or left open) built by one engine process; ONE file of ONE segment (every kind: column .csg incl. the timestamp column, .cmi, .bsu, .sst, .sfm, segmeta.json line, pqmr, rollup) truncated at chunk/field boundaries +-1 or one byte changed (chunk header fields, data); a freshly started engine process answers match-all with full records, per-column filters that visit every block of a segment with one reader, a two-condition filter on one column, stats count/sum by, timechart, and two time ranges cutting through blocks; non-trivial = the mutation changed the file"})
}

const sfBase = uint64(1700000000000)

type sfEvent struct {
	vid    int
	ts     uint64
	fields map[string]string // canonical typed values
	seg    int
	blk    int
}

type sfDataset struct {
	events map[int]*sfEvent
	nseg   int
	procs  int    // GOMAXPROCS of the restarted process (cfg procs=<n>, default 1 = one reader per segment visits all its blocks)
	stdin  string // worker commands that build the dataset
}

func sfParseHistory(cfg, toks []string) (*sfDataset, bool) {
	ds := &sfDataset{events: map[int]*sfEvent{}, procs: 1}
	var in bytes.Buffer
	for _, c := range cfg {
		if strings.HasPrefix(c, "card=") && digitsOnly(c[5:]) && len(c) < 10 {
			fmt.Fprintf(&in, "cfg card %s\n", c[5:])
		} else if strings.HasPrefix(c, "procs=") && digitsOnly(c[6:]) && len(c) == 7 && c[6] != '0' {
			ds.procs = int(c[6] - '0')
		} else {
			return nil, false
		}
	}
	var batch []string
	var batchEv, pending []*sfEvent
	seg, blk := 0, 0
	flush := func() {
		if len(pending) == 0 {
			return
		}
		for _, e := range pending {
			e.seg, e.blk = seg, blk
		}
		pending = nil
		blk++
	}
	for _, t := range toks {
		switch {
		case t == "send":
			if len(batch) > 0 {
				fmt.Fprintf(&in, "batch %s\n", strings.Join(batch, " "))
				pending = append(pending, batchEv...)
			}
			batch, batchEv = nil, nil
		case t == "fl":
			in.WriteString("flush\n")
			flush()
		case t == "ro":
			in.WriteString("rotate\n")
			flush()
			if blk > 0 {
				seg++
				blk = 0
			}
		case strings.HasPrefix(t, "ev/"):
			p := strings.SplitN(t, "/", 4)
			if len(p) != 4 || !digitsOnly(p[1]) || !digitsOnly(p[2]) {
				return nil, false
			}
			vid, e1 := strconv.Atoi(p[1])
			ts, e2 := strconv.ParseUint(p[2], 10, 64)
			if e1 != nil || e2 != nil || vid >= 50 || ds.events[vid] != nil {
				return nil, false
			}
			ev := &sfEvent{vid: vid, ts: ts, fields: map[string]string{}}
			var fields []kv
			for _, x := range strings.Split(p[3], ",") {
				y := strings.SplitN(x, "~", 2)
				if len(y) != 2 {
					return nil, false
				}
				if _, ok := tvToJSON(y[1]); !ok {
					return nil, false
				}
				fields = append(fields, kv{y[0], y[1]})
				ev.fields[y[0]] = y[1]
			}
			if ev.fields["n"] != "i"+strconv.FormatUint(uint64(1)<<uint(vid), 10) {
				return nil, false
			}
			js, ok := eventJSON(vid, ts, fields, false)
			if !ok {
				return nil, false
			}
			ds.events[vid] = ev
			batch = append(batch, hexs(js))
			batchEv = append(batchEv, ev)
		default:
			return nil, false
		}
	}
	if len(batch) > 0 || len(pending) > 0 || len(ds.events) == 0 {
		return nil, false // every event must have been flushed (the restarted process only sees files)
	}
	ds.nseg = seg
	if blk > 0 {
		ds.nseg = seg + 1
	}
	ds.stdin = in.String()
	return ds, true
}

type sfQuery struct {
	e2eQuery
	tok  string
	span uint64 // tc: bucket width in ms
}

func sfParseQuery(tok string) (sfQuery, bool) {
	p := strings.Split(tok, "/")
	if n := len(p); n >= 7 && strings.HasPrefix(p[n-1], "tc:") {
		sp := p[n-1][3:]
		if !digitsOnly(sp) || len(sp) > 6 || strings.TrimLeft(sp, "0") == "" {
			return sfQuery{}, false
		}
		q, ok := parseE2EQuery(strings.Join(p[:n-1], "/"))
		if !ok || q.kind != "ids" {
			return sfQuery{}, false
		}
		s, _ := strconv.ParseUint(sp, 10, 64)
		q.kind = "tc"
		q.spl += fmt.Sprintf(" | timechart span=%ds count", s)
		return sfQuery{e2eQuery: q, tok: tok, span: s * 1000}, true
	}
	q, ok := parseE2EQuery(tok)
	if !ok || q.kind == "pages" {
		return sfQuery{}, false
	}
	return sfQuery{e2eQuery: q, tok: tok}, true
}

// one decoded answer of the worker
type sfAns struct {
	raw      map[string]interface{}
	err      string
	nErrors  int
	logErrs  []string
	recs     []map[string]interface{}
	rows     map[string][]string // stats: hex(group key) → values in query order; tc: bucket → [count]
	rowOrder []string
	bad      string // protocol problem
}

func sfDecode(q sfQuery, line string) sfAns {
	a := sfAns{rows: map[string][]string{}}
	dec := json.NewDecoder(strings.NewReader(line))
	dec.UseNumber()
	if err := dec.Decode(&a.raw); err != nil {
		a.bad = "undecodable"
		return a
	}
	if e, ok := a.raw["err"].(string); ok {
		a.err = e
	}
	if l, ok := a.raw["errors"].([]interface{}); ok {
		a.nErrors = len(l)
	}
	if l, ok := a.raw["logErrors"].([]interface{}); ok {
		for _, x := range l {
			a.logErrs = append(a.logErrs, fmt.Sprint(x))
		}
	}
	if l, ok := a.raw["recs"].([]interface{}); ok {
		for _, r := range l {
			if m, ok := r.(map[string]interface{}); ok {
				a.recs = append(a.recs, m)
			}
		}
	}
	if q.kind == "stats" || q.kind == "tc" {
		meas, _ := a.raw["measure"].([]interface{})
		gcols, _ := a.raw["groupByCols"].([]interface{})
		var perm []int
		for _, b := range q.bys {
			for gi, gc := range gcols {
				if fmt.Sprint(gc) == b {
					perm = append(perm, gi)
				}
			}
		}
		for _, mr := range meas {
			m, _ := mr.(map[string]interface{})
			gv, _ := m["GroupByValues"].([]interface{})
			var ks []string
			for _, g := range gv {
				ks = append(ks, fmt.Sprint(g))
			}
			mv, _ := m["MeasureVal"].(map[string]interface{})
			aggs := q.aggs
			if q.kind == "tc" {
				aggs = []string{"count"}
			}
			var vals []string
			for _, ag := range aggs {
				name := ag
				if ag == "count" {
					name = "count(*)"
				}
				v, ok := mv[name]
				if !ok {
					vals = append(vals, "missing")
				} else {
					vals = append(vals, ratOf(v))
				}
			}
			key := ""
			if q.kind == "tc" {
				key = strings.Join(ks, "\x1f")
			} else {
				if len(q.bys) == 0 || (len(ks) == 1 && ks[0] == "*") {
					ks = nil
				} else if len(perm) == len(ks) && len(perm) == len(q.bys) {
					re := make([]string, len(ks))
					for qi2, gi := range perm {
						re[qi2] = ks[gi]
					}
					ks = re
				}
				key = hexs(strings.Join(ks, "\x1f"))
			}
			if _, dup := a.rows[key]; dup {
				a.bad = "group reported twice"
			}
			a.rows[key] = vals
			a.rowOrder = append(a.rowOrder, key)
		}
		sort.Strings(a.rowOrder)
	}
	return a
}

// canonical e2e answer segment (format of e2e_suite.go, plus kind=tc)
func (a *sfAns) canon(q sfQuery) string {
	if a.bad == "undecodable" {
		return "kind=undecodable"
	}
	if a.err != "" {
		return "kind=error err=" + hexs(trunc(a.err, 200))
	}
	switch q.kind {
	case "ids", "recs":
		var parts []string
		for _, m := range a.recs {
			vid, ts := "?", "?"
			if v, ok := m["_vid"].(json.Number); ok {
				vid = v.String()
			}
			if v, ok := m["timestamp"].(json.Number); ok {
				ts = v.String()
			}
			if q.kind == "ids" {
				parts = append(parts, vid+"@"+ts)
				continue
			}
			var keys []string
			for k := range m {
				if k != "_vid" && k != "timestamp" && k != "_index" {
					keys = append(keys, k)
				}
			}
			sort.Strings(keys)
			var fs []string
			for _, k := range keys {
				if cv := canonVal(m[k]); cv != "z" {
					fs = append(fs, k+"="+cv)
				}
			}
			parts = append(parts, vid+"@"+ts+"{"+strings.Join(fs, ",")+"}")
		}
		if q.kind == "recs" {
			return "kind=recs recs=" + strings.Join(parts, ";")
		}
		return "kind=ids ids=" + strings.Join(parts, ",")
	case "stats", "tc":
		var rows []string
		for _, k := range a.rowOrder {
			rows = append(rows, k+"="+strings.Join(a.rows[k], ";"))
		}
		return "kind=" + q.kind + " rows=" + strings.Join(rows, ",")
	}
	return "kind=unsupported"
}

// ---- children

var sfRootOnce sync.Once
var sfRoot string

func sfTmp() string {
	sfRootOnce.Do(func() {
		d, err := os.MkdirTemp("", "verif-c18-")
		if err != nil {
			panic(err)
		}
		sfRoot = d
		exitHooks = append(exitHooks, func() { os.RemoveAll(d) })
	})
	d, err := os.MkdirTemp(sfRoot, "p")
	if err != nil {
		panic(err)
	}
	return d
}

type sfChild struct {
	lines   []string
	stderr  string
	werr    error
	timeout bool
}

func sfRunWorker(dir, stdin string, restart bool, maxprocs int) sfChild {
	self, err := os.Executable()
	if err != nil {
		self = os.Args[0]
	}
	// 4 GiB address-space limit: a length field read from a damaged file must not be able to take the memory of
	// the (shared) machine; an allocation beyond it ends the process with "fatal error: out of memory" = a crash
	cmd := exec.Command("/bin/sh", "-c", `ulimit -v 4194304; exec "$0" e2eworker`, self)
	cmd.Dir = dir // the data directory is given relative to it ("d"), as a deployment's dataPath may be
	cmd.Stdin = strings.NewReader(stdin)
	extra := []string{"VERIF_DATA_DIR=d", "VERIF_LOG_ERRORS=1"}
	if restart {
		extra = append(extra, "VERIF_WAIT_SYNC=1")
	}
	env := childEnv(extra...)
	for i, e := range env {
		if strings.HasPrefix(e, "GOMAXPROCS=") {
			env[i] = "GOMAXPROCS=" + strconv.Itoa(maxprocs)
		}
	}
	cmd.Env = env
	var ob, eb bytes.Buffer
	cmd.Stdout, cmd.Stderr = &ob, &eb
	var c sfChild
	if err := cmd.Start(); err != nil {
		c.werr = err
		return c
	}
	done := make(chan error, 1)
	go func() { done <- cmd.Wait() }()
	select {
	case c.werr = <-done:
	case <-time.After(60 * time.Second):
		cmd.Process.Kill()
		<-done
		c.timeout = true
	}
	c.stderr = eb.String()
	sc := bufio.NewScanner(&ob)
	sc.Buffer(make([]byte, 1<<20), 1<<26)
	for sc.Scan() {
		if l := sc.Text(); strings.HasPrefix(l, "{") && !strings.HasPrefix(l, `{"ingesterr"`) {
			c.lines = append(c.lines, l)
		}
	}
	return c
}

// first frame inside the repository's pkg/ tree of a Go panic / fatal error trace (generic helpers of pkg/utils are
// skipped when a caller inside pkg/ follows)
func sfCrashSite(stderr string) (site, msg string) {
	site = "unknown"
	el := strings.Split(stderr, "\n")
	first := ""
	for li, l := range el {
		if msg == "" && (strings.HasPrefix(l, "panic:") || strings.HasPrefix(l, "fatal error:")) {
			msg = trunc(l, 200)
		}
		if msg != "" && strings.HasPrefix(l, "goroutine ") && first != "" {
			break // only the first goroutine of the trace
		}
		if msg != "" && strings.Contains(l, "/pkg/") && strings.HasPrefix(l, "\t") && li > 0 {
			fn := strings.TrimSpace(el[li-1])
			if k := strings.LastIndex(fn, "("); k > 0 {
				fn = fn[:k]
			}
			if k := strings.LastIndex(fn, "/"); k >= 0 {
				fn = fn[k+1:]
			}
			fn = strings.ReplaceAll(fn, "[...]", "")
			if first == "" {
				first = fn
			}
			if !strings.Contains(l, "/pkg/utils/") {
				return fn, msg
			}
		}
	}
	if first != "" {
		return first, msg
	}
	return site, msg
}

// ---- locating and mutating the file

type sfMut struct {
	seg     int
	kind    string // csg, cmi, bsu, sst, sfm, segmeta, pqmr, crup
	arg     string // column name / index
	op      string // none, cut, set, xor
	pos     string
	val     int
	put     []byte // op put: the bytes written over the field that starts at pos
	fileCls string // file kind used in witness classes (csg-ts for the timestamp column)
}

func sfParseMut(s string) (m sfMut, ok bool) {
	p := strings.Split(s, "/")
	if len(p) != 3 || !digitsOnly(p[0]) || len(p[0]) > 2 {
		return
	}
	m.seg, _ = strconv.Atoi(p[0])
	ka := strings.SplitN(p[1], ":", 2)
	m.kind = ka[0]
	switch m.kind {
	case "csg", "cmi":
		if len(ka) != 2 || ka[1] == "" {
			return
		}
		m.arg = ka[1]
	case "pqmr", "crup":
		if len(ka) != 2 || !digitsOnly(ka[1]) || len(ka[1]) > 2 {
			return
		}
		m.arg = ka[1]
	case "bsu", "sst", "sfm", "segmeta":
		if len(ka) != 1 {
			return
		}
	default:
		return
	}
	m.fileCls = m.kind
	if m.kind == "csg" && m.arg == "timestamp" {
		m.fileCls = "csg-ts"
	}
	if p[2] == "none" || p[2] == "del" {
		m.op = p[2]
		return m, true
	}
	at := strings.SplitN(p[2], "@", 2)
	if len(at) != 2 {
		return
	}
	m.op = at[0]
	switch m.op {
	case "cut":
		m.pos = at[1]
	case "set", "xor":
		pv := strings.SplitN(at[1], "=", 2)
		if len(pv) != 2 || !digitsOnly(pv[1]) || len(pv[1]) > 3 {
			return
		}
		m.pos = pv[0]
		m.val, _ = strconv.Atoi(pv[1])
		if m.val > 255 {
			return
		}
	case "put":
		// put@<pos>=<hex>: 1..8 bytes written over a length / count / offset field (boundary patterns)
		pv := strings.SplitN(at[1], "=", 2)
		if len(pv) != 2 || len(pv[1]) < 2 || len(pv[1]) > 16 || len(pv[1])%2 != 0 {
			return
		}
		bs, err := hex.DecodeString(pv[1])
		if err != nil || strings.ToLower(pv[1]) != pv[1] {
			return
		}
		m.pos = pv[0]
		m.put = bs
	default:
		return
	}
	if !sfPosOK(m.pos) {
		return
	}
	return m, true
}

func sfPosOK(p string) bool {
	if len(p) < 2 {
		return false
	}
	switch p[0] {
	case 'a', 'e', 'm':
		return digitsOnly(p[1:]) && len(p) < 9
	case 'c':
		i := strings.IndexAny(p[1:], "hdtp")
		if i < 1 {
			return false
		}
		return digitsOnly(p[1:1+i]) && digitsOnly(p[2+i:]) && len(p) < 12
	case 'b':
		q := strings.Split(p, ":")
		return len(q) == 4 && q[0] == "b" && q[1] != "" && len(q[1]) < 20 && digitsOnly(q[2]) && len(q[2]) < 3 && len(q[3]) == 2 &&
			((q[3][0] == 'l' && q[3][1] >= '0' && q[3][1] <= '3') || (q[3][0] == 'o' && q[3][1] >= '0' && q[3][1] <= '7'))
	case 's':
		q := strings.Split(p, ":")
		return len(q) == 3 && q[0] == "s" && q[1] != "" && len(q[1]) < 20 && len(q[2]) >= 2 && len(q[2]) < 8 && (q[2][0] == 'a' || q[2][0] == 'e' || q[2][0] == 'l') && digitsOnly(q[2][1:])
	}
	return false
}

// the statistics record of one column inside a .sst file: version byte, then per column <len(2)> <name> <len(4)> <record>
func sfSstEntry(b []byte, col string) (lo, hi int) {
	off := 1
	for off+2 <= len(b) {
		nl := int(binary.LittleEndian.Uint16(b[off:]))
		if off+2+nl+4 > len(b) {
			return -1, -1
		}
		name := string(b[off+2 : off+2+nl])
		sl := int(binary.LittleEndian.Uint32(b[off+2+nl:]))
		start := off + 2 + nl + 4
		if start+sl > len(b) {
			return -1, -1
		}
		if name == col {
			return start, start + sl
		}
		off = start + sl
	}
	return -1, -1
}

// the offset (8 bytes) and length (4 bytes) fields of one column in one block of a .bsu file: per block
// <blkSumLen(4)> <blkNum(2)> <highTs(8)> <lowTs(8)> <recCount(2)> <numCols(2)>, then per column <len(2)> <name> <off(8)> <len(4)>
// (the columns are written in map order, so absolute positions hit a random column)
func sfBsuField(b []byte, col string, blk int) (offPos, lenPos int) {
	off := 0
	for off+26 <= len(b) {
		blkNum := int(binary.LittleEndian.Uint16(b[off+4:]))
		ncols := int(binary.LittleEndian.Uint16(b[off+24:]))
		off += 26
		for c := 0; c < ncols; c++ {
			if off+2 > len(b) {
				return -1, -1
			}
			nl := int(binary.LittleEndian.Uint16(b[off:]))
			if off+2+nl+12 > len(b) {
				return -1, -1
			}
			if blkNum == blk && string(b[off+2:off+2+nl]) == col {
				return off + 2 + nl, off + 2 + nl + 8
			}
			off += 2 + nl + 12
		}
	}
	return -1, -1
}

type sfChunk struct{ start, dataLen int }

func sfChunks(b []byte) []sfChunk {
	var cs []sfChunk
	off := 0
	for off+12 <= len(b) && binary.LittleEndian.Uint32(b[off:]) == 0x87654321 {
		ln := int(binary.LittleEndian.Uint32(b[off+8:]))
		if off+12+ln > len(b) {
			break
		}
		cs = append(cs, sfChunk{off, ln})
		off += 12 + ln
	}
	return cs
}

// resolves a symbolic position inside b[lo:hi); -1 = not applicable to this file
func sfResolve(pos string, b []byte, lo, hi int) int {
	if pos[0] == 'b' {
		q := strings.Split(pos, ":")
		blk, _ := strconv.Atoi(q[2])
		op, lp := sfBsuField(b, q[1], blk)
		if op < 0 {
			return -1
		}
		if q[3][0] == 'l' {
			return lp + int(q[3][1]-'0')
		}
		return op + int(q[3][1]-'0')
	}
	if pos[0] == 's' {
		q := strings.Split(pos, ":")
		elo, ehi := sfSstEntry(b, q[1])
		d, _ := strconv.Atoi(q[2][1:])
		if elo < 0 {
			return -1
		}
		if q[2][0] == 'l' { // byte d of the 4-byte length field in front of the column's record
			if d > 3 {
				return -1
			}
			return elo - 4 + d
		}
		if q[2][0] == 'a' {
			if elo+d >= ehi {
				return -1
			}
			return elo + d
		}
		if ehi-d < elo {
			return -1
		}
		return ehi - d
	}
	n, _ := strconv.Atoi(pos[1:])
	switch pos[0] {
	case 'a':
		return lo + n
	case 'e':
		return hi - n
	case 'm':
		return lo + (hi-lo)*n/1000
	case 'c':
		i := strings.IndexAny(pos[1:], "hdtp")
		k, _ := strconv.Atoi(pos[1 : 1+i])
		d, _ := strconv.Atoi(pos[2+i:])
		cs := sfChunks(b)
		if k >= len(cs) {
			return -1
		}
		c := cs[k]
		switch pos[1+i] {
		case 'h':
			return c.start + d
		case 'd':
			return c.start + 12 + d
		case 't':
			return c.start + 12 + c.dataLen - d
		case 'p':
			return c.start + 12 + c.dataLen*d/1000
		}
	}
	return -1
}

// segment directories below <dir>/d/*/final/<index>/<suffix dir>/<n>/, by n
func sfSegDirs(dir string) map[int]string {
	res := map[int]string{}
	filepath.Walk(filepath.Join(dir, "d"), func(p string, fi os.FileInfo, err error) error {
		if err != nil || fi.IsDir() || filepath.Ext(p) != ".bsu" {
			return nil
		}
		sd := filepath.Dir(p)
		if n, err := strconv.Atoi(filepath.Base(sd)); err == nil && strings.Contains(p, "/final/") {
			res[n] = sd
		}
		return nil
	})
	return res
}

func sfNth(pattern string, i int) string {
	l, _ := filepath.Glob(pattern)
	sort.Strings(l)
	if i < len(l) {
		return l[i]
	}
	return ""
}

// applies the mutation; returns (file changed, the segments whose stored data the mutation touches, note)
func sfApply(dir string, m sfMut, nseg int) (changed bool, damaged map[int]bool, note string) {
	damaged = map[int]bool{}
	if m.op == "none" {
		return false, damaged, "none"
	}
	var path string
	if m.kind == "segmeta" {
		path = sfNth(filepath.Join(dir, "d", "ingestnodes", "*", "segmeta.json"), 0)
	} else {
		sd, ok := sfSegDirs(dir)[m.seg]
		if !ok {
			return false, damaged, "no-such-segment"
		}
		base := filepath.Join(sd, strconv.Itoa(m.seg))
		idx, _ := strconv.Atoi(m.arg)
		switch m.kind {
		case "csg", "cmi":
			path = fmt.Sprintf("%s_%v.%s", base, xxhash.Sum64String(m.arg), m.kind)
		case "bsu", "sst", "sfm":
			path = base + "." + m.kind
		case "pqmr":
			path = sfNth(filepath.Join(base, "pqmr", "*.pqmr"), idx)
		case "crup":
			path = sfNth(filepath.Join(sd, "rups", "*.crup"), idx)
		}
	}
	b, err := os.ReadFile(path)
	if path == "" || err != nil {
		return false, damaged, "no-such-file"
	}
	if m.op == "del" {
		// the whole file is gone (segmeta.json: not exercised, the generator does not ask for it)
		if m.kind == "segmeta" {
			return false, damaged, "not-applicable"
		}
		if err := os.Remove(path); err != nil {
			panic(err)
		}
		damaged[m.seg] = true
		return true, damaged, "del"
	}
	lo, hi := 0, len(b)
	if m.kind == "segmeta" {
		// positions are relative to the line of segment m.seg (lines are in rotation order)
		lines := bytes.SplitAfter(b, []byte("\n"))
		if m.seg >= len(lines) || len(lines[m.seg]) == 0 {
			return false, damaged, "no-such-line"
		}
		for i := 0; i < m.seg; i++ {
			lo += len(lines[i])
		}
		hi = lo + len(lines[m.seg])
	}
	p := sfResolve(m.pos, b, lo, hi)
	if p < lo || p > hi || (m.op != "cut" && p >= hi) || (m.op == "cut" && p >= len(b)) {
		return false, damaged, "position-outside-file"
	}
	switch m.op {
	case "cut":
		b = b[:p]
	case "put":
		if p+len(m.put) > len(b) {
			return false, damaged, "position-outside-file"
		}
		if bytes.Equal(b[p:p+len(m.put)], m.put) {
			return false, damaged, "same-byte"
		}
		copy(b[p:], m.put)
	case "set":
		if b[p] == byte(m.val) {
			return false, damaged, "same-byte"
		}
		b[p] = byte(m.val)
	case "xor":
		if m.val == 0 {
			return false, damaged, "same-byte"
		}
		b[p] ^= byte(m.val)
	}
	if err := os.WriteFile(path, b, 0o644); err != nil {
		panic(err)
	}
	damaged[m.seg] = true
	if m.kind == "segmeta" && m.op == "cut" {
		for s := m.seg; s < nseg; s++ {
			damaged[s] = true // the lines after the cut are gone as well
		}
	}
	return true, damaged, fmt.Sprintf("%s@%d/%d", m.op, p, hi)
}

// ---- the property statement, checked on the answers of the restarted process

func sfSameVal(got interface{}, tv string) bool {
	cv := canonVal(got)
	if cv == tv {
		return true
	}
	if len(cv) > 1 && len(tv) > 1 && strings.ContainsRune("id", rune(cv[0])) && strings.ContainsRune("id", rune(tv[0])) {
		a, ok1 := new(big.Rat).SetString(cv[1:])
		b, ok2 := new(big.Rat).SetString(tv[1:])
		return ok1 && ok2 && a.Cmp(b) == 0
	}
	return false
}

type sfJudgement struct {
	fails []PropFail
	tags  []string
}

// Witness classes.  Column files (.csg) are written through the checksummed chunk file: what goes wrong is told apart
// (altered-value-served, wrong-event-returned, duplicate-event, silent-loss).  The other files carry no checksum at
// all; whatever the engine makes of a changed byte there (lost, altered or wrongly matched events) is one class per
// file kind: undetected-damage/<kind>.  Effects on OTHER segments, crashes and hangs are always classes of their own.
func (j *sfJudgement) fail(class, fileCls, msg string) {
	if fileCls != "csg" && fileCls != "csg-ts" && fileCls != "" {
		switch class {
		case "altered-value-served", "wrong-event-returned", "duplicate-event", "silent-loss":
			msg = class + ": " + msg
			class = "undetected-damage"
		}
	}
	sig := "segfault/" + class
	if fileCls != "" {
		sig += "/" + fileCls
	}
	for _, f := range j.fails {
		if f.Sig == sig {
			return
		}
	}
	j.fails = append(j.fails, PropFail{Sig: sig, Msg: msg})
}

// For every query, per segment: the answer holds the original values, OR events (or fields) of the DAMAGED segment are
// missing and an error is reported.  Never: a value that was not ingested, an event that does not satisfy the query,
// an event twice, an event/field of an undamaged segment missing.
func sfJudge(ds *sfDataset, qs []sfQuery, clean, got []sfAns, damaged map[int]bool, startupErrs []string, m sfMut, j *sfJudgement) {
	fc := m.fileCls
	// start-up errors count as a report only when they are about the damaged segment (its directory …/<n>/<n>) or, for
	// segmeta.json, about that file; a restart always logs one error about the next, still empty segment directory
	var about []string
	for _, e := range startupErrs {
		rel := m.kind == "segmeta" && strings.Contains(strings.ToLower(e), "segmeta")
		for s := range damaged {
			if strings.Contains(e, fmt.Sprintf("/%d/%d", s, s)) {
				rel = true
			}
		}
		if rel {
			about = append(about, e)
		}
	}
	startupErrs = about
	for qi, q := range qs {
		c, g := clean[qi], got[qi]
		where := fmt.Sprintf("query %d (%s)", qi, q.spl)
		reported := g.err != "" || g.nErrors > 0
		logged := len(g.logErrs) > 0 || len(startupErrs) > 0
		indication := "none"
		if reported {
			indication = "response"
		} else if logged {
			indication = "log"
		}
		if g.bad != "" {
			j.fail("altered-value-served", fc, where+": "+g.bad)
			continue
		}
		var lostOther, lostDamaged []string // what is missing, by segment class
		lose := func(seg int, what string) {
			if damaged[seg] {
				lostDamaged = append(lostDamaged, what)
			} else {
				lostOther = append(lostOther, what)
			}
		}
		switch q.kind {
		case "ids", "recs":
			want := map[int]bool{}
			for _, r := range c.recs {
				if v, ok := r["_vid"].(json.Number); ok {
					n, _ := strconv.Atoi(v.String())
					want[n] = true
				}
			}
			seen := map[int]bool{}
			if g.err == "" {
				for _, r := range g.recs {
					vn, ok := r["_vid"].(json.Number)
					vid, cerr := -1, error(nil)
					if ok {
						vid, cerr = strconv.Atoi(vn.String())
					}
					ev := ds.events[vid]
					if !ok || cerr != nil || ev == nil {
						if !ok && len(r) > 0 {
							// a record without its _vid column: the column may be the unreadable one; it must then belong to the damaged segment — cannot be told
							lostDamaged = append(lostDamaged, "a record came back without _vid")
							continue
						}
						j.fail("altered-value-served", fc, fmt.Sprintf("%s returns a record with _vid %v, which was never ingested: %v", where, r["_vid"], trunc(fmt.Sprint(r), 200)))
						continue
					}
					if seen[vid] {
						j.fail("duplicate-event", fc, fmt.Sprintf("%s returns event %d twice", where, vid))
					}
					seen[vid] = true
					if !want[vid] {
						j.fail("wrong-event-returned", fc, fmt.Sprintf("%s returns event %d (segment %d block %d), which does not satisfy the query on the ingested values: %v", where, vid, ev.seg, ev.blk, trunc(fmt.Sprint(r), 200)))
					}
					exp := map[string]string{"_vid": "i" + strconv.Itoa(vid), "timestamp": "i" + strconv.FormatUint(ev.ts, 10)}
					for k, v := range ev.fields {
						exp[k] = v
					}
					for k, w := range exp {
						gv, present := r[k]
						if !present || gv == nil {
							lose(ev.seg, fmt.Sprintf("field %s of event %d", k, vid))
						} else if !sfSameVal(gv, w) {
							j.fail("altered-value-served", fc, fmt.Sprintf("%s: event %d (segment %d block %d) field %s = %v, ingested %s", where, vid, ev.seg, ev.blk, k, gv, w))
						}
					}
					for k, gv := range r {
						if _, sent := exp[k]; !sent && gv != nil && k != "_index" {
							j.fail("altered-value-served", fc, fmt.Sprintf("%s: event %d field %s = %v was never ingested", where, vid, k, gv))
						}
					}
				}
			}
			for vid := range want {
				if !seen[vid] {
					lose(ds.events[vid].seg, fmt.Sprintf("event %d", vid))
				}
			}
		case "stats":
			// every group: sum(n) identifies the events whose n was summed (n = 2^vid): they must be events of that group
			// (on the ingested values); count must not exceed the group.  What is missing from the sum or from the
			// count is a loss, attributed to the segments of the missing events.
			sumIdx, cntIdx := -1, -1
			for i, a := range q.aggs {
				if a == "sum(n)" {
					sumIdx = i
				}
				if a == "count" {
					cntIdx = i
				}
			}
			for key, vals := range g.rows {
				if _, known := c.rows[key]; !known && g.err == "" {
					j.fail("altered-value-served", fc, fmt.Sprintf("%s reports a group %q that the ingested data does not have", where, sfUnhex(key)))
				}
				_ = vals
			}
			for key, cvals := range c.rows {
				if sumIdx < 0 || sumIdx >= len(cvals) {
					continue
				}
				cs, ok1 := new(big.Int).SetString(cvals[sumIdx], 10)
				if !ok1 {
					continue
				}
				members := 0
				for v := 0; v < cs.BitLen(); v++ {
					members += int(cs.Bit(v))
				}
				gs := big.NewInt(0)
				gcount := 0
				if vals, present := g.rows[key]; present && g.err == "" && strings.HasPrefix(fc, "sst") && strings.Join(vals, ";") != strings.Join(cvals, ";") {
					// the segment statistics hold ready-made aggregates: a changed byte there gives an arbitrary number (a carry
					// into or out of the bits of other events included), not an aggregate over fewer events
					j.fail("altered-value-served", fc, fmt.Sprintf("%s group %q: %s, the ingested data gives %s", where, sfUnhex(key), strings.Join(vals, ";"), strings.Join(cvals, ";")))
					continue
				}
				if vals, present := g.rows[key]; present && g.err == "" {
					if sv := vals[sumIdx]; sv != "none" {
						n, ok2 := new(big.Int).SetString(sv, 10)
						if !ok2 || n.Sign() < 0 {
							j.fail("altered-value-served", fc, fmt.Sprintf("%s group %q: sum(n) = %s is not a sum of ingested values", where, sfUnhex(key), sv))
							continue
						}
						gs = n
					}
					if cntIdx >= 0 && cntIdx < len(vals) {
						gcount, _ = strconv.Atoi(vals[cntIdx])
					}
					if extra := new(big.Int).AndNot(gs, cs); extra.Sign() != 0 {
						// events that were summed although they are not in this group / do not satisfy the filter
						var wrong []string
						genuine := true
						for v := 0; v < extra.BitLen(); v++ {
							if extra.Bit(v) == 1 {
								if ev := ds.events[v]; ev != nil {
									wrong = append(wrong, fmt.Sprintf("%d (segment %d block %d)", v, ev.seg, ev.blk))
								} else {
									genuine = false
								}
							}
						}
						if genuine {
							j.fail("wrong-event-returned", fc, fmt.Sprintf("%s group %q: sum(n) = %s counts event(s) %s, which do not satisfy the query / belong to the group on the ingested values (expected sum %s)", where, sfUnhex(key), vals[sumIdx], strings.Join(wrong, ", "), cvals[sumIdx]))
						} else {
							j.fail("altered-value-served", fc, fmt.Sprintf("%s group %q: sum(n) = %s is not a sum over ingested events (all of the group: %s)", where, sfUnhex(key), vals[sumIdx], cvals[sumIdx]))
						}
						if !genuine {
							// the value is wrong as a whole (a carry moves bits of other events): which events it lacks cannot be told
							continue
						}
						gs = new(big.Int).And(gs, cs)
					}
					if gcount > members {
						j.fail("altered-value-served", fc, fmt.Sprintf("%s group %q: count = %d, the group has %d events", where, sfUnhex(key), gcount, members))
					}
				}
				for v := 0; v < cs.BitLen(); v++ {
					if cs.Bit(v) == 1 && gs.Bit(v) == 0 && ds.events[v] != nil {
						lose(ds.events[v].seg, fmt.Sprintf("n of event %d in the sum of group %q", v, sfUnhex(key)))
					}
				}
				if cntIdx >= 0 && gcount < members {
					// which events are not counted cannot be told: attribute to the damaged segment when the deficit fits into it
					inDamaged := 0
					for v := 0; v < cs.BitLen(); v++ {
						if cs.Bit(v) == 1 && ds.events[v] != nil && damaged[ds.events[v].seg] {
							inDamaged++
						}
					}
					if members-gcount <= inDamaged {
						lostDamaged = append(lostDamaged, fmt.Sprintf("%d event(s) in the count of group %q", members-gcount, sfUnhex(key)))
					} else {
						lostOther = append(lostOther, fmt.Sprintf("%d event(s) in the count of group %q (the damaged segment has only %d there)", members-gcount, sfUnhex(key), inDamaged))
					}
				}
			}
		case "tc":
			// buckets: the dataset keeps the blocks of every segment in buckets of their own
			bucketSeg := map[string]int{}
			for _, ev := range ds.events {
				if ev.ts >= q.start && ev.ts <= q.end {
					b := q.start + (ev.ts-q.start)/q.span*q.span
					bucketSeg[strconv.FormatUint(b, 10)] = ev.seg
				}
			}
			if g.err == "" {
				for key, vals := range g.rows {
					cv, known := c.rows[key]
					gn, _ := strconv.Atoi(vals[0])
					cn := 0
					if known {
						cn, _ = strconv.Atoi(cv[0])
					}
					if gn > cn {
						j.fail("altered-value-served", fc, fmt.Sprintf("%s: bucket %s holds %d events, the ingested data has %d there", where, key, gn, cn))
					}
				}
			}
			for key, cv := range c.rows {
				gn := 0
				if vals, ok := g.rows[key]; ok && g.err == "" {
					gn, _ = strconv.Atoi(vals[0])
				}
				if cn, _ := strconv.Atoi(cv[0]); gn < cn {
					lose(bucketSeg[key], fmt.Sprintf("%d event(s) of bucket %s", cn-gn, key))
				}
			}
		}
		if len(lostOther) > 0 {
			j.fail("other-segment-affected", fc, fmt.Sprintf("%s: missing from an UNDAMAGED segment: %s (error indication: %s; %s)", where, trunc(strings.Join(lostOther, ", "), 200), indication, trunc(g.err+strings.Join(g.logErrs, " | "), 200)))
		}
		if len(lostDamaged) > 0 {
			switch indication {
			case "none":
				j.fail("silent-loss", fc, fmt.Sprintf("%s: missing without any error indication (response err/errors empty, nothing logged at error level): %s", where, trunc(strings.Join(lostDamaged, ", "), 300)))
				j.tags = append(j.tags, "loss:silent")
			case "log":
				j.tags = append(j.tags, "loss:error-logged-only")
			default:
				j.tags = append(j.tags, "loss:error-in-response")
			}
		} else if len(lostOther) == 0 {
			j.tags = append(j.tags, "answer:original")
		}
	}
}

func sfUnhex(h string) string {
	var b []byte
	for i := 0; i+1 < len(h); i += 2 {
		v, err := strconv.ParseUint(h[i:i+2], 16, 8)
		if err != nil {
			return "?" + h
		}
		b = append(b, byte(v))
	}
	return string(b)
}

// ---- exec

func execSegfault(line string) Result {
	f := strings.Fields(line)
	if len(f) < 7 || f[0] != "segfault" || f[len(f)-2] != "M" {
		return Result{Out: "bad-op"}
	}
	hpos, qpos := -1, -1
	for i, t := range f {
		if t == "H" && hpos < 0 {
			hpos = i
		}
		if t == "Q" && qpos < 0 {
			qpos = i
		}
	}
	if hpos < 1 || qpos < hpos || qpos >= len(f)-3 {
		return Result{Out: "bad-op"}
	}
	ds, ok := sfParseHistory(f[1:hpos], f[hpos+1:qpos])
	if !ok {
		return Result{Out: "bad-op"}
	}
	var qs []sfQuery
	var qin bytes.Buffer
	for _, t := range f[qpos+1 : len(f)-2] {
		q, ok := sfParseQuery(t)
		if !ok {
			return Result{Out: "bad-op"}
		}
		qs = append(qs, q)
		fmt.Fprintf(&qin, "q %d %d %d %d %s\n", q.from, q.size, q.start, q.end, hexs(q.spl))
	}
	m, ok := sfParseMut(f[len(f)-1])
	if !ok || m.seg >= ds.nseg {
		return Result{Out: "bad-op"}
	}
	dir := sfTmp()
	if keep := os.Getenv("VERIF_SF_KEEP"); keep != "" { // manual triage: keep the damaged directory and the query script
		dir = keep
		os.RemoveAll(dir)
		os.MkdirAll(dir, 0o755)
		os.WriteFile(filepath.Join(dir, "queries"), []byte("waitsync\n"+qin.String()), 0o644)
	} else {
		defer os.RemoveAll(dir)
	}

	// child 1: build the dataset, answer on the undamaged files
	c1 := sfRunWorker(dir, ds.stdin+qin.String(), false, 2)
	if c1.werr != nil || c1.timeout || len(c1.lines) != len(qs) {
		site, msg := sfCrashSite(c1.stderr)
		return Result{Out: fmt.Sprintf("worker-died clean-run err=%v answers=%d/%d", c1.werr, len(c1.lines), len(qs)),
			Fails: []PropFail{{Sig: "segfault/clean-run-failed", Msg: fmt.Sprintf("the engine process that builds the dataset failed (%v, timeout=%v): %s at %s", c1.werr, c1.timeout, msg, site)}}, Nontrivial: true}
	}
	clean := make([]sfAns, len(qs))
	var segs []string
	for i, q := range qs {
		clean[i] = sfDecode(q, c1.lines[i])
		segs = append(segs, clean[i].canon(q))
	}
	res := Result{Out: strings.Join(segs, " | ")}

	changed, damaged, note := sfApply(dir, m, ds.nseg)
	if m.kind == "sst" {
		// a .sst cut down to its version byte, or whose version byte is changed, is damaged in a way the reader can see
		// without a checksum (the writer never writes a file without column statistics): a class of its own (repaired by
		// patch c18-6; the other damage of the file stays in the recorded class undetected-damage/sst)
		var mp, mh int
		if k, _ := fmt.Sscanf(note, m.op+"@%d/%d", &mp, &mh); k == 2 && ((m.op == "cut" && mp == 1) || (m.op != "cut" && mp == 0)) {
			m.fileCls = "sst-header"
		}
	}
	res.Tags = append(res.Tags, "file:"+m.fileCls, "mut:"+m.op)
	if !changed {
		res.Tags = append(res.Tags, "unchanged:"+note)
	}
	res.Nontrivial = changed

	// child 2: fresh process on the (damaged) directory; one OS thread = one reader per segment visits all its blocks
	c2 := sfRunWorker(dir, "waitsync\n"+qin.String(), true, ds.procs)
	j := &sfJudgement{}
	if c2.timeout {
		j.fail("hang", m.fileCls, fmt.Sprintf("the restarted engine process did not finish %d queries within 60 s (%d answered) after %s of %s", len(qs), len(c2.lines), note, f[len(f)-1]))
		res.Fails = j.fails
		return res
	}
	if c2.werr != nil || len(c2.lines) != len(qs)+1 {
		site, msg := sfCrashSite(c2.stderr)
		if msg == "" {
			msg = trunc(strings.TrimSpace(c2.stderr), 300)
		}
		j.fails = append(j.fails, PropFail{Sig: "segfault/crash@" + site, Msg: fmt.Sprintf("the restarted engine process exited abnormally (%v) after %d of %d answers; mutation %s (%s): %s at %s", c2.werr, len(c2.lines)-1, len(qs), f[len(f)-1], note, msg, site)})
		res.Fails = j.fails
		res.Tags = append(res.Tags, "crash")
		return res
	}
	var sync struct {
		Sync      string   `json:"sync"`
		LogErrors []string `json:"logErrors"`
	}
	_ = json.Unmarshal([]byte(c2.lines[0]), &sync)
	if sync.Sync != "done" {
		j.fail("hang", m.fileCls, "the segment-meta sync of the restarted process did not finish: "+sync.Sync)
	}
	got := make([]sfAns, len(qs))
	for i, q := range qs {
		got[i] = sfDecode(q, c2.lines[i+1])
	}
	if os.Getenv("VERIF_SF_DEBUG") != "" { // manual triage: both answers of every query that differs
		fmt.Fprintf(os.Stderr, "mutation %s: %s; startup log errors: %v\n", f[len(f)-1], note, sync.LogErrors)
		for i, q := range qs {
			if a, b := clean[i].canon(q), got[i].canon(q); a != b || len(got[i].logErrs) > 0 {
				fmt.Fprintf(os.Stderr, "q%d %s\n  clean: %s\n  got  : %s\n  log  : %v\n", i, q.spl, a, b, got[i].logErrs)
			}
		}
	}
	sfJudge(ds, qs, clean, got, damaged, sync.LogErrors, m, j)
	res.Fails = j.fails
	seenTag := map[string]bool{}
	for _, t := range j.tags {
		if !seenTag[t] {
			seenTag[t] = true
			res.Tags = append(res.Tags, t)
		}
	}
	return res
}

// ---------------------------------------------------------------- generator

func sfEvTok(vid int, ts uint64, s, u, k string) string {
	return fmt.Sprintf("ev/%d/%d/s~s%s,u~s%s,k~s%s,n~i%d,i~i%d", vid, ts, hexs(s), hexs(u), hexs(k), uint64(1)<<uint(vid), vid%7)
}

// history: nseg segments × nblk blocks × nrec records; block b of segment s lives in [base+s*1e6+b*1e5, +nrec*1000)
func sfHistory(nseg, nblk, nrec int, lastOpen bool) (toks []string, lo, hi uint64) {
	vid := 1
	for s := 0; s < nseg; s++ {
		for b := 0; b < nblk; b++ {
			for r := 0; r < nrec; r++ {
				ts := sfBase + uint64(s)*1000000 + uint64(b)*100000 + uint64(r)*1000
				hi = ts
				// s: one dictionary word per block, different in every block; u: distinct per record (plain column under card=2)
				toks = append(toks, sfEvTok(vid, ts, fmt.Sprintf("w%d%d", s, b), fmt.Sprintf("u-%d-%d", vid, (vid*7919)%1000), fmt.Sprintf("k%d", vid%2)))
				vid++
			}
			toks = append(toks, "send")
			if b < nblk-1 || (lastOpen && s == nseg-1) {
				toks = append(toks, "fl")
			} else {
				toks = append(toks, "ro")
			}
		}
	}
	return toks, sfBase, hi
}

func sfQueries(nseg, nblk, nrec int, lo, hi uint64) []string {
	all := fmt.Sprintf("%d/%d", lo, hi+999)
	var q []string
	q = append(q, "q/0/1000/"+all+"/all/recs")
	// Filters that the range index cannot prune.  `col != <value of block b>` is false exactly for records of block b:
	// a reader that serves another block's values for block b lets them through.  With `| stats` the engine searches
	// a whole segment with one set of readers (one reader per column when GOMAXPROCS=1), in map order of the blocks;
	// sum(n) identifies the events that passed the filter.  Without it blocks are searched in small time-ordered batches.
	for rep := 0; rep < 2; rep++ {
		zz := hexs(fmt.Sprintf("zz%d", rep))
		vid := 1
		for s := 0; s < nseg; s++ {
			for b := 0; b < nblk; b++ {
				sv, uv := hexs(fmt.Sprintf("w%d%d", s, b)), hexs(fmt.Sprintf("u-%d-%d", vid, (vid*7919)%1000))
				q = append(q, fmt.Sprintf("q/0/1000/%s/c:s:ne:s%s,c:s:ne:s%s,and/stats:count+sum.n:-", all, sv, zz))
				if rep == 0 {
					q = append(q, fmt.Sprintf("q/0/1000/%s/c:u:ne:s%s/stats:count+sum.n:-", all, uv))
					q = append(q, fmt.Sprintf("q/0/1000/%s/c:s:ne:s%s", all, sv))
				}
				vid += nrec
			}
		}
	}
	q = append(q, fmt.Sprintf("q/0/1000/%s/c:s:eq:w%s", all, hexs("w*")))
	q = append(q, fmt.Sprintf("q/0/1000/%s/c:s:eq:s%s", all, hexs("w01")))
	q = append(q, fmt.Sprintf("q/0/1000/%s/c:n:ne:i32/stats:count+sum.n:-", all))
	q = append(q, fmt.Sprintf("q/0/1000/%s/c:n:ge:i0", all))
	q = append(q, fmt.Sprintf("q/0/1000/%s/c:i:ge:i0", all))
	q = append(q, "q/0/1000/"+all+"/all/stats:count+sum.n:-") // answered from the segment statistics (.sst) when possible
	q = append(q, "q/0/1000/"+all+"/all/stats:count+sum.n:k")
	q = append(q, "q/0/1000/"+all+"/all/stats:count+sum.n:s")
	q = append(q, "q/0/1000/"+all+"/all/tc:100")
	// time ranges that cut through the first and the last block of one segment (per-record timestamp checks)
	for s := 0; s < nseg; s++ {
		a := sfBase + uint64(s)*1000000 + 500
		b := sfBase + uint64(s)*1000000 + uint64(nblk-1)*100000 + uint64(nrec-1)*1000 - 500
		q = append(q, fmt.Sprintf("q/0/1000/%d/%d/all", a, b))
		q = append(q, fmt.Sprintf("q/0/1000/%d/%d/c:s:ne:s%s", a, b, hexs("zz9")))
		q = append(q, fmt.Sprintf("q/0/1000/%d/%d/all/stats:count+sum.n:k", a, b))
	}
	return q
}

func genSegfault(r *rand.Rand, n int, tier string) []string {
	type variant struct {
		nseg, nblk, nrec int
		open             bool
	}
	variants := []variant{{2, 3, 4, false}, {2, 2, 3, true}}
	cols := []string{"s", "u", "n", "k", "timestamp", "_vid", "i"}
	var muts []string // <file>/<mutation> without the segment
	add := func(file string, ms ...string) {
		for _, m := range ms {
			muts = append(muts, file+"/"+m)
		}
	}
	// column files: chunk k = block k.  Damage blocks that are not the first / not the only one a reader loads.
	for _, c := range cols {
		f := "csg:" + c
		add(f, "xor@c1p500=4", "xor@c1d0=1", "set@c1h0=0", "xor@c1h5=16", "xor@c1h8=1", "xor@c1h9=1", "cut@c1t1", "cut@c1t0", "cut@c1h0", "cut@c1h11", "cut@c1d1", "xor@c0p300=64", "xor@c2p999=128", "cut@e1", "cut@e3", "cut@a0", "cut@a3", "set@a0=0", "xor@a2=255", "cut@c1h4", "cut@c2h12", "xor@c0h4=1")
	}
	for _, c := range []string{"s", "u", "n", "k"} {
		f := "cmi:" + c
		add(f, "cut@a0", "cut@a1", "cut@a4", "cut@m500", "cut@e1", "xor@a0=1", "xor@a0=128", "xor@a1=1", "xor@a3=64", "xor@a4=1", "xor@m300=16", "xor@m700=255", "xor@e1=1")
	}
	for _, f := range []string{"bsu", "sst", "sfm", "segmeta"} {
		add(f, "cut@a0", "cut@a1", "cut@a7", "cut@m250", "cut@m500", "cut@m900", "cut@e1", "cut@e2", "xor@a0=1", "xor@a0=128", "xor@a1=255", "xor@a2=4", "xor@a6=1", "xor@a10=32", "xor@m200=8", "xor@m400=1", "xor@m600=64", "xor@m800=2", "xor@e1=1", "xor@e2=16", "set@m500=0", "set@m100=255")
	}
	add("bsu", "xor@b:u:1:l3=128", "xor@b:timestamp:0:l3=64", "xor@b:s:1:l1=1", "xor@b:n:1:o0=1", "xor@b:s:0:o7=128")
	add("sst", "xor@s:n:e16=1", "xor@s:n:e9=64", "xor@s:n:a2=1", "cut@s:n:a0", "xor@s:s:a2=3")
	// the whole file gone (not for the metadata).  A missing file of a column that the segment's metadata lists is not a
	// column the events lack: before patch c18-7 `s!="w00"` then held for every event of the segment (wrong-event-returned,
	// the error only logged); now no record of the segment is matched and the error is logged
	add("csg:s", "del")
	add("csg:u", "del")
	add("bsu", "del")
	add("sst", "del")
	add("cmi:s", "del")
	add("cmi:n", "del")
	// boundary patterns written over whole length / count / offset fields (single-byte changes never produce a value
	// near 2^32 or 2^64 in a field whose high bytes are zero): all ones, 2^n-8, the sign bit, the largest positive
	// value, 1 — little and big endian.  Field positions by the formats:
	//   .sst  s:<col>:l0 sst length of the column (4)   s:<col>:a10 HLL size (4)   s:<col>:a2 count (8)   a1 first name length (2)
	//   .bsu  b:<col>:<blk>:l0 block length (4), :o0 block offset (8)   a0 blkSumLen (4)  a22 recCount (2)  a24 numCols (2)  a26 first name length (2)
	//   .cmi  a0 cmilen (4)  a4 blkNum (2); bloom: a7 m (8 BE), a15 k (8 BE), a23 bitset length (8 BE); range index: a7 key length (2)
	//   .csg  c<k>h8 chunk length (4), c<k>h4 checksum (4); dictionary block: c<k>d1 number of words (2), c<k>d4 word length (2)
	//   rollup a2 number of buckets (2), a13 bitset size (2), a15 bitset length (8 BE);  pqmr a2 bitset size (2), a4 bitset length (8 BE)
	pat := map[int][]string{
		2: {"ffff", "f8ff", "fff8", "0080", "8000", "ff7f", "7fff", "0100", "0001"},
		4: {"ffffffff", "f8ffffff", "fffffff8", "00000080", "80000000", "ffffff7f", "7fffffff", "01000000", "00000001"},
		8: {"ffffffffffffffff", "f8ffffffffffffff", "fffffffffffffff8", "0000000000000080", "8000000000000000", "ffffffffffffff7f", "7fffffffffffffff", "0100000000000000", "0000000000000001"},
	}
	type field struct {
		file, pos string
		w         int
	}
	fields := []field{
		{"sst", "s:n:l0", 4}, {"sst", "s:n:a10", 4}, {"sst", "s:n:a2", 8}, {"sst", "s:s:l0", 4}, {"sst", "s:s:a10", 4}, {"sst", "a1", 2},
		{"bsu", "b:u:1:l0", 4}, {"bsu", "b:timestamp:0:l0", 4}, {"bsu", "b:s:1:o0", 8}, {"bsu", "b:n:0:o0", 8}, {"bsu", "a0", 4}, {"bsu", "a22", 2}, {"bsu", "a24", 2}, {"bsu", "a26", 2},
		{"cmi:s", "a0", 4}, {"cmi:s", "a4", 2}, {"cmi:s", "a7", 8}, {"cmi:s", "a15", 8}, {"cmi:s", "a23", 8}, {"cmi:n", "a0", 4}, {"cmi:n", "a7", 2},
		{"csg:s", "c1h8", 4}, {"csg:s", "c1h4", 4}, {"csg:s", "c1d1", 2}, {"csg:s", "c1d4", 2}, {"csg:u", "c0h8", 4}, {"csg:timestamp", "c1h8", 4}, {"csg:timestamp", "c0d2", 8},
		{"crup:0", "a2", 2}, {"crup:0", "a13", 2}, {"crup:0", "a15", 8}, {"pqmr:0", "a2", 2}, {"pqmr:0", "a4", 8},
	}
	var puts []string // every field × every pattern
	for _, f := range fields {
		for _, pt := range pat[f.w] {
			puts = append(puts, f.file+"/put@"+f.pos+"="+pt)
		}
	}
	// by construction in the quick tier: every field once with "all ones", the uint32 / uint64 fields also with 2^n-8
	var putCore []string
	for _, f := range fields {
		putCore = append(putCore, f.file+"/put@"+f.pos+"="+pat[f.w][0])
		if f.w >= 4 && (f.file == "sst" || f.file == "bsu" || strings.HasPrefix(f.file, "cmi")) {
			putCore = append(putCore, f.file+"/put@"+f.pos+"="+pat[f.w][1])
		}
	}
	muts = append(muts, puts...)
	add("pqmr:0", "cut@a0", "cut@m500", "xor@a2=255", "xor@a9=1", "xor@m900=16")
	add("crup:0", "cut@a0", "cut@m500", "xor@a0=255", "xor@a9=1", "xor@m900=16")
	var out []string
	line := func(v variant, seg int, mut string) string {
		h, lo, hi := sfHistory(v.nseg, v.nblk, v.nrec, v.open)
		procs := ""
		if r.Intn(4) == 0 {
			procs = " procs=4"
		}
		return "segfault card=2" + procs + " H " + strings.Join(h, " ") + " Q " + strings.Join(sfQueries(v.nseg, v.nblk, v.nrec, lo, hi), " ") + " M " + strconv.Itoa(seg) + "/" + mut
	}
	if tier != "thorough" && n > 160 {
		n = 160 // the runner raises n to the thorough count when a fact or proof is broken; every case is two engine processes
	}
	if tier == "thorough" {
		// every byte of the small files (positions beyond the end are reported as unchanged), three values per byte and
		// every truncation length; the enumeration is shuffled by the seed, the runner's seeds cover different parts
		var all []string
		for vi, v := range variants {
			for seg := 0; seg < v.nseg; seg++ {
				for _, f := range []string{"csg:s", "csg:timestamp", "csg:u", "csg:n", "cmi:s", "cmi:n", "bsu", "sst", "sfm", "segmeta", "pqmr:0", "crup:0"} {
					size := map[string]int{"csg:s": 100, "csg:timestamp": 100, "csg:u": 240, "csg:n": 220, "cmi:s": 130, "cmi:n": 100, "bsu": 300, "sst": 760, "sfm": 640, "segmeta": 330, "pqmr:0": 64, "crup:0": 130}[f]
					for p := 0; p < size; p++ {
						all = append(all, fmt.Sprintf("%d %d %s/xor@a%d=%d", vi, seg, f, p, []int{1, 128, 255}[p%3]), fmt.Sprintf("%d %d %s/cut@a%d", vi, seg, f, p))
					}
				}
			}
		}
		for vi, v := range variants {
			for seg := 0; seg < v.nseg; seg++ {
				for _, pm := range puts {
					all = append(all, fmt.Sprintf("%d %d %s", vi, seg, pm))
				}
			}
		}
		r.Shuffle(len(all), func(i, j int) { all[i], all[j] = all[j], all[i] })
		for _, a := range all {
			if len(out) >= n-len(muts)/4 {
				break
			}
			var vi, seg int
			var m string
			fmt.Sscanf(a, "%d %d %s", &vi, &seg, &m)
			out = append(out, line(variants[vi], seg, m))
		}
	}
	// quick: a fixed core (one case per file kind and mutation family) first, then random draws
	core := []string{"csg:s/xor@c1p500=4", "csg:u/xor@c1p500=4", "csg:timestamp/cut@e1", "csg:timestamp/xor@c1p500=4", "csg:n/cut@c1t1", "csg:k/xor@c1h5=16",
		"csg:s/cut@c1d1", "csg:_vid/xor@c1p500=4", "cmi:s/xor@m300=16", "cmi:n/cut@m500", "bsu/xor@m400=1", "bsu/cut@m500", "sst/xor@m400=1", "sst/cut@e1",
		"sfm/xor@m400=1", "sfm/cut@m500", "segmeta/xor@m400=1", "segmeta/cut@m500", "pqmr:0/xor@a9=1", "crup:0/xor@a9=1", "csg:s/none",
		"sst/cut@a1", "sst/xor@a0=255", "bsu/del", "sst/del", "sst/xor@s:n:e16=1", "csg:s/del", "csg:u/del"}
	core = append(core, putCore...)
	for i, c := range core {
		if len(out) < n {
			out = append(out, line(variants[i%2], i%2, c))
		}
	}
	for len(out) < n {
		v := variants[r.Intn(len(variants))]
		out = append(out, line(v, r.Intn(v.nseg), muts[r.Intn(len(muts))]))
	}
	// malformed share
	if n >= 8 {
		out[len(out)-1] = "segfault card=2 H ev/1/1700000000000/n~i2 send fl Q q/0/10/1/2/all M 0/csg:s/cut@zz"
		out[len(out)-2] = "segfault card=2 H ev/1/1700000000000/n~i3 send fl Q q/0/10/1/2/all M 0/bsu/none"
	}
	return out
}
