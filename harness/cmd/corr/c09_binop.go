package main

// C09, "arithmetic between vectors matches label sets": the vector–vector branch of
// segment.HelperQueryArithmeticAndLogical (pkg/segment/segexecution.go) without on()/ignoring().
//
//	binop <op> <0|1 bool> L=<hex name> <vec> R=<hex name> <vec>
//	vec ::= - | <series>|<series>…      series ::= <hex id>@<pts>      pts ::= - | <ts>:<int>,…
//	→ ok <hex id>@<ts>=<num>/<den>|nan,… …
//
// Exec puts the two vectors into mresults.MetricsResult{MetricName, Results} and calls the REAL helper.  Model:
// lean/SigModel/Model/PromqlBin.lean (theorems Props.C09 §6).  Property checked on the real code, independent of the
// model, when every id starts with the metric name of its vector (label part = the rest of the id) and no label set
// occurs twice within a vector: the ids of the answer are exactly the left ids whose LABEL SET occurs on the right
// (arithmetic, comparison, and) with a sample exactly (comparison filters: at most) at the timestamps BOTH series have;
// `unless`: the left samples at the timestamps the partner series does not have; `or`: all left samples plus the right
// samples at the timestamps at which no left series of the same label set has one (repair c09-19).  The label
// set of a label part is the multiset of its comma-separated items (binopLabelSet): the order of the labels and a
// comma behind the last one do not matter (repair c09-15; before it the id strings were compared).

import (
	"fmt"
	"math"
	"math/big"
	"math/rand"
	"sort"
	"strconv"
	"strings"

	dtu "github.com/siglens/siglens/pkg/common/dtypeutils"
	"github.com/siglens/siglens/pkg/segment"
	"github.com/siglens/siglens/pkg/segment/results/mresults"
	"github.com/siglens/siglens/pkg/segment/structs"
	sutils "github.com/siglens/siglens/pkg/segment/utils"
)

func init() {
	register(&Suite{Name: "promqlbin", Gen: genBinop, Exec: execBinop,
		Rule: "two result vectors (metric names that are prefixes of each other, equal, empty, containing { or ,) × 0–5 series per side whose ids are name + label part; label parts `{k:v,…` with values over the alphabet { } = \" \\ space , : / unicode and empty, shared between the sides by construction (same part / part differing in one byte / part with the other side's name inside) plus a small share of ids that do not start with the name × 15 operators (+ - * / % ^, 6 comparisons with and without bool, and/or/unless) × integer values incl. 0 divisors and timestamps present on one side only (samples judged per timestamp); non-trivial = both sides non-empty and at least one label part on both sides"})
}

var binopOps = map[string]sutils.LogicalAndArithmeticOperator{
	"add": sutils.LetAdd, "sub": sutils.LetSubtract, "mul": sutils.LetMultiply, "div": sutils.LetDivide, "mod": sutils.LetModulo, "pow": sutils.LetPower,
	"eq": sutils.LetEquals, "ne": sutils.LetNotEquals, "gt": sutils.LetGreaterThan, "lt": sutils.LetLessThan, "ge": sutils.LetGreaterThanOrEqualTo, "le": sutils.LetLessThanOrEqualTo,
	"and": sutils.LetAnd, "or": sutils.LetOr, "unless": sutils.LetUnless}

var binopOpNames = []string{"add", "sub", "mul", "div", "mod", "pow", "eq", "ne", "gt", "lt", "ge", "le", "and", "or", "unless"}

var binopNames = []string{"hits", "hits_total", "errs", "m", "mm", "m{", "a", "ab", "", "http_requests", "http", "x,y", "m:r"}
var binopValAtoms = []string{"h1", "h2", "/api/{id}", "/api/{id}/x", "{", "}", "{}", "a=b", `q"t`, `b\s`, " ", "sp ace", "ü", "日本", "", "a,b", "x:y", "/health", "{id}", "}{", "hits", "m{", "1", "*"}
var binopKeys = []string{"host", "route", "dc", "k", "le", "job"}

const binopValLimit = int64(1) << 20

type binSeries struct {
	id  string
	pts [][2]int64 // ts, value
}

func binopPart(r *rand.Rand) string {
	if r.Intn(25) == 0 { // a label part that does not look like one
		return []string{"", "{", "x", "{}", "{{", ","}[r.Intn(6)]
	}
	n := 1 + r.Intn(3)
	ks := append([]string(nil), binopKeys...)
	r.Shuffle(len(ks), func(i, j int) { ks[i], ks[j] = ks[j], ks[i] })
	ks = ks[:n]
	sort.Strings(ks)
	var sb strings.Builder
	sb.WriteString("{")
	for _, k := range ks {
		sb.WriteString(k + ":" + binopValAtoms[r.Intn(len(binopValAtoms))] + ",")
	}
	return sb.String()
}

// the label set of a label part: leading "{" dropped, comma-separated items, sorted, empty items dropped
func binopLabelSet(part string) string {
	var items []string
	for _, it := range strings.Split(strings.TrimPrefix(part, "{"), ",") {
		if it != "" {
			items = append(items, it)
		}
	}
	sort.Strings(items)
	return strings.Join(items, ",")
}

func binopVec(r *rand.Rand, name string, parts []string, op string, side int, grid []int64) []binSeries {
	var v []binSeries
	seen := map[string]bool{}
	for _, p := range parts {
		id := name + p
		if r.Intn(40) == 0 { // not well-formed: shorter than the name / another prefix
			id = []string{p, "zz" + p, name[:len(name)/2]}[r.Intn(3)]
		}
		if seen[id] {
			continue
		}
		seen[id] = true
		s := binSeries{id: id}
		for _, t := range grid {
			if r.Intn(6) == 0 { // a timestamp this side does not have
				continue
			}
			val := int64(r.Intn(41) - 8)
			if r.Intn(5) == 0 {
				val = int64(r.Intn(2000000)) - 1000000
			}
			if op == "pow" {
				if side == 0 {
					val = int64(r.Intn(60) - 20)
				} else {
					val = int64(r.Intn(5))
				}
			}
			s.pts = append(s.pts, [2]int64{t, val})
		}
		v = append(v, s)
	}
	r.Shuffle(len(v), func(i, j int) { v[i], v[j] = v[j], v[i] })
	return v
}

func binopVecTok(v []binSeries) string {
	if len(v) == 0 {
		return "-"
	}
	var ss []string
	for _, s := range v {
		p := "-"
		if len(s.pts) > 0 {
			var q []string
			for _, tv := range s.pts {
				q = append(q, fmt.Sprintf("%d:%d", tv[0], tv[1]))
			}
			p = strings.Join(q, ",")
		}
		ss = append(ss, hexs(s.id)+"@"+p)
	}
	return strings.Join(ss, "|")
}

func genBinop(r *rand.Rand, n int, tier string) []string {
	var out []string
	for c := 0; c < n; c++ {
		op := binopOpNames[r.Intn(len(binopOpNames))]
		b := 0
		if r.Intn(3) == 0 && (op == "eq" || op == "ne" || op == "gt" || op == "lt" || op == "ge" || op == "le") {
			b = 1
		}
		ln := binopNames[r.Intn(len(binopNames))]
		rn := binopNames[r.Intn(len(binopNames))]
		if r.Intn(5) == 0 {
			rn = ln
		}
		if r.Intn(6) == 0 { // names that are prefixes of each other
			rn = ln + []string{"_total", "m", "{", "x"}[r.Intn(4)]
			if r.Intn(2) == 0 {
				ln, rn = rn, ln
			}
		}
		// label parts: a common pool, each side takes a subset; plus near misses
		var pool []string
		for i := 1 + r.Intn(5); i > 0; i-- {
			pool = append(pool, binopPart(r))
		}
		var lp, rp []string
		for _, p := range pool {
			switch r.Intn(7) {
			case 0:
				lp = append(lp, p)
			case 1:
				rp = append(rp, p)
			case 3: // the same label set written differently: labels in another order, no comma behind the last one
				lp = append(lp, p)
				items := strings.Split(strings.TrimSuffix(strings.TrimPrefix(p, "{"), ","), ",")
				r.Shuffle(len(items), func(i, j int) { items[i], items[j] = items[j], items[i] })
				q := "{" + strings.Join(items, ",")
				if r.Intn(2) == 0 {
					q += ","
				}
				rp = append(rp, q)
			case 2: // near miss: one byte differs / the other metric name inside the part
				lp = append(lp, p)
				q := p + "x"
				if len(p) > 2 {
					i := 1 + r.Intn(len(p)-1)
					q = p[:i] + "{" + p[i:]
				}
				if r.Intn(3) == 0 {
					q = "{route:" + rn + "{,"
				}
				rp = append(rp, q)
			default:
				lp = append(lp, p)
				rp = append(rp, p)
			}
		}
		var grid []int64
		t := int64(1700000000 + r.Intn(1000))
		for i := 1 + r.Intn(4); i > 0; i-- {
			grid = append(grid, t)
			t += int64(1 + r.Intn(120))
		}
		lv := binopVec(r, ln, lp, op, 0, grid)
		rv := binopVec(r, rn, rp, op, 1, grid)
		out = append(out, fmt.Sprintf("binop %s %d L=%s %s R=%s %s", op, b, hexs(ln), binopVecTok(lv), hexs(rn), binopVecTok(rv)))
	}
	return out
}

func parseBinVec(s string) ([]binSeries, bool) {
	if s == "-" {
		return nil, true
	}
	var v []binSeries
	seen := map[string]bool{}
	for _, e := range strings.Split(s, "|") {
		x := strings.Split(e, "@")
		if len(x) != 2 {
			return nil, false
		}
		id, err := c09Hex(x[0])
		if err != nil || seen[id] {
			return nil, false
		}
		seen[id] = true
		bs := binSeries{id: id}
		if x[1] != "-" {
			tsSeen := map[int64]bool{}
			for _, tv := range strings.Split(x[1], ",") {
				y := strings.Split(tv, ":")
				if len(y) != 2 {
					return nil, false
				}
				t, ok := c09ParseUint(y[0])
				if !ok || t >= 1<<32 || tsSeen[int64(t)] {
					return nil, false
				}
				tsSeen[int64(t)] = true
				neg := strings.HasPrefix(y[1], "-")
				m, ok := c09ParseUint(strings.TrimPrefix(y[1], "-"))
				if !ok || m >= uint64(binopValLimit) {
					return nil, false
				}
				val := int64(m)
				if neg {
					val = -val
				}
				bs.pts = append(bs.pts, [2]int64{int64(t), val})
			}
		}
		v = append(v, bs)
	}
	return v, true
}

func binopKV(key, s string) (string, bool) {
	if !strings.HasPrefix(s, key+"=") {
		return "", false
	}
	b, err := c09Hex(s[len(key)+1:])
	return b, err == nil
}

func binopRes(name string, v []binSeries) *mresults.MetricsResult {
	res := &mresults.MetricsResult{MetricName: name, Results: map[string]map[uint32]float64{}, State: mresults.AGGREGATED}
	for _, s := range v {
		m := map[uint32]float64{}
		for _, tv := range s.pts {
			m[uint32(tv[0])] = float64(tv[1])
		}
		res.Results[s.id] = m
	}
	return res
}

func execBinop(line string) Result {
	f := strings.Fields(line)
	if len(f) != 7 || f[0] != "binop" {
		return Result{Out: "bad-op"}
	}
	op, okop := binopOps[f[1]]
	if !okop || (f[2] != "0" && f[2] != "1") {
		return Result{Out: "bad-op"}
	}
	ln, ok1 := binopKV("L", f[3])
	lv, ok2 := parseBinVec(f[4])
	rn, ok3 := binopKV("R", f[5])
	rv, ok4 := parseBinVec(f[6])
	if !ok1 || !ok2 || !ok3 || !ok4 {
		return Result{Out: "bad-op"}
	}
	if f[1] == "pow" {
		for _, s := range lv {
			for _, tv := range s.pts {
				if tv[1] > 8192 || tv[1] < -8192 {
					return Result{Out: "bad-op"}
				}
			}
		}
		for _, s := range rv {
			for _, tv := range s.pts {
				if tv[1] < 0 || tv[1] > 4 {
					return Result{Out: "bad-op"}
				}
			}
		}
	}
	resMap := map[uint64]*mresults.MetricsResult{1: binopRes(ln, lv), 2: binopRes(rn, rv)}
	qop := &structs.QueryArithmetic{LHS: 1, RHS: 2, Operation: op, ReturnBool: f[2] == "1"}
	final, scalar, err := segment.HelperQueryArithmeticAndLogical(qop, resMap, false, &dtu.MetricsTimeRange{StartEpochSec: 1700000000, EndEpochSec: 1700003600}, 1)
	if err != nil || scalar != nil {
		return Result{Out: "err"}
	}
	var toks []string
	got := map[string]bool{}
	for id, pts := range final {
		got[id] = true
		var tss []int
		for t := range pts {
			tss = append(tss, int(t))
		}
		sort.Ints(tss)
		var ps []string
		for _, t := range tss {
			v := pts[uint32(t)]
			switch {
			case math.IsNaN(v):
				ps = append(ps, fmt.Sprintf("%d=nan", t))
			case math.IsInf(v, 1):
				ps = append(ps, fmt.Sprintf("%d=inf", t))
			case math.IsInf(v, -1):
				ps = append(ps, fmt.Sprintf("%d=-inf", t))
			default:
				rt := new(big.Rat).SetFloat64(v)
				ps = append(ps, strconv.Itoa(t)+"="+rt.Num().String()+"/"+rt.Denom().String())
			}
		}
		toks = append(toks, hexs(id)+"@"+strings.Join(ps, ","))
	}
	sort.Strings(toks)

	// the property itself, on well-formed vectors
	var fails []PropFail
	wf := true
	lparts, rparts := map[string]bool{}, map[string]bool{}
	lsets, rsets := map[string]bool{}, map[string]bool{}
	partOK := func(p string) bool { return p == "" || p[0] == '{' } // a label part: empty, or "{…"
	for _, s := range lv {
		if !strings.HasPrefix(s.id, ln) || !partOK(strings.TrimPrefix(s.id, ln)) {
			wf = false
		}
		lparts[strings.TrimPrefix(s.id, ln)] = true
		lsets[binopLabelSet(strings.TrimPrefix(s.id, ln))] = true
	}
	for _, s := range rv {
		if !strings.HasPrefix(s.id, rn) || s.id == "" || !partOK(strings.TrimPrefix(s.id, rn)) {
			wf = false
		}
		rparts[strings.TrimPrefix(s.id, rn)] = true
		rsets[binopLabelSet(strings.TrimPrefix(s.id, rn))] = true
	}
	shared := 0
	// right label sets must be pairwise different for the partner to be determined (a vector never holds two series of one label set)
	rdup := false
	rOfSet := map[string]binSeries{}
	for _, s := range rv {
		ls := binopLabelSet(strings.TrimPrefix(s.id, rn))
		if _, ok := rOfSet[ls]; ok {
			rdup = true
		}
		rOfSet[ls] = s
	}
	ldup := false
	lIDsOfSet := map[string][]binSeries{}
	for _, s := range lv {
		ls := binopLabelSet(strings.TrimPrefix(s.id, ln))
		if len(lIDsOfSet[ls]) > 0 {
			ldup = true
		}
		lIDsOfSet[ls] = append(lIDsOfSet[ls], s)
	}
	if wf {
		for p := range lparts {
			if rsets[binopLabelSet(p)] {
				shared++
			}
		}
	}
	if wf && !rdup && !ldup {
		// PER TIMESTAMP: want[id] = the timestamps at which the answer must have a sample (comparison filters: may have one)
		isFilter := f[2] == "0" && (f[1] == "eq" || f[1] == "ne" || f[1] == "gt" || f[1] == "lt" || f[1] == "ge" || f[1] == "le")
		tsSet := func(s binSeries) map[int64]bool {
			m := map[int64]bool{}
			for _, tv := range s.pts {
				m[tv[0]] = true
			}
			return m
		}
		want := map[string]map[int64]bool{}
		for _, s := range lv {
			part := strings.TrimPrefix(s.id, ln)
			rs, has := rOfSet[binopLabelSet(part)]
			rts := tsSet(rs)
			w := map[int64]bool{}
			for t := range tsSet(s) {
				switch f[1] {
				case "or":
					w[t] = true
				case "unless":
					if !has || !rts[t] {
						w[t] = true
					}
				default:
					if has && rts[t] {
						w[t] = true
					}
				}
			}
			switch f[1] {
			case "or":
				want[s.id] = w
			case "unless":
				if len(w) > 0 {
					want[s.id] = w
				}
			default:
				if has {
					want[s.id] = w
				}
			}
		}
		clash := false // `or` writes a right series under its own id: an id that both sides use
		if f[1] == "or" {
			for _, s := range rv {
				ls := binopLabelSet(strings.TrimPrefix(s.id, rn))
				var lts map[int64]bool
				if l := lIDsOfSet[ls]; len(l) > 0 {
					lts = tsSet(l[0])
				}
				for t := range tsSet(s) {
					if !lts[t] {
						if want[s.id] == nil {
							want[s.id] = map[int64]bool{}
						} else if _, isLeft := lparts[strings.TrimPrefix(s.id, ln)]; isLeft && strings.HasPrefix(s.id, ln) {
							clash = true
						}
						want[s.id][t] = true
					}
				}
			}
		}
		var missing, extra []string
		for id, w := range want {
			if !got[id] {
				missing = append(missing, id)
				continue
			}
			for t := range w {
				if _, ok := final[id][uint32(t)]; !ok && !isFilter {
					missing = append(missing, fmt.Sprintf("%s@%d", id, t))
				}
			}
		}
		for id, pts := range final {
			if want[id] == nil {
				extra = append(extra, id)
				continue
			}
			for t := range pts {
				if !want[id][int64(t)] {
					extra = append(extra, fmt.Sprintf("%s@%d", id, t))
				}
			}
		}
		if (len(missing) > 0 || len(extra) > 0) && !clash {
			sort.Strings(missing)
			sort.Strings(extra)
			cls := "arith"
			if f[1] == "and" || f[1] == "or" || f[1] == "unless" {
				cls = f[1]
			}
			fails = append(fails, PropFail{Sig: "promql-binop/label-set-matching/" + cls, Msg: fmt.Sprintf("%q %s %q: series / samples %q missing from the answer, %q not expected (a series must find the series of the other vector that has the same label set, and the operator works on the samples of one timestamp)", ln, f[1], rn, trunc(strings.Join(missing, " ; "), 300), trunc(strings.Join(extra, " ; "), 300))})
		}
	}
	tg := []string{"op=" + f[1], fmt.Sprintf("wellformed=%v", wf)}
	if shared > 0 {
		tg = append(tg, "shared-label-part")
	}
	for p := range lparts {
		if strings.Count(p, "{") > 1 {
			tg = append(tg, "brace-in-value")
			break
		}
	}
	return Result{Out: strings.Join(append([]string{"ok"}, toks...), " "), Fails: fails, Nontrivial: len(lv) > 0 && len(rv) > 0 && shared > 0, Tags: tg}
}
