package main

// C05 — result order, limits, pagination: kernel correspondence.
//
// Suite "c05sched": the REAL block scheduler of the searcher (sortBlocks, getNextBlocks, getValidRRCs,
// getQSRSToProcess, getFilteredBlocks, the Fetch refill and the whole fetchRRCs bookkeeping — textual copies of
// Fetch/fetchRRCs/initializeQSRs generated at build time by cmd/overlaygen/c05.go with only the file reads
// redirected, see harness/overlay/pkg/segment/query/processor/export_c05_verif.go) on synthetic segment requests
// and blocks, plus scrollProcessor and headProcessor on synthetic batches.  Op lines: see lean/Oracle/C05.lean.
//
// Suite "c05cmp": the REAL compareValues / sortProcessor.less / sortProcessor.Process (IQR.Sort, GetTopN,
// MergeIQRs) on typed values.
//
// PropFail (independent of the Lean model):
//   sched/<mode>/released-out-of-order        concatenation of the released batches not sorted by timestamp
//   sched/<mode>/not-a-permutation            EOF reached but some record missing or released twice
//   sched/<mode>/no-eof-records-stuck         EOF not reached within 2·(#segments+#blocks)+4 Fetch calls
//        (the three above only for well-formed inputs: record inside its block's range, block inside its segment's range)
//   sched/<mode>/no-eof-records-stuck-ill-formed   the same for an ill-formed input (a block that reaches past the
//        time range its segment advertises, a record outside its block's range): order and completeness presuppose
//        well-formed input, that the search ENDS does not (Lean: fetch_always_reaches_eof)
//   scroll/not-drop-from, head/not-take-n     output of scroll / head is not drop(from) / take(n) of the input
//   sort-comparator/<class>                   `less` is not a strict weak order on the given records
//        class = not-transitive-within-tolerance | not-transitive-nan | inf-not-equal-to-itself | not-a-strict-weak-order
//   sort-output/<class>                       sorted output has an adjacent pair that is inverted under the exact
//        order of the requested keys; class = inversion-within-tolerance | adjacent-inversion
//   sort-output/not-a-prefix-of-a-permutation wrong number of records / a record twice / a foreign row

import (
	"encoding/hex"
	"fmt"
	"math"
	"math/big"
	"math/rand"
	"sort"
	"strconv"
	"strings"

	"github.com/siglens/siglens/pkg/segment/query/processor"
	sutils "github.com/siglens/siglens/pkg/segment/utils"
)

func init() {
	register(&Suite{Name: "c05sched", Gen: genC05Sched, Exec: execC05Sched,
		Rule: "1..4 segment requests with 0..6 blocks of 0..6 records, timestamps 0..9 (dense ties), overlapping / nested / identical / single-timestamp ranges, maxBlocks 1..4, both modes; larger random sets (up to 8 requests, 40 blocks); a share of ill-formed sets (record outside its block, block outside its segment) for model fidelity; direct getNextBlocks / getValidRRCs calls; scroll and head over arbitrary batchings; non-trivial = at least 2 blocks whose ranges overlap"})
	register(&Suite{Name: "c05cmp", Gen: genC05Cmp, Exec: execC05Cmp,
		Rule: "value pairs / records from a pool with floats closer than the tolerance (chains of 3e-5 and 6e-5 steps), values exactly one tolerance apart, ints around 2^53 and at the int64/uint64 limits, numeric strings (+1, .5, 5., 1e3, nan, inf), non-numeric and empty strings, bool, null; every op (num, auto, none, str, ip), asc/desc, 1..3 keys; sort runs of 2..8 records in 1..3 batches with limits around the heap threshold; non-trivial = two different ranks or two numeric values closer than 1e-3"})
}

// ---------------------------------------------------------------- parsing (must accept exactly what lean/Oracle/C05.lean accepts)

func c05Nat(s string) (uint64, bool) {
	if s == "" || len(s) > 15 {
		return 0, false
	}
	for _, c := range s {
		if c < '0' || c > '9' {
			return 0, false
		}
	}
	v, err := strconv.ParseUint(s, 10, 64)
	return v, err == nil
}

// a timestamp: any uint64 (the scheduler's last round uses math.MaxUint64 as its end time)
func c05U64(s string) (uint64, bool) {
	if s == "" || len(s) > 20 {
		return 0, false
	}
	for _, c := range s {
		if c < '0' || c > '9' {
			return 0, false
		}
	}
	v, err := strconv.ParseUint(s, 10, 64)
	return v, err == nil
}

func c05U64List(s string) ([]uint64, bool) {
	if s == "" {
		return []uint64{}, true
	}
	var out []uint64
	for _, t := range strings.Split(s, ",") {
		v, ok := c05U64(t)
		if !ok {
			return nil, false
		}
		out = append(out, v)
	}
	return out, true
}

func c05NatList(s string) ([]uint64, bool) {
	if s == "" {
		return []uint64{}, true
	}
	var out []uint64
	for _, t := range strings.Split(s, ",") {
		v, ok := c05Nat(t)
		if !ok {
			return nil, false
		}
		out = append(out, v)
	}
	return out, true
}

func c05Mode(s string) (int, bool) {
	switch s {
	case "rf":
		return 1, true
	case "rl":
		return 2, true
	}
	return 0, false
}

func c05ParseBlock(s string) (processor.VerifC05Block, bool) {
	f := strings.Split(s, ":")
	if len(f) != 3 {
		return processor.VerifC05Block{}, false
	}
	l, ok1 := c05U64(f[0])
	h, ok2 := c05U64(f[1])
	ts, ok3 := c05U64List(f[2])
	if !ok1 || !ok2 || !ok3 {
		return processor.VerifC05Block{}, false
	}
	return processor.VerifC05Block{Low: l, High: h, Ts: ts}, true
}

func c05ParseSegs(s string) ([]processor.VerifC05Seg, bool) {
	if s == "-" {
		return []processor.VerifC05Seg{}, true
	}
	var out []processor.VerifC05Seg
	for _, st := range strings.Split(s, "/") {
		f := strings.Split(st, "=")
		if len(f) != 2 {
			return nil, false
		}
		rg := strings.Split(f[0], "-")
		if len(rg) != 2 {
			return nil, false
		}
		a, ok1 := c05U64(rg[0])
		b, ok2 := c05U64(rg[1])
		if !ok1 || !ok2 {
			return nil, false
		}
		sg := processor.VerifC05Seg{Start: a, End: b}
		if f[1] != "" {
			for _, bt := range strings.Split(f[1], ";") {
				blk, ok := c05ParseBlock(bt)
				if !ok {
					return nil, false
				}
				sg.Blocks = append(sg.Blocks, blk)
			}
		}
		out = append(out, sg)
	}
	return out, true
}

// order runs of equal timestamps by id
func c05Canon(b []processor.VerifC05Rec) []processor.VerifC05Rec {
	out := append([]processor.VerifC05Rec{}, b...)
	i := 0
	for i < len(out) {
		j := i
		for j < len(out) && out[j].Ts == out[i].Ts {
			j++
		}
		run := out[i:j]
		sort.Slice(run, func(x, y int) bool { return run[x].Id < run[y].Id })
		i = j
	}
	return out
}

func c05ShowIds(bs [][]int) string {
	parts := make([]string, len(bs))
	for i, b := range bs {
		t := make([]string, len(b))
		for k, v := range b {
			t[k] = strconv.Itoa(v)
		}
		parts[i] = strings.Join(t, ",")
	}
	return strings.Join(parts, "|")
}

// ---------------------------------------------------------------- Exec: scheduler suite

func execC05Sched(line string) Result {
	f := strings.Fields(line)
	if len(f) == 0 {
		return Result{Out: "bad-op"}
	}
	switch f[0] {
	case "sched":
		return execC05SchedOp(f[1:])
	case "c5nb":
		if len(f) != 4 {
			return Result{Out: "bad-op"}
		}
		m, ok1 := c05Mode(f[1])
		mb, ok2 := c05Nat(f[2])
		if !ok1 || !ok2 || mb == 0 || mb > 64 {
			return Result{Out: "bad-op"}
		}
		var lows, highs []uint64
		for _, t := range strings.Split(f[3], ";") {
			b, ok := c05ParseBlock(t + ":")
			if !ok {
				return Result{Out: "bad-op"}
			}
			lows, highs = append(lows, b.Low), append(highs, b.High)
		}
		n, e, err := processor.VerifC05NextBlocks(m, int(mb), lows, highs)
		if err != nil {
			return Result{Out: "err"}
		}
		return Result{Out: fmt.Sprintf("%d %d", n, e), Nontrivial: len(lows) > 1, Tags: []string{"op=c5nb"}}
	case "c5vr":
		if len(f) != 4 {
			return Result{Out: "bad-op"}
		}
		m, ok1 := c05Mode(f[1])
		last, ok2 := c05Nat(f[2])
		ts, ok3 := c05NatList(f[3])
		if !ok1 || !ok2 || !ok3 {
			return Result{Out: "bad-op"}
		}
		n, err := processor.VerifC05ValidRRCs(m, last, ts)
		if err != nil {
			return Result{Out: "err"}
		}
		return Result{Out: strconv.Itoa(n), Nontrivial: len(ts) > 1, Tags: []string{"op=c5vr"}}
	case "scroll", "c5head":
		if len(f) != 3 {
			return Result{Out: "bad-op"}
		}
		a, ok1 := c05Nat(f[1])
		sz, ok2 := c05NatList(f[2])
		if !ok1 || !ok2 {
			return Result{Out: "bad-op"}
		}
		sizes := make([]int, len(sz))
		total := 0
		for i, v := range sz {
			if v > 10000 {
				return Result{Out: "bad-op"}
			}
			sizes[i] = int(v)
			total += int(v)
		}
		var out [][]int
		var err error
		if f[0] == "scroll" {
			out, err = processor.VerifC05Scroll(a, sizes)
		} else {
			out, err = processor.VerifC05Head(a, sizes)
		}
		if err != nil {
			return Result{Out: "err"}
		}
		res := Result{Out: c05ShowIds(out), Nontrivial: len(sizes) > 1 && a > 0, Tags: []string{"op=" + f[0]}}
		// property: concatenation = drop(from) / take(limit) of 0..total-1
		var flat []int
		for _, b := range out {
			flat = append(flat, b...)
		}
		var want []int
		if f[0] == "scroll" {
			for i := int(c05MinU64(a, uint64(total))); i < total; i++ {
				want = append(want, i)
			}
		} else {
			for i := 0; i < total && uint64(i) < a; i++ {
				want = append(want, i)
			}
		}
		if fmt.Sprint(flat) != fmt.Sprint(want) {
			sig := "scroll/not-drop-from"
			if f[0] == "c5head" {
				sig = "head/not-take-n"
			}
			res.Fails = append(res.Fails, PropFail{Sig: sig, Msg: fmt.Sprintf("got %v want %v", flat, want)})
		}
		return res
	}
	return Result{Out: "bad-op"}
}

func c05MinU64(a, b uint64) uint64 {
	if a < b {
		return a
	}
	return b
}

func execC05SchedOp(a []string) Result {
	if len(a) != 3 {
		return Result{Out: "bad-op"}
	}
	mode, ok1 := c05Mode(a[0])
	mb, ok2 := c05Nat(a[1])
	segs, ok3 := c05ParseSegs(a[2])
	if !ok1 || !ok2 || !ok3 || mb == 0 || mb > 64 {
		return Result{Out: "bad-op"}
	}
	nblocks := 0
	type rec struct {
		id int
		ts uint64
	}
	var all []rec
	wellFormed := true
	type rng struct{ lo, hi uint64 }
	var ranges []rng
	for _, sg := range segs {
		for _, b := range sg.Blocks {
			nblocks++
			ranges = append(ranges, rng{b.Low, b.High})
			if b.Low > b.High || b.Low < sg.Start || b.High > sg.End {
				wellFormed = false
			}
			for _, ts := range b.Ts {
				if ts < b.Low || ts > b.High {
					wellFormed = false
				}
				all = append(all, rec{len(all), ts})
			}
		}
	}
	maxFetches := 2*(len(segs)+nblocks) + 4
	batches, eof, err := processor.VerifC05Sched(mode, int(mb), segs, maxFetches)
	if err != nil {
		return Result{Out: "err:" + err.Error()}
	}
	parts := make([]string, len(batches))
	var flat []processor.VerifC05Rec
	for i, b := range batches {
		flat = append(flat, b...)
		cb := c05Canon(b)
		t := make([]string, len(cb))
		for k, r := range cb {
			t[k] = fmt.Sprintf("%d@%d", r.Id, r.Ts)
		}
		parts[i] = strings.Join(t, ",")
	}
	st := "stuck"
	if eof {
		st = "eof"
	}
	res := Result{Out: st + " [" + strings.Join(parts, "|") + "]"}
	overlap := false
	for i := range ranges {
		for j := i + 1; j < len(ranges); j++ {
			if ranges[i].lo <= ranges[j].hi && ranges[j].lo <= ranges[i].hi {
				overlap = true
			}
		}
	}
	res.Nontrivial = nblocks >= 2 && overlap
	modeName := map[int]string{1: "recentFirst", 2: "recentLast"}[mode]
	res.Tags = []string{"op=sched", "mode=" + modeName, fmt.Sprintf("segs=%d", c05MinInt(len(segs), 5)), "end=" + st}
	if overlap {
		res.Tags = append(res.Tags, "overlapping-ranges")
	}
	if !wellFormed {
		res.Tags = append(res.Tags, "ill-formed")
		// order and completeness presuppose records inside their block's range and blocks inside their segment's;
		// that the search ends does not: since the repair of fetchRRCs (lastBlocks) EOF is reached for every input
		if !eof {
			res.Fails = append(res.Fails, PropFail{Sig: "sched/" + modeName + "/no-eof-records-stuck-ill-formed",
				Msg: fmt.Sprintf("no EOF after %d Fetch calls; %d of %d records released", maxFetches, len(flat), len(all))})
		}
		return res
	}
	res.Tags = append(res.Tags, "well-formed")
	// the released sequence (ties included) is a function of the data: the same segments, handed to the searcher in
	// the opposite arrival order (in the server: map iteration order of the segment metadata), give the same batches
	if len(segs) > 1 {
		rev := make([]int, len(segs))
		for i := range rev {
			rev[i] = len(segs) - 1 - i
		}
		b2, eof2, err2 := processor.VerifC05SchedArrival(mode, int(mb), segs, maxFetches, rev)
		same := err2 == nil && eof2 == eof && len(b2) == len(batches)
		for i := 0; same && i < len(b2); i++ {
			if len(b2[i]) != len(batches[i]) {
				same = false
				break
			}
			for k := range b2[i] {
				if b2[i][k] != batches[i][k] {
					same = false
					break
				}
			}
		}
		if !same {
			res.Fails = append(res.Fails, PropFail{Sig: "sched/" + modeName + "/order-among-equal-timestamps-depends-on-arrival-order",
				Msg: fmt.Sprintf("same segments, reversed arrival order: released %v, before %v", b2, batches)})
		}
	}
	// the property itself
	for i := 1; i < len(flat); i++ {
		bad := (mode == 1 && flat[i-1].Ts < flat[i].Ts) || (mode == 2 && flat[i-1].Ts > flat[i].Ts)
		if bad {
			res.Fails = append(res.Fails, PropFail{Sig: "sched/" + modeName + "/released-out-of-order",
				Msg: fmt.Sprintf("record %d (ts %d) released before record %d (ts %d)", flat[i-1].Id, flat[i-1].Ts, flat[i].Id, flat[i].Ts)})
			break
		}
	}
	if !eof {
		res.Fails = append(res.Fails, PropFail{Sig: "sched/" + modeName + "/no-eof-records-stuck",
			Msg: fmt.Sprintf("no EOF after %d Fetch calls; %d of %d records released", maxFetches, len(flat), len(all))})
	} else {
		seen := map[int]int{}
		for _, r := range flat {
			seen[r.Id]++
		}
		okp := len(flat) == len(all)
		for _, r := range all {
			if seen[r.id] != 1 {
				okp = false
			}
		}
		for _, r := range flat {
			if r.Id < 0 || r.Id >= len(all) || all[r.Id].ts != r.Ts {
				okp = false
			}
		}
		if !okp {
			res.Fails = append(res.Fails, PropFail{Sig: "sched/" + modeName + "/not-a-permutation",
				Msg: fmt.Sprintf("%d records in, %d released (missing or duplicated)", len(all), len(flat))})
		}
	}
	return res
}

func c05MinInt(a, b int) int {
	if a < b {
		return a
	}
	return b
}

// ---------------------------------------------------------------- Gen: scheduler suite

func c05FmtSegs(segs []processor.VerifC05Seg) string {
	if len(segs) == 0 {
		return "-"
	}
	ss := make([]string, len(segs))
	for i, sg := range segs {
		bs := make([]string, len(sg.Blocks))
		for k, b := range sg.Blocks {
			t := make([]string, len(b.Ts))
			for q, v := range b.Ts {
				t[q] = strconv.FormatUint(v, 10)
			}
			bs[k] = fmt.Sprintf("%d:%d:%s", b.Low, b.High, strings.Join(t, ","))
		}
		ss[i] = fmt.Sprintf("%d-%d=%s", sg.Start, sg.End, strings.Join(bs, ";"))
	}
	return strings.Join(ss, "/")
}

// one random well-formed block inside [lo, hi] (time axis 0..T)
func c05GenBlock(r *rand.Rand, T int, maxRecs int, shape int) processor.VerifC05Block {
	var lo, hi int
	switch shape {
	case 0: // single timestamp
		lo = r.Intn(T + 1)
		hi = lo
	case 1: // whole axis
		lo, hi = 0, T
	default:
		lo = r.Intn(T + 1)
		hi = lo + r.Intn(T+1-lo)
	}
	n := r.Intn(maxRecs + 1)
	b := processor.VerifC05Block{Low: uint64(lo), High: uint64(hi), Ts: []uint64{}}
	for i := 0; i < n; i++ {
		b.Ts = append(b.Ts, uint64(lo+r.Intn(hi-lo+1)))
	}
	if n > 0 && r.Intn(2) == 0 { // tight range = hull of the records (what the writer produces)
		mn, mx := b.Ts[0], b.Ts[0]
		for _, t := range b.Ts {
			if t < mn {
				mn = t
			}
			if t > mx {
				mx = t
			}
		}
		b.Low, b.High = mn, mx
	}
	return b
}

func c05GenSegs(r *rand.Rand, nsegs, maxBlocksTotal, maxRecs, T int) []processor.VerifC05Seg {
	segs := []processor.VerifC05Seg{}
	left := maxBlocksTotal
	var proto *processor.VerifC05Block
	for i := 0; i < nsegs; i++ {
		nb := 0
		if left > 0 {
			nb = r.Intn(c05MinInt(left, 6) + 1)
			if nb == 0 && r.Intn(3) != 0 {
				nb = 1
			}
		}
		left -= nb
		sg := processor.VerifC05Seg{}
		for k := 0; k < nb; k++ {
			var b processor.VerifC05Block
			if proto != nil && r.Intn(5) == 0 { // identical range as an earlier block, other records
				b = processor.VerifC05Block{Low: proto.Low, High: proto.High, Ts: []uint64{}}
				for q := r.Intn(maxRecs + 1); q > 0; q-- {
					b.Ts = append(b.Ts, proto.Low+uint64(r.Intn(int(proto.High-proto.Low)+1)))
				}
			} else {
				b = c05GenBlock(r, T, maxRecs, r.Intn(6))
			}
			if proto == nil || r.Intn(3) == 0 {
				c := b
				proto = &c
			}
			sg.Blocks = append(sg.Blocks, b)
		}
		// segment range: hull of the blocks, sometimes widened
		if len(sg.Blocks) == 0 {
			a := r.Intn(T + 1)
			sg.Start, sg.End = uint64(a), uint64(a+r.Intn(T+1-a))
		} else {
			mn, mx := sg.Blocks[0].Low, sg.Blocks[0].High
			for _, b := range sg.Blocks {
				if b.Low < mn {
					mn = b.Low
				}
				if b.High > mx {
					mx = b.High
				}
			}
			if r.Intn(3) == 0 && mn > 0 {
				mn -= uint64(r.Intn(int(mn) + 1))
			}
			if r.Intn(3) == 0 {
				mx += uint64(r.Intn(3))
			}
			sg.Start, sg.End = mn, mx
		}
		segs = append(segs, sg)
	}
	return segs
}

func genC05Sched(r *rand.Rand, n int, tier string) []string {
	lines := []string{
		// hand-picked boundary cases
		"sched rf 1 -",
		"sched rl 1 -",
		"sched rf 2 0-5=",
		"sched rf 1 0-5=0:5:1,5/2-9=2:9:2,9",
		"sched rl 2 0-5=0:5:1,5/2-9=2:9:2,9", // oldest-first: before the repair (lastBlocks) records stayed in unsentRRCs, no EOF
		"sched rf 2 5-8=5:8:5,8;2:8:2,8",     // a block that reaches past the range its segment advertises: the same, newest-first
		"sched rl 4 0-8=8:8:8;0:0:0,0,0,11",  // a record outside its block's range, oldest-first
		// the end time of the last round: 0 / math.MaxUint64 lets every uint64 timestamp through
		"sched rl 2 0-5=0:5:1,5/2-18446744073709551615=2:18446744073709551615:2,18446744073709551615",
		"sched rl 2 0-5=0:5:1,5/2-18446744073709551614=2:18446744073709551614:2,9223372036854775808",
		"sched rf 2 18446744073709551610-18446744073709551615=18446744073709551610:18446744073709551615:18446744073709551615,18446744073709551610;0:18446744073709551615:0",
		"sched rf 1 0-18446744073709551616=",
		"sched rf 2 0-10=0:10:1,5,10;3:7:3,7/2-9=2:9:2,9",
		"sched rf 1 0-10=0:10:2;5:9:5,9",
		"sched rf 4 3-3=3:3:3,3,3;3:3:3/3-3=3:3:3",
		"c5nb rf 2 0:5;3:7;3:7;1:2",
		"c5nb rf 1 3:7;3:7;3:7",
		"c5nb rl 3 3:7",
		"c5vr rf 5 1,5,7,5,9",
		"c5vr rl 5 1,5,7,5,9",
		"scroll 3 2,2,2",
		"scroll 0 2,0,1",
		"scroll 9 2,2,2",
		"c5head 3 2,2,2",
		"c5head 0 2,2",
	}
	modes := []string{"rf", "rl"}
	for len(lines) < n {
		k := r.Intn(100)
		switch {
		case k < 3: // malformed
			bad := []string{"sched", "sched rf", "sched xx 1 -", "sched rf 0 -", "sched rf 1 0-5", "sched rf 1 0-5=1:2", "sched rf 1 0-5=a:2:1",
				"sched rf 1 0-5=1:2:1,,2", "sched rf 65 -", "sched rf 1 5=1:2:1", "c5nb rf 1", "c5nb rf 0 1:2", "c5nb rf 1 1:2:3", "c5vr rf x 1", "scroll x 1", "scroll 1 a", "c5head", "sched rf 1 - extra"}
			lines = append(lines, bad[r.Intn(len(bad))])
		case k < 60: // small dense
			mode := modes[0]
			if r.Intn(4) == 0 {
				mode = modes[1]
			}
			segs := c05GenSegs(r, 1+r.Intn(4), 6, 6, 9)
			if r.Intn(12) == 0 { // ill-formed: move one record or one block out of its range
				c05Break(r, segs)
			}
			lines = append(lines, fmt.Sprintf("sched %s %d %s", mode, 1+r.Intn(4), c05FmtSegs(segs)))
		case k < 72: // larger random
			mode := modes[0]
			if r.Intn(4) == 0 {
				mode = modes[1]
			}
			T := []int{9, 50, 1000}[r.Intn(3)]
			segs := c05GenSegs(r, 1+r.Intn(8), 40, 12, T)
			mb := []int{1, 2, 3, 4, 8, 16}[r.Intn(6)]
			lines = append(lines, fmt.Sprintf("sched %s %d %s", mode, mb, c05FmtSegs(segs)))
		case k < 82:
			nb := 1 + r.Intn(10)
			bs := make([]string, nb)
			for i := range bs {
				lo := r.Intn(10)
				bs[i] = fmt.Sprintf("%d:%d", lo, lo+r.Intn(10-lo))
				if r.Intn(15) == 0 {
					bs[i] = fmt.Sprintf("%d:%d", lo, r.Intn(10)) // possibly low > high
				}
			}
			lines = append(lines, fmt.Sprintf("c5nb %s %d %s", modes[r.Intn(2)], 1+r.Intn(5), strings.Join(bs, ";")))
		case k < 88:
			nt := r.Intn(9)
			ts := make([]string, nt)
			for i := range ts {
				ts[i] = strconv.Itoa(r.Intn(10))
			}
			lines = append(lines, fmt.Sprintf("c5vr %s %d %s", modes[r.Intn(2)], r.Intn(11), strings.Join(ts, ",")))
		default:
			nb := r.Intn(7)
			sz := make([]string, nb)
			for i := range sz {
				sz[i] = strconv.Itoa(r.Intn(7))
			}
			op := "scroll"
			if r.Intn(3) == 0 {
				op = "c5head"
			}
			lines = append(lines, fmt.Sprintf("%s %d %s", op, r.Intn(22), strings.Join(sz, ",")))
		}
	}
	return lines[:n]
}

func c05Break(r *rand.Rand, segs []processor.VerifC05Seg) {
	for tries := 0; tries < 10; tries++ {
		si := r.Intn(len(segs))
		if len(segs[si].Blocks) == 0 {
			continue
		}
		b := &segs[si].Blocks[r.Intn(len(segs[si].Blocks))]
		switch r.Intn(3) {
		case 0:
			if len(b.Ts) > 0 {
				b.Ts[r.Intn(len(b.Ts))] = uint64(r.Intn(12))
				return
			}
		case 1:
			b.High += uint64(1 + r.Intn(3))
			return
		default:
			if b.Low > 0 {
				b.Low--
				return
			}
		}
	}
}

// ---------------------------------------------------------------- comparator suite

type c05Val struct {
	tok  string
	enc  sutils.CValueEnclosure
	kind byte // i u f s b n
}

func c05FloatTok(f float64) string {
	return fmt.Sprintf("f%016x:%s", math.Float64bits(f), hex.EncodeToString([]byte(fmt.Sprintf("%f", f))))
}

func c05StrTok(s string) string {
	pf := "-"
	if v, err := strconv.ParseFloat(s, 64); err == nil {
		pf = fmt.Sprintf("%016x", math.Float64bits(v))
	}
	return "s" + hex.EncodeToString([]byte(s)) + ":" + pf
}

func c05ParseVal(tok string) (c05Val, bool) {
	if tok == "" {
		return c05Val{}, false
	}
	rest := tok[1:]
	switch tok[0] {
	case 'i':
		neg := strings.HasPrefix(rest, "-")
		d := strings.TrimPrefix(rest, "-")
		if _, ok := c05Digits(d); !ok {
			return c05Val{}, false
		}
		v, err := strconv.ParseInt(rest, 10, 64)
		if err != nil {
			return c05Val{}, false
		}
		_ = neg
		return c05Val{tok, sutils.CValueEnclosure{Dtype: sutils.SS_DT_SIGNED_NUM, CVal: v}, 'i'}, true
	case 'u':
		if _, ok := c05Digits(rest); !ok {
			return c05Val{}, false
		}
		v, err := strconv.ParseUint(rest, 10, 64)
		if err != nil {
			return c05Val{}, false
		}
		return c05Val{tok, sutils.CValueEnclosure{Dtype: sutils.SS_DT_UNSIGNED_NUM, CVal: v}, 'u'}, true
	case 'f':
		p := strings.Split(rest, ":")
		if len(p) != 2 || len(p[0]) != 16 {
			return c05Val{}, false
		}
		bits, err := strconv.ParseUint(p[0], 16, 64)
		txt, err2 := hex.DecodeString(p[1])
		if err != nil || err2 != nil {
			return c05Val{}, false
		}
		f := math.Float64frombits(bits)
		if string(txt) != fmt.Sprintf("%f", f) { // the op line must carry the real Sprintf result
			return c05Val{}, false
		}
		return c05Val{tok, sutils.CValueEnclosure{Dtype: sutils.SS_DT_FLOAT, CVal: f}, 'f'}, true
	case 's':
		p := strings.Split(rest, ":")
		if len(p) != 2 {
			return c05Val{}, false
		}
		b, err := hex.DecodeString(p[0])
		if err != nil {
			return c05Val{}, false
		}
		if c05StrTok(string(b)) != "s"+strings.ToLower(p[0])+":"+p[1] { // … and the real ParseFloat result
			return c05Val{}, false
		}
		return c05Val{tok, sutils.CValueEnclosure{Dtype: sutils.SS_DT_STRING, CVal: string(b)}, 's'}, true
	case 'b':
		if rest == "0" || rest == "1" {
			return c05Val{tok, sutils.CValueEnclosure{Dtype: sutils.SS_DT_BOOL, CVal: rest == "1"}, 'b'}, true
		}
	case 'n':
		if rest == "" {
			return c05Val{tok, sutils.CValueEnclosure{Dtype: sutils.SS_DT_BACKFILL, CVal: nil}, 'n'}, true
		}
	}
	return c05Val{}, false
}

func c05Digits(s string) (string, bool) {
	if s == "" || len(s) > 20 {
		return "", false
	}
	for _, c := range s {
		if c < '0' || c > '9' {
			return "", false
		}
	}
	return s, true
}

func c05Op(s string) (string, bool) {
	switch s {
	case "num", "auto", "str", "ip":
		return s, true
	case "none":
		return "", true
	}
	return "", false
}

func c05ParseKeys(s string) ([]processor.VerifC05Key, bool) {
	var out []processor.VerifC05Key
	for _, t := range strings.Split(s, ",") {
		if len(t) < 2 || (t[0] != 'a' && t[0] != 'd') {
			return nil, false
		}
		op, ok := c05Op(t[1:])
		if !ok {
			return nil, false
		}
		out = append(out, processor.VerifC05Key{Asc: t[0] == 'a', Op: op})
	}
	return out, true
}

func c05ParseRec(nkeys int, s string) ([]c05Val, bool) {
	toks := strings.Split(s, ",")
	if len(toks) != nkeys {
		return nil, false
	}
	out := make([]c05Val, nkeys)
	for i, t := range toks {
		v, ok := c05ParseVal(t)
		if !ok {
			return nil, false
		}
		out[i] = v
	}
	return out, true
}

func c05Encs(r []c05Val) []sutils.CValueEnclosure {
	out := make([]sutils.CValueEnclosure, len(r))
	for i, v := range r {
		out[i] = v.enc
	}
	return out
}

// ---- the exact ("ideal") order of the requested keys, used only by PropFail: numbers by their float64 value
// (integers converted to float64 as the engine does — granted — but NO tolerance), strings byte-wise, rank numeric < string < other with
// rank other last in both directions.  NaN is not ordered by the property: pairs involving NaN are skipped.

type c05Ideal struct {
	rank int // 1 numeric 2 string 3 other
	num  *big.Float
	nan  bool
	inf  int
	str  string
}

func c05IdealOf(v c05Val, op string) c05Ideal {
	numeric := func(f float64) c05Ideal {
		if math.IsNaN(f) {
			return c05Ideal{rank: 1, nan: true}
		}
		if math.IsInf(f, 0) {
			s := 1
			if f < 0 {
				s = -1
			}
			return c05Ideal{rank: 1, inf: s}
		}
		return c05Ideal{rank: 1, num: new(big.Float).SetPrec(1100).SetFloat64(f)}
	}
	str := func() string {
		s, _ := v.enc.GetValueAsString()
		return s
	}
	switch v.kind {
	case 'n':
		return c05Ideal{rank: 3}
	case 'i':
		if op == "str" {
			return c05Ideal{rank: 2, str: str()}
		}
		return numeric(float64(v.enc.CVal.(int64)))
	case 'u':
		if op == "str" {
			return c05Ideal{rank: 2, str: str()}
		}
		return numeric(float64(v.enc.CVal.(uint64)))
	case 'f':
		if op == "str" {
			return c05Ideal{rank: 2, str: str()}
		}
		return numeric(v.enc.CVal.(float64))
	case 's':
		s := v.enc.CVal.(string)
		if op == "num" || op == "auto" || op == "" {
			if f, err := strconv.ParseFloat(s, 64); err == nil && c05LooksNumeric(s) {
				return numeric(f)
			}
		}
		return c05Ideal{rank: 2, str: s}
	}
	return c05Ideal{rank: 2, str: str()}
}

// what Splunk-style "auto" treats as a number: the decimal/exponent spellings and nan/inf words that the code accepts
func c05LooksNumeric(s string) bool {
	switch s {
	case "NaN", "nan", "Inf", "inf", "-Inf", "-inf":
		return true
	}
	if s == "" {
		return false
	}
	for _, c := range s {
		if (c < '0' || c > '9') && !strings.ContainsRune(".-+eE", c) {
			return false
		}
	}
	return true
}

// -1 / 0 / +1 under the exact order of one key; ok=false when NaN is involved
func c05IdealCmp(a, b c05Ideal, asc bool) (int, bool) {
	if a.rank == 3 || b.rank == 3 {
		if a.rank == b.rank {
			return 0, true
		}
		if a.rank == 3 {
			return 1, true
		}
		return -1, true
	}
	c := 0
	if a.rank != b.rank {
		c = -1
		if a.rank > b.rank {
			c = 1
		}
	} else if a.rank == 1 {
		if a.nan || b.nan {
			return 0, false
		}
		switch {
		case a.inf != 0 || b.inf != 0:
			av, bv := a.inf, b.inf
			c = 0
			if av < bv {
				c = -1
			} else if av > bv {
				c = 1
			}
		default:
			c = a.num.Cmp(b.num)
		}
	} else {
		c = strings.Compare(a.str, b.str)
	}
	if !asc {
		c = -c
	}
	return c, true
}

func c05IdealLess(keys []processor.VerifC05Key, a, b []c05Val) (less bool, ok bool) {
	for i, k := range keys {
		c, ok := c05IdealCmp(c05IdealOf(a[i], k.Op), c05IdealOf(b[i], k.Op), k.Asc)
		if !ok {
			return false, false
		}
		if c != 0 {
			return c < 0, true
		}
	}
	return false, true
}

// classify why two records compare EQUAL-ish under the code although the exact order separates them
func c05Class(keys []processor.VerifC05Key, recs ...[]c05Val) string {
	nan, tol, inf := false, false, false
	for i, k := range keys {
		var ids []c05Ideal
		for _, r := range recs {
			ids = append(ids, c05IdealOf(r[i], k.Op))
		}
		for x := range ids {
			if ids[x].rank == 1 && ids[x].nan {
				nan = true
			}
			if ids[x].rank == 1 && ids[x].inf != 0 {
				inf = true
			}
			for y := x + 1; y < len(ids); y++ {
				a, b := ids[x], ids[y]
				if a.rank != 1 || b.rank != 1 || a.num == nil || b.num == nil {
					continue
				}
				d := new(big.Float).SetPrec(1100).Sub(a.num, b.num)
				d.Abs(d)
				if d.Sign() != 0 && d.Cmp(big.NewFloat(0.00011)) < 0 {
					tol = true
				}
			}
		}
	}
	switch {
	case nan:
		return "nan"
	case inf:
		return "inf"
	case tol:
		return "tolerance"
	}
	return ""
}

func execC05Cmp(line string) Result {
	f := strings.Fields(line)
	if len(f) == 0 {
		return Result{Out: "bad-op"}
	}
	switch f[0] {
	case "cmpv":
		if len(f) != 5 || (f[1] != "asc" && f[1] != "desc") {
			return Result{Out: "bad-op"}
		}
		op, ok := c05Op(f[2])
		a, ok1 := c05ParseVal(f[3])
		b, ok2 := c05ParseVal(f[4])
		if !ok || !ok1 || !ok2 {
			return Result{Out: "bad-op"}
		}
		c := processor.VerifC05CompareValues(&a.enc, &b.enc, f[1] == "asc", op)
		out := map[int]string{0: "eq", -1: "lt", 1: "gt"}[c]
		if out == "" {
			out = "unknown"
		}
		ia, ib := c05IdealOf(a, op), c05IdealOf(b, op)
		res := Result{Out: out, Tags: []string{"op=cmpv", "sortop=" + f[2], fmt.Sprintf("ranks=%d%d", ia.rank, ib.rank)}}
		res.Nontrivial = ia.rank != ib.rank || c05Close(ia, ib)
		return res
	case "c5less":
		if len(f) != 4 {
			return Result{Out: "bad-op"}
		}
		keys, ok := c05ParseKeys(f[1])
		if !ok {
			return Result{Out: "bad-op"}
		}
		a, ok1 := c05ParseRec(len(keys), f[2])
		b, ok2 := c05ParseRec(len(keys), f[3])
		if !ok1 || !ok2 {
			return Result{Out: "bad-op"}
		}
		out := "false"
		if processor.VerifC05Less(keys, c05Encs(a), c05Encs(b)) {
			out = "true"
		}
		return Result{Out: out, Nontrivial: len(keys) > 1, Tags: []string{"op=c5less", fmt.Sprintf("keys=%d", len(keys))}}
	case "c5sort":
		return execC05Sort(f[1:])
	}
	return Result{Out: "bad-op"}
}

func c05Close(a, b c05Ideal) bool {
	if a.rank != 1 || b.rank != 1 || a.num == nil || b.num == nil {
		return false
	}
	d := new(big.Float).SetPrec(1100).Sub(a.num, b.num)
	return d.Abs(d).Cmp(big.NewFloat(0.001)) < 0
}

func execC05Sort(a []string) Result {
	if len(a) != 3 {
		return Result{Out: "bad-op"}
	}
	lim, ok1 := c05Nat(a[0])
	keys, ok2 := c05ParseKeys(a[1])
	if !ok1 || !ok2 {
		return Result{Out: "bad-op"}
	}
	if lim == 0 {
		// `sort 0 …` = no limit: the SPL parser (onSortLimit1) hands the processor Limit = math.MaxUint64
		lim = math.MaxUint64
	}
	for _, k := range keys {
		if k.Op == "ip" { // sortProcessor.validate rejects it: Process fails
			return Result{Out: "bad-op"}
		}
	}
	var recs [][]c05Val
	var batches [][][]sutils.CValueEnclosure
	for _, bt := range strings.Split(a[2], "|") {
		batch := [][]sutils.CValueEnclosure{}
		if bt != "" {
			for _, rt := range strings.Split(bt, ";") {
				rc, ok := c05ParseRec(len(keys), rt)
				if !ok {
					return Result{Out: "bad-op"}
				}
				recs = append(recs, rc)
				batch = append(batch, c05Encs(rc))
			}
		}
		batches = append(batches, batch)
	}
	res := Result{Tags: []string{"op=c5sort", fmt.Sprintf("keys=%d", len(keys)), fmt.Sprintf("batches=%d", c05MinInt(len(batches), 4))}, Nontrivial: len(recs) > 2}
	n := len(recs)
	lt := make([][]bool, n)
	for i := range lt {
		lt[i] = make([]bool, n)
		for j := range lt[i] {
			lt[i][j] = processor.VerifC05Less(keys, c05Encs(recs[i]), c05Encs(recs[j]))
		}
	}
	// strict weak order on these records? (what sort.Slice / the heap / the merge need)
	swo := true
	var wit [3]int
	for i := 0; i < n && swo; i++ {
		if lt[i][i] {
			swo, wit = false, [3]int{i, i, i}
		}
	}
	for i := 0; i < n && swo; i++ {
		for j := 0; j < n && swo; j++ {
			for k := 0; k < n && swo; k++ {
				if lt[i][j] && lt[j][k] && !lt[i][k] {
					swo, wit = false, [3]int{i, j, k}
				}
				eq := func(x, y int) bool { return !lt[x][y] && !lt[y][x] }
				if eq(i, j) && eq(j, k) && !eq(i, k) {
					swo, wit = false, [3]int{i, j, k}
				}
			}
		}
	}
	if !swo {
		res.Out = "nonswo"
		res.Tags = append(res.Tags, "nonswo")
		cls := map[string]string{"nan": "not-transitive-nan", "tolerance": "not-transitive-within-tolerance", "inf": "inf-not-equal-to-itself", "": "not-a-strict-weak-order"}[c05Class(keys, recs[wit[0]], recs[wit[1]], recs[wit[2]])]
		res.Fails = append(res.Fails, PropFail{Sig: "sort-comparator/" + cls,
			Msg: fmt.Sprintf("less is not a strict weak order on records %d,%d,%d of the op line (a~b, b~c but a<c, or a<b<c without a<c)", wit[0], wit[1], wit[2])})
	}
	var ids []int
	var err error
	var pan interface{}
	func() {
		defer func() { pan = recover() }()
		ids, err = processor.VerifC05Sort(keys, lim, batches)
	}()
	if pan != nil {
		// a panic inside sortProcessor.Process runs on a goroutine of the query pipeline in the real server: the process exits
		res.Out = "panic"
		shape := "limited"
		if lim > math.MaxInt64 {
			shape = "limit-0-unlimited"
		}
		res.Fails = append(res.Fails, PropFail{Sig: "sort-output/panic/" + shape, Msg: trunc(fmt.Sprintf("sortProcessor.Process panicked (limit %d): %v", lim, pan), 300)})
		return res
	}
	if err != nil {
		res.Out = "err"
		return res
	}
	// output = prefix of a permutation
	want := n
	if uint64(want) > lim {
		want = int(lim)
	}
	seen := map[int]bool{}
	okp := len(ids) == want
	for _, id := range ids {
		if id < 0 || id >= n || seen[id] {
			okp = false
			break
		}
		seen[id] = true
	}
	if !okp {
		res.Fails = append(res.Fails, PropFail{Sig: "sort-output/not-a-prefix-of-a-permutation", Msg: fmt.Sprintf("ids %v for %d records, limit %d", ids, n, lim)})
		if swo {
			res.Out = "badids"
		}
		return res
	}
	// adjacent inversion under the exact order of the requested keys; and (limit) nothing left out may precede the last one kept
	check := func(x, y int, what string) {
		if l, ok := c05IdealLess(keys, recs[y], recs[x]); ok && l {
			cls := map[string]string{"nan": "", "tolerance": "inversion-within-tolerance", "inf": "", "": "adjacent-inversion"}[c05Class(keys, recs[x], recs[y])]
			if cls != "" {
				res.Fails = append(res.Fails, PropFail{Sig: "sort-output/" + cls, Msg: fmt.Sprintf("%s: record %d is placed before record %d although it sorts after it", what, x, y)})
			}
		}
	}
	if !swo {
		// the order of the whole set is undefined and the cause is reported above; only inversions between two
		// values that are themselves within the tolerance are attributed to the output
		inner := check
		check = func(x, y int, what string) {
			if c05Class(keys, recs[x], recs[y]) == "tolerance" {
				inner(x, y, what)
			}
		}
	}
	nf := len(res.Fails)
	for i := 1; i < len(ids) && len(res.Fails) == nf; i++ {
		check(ids[i-1], ids[i], "adjacent results")
	}
	if len(ids) > 0 && len(res.Fails) == nf {
		for r := 0; r < n && len(res.Fails) == nf; r++ {
			if !seen[r] {
				check(ids[len(ids)-1], r, "limit")
			}
		}
	}
	if !swo {
		return res
	}
	// canonical answer: equivalence-class index of each output record (classes by the real less)
	order := make([]int, 0, n)
	for i := n - 1; i >= 0; i-- { // foldr insert: same shape as the Oracle (result irrelevant up to ties)
		pos := 0
		for pos < len(order) && !lt[i][order[pos]] {
			pos++
		}
		order = append(order[:pos], append([]int{i}, order[pos:]...)...)
	}
	class := make([]int, n)
	k := 0
	for p := 1; p < len(order); p++ {
		if lt[order[p-1]][order[p]] {
			k++
		}
		class[order[p]] = k
	}
	t := make([]string, len(ids))
	for i, id := range ids {
		t[i] = strconv.Itoa(class[id])
	}
	res.Out = strings.Join(t, ",")
	return res
}

// ---------------------------------------------------------------- Gen: comparator suite

func c05Pool(r *rand.Rand) []string {
	base := []float64{0, 1, -1, 100, 0.5, 1e6, 12345.678}[r.Intn(7)]
	step := []float64{3e-5, 6e-5, 9.9e-5, 1e-4, 1.1e-4}[r.Intn(5)]
	p := []string{}
	for k := 0; k < 5; k++ {
		p = append(p, c05FloatTok(base+float64(k)*step))
	}
	p = append(p, c05FloatTok(base), c05FloatTok(-base), c05FloatTok(math.Nextafter(base, 1e9)), c05FloatTok(r.NormFloat64()*1000), c05FloatTok(float64(r.Intn(7)-3)))
	ints := []string{"i0", "i1", "i-1", "i2", "i3", "i100", "i9007199254740992", "i9007199254740993", "i9007199254740994", "i-9007199254740993",
		"i9223372036854775807", "i-9223372036854775808", "u0", "u1", "u9223372036854775808", "u18446744073709551615", "u18446744073709551614", "u9007199254740993"}
	for k := 0; k < 6; k++ {
		p = append(p, ints[r.Intn(len(ints))])
	}
	p = append(p, fmt.Sprintf("i%d", r.Intn(21)-10), fmt.Sprintf("i%d", int64(base)))
	strs := []string{"", "a", "ab", "b", "A", "10", "9", "1", "1.00005", "1.0", "+1", ".5", "5.", "1e3", "1E3", "-0", "0", "0x10", "1e999", "1e-999", "nan", "NaN", "inf", "-inf", "Inf", "+inf",
		"e", ".", "-", "+-1", "1e", "1 ", " 1", "true", "\xc3\xa9", "\xff", "z", "100", "1_000", "infinity", "1.00011", "0.99996"}
	for k := 0; k < 7; k++ {
		p = append(p, c05StrTok(strs[r.Intn(len(strs))]))
	}
	p = append(p, c05StrTok(strconv.FormatFloat(base+float64(r.Intn(4))*step, 'f', -1, 64)))
	p = append(p, "b0", "b1", "n", "n")
	if r.Intn(6) == 0 {
		p = append(p, c05FloatTok(math.NaN()), c05FloatTok(math.Inf(1)), c05FloatTok(math.Inf(-1)))
	}
	return p
}

func genC05Cmp(r *rand.Rand, n int, tier string) []string {
	one := c05FloatTok(1.0)
	lines := []string{
		"cmpv asc num i1 i2",
		"cmpv asc num " + one + " " + c05FloatTok(1.00006),
		"cmpv desc auto " + c05StrTok("nan") + " i5",
		"cmpv asc num i9007199254740993 i9007199254740992",
		"cmpv asc str i10 i9",
		"cmpv asc none " + c05StrTok("") + " n",
		"c5less anum,dstr i1," + c05StrTok("a") + " i1," + c05StrTok("b"),
		// the tolerance triple: 1.0 ~ 1.00006 ~ 1.00012 but 1.0 < 1.00012
		"c5sort 10 anum " + c05FloatTok(1.00012) + ";" + c05FloatTok(1.00006) + ";" + one,
		"c5sort 10 anum " + c05FloatTok(1.00006) + ";" + c05FloatTok(1.00012) + "|" + one,
		"c5sort 10 anum i3;" + c05StrTok("nan") + ";i1;" + c05StrTok("nan") + ";i2",
		"c5sort 10 anum i9007199254740993;i9007199254740992",
		"c5sort 2 anum i3;i1|i2;i1",
		// `sort 0` = no limit (Limit = MaxUint64): single batch, several batches
		"c5sort 0 anum i3;i1;i2",
		"c5sort 0 dnum i3;i1|i2;i1|i5",
		"c5sort 1 anum i3;i1",
		"c5sort 2000 dstr,anum " + c05StrTok("b") + ",i2;" + c05StrTok("a") + ",i1;" + c05StrTok("b") + ",i1",
	}
	ops := []string{"num", "auto", "none", "str", "ip"}
	for len(lines) < n {
		k := r.Intn(100)
		pool := c05Pool(r)
		pick := func() string { return pool[r.Intn(len(pool))] }
		key := func() string {
			d := "a"
			if r.Intn(3) == 0 {
				d = "d"
			}
			op := ops[r.Intn(3)]
			if r.Intn(4) == 0 {
				op = ops[r.Intn(5)]
			}
			return d + op
		}
		switch {
		case k < 3:
			bad := []string{"cmpv", "cmpv asc num i1", "cmpv up num i1 i2", "cmpv asc xx i1 i2", "cmpv asc num i1 x2", "cmpv asc num i1 f00:", "cmpv asc num s6:- i1", "cmpv asc num i99999999999999999999 i1",
				"c5less anum i1", "c5less anum i1,i2 i1", "c5less xnum i1 i2", "c5sort 1 anum", "c5sort x anum i1", "c5sort 1 anum i1,i2", "cmpv asc num b2 i1", "cmpv asc num n1 i1"}
			lines = append(lines, bad[r.Intn(len(bad))])
		case k < 45:
			asc := "asc"
			if r.Intn(3) == 0 {
				asc = "desc"
			}
			lines = append(lines, fmt.Sprintf("cmpv %s %s %s %s", asc, ops[r.Intn(5)], pick(), pick()))
		case k < 60:
			nk := 1 + r.Intn(3)
			ks := make([]string, nk)
			a := make([]string, nk)
			b := make([]string, nk)
			for i := range ks {
				ks[i], a[i], b[i] = key(), pick(), pick()
				if r.Intn(3) == 0 {
					b[i] = a[i]
				}
			}
			lines = append(lines, fmt.Sprintf("c5less %s %s %s", strings.Join(ks, ","), strings.Join(a, ","), strings.Join(b, ",")))
		default:
			nk := 1 + r.Intn(3)
			ks := make([]string, nk)
			for i := range ks {
				ks[i] = key()
			}
			// a small sub-pool gives ties on the leading keys
			sub := make([]string, 2+r.Intn(4))
			for i := range sub {
				sub[i] = pick()
			}
			if r.Intn(2) == 0 { // mostly numbers: the interesting class for the tolerance
				for i := range sub {
					sub[i] = pool[r.Intn(10)]
				}
			}
			nr := 2 + r.Intn(7)
			recs := make([]string, nr)
			for i := range recs {
				v := make([]string, nk)
				for q := range v {
					v[q] = sub[r.Intn(len(sub))]
				}
				recs[i] = strings.Join(v, ",")
			}
			// cut into 1..3 batches
			nb := 1 + r.Intn(3)
			cuts := map[int]bool{}
			for i := 1; i < nb; i++ {
				cuts[1+r.Intn(nr)] = true
			}
			var sb strings.Builder
			for i, rc := range recs {
				if i > 0 {
					if cuts[i] {
						sb.WriteString("|")
					} else {
						sb.WriteString(";")
					}
				}
				sb.WriteString(rc)
			}
			lim := []int{1, 2, 3, nr, nr - 1, 1000, 1001, 5000}[r.Intn(8)]
			for i := range ks {
				ks[i] = strings.Replace(ks[i], "ip", "num", 1)
			}
			lines = append(lines, fmt.Sprintf("c5sort %d %s %s", lim, strings.Join(ks, ","), sb.String()))
		}
	}
	return lines[:n]
}
