package main

import (
	"encoding/json"
	"fmt"
	"io"
	"math/rand"
	"net/http"
	"net/http/httptest"
	"os"
	"strconv"
	"strings"
	"sync"

	"github.com/siglens/siglens/pkg/alerts/alertsHandler"
	"github.com/siglens/siglens/pkg/alerts/alertutils"
	"github.com/siglens/siglens/pkg/config"
)

// suite "alert": alert <window> <interval> <cooldown> <silence> <op> ...
//   op ::= e1|e0 (evaluation, condition matched / not, webhook reachable) | f1|f0 (same, webhook transport fails)
//        | t<k> (k minutes pass) | u (configuration saved: history row "Config Modified")
// Drives the REAL handleAlertCondition against the real sqlite store (temp data dir) with a contact point
// whose only channel is a loopback webhook.  Time passes by moving notification_details.last_sent_time
// back in whole minutes (the code under test reads time.Now()); the real time a line takes (« 1 min) only
// adds to the elapsed time, so "k ≥ cooldown" decides every comparison exactly as in the model.

func init() {
	register(&Suite{Name: "alert", Gen: genAlert, Exec: execAlert,
		Rule: "operation sequences (≤ 45 ops) of evaluations (matched/not, webhook up/down), minute ticks around the cool-down/silence values and config-change rows, N = window/interval in 0..5 with non-divisible windows, against the real sqlite store + loopback webhook; non-trivial = reaches Firing or ≥ 1 delivered notification"})
}

// ---------------------------------------------------------------- generator

func genAlert(r *rand.Rand, n int, tier string) []string {
	var out []string
	cools := []int{0, 0, 1, 2, 3, 5, 10}
	sils := []int{0, 0, 0, 0, 1, 2, 4, 7}
	for i := 0; i < n; i++ {
		if r.Intn(33) == 0 { // malformed share
			bad := []string{
				"alert 2 1 0", "alert 2 0 0 0 e1 e1", "alert x 1 0 0 e1", "alert 2 1 0 0 e2", "alert 2 1 0 0 e1 t e1",
				"alert 2 1 0 0 e1 tx", "alert 2 1 -1 0 e1", "alert 2 1 0 0 e1 U", "alert 3 1 1 1 e1 e 1", "alert 2 1 0 0 1e",
				"alert 2 1 0 0 t-3 e1", "alert 2 1 0 0 ee1",
			}
			out = append(out, bad[r.Intn(len(bad))])
			continue
		}
		interval := []int{1, 1, 2, 5}[r.Intn(4)]
		nn := []int{0, 1, 1, 2, 2, 3, 3, 4, 5}[r.Intn(9)]
		window := nn*interval + r.Intn(interval)
		cool := cools[r.Intn(len(cools))]
		sil := sils[r.Intn(len(sils))]
		nops := 1 + r.Intn(45)
		pMatch := []int{50, 70, 85, 95}[r.Intn(4)]
		pTick := []int{10, 25, 40}[r.Intn(3)]
		pU := []int{0, 0, 3, 8}[r.Intn(4)]
		pFail := []int{0, 10, 30}[r.Intn(3)]
		var ops []string
		for j := 0; j < nops; j++ {
			x := r.Intn(100)
			switch {
			case x < pTick:
				var k int
				switch r.Intn(6) {
				case 0:
					k = cool
				case 1:
					k = cool - 1
				case 2:
					k = sil
				case 3:
					k = sil - 1
				case 4:
					k = r.Intn(3)
				default:
					k = r.Intn(14)
				}
				if k < 0 {
					k = 0
				}
				ops = append(ops, fmt.Sprintf("t%d", k))
			case x < pTick+pU:
				ops = append(ops, "u")
			default:
				c := "e"
				if r.Intn(100) < pFail {
					c = "f"
				}
				m := "0"
				if r.Intn(100) < pMatch {
					m = "1"
				}
				ops = append(ops, c+m)
			}
		}
		out = append(out, fmt.Sprintf("alert %d %d %d %d %s", window, interval, cool, sil, strings.Join(ops, " ")))
	}
	return out
}

// ---------------------------------------------------------------- world: sqlite store + webhook

type alertHookServer struct {
	mu        sync.Mutex
	fail      bool
	delivered []string // status field of every request that was answered
	attempts  int      // requests seen (answered or dropped)
	srv       *httptest.Server
}

func (h *alertHookServer) ServeHTTP(w http.ResponseWriter, r *http.Request) {
	body, _ := io.ReadAll(r.Body)
	h.mu.Lock()
	h.attempts++
	fail := h.fail
	h.mu.Unlock()
	if fail {
		// transport failure: drop the connection without an answer (client.Do returns an error)
		if hj, ok := w.(http.Hijacker); ok {
			if c, _, err := hj.Hijack(); err == nil {
				c.Close()
				return
			}
		}
		panic(http.ErrAbortHandler)
	}
	var wb alertutils.WebhookBody
	st := "?"
	if json.Unmarshal(body, &wb) == nil {
		st = wb.Status
	}
	h.mu.Lock()
	h.delivered = append(h.delivered, st)
	h.mu.Unlock()
	w.WriteHeader(200)
}

func (h *alertHookServer) snapshot() (int, int) {
	h.mu.Lock()
	defer h.mu.Unlock()
	return len(h.delivered), h.attempts
}

var alertWorldOnce sync.Once
var alertWorldErr error
var alertHook *alertHookServer
var alertContactID string
var alertSeq int

func bootAlertWorld() error {
	alertWorldOnce.Do(func() {
		dir, err := os.MkdirTemp("", "verifalert")
		if err != nil {
			alertWorldErr = err
			return
		}
		exitHooks = append(exitHooks, func() { os.RemoveAll(dir) }) // run by the driver after the last operation line
		config.InitializeTestingConfig(dir + "/")
		if err := alertsHandler.ConnectSiglensDB(); err != nil {
			alertWorldErr = err
			return
		}
		if err := alertsHandler.VerifTuneDB(); err != nil {
			alertWorldErr = err
			return
		}
		alertHook = &alertHookServer{}
		alertHook.srv = httptest.NewUnstartedServer(alertHook)
		alertHook.srv.Config.SetKeepAlivesEnabled(false)
		alertHook.srv.Start()
		c := &alertutils.Contact{
			ContactName: "verif-contact",
			Webhook:     []alertutils.WebHookConfig{{Webhook: alertHook.srv.URL + "/hook", Headers: alertutils.JSONMap{"X-Verif": "1"}}},
		}
		if err := alertsHandler.VerifCreateContact(c); err != nil {
			alertWorldErr = err
			return
		}
		if c.ContactId == "" {
			alertWorldErr = fmt.Errorf("contact point was not created")
			return
		}
		alertContactID = c.ContactId
	})
	return alertWorldErr
}

func alertStLetter(s alertutils.AlertState) string {
	switch s {
	case alertutils.Inactive:
		return "I"
	case alertutils.Normal:
		return "N"
	case alertutils.Pending:
		return "P"
	case alertutils.Firing:
		return "F"
	}
	return "?"
}

type alertOp struct {
	kind    byte // 'e' evaluation, 't' tick, 'u' config row
	matched bool
	sendOk  bool
	k       uint64
}

func parseAlertOp(s string) (alertOp, bool) {
	switch s {
	case "e1":
		return alertOp{kind: 'e', matched: true, sendOk: true}, true
	case "e0":
		return alertOp{kind: 'e', matched: false, sendOk: true}, true
	case "f1":
		return alertOp{kind: 'e', matched: true, sendOk: false}, true
	case "f0":
		return alertOp{kind: 'e', matched: false, sendOk: false}, true
	case "u":
		return alertOp{kind: 'u'}, true
	}
	if strings.HasPrefix(s, "t") {
		if k, ok := alertParseDec(s[1:]); ok {
			return alertOp{kind: 't', k: k}, true
		}
	}
	return alertOp{}, false
}

// alertParseDec: plain decimal digits only (what the Oracle accepts)
func alertParseDec(s string) (uint64, bool) {
	if s == "" {
		return 0, false
	}
	for _, c := range s {
		if c < '0' || c > '9' {
			return 0, false
		}
	}
	v, err := strconv.ParseUint(s, 10, 62)
	return v, err == nil
}

// ---------------------------------------------------------------- exec

func execAlert(line string) Result {
	f := strings.Fields(line)
	if len(f) < 5 || f[0] != "alert" {
		return Result{Out: "bad-op"}
	}
	var nums [4]uint64
	for i := 0; i < 4; i++ {
		v, ok := alertParseDec(f[1+i])
		if !ok {
			return Result{Out: "bad-op"}
		}
		nums[i] = v
	}
	window, interval, cooldown, silence := nums[0], nums[1], nums[2], nums[3]
	var ops []alertOp
	for _, t := range f[5:] {
		op, ok := parseAlertOp(t)
		if !ok {
			return Result{Out: "bad-op"}
		}
		ops = append(ops, op)
	}
	if interval == 0 {
		return Result{Out: "bad-op"} // EvalWindow / 0: the Go code would divide by zero; no cron job can exist for it
	}
	if err := bootAlertWorld(); err != nil {
		return Result{Out: "harness-error:" + err.Error()}
	}
	alertSeq++
	cond := alertutils.IsAbove
	toCreate := alertutils.AlertDetails{
		AlertConfig: alertutils.AlertConfig{
			AlertName:    fmt.Sprintf("verif-alert-%d", alertSeq),
			AlertType:    alertutils.AlertTypeLogs,
			ContactID:    alertContactID,
			QueryParams:  alertutils.QueryParams{DataSource: "Logs", QueryLanguage: "Splunk QL", QueryText: "* | stats count", StartTime: "now-5m", EndTime: "now", Index: "*", QueryMode: "Builder"},
			Condition:    cond,
			Value:        0,
			EvalWindow:   window,
			EvalInterval: interval,
			Message:      "verif {{alert_rule_name}}",
		},
		SilenceMinutes: silence,
	}
	alert, err := alertsHandler.VerifCreateAlert(&toCreate)
	if err != nil || alert.AlertId == "" {
		return Result{Out: fmt.Sprintf("harness-error:create-alert:%v", err)}
	}
	id := alert.AlertId
	if err := alertsHandler.VerifSetCooldown(id, cooldown); err != nil {
		return Result{Out: "harness-error:set-cooldown"}
	}
	if !alertsHandler.VerifSchedulerIdle() {
		return Result{Out: "harness-error:cron-scheduler-active"}
	}

	var res Result
	var toks []string
	n := window / interval
	// --- the property statement, tracked independently of the model, in simulated minutes
	var outcomes []bool   // evaluation outcomes since the alert was created
	sinceU := -1          // number of evaluations since the last config change (-1: none so far)
	var now uint64        // simulated clock
	haveSent := false     // a notification was delivered
	var lastSentAt uint64 // its simulated time
	lastSentFiring := false
	reachedFiring, deliveredAny := false, false
	fail := func(sig, msg string) {
		res.Fails = append(res.Fails, PropFail{Sig: sig, Msg: msg})
	}

	for idx, op := range ops {
		switch op.kind {
		case 't':
			now += op.k
			if err := alertsHandler.VerifShiftLastSent(id, op.k); err != nil {
				return Result{Out: "harness-error:shift-time"}
			}
			continue
		case 'u':
			if err := alertsHandler.VerifConfigChangeRow(id); err != nil {
				return Result{Out: "harness-error:config-row"}
			}
			sinceU = 0
			continue
		}
		alertHook.mu.Lock()
		alertHook.fail = !op.sendOk
		alertHook.mu.Unlock()
		d0, _ := alertHook.snapshot()
		herr := alertsHandler.VerifHandleAlertCondition(&alert, op.matched, "")
		d1, _ := alertHook.snapshot()
		if herr != nil {
			return Result{Out: fmt.Sprintf("harness-error:handleAlertCondition:%v", herr)}
		}
		got, err := alertsHandler.VerifGetAlert(id)
		if err != nil {
			return Result{Out: "harness-error:get-alert"}
		}
		notif, err := alertsHandler.VerifGetNotification(id)
		if err != nil {
			return Result{Out: "harness-error:get-notification"}
		}
		state := got.State
		delivered := d1 - d0
		nt := "0"
		if delivered == 1 {
			nt = "1"
		} else if delivered > 1 {
			nt = "X"
		}
		toks = append(toks, fmt.Sprintf("%s:%s:%s", alertStLetter(state), nt, alertStLetter(notif.LastAlertState)))

		// ---- property: the state is the window function of the last N outcomes
		outcomes = append(outcomes, op.matched)
		if sinceU >= 0 {
			sinceU++
		}
		where := fmt.Sprintf("evaluation #%d (op %d) N=%d", len(outcomes), idx+1, n)
		if !op.matched {
			if state != alertutils.Normal {
				fail("alert-state/not-normal-after-unmatched", where+": condition not matched but state is "+alertStLetter(state))
			}
		} else {
			if state != alertutils.Pending && state != alertutils.Firing {
				fail("alert-state/matched-but-not-pending-or-firing", where+": condition matched but state is "+alertStLetter(state))
			} else if n >= 1 {
				k := len(outcomes)
				full := k >= int(n)
				if full {
					for _, o := range outcomes[k-int(n):] {
						full = full && o
					}
				}
				uInWindow := sinceU >= 0 && sinceU < int(n) // a config change lies within the last N evaluations: either answer is granted
				if !uInWindow {
					if full && state != alertutils.Firing {
						fail("alert-state/not-firing-after-full-window", where+": the condition held in all of the last N evaluations but state is "+alertStLetter(state))
					}
					if !full && state == alertutils.Firing {
						fail("alert-state/firing-without-full-window", where+": Firing although the condition did not hold in all of the last N evaluations")
					}
				}
			}
		}
		if state == alertutils.Firing {
			reachedFiring = true
		}

		// ---- property: notifications
		cooldownOver := !haveSent || now-lastSentAt >= cooldown
		silenceOver := !haveSent || now-lastSentAt >= silence
		if delivered > 1 {
			fail("alert-notify/duplicate", where+fmt.Sprintf(": %d webhook requests for one evaluation", delivered))
		}
		if delivered >= 1 {
			deliveredAny = true
			status := alertHook.delivered[d1-1]
			switch {
			case state == alertutils.Firing && status != "firing", state == alertutils.Normal && status != "normal":
				fail("alert-notify/status-mismatch", where+": state "+alertStLetter(state)+" but webhook status "+status)
			case state != alertutils.Firing && state != alertutils.Normal:
				fail("alert-notify/sent-while-pending", where+": notification sent in state "+alertStLetter(state))
			}
			if haveSent && now-lastSentAt < cooldown {
				fail("alert-notify/within-cooldown", where+fmt.Sprintf(": notification %d min after the previous one, cool-down %d min", now-lastSentAt, cooldown))
			}
			if state == alertutils.Normal && !(haveSent && lastSentFiring) {
				fail("alert-notify/normal-without-preceding-firing", where+": Normal notification although the last notification sent was not Firing")
			}
			haveSent, lastSentAt, lastSentFiring = true, now, state == alertutils.Firing
		} else if op.sendOk && cooldownOver && silenceOver {
			if state == alertutils.Firing {
				fail("alert-notify/firing-not-notified", where+": Firing, webhook reachable, cool-down and silence over, yet no notification")
			}
			if state == alertutils.Normal && haveSent && lastSentFiring {
				fail("alert-notify/return-to-normal-not-notified", where+": back to Normal after a Firing notification, webhook reachable, cool-down and silence over, yet no notification")
			}
		}
	}
	hist, err := alertsHandler.VerifHistoryStates(id, 100000)
	if err != nil {
		return Result{Out: "harness-error:history"}
	}
	toks = append(toks, fmt.Sprintf("h=%d", len(hist)))
	res.Out = strings.Join(toks, " ")
	res.Nontrivial = reachedFiring || deliveredAny
	res.Tags = []string{fmt.Sprintf("N=%d", n), fmt.Sprintf("cooldown=%d", cooldown)}
	if silence > 0 {
		res.Tags = append(res.Tags, "silence>0")
	}
	if reachedFiring {
		res.Tags = append(res.Tags, "reached-firing")
	}
	if deliveredAny {
		res.Tags = append(res.Tags, "notified")
	}
	if sinceU >= 0 {
		res.Tags = append(res.Tags, "config-change")
	}
	return res
}
