package main

import (
	"encoding/hex"
	"fmt"
	"io"
	"math"
	"math/rand"
	"regexp"
	"runtime"
	"runtime/debug"
	"sort"
	"strconv"
	"strings"
	"sync"
	"sync/atomic"
	"time"

	"github.com/siglens/siglens/pkg/ast/pipesearch"
	"github.com/siglens/siglens/pkg/config"
	"github.com/siglens/siglens/pkg/segment/query"
	"github.com/siglens/siglens/pkg/segment/query/iqr"
	"github.com/siglens/siglens/pkg/segment/query/processor"
	sutils "github.com/siglens/siglens/pkg/segment/utils"
)

// suite "pipeplan" (C06, plan / parallelism layer):
//
//	plan K=<1..8> X=<0|1> C=<cmd>|<cmd>… S=<slot>:<n>,<slot>:<n>… R=<row>;<row>…
//
//	cmd ::= sort:<L>:<±f,±f…>            L=0: no count given (the grammar's default limit 10000)
//	      | head:<n> | tail:<n> | dedup:<limit>:<flags>:<f,…> | fillnull:<hex>:<f,…|> | rename:<a>:<b> | fields:<+|->:<f,…>
//	      | bin:<f>:<span>:<bins>        span=0: no span given (two passes), bins=0: the default 100
//	      | stats:<agg>+<agg>…:<by|->    agg ::= count.<alias> | sum.<f>.<alias> | min.<f>.<alias> | max.<f>.<alias>
//	      | where:<f>:<gt|ge|lt|le|eq|ne>:<int> | eval:<new>:<f>:<add|sub|mul>:<int>
//	      | X=0 only (plan shape): streamstats | top:<f> | rare:<f> | timechart:<f> | rex:<f> | makemv:<f> | mvexpand:<f>
//	        | tojson:<f> | transaction:<f> | dedupsort:<f>:<g>
//	row ::= id~i<n>,k~tv,…   every row carries a distinct int `id` and int `x`, `w`;  tv ::= i<int> | s<hex of [a-z]+> | z
//	S: the table rows are dealt out in order: <n> rows as one batch to source <slot> mod (number of chains); what is left
//	   over is one more batch for source 0.  Every batch carries every column of the table.
//
// The command chain is rendered as SPL, parsed by the REAL parser, turned into DataProcessors by the real
// AggsToDataProcessors + setMergeSettings (what NewQueryProcessor's chainFactory does) and planned by the real
// SetupQueryParallelism under runtime.GOMAXPROCS(K); the chains are wired as ConnectEachDpChain wires them, each to its
// own replaying source (overlay hook VerifC06PConnect), and the last DataProcessor is fetched until EOF.
//
// Out: "shape dps=<name[flags]>,… can=<0|1> idx=<i> fs=<first agg has stats> n=<chains> lens=<…> merger=<none|stats|limit:<L>>"
// (flags: o inputOrderMatters, i ignoresInputOrder, p permuting, b bottleneck, t two-pass, m mergeable, g generates data) and, for X=1,
//
//	" | ok cmp=<seq|set> n=<rows> <row>;…" (set: the order of the rows is not determined, they are printed sorted) or
//	" | skip=not-judged" (a bin span that is a fraction: float formatting; stats without by over no rows) or " | err" / " | panic".
//
// Executed chains (X=1) are well-formed (c06pWF; bad-op otherwise): the last key of every sort is row-unique (`id`, after stats
// the by-field), so that ties never decide; where / eval / bin / stats arguments are all-int columns; head / tail / dedup only
// where the order of the rows is determined; no column removed by `fields` is re-created, no existing column is overwritten by
// rename (a result without RRCs loses values there: harness-mode artefacts, the engine is fine); the chain does not start with stats
// (the searcher would compute it).
//
// A second op form, `planms …` (a DataProcessor with several input streams), is described in c06_planms.go.
//
// PropFail (independent of the model), X=1 only:
//   - plan-parallel/<first bottleneck>/<class>: the answer under K chains and the given dealing ≠ the answer with GOMAXPROCS=1 and the
//     table delivered as one batch
//   - plan-semantics/<command>/<class>: that single-chain, single-batch answer ≠ the documented meaning (reference evaluator below)
func init() {
	register(&Suite{Name: "pipeplan", Gen: genPlan, Exec: execPlan,
		Rule: "command chains of 1..5 commands (sort N, head, tail, dedup, fillnull ± field list, bin ± span, stats by, where, eval, rename, fields; shape-only: every other command kind) planned by the real SetupQueryParallelism under GOMAXPROCS 1..4 and run over tables of 0..14 rows dealt out to the parallel chains in random batches; chains mixing a two-pass command before / after the first bottleneck, sort limits around the number of rows; non-trivial = executed, ≥3 rows, ≥2 chains or ≥2 batches.  About 30% op form planms (c06_planms.go): the first DataProcessor of a chain of 1..3 commands of every executed kind (the two-pass bottlenecks in 40%) reads k = 1..4 sorted upstream streams directly (SetStreams + SetMergeSettingsBasedOnStream: timestamp order or the order and limit of an upstream sort), 0..12 rows, streams interleaving record by record in merge order in 65%, random / contiguous otherwise, some streams empty, batches of 1, 2, mixed 1..4 or whole streams; non-trivial = ≥3 rows in ≥2 streams"})
}

// suite "pipeplan_sort" (C05: order, limits, pagination): the same op format, machinery and Oracle answer as pipeplan, with the
// generator restricted to chains of sort / head / tail behind a row-wise prefix (no stats, no two-pass command) and the direct
// property checks phrased as C05 states them:
//   - plan-sort/limit/…: the number of rows is not exactly min(N, rows) (reference) resp. depends on the chains / batches
//   - plan-sort/order/…: the rows are not the first N of the whole input in sort order resp. depend on the chains / batches
func init() {
	register(&Suite{Name: "pipeplan_sort", Gen: genPlanSort, Exec: func(line string) Result { return execPlanMode(line, true) },
		Rule: "chains [where|eval|rename|fields|fillnull f|bin span]* sort N [head|tail|sort|row-wise]* (and head/tail alone) planned by the real SetupQueryParallelism under GOMAXPROCS 1..4 over tables of 3..16 rows dealt out to the parallel sort chains in several batches each; limits N from 1 to more than the rows, so that the first merge round exceeds / reaches / misses the limit; non-trivial = ≥3 rows, ≥2 chains or ≥2 batches"})
}

var c06pAlphaRe = regexp.MustCompile(`^[A-Za-z]+$`)
var c06pLowerRe = regexp.MustCompile(`^[a-z]+$`)

type c06pAgg struct{ fn, arg, alias string }
type c06pKey struct {
	f   string
	asc bool
}
type c06pCmd struct {
	kind  string
	n     uint64 // head/tail n, sort L, dedup limit, bin span
	bins  uint64
	keys  []c06pKey
	base  c06Cmd // head tail dedup fillnull rename fields
	f, g  string
	op    string
	c     int64
	aggs  []c06pAgg
	by    string // "" = none
	exec  bool   // has a model semantics
	names []string
}

func c06pParseCmd(s string) (c06pCmd, bool) {
	p := strings.Split(s, ":")
	c := c06pCmd{kind: p[0]}
	var ok bool
	switch {
	case p[0] == "sort" && len(p) == 3:
		if c.n, ok = c06Nat(p[1], 1000000); !ok {
			return c, false
		}
		for _, k := range strings.Split(p[2], ",") {
			if len(k) < 2 || (k[0] != '+' && k[0] != '-') || !c06NameRe.MatchString(k[1:]) {
				return c, false
			}
			c.keys = append(c.keys, c06pKey{k[1:], k[0] == '+'})
		}
		c.exec = true
		return c, true
	case p[0] == "head" || p[0] == "tail" || p[0] == "dedup" || p[0] == "fillnull" || p[0] == "rename" || p[0] == "fields":
		c.base, ok = c06ParseCmd(s)
		if !ok {
			return c, false
		}
		if p[0] == "fillnull" {
			b, _ := hex.DecodeString(c.base.fillHex)
			if !c06pAlphaRe.Match(b) {
				return c, false
			}
		}
		if p[0] == "dedup" && c.base.limit == 0 { // the grammar rejects 0
			return c, false
		}
		if p[0] == "rename" && c.base.old == c.base.new {
			return c, false
		}
		c.exec = true
		return c, true
	case p[0] == "bin" && len(p) == 4:
		if !c06NameRe.MatchString(p[1]) {
			return c, false
		}
		c.f = p[1]
		if c.n, ok = c06Nat(p[2], 1000000); !ok {
			return c, false
		}
		if c.bins, ok = c06Nat(p[3], 100); !ok || c.bins == 1 || (c.n != 0 && c.bins != 0) {
			return c, false
		}
		c.exec = true
		return c, true
	case p[0] == "stats" && len(p) == 3:
		seen := map[string]bool{}
		for _, a := range strings.Split(p[1], "+") {
			ap := strings.Split(a, ".")
			switch {
			case len(ap) == 2 && ap[0] == "count" && c06NameRe.MatchString(ap[1]):
				c.aggs = append(c.aggs, c06pAgg{"count", "", ap[1]})
			case len(ap) == 3 && (ap[0] == "sum" || ap[0] == "min" || ap[0] == "max") && c06NameRe.MatchString(ap[1]) && c06NameRe.MatchString(ap[2]):
				c.aggs = append(c.aggs, c06pAgg{ap[0], ap[1], ap[2]})
			default:
				return c, false
			}
			al := c.aggs[len(c.aggs)-1].alias
			fa := "(" + c.aggs[len(c.aggs)-1].fn + " " + c.aggs[len(c.aggs)-1].arg // the same aggregate under two names: one of them is dropped
			if seen[al] || seen[fa] {
				return c, false
			}
			seen[al], seen[fa] = true, true
		}
		if p[2] != "-" {
			if !c06NameRe.MatchString(p[2]) || seen[p[2]] {
				return c, false
			}
			c.by = p[2]
		}
		c.exec = true
		return c, true
	case p[0] == "where" && len(p) == 4:
		c.f, c.op = p[1], p[2]
		if !c06NameRe.MatchString(c.f) || !c06IntRe.MatchString(p[3]) {
			return c, false
		}
		switch c.op {
		case "gt", "ge", "lt", "le", "eq", "ne":
		default:
			return c, false
		}
		v, err := strconv.ParseInt(p[3], 10, 64)
		c.c = v
		c.exec = true
		return c, err == nil && v >= -1000000 && v <= 1000000
	case p[0] == "eval" && len(p) == 5:
		c.g, c.f, c.op = p[1], p[2], p[3]
		if !c06NameRe.MatchString(c.f) || !c06NameRe.MatchString(c.g) || !c06IntRe.MatchString(p[4]) {
			return c, false
		}
		switch c.op {
		case "add", "sub", "mul":
		default:
			return c, false
		}
		v, err := strconv.ParseInt(p[4], 10, 64)
		c.c = v
		c.exec = true
		return c, err == nil && v >= -1000 && v <= 1000
	case p[0] == "streamstats" && len(p) == 1:
		return c, true
	case (p[0] == "top" || p[0] == "rare" || p[0] == "timechart" || p[0] == "rex" || p[0] == "makemv" || p[0] == "mvexpand" || p[0] == "tojson" || p[0] == "transaction") && len(p) == 2:
		c.f = p[1]
		return c, c06NameRe.MatchString(c.f)
	case p[0] == "dedupsort" && len(p) == 3:
		c.f, c.g = p[1], p[2]
		return c, c06NameRe.MatchString(c.f) && c06NameRe.MatchString(c.g)
	}
	return c, false
}

func (c c06pCmd) spl() string {
	switch c.kind {
	case "sort":
		var ks []string
		for _, k := range c.keys {
			if k.asc {
				ks = append(ks, "+"+k.f)
			} else {
				ks = append(ks, "-"+k.f)
			}
		}
		if c.n == 0 {
			return "sort " + strings.Join(ks, ", ")
		}
		return fmt.Sprintf("sort %d %s", c.n, strings.Join(ks, ", "))
	case "head":
		return fmt.Sprintf("head %d", c.base.n)
	case "tail":
		return fmt.Sprintf("tail %d", c.base.n)
	case "dedup":
		s := fmt.Sprintf("dedup %d %s", c.base.limit, strings.Join(c.base.fields, " "))
		if c.base.cons {
			s += " consecutive=true"
		}
		if c.base.keepEmpty {
			s += " keepempty=true"
		}
		if c.base.keepEvents {
			s += " keepevents=true"
		}
		return s
	case "fillnull":
		b, _ := hex.DecodeString(c.base.fillHex)
		s := "fillnull value=" + string(b)
		if len(c.base.fields) > 0 {
			s += " " + strings.Join(c.base.fields, " ")
		}
		return s
	case "rename":
		return "rename " + c.base.old + " as " + c.base.new
	case "fields":
		if c.base.inc {
			return "fields " + strings.Join(c.base.fields, ", ")
		}
		return "fields - " + strings.Join(c.base.fields, ", ")
	case "bin":
		switch {
		case c.n != 0:
			return fmt.Sprintf("bin span=%d %s", c.n, c.f)
		case c.bins != 0:
			return fmt.Sprintf("bin bins=%d %s", c.bins, c.f)
		}
		return "bin " + c.f
	case "stats":
		var as []string
		for _, a := range c.aggs {
			if a.fn == "count" {
				as = append(as, "count as "+a.alias)
			} else {
				as = append(as, a.fn+"("+a.arg+") as "+a.alias)
			}
		}
		s := "stats " + strings.Join(as, ", ")
		if c.by != "" {
			s += " by " + c.by
		}
		return s
	case "where":
		return fmt.Sprintf("where %s%s%d", c.f, map[string]string{"gt": ">", "ge": ">=", "lt": "<", "le": "<=", "eq": "=", "ne": "!="}[c.op], c.c)
	case "eval":
		return fmt.Sprintf("eval %s=%s%s%d", c.g, c.f, map[string]string{"add": "+", "sub": "-", "mul": "*"}[c.op], c.c)
	case "streamstats":
		return "streamstats count as sc"
	case "top", "rare", "mvexpand", "tojson", "transaction":
		return c.kind + " " + c.f
	case "timechart":
		return "timechart count by " + c.f
	case "rex":
		return `rex field=` + c.f + ` "(?<rx>[a-z]+)"`
	case "makemv":
		return `makemv delim="," ` + c.f
	case "dedupsort":
		return "dedup " + c.f + " sortby +" + c.g
	}
	return "?"
}

type c06pOp struct {
	k     int
	exec  bool
	cmds  []c06pCmd
	deal  [][2]int
	rows  []c06Row
	cmp   string // seq | set (wf)
	chain string
}

// well-formedness of an executed chain (the same fold is in lean/Oracle/C06P.lean): `ints` = columns that hold an int in every row,
// `uniq` = the column whose values are pairwise distinct ("" after a stats without by: at most one row), `ordered` = the
// order of the rows is determined.  Returns the comparison mode of the final answer.
func c06pWF(cmds []c06pCmd, tableCols []string) (string, bool) { return c06pWFx(cmds, tableCols, false) }

// statsFirstOK: op planms (the first DataProcessor reads replaying streams, there is no searcher that would compute the stats)
func c06pWFx(cmds []c06pCmd, tableCols []string, statsFirstOK bool) (string, bool) {
	ints := map[string]bool{"id": true, "x": true, "w": true}
	cols := map[string]bool{"id": true, "x": true, "w": true} // columns every batch carries (a result without RRCs cannot be sorted by a column it lacks)
	for _, k := range tableCols {
		cols[k] = true
	}
	dead := map[string]bool{} // removed by `fields`: re-creating such a column is not modelled (deletedColumns shadowing)
	uniq, ordered := "id", true
	in := func(fs []string, k string) bool {
		for _, f := range fs {
			if f == k {
				return true
			}
		}
		return false
	}
	for i, c := range cmds {
		if !c.exec {
			return "", false
		}
		switch c.kind {
		case "sort":
			if uniq != "" && c.keys[len(c.keys)-1].f != uniq {
				return "", false
			}
			for _, k := range c.keys {
				if !cols[k.f] {
					return "", false
				}
			}
			ordered = true
		case "head", "tail":
			if !ordered {
				return "", false
			}
		case "dedup":
			if !ordered || (uniq != "" && in(c.base.fields, uniq)) {
				return "", false
			}
			for _, f := range c.base.fields {
				if !cols[f] {
					return "", false
				}
				if c.base.keepEvents { // the fields of a removed event are cleared
					delete(ints, f)
				}
			}
		case "fillnull":
			if uniq != "" && in(c.base.fields, uniq) {
				return "", false
			}
			for _, f := range c.base.fields {
				if dead[f] {
					return "", false
				}
				cols[f] = true
			}
		case "rename":
			if uniq != "" && (c.base.old == uniq || c.base.new == uniq) {
				return "", false
			}
			if dead[c.base.new] || cols[c.base.new] { // overwriting an existing column of a MERGED result without RRCs loses values (harness-mode artefact; fine on the engine)
				return "", false
			}
			was, had := ints[c.base.old], cols[c.base.old]
			delete(ints, c.base.old)
			delete(ints, c.base.new)
			delete(cols, c.base.old)
			delete(cols, c.base.new)
			if was {
				ints[c.base.new] = true
			}
			if had {
				cols[c.base.new] = true
			}
		case "fields":
			if c.base.inc {
				if uniq != "" && !in(c.base.fields, uniq) {
					return "", false
				}
				for k := range ints {
					if !in(c.base.fields, k) {
						delete(ints, k)
					}
				}
				for k := range cols {
					if !in(c.base.fields, k) {
						delete(cols, k)
						dead[k] = true
					}
				}
			} else {
				if uniq != "" && in(c.base.fields, uniq) {
					return "", false
				}
				for _, f := range c.base.fields {
					delete(ints, f)
					if cols[f] {
						dead[f] = true
					}
					delete(cols, f)
				}
			}
		case "bin":
			if !ints[c.f] || c.f == uniq {
				return "", false
			}
			delete(ints, c.f)
		case "where":
			if !ints[c.f] {
				return "", false
			}
		case "eval":
			if !ints[c.f] || c.g == uniq || dead[c.g] {
				return "", false
			}
			ints[c.g] = true
			cols[c.g] = true
		case "stats":
			if i == 0 && !statsFirstOK {
				return "", false
			}
			n := map[string]bool{}
			for _, a := range c.aggs {
				if a.fn != "count" && !ints[a.arg] {
					return "", false
				}
				n[a.alias] = true
			}
			nc := map[string]bool{}
			for k := range n {
				nc[k] = true
			}
			if c.by != "" {
				if !cols[c.by] {
					return "", false
				}
				nc[c.by] = true
				if ints[c.by] {
					n[c.by] = true
				}
			}
			ints, cols, dead = n, nc, map[string]bool{}
			uniq, ordered = c.by, c.by == ""
		}
	}
	if ordered {
		return "seq", true
	}
	return "set", true
}

func c06pParseOp(line string) (c06pOp, bool) {
	var op c06pOp
	f := strings.Fields(line)
	if len(f) != 6 || f[0] != "plan" || !strings.HasPrefix(f[1], "K=") || !strings.HasPrefix(f[3], "C=") || !strings.HasPrefix(f[4], "S=") || !strings.HasPrefix(f[5], "R=") {
		return op, false
	}
	k, ok := c06Nat(f[1][2:], 8)
	if !ok || k < 1 {
		return op, false
	}
	op.k = int(k)
	switch f[2] {
	case "X=0":
	case "X=1":
		op.exec = true
	default:
		return op, false
	}
	op.chain = f[3][2:]
	for _, cs := range strings.Split(op.chain, "|") {
		c, ok := c06pParseCmd(cs)
		if !ok {
			return op, false
		}
		op.cmds = append(op.cmds, c)
	}
	if len(op.cmds) > 8 {
		return op, false
	}
	if ds := f[4][2:]; ds != "" {
		for _, x := range strings.Split(ds, ",") {
			p := strings.Split(x, ":")
			if len(p) != 2 {
				return op, false
			}
			a, ok1 := c06Nat(p[0], 7)
			b, ok2 := c06Nat(p[1], 1000)
			if !ok1 || !ok2 || b == 0 { // no empty source batches (the searcher delivers none)
				return op, false
			}
			op.deal = append(op.deal, [2]int{int(a), int(b)})
		}
	}
	op.rows, ok = c06ParseRows(f[5][2:])
	if !ok {
		return op, false
	}
	// every row: distinct int id, int x and w; text values are non-empty lower-case words; |ints| ≤ 10^6
	ids := map[int64]bool{}
	for _, r := range op.rows {
		got := map[string]bool{}
		for _, cell := range r {
			switch cell.v.kind {
			case 'i':
				if cell.v.i < -1000000 || cell.v.i > 1000000 {
					return op, false
				}
				got[cell.k] = true
			case 's':
				b, _ := hex.DecodeString(cell.v.s)
				if !c06pLowerRe.Match(b) {
					return op, false
				}
			}
			if cell.k == "id" {
				if cell.v.kind != 'i' || ids[cell.v.i] {
					return op, false
				}
				ids[cell.v.i] = true
			}
		}
		if !got["id"] || !got["x"] || !got["w"] {
			return op, false
		}
	}
	if op.exec {
		op.cmp, ok = c06pWF(op.cmds, c06Keys(op.rows))
		if !ok {
			return op, false
		}
	}
	return op, true
}

// ---------------------------------------------------------------- the real plan

func c06pFlags(dp *processor.DataProcessor) string {
	b := func(x bool, c string) string {
		if x {
			return c
		}
		return ""
	}
	return processor.VerifC06PName(dp) + "[" + b(dp.DoesInputOrderMatter(), "o") + b(dp.IgnoresInputOrder(), "i") + b(dp.IsPermutingCmd(), "p") + b(dp.IsBottleneckCmd(), "b") + b(dp.IsTwoPassCmd(), "t") + b(dp.IsMergeableBottleneckCmd(), "m") + b(dp.GeneratesData(), "g") + "]"
}

var c06pOnce sync.Once

type c06pPlan struct {
	shape  string
	chains [][]*processor.DataProcessor
	err    string
}

// c06pBuild parses the chain afresh (bin writes the span it finds into its options) and plans it under GOMAXPROCS=k
func c06pBuild(cmds []c06pCmd, k int) c06pPlan {
	c06ConfigOnce.Do(func() { config.SetTimeStampKey("timestamp") })
	c06pOnce.Do(func() { config.SetNewQueryPipelineEnabled(true) }) // production default; the testing default makes `stats … by` fail
	var parts []string
	for _, c := range cmds {
		parts = append(parts, c.spl())
	}
	spl := strings.Join(parts, " | ")
	spl = "* | " + spl
	_, aggs, _, err := pipesearch.ParseQuery(spl, c06Qid, "Splunk QL")
	if err != nil || aggs == nil {
		return c06pPlan{err: "parse"}
	}
	qi := &query.QueryInformation{}
	factory := func() []*processor.DataProcessor {
		ch := processor.AggsToDataProcessors(aggs, qi)
		processor.VerifC06PSetMergeSettings(ch)
		return ch
	}
	old := runtime.GOMAXPROCS(k)
	defer runtime.GOMAXPROCS(old)
	first := factory()
	var fl []string
	for _, dp := range first {
		fl = append(fl, c06pFlags(dp))
	}
	can, idx := processor.CanParallelSearch(first)
	firstStats := aggs.HasStatsBlock()
	chains, err := processor.SetupQueryParallelism(firstStats, factory)
	if err != nil {
		return c06pPlan{err: "setup"}
	}
	var lens []string
	for _, ch := range chains {
		lens = append(lens, strconv.Itoa(len(ch)))
	}
	merger := "none"
	for _, dp := range chains[0] {
		if processor.VerifC06PName(dp) == "merger" {
			if dp.IgnoresInputOrder() {
				merger = "stats"
			} else if l, ok := processor.VerifC06PMergeLimit(dp); ok {
				merger = fmt.Sprintf("limit:%d", l)
			} else {
				merger = "nolimit"
			}
		}
	}
	b := func(x bool) int {
		if x {
			return 1
		}
		return 0
	}
	return c06pPlan{chains: chains, shape: fmt.Sprintf("shape dps=%s can=%d idx=%d fs=%d n=%d lens=%s merger=%s", strings.Join(fl, ","), b(can), idx, b(firstStats), len(chains), strings.Join(lens, ","), merger)}
}

func c06pDeal(deal [][2]int, rows []c06Row, n int) [][][]c06Row {
	shares := make([][][]c06Row, n)
	for _, d := range deal {
		cnt := d[1]
		if cnt > len(rows) {
			cnt = len(rows)
		}
		if cnt == 0 { // the table is used up: no empty batches
			continue
		}
		shares[d[0]%n] = append(shares[d[0]%n], rows[:cnt])
		rows = rows[cnt:]
	}
	if len(rows) > 0 {
		shares[0] = append(shares[0], rows)
	}
	return shares
}

func c06pShow(e sutils.CValueEnclosure) (string, bool) {
	if e.IsNull() {
		return "", false
	}
	switch v := e.CVal.(type) {
	case int64:
		return fmt.Sprintf("i%d", v), true
	case uint64:
		return fmt.Sprintf("i%d", v), true
	case float64:
		if v == math.Trunc(v) && math.Abs(v) < 1e15 {
			return fmt.Sprintf("i%d", int64(v)), true
		}
		return "f" + strconv.FormatFloat(v, 'g', -1, 64), true
	case string:
		return "s" + hex.EncodeToString([]byte(v)), true
	}
	return fmt.Sprintf("?%d", e.Dtype), true
}

var c06pHangs int32

// c06pRunTimed: c06pRun under a watchdog.  A Fetch that never returns cannot be stopped (the goroutine is abandoned and keeps
// spinning), so after three of them the rest of the op file is answered "hang-skip" without running the engine code.
func c06pRunTimed(cmds []c06pCmd, k int, deal [][2]int, rows []c06Row) (c06pPlan, c06Out) {
	plan := c06pBuild(cmds, k) // for the shape (planning cannot hang: no Fetch)
	if plan.err != "" {
		return plan, c06Out{status: "err", msg: plan.err}
	}
	if atomic.LoadInt32(&c06pHangs) >= 3 {
		return plan, c06Out{status: "hang-skip"}
	}
	type res struct {
		p c06pPlan
		o c06Out
	}
	ch := make(chan res, 1)
	go func() {
		p, o := c06pRun(cmds, k, deal, rows)
		ch <- res{p, o}
	}()
	select {
	case r := <-ch:
		return r.p, r.o
	case <-time.After(10 * time.Second):
		atomic.AddInt32(&c06pHangs, 1)
		return plan, c06Out{status: "hang", msg: "no answer within 10 s"}
	}
}

// c06pRun plans the chain under GOMAXPROCS=k, deals the table out and fetches the last DataProcessor until EOF
func c06pRun(cmds []c06pCmd, k int, deal [][2]int, rows []c06Row) (plan c06pPlan, out c06Out) {
	defer func() {
		if r := recover(); r != nil {
			out = c06Out{status: "panic", msg: fmt.Sprint(r) + c06pStack()}
		}
	}()
	plan = c06pBuild(cmds, k)
	if plan.err != "" {
		return plan, c06Out{status: "err", msg: plan.err}
	}
	old := runtime.GOMAXPROCS(k)
	defer runtime.GOMAXPROCS(old)
	shares := c06pDeal(deal, rows, len(plan.chains))
	all := c06Keys(rows)
	var srcs []processor.Streamer
	for i := range plan.chains {
		cols := make([][]string, len(shares[i]))
		for j := range cols {
			cols[j] = all
		}
		srcs = append(srcs, &c06Stream{batches: shares[i], cols: cols})
	}
	processor.VerifC06PConnect(plan.chains, srcs)
	top := plan.chains[0][len(plan.chains[0])-1]
	out.status = "ok"
	var err error
	for i := 0; err != io.EOF; i++ {
		if i > 100000 {
			return plan, c06Out{status: "hang"}
		}
		var q *iqr.IQR
		q, err = top.Fetch()
		if err != nil && err != io.EOF {
			return plan, c06Out{status: "err", msg: err.Error()}
		}
		if q == nil {
			continue
		}
		colset, e := q.GetColumns()
		if e != nil {
			return plan, c06Out{status: "err", msg: e.Error()}
		}
		names := make([]string, 0, len(colset))
		for c := range colset {
			names = append(names, c)
		}
		sort.Strings(names)
		n := q.NumberOfRecords()
		vals := map[string][]sutils.CValueEnclosure{}
		for _, c := range names {
			v, e := q.ReadColumn(c)
			if e != nil || len(v) != n {
				return plan, c06Out{status: "err", msg: fmt.Sprintf("column %s: %v len=%d n=%d", c, e, len(v), n)}
			}
			vals[c] = v
		}
		for r := 0; r < n; r++ {
			var cells []string
			for _, c := range names {
				if s, ok := c06pShow(vals[c][r]); ok {
					cells = append(cells, c+"~"+s)
				}
			}
			if len(cells) == 0 {
				out.rows = append(out.rows, "-")
			} else {
				out.rows = append(out.rows, strings.Join(cells, ","))
			}
		}
	}
	return plan, out
}

func c06pCanon(o c06Out, cmp string) string {
	if o.status != "ok" {
		return o.status
	}
	rs := append([]string{}, o.rows...)
	if cmp == "set" {
		sort.Strings(rs)
	}
	return fmt.Sprintf("ok cmp=%s n=%d %s", cmp, len(rs), strings.Join(rs, ";"))
}

// ---------------------------------------------------------------- documented meaning (reference evaluator)

func c06pRank(v c06Val) int {
	switch v.kind {
	case 'i':
		return 1
	case 's':
		return 2
	}
	return 3
}

// -1 less, 0 equal, 1 greater (the documented order of `sort`: numbers before text, rows without a value last, whatever the direction)
func c06pCmpVal(a, b c06Val, asc bool) int {
	ra, rb := c06pRank(a), c06pRank(b)
	if ra == 3 || rb == 3 {
		switch {
		case ra == 3 && rb == 3:
			return 0
		case ra == 3:
			return 1
		}
		return -1
	}
	r := 0
	switch {
	case ra != rb:
		r = -1
		if ra > rb {
			r = 1
		}
	case ra == 1:
		if a.i < b.i {
			r = -1
		} else if a.i > b.i {
			r = 1
		}
	default:
		sa, _ := hex.DecodeString(a.s)
		sb, _ := hex.DecodeString(b.s)
		r = strings.Compare(string(sa), string(sb))
	}
	if !asc {
		r = -r
	}
	return r
}

func c06pLess(keys []c06pKey, a, b c06RefRow) bool {
	for _, k := range keys {
		va, _ := a.val(k.f)
		vb, _ := b.val(k.f)
		if c := c06pCmpVal(va, vb, k.asc); c != 0 {
			return c < 0
		}
	}
	return false
}

func c06pFloorDiv(a, b int64) int64 {
	q := a / b
	if (a%b != 0) && ((a < 0) != (b < 0)) {
		q--
	}
	return q
}

// span of `bin <field>` without span=: the smallest power of ten ≥ (max-min)/bins, raised while the buckets from floor(min) to
// ceil(max) are more than bins.  ok=false: the span would be a fraction (range < bins): not modelled.
func c06pAutoSpan(min, max int64, bins int64) (int64, bool) {
	if min == max {
		return 1, true
	}
	if max-min < bins {
		return 0, false
	}
	span := int64(1)
	for span*bins < max-min { // 10^ceil(log10((max-min)/bins))
		span *= 10
	}
	for {
		lo := c06pFloorDiv(min, span) * span
		hi := c06pFloorDiv(max, span)*span + span // ceil, and one more bucket when max is on a boundary
		if (hi-lo)/span > bins {
			span *= 10
		} else {
			return span, true
		}
	}
}

func c06pLimit(c c06pCmd) int {
	if c.n == 0 {
		return 10000
	}
	return int(c.n)
}

// returns (rows, ok); ok=false: an answer that is not modelled (fractional bin span)
func c06pRefStage(c c06pCmd, in []c06RefRow) ([]c06RefRow, bool) {
	var out []c06RefRow
	switch c.kind {
	case "head", "tail", "dedup", "fillnull", "rename", "fields":
		var sh c06Shapes
		out = c06RefStage(c.base, in, &sh)
		if c.kind == "fields" || c.kind == "rename" {
			var kept []c06RefRow
			for _, r := range out {
				if len(r) > 0 {
					kept = append(kept, r)
				}
			}
			out = kept
		}
		return out, true
	case "sort":
		out = append(out, in...)
		sort.SliceStable(out, func(i, j int) bool { return c06pLess(c.keys, out[i], out[j]) })
		if l := c06pLimit(c); len(out) > l {
			out = out[:l]
		}
		return out, true
	case "where":
		for _, r := range in {
			v, ok := r.val(c.f)
			if !ok || v.kind != 'i' {
				continue
			}
			keep := false
			switch c.op {
			case "gt":
				keep = v.i > c.c
			case "ge":
				keep = v.i >= c.c
			case "lt":
				keep = v.i < c.c
			case "le":
				keep = v.i <= c.c
			case "eq":
				keep = v.i == c.c
			case "ne":
				keep = v.i != c.c
			}
			if keep {
				out = append(out, r)
			}
		}
		return out, true
	case "eval":
		for _, r := range in {
			n := c06Clone(r)
			if v, ok := r.val(c.f); ok && v.kind == 'i' {
				switch c.op {
				case "add":
					n[c.g] = c06Val{kind: 'i', i: v.i + c.c}
				case "sub":
					n[c.g] = c06Val{kind: 'i', i: v.i - c.c}
				case "mul":
					n[c.g] = c06Val{kind: 'i', i: v.i * c.c}
				}
			} else {
				n[c.g] = c06Val{kind: 'z'}
			}
			out = append(out, n)
		}
		return out, true
	case "bin":
		span := int64(c.n)
		if span == 0 {
			first := true
			var mn, mx int64
			for _, r := range in {
				if v, ok := r.val(c.f); ok && v.kind == 'i' {
					if first || v.i < mn {
						mn = v.i
					}
					if first || v.i > mx {
						mx = v.i
					}
					first = false
				}
			}
			bins := int64(c.bins)
			if bins == 0 {
				bins = 100
			}
			if first {
				return in, true
			}
			var ok bool
			if span, ok = c06pAutoSpan(mn, mx, bins); !ok {
				return nil, false
			}
		}
		for _, r := range in {
			n := c06Clone(r)
			if v, ok := r.val(c.f); ok && v.kind == 'i' {
				lo := c06pFloorDiv(v.i, span) * span
				hi := fmt.Sprint(lo + span)
				if lo+span == 0 && v.i%span != 0 { // ceil(v/span) is the float -0
					hi = "-0"
				}
				n[c.f] = c06Val{kind: 's', s: hex.EncodeToString([]byte(fmt.Sprintf("%d-%s", lo, hi)))}
			}
			out = append(out, n)
		}
		return out, true
	case "stats":
		type grp struct {
			key  c06Val
			rows []c06RefRow
		}
		var groups []*grp
		for _, r := range in {
			k := c06Val{kind: 'z'}
			if c.by != "" {
				k, _ = r.val(c.by)
			}
			var g *grp
			for _, x := range groups {
				if x.key == k {
					g = x
				}
			}
			if g == nil {
				g = &grp{key: k}
				groups = append(groups, g)
			}
			g.rows = append(g.rows, r)
		}
		if c.by == "" && len(groups) == 0 {
			// no input at all: one row of zeros or no row, depending on whether any (empty) batch reached the command: not judged
			return nil, false
		}
		for _, g := range groups {
			n := c06RefRow{}
			if c.by != "" {
				n[c.by] = g.key
			}
			for _, a := range c.aggs {
				if a.fn == "count" {
					n[a.alias] = c06Val{kind: 'i', i: int64(len(g.rows))}
					continue
				}
				have := false
				var acc int64
				for _, r := range g.rows {
					v, ok := r.val(a.arg)
					if !ok || v.kind != 'i' {
						continue
					}
					switch {
					case !have:
						acc = v.i
					case a.fn == "sum":
						acc += v.i
					case a.fn == "min" && v.i < acc:
						acc = v.i
					case a.fn == "max" && v.i > acc:
						acc = v.i
					}
					have = true
				}
				n[a.alias] = c06Val{kind: 'i', i: acc}
			}
			out = append(out, n)
		}
		return out, true
	}
	return in, true
}

func c06pRefTable(rows []c06Row) []c06RefRow {
	var ref []c06RefRow
	all := c06Keys(rows)
	for _, r := range rows {
		rr := c06RefRow{}
		for _, k := range all {
			rr[k] = c06Val{kind: 'z'}
		}
		for _, c := range r {
			rr[c.k] = c.v
		}
		ref = append(ref, rr)
	}
	return ref
}

func c06pRefRun(cmds []c06pCmd, ref []c06RefRow) ([]c06RefRow, bool) {
	for _, c := range cmds {
		var ok bool
		if ref, ok = c06pRefStage(c, ref); !ok {
			return nil, false
		}
	}
	return ref, true
}

func c06pRefCanon(rows []c06RefRow, cmp string) string {
	var rs []string
	for _, r := range rows {
		var ks []string
		for k, v := range r {
			if v.kind != 'z' {
				ks = append(ks, k)
			}
		}
		if len(ks) == 0 {
			rs = append(rs, "-")
			continue
		}
		sort.Strings(ks)
		var cells []string
		for _, k := range ks {
			cells = append(cells, k+"~"+c06ValStr(r[k]))
		}
		rs = append(rs, strings.Join(cells, ","))
	}
	if cmp == "set" {
		sort.Strings(rs)
	}
	return fmt.Sprintf("ok cmp=%s n=%d %s", cmp, len(rs), strings.Join(rs, ";"))
}

func (c c06pCmd) twoPass() bool {
	return (c.kind == "fillnull" && len(c.base.fields) == 0) || (c.kind == "bin" && c.n == 0)
}

func execPlan(line string) Result { return execPlanMode(line, false) }

// c05: phrase the direct property checks as C05 (order, limits) states them
func execPlanMode(line string, c05 bool) Result {
	if strings.HasPrefix(line, "planms ") && !c05 {
		return c06pmExec(line)
	}
	op, ok := c06pParseOp(line)
	if !ok {
		return Result{Out: "bad-op", Tags: []string{"bad-op"}}
	}
	if !op.exec {
		plan := c06pBuild(op.cmds, op.k)
		if plan.err != "" {
			return Result{Out: "err " + plan.err, Tags: []string{"shape-err"}}
		}
		return Result{Out: plan.shape, Nontrivial: len(op.cmds) >= 2, Tags: []string{"shape-only", fmt.Sprintf("K=%d", op.k)}}
	}
	ref, rok := c06pRefRun(op.cmds, c06pRefTable(op.rows))
	plan, got := c06pRunTimed(op.cmds, op.k, op.deal, op.rows)
	if plan.err != "" {
		return Result{Out: "err " + plan.err, Tags: []string{"plan-err"}}
	}
	n := len(plan.chains)
	shares := c06pDeal(op.deal, op.rows, n)
	res := Result{}
	if !rok {
		res.Out = plan.shape + " | skip=not-judged"
	} else {
		res.Out = plan.shape + " | " + c06pCanon(got, op.cmp)
	}
	nb, maxShare := 0, 0
	for _, sh := range shares {
		if len(sh) > 0 {
			maxShare++
		}
		for _, b := range sh {
			if len(b) > 0 {
				nb++
			}
		}
	}
	res.Nontrivial = len(op.rows) >= 3 && (maxShare >= 2 || nb >= 2)
	bott := "none"
	for _, c := range op.cmds {
		if c.kind == "sort" || c.kind == "stats" || c.kind == "tail" || c.twoPass() {
			bott = c.kind
			if c.twoPass() {
				bott = c.kind + "-2pass"
			}
			break
		}
	}
	res.Tags = []string{fmt.Sprintf("K=%d", op.k), fmt.Sprintf("chains=%d", n), fmt.Sprintf("chains-with-data=%d", maxShare), "first-bottleneck=" + bott, fmt.Sprintf("cmds=%d", len(op.cmds))}
	tp := false
	for i, c := range op.cmds {
		if c.twoPass() {
			tp = true
			for _, b := range op.cmds[:i] {
				if b.kind == "sort" || b.kind == "stats" {
					res.Tags = append(res.Tags, "two-pass-after-"+b.kind)
					break
				}
			}
		}
	}
	if tp {
		res.Tags = append(res.Tags, "has-two-pass")
	}
	if tp && n > 1 {
		res.Tags = append(res.Tags, "two-pass-with-parallel-chains")
	}
	if !rok {
		res.Tags = append(res.Tags, "skip=not-judged")
		return res
	}
	if got.status != "ok" {
		res.Tags = append(res.Tags, "status="+got.status)
	}
	if got.status == "hang-skip" { // not run (the watchdog gave up on this op file): nothing to judge
		return res
	}
	// --- property 1: neither the number of upstream chains nor the batching matters
	_, base := c06pRunTimed(op.cmds, 1, nil, op.rows)
	if base.status == "hang-skip" {
		if got.status == "hang" {
			res.Fails = append(res.Fails, PropFail{Sig: "plan-hang/" + bott, Msg: fmt.Sprintf("GOMAXPROCS=%d, %d chain(s), dealt %v: %s", op.k, n, op.deal, got.msg)})
		}
		return res
	}
	if a, b := c06pCanon(got, op.cmp), c06pCanon(base, op.cmp); a != b {
		sig := "plan-parallel/" + bott + "/chains"
		if n == 1 {
			sig = "plan-parallel/" + bott + "/batches"
		}
		if c05 {
			sig = "plan-sort/order/rows-depend-on-chains-or-batches"
			if got.status == "ok" && base.status == "ok" && len(got.rows) != len(base.rows) {
				sig = "plan-sort/limit/row-count-depends-on-chains-or-batches"
			}
		}
		if got.status == "hang" || got.status == "hang-skip" {
			sig = "plan-hang/" + bott
		}
		res.Fails = append(res.Fails, PropFail{Sig: sig, Msg: fmt.Sprintf("GOMAXPROCS=%d, %d chain(s), dealt %v: [%s] %s  but GOMAXPROCS=1, one batch: [%s] %s", op.k, n, op.deal, a, got.msg, b, base.msg)})
	}
	// --- property 2: the sequential single-batch answer is the documented meaning on the whole input
	if a, want := c06pCanon(base, op.cmp), c06pRefCanon(ref, op.cmp); a != want {
		who := "chain"
		if len(op.cmds) == 1 {
			who = op.cmds[0].kind
		}
		sig := "plan-semantics/" + who + "/other"
		if c05 {
			sig = "plan-sort/order/not-the-first-rows-in-sort-order"
			if base.status == "ok" && len(base.rows) != len(ref) {
				sig = "plan-sort/limit/not-exactly-min-of-limit-and-rows"
			}
		}
		res.Fails = append(res.Fails, PropFail{Sig: sig, Msg: fmt.Sprintf("GOMAXPROCS=1, one batch: [%s] %s  documented meaning: [%s]", a, base.msg, want)})
	}
	return res
}

// ---------------------------------------------------------------- generator

var c06pWords = []string{"ab", "b", "ga", "gb", "gc", "zz"}

func c06pGenRows(r *rand.Rand, n int, wide bool, sortedX bool) []string {
	ids := r.Perm(n)
	var xs []int
	for i := 0; i < n; i++ {
		switch {
		case wide:
			xs = append(xs, r.Intn(3000))
		case r.Intn(6) == 0:
			xs = append(xs, r.Intn(41)-20)
		default:
			xs = append(xs, r.Intn(25))
		}
	}
	if sortedX {
		sort.Ints(xs)
	}
	var rows []string
	for i := 0; i < n; i++ {
		cells := []string{fmt.Sprintf("id~i%d", ids[i]+1), fmt.Sprintf("x~i%d", xs[i]), fmt.Sprintf("w~i%d", r.Intn(5))}
		if r.Intn(3) != 0 {
			if r.Intn(8) == 0 {
				cells = append(cells, "a~z")
			} else {
				cells = append(cells, fmt.Sprintf("a~i%d", r.Intn(4)))
			}
		}
		if r.Intn(2) == 0 {
			cells = append(cells, "s~s"+hex.EncodeToString([]byte(c06pWords[r.Intn(len(c06pWords))])))
		}
		rows = append(rows, strings.Join(cells, ","))
	}
	return rows
}

func c06pGenDeal(r *rand.Rand, n int, mode int, k int) string {
	var ds []string
	left := n
	slot := r.Intn(4)
	if mode == 3 { // one batch per chain: k contiguous runs (the last takes what is left)
		p := r.Perm(k)
		for i, sl := range p {
			c := 1 + r.Intn(n/k+2)
			if i == len(p)-1 || c > left {
				c = left
			}
			if c <= 0 {
				break
			}
			ds = append(ds, fmt.Sprintf("%d:%d", sl, c))
			left -= c
		}
		return strings.Join(ds, ",")
	}
	for left > 0 && len(ds) < 12 {
		c := 1
		switch mode {
		case 0: // one row per batch, round robin
		case 1: // contiguous thirds
			c = n/3 + 1
		default:
			c = 1 + r.Intn(3)
		}
		if mode == 2 && r.Intn(3) == 0 {
			slot = r.Intn(4)
		} else {
			slot++
		}
		ds = append(ds, fmt.Sprintf("%d:%d", slot%4, c))
		left -= c
	}
	return strings.Join(ds, ",")
}

func c06pGenCmd(r *rand.Rand, nrows int, kinds []string) string {
	cols := []string{"x", "w", "a", "s", "e", "b", "c", "id"}
	col := func() string { return cols[r.Intn(len(cols))] }
	intcol := func() string { return []string{"x", "w", "e", "x", "c"}[r.Intn(5)] }
	lim := func() int {
		switch r.Intn(5) {
		case 0:
			return 1 + r.Intn(3)
		case 1:
			return nrows/2 + 1
		case 2:
			return nrows + r.Intn(2)
		case 3:
			return nrows/3 + 1
		}
		return 1 + r.Intn(nrows+2)
	}
	switch kinds[r.Intn(len(kinds))] {
	case "sort":
		var ks []string
		for i := r.Intn(3); i > 0; i-- {
			ks = append(ks, []string{"+", "-"}[r.Intn(2)]+[]string{"x", "w", "a", "s", "e", "c"}[r.Intn(6)])
		}
		ks = append(ks, []string{"+", "+", "-"}[r.Intn(3)]+[]string{"id", "id", "id", "s", "a", "w"}[r.Intn(6)])
		l := 0
		if r.Intn(4) != 0 {
			l = lim()
		}
		return fmt.Sprintf("sort:%d:%s", l, strings.Join(ks, ","))
	case "head":
		return fmt.Sprintf("head:%d", lim())
	case "tail":
		return fmt.Sprintf("tail:%d", lim())
	case "dedup":
		fl := []string{"-", "-", "c", "e", "v", "ev"}[r.Intn(6)]
		return fmt.Sprintf("dedup:%d:%s:%s", 1+r.Intn(2), fl, strings.Join(c06Pick(r, []string{"a", "s", "w"}, 1+r.Intn(2)), ","))
	case "fillnull":
		v := hex.EncodeToString([]byte([]string{"F", "NULL", "x"}[r.Intn(3)]))
		if r.Intn(2) == 0 {
			return "fillnull:" + v + ":"
		}
		return "fillnull:" + v + ":" + strings.Join(c06Pick(r, []string{"a", "s", "b", "q"}, 1+r.Intn(2)), ",")
	case "rename":
		return "rename:" + col() + ":" + col()
	case "fields":
		if r.Intn(2) == 0 {
			return "fields:-:" + strings.Join(c06Pick(r, []string{"a", "s", "w", "e", "x"}, 1+r.Intn(2)), ",")
		}
		return "fields:+:" + strings.Join(append(c06Pick(r, []string{"a", "s", "w", "e", "x", "c"}, 1+r.Intn(3)), []string{"id", "s", "a", "w"}[r.Intn(4)]), ",")
	case "bin":
		if r.Intn(2) == 0 {
			return fmt.Sprintf("bin:%s:%d:0", intcol(), []int{1, 2, 5, 10, 100, 7}[r.Intn(6)])
		}
		return fmt.Sprintf("bin:%s:0:%d", intcol(), []int{0, 2, 3, 5, 10}[r.Intn(5)])
	case "stats":
		var as []string
		for i, al := range c06Pick(r, []string{"c", "e", "b", "m"}, 1+r.Intn(3)) {
			if i == 0 && r.Intn(2) == 0 {
				as = append(as, "count."+al)
			} else {
				as = append(as, []string{"sum", "min", "max"}[r.Intn(3)]+"."+intcol()+"."+al)
			}
		}
		by := []string{"-", "s", "a", "w", "s", "a"}[r.Intn(6)]
		return "stats:" + strings.Join(as, "+") + ":" + by
	case "where":
		return fmt.Sprintf("where:%s:%s:%d", intcol(), []string{"gt", "ge", "lt", "le", "eq", "ne"}[r.Intn(6)], r.Intn(25)-2)
	case "eval":
		return fmt.Sprintf("eval:%s:%s:%s:%d", []string{"e", "e", "x", "w", "b"}[r.Intn(5)], intcol(), []string{"add", "sub", "mul"}[r.Intn(3)], r.Intn(9)-3)
	}
	return "head:1"
}

var c06pRowwise = []string{"where", "eval", "rename", "fields", "fillnull", "bin", "eval", "where"}
var c06pAllKinds = []string{"sort", "sort", "head", "tail", "dedup", "fillnull", "fillnull", "rename", "fields", "bin", "bin", "stats", "stats", "where", "eval"}

// extends the chain by one command of the given kinds that keeps it well-formed (rejection sampling against c06pWF)
func c06pExtend(r *rand.Rand, chain []string, nrows int, tableCols []string, kinds []string, must func(c06pCmd) bool) ([]string, bool) {
	for try := 0; try < 60; try++ {
		cs := c06pGenCmd(r, nrows, kinds)
		pc, ok := c06pParseCmd(cs)
		if !ok || (must != nil && !must(pc)) {
			continue
		}
		var parsed []c06pCmd
		for _, x := range append(append([]string{}, chain...), cs) {
			p, _ := c06pParseCmd(x)
			parsed = append(parsed, p)
		}
		if _, ok := c06pWF(parsed, tableCols); ok {
			return append(chain, cs), true
		}
	}
	return chain, false
}

func genPlan(r *rand.Rand, n int, tier string) []string {
	out := []string{
		// deliberate boundary cases: merge limit + Rewind (two-pass command directly on top of the merger, limit reached in the first merge round)
		"plan K=3 X=1 C=sort:4:+x,+id|fillnull:46: S=0:1,1:1,2:1,0:1,1:1,2:1,0:1,1:1,2:1 R=id~i1,x~i5,w~i0,a~i1;id~i2,x~i1,w~i0;id~i3,x~i9,w~i0,a~i2;id~i4,x~i3,w~i0,a~i1;id~i5,x~i7,w~i0;id~i6,x~i2,w~i0,a~i3;id~i7,x~i8,w~i0,a~i1;id~i8,x~i4,w~i0;id~i9,x~i6,w~i0,a~i2",
		"plan K=2 X=1 C=sort:2:-x,+id|bin:w:0:2 S=0:2,1:2,0:2 R=id~i1,x~i5,w~i0;id~i2,x~i1,w~i10;id~i3,x~i9,w~i4;id~i4,x~i3,w~i7;id~i5,x~i7,w~i2;id~i6,x~i2,w~i9",
		// a two-pass command before the first order-insensitive bottleneck: every chain would see only its share
		"plan K=3 X=1 C=bin:x:0:0|sort:0:+id S=0:2,1:2,2:2 R=id~i1,x~i0,w~i0;id~i2,x~i300,w~i0;id~i3,x~i350,w~i0;id~i4,x~i600,w~i0;id~i5,x~i700,w~i0;id~i6,x~i1000,w~i0",
		"plan K=3 X=1 C=eval:e:x:add:1|bin:e:0:5|stats:count.c:e S=0:2,1:2,2:2 R=id~i1,x~i0,w~i0;id~i2,x~i30,w~i0;id~i3,x~i35,w~i0;id~i4,x~i60,w~i0;id~i5,x~i70,w~i0;id~i6,x~i100,w~i0",
		"plan K=4 X=0 C=fillnull:46:|sort:0:+x S= R=",
		"plan K=4 X=0 C=where:x:gt:1|top:s S= R=",
		"plan K=2 X=0 C=stats:count.c:s|sort:0:+s S= R=",
	}
	out = append(out, c06pmCorpus...)
	for len(out) < n {
		if r.Intn(100) < 30 { // a DataProcessor with several input streams (c06_planms.go)
			if l := c06pmGen(r); l != "" {
				out = append(out, l)
			}
			continue
		}
		switch q := r.Intn(100); {
		case q < 3: // malformed
			out = append(out, []string{
				"plan K=0 X=1 C=head:1 S= R=id~i1,x~i1,w~i1", "plan K=2 X=2 C=head:1 S= R=id~i1,x~i1,w~i1", "plan K=2 X=1 C=head:1 S=9:1 R=id~i1,x~i1,w~i1",
				"plan K=2 X=1 C=head:1 S= R=id~i1,x~i1", "plan K=2 X=1 C=head:1 S= R=id~i1,x~i1,w~i1;id~i1,x~i2,w~i1", "plan K=2 X=1 C=sort:1:+x S= R=id~i1,x~i1,w~i1",
				"plan K=2 X=1 C=top:s S= R=id~i1,x~i1,w~i1", "plan K=2 X=1 C=bin:s:2:0 S= R=id~i1,x~i1,w~i1", "plan K=2 X=1 C=stats:count.c:s|head:1 S= R=id~i1,x~i1,w~i1",
				"plan K=2 X=1 C=sort:1:x S= R=id~i1,x~i1,w~i1", "plan K=2 X=1 C=fillnull:30: S= R=id~i1,x~i1,w~i1", "plan K=2 X=1 C=head:1 S= R=id~i1,x~i1,w~i1,s~s41",
				"plan K=2 X=1 C=rename:id:q S= R=id~i1,x~i1,w~i1", "plan K=2 X=1 C=bin:x:3:5 S= R=id~i1,x~i1,w~i1", "plan K=2 X=1 C=stats:count.c:- S= R=id~i1,x~i1,w~i1",
			}[r.Intn(15)])
			continue
		case q < 15: // plan shape only: every command kind
			k := 1 + r.Intn(4)
			var cs []string
			for i := 1 + r.Intn(5); i > 0; i-- {
				switch r.Intn(3) {
				case 0:
					cs = append(cs, c06pGenCmd(r, 8, c06pAllKinds))
				case 1:
					cs = append(cs, c06pGenCmd(r, 8, c06pRowwise))
				default:
					f := []string{"s", "a", "x"}[r.Intn(3)]
					cs = append(cs, []string{"streamstats", "top:" + f, "rare:" + f, "timechart:" + f, "rex:" + f, "makemv:" + f, "mvexpand:" + f, "tojson:" + f, "transaction:" + f, "dedupsort:" + f + ":x"}[r.Intn(10)])
				}
			}
			out = append(out, fmt.Sprintf("plan K=%d X=0 C=%s S= R=", k, strings.Join(cs, "|")))
			continue
		}
		nrows := 3 + r.Intn(12)
		if r.Intn(12) == 0 {
			nrows = r.Intn(3)
		}
		k := []int{1, 2, 2, 3, 3, 4}[r.Intn(6)]
		wide, sortedX, dealMode := r.Intn(4) == 0, false, 2
		tmpl := r.Intn(100)
		if tmpl >= 25 && tmpl < 50 {
			wide, sortedX = r.Intn(3) != 0, r.Intn(3) != 0
		}
		rows := c06pGenRows(r, nrows, wide, sortedX)
		parsedRows, _ := c06ParseRows(strings.Join(rows, ";"))
		tableCols := c06Keys(parsedRows)
		var chain []string
		ok := true
		ext := func(kinds []string, must func(c06pCmd) bool) {
			if ok {
				chain, ok = c06pExtend(r, chain, nrows, tableCols, kinds, must)
			}
		}
		switch t := tmpl; {
		case t < 25: // sort N merged from several chains, a two-pass command on top of the merger
			for i := r.Intn(3); i > 0; i-- {
				ext([]string{"where", "eval", "rename", "fields", "fillnull"}, func(c c06pCmd) bool { return !c.twoPass() })
			}
			small := r.Intn(2) == 0 // a limit the first merge round reaches
			ext([]string{"sort"}, func(c c06pCmd) bool {
				if small {
					return c.n >= 1 && int(c.n) <= nrows/3+1
				}
				return c.n != 0 || r.Intn(4) == 0
			})
			if r.Intn(8) == 0 {
				ext([]string{"eval", "fields", "where"}, nil)
			}
			ext([]string{"fillnull", "bin"}, func(c c06pCmd) bool { return c.twoPass() })
			for i := r.Intn(2); i > 0; i-- {
				ext(c06pAllKinds, nil)
			}
			if k == 1 && r.Intn(3) != 0 {
				k = 2 + r.Intn(3)
			}
			dealMode = []int{0, 2, 3, 3, 3, 3}[r.Intn(6)]
		case t < 50: // a two-pass command before the first order-insensitive bottleneck, shares with different value ranges
			for i := r.Intn(2); i > 0; i-- {
				ext([]string{"where", "eval", "rename", "fields"}, nil)
			}
			ext([]string{"bin", "bin", "fillnull"}, func(c c06pCmd) bool { return c.twoPass() })
			for i := r.Intn(2); i > 0; i-- {
				ext([]string{"where", "eval", "fields"}, nil)
			}
			ext([]string{"sort", "stats"}, nil)
			for i := r.Intn(2); i > 0; i-- {
				ext(c06pAllKinds, nil)
			}
			dealMode = 1 + r.Intn(3)
			if k == 1 && r.Intn(3) != 0 {
				k = 2 + r.Intn(3)
			}
		case t < 65: // row-wise commands, then an order-insensitive bottleneck, then anything
			for i := r.Intn(3); i > 0; i-- {
				ext(c06pRowwise, func(c c06pCmd) bool { return !c.twoPass() })
			}
			ext([]string{"sort", "stats"}, nil)
			for i := r.Intn(3); i > 0; i-- {
				ext(c06pAllKinds, nil)
			}
		default:
			for i := 1 + r.Intn(5); i > 0; i-- {
				ext(c06pAllKinds, nil)
			}
		}
		if !ok || len(chain) == 0 {
			continue
		}
		out = append(out, fmt.Sprintf("plan K=%d X=1 C=%s S=%s R=%s", k, strings.Join(chain, "|"), c06pGenDeal(r, nrows, dealMode, k), strings.Join(rows, ";")))
	}
	return out[:n]
}

// first frames of the panicking goroutine inside the repository (for the PropFail message)
func c06pStack() string {
	var fr []string
	for _, l := range strings.Split(string(debug.Stack()), "\n") {
		if strings.Contains(l, "/pkg/") && strings.HasPrefix(l, "\t") {
			l = strings.TrimSpace(l)
			if k := strings.Index(l, " +0x"); k > 0 {
				l = l[:k]
			}
			if k := strings.Index(l, "/pkg/"); k >= 0 {
				l = l[k+1:]
			}
			fr = append(fr, l)
			if len(fr) == 3 {
				break
			}
		}
	}
	return " at " + strings.Join(fr, " < ")
}

// generator of suite pipeplan_sort (C05)
func genPlanSort(r *rand.Rand, n int, tier string) []string {
	out := []string{
		// sort 3 merged from three chains whose first merge round yields more than 3 rows; the merger is fetched again
		"plan K=3 X=1 C=sort:3:+x,+id S=0:1,1:1,2:1,0:1,1:1,2:1,0:1,1:1,2:1 R=id~i1,x~i5,w~i0;id~i2,x~i1,w~i0;id~i3,x~i9,w~i0;id~i4,x~i3,w~i0;id~i5,x~i7,w~i0;id~i6,x~i2,w~i0;id~i7,x~i8,w~i0;id~i8,x~i4,w~i0;id~i9,x~i6,w~i0",
		"plan K=2 X=1 C=sort:2:-x,+id|head:5 S=0:3,1:3 R=id~i1,x~i5,w~i0;id~i2,x~i3,w~i0;id~i3,x~i8,w~i0;id~i4,x~i1,w~i0;id~i5,x~i7,w~i0;id~i6,x~i4,w~i0",
		"plan K=2 X=1 C=sort:3:+x,+id|sort:0:-id S=0:3,1:3 R=id~i1,x~i5,w~i0;id~i2,x~i3,w~i0;id~i3,x~i8,w~i0;id~i4,x~i1,w~i0;id~i5,x~i7,w~i0;id~i6,x~i4,w~i0",
	}
	rowwise := []string{"where", "eval", "rename", "fields", "fillnull", "bin"}
	after := []string{"head", "tail", "sort", "head", "where", "eval", "fields"}
	noTwoPass := func(c c06pCmd) bool { return !c.twoPass() }
	for len(out) < n {
		nrows := 3 + r.Intn(14)
		k := []int{1, 2, 2, 3, 3, 4, 4}[r.Intn(7)]
		rows := c06pGenRows(r, nrows, r.Intn(4) == 0, false)
		parsedRows, _ := c06ParseRows(strings.Join(rows, ";"))
		tableCols := c06Keys(parsedRows)
		var chain []string
		ok := true
		ext := func(kinds []string, must func(c06pCmd) bool) {
			if ok {
				chain, ok = c06pExtend(r, chain, nrows, tableCols, kinds, must)
			}
		}
		if r.Intn(8) == 0 { // no sort: head / tail exact under any batching
			for i := r.Intn(2); i > 0; i-- {
				ext(rowwise, noTwoPass)
			}
			ext([]string{"head", "tail"}, nil)
			if r.Intn(2) == 0 {
				ext([]string{"head", "tail"}, nil)
			}
		} else {
			for i := r.Intn(3); i > 0; i-- {
				ext(rowwise, noTwoPass)
			}
			// limits: far below the rows (the first merge round exceeds it), around the rows, none
			lim := []int{1, 2, 3, nrows / 3, nrows / 2, nrows - 1, nrows, nrows + 1, 0}[r.Intn(9)]
			ext([]string{"sort"}, func(c c06pCmd) bool { return int(c.n) == lim || (lim < 1 && c.n == 0) })
			for i := r.Intn(3); i > 0; i-- {
				ext(after, noTwoPass)
			}
		}
		if !ok || len(chain) == 0 {
			continue
		}
		out = append(out, fmt.Sprintf("plan K=%d X=1 C=%s S=%s R=%s", k, strings.Join(chain, "|"), c06pGenDeal(r, nrows, []int{0, 0, 2, 2, 3}[r.Intn(5)], k), strings.Join(rows, ";")))
	}
	return out[:n]
}
