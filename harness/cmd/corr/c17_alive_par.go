// Suite "alivepar" — suite "alive" with CONCURRENT clients (C17 "the process keeps running", C11 "no data races … or crashes").
//
// Suite alive sends one request at a time to a server.  The package maps that request goroutines share — the alias map
// of pkg/virtualtable, the saved-query maps of pkg/usersavedqueries, the per-org maps of pkg/usageStats — are only in
// danger when requests overlap.  A line here starts a fresh, empty server (the worker of suite alive; with the argument
// "orgs" the organisation of a request comes from the header X-Verif-Org, as in a deployment with several organisations),
// writes `pre` objects one after the other, and then runs `rounds` rounds of `k` requests RELEASED TOGETHER on the routes
// that read and write one of these maps:
//
//	pb alias   POST /elastic/_aliases add / remove | GET /elastic/_aliases | search and bulk ingest through an alias pattern
//	pb usq     POST /api/usersavedqueries/save | GET …/getall | GET …/<name> | GET …/deleteone/<name>
//	pb qstats  searches and bulk requests of organisations seen for the first time | GET /api/clusterStats, POST /api/usageStats
//	pb mixed   all of them
//	pb statsfn the three functions of pkg/usageStats that request goroutines call at the end of every query — UpdateQueryStats(org),
//	           UpdateQueryStatsForAllOrgs, GetQueryStats(org) — called by k goroutines of a child process for organisations seen
//	           for the first time (through requests the window is a few instructions wide and the log calls around it order
//	           the goroutines; the functions themselves are what the requests share)
//
// Verdict (quick and thorough tier): the process is alive after every round and answers a trivial search — else
// alivepar/<group>/process-died/<site> (site = first siglens function in the trace of the goroutine that ended the
// process; "fatal error: concurrent map …" is what an unsynchronised Go map does when two requests meet); at the end
// every object whose creation was acknowledged is listed — else alivepar/<group>/acknowledged-object-not-listed.
// Thorough tier, EXPLORATION: the same lines against a `-race` build of the worker; reports of the race detector whose
// writing access lies in one of the three packages become alivepar/data-race@<function>, the number of other reports is a tag.
package main

import (
	"bufio"
	"bytes"
	"encoding/hex"
	"encoding/json"
	"fmt"
	"math/rand"
	"os"
	"os/exec"
	"sort"
	"strconv"
	"strings"
	"sync"
	"time"

	"github.com/siglens/siglens/pkg/usageStats"
)

func init() {
	registerWorker("c17pstats", c17pStatsWorker)
	register(&Suite{Name: "alivepar", Gen: c17pGen, Exec: c17pExec, Parallel: 2,
		Rule: "rounds of k requests released together against a fresh real server on the routes that share the alias map, the saved-query maps and the per-org statistics maps; process alive after every round, acknowledged objects listed at the end; thorough tier also with a -race build (exploration); non-trivial = at least one round ran"})
}

type c17pParams struct {
	K      int   `json:"k"`
	Rounds int   `json:"rounds"`
	Pre    int   `json:"pre"`
	Race   bool  `json:"race,omitempty"`
	Seed   int64 `json:"seed"`
}

var c17pGroups = map[string]bool{"alias": true, "usq": true, "qstats": true, "mixed": true, "statsfn": true}

func c17pGen(r *rand.Rand, n int, tier string) []string {
	var out []string
	groups := []string{"alias", "usq", "qstats", "mixed", "statsfn"}
	for i := 0; len(out) < n; i++ {
		if r.Intn(30) == 0 {
			out = append(out, []string{"pb", "pb alias", "pb nosuch 7b7d", "pb usq zz", "pb alias 7b7d x", "PB alias 7b7d"}[r.Intn(6)])
			continue
		}
		p := c17pParams{K: []int{8, 12, 16, 24}[r.Intn(4)], Rounds: []int{20, 40, 60}[r.Intn(3)], Pre: []int{0, 50, 200, 400}[r.Intn(4)], Seed: r.Int63()}
		if i%4 < 2 { // most lines: a well-filled map, so that an iteration over it takes time
			p.Pre = 200 + r.Intn(200)
		}
		if tier == "thorough" && i%2 == 1 {
			p.Race = true
			p.Rounds = 10
		}
		b, _ := json.Marshal(p)
		out = append(out, "pb "+groups[i%len(groups)]+" "+hex.EncodeToString(b))
	}
	return out
}

type c17pReq struct {
	srv, method, path, ctype string
	body                     []byte
	org                      int64
	ack                      string // the object this request creates (listed at the end when the request was acknowledged)
	unack                    string // the object this request removes
}

func (q c17pReq) bytes() []byte {
	var h [][2]string
	if q.ctype != "" {
		h = append(h, [2]string{"Content-Type", q.ctype})
	}
	if q.org != 0 {
		h = append(h, [2]string{"X-Verif-Org", strconv.FormatInt(q.org, 10)})
	}
	return c17aReqBytes(q.method, q.path, h, q.body)
}

func c17pAliasAdd(name string) c17pReq {
	return c17pReq{srv: "q", method: "POST", path: "/elastic/_aliases", ctype: c17aJ, body: []byte(`{"actions":[{"add":{"index":"ind-0","alias":"` + name + `"}}]}`), ack: name}
}

func c17pUsqSave(name string) c17pReq {
	return c17pReq{srv: "q", method: "POST", path: "/api/usersavedqueries/save", ctype: c17aJ, ack: name,
		body: []byte(`{"queryName":"` + name + `","queryDescription":"` + strings.Repeat("d", 40) + `","searchText":"*","indexName":"ind-0","queryLanguage":"Splunk QL","dataSource":"Logs"}`)}
}

const c17pSearchBody = `{"searchText":"*","indexName":"%s","startEpoch":"now-1h","endEpoch":"now","queryLanguage":"Splunk QL","size":5}`

// the requests of one round
func c17pRound(r *rand.Rand, group string, round, k int, live map[string][]string, nextOrg *int64) []c17pReq {
	var out []c17pReq
	g := group
	for j := 0; j < k; j++ {
		if group == "mixed" {
			g = []string{"alias", "usq", "qstats"}[(round+j)%3]
		}
		name := fmt.Sprintf("%s%dx%d", g[:1], round, j)
		switch g {
		case "alias":
			switch j % 6 {
			case 0, 1, 2:
				out = append(out, c17pAliasAdd("al"+name))
			case 3:
				out = append(out, c17pReq{srv: "q", method: "GET", path: "/elastic/_aliases"})
			case 4:
				if l := live["alias"]; len(l) > 0 && r.Intn(2) == 0 {
					v := l[r.Intn(len(l))]
					out = append(out, c17pReq{srv: "q", method: "POST", path: "/elastic/_aliases", ctype: c17aJ, body: []byte(`{"actions":[{"remove":{"index":"ind-0","alias":"` + v + `"}}]}`), unack: v})
				} else {
					out = append(out, c17pReq{srv: "q", method: "POST", path: "/api/search", ctype: c17aJ, body: []byte(fmt.Sprintf(c17pSearchBody, "al*"))})
				}
			default:
				out = append(out, c17pReq{srv: "i", method: "POST", path: "/elastic/_bulk", ctype: c17aJ, body: []byte("{\"index\":{\"_index\":\"alpre0\"}}\n{\"x\":1}\n")})
			}
		case "usq":
			switch j % 6 {
			case 0, 1, 2:
				out = append(out, c17pUsqSave("uq"+name))
			case 3:
				out = append(out, c17pReq{srv: "q", method: "GET", path: "/api/usersavedqueries/getall"})
			case 4:
				if l := live["usq"]; len(l) > 0 {
					v := l[r.Intn(len(l))]
					out = append(out, c17pReq{srv: "q", method: "GET", path: "/api/usersavedqueries/deleteone/" + v, unack: v})
				}
			default:
				out = append(out, c17pReq{srv: "q", method: "GET", path: "/api/usersavedqueries/uqpre1"})
			}
		default: // qstats: bulk requests of organisations never seen, first searches of the organisations of the round before
			*nextOrg++
			switch j % 4 {
			case 0, 1:
				out = append(out, c17pReq{srv: "q", method: "POST", path: "/api/search", ctype: c17aJ, org: *nextOrg - int64(k), body: []byte(fmt.Sprintf(c17pSearchBody, "ind-0"))})
			case 2:
				out = append(out, c17pReq{srv: "i", method: "POST", path: "/elastic/_bulk", ctype: c17aJ, org: *nextOrg, body: []byte("{\"index\":{\"_index\":\"ind-0\"}}\n{\"x\":1}\n")})
			default:
				out = append(out, c17pReq{srv: "i", method: "POST", path: "/elastic/_bulk", ctype: c17aJ, org: *nextOrg, body: []byte("{\"index\":{\"_index\":\"ind-0\"}}\n{\"x\":1}\n")})
				if r.Intn(2) == 0 {
					out = append(out, c17pReq{srv: "q", method: "GET", path: "/api/clusterStats", org: *nextOrg - int64(k) - int64(r.Intn(3))})
				} else {
					out = append(out, c17pReq{srv: "q", method: "POST", path: "/api/usageStats", ctype: c17aJ, org: *nextOrg - int64(k) - int64(r.Intn(3)),
						body: []byte(`{"startEpoch":"now-1h","endEpoch":"now","granularity":"hour"}`)})
				}
			}
		}
	}
	return out
}

func c17pExec(line string) Result {
	f := strings.Fields(line)
	if len(f) != 3 || f[0] != "pb" || !c17pGroups[f[1]] || f[2] == "" {
		return Result{Out: "bad-op", Tags: []string{"malformed"}}
	}
	pbytes, err := hex.DecodeString(f[2])
	if err != nil {
		return Result{Out: "bad-op", Tags: []string{"malformed"}}
	}
	group := f[1]
	res := Result{Out: "ok", Tags: []string{"pb:" + group}}
	var p c17pParams
	if json.Unmarshal(pbytes, &p) != nil || p.K < 1 || p.K > 64 || p.Rounds < 1 || p.Rounds > 500 || p.Pre < 0 || p.Pre > 2000 {
		res.Tags = append(res.Tags, "params-unparsed")
		return res
	}
	fail := func(sig, msg string) { res.Fails = append(res.Fails, PropFail{Sig: "alivepar/" + sig, Msg: msg}) }
	bin, env := "", []string(nil)
	if p.Race {
		rb, e := c11RaceBinary()
		if rb == "" {
			fail("race-build-failed", e)
			return res
		}
		bin, env = rb, []string{"GORACE=halt_on_error=0 history_size=3"}
		res.Tags = append(res.Tags, "race-build")
	}
	if group == "statsfn" {
		c17pStatsFn(&res, &p, bin, env)
		return res
	}
	c17aInstallExitHook()
	var s *c17aSB
	for try := 0; try < 3; try++ {
		if s, err = c17aNewSBWith(bin, []string{"orgs"}, env, false); err == nil {
			break
		}
	}
	if err != nil {
		return Result{Out: "boot-failed", Fails: []PropFail{{Sig: "alivepar/boot-failed", Msg: err.Error()}}, Tags: []string{"boot-failed"}}
	}
	defer func() {
		s.kill()
		if os.Getenv("C17A_KEEP") == "" {
			os.RemoveAll(s.root)
		}
	}()
	deadline := c17aAnswerDeadline
	if p.Race {
		deadline = 60 * time.Second
	}
	send := func(q c17pReq) c17aAns {
		port := s.qport
		if q.srv == "i" {
			port = s.iport
		}
		return c17aHTTP(port, q.bytes(), deadline)
	}
	died := func(when string, last []c17pReq) bool {
		if !s.hasExited() {
			return false
		}
		suffix, msg := s.died()
		var w []string
		for i, q := range last {
			if i < 6 {
				w = append(w, q.method+" "+q.path+" "+trunc(string(q.body), 80))
			}
		}
		fail(group+"/process-died"+suffix, fmt.Sprintf("%s %s; the requests in flight (%d, released together): %s", msg, when, len(last), strings.Join(w, " | ")))
		res.Tags = append(res.Tags, "died")
		return true
	}
	r := rand.New(rand.NewSource(p.Seed))
	// the index, and a well-filled map (one request after the other: nothing overlaps yet)
	send(c17pReq{srv: "i", method: "POST", path: "/elastic/_bulk", ctype: c17aJ, body: []byte("{\"index\":{\"_index\":\"ind-0\"}}\n{\"x\":1}\n")})
	s.flush()
	acked := map[string]map[string]bool{"alias": {}, "usq": {}}
	live := map[string][]string{}
	for i := 0; i < p.Pre; i++ {
		if group == "alias" || group == "mixed" {
			n := "alpre" + strconv.Itoa(i)
			if send(c17pAliasAdd(n)).status == 200 {
				acked["alias"][n] = true
				live["alias"] = append(live["alias"], n)
			}
		}
		if group == "usq" || group == "mixed" {
			n := "uqpre" + strconv.Itoa(i)
			if send(c17pUsqSave(n)).status == 200 {
				acked["usq"][n] = true
				live["usq"] = append(live["usq"], n)
			}
		}
		if died("while the objects were written one after the other", nil) {
			return res
		}
	}
	nextOrg := int64(100)
	rounds := 0
	for round := 0; round < p.Rounds; round++ {
		reqs := c17pRound(r, group, round, p.K, live, &nextOrg)
		raws := make([][]byte, len(reqs))
		for i, q := range reqs {
			raws[i] = q.bytes()
		}
		ans := make([]c17aAns, len(reqs))
		var wg sync.WaitGroup
		gate := make(chan struct{})
		for i := range reqs {
			wg.Add(1)
			go func(i int) {
				defer wg.Done()
				<-gate
				ans[i] = send(reqs[i])
			}(i)
		}
		close(gate)
		wg.Wait()
		rounds++
		res.Nontrivial = true
		if died(fmt.Sprintf("in round %d of %d concurrent requests (after %d objects written one by one)", round+1, p.K, p.Pre), reqs) {
			res.Tags = append(res.Tags, fmt.Sprintf("rounds-until-death:%d", rounds))
			return res
		}
		for i, q := range reqs {
			st := "alias"
			if strings.HasPrefix(q.ack, "uq") || strings.HasPrefix(q.unack, "uq") {
				st = "usq"
			}
			if q.ack != "" && ans[i].status == 200 {
				acked[st][q.ack] = true
			}
			if q.unack != "" { // whether or not it was acknowledged: nothing is claimed about a removed object
				delete(acked[st], q.unack)
				l := live[st][:0]
				for _, v := range live[st] {
					if v != q.unack {
						l = append(l, v)
					}
				}
				live[st] = l
			}
		}
		for _, q := range reqs {
			if q.ack != "" {
				st := "alias"
				if strings.HasPrefix(q.ack, "uq") {
					st = "usq"
				}
				if acked[st][q.ack] {
					live[st] = append(live[st], q.ack)
				}
			}
		}
	}
	res.Tags = append(res.Tags, fmt.Sprintf("k:%d", p.K))
	// quiescence: a trivial search, and every acknowledged object is listed
	pr := send(c17pReq{srv: "q", method: "POST", path: "/api/search", ctype: c17aJ, body: []byte(fmt.Sprintf(c17pSearchBody, "ind-0"))})
	if died("while answering the trivial search after the rounds", nil) {
		return res
	}
	if pr.status != 200 {
		fail(group+"/no-answer", fmt.Sprintf("the trivial search after %d rounds of %d concurrent requests is answered %d %s", rounds, p.K, pr.status, pr.err))
	}
	check := func(st, path string) {
		if len(acked[st]) == 0 {
			return
		}
		a := send(c17pReq{srv: "q", method: "GET", path: path})
		if a.status != 200 {
			fail(st+"/acknowledged-object-not-listed", fmt.Sprintf("GET %s after the rounds answers %d %s", path, a.status, trunc(string(a.body), 200)))
			return
		}
		var lost []string
		for n := range acked[st] {
			if !bytes.Contains(a.body, []byte(`"`+n+`"`)) {
				lost = append(lost, n)
			}
		}
		sort.Strings(lost)
		if len(lost) > 0 {
			fail(st+"/acknowledged-object-not-listed", fmt.Sprintf("%d of %d objects whose creation was acknowledged (and that no request removed) are not listed by GET %s after %d rounds of %d concurrent requests: %s", len(lost), len(acked[st]), path, rounds, p.K, trunc(strings.Join(lost, ","), 300)))
		}
	}
	check("alias", "/elastic/_aliases")
	check("usq", "/api/usersavedqueries/getall")
	if p.Race {
		s.kill()
		select {
		case <-s.exited:
		case <-time.After(5 * time.Second):
		}
		time.Sleep(50 * time.Millisecond)
		fs, others := c17pRaceSigs(s.stderr.String())
		res.Fails = append(res.Fails, fs...)
		res.Tags = append(res.Tags, fmt.Sprintf("race-reports-elsewhere:%d", others))
	}
	return res
}

var c17pRacePkgs = []string{"pkg/virtualtable.", "pkg/usersavedqueries.", "pkg/usageStats."}

// race detector reports whose WRITING access lies in one of the three packages: one class per function
func c17pRaceSigs(stderr string) (out []PropFail, others int) {
	seen := map[string]bool{}
	topFrame := func(block string) string {
		for _, l := range strings.Split(block, "\n") {
			l = strings.TrimSpace(l)
			if strings.HasPrefix(l, "github.com/siglens/siglens/pkg/") {
				if i := strings.LastIndexByte(l, '('); i > 0 {
					l = l[:i]
				}
				return strings.TrimPrefix(l, "github.com/siglens/siglens/")
			}
		}
		return ""
	}
	for _, rep := range strings.Split(stderr, "WARNING: DATA RACE")[1:] {
		acc := rep
		if i := strings.Index(acc, "\nGoroutine "); i >= 0 {
			acc = acc[:i]
		}
		frame := ""
		for _, b := range strings.Split(strings.TrimSpace(acc), "\n\n") {
			h := strings.TrimSpace(b)
			if strings.HasPrefix(h, "Write at") || strings.HasPrefix(h, "Previous write at") {
				if frame = topFrame(b); frame != "" {
					break
				}
			}
		}
		mine := false
		for _, pk := range c17pRacePkgs {
			if strings.HasPrefix(frame, pk) {
				mine = true
			}
		}
		if !mine {
			others++
			continue
		}
		sig := "alivepar/data-race@" + frame
		if !seen[sig] {
			seen[sig] = true
			end := strings.Index(rep, "==================")
			if end < 0 {
				end = len(rep)
			}
			out = append(out, PropFail{Sig: sig, Msg: "race detector report (exploration): " + trunc(strings.TrimSpace(rep[:end]), 1800)})
		}
	}
	return out, others
}

// ---------------------------------------------------------------- statsfn

//	corr c17pstats <k> <iterations>
//
// k goroutines, released together; goroutine g records the end of a query of an organisation nobody has seen yet
// (UpdateQueryStats), now and then the end of a metrics query (UpdateQueryStatsForAllOrgs) and a read (GetQueryStats).
func c17pStatsWorker() {
	k, _ := strconv.Atoi(os.Args[2])
	iters, _ := strconv.Atoi(os.Args[3])
	if k < 1 || k > 64 || iters < 1 || iters > 1000000 {
		fmt.Println("FATAL usage: corr c17pstats <k> <iterations>")
		os.Exit(3)
	}
	var wg sync.WaitGroup
	gate := make(chan struct{})
	var total uint64
	var mu sync.Mutex
	for g := 0; g < k; g++ {
		wg.Add(1)
		go func(g int) {
			defer wg.Done()
			<-gate
			var n uint64
			for i := 0; i < iters; i++ {
				org := int64(1000 + g*iters + i)
				usageStats.UpdateQueryStats(1, 1.5, org)
				if i%7 == 3 {
					usageStats.UpdateQueryStatsForAllOrgs(1, 0.5)
				}
				if i%5 == 1 {
					c, _, _, _ := usageStats.GetQueryStats(org - 1)
					n += c
				}
			}
			mu.Lock()
			total += n
			mu.Unlock()
		}(g)
	}
	close(gate)
	wg.Wait()
	// every organisation has its query counted
	missing := 0
	for g := 0; g < k; g++ {
		for i := 0; i < iters; i++ {
			if c, _, _, _ := usageStats.GetQueryStats(int64(1000 + g*iters + i)); c == 0 {
				missing++
			}
		}
	}
	out := bufio.NewWriter(os.Stdout)
	fmt.Fprintf(out, "@@done missing=%d\n", missing)
	out.Flush()
	os.Exit(0)
}

func c17pStatsFn(res *Result, p *c17pParams, bin string, env []string) {
	fail := func(sig, msg string) { res.Fails = append(res.Fails, PropFail{Sig: "alivepar/" + sig, Msg: msg}) }
	self := bin
	if self == "" {
		self, _ = os.Executable()
	}
	iters := p.Rounds * 100
	if p.Race {
		iters = p.Rounds * 20
	}
	cmd := exec.Command(self, "c17pstats", strconv.Itoa(p.K), strconv.Itoa(iters))
	cmd.Env = append(append(os.Environ(), "GOMAXPROCS=4"), env...)
	var stdout, stderr bytes.Buffer
	cmd.Stdout, cmd.Stderr = &stdout, &stderr
	if err := cmd.Start(); err != nil {
		fail("boot-failed", err.Error())
		return
	}
	done := make(chan error, 1)
	go func() { done <- cmd.Wait() }()
	res.Nontrivial = true
	res.Tags = append(res.Tags, fmt.Sprintf("k:%d", p.K))
	witness := fmt.Sprintf("%d goroutines × %d calls of usageStats.UpdateQueryStats(1, 1.5, <new org>) with UpdateQueryStatsForAllOrgs and GetQueryStats in between", p.K, iters)
	select {
	case err := <-done:
		// (a -race build that reported something ends with status 66 after the last line: that is not a death)
		if !strings.Contains(stdout.String(), "@@done") {
			site, head := c17aSite(stderr.String())
			if site == "" {
				site = "runtime"
			}
			fail("statsfn/process-died/"+site, fmt.Sprintf("the process died (%v): %s in %s; %s", err, trunc(head, 200), site, witness))
			res.Tags = append(res.Tags, "died")
			return
		}
		if !strings.Contains(stdout.String(), "missing=0") {
			fail("statsfn/query-not-counted", fmt.Sprintf("%s; afterwards: %s", witness, strings.TrimSpace(strings.TrimPrefix(stdout.String(), "@@done"))))
		}
	case <-time.After(120 * time.Second):
		cmd.Process.Kill()
		fail("statsfn/no-answer", "the calls did not return within 120 s; "+witness)
		return
	}
	if p.Race {
		fs, others := c17pRaceSigs(stderr.String())
		res.Fails = append(res.Fails, fs...)
		res.Tags = append(res.Tags, fmt.Sprintf("race-reports-elsewhere:%d", others))
	}
}
