package main

// Property C11 — suite "concstress": EXPLORATION ONLY (neither a proof nor a replay of a model schedule).
//
//	c11stress <seed> <gomaxprocs> <milliseconds> <indexes> <race 0|1>
//
// A separate engine process (`corr c11stress …`, GOMAXPROCS from the op line; race=1: the same harness built
// with `-race`, thorough tier) runs for the given time
//   - one ingesting goroutine per index (bulk batches of 1–3 events with unique _vid),
//   - a flusher (the real FlushWipBufferToFile with zero idle/max-wait durations, every few ms),
//   - a rotator (the real ForceRotateSegmentsForTest, every ~100 ms),
//   - two searchers issuing match-all record queries and `* | stats count` over all indexes,
//   - a FAN-IN goroutine: every ~150 ms it takes 2–3 brand-new indexes (streams without a SegStore) and
//     releases, through one barrier, 4–8 goroutines per index that each do the FIRST ingest call on it (one
//     event); every other round it also takes an index of an earlier round whose store has been rotated, has
//     the store removed from allSegStores as removeStaleSegments does (writer.VerifC11CEvictOnly) and fans in on
//     it again (first ingests on a stream whose suffix file already exists),
//   - a BARRIER goroutine: six stores on four dedicated indexes (two indexes with two streams), each with a time
//     window of its own; every few ms each store receives 1–2 events and then the six flushes (AppendWipToSegfile
//     under the store's own lock) are released through one barrier; after the final rotation the .bsu file of
//     every segment of these stores is read back: every block summary inside the store's window
//     (conc/block-summary-of-another-segment), readable, record counts = acknowledged events, and a search of the
//     index over the window returns exactly the acknowledged events,
// and checks, per query, "no _vid twice" and "every _vid whose flush completed before the query began is
// present" (count queries: at least that many), and, after everything stopped, "all _vid exactly once"; for the
// fan-in indexes: after the final flush and after the final rotation a match-all query over them returns the
// event of every ACKNOWLEDGED first ingest (create/lost-ack, with seed + round + index + counts as the replay).
// Crash → conc/crash@<frame>, no progress for 40 s → conc/stall (goroutine dump on stderr), race detector
// report → conc/data-race@<top frame>.  The Oracle answers "ok" to every well-formed line: the model has no
// opinion on timing, the property statement is checked directly.

import (
	"encoding/json"
	"fmt"
	"math/rand"
	"os"
	"os/exec"
	"path/filepath"
	"runtime"
	"runtime/pprof"
	"sort"
	"strconv"
	"strings"
	"sync"
	"sync/atomic"
	"time"

	"github.com/siglens/siglens/pkg/ast/pipesearch"
	"github.com/siglens/siglens/pkg/config"
	eswriter "github.com/siglens/siglens/pkg/es/writer"
	"github.com/siglens/siglens/pkg/hooks"
	"github.com/siglens/siglens/pkg/segment/query"
	"github.com/siglens/siglens/pkg/segment/reader/microreader"
	"github.com/siglens/siglens/pkg/segment/structs"
	"github.com/siglens/siglens/pkg/segment/writer"
	log "github.com/sirupsen/logrus"
)

// c11LogWatch collects, per qid, the read path's own report that it skipped a segment because the key had left
// the unrotated map between the check and the look-up (metadata.CheckMicroIndicesForUnrotated). Used only to
// name the witness class of a loss that the stress run observed; an unexplained loss keeps the generic class.
type c11LogWatch struct {
	mu      sync.Mutex
	skipped map[uint64]int
}

func (h *c11LogWatch) Levels() []log.Level { return []log.Level{log.ErrorLevel} }

func (h *c11LogWatch) Fire(e *log.Entry) error {
	m := e.Message
	if !strings.Contains(m, "does not exist in unrotated") {
		return nil
	}
	i := strings.Index(m, "qid=")
	if i < 0 {
		return nil
	}
	j := i + 4
	for j < len(m) && m[j] >= '0' && m[j] <= '9' {
		j++
	}
	id, err := strconv.ParseUint(m[i+4:j], 10, 64)
	if err == nil {
		h.mu.Lock()
		h.skipped[id]++
		h.mu.Unlock()
	}
	return nil
}

func (h *c11LogWatch) take(id uint64) int {
	h.mu.Lock()
	defer h.mu.Unlock()
	n := h.skipped[id]
	delete(h.skipped, id)
	return n
}

type c11StressCfg struct {
	seed  int64
	procs int
	ms    int
	nidx  int
	race  bool
}

func c11StressParse(line string) (c11StressCfg, bool) {
	f := strings.Fields(line)
	var c c11StressCfg
	if len(f) != 6 || f[0] != "c11stress" {
		return c, false
	}
	var v [5]int
	for i := 0; i < 5; i++ {
		n, okN := c11Num(f[i+1])
		if !okN {
			return c, false
		}
		v[i] = n
	}
	c = c11StressCfg{seed: int64(v[0]), procs: v[1], ms: v[2], nidx: v[3], race: v[4] == 1}
	if c.procs < 1 || c.procs > 64 || c.ms < 1 || c.ms > 120000 || c.nidx < 1 || c.nidx > 4 || v[4] > 1 {
		return c, false
	}
	return c, true
}

func c11StressMain() {
	if len(os.Args) < 5 {
		fmt.Println("bad-op")
		return
	}
	seed, _ := strconv.ParseInt(os.Args[2], 10, 64)
	ms, _ := strconv.Atoi(os.Args[3])
	nidx, _ := strconv.Atoi(os.Args[4])
	dir := bootEngine()
	defer os.RemoveAll(dir)
	watch := &c11LogWatch{skipped: map[uint64]int{}}
	log.SetLevel(log.ErrorLevel) // output stays discarded (main); the hook only reads messages
	log.AddHook(watch)

	var clock atomic.Int64   // logical time
	var barrier atomic.Int64 // an event whose ingest call returned at logical time < barrier has been flushed
	var nextVid atomic.Int64
	var progress atomic.Int64
	var mu sync.Mutex
	ingestDone := map[int]int64{} // vid → logical time at which its ingest call returned
	ingestStarted := map[int]bool{}
	var fails []PropFail
	failSeen := map[string]bool{}
	fail := func(sig, msg string) {
		mu.Lock()
		if !failSeen[sig] {
			failSeen[sig] = true
			fails = append(fails, PropFail{Sig: sig, Msg: msg})
		}
		mu.Unlock()
	}
	var index []string
	for i := 0; i < nidx; i++ {
		index = append(index, fmt.Sprintf("c11x%d", i))
	}
	stop := make(chan struct{})
	var wg sync.WaitGroup
	var nQueries, nRot, nFlush atomic.Int64

	// stall watchdog
	go func() {
		last := int64(-1)
		lastChange := time.Now()
		for {
			time.Sleep(500 * time.Millisecond)
			p := progress.Load()
			if p != last {
				last = p
				lastChange = time.Now()
			} else if time.Since(lastChange) > 40*time.Second {
				fmt.Println("stall")
				pprof.Lookup("goroutine").WriteTo(os.Stderr, 1)
				os.Exit(0)
			}
		}
	}()

	for i := 0; i < nidx; i++ {
		wg.Add(1)
		go func(i int) {
			defer wg.Done()
			r := rand.New(rand.NewSource(seed*31 + int64(i)))
			tsKey := config.GetTimeStampKey()
			var stack [64]byte
			for {
				select {
				case <-stop:
					return
				default:
				}
				n := 1 + r.Intn(3)
				now := uint64(time.Now().UnixMilli())
				var ples []*writer.ParsedLogEvent
				var vids []int
				for k := 0; k < n; k++ {
					vid := int(nextVid.Add(1))
					vids = append(vids, vid)
					raw := []byte(fmt.Sprintf(`{"_vid":%d,"s":%d,"m":"e%d w%d"}`, vid, i, vid, vid%7))
					ple, err := writer.GetNewPLE(raw, now, index[i], &tsKey, stack[:])
					if err != nil {
						fail("conc/ingest-error", err.Error())
						return
					}
					ples = append(ples, ple)
				}
				mu.Lock()
				for _, v := range vids {
					ingestStarted[v] = true
				}
				mu.Unlock()
				err := eswriter.ProcessIndexRequestPle(now, index[i], false, map[string]string{}, 0, 0, map[string]string{}, map[uint64]string{}, stack[:], ples)
				writer.ReleasePLEs(ples)
				if err != nil {
					fail("conc/ingest-error", err.Error())
					return
				}
				t := clock.Add(1)
				mu.Lock()
				for _, v := range vids {
					ingestDone[v] = t
				}
				mu.Unlock()
				progress.Add(1)
				time.Sleep(time.Duration(3+r.Intn(6)) * time.Millisecond)
			}
		}(i)
	}
	// fan-in: many goroutines doing the FIRST ingest on the same new index, released together
	type c11Fan struct {
		index   string
		round   int
		g       int
		evicted bool
		acked   []int
		failed  int
		errMsg  string
	}
	var fanMu sync.Mutex
	var fans []*c11Fan
	var nFanRounds, nFanCalls, nFanEvicted atomic.Int64
	wg.Add(1)
	go func() {
		defer wg.Done()
		r := rand.New(rand.NewSource(seed*13 + 7))
		tsKey := config.GetTimeStampKey()
		var old []string // indexes of earlier rounds
		for round := 0; ; round++ {
			select {
			case <-stop:
				return
			default:
			}
			var batch []*c11Fan
			for k := 2 + r.Intn(2); k > 0; k-- {
				batch = append(batch, &c11Fan{index: fmt.Sprintf("c11fan%dx%d", round, k), round: round, g: 4 + r.Intn(5)})
			}
			if round%2 == 1 && len(old) > 0 {
				// a stream whose store was rotated and then removed as stale (no ingest on it is in flight: its round is over)
				ix := old[r.Intn(len(old))]
				if len(writer.VerifC11CEvictOnly(ix)) > 0 {
					nFanEvicted.Add(1)
					batch = append(batch, &c11Fan{index: ix, round: round, g: 4 + r.Intn(5), evicted: true})
				}
			}
			start := make(chan struct{})
			var fwg sync.WaitGroup
			for _, f := range batch {
				for j := 0; j < f.g; j++ {
					fwg.Add(1)
					go func(f *c11Fan) {
						defer fwg.Done()
						var stack [64]byte
						vid := int(nextVid.Add(1))
						now := uint64(time.Now().UnixMilli())
						raw := []byte(fmt.Sprintf(`{"_vid":%d,"m":"fan"}`, vid))
						ple, err := writer.GetNewPLE(raw, now, f.index, &tsKey, stack[:])
						<-start
						if err == nil {
							ples := []*writer.ParsedLogEvent{ple}
							err = eswriter.ProcessIndexRequestPle(now, f.index, false, map[string]string{}, 0, 0, map[string]string{}, map[uint64]string{}, stack[:], ples)
							writer.ReleasePLEs(ples)
						}
						fanMu.Lock()
						if err != nil {
							f.failed++
							f.errMsg = err.Error()
						} else {
							f.acked = append(f.acked, vid)
						}
						fanMu.Unlock()
						nFanCalls.Add(1)
					}(f)
				}
			}
			close(start)
			fwg.Wait()
			fanMu.Lock()
			fans = append(fans, batch...)
			fanMu.Unlock()
			for _, f := range batch {
				if !f.evicted {
					old = append(old, f.index)
				}
			}
			nFanRounds.Add(1) // (not counted as progress: the stall watchdog keeps judging ingest / flush / rotation / search)
			time.Sleep(time.Duration(100+r.Intn(100)) * time.Millisecond)
		}
	}()
	// BARRIER rounds: six stores on four dedicated indexes (stores 4, 5 are second streams of the first two indexes),
	// every store with a time window of its own; each round every store receives 1–2 events, then the six flushes
	// (the real AppendWipToSegfile under the store's own lock, as an ingest-triggered flush) are released together.
	// Checked after the final rotation (c11BarrierCheck): the .bsu file of every segment these stores ever wrote.
	bfs := make([]*c11BF, 6)
	for j := range bfs {
		bfs[j] = &c11BF{j: j, index: fmt.Sprintf("c11bf%d", j%4), stream: fmt.Sprintf("vbf%d", j), segkeys: map[string]bool{}}
	}
	var nBarrier atomic.Int64
	wg.Add(1)
	go func() {
		defer wg.Done()
		r := rand.New(rand.NewSource(seed*19 + 3))
		tsKey := config.GetTimeStampKey()
		var stack [64]byte
		for {
			select {
			case <-stop:
				return
			default:
			}
			for _, b := range bfs {
				if k, ok := writer.VerifC11FSegKey(b.stream); ok {
					b.segkeys[k] = true
				}
				var ples []*writer.ParsedLogEvent
				var vids []int
				for e := 1 + r.Intn(2); e > 0 && b.seq < c11fWindow-1; e-- {
					vid := int(nextVid.Add(1))
					ts := c11fBase + uint64(b.j*c11fWindow+b.seq)
					b.seq++
					raw := []byte(fmt.Sprintf(`{"_vid":%d,"m":"bf","%s":%d}`, vid, tsKey, ts))
					ple, err := writer.GetNewPLE(raw, ts, b.index, &tsKey, stack[:])
					if err != nil {
						fail("conc/ingest-error", err.Error())
						return
					}
					ples = append(ples, ple)
					vids = append(vids, vid)
				}
				err := eswriter.ProcessIndexRequestPle(c11fBase, b.index, false, map[string]string{}, 0, 0, map[string]string{b.index: b.stream}, map[uint64]string{}, stack[:], ples)
				writer.ReleasePLEs(ples)
				if err != nil {
					fail("conc/ingest-error", err.Error())
					return
				}
				b.vids = append(b.vids, vids...)
				if k, ok := writer.VerifC11FSegKey(b.stream); ok {
					b.segkeys[k] = true
				}
			}
			start := make(chan struct{})
			var bwg sync.WaitGroup
			for _, b := range bfs {
				bwg.Add(1)
				go func(b *c11BF) {
					defer bwg.Done()
					<-start
					if err := writer.VerifC11FFlushStream(b.stream); err != nil {
						fail("conc/flush-error", err.Error())
					}
				}(b)
			}
			close(start)
			bwg.Wait()
			nBarrier.Add(1)
			time.Sleep(time.Duration(2+r.Intn(8)) * time.Millisecond)
		}
	}()
	var flushMu sync.Mutex // orders barrier updates (flusher and rotator both flush)
	publish := func(t0 int64) {
		flushMu.Lock()
		if t0 > barrier.Load() {
			barrier.Store(t0)
		}
		flushMu.Unlock()
	}
	wg.Add(1)
	go func() { // flusher
		defer wg.Done()
		z := time.Duration(0)
		for {
			select {
			case <-stop:
				return
			default:
			}
			t0 := clock.Add(1)
			writer.FlushWipBufferToFile(&z, &z)
			publish(t0)
			nFlush.Add(1)
			progress.Add(1)
			time.Sleep(15 * time.Millisecond)
		}
	}()
	wg.Add(1)
	go func() { // rotator
		defer wg.Done()
		r := rand.New(rand.NewSource(seed*17 + 5))
		for {
			select {
			case <-stop:
				return
			case <-time.After(time.Duration(60+r.Intn(90)) * time.Millisecond):
			}
			t0 := clock.Add(1)
			writer.ForceRotateSegmentsForTest()
			publish(t0)
			nRot.Add(1)
			progress.Add(1)
		}
	}()
	var qid atomic.Uint64
	qid.Store(5000)
	// observe (never delay) the two segment lists of every query through the product hook
	var snapMu sync.Mutex
	snaps := map[uint64][][]string{}
	hooks.GlobalHooks.FilterQsrsHook = func(qsrs interface{}, qi interface{}, isRotated bool) (interface{}, error) {
		if info, ok := qi.(*query.QueryInformation); ok {
			var keys []string
			if l, ok := qsrs.([]*query.QuerySegmentRequest); ok {
				for _, r := range l {
					keys = append(keys, r.GetSegKey())
				}
			}
			snapMu.Lock()
			snaps[info.GetQid()] = append(snaps[info.GetQid()], keys)
			snapMu.Unlock()
		}
		return qsrs, nil
	}
	overlap := func(id uint64) string {
		snapMu.Lock()
		defer snapMu.Unlock()
		l := snaps[id]
		delete(snaps, id)
		if len(l) < 2 {
			return ""
		}
		in0 := map[string]bool{}
		for _, k := range l[0] {
			in0[k] = true
		}
		for _, k := range l[1] {
			if in0[k] {
				return k
			}
		}
		return ""
	}
	runQid := func(stats bool, id uint64) (vids []int, count int64, errs string) {
		now := uint64(time.Now().UnixMilli())
		text := "*"
		if stats {
			text = "* | stats count"
		}
		body := map[string]interface{}{
			"searchText": text, "startEpoch": float64(now - 3600_000), "endEpoch": float64(now + 3600_000),
			"indexName": strings.Join(index, ","), "queryLanguage": "Splunk QL", "size": float64(100000), "from": float64(0),
		}
		resp, _, _, err := pipesearch.ParseAndExecutePipeRequest(body, id, 0, time.Now(), "", nil)
		if err != nil {
			return nil, 0, err.Error()
		}
		if resp == nil {
			return nil, 0, "nil response"
		}
		if len(resp.Errors) > 0 {
			errs = strings.Join(resp.Errors, ";")
		}
		for _, h := range resp.Hits.Hits {
			switch v := h["_vid"].(type) {
			case float64:
				vids = append(vids, int(v))
			case int64:
				vids = append(vids, int(v))
			case uint64:
				vids = append(vids, int(v))
			case json.Number:
				n, _ := v.Int64()
				vids = append(vids, int(n))
			}
		}
		count = -1
		for _, m := range resp.MeasureResults {
			for _, v := range m.MeasureVal {
				switch x := v.(type) {
				case float64:
					count = int64(x)
				case int64:
					count = x
				case uint64:
					count = int64(x)
				case json.Number:
					count, _ = x.Int64()
				case string:
					if n, e := strconv.ParseInt(strings.ReplaceAll(x, ",", ""), 10, 64); e == nil {
						count = n
					}
				}
			}
		}
		if stats && count < 0 && len(resp.MeasureResults) == 0 {
			count = 0
		}
		return
	}
	runQ := func(stats bool) (vids []int, count int64, errs string) {
		id := qid.Add(1)
		vids, count, errs = runQid(stats, id)
		overlap(id)
		return
	}
	mustSee := func(b int64) []int {
		var out []int
		mu.Lock()
		for v, t := range ingestDone {
			if t < b {
				out = append(out, v)
			}
		}
		mu.Unlock()
		sort.Ints(out)
		return out
	}
	for k := 0; k < 2; k++ {
		wg.Add(1)
		go func(k int) {
			defer wg.Done()
			for it := 0; ; it++ {
				select {
				case <-stop:
					return
				default:
				}
				b := barrier.Load()
				need := mustSee(b)
				stats := (it+k)%3 == 2
				id := qid.Add(1)
				vids, count, errs := runQid(stats, id)
				both := overlap(id)
				skippedSegs := watch.take(id)
				nQueries.Add(1)
				progress.Add(1)
				if errs != "" {
					fail("conc/query-error", errs)
					continue
				}
				if stats {
					mu.Lock()
					started := len(ingestStarted)
					mu.Unlock()
					if count < int64(len(need)) {
						fail("conc/count-below-flushed", fmt.Sprintf("count %d < %d events flushed before the query began", count, len(need)))
					}
					if count > int64(started) {
						sig := "conc/count-exceeds-ingested"
						if both != "" {
							sig = "conc/counted-twice/segment-in-both-snapshots"
						}
						fail(sig, fmt.Sprintf("`* | stats count` returned %d > %d events ever handed to ingest; segment in both request lists: %q", count, started, both))
					}
					continue
				}
				seen := map[int]int{}
				for _, v := range vids {
					seen[v]++
				}
				for v, c := range seen {
					if c > 1 {
						fail("conc/event-returned-twice", fmt.Sprintf("a match-all query returned event %d %d times (%d hits)", v, c, len(vids)))
						break
					}
				}
				for _, v := range need {
					if seen[v] == 0 {
						sig := "conc/flushed-event-missing"
						if skippedSegs > 0 {
							sig = "conc/read-window/flushed-event-missing"
						}
						fail(sig, fmt.Sprintf("a match-all query (%d hits) lacks event %d whose flush completed before the query began (%d such events); segments the read path reported as gone from the unrotated map between its check and its look-up: %d", len(vids), v, len(need), skippedSegs))
						break
					}
				}
				time.Sleep(5 * time.Millisecond)
			}
		}(k)
	}
	time.Sleep(time.Duration(ms) * time.Millisecond)
	close(stop)
	wg.Wait()
	// quiescence
	z := time.Duration(0)
	writer.FlushWipBufferToFile(&z, &z)
	check := func(phase string) {
		vids, _, errs := runQ(false)
		_, count, errs2 := runQ(true)
		if errs != "" || errs2 != "" {
			fail("conc/query-error", phase+": "+errs+errs2)
			return
		}
		mu.Lock()
		total := len(ingestDone)
		mu.Unlock()
		seen := map[int]int{}
		for _, v := range vids {
			seen[v]++
		}
		bad := ""
		for v, c := range seen {
			if c != 1 {
				bad = fmt.Sprintf("event %d returned %d times", v, c)
			}
		}
		mu.Lock()
		for v := range ingestDone {
			if seen[v] == 0 && bad == "" {
				bad = fmt.Sprintf("event %d missing", v)
			}
		}
		mu.Unlock()
		if bad != "" || len(vids) != total {
			fail("conc/quiescent-contents-differ", fmt.Sprintf("%s: match-all returned %d hits for %d ingested events; %s", phase, len(vids), total, bad))
		}
		if count != int64(total) {
			fail("conc/quiescent-count-differs", fmt.Sprintf("%s: count %d for %d ingested events", phase, count, total))
		}
	}
	fanCheck := func(phase string) {
		fanMu.Lock()
		defer fanMu.Unlock()
		if len(fans) == 0 {
			return
		}
		names := map[string]bool{}
		var list []string
		for _, f := range fans {
			if !names[f.index] {
				names[f.index] = true
				list = append(list, f.index)
			}
		}
		seen := map[int]int{}
		// 40 indexes per query
		for i := 0; i < len(list); i += 40 {
			j := i + 40
			if j > len(list) {
				j = len(list)
			}
			saved := index
			index = list[i:j]
			vids, _, errs := runQ(false)
			index = saved
			if errs != "" {
				fail("conc/query-error", phase+" (fan-in indexes): "+errs)
				return
			}
			for _, v := range vids {
				seen[v]++
			}
		}
		for _, f := range fans {
			found := 0
			twice := 0
			for _, v := range f.acked {
				if seen[v] >= 1 {
					found++
				}
				if seen[v] > 1 {
					twice++
				}
			}
			kind := "a brand-new index"
			if f.evicted {
				kind = "an index whose rotated store had been removed from allSegStores as stale"
			}
			if found < len(f.acked) {
				fail("create/lost-ack", fmt.Sprintf("%s: seed %d, fan-in round %d: %d goroutines did the first ingest on %s (%s) at the same time; %d calls were acknowledged (%d failed), a match-all query on the index finds %d of the acknowledged events",
					phase, seed, f.round, f.g, f.index, kind, len(f.acked), f.failed, found))
			}
			if twice > 0 {
				fail("create/event-twice", fmt.Sprintf("%s: seed %d, fan-in round %d, index %s: %d acknowledged events are returned more than once", phase, seed, f.round, f.index, twice))
			}
			if f.failed > 0 {
				fail("create/ingest-error", fmt.Sprintf("seed %d, fan-in round %d: %d of %d simultaneous first ingests on %s (%s) failed: %s", seed, f.round, f.failed, f.g, f.index, kind, f.errMsg))
			}
		}
	}
	check("after final flush")
	fanCheck("after final flush")
	writer.ForceRotateSegmentsForTest()
	check("after final rotation")
	fanCheck("after final rotation")
	c11BarrierCheck(bfs, seed, fail)
	mu.Lock()
	total := len(ingestDone)
	mu.Unlock()
	fmt.Printf("done events=%d queries=%d rotations=%d flushes=%d faninrounds=%d fanincalls=%d faninevicted=%d barrierrounds=%d procs=%d\n", total, nQueries.Load(), nRot.Load(), nFlush.Load(), nFanRounds.Load(), nFanCalls.Load(), nFanEvicted.Load(), nBarrier.Load(), runtime.GOMAXPROCS(0))
	for _, f := range fails {
		b, _ := json.Marshal(f)
		fmt.Println("FAIL " + string(b))
	}
}

// one store of the barrier rounds
type c11BF struct {
	j       int
	index   string
	stream  string
	segkeys map[string]bool // every open-segment key the store was seen with
	vids    []int           // acknowledged events
	seq     int
}

// after everything was flushed and rotated: the block summaries of every segment of the barrier stores, read from
// the .bsu FILES with the product's reader, lie in the store's own time window and count the store's events; a
// match-all search of the index over the store's window returns exactly its acknowledged events
func c11BarrierCheck(bfs []*c11BF, seed int64, fail func(sig, msg string)) {
	for _, b := range bfs {
		lo0 := c11fBase + uint64(b.j*c11fWindow)
		// every .bsu file under the stream's directory (<…>/final/<index>/<stream>/<suffix>/<suffix>.bsu): the segment
		// keys seen during the run only tell where that directory is
		var keys []string
		for k := range b.segkeys {
			files, _ := filepath.Glob(filepath.Join(filepath.Dir(filepath.Dir(k)), "*", "*.bsu"))
			for _, fn := range files {
				keys = append(keys, strings.TrimSuffix(fn, ".bsu"))
			}
			break
		}
		sort.Strings(keys)
		recs := 0
		readable := true
		for _, k := range keys {
			fn := structs.GetBsuFnameFromSegKey(k)
			if fn != k+".bsu" {
				fail("conc/harness", "block summary file name is no longer <segkey>.bsu")
				return
			}
			sums, _, err := microreader.ReadBlockSummaries(fn, true)
			if err != nil {
				readable = false
				fail("conc/block-summary-unreadable", fmt.Sprintf("seed %d: barrier rounds (six stores flushing at the same instant): the block summary file %s of index %s, stream %s cannot be read after the rotation: %v", seed, fn[strings.Index(fn, "/final/")+1:], b.index, b.stream, err))
				continue
			}
			for i, bs := range sums {
				recs += int(bs.RecCount)
				if bs.LowTs < lo0 || bs.HighTs >= lo0+c11fWindow || bs.LowTs > bs.HighTs {
					fail("conc/block-summary-of-another-segment", fmt.Sprintf("seed %d: barrier rounds (six stores flushing at the same instant): block %d of segment %s (index %s, stream %s) carries the time range [%d, %d] and %d records; the events of this store lie in [%d, %d)", seed, i, k[strings.Index(k, "/final/")+1:], b.index, b.stream, bs.LowTs, bs.HighTs, bs.RecCount, lo0, lo0+c11fWindow))
				}
			}
		}
		if readable && recs != len(b.vids) {
			fail("conc/block-summary-records-differ", fmt.Sprintf("seed %d: barrier rounds: the block summaries of the %d segments of index %s, stream %s count %d records for %d acknowledged events", seed, len(keys), b.index, b.stream, recs, len(b.vids)))
		}
		found := map[int]int{}
		for once := true; once; once = false {
			body := map[string]interface{}{
				"searchText": "*", "startEpoch": float64(lo0), "endEpoch": float64(lo0 + c11fWindow - 1),
				"indexName": b.index, "queryLanguage": "Splunk QL", "size": float64(100000), "from": float64(0),
			}
			resp, _, _, err := pipesearch.ParseAndExecutePipeRequest(body, uint64(900000+b.j), 0, time.Now(), "", nil)
			if err != nil || resp == nil {
				fail("conc/query-error", fmt.Sprintf("barrier rounds, search of index %s: %v", b.index, err))
				break
			}
			for _, h := range resp.Hits.Hits {
				switch v := h["_vid"].(type) {
				case float64:
					found[int(v)]++
				case int64:
					found[int(v)]++
				case uint64:
					found[int(v)]++
				case json.Number:
					n, _ := v.Int64()
					found[int(n)]++
				}
			}
		}
		missing, twice := 0, 0
		for _, v := range b.vids {
			if found[v] == 0 {
				missing++
			}
			if found[v] > 1 {
				twice++
			}
		}
		if missing > 0 {
			fail("conc/flushed-event-missing-after-rotation", fmt.Sprintf("seed %d: barrier rounds (six stores flushing at the same instant): after the final rotation a match-all search of index %s over the time window of stream %s finds %d of its %d acknowledged events", seed, b.index, b.stream, len(b.vids)-missing, len(b.vids)))
		}
		if twice > 0 {
			fail("conc/event-returned-twice", fmt.Sprintf("seed %d: barrier rounds: %d events of index %s, stream %s are returned more than once after the final rotation", seed, twice, b.index, b.stream))
		}
	}
}

// ---------------------------------------------------------------- suite "concstress"

var c11RaceOnce sync.Once
var c11RaceBin string
var c11RaceErr string

// the harness itself built with -race (thorough tier only); same overlay as the binary that is running
func c11RaceBinary() (string, string) {
	c11RaceOnce.Do(func() {
		exe, _ := os.Executable()
		dir := filepath.Dir(exe)
		// files of the build that produced this binary: private check run → next to it; manual build → build/manual
		work := dir
		_, e1 := os.Stat(filepath.Join(work, "overlay.json"))
		_, e2 := os.Stat(filepath.Join(work, "go.mod"))
		if e1 != nil || e2 != nil {
			work = filepath.Join(dir, "manual")
		}
		harness := ""
		for d := dir; d != "/" && d != "."; d = filepath.Dir(d) {
			if _, err := os.Stat(filepath.Join(d, "harness", "cmd", "corr")); err == nil {
				harness = filepath.Join(d, "harness")
				break
			}
		}
		if harness == "" {
			c11RaceErr = "harness directory not found above " + dir
			return
		}
		for _, f := range []string{"overlay.json", "go.mod"} {
			if _, err := os.Stat(filepath.Join(work, f)); err != nil {
				c11RaceErr = "build file missing: " + filepath.Join(work, f)
				return
			}
		}
		out := filepath.Join(work, "corr_race")
		cmd := exec.Command("go", "build", "-race", "-modfile", filepath.Join(work, "go.mod"), "-tags", "verif",
			"-overlay", filepath.Join(work, "overlay.json"), "-o", out, "./cmd/corr")
		cmd.Dir = harness
		cmd.Env = append(os.Environ(), "GOFLAGS=-mod=mod", "GOPROXY=off", "GOSUMDB=off", "GOTOOLCHAIN=local", "CGO_ENABLED=1")
		b, err := cmd.CombinedOutput()
		if err != nil {
			c11RaceErr = err.Error() + ": " + trunc(string(b), 1500)
			return
		}
		c11RaceBin = out
	})
	return c11RaceBin, c11RaceErr
}

// race detector reports → one witness class per distinct top siglens frame of the WRITING access (of the
// later one when both write): the many readers of one unsynchronised write fall into one class
func c11RaceSigs(stderr string) []PropFail {
	var out []PropFail
	seen := map[string]bool{}
	topFrame := func(block string) string {
		for _, l := range strings.Split(block, "\n") {
			l = strings.TrimSpace(l)
			if strings.HasPrefix(l, "github.com/siglens/siglens/pkg/") {
				if i := strings.LastIndexByte(l, '('); i > 0 {
					l = l[:i]
				}
				return strings.TrimPrefix(l, "github.com/siglens/siglens/")
			}
		}
		return ""
	}
	for _, rep := range strings.Split(stderr, "WARNING: DATA RACE")[1:] {
		acc := rep
		if i := strings.Index(acc, "\nGoroutine "); i >= 0 {
			acc = acc[:i] // the two racing accesses, without the "Goroutine N created at" stacks
		}
		if strings.Contains(acc, "main.bootEngine") {
			// one side of the race is the harness's own engine bootstrap (engine.go starts the product's background
			// loops in its own order): a harness artefact, not a finding
			continue
		}
		blocks := strings.Split(strings.TrimSpace(acc), "\n\n")
		frame := ""
		for _, b := range blocks {
			h := strings.TrimSpace(b)
			if strings.HasPrefix(h, "Write at") || strings.HasPrefix(h, "Previous write at") || strings.HasPrefix(h, "Atomic write at") || strings.HasPrefix(h, "Previous atomic write at") {
				frame = topFrame(b)
				if frame != "" {
					break
				}
			}
		}
		if frame == "" {
			frame = topFrame(acc)
		}
		if frame == "" {
			frame = "unknown"
		}
		sig := "conc/data-race@" + frame
		if !seen[sig] {
			seen[sig] = true
			end := strings.Index(rep, "==================")
			if end < 0 {
				end = len(rep)
			}
			out = append(out, PropFail{Sig: sig, Msg: "race detector report (exploration): " + trunc(strings.TrimSpace(rep[:end]), 1800)})
		}
	}
	return out
}

func execConcStress(line string) Result {
	c, ok := c11StressParse(line)
	if !ok {
		return Result{Out: "bad-op", Tags: []string{"malformed"}}
	}
	bin := os.Args[0]
	if c.race {
		rb, e := c11RaceBinary()
		if rb == "" {
			return Result{Out: "race-build-failed", Fails: []PropFail{{Sig: "conc/race-build-failed", Msg: e}}, Nontrivial: true}
		}
		bin = rb
	}
	saved := os.Args[0]
	_ = saved
	cmd := []string{"c11stress", strconv.FormatInt(c.seed, 10), strconv.Itoa(c.ms), strconv.Itoa(c.nidx)}
	env := []string{"GOMEMLIMIT=3GiB", "GOMAXPROCS=" + strconv.Itoa(c.procs), "GORACE=halt_on_error=0 exitcode=0"}
	out, stderr, err, timedOut := c11SpawnBin(bin, cmd, "", env, time.Duration(c.ms)*time.Millisecond*6+150*time.Second)
	res := Result{Nontrivial: true, Tags: []string{fmt.Sprintf("procs=%d", c.procs)}}
	if c.race {
		res.Tags = append(res.Tags, "race-build")
	}
	if timedOut {
		res.Out = "worker-timeout"
		res.Fails = append(res.Fails, PropFail{Sig: "conc/stall", Msg: "stress worker did not finish in time"})
		return res
	}
	finished := false
	for _, l := range strings.Split(strings.TrimSpace(out), "\n") {
		if strings.HasPrefix(l, "FAIL ") {
			var pf PropFail
			if json.Unmarshal([]byte(l[5:]), &pf) == nil {
				pf.Msg = "(stress exploration, " + line + ") " + pf.Msg
				res.Fails = append(res.Fails, pf)
			}
		} else if strings.HasPrefix(l, "done ") {
			finished = true
			for _, kv := range strings.Fields(l)[1:] {
				p := strings.SplitN(kv, "=", 2)
				if len(p) == 2 && (p[0] == "queries" || p[0] == "rotations" || p[0] == "faninrounds" || p[0] == "faninevicted" || p[0] == "barrierrounds") {
					if n, _ := strconv.Atoi(p[1]); n > 0 {
						res.Tags = append(res.Tags, "had-"+p[0])
					}
				}
			}
		} else if l == "stall" {
			res.Fails = append(res.Fails, PropFail{Sig: "conc/stall", Msg: "no progress for 40 s; goroutine dump: " + trunc(stderr, 3000)})
			finished = true
		}
	}
	if !finished {
		msg := ""
		if err != nil {
			msg = err.Error()
		}
		res.Fails = append(res.Fails, PropFail{Sig: "conc/crash@" + c11CrashFrame(stderr), Msg: "stress worker died: " + msg + " " + trunc(stderr, 1500)})
	}
	res.Fails = append(res.Fails, c11RaceSigs(stderr)...)
	res.Out = "ok"
	if len(res.Fails) > 0 {
		res.Tags = append(res.Tags, "propfail")
	}
	return res
}

func c11SpawnBin(bin string, args []string, stdin string, env []string, timeout time.Duration) (string, string, error, bool) {
	saved := os.Args[0]
	if bin == saved {
		return c11SpawnWorker(args, stdin, env, timeout)
	}
	cmd := exec.Command(bin, args...)
	cmd.Stdin = strings.NewReader(stdin)
	var stdout, stderr strings.Builder
	cmd.Stdout = &stdout
	cmd.Stderr = &stderr
	cmd.Env = append(os.Environ(), env...)
	if err := cmd.Start(); err != nil {
		return "", "", err, false
	}
	done := make(chan error, 1)
	go func() { done <- cmd.Wait() }()
	select {
	case err := <-done:
		return stdout.String(), stderr.String(), err, false
	case <-time.After(timeout):
		cmd.Process.Kill()
		<-done
		return stdout.String(), stderr.String(), nil, true
	}
}

func genConcStress(r *rand.Rand, n int, tier string) []string {
	var out []string
	procs := []int{1, 4, 16}
	ms := 2500
	if tier == "thorough" {
		ms = 8000
	}
	for i := 0; len(out) < n; i++ {
		p := procs[i%3]
		race := 0
		if tier == "thorough" && (i/3)%2 == 1 {
			race = 1
		}
		out = append(out, fmt.Sprintf("c11stress %d %d %d %d %d", r.Intn(1000000), p, ms, 2+r.Intn(2), race))
	}
	return out
}

func init() {
	register(&Suite{Name: "concstress", Parallel: 1, Gen: genConcStress, Exec: execConcStress,
		Rule: "EXPLORATION (supporting only): a separate engine process runs concurrent ingest on 2–3 indexes + periodic flush + forced rotation + repeated match-all / count queries + fan-in rounds (4–8 goroutines released together doing the FIRST ingest on each of 2–3 brand-new indexes, every other round also on an index whose rotated store was removed as stale) for a fixed time under GOMAXPROCS 1, 4, 16 (thorough tier: also a -race build) and checks per query: no event twice, every event flushed before the query began present; at quiescence: every event exactly once, every acknowledged first ingest of a fan-in round searchable; barrier rounds (six stores on four further indexes, two of them with two streams, flushed at the same instant every few ms): after the final rotation every block summary read from the .bsu files lies in its own store's time window and the events are searchable; crash, stall and race-detector reports become findings"})
}

func init() { registerWorker("c11stress", c11StressMain) }
