package main

// suite "traceingest" (property C16: "all ingest protocols preserve event content and time … OTLP logs and traces"):
// the INGEST HALF of the C12 end-to-end trace suite (c12_e2e.go / c12_e2e_suite.go).  OTLP trace export requests
// (1-5 ResourceSpans x 1-3 ScopeSpans, resources with / without service.name, nil Resource, attributes of every AnyValue
// kind, several requests per case, re-delivered spans, documents of another protocol in the same index) go through the
// real otlp.ProcessTraceIngest on a fresh engine process, the index is flushed and read back with a `*` search.
//
//	tei <P> <pick> <request>|<request>…      (the grammar of the `te` op line)
//
// compared with the model: the acknowledgements of the requests and the STORED EVENTS (the prefix `acks=… ev=…` of the
// tracee2e answer; the trace views that follow belong to C12 and are cut off on both sides);
// judged by the statement: the PropFails of the ingest section of teJudge (sig trace-ingest/…: every accepted span stored
// once per delivery with its ids, name, times, status, attributes and with the service of ITS OWN resource) and a worker
// crash / hang.  The generator is the C12 one without its large datasets (traces of > 1000 spans, listings of > 45
// traces), which are about paging.

import (
	"math/rand"
	"strings"
)

const c16tMaxLine = 6000

func init() {
	register(&Suite{Name: "traceingest", Gen: c16tGen, Exec: c16tExec, Parallel: 8,
		Rule: "OTLP trace export requests of 1-5 ResourceSpans x 1-3 ScopeSpans (resources with / without service.name in every order, nil Resource, int-valued / repeated / value-less service.name; " +
			"attributes of every AnyValue kind incl. bytes and the empty value and keys that collide with span fields; ids of 1..16 bytes; end<start) split over 1-4 requests of ONE process, re-sent requests, " +
			"documents posted to index traces through the ES bulk API next to OTLP spans; op lines of at most 6000 bytes (the paging datasets of C12 left out); " +
			"acknowledgements + stored events compared with the Lean model, judged by trace-ingest/* (every accepted span stored once per delivery, with its own resource's service)"})
}

func c16tGen(r *rand.Rand, n int, tier string) []string {
	var out []string
	for len(out) < n {
		for _, l := range genTraceE2E(r, n+40, tier) {
			if len(l) <= c16tMaxLine && strings.HasPrefix(l, "te ") && len(out) < n {
				out = append(out, "tei "+l[3:])
			}
		}
	}
	return out
}

// c16tCut: the ingest part of a tracee2e answer (acks=… ev=…), i.e. everything in front of the first view token
func c16tCut(s string) string {
	if i := strings.Index(s, " g:"); i >= 0 && strings.HasPrefix(s, "acks=") {
		return s[:i]
	}
	return s
}

func c16tExec(line string) Result {
	if !strings.HasPrefix(line, "tei ") {
		return Result{Out: "bad-op"}
	}
	res := execTraceE2E("te " + line[4:])
	res.Out = c16tCut(res.Out)
	var fails []PropFail
	for _, f := range res.Fails {
		if strings.HasPrefix(f.Sig, "trace-ingest/") || strings.HasPrefix(f.Sig, "trace-e2e/") {
			fails = append(fails, f)
		}
	}
	res.Fails = fails
	return res
}
