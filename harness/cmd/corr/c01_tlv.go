package main

// suite "tlv" (C01 kernel): the on-disk value codecs of a log column, real writer and real reader.
// Op lines (see lean/Oracle/C01.lean for the answer formats):
//   tlv mix <v,v,...> <seeks>
//   tlv col <limit> <v,v,...> <seeks>      tlv num <kind> <hexbits>      tlv dec <hex>
//   tlv raw <constLen> <hex> <seeks>       tlv dict <recCount> <whex:r.r,...> <seeks>
//   tlv rdict <recCount> <hex> <seeks>     tlv ts <ts,...>               tlv rts <numRecs> <hex>
//
// Real code driven: parseSingleString/Bool/Null/Number + parsedEncJsonNumber → SegStore.AddEntry →
// doLogEventFilling (+ initAndBackFillColumn, backFillPastRecords, checkAddDictEnc,
// updateColValueSizeInAllSeenColumns, adjustEarliestLatestTimes), writeWip → compressWip (zstd) /
// PackDictEnc / encodeTimestamps → ChecksumFile; SegmentFileReader.ValidateAndReadBlock →
// loadBlockUsingBuffer → unpackRawCsg / ReadDictEnc, ReadRecord → iterateNextRecord /
// getCurrentRecordLength / deGetRec; writer.GetCvalFromRec; TimeRangeReader.GetAllTimeStampsForBlock →
// convertRawRecordsToTimestamps.
// Not produced by any writer in /repo, hence built by this harness (tag from the repo's constants + little
// endian bytes): the records of the narrow numeric kinds (int8/16/32, uint8/16/32) of op `num`.

import (
	"encoding/binary"
	"encoding/hex"
	"errors"
	"fmt"
	"math"
	"math/rand"
	"os"
	"path/filepath"
	"sort"
	"strconv"
	"strings"
	"sync"

	"github.com/siglens/siglens/pkg/config"
	"github.com/siglens/siglens/pkg/segment/reader/segread"
	"github.com/siglens/siglens/pkg/segment/reader/segread/segreader"
	"github.com/siglens/siglens/pkg/segment/structs"
	sutils "github.com/siglens/siglens/pkg/segment/utils"
	"github.com/siglens/siglens/pkg/segment/writer"
)

func init() {
	register(&Suite{Name: "tlv", Gen: genTlv, Exec: execTlv,
		Rule: "columns of 1..50 (rarely ~505) typed values incl. absent/null/late columns through the real filling path, written as zstd block and as dictionary block, read back with random seek orders (forward, backward, repeated, out of range) with the segment's consistent-length hint; every numeric kind at its boundaries; strings of length 0, 255, 256, 65532..65537; GetCvalFromRec / ReadRecord / ReadDictEnc / convertRawRecordsToTimestamps on writer-produced AND truncated/mutated/random bytes; dictionary maps around the cardinality limit; timestamp blocks at every width boundary; non-trivial = ≥2 records with ≥1 seek, or a mutated input"})
}

var tlvOnce sync.Once
var tlvDir string
var tlvSeq int

func tlvInit() {
	tlvOnce.Do(func() {
		d, err := os.MkdirTemp("", "veriftlv")
		if err != nil {
			panic(err)
		}
		tlvDir = d
		exitHooks = append(exitHooks, func() { os.RemoveAll(d) })
		config.InitializeTestingConfig(d + "/")
	})
}

func tlvFile() string {
	tlvSeq++
	return filepath.Join(tlvDir, fmt.Sprintf("b%d.csg", tlvSeq))
}

func tlvGenStr(l, seed int) []byte {
	b := make([]byte, l)
	for j := range b {
		b[j] = byte((seed + 31*j) % 256)
	}
	return b
}

type tlvVal struct {
	v    writer.VerifVal
	want string // canonical value the property demands on read-back ("" = no demand)
}

func tlvParseVal(s string) (tlvVal, bool) {
	bad := tlvVal{}
	switch {
	case s == "-":
		return tlvVal{writer.VerifVal{Kind: '-'}, "z"}, true
	case s == "z":
		return tlvVal{writer.VerifVal{Kind: 'z'}, "z"}, true
	case s == "b0":
		return tlvVal{writer.VerifVal{Kind: 'b', Bool: false}, "b:0"}, true
	case s == "b1":
		return tlvVal{writer.VerifVal{Kind: 'b', Bool: true}, "b:1"}, true
	case s == "":
		return bad, false
	}
	body := s[1:]
	switch s[0] {
	case 's':
		b, err := hex.DecodeString(body)
		if err != nil {
			return bad, false
		}
		return tlvStrVal(b), true
	case 'S':
		p := strings.Split(body, ":")
		if len(p) != 2 {
			return bad, false
		}
		l, e1 := strconv.ParseUint(p[0], 10, 32)
		sd, e2 := strconv.ParseUint(p[1], 10, 62)
		if e1 != nil || e2 != nil || l > 200000 || !isPlainNat(p[0]) || !isPlainNat(p[1]) {
			return bad, false
		}
		return tlvStrVal(tlvGenStr(int(l), int(sd%256))), true
	case 'i':
		i, err := strconv.ParseInt(body, 10, 64)
		if err != nil || strings.HasPrefix(body, "+") {
			return bad, false
		}
		return tlvVal{writer.VerifVal{Kind: 'i', I: i}, "i:" + strconv.FormatInt(i, 10)}, true
	case 'u':
		u, err := strconv.ParseUint(body, 10, 64)
		if err != nil || !isPlainNat(body) {
			return bad, false
		}
		return tlvVal{writer.VerifVal{Kind: 'u', U: u}, "u:" + strconv.FormatUint(u, 10)}, true
	case 'f':
		if len(body) != 16 {
			return bad, false
		}
		u, err := strconv.ParseUint(body, 16, 64)
		if err != nil {
			return bad, false
		}
		return tlvVal{writer.VerifVal{Kind: 'f', F: math.Float64frombits(u)}, fmt.Sprintf("f:%016x", u)}, true
	}
	return bad, false
}

func isPlainNat(s string) bool {
	if s == "" {
		return false
	}
	for _, c := range s {
		if c < '0' || c > '9' {
			return false
		}
	}
	return true
}

func tlvStrVal(b []byte) tlvVal {
	want := "s:" + hex.EncodeToString(b)
	if len(b) > sutils.MAX_RECORD_SIZE {
		want = "" // beyond the record size limit: outside the property's quantifier, no demand
	}
	return tlvVal{writer.VerifVal{Kind: 's', Str: b}, want}
}

func tlvParseSeeks(s string) ([]uint16, bool) {
	if s == "-" {
		return nil, true
	}
	var out []uint16
	for _, t := range strings.Split(s, ";") {
		if !isPlainNat(t) {
			return nil, false
		}
		n, err := strconv.ParseUint(t, 10, 64)
		if err != nil {
			return nil, false
		}
		if n > 65535 { // ReadRecord takes a uint16; larger numbers cannot be asked
			return nil, false
		}
		out = append(out, uint16(n))
	}
	return out, true
}

func tlvHexArg(s string) ([]byte, bool) {
	if s == "-" {
		return []byte{}, true
	}
	b, err := hex.DecodeString(s)
	if err != nil || len(b) == 0 {
		return nil, false
	}
	return b, true
}

func exactCap(b []byte) []byte {
	c := make([]byte, len(b))
	copy(c, b)
	return c[:len(b):len(b)]
}

func tlvCvalString(cv *sutils.CValueEnclosure) string {
	switch cv.Dtype {
	case sutils.SS_DT_STRING:
		s, _ := cv.CVal.(string)
		return "s:" + hex.EncodeToString([]byte(s))
	case sutils.SS_DT_BOOL:
		if b, _ := cv.CVal.(bool); b {
			return "b:1"
		}
		return "b:0"
	case sutils.SS_DT_SIGNED_NUM:
		i, _ := cv.CVal.(int64)
		return "i:" + strconv.FormatInt(i, 10)
	case sutils.SS_DT_UNSIGNED_NUM:
		u, _ := cv.CVal.(uint64)
		return "u:" + strconv.FormatUint(u, 10)
	case sutils.SS_DT_FLOAT:
		f, _ := cv.CVal.(float64)
		return fmt.Sprintf("f:%016x", math.Float64bits(f))
	case sutils.SS_DT_BACKFILL:
		return "z"
	}
	return fmt.Sprintf("dtype%d", cv.Dtype)
}

// real decoder of one record; "panic" when it panics
func tlvDecode(rec []byte) (val string, end uint16, out string) {
	defer func() {
		if r := recover(); r != nil {
			val, end, out = "", 0, "panic"
		}
	}()
	if len(rec) > 0 && (rec[0] == sutils.VALTYPE_RAW_JSON[0] || rec[0] == sutils.VALTYPE_DICT_ARRAY[0]) {
		return "", 0, "err:unmodelled"
	}
	var cv sutils.CValueEnclosure
	e, err := writer.GetCvalFromRec(exactCap(rec), 0, &cv)
	if err != nil {
		switch err.Error() {
		case "column value is empty":
			return "", 0, "err:empty"
		case "invalid rec type":
			return "", 0, "err:invalid-rec-type"
		}
		return "", 0, "err:" + err.Error()
	}
	v := tlvCvalString(&cv)
	return v, e, fmt.Sprintf("%s end=%d", v, e)
}

func tlvErrName(err error) string {
	switch {
	case errors.Is(err, segreader.ErrRecordNotFound):
		return "record-not-found"
	case errors.Is(err, segreader.ErrBadEncoding):
		return "bad-encoding"
	case errors.Is(err, segreader.ErrInvalidIndex):
		return "invalid-index"
	case errors.Is(err, segreader.ErrReadBlock):
		return "read-block"
	case errors.Is(err, segreader.ErrResetSegFileReader):
		return "reset-reader"
	}
	return strings.ReplaceAll(err.Error(), " ", "_")
}

type tlvRead struct {
	res  string   // canonical list, or init:...
	recs [][]byte // per seek: bytes (nil = error/panic)
	ok   bool
}

// opens the one-block file with the real reader and performs the seeks; clip = make over-long reads panic
func tlvReadBack(fname string, blkLen uint32, blkOff int64, recCount uint16, constLen uint32, seeks []uint16) (out tlvRead) {
	fd, err := os.Open(fname)
	if err != nil {
		panic(err)
	}
	defer fd.Close()
	allBmi := &structs.AllBlksMetaInfo{CnameDict: map[string]int{"c": 0},
		AllBmh: map[uint16]*structs.BlockMetadataHolder{0: {BlkNum: 0, ColBlockOffAndLen: []structs.ColOffAndLen{{Offset: blkOff, Length: blkLen}}}}}
	sums := []*structs.BlockSummary{{RecCount: recCount}}
	sfr, err := segreader.InitNewSegFileReader(fd, "c", map[uint16]struct{}{0: {}}, 0, sums, constLen, allBmi)
	if err != nil {
		panic(err)
	}
	loaded := func() (s string) {
		defer func() {
			if r := recover(); r != nil {
				s = "init:panic"
			}
		}()
		if err := sfr.ValidateAndReadBlock(0); err != nil {
			return "init:err:" + tlvErrName(err)
		}
		return ""
	}()
	if loaded != "" {
		if loaded == "init:err:read-block" {
			loaded = "init:err:reset-reader" // readBlock folds every load error into ErrReadBlock
		}
		out.res = loaded
		return
	}
	if sfr.VerifEncType() == sutils.ZSTD_COMLUNAR_BLOCK[0] {
		sfr.VerifClipRawBlock()
	}
	out.ok = true
	out.res, out.recs = tlvSeeks(sfr, seeks)
	return
}

func tlvSeeks(sfr *segreader.SegmentFileReader, seeks []uint16) (string, [][]byte) {
	var parts []string
	var recs [][]byte
	for _, s := range seeks {
		r, e, p := func() (r []byte, e error, p bool) {
			defer func() {
				if x := recover(); x != nil {
					r, e, p = nil, nil, true
				}
			}()
			r, e = sfr.ReadRecord(s)
			return r, e, false
		}()
		if p {
			parts = append(parts, "panic")
			recs = append(recs, nil)
			if sfr.VerifEncType() != sutils.ZSTD_DICTIONARY_BLOCK[0] {
				break // the reader's state after a panic is not defined; the model stops here too
			}
			continue
		}
		if e != nil {
			parts = append(parts, "err:"+tlvErrName(e))
			recs = append(recs, nil)
			continue
		}
		parts = append(parts, hex.EncodeToString(r))
		recs = append(recs, append([]byte{}, r...))
	}
	return "[" + strings.Join(parts, ";") + "]", recs
}

// reorders the entries of a packed dictionary block (the writer iterates a Go map): key(chunk) gives the rank
func tlvCanonDict(p []byte, key func(word []byte, recs []byte) int) []byte {
	defer func() { recover() }()
	if len(p) < 2 {
		return p
	}
	type chunk struct {
		k int
		b []byte
	}
	var cs []chunk
	i := 2
	for i < len(p) {
		s := i
		switch p[i] {
		case sutils.VALTYPE_ENC_SMALL_STRING[0]:
			i += 3 + int(binary.LittleEndian.Uint16(p[i+1:]))
		case sutils.VALTYPE_ENC_BOOL[0]:
			i += 2
		case sutils.VALTYPE_ENC_INT64[0], sutils.VALTYPE_ENC_FLOAT64[0], sutils.VALTYPE_ENC_UINT64[0]:
			i += 9
		case sutils.VALTYPE_ENC_BACKFILL[0]:
			i += 1
		default:
			return p
		}
		w := p[s:i]
		n := int(binary.LittleEndian.Uint16(p[i:]))
		i += 2
		rs := p[i : i+2*n]
		i += 2 * n
		cs = append(cs, chunk{key(w, rs), p[s:i]})
	}
	if i != len(p) {
		return p
	}
	sort.SliceStable(cs, func(a, b int) bool { return cs[a].k < cs[b].k })
	out := append([]byte{}, p[:2]...)
	for _, c := range cs {
		out = append(out, c.b...)
	}
	return out
}

func execTlv(line string) Result {
	f := strings.Fields(line)
	if len(f) < 2 || f[0] != "tlv" {
		return Result{Out: "bad-op"}
	}
	tlvInit()
	switch f[1] {
	case "col":
		return execTlvCol(f[2:])
	case "mix":
		return execTlvMix(f[2:])
	case "num":
		return execTlvNum(f[2:])
	case "dec":
		return execTlvDec(f[2:])
	case "raw":
		return execTlvRaw(f[2:])
	case "dict":
		return execTlvDict(f[2:])
	case "rdict":
		return execTlvRdict(f[2:])
	case "ts":
		return execTlvTs(f[2:])
	case "rts":
		return execTlvRts(f[2:])
	}
	return Result{Out: "bad-op"}
}

func execTlvCol(a []string) Result {
	if len(a) != 3 || !isPlainNat(a[0]) {
		return Result{Out: "bad-op"}
	}
	limit, err := strconv.ParseUint(a[0], 10, 32)
	if err != nil || limit == 0 || limit > 65535 {
		return Result{Out: "bad-op"}
	}
	var vals []tlvVal
	for _, t := range strings.Split(a[1], ",") {
		v, ok := tlvParseVal(t)
		if !ok {
			return Result{Out: "bad-op"}
		}
		vals = append(vals, v)
	}
	seeks, ok := tlvParseSeeks(a[2])
	if !ok || len(vals) > 60000 {
		return Result{Out: "bad-op"}
	}
	saved := writer.VerifCardLimit()
	writer.SetCardinalityLimit(uint16(limit))
	defer writer.SetCardinalityLimit(saved)

	vv := make([]writer.VerifVal, len(vals))
	tss := make([]uint64, len(vals))
	hasU64, hasLong := false, false
	for i, v := range vals {
		vv[i] = v.v
		tss[i] = 1000 + uint64(i)
		hasU64 = hasU64 || v.v.Kind == 'u'
		hasLong = hasLong || (v.v.Kind == 's' && len(v.v.Str) > sutils.MAX_RECORD_SIZE)
	}
	ss, err := writer.VerifFillColumn(filepath.Join(tlvDir, "seg"), vv, tss, config.GetTimeStampKey())
	if err != nil {
		return Result{Out: "fill-error:" + err.Error()}
	}
	col, ok := ss.VerifColBytes("c")
	if !ok || len(col) == 0 {
		return Result{Out: "bad-op"}
	}
	res := Result{Nontrivial: len(vals) >= 2 && len(seeks) >= 1}
	size, okSz := ss.VerifSeenSize("c")
	sizeS := "none"
	if okSz {
		sizeS = strconv.FormatUint(uint64(size), 10)
	}
	de, deMapLen := ss.VerifDeCount("c")
	if int(de) != deMapLen {
		res.Tags = append(res.Tags, "deCount!=len(deMap)")
	}
	isDict := ss.VerifWouldDictEncode("c")
	n := ss.VerifRecCount()

	// columnar block: real zstd write, real read with the segment's consistent-length hint
	f1 := tlvFile()
	defer os.Remove(f1)
	bl, bo, err := ss.VerifWriteBlock("c", f1, sutils.ZSTD_COMLUNAR_BLOCK, false)
	if err != nil {
		return Result{Out: "write-error:" + err.Error()}
	}
	rawRd := tlvReadBack(f1, bl, bo, n, size, seeks)

	dictS, dctS := "-", "-"
	var dctRd tlvRead
	if isDict {
		f2 := tlvFile()
		defer os.Remove(f2)
		bl, bo, err := ss.VerifWriteBlock("c", f2, sutils.ZSTD_DICTIONARY_BLOCK, false)
		if err != nil {
			return Result{Out: "write-error:" + err.Error()}
		}
		packed, _ := ss.VerifColBytes("c")
		canon := tlvCanonDict(packed, func(w, rs []byte) int { // insertion order = order of first record numbers
			if len(rs) < 2 {
				return 1 << 30
			}
			return int(binary.LittleEndian.Uint16(rs))
		})
		dictS = hex.EncodeToString(canon)
		dctRd = tlvReadBack(f2, bl, bo, n, size, seeks) // the production path (file, pooled buffers): property check
		// answer line: ReadDictEnc on the canonically ordered block in an exact-size buffer (deterministic on
		// blocks it mis-frames, where the pooled buffer would serve stale bytes past the end)
		dctS, _ = tlvRdict(canon, n, seeks)
		if i := strings.Index(dctS, " recs="); i >= 0 {
			dctS = dctS[i+6:]
		}
	}
	res.Out = fmt.Sprintf("col=%s size=%s de=%d dict=%s raw=%s dct=%s", hex.EncodeToString(col), sizeS, de, dictS, rawRd.res, dctS)

	// property on the real code: record i read back (any seek order) decodes to value i
	kinds := map[byte]bool{}
	for _, v := range vals {
		kinds[v.v.Kind] = true
	}
	var ks []string
	for k := range kinds {
		ks = append(ks, string(k))
	}
	sort.Strings(ks)
	res.Tags = append(res.Tags, "col", "col-kinds:"+strings.Join(ks, ""), fmt.Sprintf("col-dict=%v", isDict))
	if okSz && size != sutils.INCONSISTENT_CVAL_SIZE {
		res.Tags = append(res.Tags, "col-consistent-len")
	}
	if hasLong {
		res.Tags = append(res.Tags, "col-string>MAX_RECORD_SIZE(no-demand)")
	}
	check := func(rd tlvRead, site string) {
		if !rd.ok {
			res.Fails = append(res.Fails, PropFail{Sig: "tlv/" + site + "/block-unreadable", Msg: "block written by the real writer cannot be loaded: " + rd.res})
			return
		}
		for j, s := range seeks {
			if j >= len(rd.recs) {
				res.Fails = append(res.Fails, PropFail{Sig: "tlv/" + site + "/panic", Msg: fmt.Sprintf("seek #%d (record %d) was not reached: %s", j, s, trunc(rd.res, 200))})
				break
			}
			if int(s) >= len(vals) || vals[s].want == "" {
				continue
			}
			if rd.recs[j] == nil {
				res.Fails = append(res.Fails, PropFail{Sig: "tlv/" + site + "/record-lost", Msg: fmt.Sprintf("record %d not returned (seek #%d of %v): %s", s, j, seeks, trunc(rd.res, 200))})
				continue
			}
			got, _, o := tlvDecode(rd.recs[j])
			if got != vals[s].want {
				cls := "wrong-value"
				if o == "panic" || strings.HasPrefix(o, "err:") {
					cls = "undecodable"
				}
				res.Fails = append(res.Fails, PropFail{Sig: "tlv/" + site + "/" + cls, Msg: fmt.Sprintf("record %d (seek #%d of %v) decodes to %s, sent %s", s, j, seeks, trunc(o, 80), trunc(vals[s].want, 80))})
			}
		}
	}
	check(rawRd, "seek-raw")
	switch {
	case isDict && hasU64:
		// no ingest path produces uint64 records and ReadDictEnc has no uint64 case: no demand on the dictionary form
		res.Tags = append(res.Tags, "col-dict-with-uint64(no-demand)")
	case isDict && hasLong:
		// a word longer than the record size limit can break the framing of the whole dictionary block: no demand
		res.Tags = append(res.Tags, "col-dict-with-string>MAX_RECORD_SIZE(no-demand)")
	case isDict:
		check(dctRd, "seek-dict")
	}
	return res
}

func tlvMixByteOK(b byte) bool {
	return (b >= '0' && b <= '9') || b == '-' || (b >= 'a' && b <= 'z')
}

// value class of op mix: int64, null/absent, strings of at most 40 bytes over [a-z0-9-] that are empty, or start
// with a letter other than i/n, or consist of [0-9-] only and are not -?[0-9]{19,}
func tlvMixOK(v tlvVal) bool {
	switch v.v.Kind {
	case '-', 'z', 'i':
		return true
	case 's':
		s := v.v.Str
		if len(s) > 40 {
			return false
		}
		for _, b := range s {
			if !tlvMixByteOK(b) {
				return false
			}
		}
		if len(s) == 0 {
			return true
		}
		if s[0] >= 'a' && s[0] <= 'z' {
			return s[0] != 'i' && s[0] != 'n'
		}
		ds := s
		if ds[0] == '-' {
			ds = ds[1:]
		}
		allDigits := true
		for _, b := range s {
			if !((b >= '0' && b <= '9') || b == '-') {
				return false
			}
		}
		for _, b := range ds {
			allDigits = allDigits && b >= '0' && b <= '9'
		}
		return !(len(ds) > 18 && allDigits)
	}
	return false
}

// one column through fill → the flush-time prefix of AppendWipToSegfile (marking of the advertised record
// length + consolidateColumnTypes; textual slice, see cmd/overlaygen/c01.go) → zstd block → reader with the
// advertised length
func execTlvMix(a []string) Result {
	if len(a) != 2 {
		return Result{Out: "bad-op"}
	}
	var vals []tlvVal
	for _, t := range strings.Split(a[0], ",") {
		v, ok := tlvParseVal(t)
		if !ok {
			return Result{Out: "bad-op"}
		}
		vals = append(vals, v)
	}
	seeks, ok := tlvParseSeeks(a[1])
	if !ok || len(vals) > 60000 {
		return Result{Out: "bad-op"}
	}
	for _, v := range vals {
		if !tlvMixOK(v) {
			return Result{Out: "bad-op"}
		}
	}
	vv := make([]writer.VerifVal, len(vals))
	tss := make([]uint64, len(vals))
	for i, v := range vals {
		vv[i] = v.v
		tss[i] = 1000 + uint64(i)
	}
	ss, err := writer.VerifFillColumn(filepath.Join(tlvDir, "seg"), vv, tss, config.GetTimeStampKey())
	if err != nil {
		return Result{Out: "fill-error:" + err.Error()}
	}
	if col, ok := ss.VerifColBytes("c"); !ok || len(col) == 0 {
		return Result{Out: "bad-op"}
	}
	mixed := ss.VerifHasBloomAndRange("c")
	if err := ss.VerifMarkAndConsolidate(); err != nil {
		return Result{Out: "consolidate-error:" + err.Error()}
	}
	col, _ := ss.VerifColBytes("c")
	size, _ := ss.VerifSeenSize("c")
	fn := tlvFile()
	defer os.Remove(fn)
	bl, bo, err := ss.VerifWriteBlock("c", fn, sutils.ZSTD_COMLUNAR_BLOCK, false)
	if err != nil {
		return Result{Out: "write-error:" + err.Error()}
	}
	rd := tlvReadBack(fn, bl, bo, ss.VerifRecCount(), size, seeks)
	m := 0
	if mixed {
		m = 1
	}
	res := Result{Out: fmt.Sprintf("mixed=%d size=%d col=%s raw=%s", m, size, hex.EncodeToString(col), rd.res),
		Nontrivial: len(vals) >= 2 && len(seeks) >= 1, Tags: []string{"mix", fmt.Sprintf("mix-mixed=%v", mixed)}}
	if size != sutils.INCONSISTENT_CVAL_SIZE {
		res.Tags = append(res.Tags, "mix-consistent-len")
	}
	// property on the real code: record i reads back as value i, where a number may come back as its decimal
	// text (granted by the statement) and a decimal text as the number (known finding of the e2e suite, not
	// demanded here)
	if !rd.ok {
		res.Fails = append(res.Fails, PropFail{Sig: "tlv/mix/block-unreadable", Msg: "block written by the real writer cannot be loaded: " + rd.res})
		return res
	}
	for j, s := range seeks {
		if j >= len(rd.recs) {
			res.Fails = append(res.Fails, PropFail{Sig: "tlv/mix/panic", Msg: fmt.Sprintf("seek #%d (record %d) was not reached: %s", j, s, trunc(rd.res, 200))})
			break
		}
		if int(s) >= len(vals) {
			continue
		}
		if rd.recs[j] == nil {
			res.Fails = append(res.Fails, PropFail{Sig: "tlv/mix/record-lost", Msg: fmt.Sprintf("record %d not returned (seek #%d of %v, advertised record length %d): %s", s, j, seeks, size, trunc(rd.res, 200))})
			continue
		}
		got, _, o := tlvDecode(rd.recs[j])
		want := vals[s].want
		okv := got == want
		if !okv && strings.HasPrefix(want, "i:") && strings.HasPrefix(got, "s:") { // number as decimal text
			okv = got == "s:"+hex.EncodeToString([]byte(want[2:]))
		}
		if !okv && strings.HasPrefix(want, "s:") && strings.HasPrefix(got, "i:") { // decimal text as number
			b, _ := hex.DecodeString(want[2:])
			if i, err := strconv.ParseInt(string(b), 10, 64); err == nil {
				okv = got == "i:"+strconv.FormatInt(i, 10)
			}
		}
		if !okv {
			res.Fails = append(res.Fails, PropFail{Sig: "tlv/mix/wrong-value", Msg: fmt.Sprintf("record %d (seek #%d of %v, advertised record length %d) decodes to %s, sent %s", s, j, seeks, size, trunc(o, 80), want)})
		}
	}
	return res
}

var tlvKinds = map[string]struct {
	tag    byte
	width  int
	signed bool
	float  bool
}{
	"u8": {sutils.VALTYPE_ENC_UINT8[0], 1, false, false}, "u16": {sutils.VALTYPE_ENC_UINT16[0], 2, false, false},
	"u32": {sutils.VALTYPE_ENC_UINT32[0], 4, false, false}, "u64": {sutils.VALTYPE_ENC_UINT64[0], 8, false, false},
	"i8": {sutils.VALTYPE_ENC_INT8[0], 1, true, false}, "i16": {sutils.VALTYPE_ENC_INT16[0], 2, true, false},
	"i32": {sutils.VALTYPE_ENC_INT32[0], 4, true, false}, "i64": {sutils.VALTYPE_ENC_INT64[0], 8, true, false},
	"f64": {sutils.VALTYPE_ENC_FLOAT64[0], 8, false, true},
}

func execTlvNum(a []string) Result {
	if len(a) != 2 {
		return Result{Out: "bad-op"}
	}
	k, ok := tlvKinds[a[0]]
	bits, err := strconv.ParseUint(a[1], 16, 64)
	if !ok || err != nil || a[1] == "" || len(a[1]) > 16 {
		return Result{Out: "bad-op"}
	}
	if k.width < 8 && bits >= 1<<(8*uint(k.width)) {
		return Result{Out: "bad-op"}
	}
	rec := []byte{k.tag}
	for i := 0; i < k.width; i++ {
		rec = append(rec, byte(bits>>(8*uint(i))))
	}
	// framing through the real block reader: the record followed by one back-fill record
	blk := append(append([]byte{}, rec...), sutils.VALTYPE_ENC_BACKFILL[0])
	fn := tlvFile()
	defer os.Remove(fn)
	bl, bo, err := writer.VerifWriteRawBlock(fn, blk, sutils.ZSTD_COMLUNAR_BLOCK, 2)
	if err != nil {
		return Result{Out: "write-error:" + err.Error()}
	}
	rd := tlvReadBack(fn, bl, bo, 2, sutils.INCONSISTENT_CVAL_SIZE, []uint16{0, 1, 0})
	lenS := rd.res
	res := Result{Nontrivial: true, Tags: []string{"num", "num:" + a[0]}}
	if rd.ok && len(rd.recs) == 3 && rd.recs[0] != nil {
		lenS = strconv.Itoa(len(rd.recs[0]))
	}
	if !rd.ok || len(rd.recs) != 3 || hex.EncodeToString(rd.recs[0]) != hex.EncodeToString(rec) || hex.EncodeToString(rd.recs[1]) != "13" || hex.EncodeToString(rd.recs[2]) != hex.EncodeToString(rec) {
		res.Fails = append(res.Fails, PropFail{Sig: "tlv/num-framing/" + a[0], Msg: "record followed by a back-fill is not read back as stored: " + rd.res})
	}
	got, _, o := tlvDecode(rec)
	want := ""
	switch {
	case k.float:
		want = fmt.Sprintf("f:%016x", bits)
	case k.signed:
		sh := uint(64 - 8*k.width)
		want = "i:" + strconv.FormatInt(int64(bits<<sh)>>sh, 10)
	default:
		want = "u:" + strconv.FormatUint(bits, 10)
	}
	if got != want {
		res.Fails = append(res.Fails, PropFail{Sig: "tlv/num-decode/" + a[0], Msg: fmt.Sprintf("GetCvalFromRec(%x) = %s, stored %s", rec, o, want)})
	}
	d := o
	if got != "" {
		d = got
	}
	res.Out = fmt.Sprintf("enc=%s len=%s dec=%s", hex.EncodeToString(rec), lenS, d)
	return res
}

func execTlvDec(a []string) Result {
	if len(a) != 1 {
		return Result{Out: "bad-op"}
	}
	b, ok := tlvHexArg(a[0])
	if !ok {
		return Result{Out: "bad-op"}
	}
	_, _, o := tlvDecode(b)
	cls := "ok"
	if o == "panic" || strings.HasPrefix(o, "err:") {
		cls = o
	}
	return Result{Out: o, Nontrivial: true, Tags: []string{"dec", "dec:" + cls}}
}

func execTlvRaw(a []string) Result {
	if len(a) != 3 || !isPlainNat(a[0]) {
		return Result{Out: "bad-op"}
	}
	c, err := strconv.ParseUint(a[0], 10, 64)
	b, ok := tlvHexArg(a[1])
	seeks, ok2 := tlvParseSeeks(a[2])
	if err != nil || c > uint64(sutils.INCONSISTENT_CVAL_SIZE) || !ok || !ok2 {
		return Result{Out: "bad-op"}
	}
	fn := tlvFile()
	defer os.Remove(fn)
	bl, bo, err := writer.VerifWriteRawBlock(fn, b, sutils.ZSTD_COMLUNAR_BLOCK, 0)
	if err != nil {
		return Result{Out: "write-error:" + err.Error()}
	}
	rd := tlvReadBack(fn, bl, bo, 0, uint32(c), seeks)
	cls := "ok"
	if strings.Contains(rd.res, "panic") {
		cls = "panic"
	} else if strings.Contains(rd.res, "err:") {
		cls = "err"
	}
	return Result{Out: rd.res, Nontrivial: true, Tags: []string{"raw", "raw:" + cls}}
}

type tlvEntry struct {
	w  []byte
	rs []uint16
}

func tlvParseEntries(s string) ([]tlvEntry, bool) {
	var out []tlvEntry
	seen := map[string]bool{}
	for _, t := range strings.Split(s, ",") {
		p := strings.Split(t, ":")
		if len(p) != 2 {
			return nil, false
		}
		w, err := hex.DecodeString(p[0])
		if err != nil || len(w) == 0 {
			return nil, false
		}
		var rs []uint16
		if p[1] != "" {
			for _, r := range strings.Split(p[1], ".") {
				if !isPlainNat(r) {
					return nil, false
				}
				n, err := strconv.ParseUint(r, 10, 64)
				if err != nil || n >= 65536 {
					return nil, false
				}
				rs = append(rs, uint16(n))
			}
		}
		if seen[string(w)] {
			return nil, false
		}
		seen[string(w)] = true
		out = append(out, tlvEntry{w, rs})
	}
	return out, true
}

// independent little spec of a dictionary word the reader supports: returns true when w is exactly one record
func tlvDictWordOK(w []byte) bool {
	switch w[0] {
	case sutils.VALTYPE_ENC_SMALL_STRING[0]:
		// (before patch c16-5 the reader stepped over a string word with a uint16 sum: words of more than 65535 bytes were unframeable)
		return len(w) >= 3 && len(w) == 3+int(binary.LittleEndian.Uint16(w[1:]))
	case sutils.VALTYPE_ENC_BOOL[0]:
		return len(w) == 2
	case sutils.VALTYPE_ENC_INT64[0], sutils.VALTYPE_ENC_FLOAT64[0]:
		return len(w) == 9
	case sutils.VALTYPE_ENC_BACKFILL[0]:
		return len(w) == 1
	}
	return false
}

// ReadDictEnc on exact-cap bytes + seeks through ReadRecord (dictionary path)
func tlvRdict(p []byte, recCount uint16, seeks []uint16) (out string, sfr *segreader.SegmentFileReader) {
	defer func() {
		if r := recover(); r != nil {
			out, sfr = "panic", nil
		}
	}()
	sfr, _ = segreader.InitNewSegFileReader(nil, "c", nil, 0, []*structs.BlockSummary{{RecCount: recCount}}, sutils.INCONSISTENT_CVAL_SIZE, nil)
	if err := sfr.ReadDictEnc(exactCap(p), 0); err != nil {
		return "err:" + tlvErrName(err), nil
	}
	sfr.VerifSetEncType(sutils.ZSTD_DICTIONARY_BLOCK[0])
	var ws, tb []string
	for _, w := range sfr.GetDeTlv() {
		ws = append(ws, hex.EncodeToString(w))
	}
	for _, t := range sfr.GetDeRecToTlv() {
		tb = append(tb, strconv.Itoa(int(t)))
	}
	recs, _ := tlvSeeks(sfr, seeks)
	return fmt.Sprintf("words=%s tbl=%s bad=0 recs=%s", strings.Join(ws, ","), strings.Join(tb, ","), recs), sfr
}

func execTlvDict(a []string) Result {
	if len(a) != 3 || !isPlainNat(a[0]) {
		return Result{Out: "bad-op"}
	}
	rc, err := strconv.ParseUint(a[0], 10, 32)
	es, ok := tlvParseEntries(a[1])
	seeks, ok2 := tlvParseSeeks(a[2])
	if err != nil || rc > 65535 || !ok || !ok2 || len(es) > 65535 {
		return Result{Out: "bad-op"}
	}
	deMap := map[string][]uint16{}
	rank := map[string]int{}
	for i, e := range es {
		deMap[string(e.w)] = e.rs
		rank[string(e.w)] = i
	}
	cw := writer.InitColWip(filepath.Join(tlvDir, "seg"), "c")
	cw.SetDeDataForTest(uint16(len(es)), deMap)
	writer.PackDictEnc(cw, uint16(rc))
	packed, _ := cw.GetBufAndIdx()
	packed = append([]byte{}, packed...)
	canon := packed
	allOK := true
	for _, e := range es {
		allOK = allOK && tlvDictWordOK(e.w)
	}
	if allOK {
		canon = tlvCanonDict(packed, func(w, rs []byte) int { return rank[string(w)] })
	} else if len(es) > 1 {
		// words the reader cannot frame: the chunk order cannot be recovered from the bytes; only 1-entry maps are compared
		return Result{Out: "bad-op-unframeable", Tags: []string{"dict-unframeable"}}
	}
	o, _ := tlvRdict(canon, uint16(rc), seeks)
	res := Result{Out: "pack=" + hex.EncodeToString(canon) + " " + o, Nontrivial: true, Tags: []string{"dict", fmt.Sprintf("dict-words<=%d", 1<<uint(bitsLen(len(es))))}}

	// property on the real code (writer's own order): every record number of a word reads back as that word
	disjoint := true
	owner := map[uint16]int{}
	for i, e := range es {
		for _, r := range e.rs {
			if _, dup := owner[r]; dup || uint64(r) >= rc {
				disjoint = false
			}
			owner[r] = i
		}
	}
	if allOK && disjoint {
		_, sfr := tlvRdict(packed, uint16(rc), nil)
		if sfr == nil {
			res.Fails = append(res.Fails, PropFail{Sig: "tlv/dict-roundtrip/unreadable", Msg: "ReadDictEnc fails on PackDictEnc's output: " + trunc(o, 100)})
		} else {
			for r, i := range owner {
				got, err := sfr.ReadRecord(r)
				if err != nil || hex.EncodeToString(got) != hex.EncodeToString(es[i].w) {
					res.Fails = append(res.Fails, PropFail{Sig: "tlv/dict-roundtrip/wrong-word", Msg: fmt.Sprintf("record %d: got %x err=%v, packed under word %x", r, got, err, es[i].w)})
					break
				}
			}
		}
	}
	return res
}

func bitsLen(n int) int {
	l := 0
	for n > 0 {
		l++
		n >>= 1
	}
	return l
}

func execTlvRdict(a []string) Result {
	if len(a) != 3 || !isPlainNat(a[0]) {
		return Result{Out: "bad-op"}
	}
	rc, err := strconv.ParseUint(a[0], 10, 32)
	b, ok := tlvHexArg(a[1])
	seeks, ok2 := tlvParseSeeks(a[2])
	if err != nil || rc > 65535 || !ok || !ok2 {
		return Result{Out: "bad-op"}
	}
	o, _ := tlvRdict(b, uint16(rc), seeks)
	cls := "ok"
	if o == "panic" || strings.HasPrefix(o, "err:") {
		cls = o
	}
	return Result{Out: o, Nontrivial: true, Tags: []string{"rdict", "rdict:" + cls}}
}

func tlvTsList(ts []uint64) string {
	if len(ts) == 0 {
		return "-"
	}
	p := make([]string, len(ts))
	for i, t := range ts {
		p[i] = strconv.FormatUint(t, 10)
	}
	return strings.Join(p, ",")
}

func execTlvTs(a []string) Result {
	if len(a) != 1 {
		return Result{Out: "bad-op"}
	}
	var tss []uint64
	for _, t := range strings.Split(a[0], ",") {
		if !isPlainNat(t) {
			return Result{Out: "bad-op"}
		}
		n, err := strconv.ParseUint(t, 10, 64)
		if err != nil {
			return Result{Out: "bad-op"}
		}
		tss = append(tss, n)
	}
	if len(tss) == 0 || len(tss) > 60000 {
		return Result{Out: "bad-op"}
	}
	tsKey := config.GetTimeStampKey()
	vv := make([]writer.VerifVal, len(tss))
	for i := range vv {
		vv[i] = writer.VerifVal{Kind: '-'}
	}
	ss, err := writer.VerifFillColumn(filepath.Join(tlvDir, "seg"), vv, tss, tsKey)
	if err != nil {
		return Result{Out: "fill-error:" + err.Error()}
	}
	lo, hi := ss.VerifLowHigh()
	fn := tlvFile()
	defer os.Remove(fn)
	bl, bo, err := ss.VerifWriteBlock(tsKey, fn, nil, true)
	if err != nil {
		return Result{Out: "write-error:" + err.Error()}
	}
	enc, _ := ss.VerifColBytes(tsKey)
	blk := append(append([]byte{}, sutils.TIMESTAMP_TOPDIFF_VARENC...), enc...)
	decS, dec := func() (s string, d []uint64) {
		defer func() {
			if r := recover(); r != nil {
				s, d = "panic", nil
			}
		}()
		fd, err := os.Open(fn)
		if err != nil {
			panic(err)
		}
		defer fd.Close()
		allBmi := &structs.AllBlksMetaInfo{CnameDict: map[string]int{tsKey: 0},
			AllBmh: map[uint16]*structs.BlockMetadataHolder{0: {BlkNum: 0, ColBlockOffAndLen: []structs.ColOffAndLen{{Offset: bo, Length: bl}}}}}
		trr, err := segread.InitNewTimeReaderWithFD(fd, tsKey, map[uint16]struct{}{0: {}}, map[uint16]uint16{0: ss.VerifRecCount()}, 0, allBmi)
		if err != nil {
			panic(err)
		}
		got, err := trr.GetAllTimeStampsForBlock(0)
		if err != nil {
			return "err:" + tlvTsErr(err), nil
		}
		got = append([]uint64{}, got...)
		return tlvTsList(got), got
	}()
	res := Result{Out: fmt.Sprintf("low=%d high=%d blk=%s dec=%s", lo, hi, hex.EncodeToString(blk), decS), Nontrivial: len(tss) >= 2,
		Tags: []string{"ts", fmt.Sprintf("ts-type=%d", enc[0])}}
	zero := false
	for _, t := range tss {
		zero = zero || t == 0
	}
	if !zero && tlvTsList(dec) != tlvTsList(tss) { // timestamp 0 never reaches the writer (GetNewPLE substitutes "now")
		res.Fails = append(res.Fails, PropFail{Sig: "tlv/ts-roundtrip", Msg: fmt.Sprintf("timestamps read back %s, written %s", trunc(decS, 120), trunc(tlvTsList(tss), 120))})
	}
	return res
}

func tlvTsErr(err error) string {
	switch {
	case errors.Is(err, segread.ErrBufferTooSmall):
		return "buffer-too-small"
	case errors.Is(err, segread.ErrBadEncoding):
		return "bad-encoding"
	case errors.Is(err, segread.ErrTooFewRecords):
		return "too-few-records"
	}
	return strings.ReplaceAll(err.Error(), " ", "_")
}

func execTlvRts(a []string) Result {
	if len(a) != 2 || !isPlainNat(a[0]) {
		return Result{Out: "bad-op"}
	}
	n, err := strconv.ParseUint(a[0], 10, 32)
	b, ok := tlvHexArg(a[1])
	if err != nil || n > 65535 || !ok {
		return Result{Out: "bad-op"}
	}
	o := func() (s string) {
		defer func() {
			if r := recover(); r != nil {
				s = "panic"
			}
		}()
		got, err := segread.VerifConvertRawRecordsToTimestamps(exactCap(b), uint16(n))
		if err != nil {
			return "err:" + tlvTsErr(err)
		}
		return tlvTsList(got[:n])
	}()
	cls := "ok"
	if o == "panic" || strings.HasPrefix(o, "err:") {
		cls = o
	}
	return Result{Out: o, Nontrivial: true, Tags: []string{"rts", "rts:" + cls}}
}

// ---------------------------------------------------------------- generators

var tlvI64Edges = []int64{0, 1, -1, 127, 128, -128, -129, 255, 256, 32767, 32768, -32768, -32769, 65535, 65536, 2147483647, 2147483648,
	-2147483648, -2147483649, 4294967295, 4294967296, 9007199254740993, math.MaxInt64, math.MinInt64, math.MaxInt64 - 1, math.MinInt64 + 1}
var tlvF64Edges = []uint64{0x0000000000000000, 0x8000000000000000, 0x3ff0000000000000, 0xbff8000000000000, 0x7ff0000000000000, 0xfff0000000000000,
	0x7ff8000000000000, 0x7ff0000000000001, 0xfff8dead0000beef, 0x7ff4000000000000, 0x0000000000000001, 0x000fffffffffffff, 0x0010000000000000,
	0x7fefffffffffffff, 0x3fb999999999999a, 0x4340000000000001}
var tlvStrs = []string{"", "a", "abc", "abcdef", "ghijkl", "hello world", "héllo wörld", "日本語", "emoji😀", "tab\there", "12", "3.5", "-7", "1e3", "\x00\x01\xff", "\x13", "\x02\x03\x00abc"}

func tlvGenVal(r *rand.Rand, profile int) string {
	switch profile {
	case 0: // ints
		if r.Intn(3) == 0 {
			return fmt.Sprintf("i%d", tlvI64Edges[r.Intn(len(tlvI64Edges))])
		}
		return fmt.Sprintf("i%d", r.Intn(7)-2)
	case 1: // fixed-length strings (consistent size)
		b := make([]byte, 6)
		for i := range b {
			b[i] = "ghjklmxyz"[r.Intn(9)]
		}
		if r.Intn(3) == 0 {
			b = []byte([]string{"abcdef", "ghijkl", "mnopqr"}[r.Intn(3)])
		}
		return "s" + hex.EncodeToString(b)
	case 2: // strings of mixed length
		if r.Intn(4) == 0 {
			b := make([]byte, r.Intn(40))
			r.Read(b)
			return "s" + hex.EncodeToString(b)
		}
		return "s" + hex.EncodeToString([]byte(tlvStrs[r.Intn(len(tlvStrs))]))
	case 3: // floats
		if r.Intn(2) == 0 {
			return fmt.Sprintf("f%016x", tlvF64Edges[r.Intn(len(tlvF64Edges))])
		}
		return fmt.Sprintf("f%016x", math.Float64bits(float64(r.Intn(9)-4)/4))
	case 4: // bools
		return fmt.Sprintf("b%d", r.Intn(2))
	case 5: // uint64 (no JSON path produces it; the encoder has the arm)
		return fmt.Sprintf("u%d", []uint64{0, 1, 255, 1 << 32, math.MaxUint64, 1 << 63}[r.Intn(6)])
	case 6: // 9-byte records of mixed type: 6-byte strings and numbers (same encoded length)
		if r.Intn(2) == 0 {
			return tlvGenVal(r, 1)
		}
		return tlvGenVal(r, []int{0, 3}[r.Intn(2)])
	default: // anything the JSON path can produce
		return tlvGenVal(r, r.Intn(5))
	}
}

func tlvGenMix(r *rand.Rand) string {
	n := 1 + r.Intn(20)
	vals := make([]string, n)
	shape := r.Intn(5)
	for i := range vals {
		switch shape {
		case 0: // 9-byte records of both types: 6-char text and int64 (the consistent length survives ingest)
			if r.Intn(2) == 0 {
				vals[i] = tlvGenVal(r, 1)
			} else {
				vals[i] = fmt.Sprintf("i%d", r.Intn(2000)-1000)
			}
		case 1: // numbers and numeric text (converted to numbers)
			if r.Intn(2) == 0 {
				vals[i] = "s" + hex.EncodeToString([]byte(strconv.Itoa(r.Intn(2000000)-1000000)))
			} else {
				vals[i] = fmt.Sprintf("i%d", tlvI64Edges[r.Intn(len(tlvI64Edges))])
			}
		case 2: // 6-digit numeric text and numbers: 9 bytes before and after the conversion
			if r.Intn(2) == 0 {
				vals[i] = "s" + hex.EncodeToString([]byte(strconv.Itoa(100000+r.Intn(900000))))
			} else {
				vals[i] = fmt.Sprintf("i%d", r.Intn(100))
			}
		case 3: // one type only (no consolidation)
			vals[i] = tlvGenVal(r, 1)
		default:
			switch r.Intn(4) {
			case 0:
				vals[i] = fmt.Sprintf("i%d", tlvI64Edges[r.Intn(len(tlvI64Edges))])
			case 1:
				vals[i] = "s" + hex.EncodeToString([]byte([]string{"", "-", "1-2", "x1", "007", "-0", "123456789012345678", "-999999999999999999", "ghx", "zzzzzz", "e5", "a-1", "--1", "0-"}[r.Intn(14)]))
			case 2:
				vals[i] = tlvGenVal(r, 1)
			default:
				vals[i] = []string{"z", "-"}[r.Intn(2)]
			}
		}
	}
	if r.Intn(4) == 0 {
		k := r.Intn(n)
		for i := 0; i < k; i++ {
			vals[i] = "-"
		}
	}
	allAbsent := true
	for _, v := range vals {
		allAbsent = allAbsent && v == "-"
	}
	if allAbsent {
		vals[n-1] = "i1"
	}
	return fmt.Sprintf("tlv mix %s %s", strings.Join(vals, ","), tlvGenSeeks(r, n))
}

func tlvGenSeeks(r *rand.Rand, n int) string {
	k := 1 + r.Intn(12)
	var p []string
	switch r.Intn(5) {
	case 0: // forward
		c := 0
		for i := 0; i < k && c < n; i++ {
			p = append(p, strconv.Itoa(c))
			c += 1 + r.Intn(3)
		}
	case 1: // backward
		c := n - 1
		for i := 0; i < k && c >= 0; i++ {
			p = append(p, strconv.Itoa(c))
			c -= 1 + r.Intn(3)
		}
	case 2: // every record, in order, then again the first
		for i := 0; i < n && i < 60; i++ {
			p = append(p, strconv.Itoa(i))
		}
		p = append(p, "0")
	default: // any order, repeats, sometimes past the end
		for i := 0; i < k; i++ {
			if r.Intn(12) == 0 {
				p = append(p, strconv.Itoa(n+r.Intn(3)))
			} else {
				p = append(p, strconv.Itoa(r.Intn(n)))
			}
		}
	}
	if len(p) == 0 {
		return "0"
	}
	return strings.Join(p, ";")
}

func tlvGenCol(r *rand.Rand, tier string) string {
	n := 1 + r.Intn(50)
	limit := 501
	if r.Intn(4) == 0 {
		limit = 1 + r.Intn(7)
	}
	profile := r.Intn(10)
	if profile == 5 && r.Intn(3) != 0 {
		profile = 7
	}
	vals := make([]string, n)
	for i := range vals {
		vals[i] = tlvGenVal(r, profile)
	}
	switch r.Intn(6) {
	case 0: // sparse: absent / explicit null sprinkled in
		for i := range vals {
			if r.Intn(3) == 0 {
				vals[i] = []string{"-", "z"}[r.Intn(2)]
			}
		}
	case 1: // late column
		k := r.Intn(n)
		for i := 0; i < k; i++ {
			vals[i] = "-"
		}
	}
	if r.Intn(40) == 0 { // very long strings: the uint16 length field
		l := []int{255, 256, 62999, 63000, 65532, 65533, 65534, 65535, 65536, 65537, 70000, 131072}[r.Intn(12)]
		vals[r.Intn(n)] = fmt.Sprintf("S%d:%d", l, r.Intn(256))
		if n > 6 {
			vals = vals[:6]
			n = 6
		}
	}
	allAbsent := true
	for _, v := range vals {
		allAbsent = allAbsent && v == "-"
	}
	if allAbsent {
		vals[n-1] = "i1"
	}
	return fmt.Sprintf("tlv col %d %s %s", limit, strings.Join(vals, ","), tlvGenSeeks(r, n))
}

// dictionary cardinality around the production limit (501): ~505 records with 499..503 distinct values
func tlvGenColCard(r *rand.Rand) string {
	distinct := 498 + r.Intn(6)
	n := distinct + r.Intn(8)
	vals := make([]string, n)
	for i := range vals {
		k := i
		if i >= distinct {
			k = r.Intn(distinct)
		}
		if r.Intn(2) == 0 {
			vals[i] = fmt.Sprintf("i%d", k)
		} else {
			vals[i] = "s" + hex.EncodeToString([]byte(fmt.Sprintf("w%d", k)))
		}
	}
	return fmt.Sprintf("tlv col 501 %s %s", strings.Join(vals, ","), tlvGenSeeks(r, n))
}

// generator-side encoder of a value token (test data only: material for truncation/mutation)
func tlvGenEnc(tok string) []byte {
	v, ok := tlvParseVal(tok)
	if !ok {
		return nil
	}
	switch v.v.Kind {
	case 's':
		b := []byte{0x02, byte(len(v.v.Str)), byte(len(v.v.Str) >> 8)}
		return append(b, v.v.Str...)
	case 'b':
		if v.v.Bool {
			return []byte{0x01, 1}
		}
		return []byte{0x01, 0}
	case 'i':
		return binary.LittleEndian.AppendUint64([]byte{0x10}, uint64(v.v.I))
	case 'u':
		return binary.LittleEndian.AppendUint64([]byte{0x06}, v.v.U)
	case 'f':
		return binary.LittleEndian.AppendUint64([]byte{0x11}, math.Float64bits(v.v.F))
	}
	return []byte{0x13}
}

func tlvMutate(r *rand.Rand, b []byte) []byte {
	b = append([]byte{}, b...)
	switch r.Intn(5) {
	case 0:
		if len(b) > 0 {
			b = b[:r.Intn(len(b))]
		}
	case 1:
		if len(b) > 0 {
			b[r.Intn(len(b))] = byte(r.Intn(256))
		}
	case 2:
		if len(b) > 0 {
			b[r.Intn(len(b))] = []byte{0x01, 0x02, 0x03, 0x07, 0x09, 0x10, 0x11, 0x12, 0x13, 0x16, 0xff}[r.Intn(11)]
		}
	case 3:
		x := make([]byte, 1+r.Intn(4))
		r.Read(x)
		b = append(b, x...)
	}
	return b
}

func tlvHexOrDash(b []byte) string {
	if len(b) == 0 {
		return "-"
	}
	return hex.EncodeToString(b)
}

func tlvGenDictEntries(r *rand.Rand, nw, rc int, valid bool) string {
	perm := r.Perm(rc)
	var es []string
	used := map[string]bool{}
	pi := 0
	for i := 0; i < nw; i++ {
		var w []byte
		for tries := 0; tries < 50; tries++ {
			switch r.Intn(6) {
			case 0:
				w = []byte{0x13}
			case 1:
				w = []byte{0x01, byte(r.Intn(2))}
			case 2:
				w = tlvGenEnc(tlvGenVal(r, 0))
			case 3:
				w = tlvGenEnc(tlvGenVal(r, 3))
			default:
				w = tlvGenEnc(fmt.Sprintf("s%s", hex.EncodeToString([]byte(fmt.Sprintf("w%d", r.Intn(100000))))))
			}
			if !valid && r.Intn(4) == 0 {
				w = tlvMutate(r, w)
				if len(w) == 0 {
					w = []byte{0x06, 1, 2, 3, 4, 5, 6, 7, 8}
				}
			}
			if !used[string(w)] {
				break
			}
		}
		if used[string(w)] {
			continue
		}
		used[string(w)] = true
		k := 0
		if pi < len(perm) {
			k = 1 + r.Intn(1+(len(perm)-pi)/(nw-i))
			if i == nw-1 {
				k = len(perm) - pi
			}
		}
		var rs []string
		for j := 0; j < k && pi < len(perm); j++ {
			rn := perm[pi]
			pi++
			if !valid && r.Intn(30) == 0 {
				rn = rc + r.Intn(3)
			}
			rs = append(rs, strconv.Itoa(rn))
		}
		es = append(es, hex.EncodeToString(w)+":"+strings.Join(rs, "."))
	}
	return strings.Join(es, ",")
}

func tlvGenTs(r *rand.Rand) string {
	n := 1 + r.Intn(40)
	base := uint64(1 + r.Int63n(1<<41))
	if r.Intn(10) == 0 {
		base = []uint64{1, 2, 255, 256, math.MaxUint64 - 70000, 1 << 63}[r.Intn(6)]
	}
	spread := []uint64{0, 1, 200, 255, 256, 1000, 65535, 65536, 100000, 4294967295, 4294967296, 1 << 40}[r.Intn(12)]
	ts := make([]string, n)
	for i := range ts {
		var d uint64
		if spread > 0 {
			d = uint64(r.Int63n(int64(spread%(1<<62)) + 1))
		}
		if i == 0 && n > 1 {
			d = spread // make the boundary width exact
		}
		if i == 1 {
			d = 0
		}
		t := base + d
		if t < base { // wrapped
			t = math.MaxUint64
		}
		ts[i] = strconv.FormatUint(t, 10)
	}
	r.Shuffle(n, func(i, j int) { ts[i], ts[j] = ts[j], ts[i] })
	return "tlv ts " + strings.Join(ts, ",")
}

func tlvGenTsBlock(r *rand.Rand) ([]byte, int) {
	n := 1 + r.Intn(12)
	ty := 1 + r.Intn(4)
	w := []int{1, 2, 4, 8}[ty-1]
	b := []byte{2, byte(ty)}
	b = binary.LittleEndian.AppendUint64(b, uint64(r.Int63n(1<<40)))
	for i := 0; i < n*w; i++ {
		b = append(b, byte(r.Intn(256)))
	}
	return b, n
}

func genTlv(r *rand.Rand, n int, tier string) []string {
	var out []string
	// fixed boundary cases first
	fixed := []string{
		"tlv col 501 s,s616263,i5,-,z,b1,b0,f3ff0000000000000,f7ff0000000000001,f8000000000000000 0;9;3;3;1;8;2;0",
		"tlv col 501 S65532:1,i1 1;0;1", "tlv col 501 S65533:2,i1 1;0;1", "tlv col 501 S65535:3,i1 0;1", "tlv col 501 S65536:4,i1 0;1;0", "tlv col 501 S65537:5,i1 1;0",
		"tlv col 501 S63000:6 0", "tlv col 501 S63001:7 0",
		"tlv col 501 s616263646566,i12,s6768696a6b6c 0;1;2;2;0", // all records 9 bytes, mixed types
		"tlv mix s616263646566,i12,s6768696a6b6c,i7,s6d6e6f707172 4;2;0;1;3", "tlv mix s313233343536,i12,s363534333231 2;0;1", "tlv mix i5,i6 1;0", "tlv mix -,s6768,i5 2;1;0",
		"tlv col 3 i1,i2,i3,i1 0;1;2;3", "tlv col 4 i1,i2,i3,i1 3;2;1;0", "tlv col 1 i1,i1 0;1",
		"tlv col 501 -,-,s6162 0;1;2;3", "tlv col 501 u18446744073709551615,u0 1;0",
		"tlv dec -", "tlv dec 02", "tlv dec 0200", "tlv dec 020000", "tlv dec 02fdff", "tlv dec 02feff", "tlv dec 02ffff", "tlv dec 13", "tlv dec 0102", "tlv dec 12000061", "tlv dec 14", "tlv dec 00",
		"tlv raw 0 - 0", "tlv raw 0 02 0", "tlv raw 0 0205006162 0;1", "tlv raw 9 0203006162630101 0;1", "tlv raw 4294967295 1313 1;0;2",
		"tlv rdict 0 - 0", "tlv rdict 2 0000 0", "tlv rdict 2 0100 0", "tlv rdict 2 010013 0", "tlv rdict 2 01001301000100 0;1;2",
		"tlv rts 0 -", "tlv rts 1 02010000000000000000", "tlv rts 1 0201000000000000000005", "tlv rts 2 02050000000000000000ffff", "tlv rts 1 0301000000000000000005",
		"tlv ts 1", "tlv ts 18446744073709551615,1", "tlv ts 1000,1255", "tlv ts 1000,1256", "tlv ts 1000,66535", "tlv ts 1000,66536", "tlv ts 1000,4294968295", "tlv ts 1000,4294968296",
	}
	for _, k := range []string{"u8", "u16", "u32", "u64", "i8", "i16", "i32", "i64", "f64"} {
		w := tlvKinds[k].width
		for _, bits := range []uint64{0, 1, 1<<(8*uint(w)-1) - 1, 1 << (8*uint(w) - 1), 1<<(8*uint(w)-1) + 1} {
			fixed = append(fixed, fmt.Sprintf("tlv num %s %x", k, bits))
		}
		if w < 8 {
			fixed = append(fixed, fmt.Sprintf("tlv num %s %x", k, uint64(1)<<(8*uint(w))-1))
		} else {
			fixed = append(fixed, fmt.Sprintf("tlv num %s %x", k, uint64(math.MaxUint64)))
		}
	}
	out = append(out, fixed...)
	cardCases := 2
	if tier == "thorough" {
		cardCases = 12
	}
	for i := 0; i < cardCases; i++ {
		out = append(out, tlvGenColCard(r))
	}
	for len(out) < n {
		switch x := r.Intn(100); {
		case x < 30:
			out = append(out, tlvGenCol(r, tier))
		case x < 38:
			out = append(out, tlvGenMix(r))
		case x < 45:
			ks := []string{"u8", "u16", "u32", "u64", "i8", "i16", "i32", "i64", "f64"}
			k := ks[r.Intn(len(ks))]
			w := uint(tlvKinds[k].width)
			bits := r.Uint64()
			if w < 8 {
				bits &= 1<<(8*w) - 1
			}
			out = append(out, fmt.Sprintf("tlv num %s %x", k, bits))
		case x < 57:
			var b []byte
			switch r.Intn(4) {
			case 0:
				b = make([]byte, r.Intn(12))
				r.Read(b)
			case 1: // narrow kinds and unknown tags
				b = []byte{[]byte{0x03, 0x04, 0x05, 0x06, 0x07, 0x08, 0x09, 0x10, 0x11, 0x12, 0x16}[r.Intn(11)]}
				x := make([]byte, r.Intn(10))
				r.Read(x)
				b = append(b, x...)
			default:
				b = tlvGenEnc(tlvGenVal(r, 7))
				if r.Intn(2) == 0 {
					b = tlvMutate(r, b)
				}
			}
			if len(b) > 0 && (b[0] == 0x14 || b[0] == 0x15) && r.Intn(4) != 0 {
				b[0] = 0x02
			}
			out = append(out, "tlv dec "+tlvHexOrDash(b))
		case x < 72:
			nrec := 1 + r.Intn(12)
			profile := r.Intn(9)
			var blk []byte
			size := -1
			for i := 0; i < nrec; i++ {
				e := tlvGenEnc(tlvGenVal(r, profile))
				if size == -1 {
					size = len(e)
				} else if size != len(e) {
					size = 0
				}
				blk = append(blk, e...)
			}
			c := 0
			switch r.Intn(6) {
			case 0:
				c = size // the right hint when consistent, 0 otherwise
			case 1:
				c = 1 + r.Intn(10) // a wrong hint
			case 2:
				c = 4294967295
			}
			if r.Intn(3) != 0 {
				blk = tlvMutate(r, blk)
			}
			if r.Intn(15) == 0 {
				blk = make([]byte, r.Intn(20))
				r.Read(blk)
			}
			out = append(out, fmt.Sprintf("tlv raw %d %s %s", c, tlvHexOrDash(blk), tlvGenSeeks(r, nrec)))
		case x < 82:
			rc := 1 + r.Intn(40)
			nw := 1 + r.Intn(6)
			if nw > rc {
				nw = rc
			}
			valid := r.Intn(4) != 0
			es := tlvGenDictEntries(r, nw, rc, valid)
			if es == "" {
				continue
			}
			out = append(out, fmt.Sprintf("tlv dict %d %s %s", rc, es, tlvGenSeeks(r, rc)))
		case x < 90:
			rc := 1 + r.Intn(20)
			nw := 1 + r.Intn(4)
			if nw > rc {
				nw = rc
			}
			// a packed block in generator order, then mutated
			var p []byte
			es := strings.Split(tlvGenDictEntries(r, nw, rc, true), ",")
			p = append(p, byte(len(es)), 0)
			for _, e := range es {
				q := strings.Split(e, ":")
				w, _ := hex.DecodeString(q[0])
				p = append(p, w...)
				var rs []string
				if q[1] != "" {
					rs = strings.Split(q[1], ".")
				}
				p = append(p, byte(len(rs)), byte(len(rs)>>8))
				for _, x := range rs {
					v, _ := strconv.Atoi(x)
					p = append(p, byte(v), byte(v>>8))
				}
			}
			if r.Intn(5) != 0 {
				p = tlvMutate(r, p)
			}
			out = append(out, fmt.Sprintf("tlv rdict %d %s %s", rc, tlvHexOrDash(p), tlvGenSeeks(r, rc)))
		case x < 96:
			out = append(out, tlvGenTs(r))
		default:
			b, k := tlvGenTsBlock(r)
			if r.Intn(2) == 0 {
				b = tlvMutate(r, b)
			}
			k += r.Intn(3) - 1
			if k < 0 {
				k = 0
			}
			out = append(out, fmt.Sprintf("tlv rts %d %s", k, tlvHexOrDash(b)))
		}
	}
	if len(out) > n && n >= len(fixed) {
		out = out[:n]
	}
	return out
}
