package main

// C08 — tags tree file, block level.   Suite "tagstree".
//
//	tt <entry> <entry> …
//	entry ::= <metric 0|1>:<type s|n>:<hexvalue>:<count>:<order d|a|r>
//
// ONE tag key ("k"), two metrics ("ma", "mb"); entry j (0-based position in the line) is one tag value of its metric
// with <count> series: TSIDs (j+1)·2^32 + i, 0 ≤ i < count, inserted through the real TagTree.AddTagValue in descending (d),
// ascending (a) or shuffled (r) order of i.  type s = a JSON string value (raw bytes, no backslash), n = a JSON number
// (a decimal integer below 10^15; AddTagValue hashes it as uint64(float)).  Counts reach beyond 65535: the file stores the
// number of TSIDs of a block in 16 bits, a value with more TSIDs takes several consecutive blocks.
//
// Exec builds the holder, asks the OPEN readers (TagsTreeHolder.GetOrInsertMatchingTSIDs, UnrotatedItr), writes the tags
// tree file with the real EncodeTagsTreeHolder and asks the ROTATED readers (getOrInsertMatchingTSIDs with Equal and
// NotEqual, TagValueIterator).  Out (= the Lean model's answer, SigModel.TagsTree readEqual / readNotEqual / iterFor over
// encodeBlocks), per entry:   <j>:eq=<n>/<sum>:ne=<n>/<sum>:it=<n>/<sum>   (number of distinct TSIDs / their sum mod 2^64)
//
// PropFail (C08: the answer must not change with rotation; every series of a tag value is found):
//
//	tagstree/rotated-differs/<class>    a rotated reader returns another TSID set than the open one
//	tagstree/open-differs/<class>       an open reader does not return the TSIDs that were inserted
//	class = tsids-over-64k (some value of the line has more than 65535 TSIDs) | int-value (the entry is a number) | plain

import (
	"encoding/hex"
	"fmt"
	"math/rand"
	"os"
	"regexp"
	"sort"
	"strconv"
	"strings"

	jp "github.com/buger/jsonparser"
	"github.com/cespare/xxhash"
	rtagstree "github.com/siglens/siglens/pkg/segment/reader/metrics/tagstree"
	sutils "github.com/siglens/siglens/pkg/segment/utils"
	"github.com/siglens/siglens/pkg/segment/writer/metrics"
	"github.com/siglens/siglens/pkg/utils"
)

func init() {
	register(&Suite{Name: "tagstree", Gen: genTagsTree, Exec: execTagsTree, Parallel: 4,
		Rule: "1..8 tag values of one key over two metrics, string and integer values, TSID counts 0..3 / around 65535 and 131070 / up to 140000, three insertion orders; the real AddTagValue → EncodeTagsTreeHolder → exact (=, !=) and iterating readers, open and rotated; distinct = sha1(op line); non-trivial = at least one TSID"})
}

type ttEntry struct {
	metric int
	typ    byte
	val    []byte
	count  int
	order  byte
}

var ttIntRe = regexp.MustCompile(`^(0|[1-9][0-9]{0,14})$`)
var ttNumRe = regexp.MustCompile(`^[0-9]{1,6}$`)

func ttParse(line string) ([]ttEntry, bool) {
	f := strings.Split(line, " ")
	if len(f) < 2 || len(f) > 41 || f[0] != "tt" {
		return nil, false
	}
	var es []ttEntry
	seen := map[string]bool{}
	total := 0
	for _, t := range f[1:] {
		p := strings.Split(t, ":")
		if len(p) != 5 || (p[0] != "0" && p[0] != "1") || (p[1] != "s" && p[1] != "n") || !ttNumRe.MatchString(p[3]) || len(p[4]) != 1 || !strings.Contains("dar", p[4]) {
			return nil, false
		}
		vb, err := hex.DecodeString(p[2])
		if err != nil || p[2] != strings.ToLower(p[2]) {
			return nil, false
		}
		n, _ := strconv.Atoi(p[3])
		if n > 200000 || (p[4] != "d" && n > 3000) {
			return nil, false
		}
		if p[1] == "n" && !ttIntRe.Match(vb) {
			return nil, false
		}
		if p[1] == "s" && (len(vb) > 65535 || strings.Contains(string(vb), `\`)) {
			return nil, false
		}
		k := p[0] + ":" + p[1] + ":" + p[2]
		if seen[k] {
			return nil, false
		}
		seen[k] = true
		total += n
		es = append(es, ttEntry{metric: int(p[0][0] - '0'), typ: p[1][0], val: vb, count: n, order: p[4][0]})
	}
	if total > 400000 {
		return nil, false
	}
	return es, true
}

func ttHash(e ttEntry) uint64 {
	if e.typ == 'n' {
		v, _ := strconv.ParseUint(string(e.val), 10, 64)
		return v
	}
	return xxhash.Sum64(e.val)
}

type ttDigest struct {
	n   int
	sum uint64
}

func ttDigestOf(set map[uint64]struct{}) ttDigest {
	d := ttDigest{n: len(set)}
	for t := range set {
		d.sum += t
	}
	return d
}

func (d ttDigest) String() string { return fmt.Sprintf("%d/%016x", d.n, d.sum) }

func ttUnion(m map[string]map[uint64]struct{}) map[uint64]struct{} {
	u := map[uint64]struct{}{}
	for _, s := range m {
		for t := range s {
			u[t] = struct{}{}
		}
	}
	return u
}

func execTagsTree(line string) Result {
	es, ok := ttParse(line)
	if !ok {
		return Result{Out: "bad-op"}
	}
	dir, err := os.MkdirTemp("", "veriftt")
	if err != nil {
		return Result{Out: "mkdtemp-failed"}
	}
	defer os.RemoveAll(dir)
	base := dir + "/tth/"
	mnames := [][]byte{[]byte("ma"), []byte("mb")}
	tth := metrics.VerifNewTTH(base)
	inserted := make([]map[uint64]struct{}, len(es))
	over64k := false
	anyTsid := false
	for j, e := range es {
		inserted[j] = map[uint64]struct{}{}
		idx := make([]int, e.count)
		for i := range idx {
			idx[i] = i
		}
		switch e.order {
		case 'd':
			for i := range idx {
				idx[i] = e.count - 1 - i
			}
		case 'r':
			x := uint64(j)*2654435761 + 12345
			for i := len(idx) - 1; i > 0; i-- {
				x = x*6364136223846793005 + 1442695040888963407
				k := int((x >> 33) % uint64(i+1))
				idx[i], idx[k] = idx[k], idx[i]
			}
		}
		vt := jp.String
		if e.typ == 'n' {
			vt = jp.Number
		}
		for _, i := range idx {
			tsid := uint64(j+1)<<32 + uint64(i)
			if err := tth.VerifAddTagValue("k", mnames[e.metric], e.val, vt, tsid); err != nil {
				return Result{Out: "add-failed", Fails: []PropFail{{Sig: "tagstree/add-failed", Msg: err.Error()}}}
			}
			inserted[j][tsid] = struct{}{}
			anyTsid = true
		}
		if e.count > 65535 {
			over64k = true
		}
	}
	anyInt := false
	for _, e := range es {
		if e.typ == 'n' {
			anyInt = true
		}
	}
	// witness class of the LINE (an integer value makes the exact reader fail for the values behind it as well)
	class := func(e ttEntry) string {
		switch {
		case over64k:
			return "tsids-over-64k"
		case anyInt:
			return "int-value"
		}
		return "plain"
	}
	// a key / metric without any series has no tree resp. no file: the callers read that as "no series" (processExactFilter)
	notExist := func(err error) error {
		if err != nil && utils.IsNotExistError(err) {
			return nil
		}
		return err
	}
	var fails []PropFail
	pf := func(sig, msg string) {
		for _, f := range fails {
			if f.Sig == sig {
				return
			}
		}
		fails = append(fails, PropFail{Sig: sig, Msg: trunc(msg, 500)})
	}
	mh := func(m int) uint64 { return xxhash.Sum64(mnames[m]) }
	// what must come back
	wantEq := make([]ttDigest, len(es))
	wantNe := make([]ttDigest, len(es))
	for j, e := range es {
		wantEq[j] = ttDigestOf(inserted[j])
		ne := map[uint64]struct{}{}
		for k, o := range es {
			if k != j && o.metric == e.metric {
				for t := range inserted[k] {
					ne[t] = struct{}{}
				}
			}
		}
		wantNe[j] = ttDigestOf(ne)
	}
	// ---- open readers
	openIt := map[[2]uint64]map[uint64]struct{}{}
	for m := 0; m < 2; m++ {
		uitr, found, err := tth.GetValueIteratorForMetric(mh(m), "k")
		if err != nil || !found {
			continue
		}
		for {
			h, _, tsids, _, more := uitr.Next()
			if !more {
				break
			}
			key := [2]uint64{uint64(m), h}
			if openIt[key] == nil {
				openIt[key] = map[uint64]struct{}{}
			}
			for _, t := range tsids {
				openIt[key][t] = struct{}{}
			}
		}
	}
	openEq := make([]ttDigest, len(es))
	openNe := make([]ttDigest, len(es))
	openI := make([]ttDigest, len(es))
	for j, e := range es {
		_, _, r, err := tth.GetOrInsertMatchingTSIDs(mh(e.metric), "k", ttHash(e), sutils.Equal, nil)
		if err = notExist(err); err != nil {
			pf("tagstree/open-differs/"+class(e), fmt.Sprintf("entry %d: open exact reader (=) failed: %v", j, err))
		}
		openEq[j] = ttDigestOf(ttUnion(r))
		_, _, r, err = tth.GetOrInsertMatchingTSIDs(mh(e.metric), "k", ttHash(e), sutils.NotEqual, nil)
		if err = notExist(err); err != nil {
			pf("tagstree/open-differs/"+class(e), fmt.Sprintf("entry %d: open exact reader (!=) failed: %v", j, err))
		}
		openNe[j] = ttDigestOf(ttUnion(r))
		openI[j] = ttDigestOf(openIt[[2]uint64{uint64(e.metric), ttHash(e)}])
		if openEq[j] != wantEq[j] || openNe[j] != wantNe[j] || openI[j] != wantEq[j] {
			pf("tagstree/open-differs/"+class(e), fmt.Sprintf("entry %d (%d TSIDs inserted): open readers return eq=%v ne=%v it=%v, inserted eq=%v ne=%v", j, e.count, openEq[j], openNe[j], openI[j], wantEq[j], wantNe[j]))
		}
	}
	// ---- rotate: write the file, read it with the readers of a rotated segment
	if err := tth.EncodeTagsTreeHolder(); err != nil {
		return Result{Out: "encode-failed", Fails: []PropFail{{Sig: "tagstree/encode-failed", Msg: err.Error()}}, Nontrivial: anyTsid}
	}
	attr, err := rtagstree.InitAllTagsTreeReader(base)
	if err != nil {
		return Result{Out: "reader-init-failed", Fails: []PropFail{{Sig: "tagstree/reader-init-failed", Msg: err.Error()}}, Nontrivial: anyTsid}
	}
	defer attr.CloseAllTagTreeReaders()
	rotIt := map[[2]uint64]map[uint64]struct{}{}
	for m := 0; m < 2; m++ {
		items, found, err := rtagstree.VerifIterate(attr, mh(m), "k")
		if err != nil || !found {
			continue
		}
		for _, it := range items {
			key := [2]uint64{uint64(m), it.Hash}
			if rotIt[key] == nil {
				rotIt[key] = map[uint64]struct{}{}
			}
			for _, t := range it.Tsids {
				rotIt[key][t] = struct{}{}
			}
		}
	}
	var parts []string
	for j, e := range es {
		eqS, neS := "err", "err"
		var rotEq, rotNe ttDigest
		_, _, r, err := rtagstree.VerifExact(attr, mh(e.metric), "k", ttHash(e), sutils.Equal)
		if err = notExist(err); err == nil {
			rotEq = ttDigestOf(ttUnion(r))
			eqS = rotEq.String()
		}
		_, _, r2, err2 := rtagstree.VerifExact(attr, mh(e.metric), "k", ttHash(e), sutils.NotEqual)
		if err2 = notExist(err2); err2 == nil {
			rotNe = ttDigestOf(ttUnion(r2))
			neS = rotNe.String()
		}
		rotI := ttDigestOf(rotIt[[2]uint64{uint64(e.metric), ttHash(e)}])
		parts = append(parts, fmt.Sprintf("%d:eq=%s:ne=%s:it=%s", j, eqS, neS, rotI))
		if err != nil || err2 != nil || rotEq != openEq[j] || rotNe != openNe[j] || rotI != openI[j] {
			pf("tagstree/rotated-differs/"+class(e), fmt.Sprintf("entry %d (%d TSIDs): after rotation eq=%s ne=%s it=%v (errors: %v, %v); while open eq=%v ne=%v it=%v", j, e.count, eqS, neS, rotI, err, err2, openEq[j], openNe[j], openI[j]))
		}
	}
	tags := []string{fmt.Sprintf("entries=%d", len(es))}
	if over64k {
		tags = append(tags, "tsids>65535")
	}
	for _, e := range es {
		if e.typ == 'n' {
			tags = append(tags, "int-value")
			break
		}
	}
	sort.Strings(tags)
	return Result{Out: strings.Join(parts, " "), Fails: fails, Nontrivial: anyTsid, Tags: tags}
}

func genTagsTree(r *rand.Rand, n int, tier string) []string {
	var out []string
	strVals := []string{"prod", "dev", "a", "", " ", "h1", "x y", "ü", "v0", "v1", "v2", "v3", strings.Repeat("w", 300), "q\"uote", "a,b"}
	for c := 0; c < n; c++ {
		if c%40 == 39 {
			bad := []string{"tt", "tt 2:s:61:1:d", "tt 0:x:61:1:d", "tt 0:s:6g:1:d", "tt 0:s:61:1:q", "tt 0:s:61:3001:a", "tt 0:n:3035:1:d", "tt 0:n:61:1:d",
				"tt 0:s:61:1:d 0:s:61:2:d", "tt 0:s:5c:1:d", "tt 0:s:61:200001:d", "tt 0:s:61:-1:d", "tt 0:s:61:1:d:0"}
			out = append(out, bad[r.Intn(len(bad))])
			continue
		}
		ne := 1 + r.Intn(8)
		big := c%10 == 3 || c%10 == 7 // a value with more TSIDs than one block can frame
		var toks []string
		used := map[string]bool{}
		for j := 0; j < ne; j++ {
			m := r.Intn(2)
			typ := "s"
			v := strVals[r.Intn(len(strVals))]
			if r.Intn(5) == 0 {
				typ = "n"
				v = []string{"0", "5", "7", "200", "65536", "123456789012345"}[r.Intn(6)]
			}
			k := fmt.Sprintf("%d:%s:%s", m, typ, hexs(v))
			if used[k] {
				continue
			}
			used[k] = true
			cnt := []int{0, 1, 1, 2, 3, 5, 17, 300}[r.Intn(8)]
			ord := string("dar"[r.Intn(3)])
			if big && (j == 0 || r.Intn(4) == 0) {
				cnt = []int{65534, 65535, 65536, 65537, 70000, 131069, 131070, 131071, 66000 + r.Intn(70000)}[r.Intn(9)]
				ord = "d"
			}
			toks = append(toks, fmt.Sprintf("%s:%d:%s", k, cnt, ord))
		}
		// keep a line below the total the parser accepts
		total := 0
		var keep []string
		for _, t := range toks {
			p := strings.Split(t, ":")
			n, _ := strconv.Atoi(p[3])
			if total+n > 400000 {
				continue
			}
			total += n
			keep = append(keep, t)
		}
		out = append(out, "tt "+strings.Join(keep, " "))
	}
	return out
}
