package main

// suite "qlife" (C17 lifecycle clause): operation sequences over the REAL query tables including
// StartQueryAsCoordinator, RestartQuery, SendQueryStateComplete, the timeout goroutine (real time, 1 s) —
// executed in child processes (`corr c17worker`) so that a deadlock cannot wedge the suite.
//
//	ql  <maxRunning> <op> ...   default query timeout (300 s: no timer fires)
//	qlt <maxRunning> <op> ...   config.SetQueryTimeoutSecs(1); `T` sleeps until every pending timer has fired
//	op ::= s<q>f | s<q>w | S<q>f | S<q>w | p | c<q> | d<q> | r<q> | R<q>:<nq>f | R<q>:<nq>w | k<q> | e<q> | T
//
// Checked on the real code, independent of the model:
//   - every real call returns within 3 s (else query-lifecycle/call-blocked/<func>) and afterwards a StartQuery
//     of a fresh qid returns within 1 s (else query-lifecycle/table-lock-held-forever);
//   - after every operation GetActiveQueryCount() <= MAX_RUNNING_QUERIES + #forced starts
//     (query-lifecycle/admission-limit-exceeded);
//   - qlt: every query that is in the running table, not cancelled, at a `T` must be cancelled with
//     TIMEOUT and CANCELLED on its channel at the latest 3 s after its admission (timeout 1 s; the wide margin
//     only costs time on a failing run) (query-lifecycle/admitted-query-never-times-out).

import (
	"bufio"
	"encoding/json"
	"fmt"
	"io"
	"math/rand"
	"os"
	"os/exec"
	"sort"
	"strconv"
	"strings"
	"sync"
	"time"

	"github.com/siglens/siglens/pkg/config"
	"github.com/siglens/siglens/pkg/segment/query"
)

func init() {
	register(&Suite{Name: "qlife", Gen: genQl, Exec: execQl, Parallel: 6,
		Rule: "operation sequences (≤ 30 ops, ≤ 5 qids + restart qids, MAX_RUNNING 1..3) over StartQuery/StartQueryAsCoordinator/pull/CancelQuery/DeleteQuery/RestartQuery/SendQueryStateComplete/ERROR/drain against the real tables in child processes under a 3 s watchdog per call + liveness probe; a fixed share (≤ 24 per run) with a 1 s query timeout in real time (T = wait for the timers); non-trivial = ≥ 4 ops incl. a cancel, delete, restart or T"})
}

const (
	qlCallDeadline  = 3 * time.Second
	qlProbeDeadline = 1 * time.Second
	qlLineDeadline  = 40 * time.Second
)

// ---------------------------------------------------------------- generator

func genQl(r *rand.Rand, n int, tier string) []string {
	var out []string
	// timeout cases (real time): fixed shapes first, then random ones; ≤ 24 per run
	fixedT := []string{
		"qlt 1 s1w T p T",            // waits longer than the timeout, is admitted, must still time out
		"qlt 2 s1f T",                // a running query times out ~1 s after admission
		"qlt 1 s1f s2w T d1 p T",     // slot held by a timed-out query until its delete; the next one is timed too
		"qlt 2 S1f R1:50f T",         // a restarted query is timed from ITS admission
		"qlt 1 S1w s2w T p c1 T p T", // cancel before the deadline, successor admitted after delete only
		"qlt 2 s1f c1 T",             // timer of a cancelled, not yet deleted query still fires (TIMEOUT, CANCELLED again)
		"qlt 2 S1w T p R1:50w T p T", // restart into the queue: no timer while queued
	}
	nT := 14
	if tier == "thorough" {
		nT = 24
	}
	if n < 40 {
		nT = n / 3
	}
	for i := 0; i < nT && i < len(fixedT); i++ {
		out = append(out, fixedT[i])
	}
	for len(out) < nT {
		out = append(out, genQlLine(r, true))
	}
	for len(out) < n {
		out = append(out, genQlLine(r, false))
	}
	return out
}

// genQlLine keeps an approximate picture of the tables (which aliases run, which wait) only to aim the
// operations at queries that exist; the answer always comes from the real code and from the model.
func genQlLine(r *rand.Rand, timed bool) string {
	m := 1 + r.Intn(3)
	nq := 2 + r.Intn(4)
	nops := 2 + r.Intn(29)
	type qs struct {
		coord, cancelled bool
	}
	run := map[int]*qs{}
	var wait []int
	waitInfo := map[int]*qs{}
	// ub[q]: upper bound of the messages in q's channel NOT counting the two of its own (possibly future) admission
	ub := map[int]int{}
	noReset := map[int]bool{} // created by a queued restart: a drain may be a no-op while it waits
	started := map[int]bool{}
	nextR := 50
	nT := 0
	var ops []string
	keys := func(mm map[int]*qs) []int {
		var ks []int
		for k := range mm {
			ks = append(ks, k)
		}
		sort.Ints(ks)
		return ks
	}
	pick := func() int {
		if ks := keys(run); len(ks) > 0 && r.Intn(5) != 0 {
			return ks[r.Intn(len(ks))]
		}
		if len(wait) > 0 && r.Intn(3) != 0 {
			return wait[r.Intn(len(wait))]
		}
		return 1 + r.Intn(nq)
	}
	pull := func() {
		ops = append(ops, "p")
		if len(run) < m && len(wait) > 0 {
			h := wait[0]
			wait = wait[1:]
			run[h] = waitInfo[h]
		}
	}
	roomForT := func() bool {
		for a := range run {
			if ub[a]+2 > 8 {
				return false
			}
		}
		return true
	}
	fireT := func() {
		for a := range run {
			ub[a] += 2
			run[a].cancelled = true
		}
		nT++
		ops = append(ops, "T")
	}
	if timed {
		m = 1 + r.Intn(2)
		nops = 4 + r.Intn(7)
	}
	for j := 0; j < nops; j++ {
		q := pick()
		k := r.Intn(22)
		if j < 2 && (timed || j == 0) {
			k = 0 // begin with starts
		}
		switch {
		case k < 5: // start
			q = 1 + r.Intn(nq)
			if timed && started[q] {
				continue // unique qids in timed cases (a stale timer must not meet a re-used qid)
			}
			info := &qs{coord: r.Intn(2) == 0}
			c := "s"
			if info.coord {
				c = "S"
			}
			f := "w"
			if r.Intn(3) == 0 {
				f = "f"
			}
			ops = append(ops, fmt.Sprintf("%s%d%s", c, q, f))
			started[q] = true
			if run[q] == nil {
				if f == "f" {
					run[q] = info
				} else {
					wait = append(wait, q)
					waitInfo[q] = info
				}
			}
		case k < 9:
			pull()
		case k < 11:
			if ub[q] < 8 {
				ub[q]++
				ops = append(ops, fmt.Sprintf("c%d", q))
				if run[q] != nil {
					run[q].cancelled = true
				}
				for i, w := range wait {
					if w == q {
						wait = append(wait[:i:i], wait[i+1:]...)
						break
					}
				}
			}
		case k < 13:
			ops = append(ops, fmt.Sprintf("d%d", q))
			delete(run, q)
		case k < 15:
			ops = append(ops, fmt.Sprintf("r%d", q))
			if !noReset[q] {
				ub[q] = 0
			}
		case k < 18: // restart, aimed at a running coordinator query most of the time
			if ks := keys(run); len(ks) > 0 && r.Intn(6) != 0 {
				var cs []int
				for _, a := range ks {
					if run[a].coord && !run[a].cancelled {
						cs = append(cs, a)
					}
				}
				if len(cs) > 0 && r.Intn(8) != 0 {
					q = cs[r.Intn(len(cs))]
				}
			}
			if ub[q]+2 <= 8 {
				nqid := nextR
				nextR++
				f := "f"
				if r.Intn(3) == 0 {
					f = "w"
					noReset[nqid] = true
				}
				ub[nqid] = ub[q] + 2
				if noReset[q] {
					noReset[nqid] = true
				}
				ops = append(ops, fmt.Sprintf("R%d:%d%s", q, nqid, f))
				if info := run[q]; info != nil && !info.cancelled {
					delete(run, q)
					if info.coord {
						ni := &qs{coord: true}
						if f == "f" {
							run[nqid] = ni
						} else {
							wait = append(wait, nqid)
							waitInfo[nqid] = ni
						}
					}
				}
			}
		case k < 19:
			if ub[q] < 8 {
				ub[q]++
				ops = append(ops, fmt.Sprintf("k%d", q))
			}
		case k < 20:
			if ub[q] < 8 {
				ub[q]++
				ops = append(ops, fmt.Sprintf("e%d", q))
			}
		default:
			if timed && nT < 2 && roomForT() && (len(run) > 0 || len(wait) > 0) {
				fireT()
			} else {
				pull()
			}
		}
	}
	if timed && nT < 2 && roomForT() {
		if len(run) == 0 && len(wait) > 0 {
			pull()
		}
		fireT()
	}
	cmd := "ql"
	if timed {
		cmd = "qlt"
	}
	return fmt.Sprintf("%s %d %s", cmd, m, strings.Join(ops, " "))
}

// ---------------------------------------------------------------- parent side: worker pool

type qlAnswer struct {
	Out        string     `json:"out"`
	Fails      []PropFail `json:"fails"`
	Tags       []string   `json:"tags"`
	Nontrivial bool       `json:"nontrivial"`
	Abandon    bool       `json:"abandon"` // the worker leaves a blocked goroutine behind and exits
	Blocked    string     `json:"blocked"` // shape of the call that did not return (function + situation)
	Retry      bool       `json:"retry"`   // timed case: the process was stalled so long that a timer may have fired between two operations
}

// Once the same call shape has blocked in qlKnownAfter executed cases of a run, later cases do not execute it
// again (each would cost the full watchdog time plus a worker process): they report the same finding,
// marked "not re-tried". A replay of such a line starts from zero and executes the call.
const qlKnownAfter = 3

var (
	qlBlockedShapes = map[string]int{}
	qlBlockedMu     sync.Mutex
)

type qlWorker struct {
	cmd   *exec.Cmd
	in    io.WriteCloser
	out   *bufio.Reader
	cases int
	born  time.Time
}

var (
	qlPool   []*qlWorker
	qlPoolMu sync.Mutex
)

func qlSpawn() (*qlWorker, error) {
	exe, err := os.Executable()
	if err != nil {
		return nil, err
	}
	cmd := exec.Command(exe, "c17worker", "x")
	in, err := cmd.StdinPipe()
	if err != nil {
		return nil, err
	}
	outp, err := cmd.StdoutPipe()
	if err != nil {
		return nil, err
	}
	cmd.Stderr = io.Discard
	if err := cmd.Start(); err != nil {
		return nil, err
	}
	return &qlWorker{cmd: cmd, in: in, out: bufio.NewReaderSize(outp, 1<<20), born: time.Now()}, nil
}

func (w *qlWorker) kill() {
	w.in.Close()
	_ = w.cmd.Process.Kill()
	go func() { _ = w.cmd.Wait() }()
}

func qlGet(fresh bool) (*qlWorker, error) {
	if !fresh {
		qlPoolMu.Lock()
		if n := len(qlPool); n > 0 {
			w := qlPool[n-1]
			qlPool = qlPool[:n-1]
			qlPoolMu.Unlock()
			return w, nil
		}
		qlPoolMu.Unlock()
	}
	return qlSpawn()
}

func qlPut(w *qlWorker) {
	// recycle: a worker lives < 60 s, far below the 300 s default query timeout of leftover timer goroutines
	if w.cases >= 400 || time.Since(w.born) > 60*time.Second {
		w.kill()
		return
	}
	qlPoolMu.Lock()
	qlPool = append(qlPool, w)
	first := len(qlPool) == 1
	qlPoolMu.Unlock()
	if first {
		qlHookOnce.Do(func() {
			exitHooks = append(exitHooks, func() {
				qlPoolMu.Lock()
				defer qlPoolMu.Unlock()
				for _, w := range qlPool {
					w.kill()
				}
				qlPool = nil
			})
		})
	}
}

var qlHookOnce sync.Once

func execQl(line string) Result {
	// a timed case whose worker was stalled (machine load) so long that a 1 s timer may have fired in the
	// middle of the quick operations is run again in a fresh process: the order of events would not be the line's
	for attempt := 0; ; attempt++ {
		res, retry := execQlOnce(line)
		if !retry || attempt >= 3 {
			return res
		}
	}
}

func execQlOnce(line string) (Result, bool) {
	f := strings.Fields(line)
	if len(f) < 2 || (f[0] != "ql" && f[0] != "qlt") {
		return Result{Out: "bad-op"}, false
	}
	timed := f[0] == "qlt"
	w, err := qlGet(timed)
	if err != nil {
		return Result{Out: "worker-failed", Fails: []PropFail{{Sig: "query-lifecycle/worker-failed", Msg: err.Error()}}}, false
	}
	type rd struct {
		s   string
		err error
	}
	ch := make(chan rd, 1)
	qlBlockedMu.Lock()
	var known []string
	for sh, n := range qlBlockedShapes {
		if n >= qlKnownAfter {
			known = append(known, sh)
		}
	}
	qlBlockedMu.Unlock()
	sort.Strings(known)
	go func() {
		if _, err := io.WriteString(w.in, "!skip "+strings.Join(known, " ")+"\n"+line+"\n"); err != nil {
			ch <- rd{"", err}
			return
		}
		s, err := w.out.ReadString('\n')
		ch <- rd{s, err}
	}()
	var ans qlAnswer
	select {
	case r := <-ch:
		if r.err != nil || json.Unmarshal([]byte(r.s), &ans) != nil {
			w.kill()
			return Result{Out: "worker-failed", Nontrivial: true, Fails: []PropFail{{Sig: "query-lifecycle/worker-failed",
				Msg: trunc(fmt.Sprintf("worker died or answered garbage on this line: %v %q", r.err, r.s), 300)}}}, false
		}
	case <-time.After(qlLineDeadline):
		w.kill()
		return Result{Out: "worker-hung", Nontrivial: true, Fails: []PropFail{{Sig: "query-lifecycle/worker-hung",
			Msg: "the worker process did not answer within 40 s although every call is guarded by a watchdog"}}}, false
	}
	w.cases++
	if ans.Abandon && ans.Blocked != "" {
		qlBlockedMu.Lock()
		qlBlockedShapes[ans.Blocked]++
		qlBlockedMu.Unlock()
	}
	if ans.Abandon || timed {
		w.kill()
	} else {
		qlPut(w)
	}
	return Result{Out: ans.Out, Fails: ans.Fails, Tags: ans.Tags, Nontrivial: ans.Nontrivial}, ans.Retry
}

// ---------------------------------------------------------------- worker side

func c17WorkerMain() {
	in := bufio.NewScanner(os.Stdin)
	in.Buffer(make([]byte, 1<<20), 1<<26)
	out := bufio.NewWriter(os.Stdout)
	caseNo := uint64(0)
	for in.Scan() {
		if strings.HasPrefix(in.Text(), "!skip") {
			qlSkipShapes = map[string]bool{}
			for _, sh := range strings.Fields(in.Text())[1:] {
				qlSkipShapes[sh] = true
			}
			continue
		}
		caseNo++
		ans := qlRunCase(in.Text(), caseNo)
		b, _ := json.Marshal(ans)
		out.Write(b)
		out.WriteByte('\n')
		out.Flush()
		if ans.Abandon {
			os.Exit(0)
		}
	}
}

var qlSkipShapes = map[string]bool{} // call shapes known to block in this run (set by the parent)

// qlCall runs one real call under the watchdog; false = it did not return in time.
func qlCall(d time.Duration, fn func()) (ok bool, panicked interface{}) {
	done := make(chan interface{}, 1)
	go func() {
		defer func() { done <- recover() }()
		fn()
	}()
	select {
	case p := <-done:
		return true, p
	case <-time.After(d):
		return false, nil
	}
}

type qlOp struct {
	kind  byte // s S p c d r R k e T
	q, nq int
	force bool
}

func qlParseOps(toks []string) ([]qlOp, bool) {
	var ops []qlOp
	for _, t := range toks {
		if t == "p" || t == "T" {
			ops = append(ops, qlOp{kind: t[0]})
			continue
		}
		if len(t) < 2 {
			return nil, false
		}
		num := func(s string) (int, bool) {
			if s == "" {
				return 0, false
			}
			for _, c := range s {
				if c < '0' || c > '9' {
					return 0, false
				}
			}
			v, err := strconv.Atoi(s)
			return v, err == nil && v < 1000000
		}
		switch t[0] {
		case 's', 'S':
			fl := t[len(t)-1]
			q, ok := num(t[1 : len(t)-1])
			if !ok || (fl != 'f' && fl != 'w') {
				return nil, false
			}
			ops = append(ops, qlOp{kind: t[0], q: q, force: fl == 'f'})
		case 'R':
			fl := t[len(t)-1]
			parts := strings.Split(t[1:len(t)-1], ":")
			if len(parts) != 2 || (fl != 'f' && fl != 'w') {
				return nil, false
			}
			q, ok1 := num(parts[0])
			nq, ok2 := num(parts[1])
			if !ok1 || !ok2 {
				return nil, false
			}
			ops = append(ops, qlOp{kind: 'R', q: q, nq: nq, force: fl == 'f'})
		case 'c', 'd', 'r', 'k', 'e':
			q, ok := num(t[1:])
			if !ok {
				return nil, false
			}
			ops = append(ops, qlOp{kind: t[0], q: q})
		default:
			return nil, false
		}
	}
	return ops, true
}

func qlRunCase(line string, caseNo uint64) (ans qlAnswer) {
	f := strings.Fields(line)
	if len(f) < 2 || (f[0] != "ql" && f[0] != "qlt") {
		return qlAnswer{Out: "bad-op"}
	}
	timed := f[0] == "qlt"
	m, err := strconv.Atoi(f[1])
	if err != nil || m <= 0 || m > 1000000 || strings.TrimLeft(f[1], "0123456789") != "" {
		return qlAnswer{Out: "bad-op"}
	}
	ops, ok := qlParseOps(f[2:])
	if !ok {
		return qlAnswer{Out: "bad-op"}
	}
	startedAlias := map[int]bool{}
	restartAlias := map[int]bool{}
	for _, o := range ops {
		switch o.kind {
		case 's', 'S':
			startedAlias[o.q] = true
		case 'R':
			if restartAlias[o.nq] {
				return qlAnswer{Out: "bad-op"}
			}
			restartAlias[o.nq] = true
		case 'T':
			if !timed {
				return qlAnswer{Out: "bad-op"}
			}
		}
	}
	for a := range restartAlias {
		if startedAlias[a] {
			return qlAnswer{Out: "bad-op"}
		}
	}

	if timed {
		config.SetQueryTimeoutSecs(1)
	} else {
		config.SetQueryTimeoutSecs(300)
	}
	query.VerifResetTables()
	saved := query.MAX_RUNNING_QUERIES
	query.MAX_RUNNING_QUERIES = uint64(m)
	defer func() { query.MAX_RUNNING_QUERIES = saved }()

	base := caseNo * 10000000
	real := map[int]uint64{}  // alias → real qid
	alias := map[uint64]int{} // real qid → alias
	qidOf := func(a int) uint64 {
		if q, ok := real[a]; ok {
			return q
		}
		q := base + uint64(a)
		real[a] = q
		alias[q] = a
		return q
	}
	type histKey struct {
		ch  chan *query.QueryStateChanData
		qid uint64
	}
	hist := map[histKey][]int{}                          // (channel, real qid) → state names read so far; a restart shares the channel
	chans := map[uint64]chan *query.QueryStateChanData{} // real qid → its latest StateChan
	admittedAt := map[uint64]time.Time{}                 // running, timer not yet seen to have fired
	forced := 0
	interesting := false
	var toks []string
	capN := query.VerifChanCap()

	drainChan := func(ch chan *query.QueryStateChanData) {
		for len(ch) > 0 {
			d := <-ch
			hist[histKey{ch, d.Qid}] = append(hist[histKey{ch, d.Qid}], int(d.StateName))
		}
	}
	blockedCall := func(shape string) qlAnswer {
		fn := strings.SplitN(shape, "/", 2)[0]
		ans.Out = "call-blocked"
		ans.Nontrivial = true
		ans.Blocked = shape
		if qlSkipShapes[shape] {
			ans.Fails = append(ans.Fails, PropFail{Sig: "query-lifecycle/call-blocked/" + fn,
				Msg: fmt.Sprintf("%s (%s, op %d of the line): not re-tried, the same call did not return within %v in %d earlier cases of this run", fn, shape, len(toks)+1, qlCallDeadline, qlKnownAfter)})
			return ans
		}
		ans.Abandon = true
		ans.Fails = append(ans.Fails, PropFail{Sig: "query-lifecycle/call-blocked/" + fn,
			Msg: fmt.Sprintf("%s (%s) did not return within %v (op %d of the line); the goroutine is abandoned", fn, shape, qlCallDeadline, len(toks)+1)})
		probe := base + 9999999
		if ok, _ := qlCall(qlProbeDeadline, func() { _, _ = query.StartQuery(probe, false, nil, false) }); !ok {
			ans.Fails = append(ans.Fails, PropFail{Sig: "query-lifecycle/table-lock-held-forever",
				Msg: fmt.Sprintf("after the blocked %s, StartQuery of a fresh qid does not return within %v: the query tables are locked for every other query", fn, qlProbeDeadline)})
		}
		return ans
	}
	// guarded runs one real call: under the watchdog, or not at all when its shape is known to block
	guarded := func(shape string, fn func()) bool {
		if qlSkipShapes[shape] {
			return false
		}
		okc, p := qlCall(qlCallDeadline, fn)
		if p != nil {
			panic(p)
		}
		return okc
	}
	fw := func(force bool) string {
		if force {
			return "force"
		}
		return "wait"
	}
	wouldBlock := func() qlAnswer {
		// a send under a table lock would meet a full channel: not executed (the model answers would-block too)
		for q := range chans {
			if query.VerifRunningObj(q) != nil {
				query.DeleteQuery(q)
			}
		}
		query.VerifResetTables()
		return qlAnswer{Out: "would-block", Tags: []string{"would-block"}}
	}
	noteAdmission := func(q uint64, before bool) {
		if !before && query.VerifRunningObj(q) != nil {
			admittedAt[q] = time.Now()
		}
	}

	for _, o := range ops {
		if timed && o.kind != 'T' {
			for _, at := range admittedAt {
				if time.Since(at) > 700*time.Millisecond {
					// the quick operations since this admission took so long that its timer may fire among them
					return qlAnswer{Out: "clock-slipped", Retry: true, Tags: []string{"clock-slipped"}}
				}
			}
		}
		outTok := "noop"
		infoQ := uint64(0)
		hasInfo := false
		switch o.kind {
		case 's', 'S':
			q := qidOf(o.q)
			infoQ, hasInfo = q, true
			wasRunning := query.VerifRunningObj(q) != nil
			var rq *query.RunningQueryState
			var err error
			name := "StartQuery/" + fw(o.force)
			if o.kind == 'S' {
				name = "StartQueryAsCoordinator/" + fw(o.force)
			}
			if !guarded(name, func() {
				if o.kind == 's' {
					rq, err = query.StartQuery(q, false, nil, o.force)
				} else {
					rq, err = query.StartQueryAsCoordinator(q, false, nil, nil, nil, nil, nil, o.force)
				}
			}) {
				return blockedCall(name)
			}
			if err != nil {
				outTok = "rej"
			} else {
				outTok = "ok"
				chans[q] = rq.StateChan
				if o.force {
					forced++
				}
				noteAdmission(q, wasRunning)
			}
		case 'p':
			head := query.VerifWaitingHead()
			if head != nil && query.VerifCanRunQuery() && !head.VerifIsCancelled() && len(head.StateChan)+2 > capN {
				return wouldBlock()
			}
			before := query.VerifWaitingLen()
			var headQ []uint64
			if wq := query.VerifWaitingQids(); len(wq) > 0 {
				headQ = wq[:1]
			}
			wasRunning := len(headQ) > 0 && query.VerifRunningObj(headQ[0]) != nil
			if !guarded("PullQueriesToRun", query.VerifPullOnce) {
				return blockedCall("PullQueriesToRun")
			}
			if query.VerifWaitingLen() < before {
				outTok = "ok"
				if len(headQ) > 0 {
					if wasRunning { // the queued object replaced a running one of the same qid: a new admission
						admittedAt[headQ[0]] = time.Now()
					} else {
						noteAdmission(headQ[0], false)
					}
				}
			}
		case 'c':
			q := qidOf(o.q)
			infoQ, hasInfo = q, true
			interesting = true
			obj := query.VerifRunningObj(q)
			wobj := query.VerifWaitingObj(q)
			if obj != nil || wobj != nil {
				outTok = "ok"
			}
			if obj != nil && len(obj.StateChan) >= capN {
				return wouldBlock()
			}
			if obj == nil && wobj != nil && len(wobj.StateChan) >= capN {
				return wouldBlock()
			}
			if obj == nil && wobj != nil {
				chans[q] = wobj.StateChan
			}
			shape := "CancelQuery/absent"
			if obj != nil {
				shape = "CancelQuery/running"
			} else if wobj != nil {
				shape = "CancelQuery/waiting"
			}
			if !guarded(shape, func() { query.CancelQuery(q) }) {
				return blockedCall(shape)
			}
		case 'd':
			q := qidOf(o.q)
			infoQ, hasInfo = q, true
			interesting = true
			shape := "DeleteQuery/absent"
			if obj := query.VerifRunningObj(q); obj != nil {
				outTok = "ok"
				shape = "DeleteQuery/running"
				if obj.VerifIsCancelled() {
					shape = "DeleteQuery/cancelled"
				}
			}
			if !guarded(shape, func() { query.DeleteQuery(q) }) {
				return blockedCall(shape)
			}
			delete(admittedAt, q)
		case 'r':
			q := qidOf(o.q)
			infoQ, hasInfo = q, true
			if obj := query.VerifRunningObj(q); obj != nil {
				outTok = "ok"
				drainChan(obj.StateChan)
			}
		case 'k', 'e':
			q := qidOf(o.q)
			infoQ, hasInfo = q, true
			if obj := query.VerifRunningObj(q); obj != nil && len(obj.StateChan) < capN {
				outTok = "ok"
				name := "SendQueryStateComplete"
				if o.kind == 'e' {
					name = "StateChan<-ERROR"
				}
				if !guarded(name, func() {
					if o.kind == 'k' {
						obj.SendQueryStateComplete()
					} else {
						// as ExecuteQueryInternalNewPipeline (segexecution.go) reports a failure
						obj.StateChan <- &query.QueryStateChanData{StateName: query.ERROR, Qid: q, Error: fmt.Errorf("verif")}
					}
				}) {
					return blockedCall(name)
				}
			}
		case 'R':
			q := qidOf(o.q)
			interesting = true
			obj := query.VerifRunningObj(q)
			if obj == nil {
				// only running queries receive QUERY_RESTART; the alias stays unbound
				hasInfo = false
				break
			}
			cancelled := obj.VerifIsCancelled()
			coord := obj.IsCoordinator()
			if !cancelled && coord && o.force && len(obj.StateChan)+2 > capN {
				return wouldBlock()
			}
			var nrq *query.RunningQueryState
			var nqid uint64
			var err error
			shape := "RestartQuery/live"
			if cancelled {
				shape = "RestartQuery/cancelled"
			}
			if coord {
				shape += "/coord/" + fw(o.force)
			} else {
				shape += "/plain/" + fw(o.force)
			}
			if !guarded(shape, func() { nrq, nqid, err = obj.RestartQuery(o.force) }) {
				return blockedCall(shape)
			}
			if !cancelled {
				delete(admittedAt, q) // the old entry is gone (withLockDeleteQuery stopped its timer)
			}
			if err != nil {
				outTok = "rej"
			} else {
				outTok = "ok"
				real[o.nq] = nqid
				alias[nqid] = o.nq
				chans[nqid] = nrq.StateChan
				infoQ, hasInfo = nqid, true
				noteAdmission(nqid, false)
			}
		case 'T':
			interesting = true
			outTok = "T"
			tStart := time.Now()
			type pend struct {
				q       uint64
				obj     *query.RunningQueryState
				len0    int
				mustCut bool
			}
			var pends []pend
			latest := tStart.Add(-time.Hour)
			for q, at := range admittedAt {
				obj := query.VerifRunningObj(q)
				if obj == nil {
					delete(admittedAt, q)
					continue
				}
				l := len(obj.StateChan)
				if l == capN-1 {
					return wouldBlock()
				}
				if l >= capN {
					continue // the timer goroutine will wait on its own send; nothing to expect
				}
				pends = append(pends, pend{q, obj, l, !obj.VerifIsCancelled()})
				if at.After(latest) {
					latest = at
				}
			}
			minEnd := tStart.Add(1300 * time.Millisecond)
			hardEnd := latest.Add(3 * time.Second)
			for {
				all := true
				for _, p := range pends {
					if len(p.obj.StateChan) < p.len0+2 || !p.obj.VerifIsCancelled() {
						all = false
					}
				}
				now := time.Now()
				if all && now.After(minEnd) {
					break
				}
				if !all && now.After(hardEnd) && now.After(minEnd) {
					break
				}
				time.Sleep(10 * time.Millisecond)
			}
			for _, p := range pends {
				fired := len(p.obj.StateChan) >= p.len0+2 && p.obj.VerifIsCancelled()
				if fired {
					delete(admittedAt, p.q)
				} else if p.mustCut {
					ans.Fails = append(ans.Fails, PropFail{Sig: "query-lifecycle/admitted-query-never-times-out",
						Msg: fmt.Sprintf("query (alias %d) was admitted %.1f s ago with queryTimeoutSecs=1 and is still running un-cancelled: no TIMEOUT/CANCELLED on its channel (%d → %d messages)",
							alias[p.q], time.Since(admittedAt[p.q]).Seconds(), p.len0, len(p.obj.StateChan))})
					delete(admittedAt, p.q)
				}
			}
		}
		// observation after the operation (guarded: the getters take the table locks)
		var nrun, nwait int
		info := "-:-"
		okc, p := qlCall(qlCallDeadline, func() {
			nrun = query.GetActiveQueryCount()
			nwait = query.VerifWaitingLen()
			if hasInfo {
				if obj := query.VerifRunningObj(infoQ); obj != nil {
					c := 0
					if obj.VerifIsCancelled() {
						c = 1
					}
					info = fmt.Sprintf("%d:%d", len(obj.StateChan), c)
				}
			}
		})
		if !okc {
			return blockedCall("GetActiveQueryCount")
		}
		if p != nil {
			panic(p)
		}
		toks = append(toks, fmt.Sprintf("%s:%d:%d:%s", outTok, nrun, nwait, info))
		if nrun > m+forced {
			ans.Fails = append(ans.Fails, PropFail{Sig: "query-lifecycle/admission-limit-exceeded",
				Msg: fmt.Sprintf("after op %d (%s) the running table holds %d queries; MAX_RUNNING_QUERIES=%d, forced starts so far %d", len(toks), f[1+len(toks)], nrun, m, forced)})
		}
		if nwait > query.MAX_WAITING_QUERIES {
			ans.Fails = append(ans.Fails, PropFail{Sig: "query-waiting-limit-exceeded", Msg: "waiting queue above MAX_WAITING_QUERIES"})
		}
	}

	// liveness probe: the tables must still be usable by another query
	probe := base + 9999999
	if ok, _ := qlCall(qlProbeDeadline, func() {
		_, _ = query.StartQuery(probe, false, nil, false)
		query.CancelQuery(probe)
	}); !ok {
		ans.Out = "table-locked"
		ans.Abandon = true
		ans.Nontrivial = true
		ans.Fails = append(ans.Fails, PropFail{Sig: "query-lifecycle/table-lock-held-forever",
			Msg: fmt.Sprintf("after the sequence, StartQuery+CancelQuery of a fresh qid do not return within %v: the query tables are locked for every other query", qlProbeDeadline)})
		return ans
	}

	// final dump: running entries sorted by alias, queue in order
	b01 := func(b bool) string {
		if b {
			return "1"
		}
		return "0"
	}
	type ent struct {
		a int
		s string
	}
	var ents []ent
	for _, q := range query.VerifRunningQids() {
		obj := query.VerifRunningObj(q)
		if obj == nil {
			continue
		}
		drainChan(obj.StateChan)
		var hs []string
		for _, h := range hist[histKey{obj.StateChan, q}] {
			hs = append(hs, strconv.Itoa(h))
		}
		a, known := alias[q]
		if !known {
			a = -1
		}
		ents = append(ents, ent{a, fmt.Sprintf("%d/%s/%s/%s/%s", a, b01(obj.VerifIsCancelled()), b01(obj.IsCoordinator()), b01(obj.VerifTimeoutArmed()), strings.Join(hs, "."))})
	}
	sort.Slice(ents, func(i, j int) bool { return ents[i].a < ents[j].a })
	var fin []string
	for _, e := range ents {
		fin = append(fin, e.s)
	}
	var wq []string
	for _, q := range query.VerifWaitingQids() {
		a, known := alias[q]
		if !known {
			a = -1
		}
		armed := false
		if o := query.VerifWaitingObj(q); o != nil {
			armed = o.VerifTimeoutArmed()
		}
		wq = append(wq, fmt.Sprintf("%d/%s", a, b01(armed)))
	}
	dash := func(l []string) string {
		if len(l) == 0 {
			return "-"
		}
		return strings.Join(l, ",")
	}
	// cleanup: stop the timer goroutines of everything still running
	for _, q := range query.VerifRunningQids() {
		query.DeleteQuery(q)
	}
	query.VerifResetTables()
	ans.Out = strings.Join(toks, " ") + " final=" + dash(fin) + " W=" + dash(wq)
	ans.Nontrivial = len(ops) >= 4 && interesting
	ans.Tags = []string{fmt.Sprintf("ops<=%d", (len(ops)/10+1)*10), fmt.Sprintf("maxrun=%d", m)}
	if timed {
		ans.Tags = append(ans.Tags, "timed")
	}
	for _, o := range ops {
		if o.kind == 'R' {
			ans.Tags = append(ans.Tags, "restart")
			break
		}
	}
	return ans
}

func init() { registerWorker("c17worker", c17WorkerMain) }
